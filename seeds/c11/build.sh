#!/bin/sh
# Regenerates the committed C11 seed objects (NOT run by ./check: the binaries are committed so that no
# compiler is needed at check time).  gcc 12.2, clang 14, binutils 2.40.
set -e
cd "$(dirname "$0")"
S=src; B=bin
rm -f $B/*
LINK="-nostdlib -static -fno-pie -Wl,--build-id=none -Wl,-n"
for v in 2 3 4 5; do
  gcc -O1 -gdwarf-$v $LINK -o $B/gcc_d${v}_exe $S/a.c $S/b.c
  clang -O1 -gdwarf-$v $LINK -o $B/clang_d${v}_exe $S/a.c $S/b.c
done
gcc -O1 -gdwarf-5 -gdwarf64 $LINK -o $B/gcc_d5_dwarf64_exe $S/a.c $S/b.c
gcc -m32 -O1 -gdwarf-4 $LINK -o $B/gcc_d4_m32_exe $S/a.c $S/b.c
clang -m32 -O1 -gdwarf-5 $LINK -o $B/clang_d5_m32_exe $S/a.c $S/b.c
gcc -O0 -gdwarf-5 -c -o $B/gcc_d5_obj.o $S/a.c
gcc -O1 -gdwarf-2 -c -o $B/gcc_d2_obj.o $S/b.c
gcc -O1 -gdwarf-4 -gdwarf64 -c -o $B/gcc_d4_dwarf64_obj.o $S/b.c
gcc -m32 -O1 -gdwarf-4 -c -o $B/gcc_d4_m32_obj.o $S/a.c
clang -O1 -gdwarf-5 -c -o $B/clang_d5_obj.o $S/a.c
clang -m32 -O0 -gdwarf-3 -c -o $B/clang_d3_m32_obj.o $S/b.c
g++ -O0 -gdwarf-4 -fdebug-types-section -fno-exceptions -fno-rtti $LINK -o $B/gxx_d4_types_exe $S/c.cpp
g++ -O0 -gdwarf-5 -fdebug-types-section -fno-exceptions -fno-rtti -c -o $B/gxx_d5_types_obj.o $S/c.cpp
# container variants made by binutils (the harness also makes its own with the Coq builders)
for f in $B/*; do
  case "$f" in *.zlib|*.zgnu|*.dbg|*.stripped) continue;; esac
  objcopy --compress-debug-sections=zlib $f $f.zlib
  objcopy --compress-debug-sections=zlib-gnu $f $f.zgnu
  objcopy --only-keep-debug $f $f.dbg
  objcopy --strip-debug --add-gnu-debuglink=$f.dbg $f $f.stripped
done
# a keep-debug file that is itself compressed (gABI / legacy) behind a link
objcopy --only-keep-debug --compress-debug-sections=zlib $B/gcc_d5_exe $B/gcc_d5_exe.zdbg
objcopy --strip-debug --add-gnu-debuglink=$B/gcc_d5_exe.zdbg $B/gcc_d5_exe $B/gcc_d5_exe.zstripped
ls -la $B | awk '{s+=$5} END {print NR-1 " files, " s " bytes"}'
