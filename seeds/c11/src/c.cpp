// C++ payload: classes, templates, namespaces (type units with -fdebug-types-section)
namespace geo {
struct Shape { virtual ~Shape() {} virtual int area() const = 0; int id = 0; };
template <typename T> struct Box : Shape { T w, h; Box(T a, T b) : w(a), h(b) {} int area() const override { return (int)(w * h); } };
struct Named { const char *name; int len; };
}
int total(const geo::Shape &s, const geo::Named &n) { return s.area() + n.len; }
extern "C" void _start(void) { geo::Box<int> b(2, 3); geo::Box<double> c(1.5, 2.0); geo::Named n = { "x", 1 };
  volatile int r = total(b, n) + total(c, n); (void)r; for (;;) ; }
void operator delete(void *, unsigned long) {}
void operator delete(void *) {}
extern "C" void __cxa_pure_virtual(void) {}
