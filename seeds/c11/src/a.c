/* seed payload for C11: structs, a loop, a static function, a global array */
struct pt { int x; long y; const char *tag; };
enum color { RED, GREEN = 5, BLUE };
typedef unsigned char u8;
u8 table[16] = { 1, 2, 3 };
volatile enum color current = GREEN;
static int sq(int v) { return v * v; }
int area(struct pt *p) {
    int r = 0;
    for (int i = 0; i < p->x; i++) { r += sq(i) + (int)p->y; if (table[i & 15]) r ^= i; }
    return r;
}
extern double mix(double a, int k);
int main(int argc, char **argv) {
    struct pt p = { argc, 3, "seed" };
    (void)argv;
    return area(&p) + (int)mix(1.5, argc) + (int)current;
}
void _start(void) { main(1, 0); for (;;) ; }
