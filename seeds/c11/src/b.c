/* second compile unit: floating point, switch, union, function pointer */
union bits { double d; unsigned long long u; unsigned char raw[8]; };
typedef double (*binop)(double, double);
static double add(double a, double b) { return a + b; }
static double mul(double a, double b) { return a * b; }
static inline double pick(int k, double a) {
    binop f = (k & 1) ? add : mul;
    switch (k) { case 0: return a; case 1: return f(a, 2.0); case 7: return f(a, a); default: return f(a, k); }
}
double mix(double a, int k) {
    union bits b; double acc = 0;
    for (int i = 0; i < k; i++) { b.d = pick(i, a); b.raw[0] ^= (unsigned char)i; acc += b.d; }
    return acc;
}
