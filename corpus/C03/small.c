int fooAz(void) { return 1; }
int fooBY(void) { return 2; }
int bar(int x) { return x + 1; }
int baz_variable = 7;
static int hidden_helper(void) { return 3; }
int call_helper(void) { return hidden_helper(); }
extern int puts(const char *);
int say(void) { return puts("hi"); }
