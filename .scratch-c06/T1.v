From PV Require Import Spec.C06View.
From Coq Require Import ZifyBool.
Ltac Zify.zify_post_hook ::= Z.to_euclidean_division_equations.
Open Scope Z_scope.

Definition all_below (n : nat) (f : Z -> bool) : bool := forallb f (map Z.of_nat (seq 0 n)).
Lemma all_below_spec n f : all_below n f = true -> forall x, 0 <= x < Z.of_nat n -> f x = true.
Proof.
  intros H x Hx. unfold all_below in H. rewrite forallb_forall in H. apply H.
  apply in_map_iff. exists (Z.to_nat x). split; [lia|]. apply in_seq. lia.
Qed.
Lemma land_masks x : 0 <= x < 256 ->
  Z.land x 192 = 64 * (x / 64) /\ Z.land x 63 = x mod 64.
Proof.
  intros H.
  pose proof (all_below_spec 256
    (fun x => (Z.land x 192 =? 64 * (x / 64)) && (Z.land x 63 =? x mod 64))
    ltac:(vm_compute; reflexivity) x H) as E.
  cbv beta in E. lia.
Qed.

Lemma name_def_cfa : instruction_name 12 = Ok "DW_CFA_def_cfa"%string.
Proof. reflexivity. Qed.

Lemma name_advance d : 0 <= d < 64 -> instruction_name (0x40 + d) = Ok "DW_CFA_advance_loc"%string.
Proof.
  intros H. unfold instruction_name, PRIMARY_MASK.
  destruct (land_masks (0x40 + d)) as [E _]; [lia|]. rewrite E.
  replace ((0x40 + d) / 64) with 1 by lia. reflexivity.
Qed.

Goal forall is_FDE caf daf ll s r o,
  decode_step is_FDE caf daf ll s (to_raw (I_def_cfa r o)) =
  Ok (set_cfa s (mkCFARule (Some (lv r)) (Some (lv o)) None)).
Proof.
  intros. unfold decode_step, to_raw. cbn [opcode args opcode_of args_of].
  rewrite name_def_cfa. cbn [bind].
  Time cbn -[Z.mul Z.add].
  reflexivity.
Qed.
