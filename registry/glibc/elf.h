/* This file defines standard ELF types, structures, and macros.
   Copyright (C) 1995-2022 Free Software Foundation, Inc.
   This file is part of the GNU C Library.

   The GNU C Library is free software; you can redistribute it and/or
   modify it under the terms of the GNU Lesser General Public
   License as published by the Free Software Foundation; either
   version 2.1 of the License, or (at your option) any later version.

   The GNU C Library is distributed in the hope that it will be useful,
   but WITHOUT ANY WARRANTY; without even the implied warranty of
   MERCHANTABILITY or FITNESS FOR A PARTICULAR PURPOSE.  See the GNU
   Lesser General Public License for more details.

   You should have received a copy of the GNU Lesser General Public
   License along with the GNU C Library; if not, see
   <https://www.gnu.org/licenses/>.  */

#ifndef _ELF_H
#define	_ELF_H 1

/* Standard ELF types.  */

#include <stdint.h>

/* Type for a 16-bit quantity.  */
typedef uint16_t Elf32_Half;
typedef uint16_t Elf64_Half;

/* Types for signed and unsigned 32-bit quantities.  */
typedef uint32_t Elf32_Word;
typedef	int32_t  Elf32_Sword;
typedef uint32_t Elf64_Word;
typedef	int32_t  Elf64_Sword;

/* Types for signed and unsigned 64-bit quantities.  */
typedef uint64_t Elf32_Xword;
typedef	int64_t  Elf32_Sxword;
typedef uint64_t Elf64_Xword;
typedef	int64_t  Elf64_Sxword;

/* Type of addresses.  */
typedef uint32_t Elf32_Addr;
typedef uint64_t Elf64_Addr;

/* Type of file offsets.  */
typedef uint32_t Elf32_Off;
typedef uint64_t Elf64_Off;

/* Type for section indices, which are 16-bit quantities.  */
typedef uint16_t Elf32_Section;
typedef uint16_t Elf64_Section;

/* Type for version symbol information.  */
typedef Elf32_Half Elf32_Versym;
typedef Elf64_Half Elf64_Versym;


/* The ELF file header.  This appears at the start of every ELF file.  */

#define EI_NIDENT (16)

typedef struct
{
  unsigned char	e_ident[EI_NIDENT];	/* Magic number and other info */
  Elf32_Half	e_type;			/* Object file type */
  Elf32_Half	e_machine;		/* Architecture */
  Elf32_Word	e_version;		/* Object file version */
  Elf32_Addr	e_entry;		/* Entry point virtual address */
  Elf32_Off	e_phoff;		/* Program header table file offset */
  Elf32_Off	e_shoff;		/* Section header table file offset */
  Elf32_Word	e_flags;		/* Processor-specific flags */
  Elf32_Half	e_ehsize;		/* ELF header size in bytes */
  Elf32_Half	e_phentsize;		/* Program header table entry size */
  Elf32_Half	e_phnum;		/* Program header table entry count */
  Elf32_Half	e_shentsize;		/* Section header table entry size */
  Elf32_Half	e_shnum;		/* Section header table entry count */
  Elf32_Half	e_shstrndx;		/* Section header string table index */
} Elf32_Ehdr;

typedef struct
{
  unsigned char	e_ident[EI_NIDENT];	/* Magic number and other info */
  Elf64_Half	e_type;			/* Object file type */
  Elf64_Half	e_machine;		/* Architecture */
  Elf64_Word	e_version;		/* Object file version */
  Elf64_Addr	e_entry;		/* Entry point virtual address */
  Elf64_Off	e_phoff;		/* Program header table file offset */
  Elf64_Off	e_shoff;		/* Section header table file offset */
  Elf64_Word	e_flags;		/* Processor-specific flags */
  Elf64_Half	e_ehsize;		/* ELF header size in bytes */
  Elf64_Half	e_phentsize;		/* Program header table entry size */
  Elf64_Half	e_phnum;		/* Program header table entry count */
  Elf64_Half	e_shentsize;		/* Section header table entry size */
  Elf64_Half	e_shnum;		/* Section header table entry count */
  Elf64_Half	e_shstrndx;		/* Section header string table index */
} Elf64_Ehdr;

/* Fields in the e_ident array.  The EI_* macros are indices into the
   array.  The macros under each EI_* macro are the values the byte
   may have.  */

#define EI_MAG0		0		/* File identification byte 0 index */
#define ELFMAG0		0x7f		/* Magic number byte 0 */

#define EI_MAG1		1		/* File identification byte 1 index */
#define ELFMAG1		'E'		/* Magic number byte 1 */

#define EI_MAG2		2		/* File identification byte 2 index */
#define ELFMAG2		'L'		/* Magic number byte 2 */

#define EI_MAG3		3		/* File identification byte 3 index */
#define ELFMAG3		'F'		/* Magic number byte 3 */

/* Conglomeration of the identification bytes, for easy testing as a word.  */
#define	ELFMAG		"\177ELF"
#define	SELFMAG		4

#define EI_CLASS	4		/* File class byte index */
#define ELFCLASSNONE	0		/* Invalid class */
#define ELFCLASS32	1		/* 32-bit objects */
#define ELFCLASS64	2		/* 64-bit objects */
#define ELFCLASSNUM	3

#define EI_DATA		5		/* Data encoding byte index */
#define ELFDATANONE	0		/* Invalid data encoding */
#define ELFDATA2LSB	1		/* 2's complement, little endian */
#define ELFDATA2MSB	2		/* 2's complement, big endian */
#define ELFDATANUM	3

#define EI_VERSION	6		/* File version byte index */
					/* Value must be EV_CURRENT */

#define EI_OSABI	7		/* OS ABI identification */
#define ELFOSABI_NONE		0	/* UNIX System V ABI */
#define ELFOSABI_SYSV		0	/* Alias.  */
#define ELFOSABI_HPUX		1	/* HP-UX */
#define ELFOSABI_NETBSD		2	/* NetBSD.  */
#define ELFOSABI_GNU		3	/* Object uses GNU ELF extensions.  */
#define ELFOSABI_LINUX		ELFOSABI_GNU /* Compatibility alias.  */
#define ELFOSABI_SOLARIS	6	/* Sun Solaris.  */
#define ELFOSABI_AIX		7	/* IBM AIX.  */
#define ELFOSABI_IRIX		8	/* SGI Irix.  */
#define ELFOSABI_FREEBSD	9	/* FreeBSD.  */
#define ELFOSABI_TRU64		10	/* Compaq TRU64 UNIX.  */
#define ELFOSABI_MODESTO	11	/* Novell Modesto.  */
#define ELFOSABI_OPENBSD	12	/* OpenBSD.  */
#define ELFOSABI_ARM_AEABI	64	/* ARM EABI */
#define ELFOSABI_ARM		97	/* ARM */
#define ELFOSABI_STANDALONE	255	/* Standalone (embedded) application */

#define EI_ABIVERSION	8		/* ABI version */

#define EI_PAD		9		/* Byte index of padding bytes */

/* Legal values for e_type (object file type).  */

#define ET_NONE		0		/* No file type */
#define ET_REL		1		/* Relocatable file */
#define ET_EXEC		2		/* Executable file */
#define ET_DYN		3		/* Shared object file */
#define ET_CORE		4		/* Core file */
#define	ET_NUM		5		/* Number of defined types */
#define ET_LOOS		0xfe00		/* OS-specific range start */
#define ET_HIOS		0xfeff		/* OS-specific range end */
#define ET_LOPROC	0xff00		/* Processor-specific range start */
#define ET_HIPROC	0xffff		/* Processor-specific range end */

/* Legal values for e_machine (architecture).  */

#define EM_NONE		 0	/* No machine */
#define EM_M32		 1	/* AT&T WE 32100 */
#define EM_SPARC	 2	/* SUN SPARC */
#define EM_386		 3	/* Intel 80386 */
#define EM_68K		 4	/* Motorola m68k family */
#define EM_88K		 5	/* Motorola m88k family */
#define EM_IAMCU	 6	/* Intel MCU */
#define EM_860		 7	/* Intel 80860 */
#define EM_MIPS		 8	/* MIPS R3000 big-endian */
#define EM_S370		 9	/* IBM System/370 */
#define EM_MIPS_RS3_LE	10	/* MIPS R3000 little-endian */
				/* reserved 11-14 */
#define EM_PARISC	15	/* HPPA */
				/* reserved 16 */
#define EM_VPP500	17	/* Fujitsu VPP500 */
#define EM_SPARC32PLUS	18	/* Sun's "v8plus" */
#define EM_960		19	/* Intel 80960 */
#define EM_PPC		20	/* PowerPC */
#define EM_PPC64	21	/* PowerPC 64-bit */
#define EM_S390		22	/* IBM S390 */
#define EM_SPU		23	/* IBM SPU/SPC */
				/* reserved 24-35 */
#define EM_V800		36	/* NEC V800 series */
#define EM_FR20		37	/* Fujitsu FR20 */
#define EM_RH32		38	/* TRW RH-32 */
#define EM_RCE		39	/* Motorola RCE */
#define EM_ARM		40	/* ARM */
#define EM_FAKE_ALPHA	41	/* Digital Alpha */
#define EM_SH		42	/* Hitachi SH */
#define EM_SPARCV9	43	/* SPARC v9 64-bit */
#define EM_TRICORE	44	/* Siemens Tricore */
#define EM_ARC		45	/* Argonaut RISC Core */
#define EM_H8_300	46	/* Hitachi H8/300 */
#define EM_H8_300H	47	/* Hitachi H8/300H */
#define EM_H8S		48	/* Hitachi H8S */
#define EM_H8_500	49	/* Hitachi H8/500 */
#define EM_IA_64	50	/* Intel Merced */
#define EM_MIPS_X	51	/* Stanford MIPS-X */
#define EM_COLDFIRE	52	/* Motorola Coldfire */
#define EM_68HC12	53	/* Motorola M68HC12 */
#define EM_MMA		54	/* Fujitsu MMA Multimedia Accelerator */
#define EM_PCP		55	/* Siemens PCP */
#define EM_NCPU		56	/* Sony nCPU embeeded RISC */
#define EM_NDR1		57	/* Denso NDR1 microprocessor */
#define EM_STARCORE	58	/* Motorola Start*Core processor */
#define EM_ME16		59	/* Toyota ME16 processor */
#define EM_ST100	60	/* STMicroelectronic ST100 processor */
#define EM_TINYJ	61	/* Advanced Logic Corp. Tinyj emb.fam */
#define EM_X86_64	62	/* AMD x86-64 architecture */
#define EM_PDSP		63	/* Sony DSP Processor */
#define EM_PDP10	64	/* Digital PDP-10 */
#define EM_PDP11	65	/* Digital PDP-11 */
#define EM_FX66		66	/* Siemens FX66 microcontroller */
#define EM_ST9PLUS	67	/* STMicroelectronics ST9+ 8/16 mc */
#define EM_ST7		68	/* STmicroelectronics ST7 8 bit mc */
#define EM_68HC16	69	/* Motorola MC68HC16 microcontroller */
#define EM_68HC11	70	/* Motorola MC68HC11 microcontroller */
#define EM_68HC08	71	/* Motorola MC68HC08 microcontroller */
#define EM_68HC05	72	/* Motorola MC68HC05 microcontroller */
#define EM_SVX		73	/* Silicon Graphics SVx */
#define EM_ST19		74	/* STMicroelectronics ST19 8 bit mc */
#define EM_VAX		75	/* Digital VAX */
#define EM_CRIS		76	/* Axis Communications 32-bit emb.proc */
#define EM_JAVELIN	77	/* Infineon Technologies 32-bit emb.proc */
#define EM_FIREPATH	78	/* Element 14 64-bit DSP Processor */
#define EM_ZSP		79	/* LSI Logic 16-bit DSP Processor */
#define EM_MMIX		80	/* Donald Knuth's educational 64-bit proc */
#define EM_HUANY	81	/* Harvard University machine-independent object files */
#define EM_PRISM	82	/* SiTera Prism */
#define EM_AVR		83	/* Atmel AVR 8-bit microcontroller */
#define EM_FR30		84	/* Fujitsu FR30 */
#define EM_D10V		85	/* Mitsubishi D10V */
#define EM_D30V		86	/* Mitsubishi D30V */
#define EM_V850		87	/* NEC v850 */
#define EM_M32R		88	/* Mitsubishi M32R */
#define EM_MN10300	89	/* Matsushita MN10300 */
#define EM_MN10200	90	/* Matsushita MN10200 */
#define EM_PJ		91	/* picoJava */
#define EM_OPENRISC	92	/* OpenRISC 32-bit embedded processor */
#define EM_ARC_COMPACT	93	/* ARC International ARCompact */
#define EM_XTENSA	94	/* Tensilica Xtensa Architecture */
#define EM_VIDEOCORE	95	/* Alphamosaic VideoCore */
#define EM_TMM_GPP	96	/* Thompson Multimedia General Purpose Proc */
#define EM_NS32K	97	/* National Semi. 32000 */
#define EM_TPC		98	/* Tenor Network TPC */
#define EM_SNP1K	99	/* Trebia SNP 1000 */
#define EM_ST200	100	/* STMicroelectronics ST200 */
#define EM_IP2K		101	/* Ubicom IP2xxx */
#define EM_MAX		102	/* MAX processor */
#define EM_CR		103	/* National Semi. CompactRISC */
#define EM_F2MC16	104	/* Fujitsu F2MC16 */
#define EM_MSP430	105	/* Texas Instruments msp430 */
#define EM_BLACKFIN	106	/* Analog Devices Blackfin DSP */
#define EM_SE_C33	107	/* Seiko Epson S1C33 family */
#define EM_SEP		108	/* Sharp embedded microprocessor */
#define EM_ARCA		109	/* Arca RISC */
#define EM_UNICORE	110	/* PKU-Unity & MPRC Peking Uni. mc series */
#define EM_EXCESS	111	/* eXcess configurable cpu */
#define EM_DXP		112	/* Icera Semi. Deep Execution Processor */
#define EM_ALTERA_NIOS2 113	/* Altera Nios II */
#define EM_CRX		114	/* National Semi. CompactRISC CRX */
#define EM_XGATE	115	/* Motorola XGATE */
#define EM_C166		116	/* Infineon C16x/XC16x */
#define EM_M16C		117	/* Renesas M16C */
#define EM_DSPIC30F	118	/* Microchip Technology dsPIC30F */
#define EM_CE		119	/* Freescale Communication Engine RISC */
#define EM_M32C		120	/* Renesas M32C */
				/* reserved 121-130 */
#define EM_TSK3000	131	/* Altium TSK3000 */
#define EM_RS08		132	/* Freescale RS08 */
#define EM_SHARC	133	/* Analog Devices SHARC family */
#define EM_ECOG2	134	/* Cyan Technology eCOG2 */
#define EM_SCORE7	135	/* Sunplus S+core7 RISC */
#define EM_DSP24	136	/* New Japan Radio (NJR) 24-bit DSP */
#define EM_VIDEOCORE3	137	/* Broadcom VideoCore III */
#define EM_LATTICEMICO32 138	/* RISC for Lattice FPGA */
#define EM_SE_C17	139	/* Seiko Epson C17 */
#define EM_TI_C6000	140	/* Texas Instruments TMS320C6000 DSP */
#define EM_TI_C2000	141	/* Texas Instruments TMS320C2000 DSP */
#define EM_TI_C5500	142	/* Texas Instruments TMS320C55x DSP */
#define EM_TI_ARP32	143	/* Texas Instruments App. Specific RISC */
#define EM_TI_PRU	144	/* Texas Instruments Prog. Realtime Unit */
				/* reserved 145-159 */
#define EM_MMDSP_PLUS	160	/* STMicroelectronics 64bit VLIW DSP */
#define EM_CYPRESS_M8C	161	/* Cypress M8C */
#define EM_R32C		162	/* Renesas R32C */
#define EM_TRIMEDIA	163	/* NXP Semi. TriMedia */
#define EM_QDSP6	164	/* QUALCOMM DSP6 */
#define EM_8051		165	/* Intel 8051 and variants */
#define EM_STXP7X	166	/* STMicroelectronics STxP7x */
#define EM_NDS32	167	/* Andes Tech. compact code emb. RISC */
#define EM_ECOG1X	168	/* Cyan Technology eCOG1X */
#define EM_MAXQ30	169	/* Dallas Semi. MAXQ30 mc */
#define EM_XIMO16	170	/* New Japan Radio (NJR) 16-bit DSP */
#define EM_MANIK	171	/* M2000 Reconfigurable RISC */
#define EM_CRAYNV2	172	/* Cray NV2 vector architecture */
#define EM_RX		173	/* Renesas RX */
#define EM_METAG	174	/* Imagination Tech. META */
#define EM_MCST_ELBRUS	175	/* MCST Elbrus */
#define EM_ECOG16	176	/* Cyan Technology eCOG16 */
#define EM_CR16		177	/* National Semi. CompactRISC CR16 */
#define EM_ETPU		178	/* Freescale Extended Time Processing Unit */
#define EM_SLE9X	179	/* Infineon Tech. SLE9X */
#define EM_L10M		180	/* Intel L10M */
#define EM_K10M		181	/* Intel K10M */
				/* reserved 182 */
#define EM_AARCH64	183	/* ARM AARCH64 */
				/* reserved 184 */
#define EM_AVR32	185	/* Amtel 32-bit microprocessor */
#define EM_STM8		186	/* STMicroelectronics STM8 */
#define EM_TILE64	187	/* Tilera TILE64 */
#define EM_TILEPRO	188	/* Tilera TILEPro */
#define EM_MICROBLAZE	189	/* Xilinx MicroBlaze */
#define EM_CUDA		190	/* NVIDIA CUDA */
#define EM_TILEGX	191	/* Tilera TILE-Gx */
#define EM_CLOUDSHIELD	192	/* CloudShield */
#define EM_COREA_1ST	193	/* KIPO-KAIST Core-A 1st gen. */
#define EM_COREA_2ND	194	/* KIPO-KAIST Core-A 2nd gen. */
#define EM_ARCV2	195	/* Synopsys ARCv2 ISA.  */
#define EM_OPEN8	196	/* Open8 RISC */
#define EM_RL78		197	/* Renesas RL78 */
#define EM_VIDEOCORE5	198	/* Broadcom VideoCore V */
#define EM_78KOR	199	/* Renesas 78KOR */
#define EM_56800EX	200	/* Freescale 56800EX DSC */
#define EM_BA1		201	/* Beyond BA1 */
#define EM_BA2		202	/* Beyond BA2 */
#define EM_XCORE	203	/* XMOS xCORE */
#define EM_MCHP_PIC	204	/* Microchip 8-bit PIC(r) */
#define EM_INTELGT	205	/* Intel Graphics Technology */
				/* reserved 206-209 */
#define EM_KM32		210	/* KM211 KM32 */
#define EM_KMX32	211	/* KM211 KMX32 */
#define EM_EMX16	212	/* KM211 KMX16 */
#define EM_EMX8		213	/* KM211 KMX8 */
#define EM_KVARC	214	/* KM211 KVARC */
#define EM_CDP		215	/* Paneve CDP */
#define EM_COGE		216	/* Cognitive Smart Memory Processor */
#define EM_COOL		217	/* Bluechip CoolEngine */
#define EM_NORC		218	/* Nanoradio Optimized RISC */
#define EM_CSR_KALIMBA	219	/* CSR Kalimba */
#define EM_Z80		220	/* Zilog Z80 */
#define EM_VISIUM	221	/* Controls and Data Services VISIUMcore */
#define EM_FT32		222	/* FTDI Chip FT32 */
#define EM_MOXIE	223	/* Moxie processor */
#define EM_AMDGPU	224	/* AMD GPU */
				/* reserved 225-242 */
#define EM_RISCV	243	/* RISC-V */

#define EM_BPF		247	/* Linux BPF -- in-kernel virtual machine */
#define EM_CSKY		252     /* C-SKY */
#define EM_LOONGARCH	258	/* LoongArch */

#define EM_NUM		259

/* Old spellings/synonyms.  */

#define EM_ARC_A5	EM_ARC_COMPACT

/* If it is necessary to assign new unofficial EM_* values, please
   pick large random numbers (0x8523, 0xa7f2, etc.) to minimize the
   chances of collision with official or non-GNU unofficial values.  */

#define EM_ALPHA	0x9026

/* Legal values for e_version (version).  */

#define EV_NONE		0		/* Invalid ELF version */
#define EV_CURRENT	1		/* Current version */
#define EV_NUM		2

/* Section header.  */

typedef struct
{
  Elf32_Word	sh_name;		/* Section name (string tbl index) */
  Elf32_Word	sh_type;		/* Section type */
  Elf32_Word	sh_flags;		/* Section flags */
  Elf32_Addr	sh_addr;		/* Section virtual addr at execution */
  Elf32_Off	sh_offset;		/* Section file offset */
  Elf32_Word	sh_size;		/* Section size in bytes */
  Elf32_Word	sh_link;		/* Link to another section */
  Elf32_Word	sh_info;		/* Additional section information */
  Elf32_Word	sh_addralign;		/* Section alignment */
  Elf32_Word	sh_entsize;		/* Entry size if section holds table */
} Elf32_Shdr;

typedef struct
{
  Elf64_Word	sh_name;		/* Section name (string tbl index) */
  Elf64_Word	sh_type;		/* Section type */
  Elf64_Xword	sh_flags;		/* Section flags */
  Elf64_Addr	sh_addr;		/* Section virtual addr at execution */
  Elf64_Off	sh_offset;		/* Section file offset */
  Elf64_Xword	sh_size;		/* Section size in bytes */
  Elf64_Word	sh_link;		/* Link to another section */
  Elf64_Word	sh_info;		/* Additional section information */
  Elf64_Xword	sh_addralign;		/* Section alignment */
  Elf64_Xword	sh_entsize;		/* Entry size if section holds table */
} Elf64_Shdr;

/* Special section indices.  */

#define SHN_UNDEF	0		/* Undefined section */
#define SHN_LORESERVE	0xff00		/* Start of reserved indices */
#define SHN_LOPROC	0xff00		/* Start of processor-specific */
#define SHN_BEFORE	0xff00		/* Order section before all others
					   (Solaris).  */
#define SHN_AFTER	0xff01		/* Order section after all others
					   (Solaris).  */
#define SHN_HIPROC	0xff1f		/* End of processor-specific */
#define SHN_LOOS	0xff20		/* Start of OS-specific */
#define SHN_HIOS	0xff3f		/* End of OS-specific */
#define SHN_ABS		0xfff1		/* Associated symbol is absolute */
#define SHN_COMMON	0xfff2		/* Associated symbol is common */
#define SHN_XINDEX	0xffff		/* Index is in extra table.  */
#define SHN_HIRESERVE	0xffff		/* End of reserved indices */

/* Legal values for sh_type (section type).  */

#define SHT_NULL	  0		/* Section header table entry unused */
#define SHT_PROGBITS	  1		/* Program data */
#define SHT_SYMTAB	  2		/* Symbol table */
#define SHT_STRTAB	  3		/* String table */
#define SHT_RELA	  4		/* Relocation entries with addends */
#define SHT_HASH	  5		/* Symbol hash table */
#define SHT_DYNAMIC	  6		/* Dynamic linking information */
#define SHT_NOTE	  7		/* Notes */
#define SHT_NOBITS	  8		/* Program space with no data (bss) */
#define SHT_REL		  9		/* Relocation entries, no addends */
#define SHT_SHLIB	  10		/* Reserved */
#define SHT_DYNSYM	  11		/* Dynamic linker symbol table */
#define SHT_INIT_ARRAY	  14		/* Array of constructors */
#define SHT_FINI_ARRAY	  15		/* Array of destructors */
#define SHT_PREINIT_ARRAY 16		/* Array of pre-constructors */
#define SHT_GROUP	  17		/* Section group */
#define SHT_SYMTAB_SHNDX  18		/* Extended section indices */
#define SHT_RELR	  19            /* RELR relative relocations */
#define	SHT_NUM		  20		/* Number of defined types.  */
#define SHT_LOOS	  0x60000000	/* Start OS-specific.  */
#define SHT_GNU_ATTRIBUTES 0x6ffffff5	/* Object attributes.  */
#define SHT_GNU_HASH	  0x6ffffff6	/* GNU-style hash table.  */
#define SHT_GNU_LIBLIST	  0x6ffffff7	/* Prelink library list */
#define SHT_CHECKSUM	  0x6ffffff8	/* Checksum for DSO content.  */
#define SHT_LOSUNW	  0x6ffffffa	/* Sun-specific low bound.  */
#define SHT_SUNW_move	  0x6ffffffa
#define SHT_SUNW_COMDAT   0x6ffffffb
#define SHT_SUNW_syminfo  0x6ffffffc
#define SHT_GNU_verdef	  0x6ffffffd	/* Version definition section.  */
#define SHT_GNU_verneed	  0x6ffffffe	/* Version needs section.  */
#define SHT_GNU_versym	  0x6fffffff	/* Version symbol table.  */
#define SHT_HISUNW	  0x6fffffff	/* Sun-specific high bound.  */
#define SHT_HIOS	  0x6fffffff	/* End OS-specific type */
#define SHT_LOPROC	  0x70000000	/* Start of processor-specific */
#define SHT_HIPROC	  0x7fffffff	/* End of processor-specific */
#define SHT_LOUSER	  0x80000000	/* Start of application-specific */
#define SHT_HIUSER	  0x8fffffff	/* End of application-specific */

/* Legal values for sh_flags (section flags).  */

#define SHF_WRITE	     (1 << 0)	/* Writable */
#define SHF_ALLOC	     (1 << 1)	/* Occupies memory during execution */
#define SHF_EXECINSTR	     (1 << 2)	/* Executable */
#define SHF_MERGE	     (1 << 4)	/* Might be merged */
#define SHF_STRINGS	     (1 << 5)	/* Contains nul-terminated strings */
#define SHF_INFO_LINK	     (1 << 6)	/* `sh_info' contains SHT index */
#define SHF_LINK_ORDER	     (1 << 7)	/* Preserve order after combining */
#define SHF_OS_NONCONFORMING (1 << 8)	/* Non-standard OS specific handling
					   required */
#define SHF_GROUP	     (1 << 9)	/* Section is member of a group.  */
#define SHF_TLS		     (1 << 10)	/* Section hold thread-local data.  */
#define SHF_COMPRESSED	     (1 << 11)	/* Section with compressed data. */
#define SHF_MASKOS	     0x0ff00000	/* OS-specific.  */
#define SHF_MASKPROC	     0xf0000000	/* Processor-specific */
#define SHF_GNU_RETAIN	     (1 << 21)  /* Not to be GCed by linker.  */
#define SHF_ORDERED	     (1 << 30)	/* Special ordering requirement
					   (Solaris).  */
#define SHF_EXCLUDE	     (1U << 31)	/* Section is excluded unless
					   referenced or allocated (Solaris).*/

/* Section compression header.  Used when SHF_COMPRESSED is set.  */

typedef struct
{
  Elf32_Word	ch_type;	/* Compression format.  */
  Elf32_Word	ch_size;	/* Uncompressed data size.  */
  Elf32_Word	ch_addralign;	/* Uncompressed data alignment.  */
} Elf32_Chdr;

typedef struct
{
  Elf64_Word	ch_type;	/* Compression format.  */
  Elf64_Word	ch_reserved;
  Elf64_Xword	ch_size;	/* Uncompressed data size.  */
  Elf64_Xword	ch_addralign;	/* Uncompressed data alignment.  */
} Elf64_Chdr;

/* Legal values for ch_type (compression algorithm).  */
#define ELFCOMPRESS_ZLIB	1	   /* ZLIB/DEFLATE algorithm.  */
#define ELFCOMPRESS_LOOS	0x60000000 /* Start of OS-specific.  */
#define ELFCOMPRESS_HIOS	0x6fffffff /* End of OS-specific.  */
#define ELFCOMPRESS_LOPROC	0x70000000 /* Start of processor-specific.  */
#define ELFCOMPRESS_HIPROC	0x7fffffff /* End of processor-specific.  */

/* Section group handling.  */
#define GRP_COMDAT	0x1		/* Mark group as COMDAT.  */

/* Symbol table entry.  */

typedef struct
{
  Elf32_Word	st_name;		/* Symbol name (string tbl index) */
  Elf32_Addr	st_value;		/* Symbol value */
  Elf32_Word	st_size;		/* Symbol size */
  unsigned char	st_info;		/* Symbol type and binding */
  unsigned char	st_other;		/* Symbol visibility */
  Elf32_Section	st_shndx;		/* Section index */
} Elf32_Sym;

typedef struct
{
  Elf64_Word	st_name;		/* Symbol name (string tbl index) */
  unsigned char	st_info;		/* Symbol type and binding */
  unsigned char st_other;		/* Symbol visibility */
  Elf64_Section	st_shndx;		/* Section index */
  Elf64_Addr	st_value;		/* Symbol value */
  Elf64_Xword	st_size;		/* Symbol size */
} Elf64_Sym;

/* The syminfo section if available contains additional information about
   every dynamic symbol.  */

typedef struct
{
  Elf32_Half si_boundto;		/* Direct bindings, symbol bound to */
  Elf32_Half si_flags;			/* Per symbol flags */
} Elf32_Syminfo;

typedef struct
{
  Elf64_Half si_boundto;		/* Direct bindings, symbol bound to */
  Elf64_Half si_flags;			/* Per symbol flags */
} Elf64_Syminfo;

/* Possible values for si_boundto.  */
#define SYMINFO_BT_SELF		0xffff	/* Symbol bound to self */
#define SYMINFO_BT_PARENT	0xfffe	/* Symbol bound to parent */
#define SYMINFO_BT_LOWRESERVE	0xff00	/* Beginning of reserved entries */

/* Possible bitmasks for si_flags.  */
#define SYMINFO_FLG_DIRECT	0x0001	/* Direct bound symbol */
#define SYMINFO_FLG_PASSTHRU	0x0002	/* Pass-thru symbol for translator */
#define SYMINFO_FLG_COPY	0x0004	/* Symbol is a copy-reloc */
#define SYMINFO_FLG_LAZYLOAD	0x0008	/* Symbol bound to object to be lazy
					   loaded */
/* Syminfo version values.  */
#define SYMINFO_NONE		0
#define SYMINFO_CURRENT		1
#define SYMINFO_NUM		2


/* How to extract and insert information held in the st_info field.  */

#define ELF32_ST_BIND(val)		(((unsigned char) (val)) >> 4)
#define ELF32_ST_TYPE(val)		((val) & 0xf)
#define ELF32_ST_INFO(bind, type)	(((bind) << 4) + ((type) & 0xf))

/* Both Elf32_Sym and Elf64_Sym use the same one-byte st_info field.  */
#define ELF64_ST_BIND(val)		ELF32_ST_BIND (val)
#define ELF64_ST_TYPE(val)		ELF32_ST_TYPE (val)
#define ELF64_ST_INFO(bind, type)	ELF32_ST_INFO ((bind), (type))

/* Legal values for ST_BIND subfield of st_info (symbol binding).  */

#define STB_LOCAL	0		/* Local symbol */
#define STB_GLOBAL	1		/* Global symbol */
#define STB_WEAK	2		/* Weak symbol */
#define	STB_NUM		3		/* Number of defined types.  */
#define STB_LOOS	10		/* Start of OS-specific */
#define STB_GNU_UNIQUE	10		/* Unique symbol.  */
#define STB_HIOS	12		/* End of OS-specific */
#define STB_LOPROC	13		/* Start of processor-specific */
#define STB_HIPROC	15		/* End of processor-specific */

/* Legal values for ST_TYPE subfield of st_info (symbol type).  */

#define STT_NOTYPE	0		/* Symbol type is unspecified */
#define STT_OBJECT	1		/* Symbol is a data object */
#define STT_FUNC	2		/* Symbol is a code object */
#define STT_SECTION	3		/* Symbol associated with a section */
#define STT_FILE	4		/* Symbol's name is file name */
#define STT_COMMON	5		/* Symbol is a common data object */
#define STT_TLS		6		/* Symbol is thread-local data object*/
#define	STT_NUM		7		/* Number of defined types.  */
#define STT_LOOS	10		/* Start of OS-specific */
#define STT_GNU_IFUNC	10		/* Symbol is indirect code object */
#define STT_HIOS	12		/* End of OS-specific */
#define STT_LOPROC	13		/* Start of processor-specific */
#define STT_HIPROC	15		/* End of processor-specific */


/* Symbol table indices are found in the hash buckets and chain table
   of a symbol hash table section.  This special index value indicates
   the end of a chain, meaning no further symbols are found in that bucket.  */

#define STN_UNDEF	0		/* End of a chain.  */


/* How to extract and insert information held in the st_other field.  */

#define ELF32_ST_VISIBILITY(o)	((o) & 0x03)

/* For ELF64 the definitions are the same.  */
#define ELF64_ST_VISIBILITY(o)	ELF32_ST_VISIBILITY (o)

/* Symbol visibility specification encoded in the st_other field.  */
#define STV_DEFAULT	0		/* Default symbol visibility rules */
#define STV_INTERNAL	1		/* Processor specific hidden class */
#define STV_HIDDEN	2		/* Sym unavailable in other modules */
#define STV_PROTECTED	3		/* Not preemptible, not exported */


/* Relocation table entry without addend (in section of type SHT_REL).  */

typedef struct
{
  Elf32_Addr	r_offset;		/* Address */
  Elf32_Word	r_info;			/* Relocation type and symbol index */
} Elf32_Rel;

/* I have seen two different definitions of the Elf64_Rel and
   Elf64_Rela structures, so we'll leave them out until Novell (or
   whoever) gets their act together.  */
/* The following, at least, is used on Sparc v9, MIPS, and Alpha.  */

typedef struct
{
  Elf64_Addr	r_offset;		/* Address */
  Elf64_Xword	r_info;			/* Relocation type and symbol index */
} Elf64_Rel;

/* Relocation table entry with addend (in section of type SHT_RELA).  */

typedef struct
{
  Elf32_Addr	r_offset;		/* Address */
  Elf32_Word	r_info;			/* Relocation type and symbol index */
  Elf32_Sword	r_addend;		/* Addend */
} Elf32_Rela;

typedef struct
{
  Elf64_Addr	r_offset;		/* Address */
  Elf64_Xword	r_info;			/* Relocation type and symbol index */
  Elf64_Sxword	r_addend;		/* Addend */
} Elf64_Rela;

/* RELR relocation table entry */

typedef Elf32_Word	Elf32_Relr;
typedef Elf64_Xword	Elf64_Relr;

/* How to extract and insert information held in the r_info field.  */

#define ELF32_R_SYM(val)		((val) >> 8)
#define ELF32_R_TYPE(val)		((val) & 0xff)
#define ELF32_R_INFO(sym, type)		(((sym) << 8) + ((type) & 0xff))

#define ELF64_R_SYM(i)			((i) >> 32)
#define ELF64_R_TYPE(i)			((i) & 0xffffffff)
#define ELF64_R_INFO(sym,type)		((((Elf64_Xword) (sym)) << 32) + (type))

/* Program segment header.  */

typedef struct
{
  Elf32_Word	p_type;			/* Segment type */
  Elf32_Off	p_offset;		/* Segment file offset */
  Elf32_Addr	p_vaddr;		/* Segment virtual address */
  Elf32_Addr	p_paddr;		/* Segment physical address */
  Elf32_Word	p_filesz;		/* Segment size in file */
  Elf32_Word	p_memsz;		/* Segment size in memory */
  Elf32_Word	p_flags;		/* Segment flags */
  Elf32_Word	p_align;		/* Segment alignment */
} Elf32_Phdr;

typedef struct
{
  Elf64_Word	p_type;			/* Segment type */
  Elf64_Word	p_flags;		/* Segment flags */
  Elf64_Off	p_offset;		/* Segment file offset */
  Elf64_Addr	p_vaddr;		/* Segment virtual address */
  Elf64_Addr	p_paddr;		/* Segment physical address */
  Elf64_Xword	p_filesz;		/* Segment size in file */
  Elf64_Xword	p_memsz;		/* Segment size in memory */
  Elf64_Xword	p_align;		/* Segment alignment */
} Elf64_Phdr;

/* Special value for e_phnum.  This indicates that the real number of
   program headers is too large to fit into e_phnum.  Instead the real
   value is in the field sh_info of section 0.  */

#define PN_XNUM		0xffff

/* Legal values for p_type (segment type).  */

#define	PT_NULL		0		/* Program header table entry unused */
#define PT_LOAD		1		/* Loadable program segment */
#define PT_DYNAMIC	2		/* Dynamic linking information */
#define PT_INTERP	3		/* Program interpreter */
#define PT_NOTE		4		/* Auxiliary information */
#define PT_SHLIB	5		/* Reserved */
#define PT_PHDR		6		/* Entry for header table itself */
#define PT_TLS		7		/* Thread-local storage segment */
#define	PT_NUM		8		/* Number of defined types */
#define PT_LOOS		0x60000000	/* Start of OS-specific */
#define PT_GNU_EH_FRAME	0x6474e550	/* GCC .eh_frame_hdr segment */
#define PT_GNU_STACK	0x6474e551	/* Indicates stack executability */
#define PT_GNU_RELRO	0x6474e552	/* Read-only after relocation */
#define PT_GNU_PROPERTY	0x6474e553	/* GNU property */
#define PT_LOSUNW	0x6ffffffa
#define PT_SUNWBSS	0x6ffffffa	/* Sun Specific segment */
#define PT_SUNWSTACK	0x6ffffffb	/* Stack segment */
#define PT_HISUNW	0x6fffffff
#define PT_HIOS		0x6fffffff	/* End of OS-specific */
#define PT_LOPROC	0x70000000	/* Start of processor-specific */
#define PT_HIPROC	0x7fffffff	/* End of processor-specific */

/* Legal values for p_flags (segment flags).  */

#define PF_X		(1 << 0)	/* Segment is executable */
#define PF_W		(1 << 1)	/* Segment is writable */
#define PF_R		(1 << 2)	/* Segment is readable */
#define PF_MASKOS	0x0ff00000	/* OS-specific */
#define PF_MASKPROC	0xf0000000	/* Processor-specific */

/* Legal values for note segment descriptor types for core files. */

#define NT_PRSTATUS	1		/* Contains copy of prstatus struct */
#define NT_PRFPREG	2		/* Contains copy of fpregset
					   struct.  */
#define NT_FPREGSET	2		/* Contains copy of fpregset struct */
#define NT_PRPSINFO	3		/* Contains copy of prpsinfo struct */
#define NT_PRXREG	4		/* Contains copy of prxregset struct */
#define NT_TASKSTRUCT	4		/* Contains copy of task structure */
#define NT_PLATFORM	5		/* String from sysinfo(SI_PLATFORM) */
#define NT_AUXV		6		/* Contains copy of auxv array */
#define NT_GWINDOWS	7		/* Contains copy of gwindows struct */
#define NT_ASRS		8		/* Contains copy of asrset struct */
#define NT_PSTATUS	10		/* Contains copy of pstatus struct */
#define NT_PSINFO	13		/* Contains copy of psinfo struct */
#define NT_PRCRED	14		/* Contains copy of prcred struct */
#define NT_UTSNAME	15		/* Contains copy of utsname struct */
#define NT_LWPSTATUS	16		/* Contains copy of lwpstatus struct */
#define NT_LWPSINFO	17		/* Contains copy of lwpinfo struct */
#define NT_PRFPXREG	20		/* Contains copy of fprxregset struct */
#define NT_SIGINFO	0x53494749	/* Contains copy of siginfo_t,
					   size might increase */
#define NT_FILE		0x46494c45	/* Contains information about mapped
					   files */
#define NT_PRXFPREG	0x46e62b7f	/* Contains copy of user_fxsr_struct */
#define NT_PPC_VMX	0x100		/* PowerPC Altivec/VMX registers */
#define NT_PPC_SPE	0x101		/* PowerPC SPE/EVR registers */
#define NT_PPC_VSX	0x102		/* PowerPC VSX registers */
#define NT_PPC_TAR	0x103		/* Target Address Register */
#define NT_PPC_PPR	0x104		/* Program Priority Register */
#define NT_PPC_DSCR	0x105		/* Data Stream Control Register */
#define NT_PPC_EBB	0x106		/* Event Based Branch Registers */
#define NT_PPC_PMU	0x107		/* Performance Monitor Registers */
#define NT_PPC_TM_CGPR	0x108		/* TM checkpointed GPR Registers */
#define NT_PPC_TM_CFPR	0x109		/* TM checkpointed FPR Registers */
#define NT_PPC_TM_CVMX	0x10a		/* TM checkpointed VMX Registers */
#define NT_PPC_TM_CVSX	0x10b		/* TM checkpointed VSX Registers */
#define NT_PPC_TM_SPR	0x10c		/* TM Special Purpose Registers */
#define NT_PPC_TM_CTAR	0x10d		/* TM checkpointed Target Address
					   Register */
#define NT_PPC_TM_CPPR	0x10e		/* TM checkpointed Program Priority
					   Register */
#define NT_PPC_TM_CDSCR	0x10f		/* TM checkpointed Data Stream Control
					   Register */
#define NT_PPC_PKEY	0x110		/* Memory Protection Keys
					   registers.  */
#define NT_386_TLS	0x200		/* i386 TLS slots (struct user_desc) */
#define NT_386_IOPERM	0x201		/* x86 io permission bitmap (1=deny) */
#define NT_X86_XSTATE	0x202		/* x86 extended state using xsave */
#define NT_S390_HIGH_GPRS	0x300	/* s390 upper register halves */
#define NT_S390_TIMER	0x301		/* s390 timer register */
#define NT_S390_TODCMP	0x302		/* s390 TOD clock comparator register */
#define NT_S390_TODPREG	0x303		/* s390 TOD programmable register */
#define NT_S390_CTRS	0x304		/* s390 control registers */
#define NT_S390_PREFIX	0x305		/* s390 prefix register */
#define NT_S390_LAST_BREAK	0x306	/* s390 breaking event address */
#define NT_S390_SYSTEM_CALL	0x307	/* s390 system call restart data */
#define NT_S390_TDB	0x308		/* s390 transaction diagnostic block */
#define NT_S390_VXRS_LOW	0x309	/* s390 vector registers 0-15
					   upper half.  */
#define NT_S390_VXRS_HIGH	0x30a	/* s390 vector registers 16-31.  */
#define NT_S390_GS_CB	0x30b		/* s390 guarded storage registers.  */
#define NT_S390_GS_BC	0x30c		/* s390 guarded storage
					   broadcast control block.  */
#define NT_S390_RI_CB	0x30d		/* s390 runtime instrumentation.  */
#define NT_ARM_VFP	0x400		/* ARM VFP/NEON registers */
#define NT_ARM_TLS	0x401		/* ARM TLS register */
#define NT_ARM_HW_BREAK	0x402		/* ARM hardware breakpoint registers */
#define NT_ARM_HW_WATCH	0x403		/* ARM hardware watchpoint registers */
#define NT_ARM_SYSTEM_CALL	0x404	/* ARM system call number */
#define NT_ARM_SVE	0x405		/* ARM Scalable Vector Extension
					   registers */
#define NT_ARM_PAC_MASK	0x406		/* ARM pointer authentication
					   code masks.  */
#define NT_ARM_PACA_KEYS	0x407	/* ARM pointer authentication
					   address keys.  */
#define NT_ARM_PACG_KEYS	0x408	/* ARM pointer authentication
					   generic key.  */
#define NT_ARM_TAGGED_ADDR_CTRL	0x409	/* AArch64 tagged address
					   control.  */
#define NT_ARM_PAC_ENABLED_KEYS	0x40a	/* AArch64 pointer authentication
					   enabled keys.  */
#define NT_VMCOREDD	0x700		/* Vmcore Device Dump Note.  */
#define NT_MIPS_DSP	0x800		/* MIPS DSP ASE registers.  */
#define NT_MIPS_FP_MODE	0x801		/* MIPS floating-point mode.  */
#define NT_MIPS_MSA	0x802		/* MIPS SIMD registers.  */

/* Legal values for the note segment descriptor types for object files.  */

#define NT_VERSION	1		/* Contains a version string.  */


/* Dynamic section entry.  */

typedef struct
{
  Elf32_Sword	d_tag;			/* Dynamic entry type */
  union
    {
      Elf32_Word d_val;			/* Integer value */
      Elf32_Addr d_ptr;			/* Address value */
    } d_un;
} Elf32_Dyn;

typedef struct
{
  Elf64_Sxword	d_tag;			/* Dynamic entry type */
  union
    {
      Elf64_Xword d_val;		/* Integer value */
      Elf64_Addr d_ptr;			/* Address value */
    } d_un;
} Elf64_Dyn;

/* Legal values for d_tag (dynamic entry type).  */

#define DT_NULL		0		/* Marks end of dynamic section */
#define DT_NEEDED	1		/* Name of needed library */
#define DT_PLTRELSZ	2		/* Size in bytes of PLT relocs */
#define DT_PLTGOT	3		/* Processor defined value */
#define DT_HASH		4		/* Address of symbol hash table */
#define DT_STRTAB	5		/* Address of string table */
#define DT_SYMTAB	6		/* Address of symbol table */
#define DT_RELA		7		/* Address of Rela relocs */
#define DT_RELASZ	8		/* Total size of Rela relocs */
#define DT_RELAENT	9		/* Size of one Rela reloc */
#define DT_STRSZ	10		/* Size of string table */
#define DT_SYMENT	11		/* Size of one symbol table entry */
#define DT_INIT		12		/* Address of init function */
#define DT_FINI		13		/* Address of termination function */
#define DT_SONAME	14		/* Name of shared object */
#define DT_RPATH	15		/* Library search path (deprecated) */
#define DT_SYMBOLIC	16		/* Start symbol search here */
#define DT_REL		17		/* Address of Rel relocs */
#define DT_RELSZ	18		/* Total size of Rel relocs */
#define DT_RELENT	19		/* Size of one Rel reloc */
#define DT_PLTREL	20		/* Type of reloc in PLT */
#define DT_DEBUG	21		/* For debugging; unspecified */
#define DT_TEXTREL	22		/* Reloc might modify .text */
#define DT_JMPREL	23		/* Address of PLT relocs */
#define	DT_BIND_NOW	24		/* Process relocations of object */
#define	DT_INIT_ARRAY	25		/* Array with addresses of init fct */
#define	DT_FINI_ARRAY	26		/* Array with addresses of fini fct */
#define	DT_INIT_ARRAYSZ	27		/* Size in bytes of DT_INIT_ARRAY */
#define	DT_FINI_ARRAYSZ	28		/* Size in bytes of DT_FINI_ARRAY */
#define DT_RUNPATH	29		/* Library search path */
#define DT_FLAGS	30		/* Flags for the object being loaded */
#define DT_ENCODING	32		/* Start of encoded range */
#define DT_PREINIT_ARRAY 32		/* Array with addresses of preinit fct*/
#define DT_PREINIT_ARRAYSZ 33		/* size in bytes of DT_PREINIT_ARRAY */
#define DT_SYMTAB_SHNDX	34		/* Address of SYMTAB_SHNDX section */
#define DT_RELRSZ	35		/* Total size of RELR relative relocations */
#define DT_RELR		36		/* Address of RELR relative relocations */
#define DT_RELRENT	37		/* Size of one RELR relative relocaction */
#define	DT_NUM		38		/* Number used */
#define DT_LOOS		0x6000000d	/* Start of OS-specific */
#define DT_HIOS		0x6ffff000	/* End of OS-specific */
#define DT_LOPROC	0x70000000	/* Start of processor-specific */
#define DT_HIPROC	0x7fffffff	/* End of processor-specific */
#define	DT_PROCNUM	DT_MIPS_NUM	/* Most used by any processor */

/* DT_* entries which fall between DT_VALRNGHI & DT_VALRNGLO use the
   Dyn.d_un.d_val field of the Elf*_Dyn structure.  This follows Sun's
   approach.  */
#define DT_VALRNGLO	0x6ffffd00
#define DT_GNU_PRELINKED 0x6ffffdf5	/* Prelinking timestamp */
#define DT_GNU_CONFLICTSZ 0x6ffffdf6	/* Size of conflict section */
#define DT_GNU_LIBLISTSZ 0x6ffffdf7	/* Size of library list */
#define DT_CHECKSUM	0x6ffffdf8
#define DT_PLTPADSZ	0x6ffffdf9
#define DT_MOVEENT	0x6ffffdfa
#define DT_MOVESZ	0x6ffffdfb
#define DT_FEATURE_1	0x6ffffdfc	/* Feature selection (DTF_*).  */
#define DT_POSFLAG_1	0x6ffffdfd	/* Flags for DT_* entries, effecting
					   the following DT_* entry.  */
#define DT_SYMINSZ	0x6ffffdfe	/* Size of syminfo table (in bytes) */
#define DT_SYMINENT	0x6ffffdff	/* Entry size of syminfo */
#define DT_VALRNGHI	0x6ffffdff
#define DT_VALTAGIDX(tag)	(DT_VALRNGHI - (tag))	/* Reverse order! */
#define DT_VALNUM 12

/* DT_* entries which fall between DT_ADDRRNGHI & DT_ADDRRNGLO use the
   Dyn.d_un.d_ptr field of the Elf*_Dyn structure.

   If any adjustment is made to the ELF object after it has been
   built these entries will need to be adjusted.  */
#define DT_ADDRRNGLO	0x6ffffe00
#define DT_GNU_HASH	0x6ffffef5	/* GNU-style hash table.  */
#define DT_TLSDESC_PLT	0x6ffffef6
#define DT_TLSDESC_GOT	0x6ffffef7
#define DT_GNU_CONFLICT	0x6ffffef8	/* Start of conflict section */
#define DT_GNU_LIBLIST	0x6ffffef9	/* Library list */
#define DT_CONFIG	0x6ffffefa	/* Configuration information.  */
#define DT_DEPAUDIT	0x6ffffefb	/* Dependency auditing.  */
#define DT_AUDIT	0x6ffffefc	/* Object auditing.  */
#define	DT_PLTPAD	0x6ffffefd	/* PLT padding.  */
#define	DT_MOVETAB	0x6ffffefe	/* Move table.  */
#define DT_SYMINFO	0x6ffffeff	/* Syminfo table.  */
#define DT_ADDRRNGHI	0x6ffffeff
#define DT_ADDRTAGIDX(tag)	(DT_ADDRRNGHI - (tag))	/* Reverse order! */
#define DT_ADDRNUM 11

/* The versioning entry types.  The next are defined as part of the
   GNU extension.  */
#define DT_VERSYM	0x6ffffff0

#define DT_RELACOUNT	0x6ffffff9
#define DT_RELCOUNT	0x6ffffffa

/* These were chosen by Sun.  */
#define DT_FLAGS_1	0x6ffffffb	/* State flags, see DF_1_* below.  */
#define	DT_VERDEF	0x6ffffffc	/* Address of version definition
					   table */
#define	DT_VERDEFNUM	0x6ffffffd	/* Number of version definitions */
#define	DT_VERNEED	0x6ffffffe	/* Address of table with needed
					   versions */
#define	DT_VERNEEDNUM	0x6fffffff	/* Number of needed versions */
#define DT_VERSIONTAGIDX(tag)	(DT_VERNEEDNUM - (tag))	/* Reverse order! */
#define DT_VERSIONTAGNUM 16

/* Sun added these machine-independent extensions in the "processor-specific"
   range.  Be compatible.  */
#define DT_AUXILIARY    0x7ffffffd      /* Shared object to load before self */
#define DT_FILTER       0x7fffffff      /* Shared object to get values from */
#define DT_EXTRATAGIDX(tag)	((Elf32_Word)-((Elf32_Sword) (tag) <<1>>1)-1)
#define DT_EXTRANUM	3

/* Values of `d_un.d_val' in the DT_FLAGS entry.  */
#define DF_ORIGIN	0x00000001	/* Object may use DF_ORIGIN */
#define DF_SYMBOLIC	0x00000002	/* Symbol resolutions starts here */
#define DF_TEXTREL	0x00000004	/* Object contains text relocations */
#define DF_BIND_NOW	0x00000008	/* No lazy binding for this object */
#define DF_STATIC_TLS	0x00000010	/* Module uses the static TLS model */

/* State flags selectable in the `d_un.d_val' element of the DT_FLAGS_1
   entry in the dynamic section.  */
#define DF_1_NOW	0x00000001	/* Set RTLD_NOW for this object.  */
#define DF_1_GLOBAL	0x00000002	/* Set RTLD_GLOBAL for this object.  */
#define DF_1_GROUP	0x00000004	/* Set RTLD_GROUP for this object.  */
#define DF_1_NODELETE	0x00000008	/* Set RTLD_NODELETE for this object.*/
#define DF_1_LOADFLTR	0x00000010	/* Trigger filtee loading at runtime.*/
#define DF_1_INITFIRST	0x00000020	/* Set RTLD_INITFIRST for this object*/
#define DF_1_NOOPEN	0x00000040	/* Set RTLD_NOOPEN for this object.  */
#define DF_1_ORIGIN	0x00000080	/* $ORIGIN must be handled.  */
#define DF_1_DIRECT	0x00000100	/* Direct binding enabled.  */
#define DF_1_TRANS	0x00000200
#define DF_1_INTERPOSE	0x00000400	/* Object is used to interpose.  */
#define DF_1_NODEFLIB	0x00000800	/* Ignore default lib search path.  */
#define DF_1_NODUMP	0x00001000	/* Object can't be dldump'ed.  */
#define DF_1_CONFALT	0x00002000	/* Configuration alternative created.*/
#define DF_1_ENDFILTEE	0x00004000	/* Filtee terminates filters search. */
#define	DF_1_DISPRELDNE	0x00008000	/* Disp reloc applied at build time. */
#define	DF_1_DISPRELPND	0x00010000	/* Disp reloc applied at run-time.  */
#define	DF_1_NODIRECT	0x00020000	/* Object has no-direct binding. */
#define	DF_1_IGNMULDEF	0x00040000
#define	DF_1_NOKSYMS	0x00080000
#define	DF_1_NOHDR	0x00100000
#define	DF_1_EDITED	0x00200000	/* Object is modified after built.  */
#define	DF_1_NORELOC	0x00400000
#define	DF_1_SYMINTPOSE	0x00800000	/* Object has individual interposers.  */
#define	DF_1_GLOBAUDIT	0x01000000	/* Global auditing required.  */
#define	DF_1_SINGLETON	0x02000000	/* Singleton symbols are used.  */
#define	DF_1_STUB	0x04000000
#define	DF_1_PIE	0x08000000
#define	DF_1_KMOD       0x10000000
#define	DF_1_WEAKFILTER 0x20000000
#define	DF_1_NOCOMMON   0x40000000

/* Flags for the feature selection in DT_FEATURE_1.  */
#define DTF_1_PARINIT	0x00000001
#define DTF_1_CONFEXP	0x00000002

/* Flags in the DT_POSFLAG_1 entry effecting only the next DT_* entry.  */
#define DF_P1_LAZYLOAD	0x00000001	/* Lazyload following object.  */
#define DF_P1_GROUPPERM	0x00000002	/* Symbols from next object are not
					   generally available.  */

/* Version definition sections.  */

typedef struct
{
  Elf32_Half	vd_version;		/* Version revision */
  Elf32_Half	vd_flags;		/* Version information */
  Elf32_Half	vd_ndx;			/* Version Index */
  Elf32_Half	vd_cnt;			/* Number of associated aux entries */
  Elf32_Word	vd_hash;		/* Version name hash value */
  Elf32_Word	vd_aux;			/* Offset in bytes to verdaux array */
  Elf32_Word	vd_next;		/* Offset in bytes to next verdef
					   entry */
} Elf32_Verdef;

typedef struct
{
  Elf64_Half	vd_version;		/* Version revision */
  Elf64_Half	vd_flags;		/* Version information */
  Elf64_Half	vd_ndx;			/* Version Index */
  Elf64_Half	vd_cnt;			/* Number of associated aux entries */
  Elf64_Word	vd_hash;		/* Version name hash value */
  Elf64_Word	vd_aux;			/* Offset in bytes to verdaux array */
  Elf64_Word	vd_next;		/* Offset in bytes to next verdef
					   entry */
} Elf64_Verdef;


/* Legal values for vd_version (version revision).  */
#define VER_DEF_NONE	0		/* No version */
#define VER_DEF_CURRENT	1		/* Current version */
#define VER_DEF_NUM	2		/* Given version number */

/* Legal values for vd_flags (version information flags).  */
#define VER_FLG_BASE	0x1		/* Version definition of file itself */
#define VER_FLG_WEAK	0x2		/* Weak version identifier */

/* Versym symbol index values.  */
#define	VER_NDX_LOCAL		0	/* Symbol is local.  */
#define	VER_NDX_GLOBAL		1	/* Symbol is global.  */
#define	VER_NDX_LORESERVE	0xff00	/* Beginning of reserved entries.  */
#define	VER_NDX_ELIMINATE	0xff01	/* Symbol is to be eliminated.  */

/* Auxiliary version information.  */

typedef struct
{
  Elf32_Word	vda_name;		/* Version or dependency names */
  Elf32_Word	vda_next;		/* Offset in bytes to next verdaux
					   entry */
} Elf32_Verdaux;

typedef struct
{
  Elf64_Word	vda_name;		/* Version or dependency names */
  Elf64_Word	vda_next;		/* Offset in bytes to next verdaux
					   entry */
} Elf64_Verdaux;


/* Version dependency section.  */

typedef struct
{
  Elf32_Half	vn_version;		/* Version of structure */
  Elf32_Half	vn_cnt;			/* Number of associated aux entries */
  Elf32_Word	vn_file;		/* Offset of filename for this
					   dependency */
  Elf32_Word	vn_aux;			/* Offset in bytes to vernaux array */
  Elf32_Word	vn_next;		/* Offset in bytes to next verneed
					   entry */
} Elf32_Verneed;

typedef struct
{
  Elf64_Half	vn_version;		/* Version of structure */
  Elf64_Half	vn_cnt;			/* Number of associated aux entries */
  Elf64_Word	vn_file;		/* Offset of filename for this
					   dependency */
  Elf64_Word	vn_aux;			/* Offset in bytes to vernaux array */
  Elf64_Word	vn_next;		/* Offset in bytes to next verneed
					   entry */
} Elf64_Verneed;


/* Legal values for vn_version (version revision).  */
#define VER_NEED_NONE	 0		/* No version */
#define VER_NEED_CURRENT 1		/* Current version */
#define VER_NEED_NUM	 2		/* Given version number */

/* Auxiliary needed version information.  */

typedef struct
{
  Elf32_Word	vna_hash;		/* Hash value of dependency name */
  Elf32_Half	vna_flags;		/* Dependency specific information */
  Elf32_Half	vna_other;		/* Unused */
  Elf32_Word	vna_name;		/* Dependency name string offset */
  Elf32_Word	vna_next;		/* Offset in bytes to next vernaux
					   entry */
} Elf32_Vernaux;

typedef struct
{
  Elf64_Word	vna_hash;		/* Hash value of dependency name */
  Elf64_Half	vna_flags;		/* Dependency specific information */
  Elf64_Half	vna_other;		/* Unused */
  Elf64_Word	vna_name;		/* Dependency name string offset */
  Elf64_Word	vna_next;		/* Offset in bytes to next vernaux
					   entry */
} Elf64_Vernaux;


/* Legal values for vna_flags.  */
#define VER_FLG_WEAK	0x2		/* Weak version identifier */


/* Auxiliary vector.  */

/* This vector is normally only used by the program interpreter.  The
   usual definition in an ABI supplement uses the name auxv_t.  The
   vector is not usually defined in a standard <elf.h> file, but it
   can't hurt.  We rename it to avoid conflicts.  The sizes of these
   types are an arrangement between the exec server and the program
   interpreter, so we don't fully specify them here.  */

typedef struct
{
  uint32_t a_type;		/* Entry type */
  union
    {
      uint32_t a_val;		/* Integer value */
      /* We use to have pointer elements added here.  We cannot do that,
	 though, since it does not work when using 32-bit definitions
	 on 64-bit platforms and vice versa.  */
    } a_un;
} Elf32_auxv_t;

typedef struct
{
  uint64_t a_type;		/* Entry type */
  union
    {
      uint64_t a_val;		/* Integer value */
      /* We use to have pointer elements added here.  We cannot do that,
	 though, since it does not work when using 32-bit definitions
	 on 64-bit platforms and vice versa.  */
    } a_un;
} Elf64_auxv_t;

#include <bits/auxv.h>
/* Note section contents.  Each entry in the note section begins with
   a header of a fixed form.  */

typedef struct
{
  Elf32_Word n_namesz;			/* Length of the note's name.  */
  Elf32_Word n_descsz;			/* Length of the note's descriptor.  */
  Elf32_Word n_type;			/* Type of the note.  */
} Elf32_Nhdr;

typedef struct
{
  Elf64_Word n_namesz;			/* Length of the note's name.  */
  Elf64_Word n_descsz;			/* Length of the note's descriptor.  */
  Elf64_Word n_type;			/* Type of the note.  */
} Elf64_Nhdr;

/* Known names of notes.  */

/* Solaris entries in the note section have this name.  */
#define ELF_NOTE_SOLARIS	"SUNW Solaris"

/* Note entries for GNU systems have this name.  */
#define ELF_NOTE_GNU		"GNU"

/* Note entries for freedesktop.org have this name.  */
#define ELF_NOTE_FDO		"FDO"

/* Defined types of notes for Solaris.  */

/* Value of descriptor (one word) is desired pagesize for the binary.  */
#define ELF_NOTE_PAGESIZE_HINT	1


/* Defined note types for GNU systems.  */

/* ABI information.  The descriptor consists of words:
   word 0: OS descriptor
   word 1: major version of the ABI
   word 2: minor version of the ABI
   word 3: subminor version of the ABI
*/
#define NT_GNU_ABI_TAG	1
#define ELF_NOTE_ABI	NT_GNU_ABI_TAG /* Old name.  */

/* Known OSes.  These values can appear in word 0 of an
   NT_GNU_ABI_TAG note section entry.  */
#define ELF_NOTE_OS_LINUX	0
#define ELF_NOTE_OS_GNU		1
#define ELF_NOTE_OS_SOLARIS2	2
#define ELF_NOTE_OS_FREEBSD	3

/* Synthetic hwcap information.  The descriptor begins with two words:
   word 0: number of entries
   word 1: bitmask of enabled entries
   Then follow variable-length entries, one byte followed by a
   '\0'-terminated hwcap name string.  The byte gives the bit
   number to test if enabled, (1U << bit) & bitmask.  */
#define NT_GNU_HWCAP	2

/* Build ID bits as generated by ld --build-id.
   The descriptor consists of any nonzero number of bytes.  */
#define NT_GNU_BUILD_ID	3

/* Version note generated by GNU gold containing a version string.  */
#define NT_GNU_GOLD_VERSION	4

/* Program property.  */
#define NT_GNU_PROPERTY_TYPE_0 5

/* Packaging metadata as defined on
   https://systemd.io/COREDUMP_PACKAGE_METADATA/ */
#define NT_FDO_PACKAGING_METADATA 0xcafe1a7e

/* Note section name of program property.   */
#define NOTE_GNU_PROPERTY_SECTION_NAME ".note.gnu.property"

/* Values used in GNU .note.gnu.property notes (NT_GNU_PROPERTY_TYPE_0).  */

/* Stack size.  */
#define GNU_PROPERTY_STACK_SIZE			1
/* No copy relocation on protected data symbol.  */
#define GNU_PROPERTY_NO_COPY_ON_PROTECTED	2

/* A 4-byte unsigned integer property: A bit is set if it is set in all
   relocatable inputs.  */
#define GNU_PROPERTY_UINT32_AND_LO	0xb0000000
#define GNU_PROPERTY_UINT32_AND_HI	0xb0007fff

/* A 4-byte unsigned integer property: A bit is set if it is set in any
   relocatable inputs.  */
#define GNU_PROPERTY_UINT32_OR_LO	0xb0008000
#define GNU_PROPERTY_UINT32_OR_HI	0xb000ffff

/* The needed properties by the object file.  */
#define GNU_PROPERTY_1_NEEDED		GNU_PROPERTY_UINT32_OR_LO

/* Set if the object file requires canonical function pointers and
   cannot be used with copy relocation.  */
#define GNU_PROPERTY_1_NEEDED_INDIRECT_EXTERN_ACCESS (1U << 0)

/* Processor-specific semantics, lo */
#define GNU_PROPERTY_LOPROC			0xc0000000
/* Processor-specific semantics, hi */
#define GNU_PROPERTY_HIPROC			0xdfffffff
/* Application-specific semantics, lo */
#define GNU_PROPERTY_LOUSER			0xe0000000
/* Application-specific semantics, hi */
#define GNU_PROPERTY_HIUSER			0xffffffff

/* AArch64 specific GNU properties.  */
#define GNU_PROPERTY_AARCH64_FEATURE_1_AND	0xc0000000

#define GNU_PROPERTY_AARCH64_FEATURE_1_BTI	(1U << 0)
#define GNU_PROPERTY_AARCH64_FEATURE_1_PAC	(1U << 1)

/* The x86 instruction sets indicated by the corresponding bits are
   used in program.  Their support in the hardware is optional.  */
#define GNU_PROPERTY_X86_ISA_1_USED		0xc0010002
/* The x86 instruction sets indicated by the corresponding bits are
   used in program and they must be supported by the hardware.   */
#define GNU_PROPERTY_X86_ISA_1_NEEDED		0xc0008002
/* X86 processor-specific features used in program.  */
#define GNU_PROPERTY_X86_FEATURE_1_AND		0xc0000002

/* GNU_PROPERTY_X86_ISA_1_BASELINE: CMOV, CX8 (cmpxchg8b), FPU (fld),
   MMX, OSFXSR (fxsave), SCE (syscall), SSE and SSE2.  */
#define GNU_PROPERTY_X86_ISA_1_BASELINE		(1U << 0)
/* GNU_PROPERTY_X86_ISA_1_V2: GNU_PROPERTY_X86_ISA_1_BASELINE,
   CMPXCHG16B (cmpxchg16b), LAHF-SAHF (lahf), POPCNT (popcnt), SSE3,
   SSSE3, SSE4.1 and SSE4.2.  */
#define GNU_PROPERTY_X86_ISA_1_V2		(1U << 1)
/* GNU_PROPERTY_X86_ISA_1_V3: GNU_PROPERTY_X86_ISA_1_V2, AVX, AVX2, BMI1,
   BMI2, F16C, FMA, LZCNT, MOVBE, XSAVE.  */
#define GNU_PROPERTY_X86_ISA_1_V3		(1U << 2)
/* GNU_PROPERTY_X86_ISA_1_V4: GNU_PROPERTY_X86_ISA_1_V3, AVX512F,
   AVX512BW, AVX512CD, AVX512DQ and AVX512VL.  */
#define GNU_PROPERTY_X86_ISA_1_V4		(1U << 3)

/* This indicates that all executable sections are compatible with
   IBT.  */
#define GNU_PROPERTY_X86_FEATURE_1_IBT		(1U << 0)
/* This indicates that all executable sections are compatible with
   SHSTK.  */
#define GNU_PROPERTY_X86_FEATURE_1_SHSTK	(1U << 1)

/* Move records.  */
typedef struct
{
  Elf32_Xword m_value;		/* Symbol value.  */
  Elf32_Word m_info;		/* Size and index.  */
  Elf32_Word m_poffset;		/* Symbol offset.  */
  Elf32_Half m_repeat;		/* Repeat count.  */
  Elf32_Half m_stride;		/* Stride info.  */
} Elf32_Move;

typedef struct
{
  Elf64_Xword m_value;		/* Symbol value.  */
  Elf64_Xword m_info;		/* Size and index.  */
  Elf64_Xword m_poffset;	/* Symbol offset.  */
  Elf64_Half m_repeat;		/* Repeat count.  */
  Elf64_Half m_stride;		/* Stride info.  */
} Elf64_Move;

/* Macro to construct move records.  */
#define ELF32_M_SYM(info)	((info) >> 8)
#define ELF32_M_SIZE(info)	((unsigned char) (info))
#define ELF32_M_INFO(sym, size)	(((sym) << 8) + (unsigned char) (size))

#define ELF64_M_SYM(info)	ELF32_M_SYM (info)
#define ELF64_M_SIZE(info)	ELF32_M_SIZE (info)
#define ELF64_M_INFO(sym, size)	ELF32_M_INFO (sym, size)


/* Motorola 68k specific definitions.  */

/* Values for Elf32_Ehdr.e_flags.  */
#define EF_CPU32	0x00810000

/* m68k relocs.  */

#define R_68K_NONE	0		/* No reloc */
#define R_68K_32	1		/* Direct 32 bit  */
#define R_68K_16	2		/* Direct 16 bit  */
#define R_68K_8		3		/* Direct 8 bit  */
#define R_68K_PC32	4		/* PC relative 32 bit */
#define R_68K_PC16	5		/* PC relative 16 bit */
#define R_68K_PC8	6		/* PC relative 8 bit */
#define R_68K_GOT32	7		/* 32 bit PC relative GOT entry */
#define R_68K_GOT16	8		/* 16 bit PC relative GOT entry */
#define R_68K_GOT8	9		/* 8 bit PC relative GOT entry */
#define R_68K_GOT32O	10		/* 32 bit GOT offset */
#define R_68K_GOT16O	11		/* 16 bit GOT offset */
#define R_68K_GOT8O	12		/* 8 bit GOT offset */
#define R_68K_PLT32	13		/* 32 bit PC relative PLT address */
#define R_68K_PLT16	14		/* 16 bit PC relative PLT address */
#define R_68K_PLT8	15		/* 8 bit PC relative PLT address */
#define R_68K_PLT32O	16		/* 32 bit PLT offset */
#define R_68K_PLT16O	17		/* 16 bit PLT offset */
#define R_68K_PLT8O	18		/* 8 bit PLT offset */
#define R_68K_COPY	19		/* Copy symbol at runtime */
#define R_68K_GLOB_DAT	20		/* Create GOT entry */
#define R_68K_JMP_SLOT	21		/* Create PLT entry */
#define R_68K_RELATIVE	22		/* Adjust by program base */
#define R_68K_TLS_GD32      25          /* 32 bit GOT offset for GD */
#define R_68K_TLS_GD16      26          /* 16 bit GOT offset for GD */
#define R_68K_TLS_GD8       27          /* 8 bit GOT offset for GD */
#define R_68K_TLS_LDM32     28          /* 32 bit GOT offset for LDM */
#define R_68K_TLS_LDM16     29          /* 16 bit GOT offset for LDM */
#define R_68K_TLS_LDM8      30          /* 8 bit GOT offset for LDM */
#define R_68K_TLS_LDO32     31          /* 32 bit module-relative offset */
#define R_68K_TLS_LDO16     32          /* 16 bit module-relative offset */
#define R_68K_TLS_LDO8      33          /* 8 bit module-relative offset */
#define R_68K_TLS_IE32      34          /* 32 bit GOT offset for IE */
#define R_68K_TLS_IE16      35          /* 16 bit GOT offset for IE */
#define R_68K_TLS_IE8       36          /* 8 bit GOT offset for IE */
#define R_68K_TLS_LE32      37          /* 32 bit offset relative to
					   static TLS block */
#define R_68K_TLS_LE16      38          /* 16 bit offset relative to
					   static TLS block */
#define R_68K_TLS_LE8       39          /* 8 bit offset relative to
					   static TLS block */
#define R_68K_TLS_DTPMOD32  40          /* 32 bit module number */
#define R_68K_TLS_DTPREL32  41          /* 32 bit module-relative offset */
#define R_68K_TLS_TPREL32   42          /* 32 bit TP-relative offset */
/* Keep this the last entry.  */
#define R_68K_NUM	43

/* Intel 80386 specific definitions.  */

/* i386 relocs.  */

#define R_386_NONE	   0		/* No reloc */
#define R_386_32	   1		/* Direct 32 bit  */
#define R_386_PC32	   2		/* PC relative 32 bit */
#define R_386_GOT32	   3		/* 32 bit GOT entry */
#define R_386_PLT32	   4		/* 32 bit PLT address */
#define R_386_COPY	   5		/* Copy symbol at runtime */
#define R_386_GLOB_DAT	   6		/* Create GOT entry */
#define R_386_JMP_SLOT	   7		/* Create PLT entry */
#define R_386_RELATIVE	   8		/* Adjust by program base */
#define R_386_GOTOFF	   9		/* 32 bit offset to GOT */
#define R_386_GOTPC	   10		/* 32 bit PC relative offset to GOT */
#define R_386_32PLT	   11
#define R_386_TLS_TPOFF	   14		/* Offset in static TLS block */
#define R_386_TLS_IE	   15		/* Address of GOT entry for static TLS
					   block offset */
#define R_386_TLS_GOTIE	   16		/* GOT entry for static TLS block
					   offset */
#define R_386_TLS_LE	   17		/* Offset relative to static TLS
					   block */
#define R_386_TLS_GD	   18		/* Direct 32 bit for GNU version of
					   general dynamic thread local data */
#define R_386_TLS_LDM	   19		/* Direct 32 bit for GNU version of
					   local dynamic thread local data
					   in LE code */
#define R_386_16	   20
#define R_386_PC16	   21
#define R_386_8		   22
#define R_386_PC8	   23
#define R_386_TLS_GD_32	   24		/* Direct 32 bit for general dynamic
					   thread local data */
#define R_386_TLS_GD_PUSH  25		/* Tag for pushl in GD TLS code */
#define R_386_TLS_GD_CALL  26		/* Relocation for call to
					   __tls_get_addr() */
#define R_386_TLS_GD_POP   27		/* Tag for popl in GD TLS code */
#define R_386_TLS_LDM_32   28		/* Direct 32 bit for local dynamic
					   thread local data in LE code */
#define R_386_TLS_LDM_PUSH 29		/* Tag for pushl in LDM TLS code */
#define R_386_TLS_LDM_CALL 30		/* Relocation for call to
					   __tls_get_addr() in LDM code */
#define R_386_TLS_LDM_POP  31		/* Tag for popl in LDM TLS code */
#define R_386_TLS_LDO_32   32		/* Offset relative to TLS block */
#define R_386_TLS_IE_32	   33		/* GOT entry for negated static TLS
					   block offset */
#define R_386_TLS_LE_32	   34		/* Negated offset relative to static
					   TLS block */
#define R_386_TLS_DTPMOD32 35		/* ID of module containing symbol */
#define R_386_TLS_DTPOFF32 36		/* Offset in TLS block */
#define R_386_TLS_TPOFF32  37		/* Negated offset in static TLS block */
#define R_386_SIZE32	   38 		/* 32-bit symbol size */
#define R_386_TLS_GOTDESC  39		/* GOT offset for TLS descriptor.  */
#define R_386_TLS_DESC_CALL 40		/* Marker of call through TLS
					   descriptor for
					   relaxation.  */
#define R_386_TLS_DESC     41		/* TLS descriptor containing
					   pointer to code and to
					   argument, returning the TLS
					   offset for the symbol.  */
#define R_386_IRELATIVE	   42		/* Adjust indirectly by program base */
#define R_386_GOT32X	   43		/* Load from 32 bit GOT entry,
					   relaxable. */
/* Keep this the last entry.  */
#define R_386_NUM	   44

/* SUN SPARC specific definitions.  */

/* Legal values for ST_TYPE subfield of st_info (symbol type).  */

#define STT_SPARC_REGISTER	13	/* Global register reserved to app. */

/* Values for Elf64_Ehdr.e_flags.  */

#define EF_SPARCV9_MM		3
#define EF_SPARCV9_TSO		0
#define EF_SPARCV9_PSO		1
#define EF_SPARCV9_RMO		2
#define EF_SPARC_LEDATA		0x800000 /* little endian data */
#define EF_SPARC_EXT_MASK	0xFFFF00
#define EF_SPARC_32PLUS		0x000100 /* generic V8+ features */
#define EF_SPARC_SUN_US1	0x000200 /* Sun UltraSPARC1 extensions */
#define EF_SPARC_HAL_R1		0x000400 /* HAL R1 extensions */
#define EF_SPARC_SUN_US3	0x000800 /* Sun UltraSPARCIII extensions */

/* SPARC relocs.  */

#define R_SPARC_NONE		0	/* No reloc */
#define R_SPARC_8		1	/* Direct 8 bit */
#define R_SPARC_16		2	/* Direct 16 bit */
#define R_SPARC_32		3	/* Direct 32 bit */
#define R_SPARC_DISP8		4	/* PC relative 8 bit */
#define R_SPARC_DISP16		5	/* PC relative 16 bit */
#define R_SPARC_DISP32		6	/* PC relative 32 bit */
#define R_SPARC_WDISP30		7	/* PC relative 30 bit shifted */
#define R_SPARC_WDISP22		8	/* PC relative 22 bit shifted */
#define R_SPARC_HI22		9	/* High 22 bit */
#define R_SPARC_22		10	/* Direct 22 bit */
#define R_SPARC_13		11	/* Direct 13 bit */
#define R_SPARC_LO10		12	/* Truncated 10 bit */
#define R_SPARC_GOT10		13	/* Truncated 10 bit GOT entry */
#define R_SPARC_GOT13		14	/* 13 bit GOT entry */
#define R_SPARC_GOT22		15	/* 22 bit GOT entry shifted */
#define R_SPARC_PC10		16	/* PC relative 10 bit truncated */
#define R_SPARC_PC22		17	/* PC relative 22 bit shifted */
#define R_SPARC_WPLT30		18	/* 30 bit PC relative PLT address */
#define R_SPARC_COPY		19	/* Copy symbol at runtime */
#define R_SPARC_GLOB_DAT	20	/* Create GOT entry */
#define R_SPARC_JMP_SLOT	21	/* Create PLT entry */
#define R_SPARC_RELATIVE	22	/* Adjust by program base */
#define R_SPARC_UA32		23	/* Direct 32 bit unaligned */

/* Additional Sparc64 relocs.  */

#define R_SPARC_PLT32		24	/* Direct 32 bit ref to PLT entry */
#define R_SPARC_HIPLT22		25	/* High 22 bit PLT entry */
#define R_SPARC_LOPLT10		26	/* Truncated 10 bit PLT entry */
#define R_SPARC_PCPLT32		27	/* PC rel 32 bit ref to PLT entry */
#define R_SPARC_PCPLT22		28	/* PC rel high 22 bit PLT entry */
#define R_SPARC_PCPLT10		29	/* PC rel trunc 10 bit PLT entry */
#define R_SPARC_10		30	/* Direct 10 bit */
#define R_SPARC_11		31	/* Direct 11 bit */
#define R_SPARC_64		32	/* Direct 64 bit */
#define R_SPARC_OLO10		33	/* 10bit with secondary 13bit addend */
#define R_SPARC_HH22		34	/* Top 22 bits of direct 64 bit */
#define R_SPARC_HM10		35	/* High middle 10 bits of ... */
#define R_SPARC_LM22		36	/* Low middle 22 bits of ... */
#define R_SPARC_PC_HH22		37	/* Top 22 bits of pc rel 64 bit */
#define R_SPARC_PC_HM10		38	/* High middle 10 bit of ... */
#define R_SPARC_PC_LM22		39	/* Low miggle 22 bits of ... */
#define R_SPARC_WDISP16		40	/* PC relative 16 bit shifted */
#define R_SPARC_WDISP19		41	/* PC relative 19 bit shifted */
#define R_SPARC_GLOB_JMP	42	/* was part of v9 ABI but was removed */
#define R_SPARC_7		43	/* Direct 7 bit */
#define R_SPARC_5		44	/* Direct 5 bit */
#define R_SPARC_6		45	/* Direct 6 bit */
#define R_SPARC_DISP64		46	/* PC relative 64 bit */
#define R_SPARC_PLT64		47	/* Direct 64 bit ref to PLT entry */
#define R_SPARC_HIX22		48	/* High 22 bit complemented */
#define R_SPARC_LOX10		49	/* Truncated 11 bit complemented */
#define R_SPARC_H44		50	/* Direct high 12 of 44 bit */
#define R_SPARC_M44		51	/* Direct mid 22 of 44 bit */
#define R_SPARC_L44		52	/* Direct low 10 of 44 bit */
#define R_SPARC_REGISTER	53	/* Global register usage */
#define R_SPARC_UA64		54	/* Direct 64 bit unaligned */
#define R_SPARC_UA16		55	/* Direct 16 bit unaligned */
#define R_SPARC_TLS_GD_HI22	56
#define R_SPARC_TLS_GD_LO10	57
#define R_SPARC_TLS_GD_ADD	58
#define R_SPARC_TLS_GD_CALL	59
#define R_SPARC_TLS_LDM_HI22	60
#define R_SPARC_TLS_LDM_LO10	61
#define R_SPARC_TLS_LDM_ADD	62
#define R_SPARC_TLS_LDM_CALL	63
#define R_SPARC_TLS_LDO_HIX22	64
#define R_SPARC_TLS_LDO_LOX10	65
#define R_SPARC_TLS_LDO_ADD	66
#define R_SPARC_TLS_IE_HI22	67
#define R_SPARC_TLS_IE_LO10	68
#define R_SPARC_TLS_IE_LD	69
#define R_SPARC_TLS_IE_LDX	70
#define R_SPARC_TLS_IE_ADD	71
#define R_SPARC_TLS_LE_HIX22	72
#define R_SPARC_TLS_LE_LOX10	73
#define R_SPARC_TLS_DTPMOD32	74
#define R_SPARC_TLS_DTPMOD64	75
#define R_SPARC_TLS_DTPOFF32	76
#define R_SPARC_TLS_DTPOFF64	77
#define R_SPARC_TLS_TPOFF32	78
#define R_SPARC_TLS_TPOFF64	79
#define R_SPARC_GOTDATA_HIX22	80
#define R_SPARC_GOTDATA_LOX10	81
#define R_SPARC_GOTDATA_OP_HIX22	82
#define R_SPARC_GOTDATA_OP_LOX10	83
#define R_SPARC_GOTDATA_OP	84
#define R_SPARC_H34		85
#define R_SPARC_SIZE32		86
#define R_SPARC_SIZE64		87
#define R_SPARC_WDISP10		88
#define R_SPARC_JMP_IREL	248
#define R_SPARC_IRELATIVE	249
#define R_SPARC_GNU_VTINHERIT	250
#define R_SPARC_GNU_VTENTRY	251
#define R_SPARC_REV32		252
/* Keep this the last entry.  */
#define R_SPARC_NUM		253

/* For Sparc64, legal values for d_tag of Elf64_Dyn.  */

#define DT_SPARC_REGISTER	0x70000001
#define DT_SPARC_NUM		2

/* MIPS R3000 specific definitions.  */

/* Legal values for e_flags field of Elf32_Ehdr.  */

#define EF_MIPS_NOREORDER	1     /* A .noreorder directive was used.  */
#define EF_MIPS_PIC		2     /* Contains PIC code.  */
#define EF_MIPS_CPIC		4     /* Uses PIC calling sequence.  */
#define EF_MIPS_XGOT		8
#define EF_MIPS_64BIT_WHIRL	16
#define EF_MIPS_ABI2		32
#define EF_MIPS_ABI_ON32	64
#define EF_MIPS_FP64		512  /* Uses FP64 (12 callee-saved).  */
#define EF_MIPS_NAN2008	1024  /* Uses IEEE 754-2008 NaN encoding.  */
#define EF_MIPS_ARCH		0xf0000000 /* MIPS architecture level.  */

/* Legal values for MIPS architecture level.  */

#define EF_MIPS_ARCH_1		0x00000000 /* -mips1 code.  */
#define EF_MIPS_ARCH_2		0x10000000 /* -mips2 code.  */
#define EF_MIPS_ARCH_3		0x20000000 /* -mips3 code.  */
#define EF_MIPS_ARCH_4		0x30000000 /* -mips4 code.  */
#define EF_MIPS_ARCH_5		0x40000000 /* -mips5 code.  */
#define EF_MIPS_ARCH_32		0x50000000 /* MIPS32 code.  */
#define EF_MIPS_ARCH_64		0x60000000 /* MIPS64 code.  */
#define EF_MIPS_ARCH_32R2	0x70000000 /* MIPS32r2 code.  */
#define EF_MIPS_ARCH_64R2	0x80000000 /* MIPS64r2 code.  */

/* The following are unofficial names and should not be used.  */

#define E_MIPS_ARCH_1		EF_MIPS_ARCH_1
#define E_MIPS_ARCH_2		EF_MIPS_ARCH_2
#define E_MIPS_ARCH_3		EF_MIPS_ARCH_3
#define E_MIPS_ARCH_4		EF_MIPS_ARCH_4
#define E_MIPS_ARCH_5		EF_MIPS_ARCH_5
#define E_MIPS_ARCH_32		EF_MIPS_ARCH_32
#define E_MIPS_ARCH_64		EF_MIPS_ARCH_64

/* Special section indices.  */

#define SHN_MIPS_ACOMMON	0xff00	/* Allocated common symbols.  */
#define SHN_MIPS_TEXT		0xff01	/* Allocated test symbols.  */
#define SHN_MIPS_DATA		0xff02	/* Allocated data symbols.  */
#define SHN_MIPS_SCOMMON 	0xff03	/* Small common symbols.  */
#define SHN_MIPS_SUNDEFINED	0xff04	/* Small undefined symbols.  */

/* Legal values for sh_type field of Elf32_Shdr.  */

#define SHT_MIPS_LIBLIST	0x70000000 /* Shared objects used in link.  */
#define SHT_MIPS_MSYM		0x70000001
#define SHT_MIPS_CONFLICT	0x70000002 /* Conflicting symbols.  */
#define SHT_MIPS_GPTAB		0x70000003 /* Global data area sizes.  */
#define SHT_MIPS_UCODE		0x70000004 /* Reserved for SGI/MIPS compilers */
#define SHT_MIPS_DEBUG		0x70000005 /* MIPS ECOFF debugging info.  */
#define SHT_MIPS_REGINFO	0x70000006 /* Register usage information.  */
#define SHT_MIPS_PACKAGE	0x70000007
#define SHT_MIPS_PACKSYM	0x70000008
#define SHT_MIPS_RELD		0x70000009
#define SHT_MIPS_IFACE		0x7000000b
#define SHT_MIPS_CONTENT	0x7000000c
#define SHT_MIPS_OPTIONS	0x7000000d /* Miscellaneous options.  */
#define SHT_MIPS_SHDR		0x70000010
#define SHT_MIPS_FDESC		0x70000011
#define SHT_MIPS_EXTSYM		0x70000012
#define SHT_MIPS_DENSE		0x70000013
#define SHT_MIPS_PDESC		0x70000014
#define SHT_MIPS_LOCSYM		0x70000015
#define SHT_MIPS_AUXSYM		0x70000016
#define SHT_MIPS_OPTSYM		0x70000017
#define SHT_MIPS_LOCSTR		0x70000018
#define SHT_MIPS_LINE		0x70000019
#define SHT_MIPS_RFDESC		0x7000001a
#define SHT_MIPS_DELTASYM	0x7000001b
#define SHT_MIPS_DELTAINST	0x7000001c
#define SHT_MIPS_DELTACLASS	0x7000001d
#define SHT_MIPS_DWARF		0x7000001e /* DWARF debugging information.  */
#define SHT_MIPS_DELTADECL	0x7000001f
#define SHT_MIPS_SYMBOL_LIB	0x70000020
#define SHT_MIPS_EVENTS		0x70000021 /* Event section.  */
#define SHT_MIPS_TRANSLATE	0x70000022
#define SHT_MIPS_PIXIE		0x70000023
#define SHT_MIPS_XLATE		0x70000024
#define SHT_MIPS_XLATE_DEBUG	0x70000025
#define SHT_MIPS_WHIRL		0x70000026
#define SHT_MIPS_EH_REGION	0x70000027
#define SHT_MIPS_XLATE_OLD	0x70000028
#define SHT_MIPS_PDR_EXCEPTION	0x70000029
#define SHT_MIPS_XHASH		0x7000002b

/* Legal values for sh_flags field of Elf32_Shdr.  */

#define SHF_MIPS_GPREL		0x10000000 /* Must be in global data area.  */
#define SHF_MIPS_MERGE		0x20000000
#define SHF_MIPS_ADDR		0x40000000
#define SHF_MIPS_STRINGS	0x80000000
#define SHF_MIPS_NOSTRIP	0x08000000
#define SHF_MIPS_LOCAL		0x04000000
#define SHF_MIPS_NAMES		0x02000000
#define SHF_MIPS_NODUPE		0x01000000


/* Symbol tables.  */

/* MIPS specific values for `st_other'.  */
#define STO_MIPS_DEFAULT		0x0
#define STO_MIPS_INTERNAL		0x1
#define STO_MIPS_HIDDEN			0x2
#define STO_MIPS_PROTECTED		0x3
#define STO_MIPS_PLT			0x8
#define STO_MIPS_SC_ALIGN_UNUSED	0xff

/* MIPS specific values for `st_info'.  */
#define STB_MIPS_SPLIT_COMMON		13

/* Entries found in sections of type SHT_MIPS_GPTAB.  */

typedef union
{
  struct
    {
      Elf32_Word gt_current_g_value;	/* -G value used for compilation.  */
      Elf32_Word gt_unused;		/* Not used.  */
    } gt_header;			/* First entry in section.  */
  struct
    {
      Elf32_Word gt_g_value;		/* If this value were used for -G.  */
      Elf32_Word gt_bytes;		/* This many bytes would be used.  */
    } gt_entry;				/* Subsequent entries in section.  */
} Elf32_gptab;

/* Entry found in sections of type SHT_MIPS_REGINFO.  */

typedef struct
{
  Elf32_Word ri_gprmask;		/* General registers used.  */
  Elf32_Word ri_cprmask[4];		/* Coprocessor registers used.  */
  Elf32_Sword ri_gp_value;		/* $gp register value.  */
} Elf32_RegInfo;

/* Entries found in sections of type SHT_MIPS_OPTIONS.  */

typedef struct
{
  unsigned char kind;		/* Determines interpretation of the
				   variable part of descriptor.  */
  unsigned char size;		/* Size of descriptor, including header.  */
  Elf32_Section section;	/* Section header index of section affected,
				   0 for global options.  */
  Elf32_Word info;		/* Kind-specific information.  */
} Elf_Options;

/* Values for `kind' field in Elf_Options.  */

#define ODK_NULL	0	/* Undefined.  */
#define ODK_REGINFO	1	/* Register usage information.  */
#define ODK_EXCEPTIONS	2	/* Exception processing options.  */
#define ODK_PAD		3	/* Section padding options.  */
#define ODK_HWPATCH	4	/* Hardware workarounds performed */
#define ODK_FILL	5	/* record the fill value used by the linker. */
#define ODK_TAGS	6	/* reserve space for desktop tools to write. */
#define ODK_HWAND	7	/* HW workarounds.  'AND' bits when merging. */
#define ODK_HWOR	8	/* HW workarounds.  'OR' bits when merging.  */

/* Values for `info' in Elf_Options for ODK_EXCEPTIONS entries.  */

#define OEX_FPU_MIN	0x1f	/* FPE's which MUST be enabled.  */
#define OEX_FPU_MAX	0x1f00	/* FPE's which MAY be enabled.  */
#define OEX_PAGE0	0x10000	/* page zero must be mapped.  */
#define OEX_SMM		0x20000	/* Force sequential memory mode?  */
#define OEX_FPDBUG	0x40000	/* Force floating point debug mode?  */
#define OEX_PRECISEFP	OEX_FPDBUG
#define OEX_DISMISS	0x80000	/* Dismiss invalid address faults?  */

#define OEX_FPU_INVAL	0x10
#define OEX_FPU_DIV0	0x08
#define OEX_FPU_OFLO	0x04
#define OEX_FPU_UFLO	0x02
#define OEX_FPU_INEX	0x01

/* Masks for `info' in Elf_Options for an ODK_HWPATCH entry.  */

#define OHW_R4KEOP	0x1	/* R4000 end-of-page patch.  */
#define OHW_R8KPFETCH	0x2	/* may need R8000 prefetch patch.  */
#define OHW_R5KEOP	0x4	/* R5000 end-of-page patch.  */
#define OHW_R5KCVTL	0x8	/* R5000 cvt.[ds].l bug.  clean=1.  */

#define OPAD_PREFIX	0x1
#define OPAD_POSTFIX	0x2
#define OPAD_SYMBOL	0x4

/* Entry found in `.options' section.  */

typedef struct
{
  Elf32_Word hwp_flags1;	/* Extra flags.  */
  Elf32_Word hwp_flags2;	/* Extra flags.  */
} Elf_Options_Hw;

/* Masks for `info' in ElfOptions for ODK_HWAND and ODK_HWOR entries.  */

#define OHWA0_R4KEOP_CHECKED	0x00000001
#define OHWA1_R4KEOP_CLEAN	0x00000002

/* MIPS relocs.  */

#define R_MIPS_NONE		0	/* No reloc */
#define R_MIPS_16		1	/* Direct 16 bit */
#define R_MIPS_32		2	/* Direct 32 bit */
#define R_MIPS_REL32		3	/* PC relative 32 bit */
#define R_MIPS_26		4	/* Direct 26 bit shifted */
#define R_MIPS_HI16		5	/* High 16 bit */
#define R_MIPS_LO16		6	/* Low 16 bit */
#define R_MIPS_GPREL16		7	/* GP relative 16 bit */
#define R_MIPS_LITERAL		8	/* 16 bit literal entry */
#define R_MIPS_GOT16		9	/* 16 bit GOT entry */
#define R_MIPS_PC16		10	/* PC relative 16 bit */
#define R_MIPS_CALL16		11	/* 16 bit GOT entry for function */
#define R_MIPS_GPREL32		12	/* GP relative 32 bit */

#define R_MIPS_SHIFT5		16
#define R_MIPS_SHIFT6		17
#define R_MIPS_64		18
#define R_MIPS_GOT_DISP		19
#define R_MIPS_GOT_PAGE		20
#define R_MIPS_GOT_OFST		21
#define R_MIPS_GOT_HI16		22
#define R_MIPS_GOT_LO16		23
#define R_MIPS_SUB		24
#define R_MIPS_INSERT_A		25
#define R_MIPS_INSERT_B		26
#define R_MIPS_DELETE		27
#define R_MIPS_HIGHER		28
#define R_MIPS_HIGHEST		29
#define R_MIPS_CALL_HI16	30
#define R_MIPS_CALL_LO16	31
#define R_MIPS_SCN_DISP		32
#define R_MIPS_REL16		33
#define R_MIPS_ADD_IMMEDIATE	34
#define R_MIPS_PJUMP		35
#define R_MIPS_RELGOT		36
#define R_MIPS_JALR		37
#define R_MIPS_TLS_DTPMOD32	38	/* Module number 32 bit */
#define R_MIPS_TLS_DTPREL32	39	/* Module-relative offset 32 bit */
#define R_MIPS_TLS_DTPMOD64	40	/* Module number 64 bit */
#define R_MIPS_TLS_DTPREL64	41	/* Module-relative offset 64 bit */
#define R_MIPS_TLS_GD		42	/* 16 bit GOT offset for GD */
#define R_MIPS_TLS_LDM		43	/* 16 bit GOT offset for LDM */
#define R_MIPS_TLS_DTPREL_HI16	44	/* Module-relative offset, high 16 bits */
#define R_MIPS_TLS_DTPREL_LO16	45	/* Module-relative offset, low 16 bits */
#define R_MIPS_TLS_GOTTPREL	46	/* 16 bit GOT offset for IE */
#define R_MIPS_TLS_TPREL32	47	/* TP-relative offset, 32 bit */
#define R_MIPS_TLS_TPREL64	48	/* TP-relative offset, 64 bit */
#define R_MIPS_TLS_TPREL_HI16	49	/* TP-relative offset, high 16 bits */
#define R_MIPS_TLS_TPREL_LO16	50	/* TP-relative offset, low 16 bits */
#define R_MIPS_GLOB_DAT		51
#define R_MIPS_COPY		126
#define R_MIPS_JUMP_SLOT        127
/* Keep this the last entry.  */
#define R_MIPS_NUM		128

/* Legal values for p_type field of Elf32_Phdr.  */

#define PT_MIPS_REGINFO	  0x70000000	/* Register usage information. */
#define PT_MIPS_RTPROC	  0x70000001	/* Runtime procedure table. */
#define PT_MIPS_OPTIONS	  0x70000002
#define PT_MIPS_ABIFLAGS  0x70000003	/* FP mode requirement. */

/* Special program header types.  */

#define PF_MIPS_LOCAL	0x10000000

/* Legal values for d_tag field of Elf32_Dyn.  */

#define DT_MIPS_RLD_VERSION  0x70000001	/* Runtime linker interface version */
#define DT_MIPS_TIME_STAMP   0x70000002	/* Timestamp */
#define DT_MIPS_ICHECKSUM    0x70000003	/* Checksum */
#define DT_MIPS_IVERSION     0x70000004	/* Version string (string tbl index) */
#define DT_MIPS_FLAGS	     0x70000005	/* Flags */
#define DT_MIPS_BASE_ADDRESS 0x70000006	/* Base address */
#define DT_MIPS_MSYM	     0x70000007
#define DT_MIPS_CONFLICT     0x70000008	/* Address of CONFLICT section */
#define DT_MIPS_LIBLIST	     0x70000009	/* Address of LIBLIST section */
#define DT_MIPS_LOCAL_GOTNO  0x7000000a	/* Number of local GOT entries */
#define DT_MIPS_CONFLICTNO   0x7000000b	/* Number of CONFLICT entries */
#define DT_MIPS_LIBLISTNO    0x70000010	/* Number of LIBLIST entries */
#define DT_MIPS_SYMTABNO     0x70000011	/* Number of DYNSYM entries */
#define DT_MIPS_UNREFEXTNO   0x70000012	/* First external DYNSYM */
#define DT_MIPS_GOTSYM	     0x70000013	/* First GOT entry in DYNSYM */
#define DT_MIPS_HIPAGENO     0x70000014	/* Number of GOT page table entries */
#define DT_MIPS_RLD_MAP	     0x70000016	/* Address of run time loader map.  */
#define DT_MIPS_DELTA_CLASS  0x70000017	/* Delta C++ class definition.  */
#define DT_MIPS_DELTA_CLASS_NO    0x70000018 /* Number of entries in
						DT_MIPS_DELTA_CLASS.  */
#define DT_MIPS_DELTA_INSTANCE    0x70000019 /* Delta C++ class instances.  */
#define DT_MIPS_DELTA_INSTANCE_NO 0x7000001a /* Number of entries in
						DT_MIPS_DELTA_INSTANCE.  */
#define DT_MIPS_DELTA_RELOC  0x7000001b /* Delta relocations.  */
#define DT_MIPS_DELTA_RELOC_NO 0x7000001c /* Number of entries in
					     DT_MIPS_DELTA_RELOC.  */
#define DT_MIPS_DELTA_SYM    0x7000001d /* Delta symbols that Delta
					   relocations refer to.  */
#define DT_MIPS_DELTA_SYM_NO 0x7000001e /* Number of entries in
					   DT_MIPS_DELTA_SYM.  */
#define DT_MIPS_DELTA_CLASSSYM 0x70000020 /* Delta symbols that hold the
					     class declaration.  */
#define DT_MIPS_DELTA_CLASSSYM_NO 0x70000021 /* Number of entries in
						DT_MIPS_DELTA_CLASSSYM.  */
#define DT_MIPS_CXX_FLAGS    0x70000022 /* Flags indicating for C++ flavor.  */
#define DT_MIPS_PIXIE_INIT   0x70000023
#define DT_MIPS_SYMBOL_LIB   0x70000024
#define DT_MIPS_LOCALPAGE_GOTIDX 0x70000025
#define DT_MIPS_LOCAL_GOTIDX 0x70000026
#define DT_MIPS_HIDDEN_GOTIDX 0x70000027
#define DT_MIPS_PROTECTED_GOTIDX 0x70000028
#define DT_MIPS_OPTIONS	     0x70000029 /* Address of .options.  */
#define DT_MIPS_INTERFACE    0x7000002a /* Address of .interface.  */
#define DT_MIPS_DYNSTR_ALIGN 0x7000002b
#define DT_MIPS_INTERFACE_SIZE 0x7000002c /* Size of the .interface section. */
#define DT_MIPS_RLD_TEXT_RESOLVE_ADDR 0x7000002d /* Address of rld_text_rsolve
						    function stored in GOT.  */
#define DT_MIPS_PERF_SUFFIX  0x7000002e /* Default suffix of dso to be added
					   by rld on dlopen() calls.  */
#define DT_MIPS_COMPACT_SIZE 0x7000002f /* (O32)Size of compact rel section. */
#define DT_MIPS_GP_VALUE     0x70000030 /* GP value for aux GOTs.  */
#define DT_MIPS_AUX_DYNAMIC  0x70000031 /* Address of aux .dynamic.  */
/* The address of .got.plt in an executable using the new non-PIC ABI.  */
#define DT_MIPS_PLTGOT	     0x70000032
/* The base of the PLT in an executable using the new non-PIC ABI if that
   PLT is writable.  For a non-writable PLT, this is omitted or has a zero
   value.  */
#define DT_MIPS_RWPLT        0x70000034
/* An alternative description of the classic MIPS RLD_MAP that is usable
   in a PIE as it stores a relative offset from the address of the tag
   rather than an absolute address.  */
#define DT_MIPS_RLD_MAP_REL  0x70000035
/* GNU-style hash table with xlat.  */
#define DT_MIPS_XHASH	     0x70000036
#define DT_MIPS_NUM	     0x37

/* Legal values for DT_MIPS_FLAGS Elf32_Dyn entry.  */

#define RHF_NONE		   0		/* No flags */
#define RHF_QUICKSTART		   (1 << 0)	/* Use quickstart */
#define RHF_NOTPOT		   (1 << 1)	/* Hash size not power of 2 */
#define RHF_NO_LIBRARY_REPLACEMENT (1 << 2)	/* Ignore LD_LIBRARY_PATH */
#define RHF_NO_MOVE		   (1 << 3)
#define RHF_SGI_ONLY		   (1 << 4)
#define RHF_GUARANTEE_INIT	   (1 << 5)
#define RHF_DELTA_C_PLUS_PLUS	   (1 << 6)
#define RHF_GUARANTEE_START_INIT   (1 << 7)
#define RHF_PIXIE		   (1 << 8)
#define RHF_DEFAULT_DELAY_LOAD	   (1 << 9)
#define RHF_REQUICKSTART	   (1 << 10)
#define RHF_REQUICKSTARTED	   (1 << 11)
#define RHF_CORD		   (1 << 12)
#define RHF_NO_UNRES_UNDEF	   (1 << 13)
#define RHF_RLD_ORDER_SAFE	   (1 << 14)

/* Entries found in sections of type SHT_MIPS_LIBLIST.  */

typedef struct
{
  Elf32_Word l_name;		/* Name (string table index) */
  Elf32_Word l_time_stamp;	/* Timestamp */
  Elf32_Word l_checksum;	/* Checksum */
  Elf32_Word l_version;		/* Interface version */
  Elf32_Word l_flags;		/* Flags */
} Elf32_Lib;

typedef struct
{
  Elf64_Word l_name;		/* Name (string table index) */
  Elf64_Word l_time_stamp;	/* Timestamp */
  Elf64_Word l_checksum;	/* Checksum */
  Elf64_Word l_version;		/* Interface version */
  Elf64_Word l_flags;		/* Flags */
} Elf64_Lib;


/* Legal values for l_flags.  */

#define LL_NONE		  0
#define LL_EXACT_MATCH	  (1 << 0)	/* Require exact match */
#define LL_IGNORE_INT_VER (1 << 1)	/* Ignore interface version */
#define LL_REQUIRE_MINOR  (1 << 2)
#define LL_EXPORTS	  (1 << 3)
#define LL_DELAY_LOAD	  (1 << 4)
#define LL_DELTA	  (1 << 5)

/* Entries found in sections of type SHT_MIPS_CONFLICT.  */

typedef Elf32_Addr Elf32_Conflict;

typedef struct
{
  /* Version of flags structure.  */
  Elf32_Half version;
  /* The level of the ISA: 1-5, 32, 64.  */
  unsigned char isa_level;
  /* The revision of ISA: 0 for MIPS V and below, 1-n otherwise.  */
  unsigned char isa_rev;
  /* The size of general purpose registers.  */
  unsigned char gpr_size;
  /* The size of co-processor 1 registers.  */
  unsigned char cpr1_size;
  /* The size of co-processor 2 registers.  */
  unsigned char cpr2_size;
  /* The floating-point ABI.  */
  unsigned char fp_abi;
  /* Processor-specific extension.  */
  Elf32_Word isa_ext;
  /* Mask of ASEs used.  */
  Elf32_Word ases;
  /* Mask of general flags.  */
  Elf32_Word flags1;
  Elf32_Word flags2;
} Elf_MIPS_ABIFlags_v0;

/* Values for the register size bytes of an abi flags structure.  */

#define MIPS_AFL_REG_NONE	0x00	 /* No registers.  */
#define MIPS_AFL_REG_32		0x01	 /* 32-bit registers.  */
#define MIPS_AFL_REG_64		0x02	 /* 64-bit registers.  */
#define MIPS_AFL_REG_128	0x03	 /* 128-bit registers.  */

/* Masks for the ases word of an ABI flags structure.  */

#define MIPS_AFL_ASE_DSP	0x00000001 /* DSP ASE.  */
#define MIPS_AFL_ASE_DSPR2	0x00000002 /* DSP R2 ASE.  */
#define MIPS_AFL_ASE_EVA	0x00000004 /* Enhanced VA Scheme.  */
#define MIPS_AFL_ASE_MCU	0x00000008 /* MCU (MicroController) ASE.  */
#define MIPS_AFL_ASE_MDMX	0x00000010 /* MDMX ASE.  */
#define MIPS_AFL_ASE_MIPS3D	0x00000020 /* MIPS-3D ASE.  */
#define MIPS_AFL_ASE_MT		0x00000040 /* MT ASE.  */
#define MIPS_AFL_ASE_SMARTMIPS	0x00000080 /* SmartMIPS ASE.  */
#define MIPS_AFL_ASE_VIRT	0x00000100 /* VZ ASE.  */
#define MIPS_AFL_ASE_MSA	0x00000200 /* MSA ASE.  */
#define MIPS_AFL_ASE_MIPS16	0x00000400 /* MIPS16 ASE.  */
#define MIPS_AFL_ASE_MICROMIPS	0x00000800 /* MICROMIPS ASE.  */
#define MIPS_AFL_ASE_XPA	0x00001000 /* XPA ASE.  */
#define MIPS_AFL_ASE_MASK	0x00001fff /* All ASEs.  */

/* Values for the isa_ext word of an ABI flags structure.  */

#define MIPS_AFL_EXT_XLR	  1   /* RMI Xlr instruction.  */
#define MIPS_AFL_EXT_OCTEON2	  2   /* Cavium Networks Octeon2.  */
#define MIPS_AFL_EXT_OCTEONP	  3   /* Cavium Networks OcteonP.  */
#define MIPS_AFL_EXT_LOONGSON_3A  4   /* Loongson 3A.  */
#define MIPS_AFL_EXT_OCTEON	  5   /* Cavium Networks Octeon.  */
#define MIPS_AFL_EXT_5900	  6   /* MIPS R5900 instruction.  */
#define MIPS_AFL_EXT_4650	  7   /* MIPS R4650 instruction.  */
#define MIPS_AFL_EXT_4010	  8   /* LSI R4010 instruction.  */
#define MIPS_AFL_EXT_4100	  9   /* NEC VR4100 instruction.  */
#define MIPS_AFL_EXT_3900	  10  /* Toshiba R3900 instruction.  */
#define MIPS_AFL_EXT_10000	  11  /* MIPS R10000 instruction.  */
#define MIPS_AFL_EXT_SB1	  12  /* Broadcom SB-1 instruction.  */
#define MIPS_AFL_EXT_4111	  13  /* NEC VR4111/VR4181 instruction.  */
#define MIPS_AFL_EXT_4120	  14  /* NEC VR4120 instruction.  */
#define MIPS_AFL_EXT_5400	  15  /* NEC VR5400 instruction.  */
#define MIPS_AFL_EXT_5500	  16  /* NEC VR5500 instruction.  */
#define MIPS_AFL_EXT_LOONGSON_2E  17  /* ST Microelectronics Loongson 2E.  */
#define MIPS_AFL_EXT_LOONGSON_2F  18  /* ST Microelectronics Loongson 2F.  */

/* Masks for the flags1 word of an ABI flags structure.  */
#define MIPS_AFL_FLAGS1_ODDSPREG  1  /* Uses odd single-precision registers.  */

/* Object attribute values.  */
enum
{
  /* Not tagged or not using any ABIs affected by the differences.  */
  Val_GNU_MIPS_ABI_FP_ANY = 0,
  /* Using hard-float -mdouble-float.  */
  Val_GNU_MIPS_ABI_FP_DOUBLE = 1,
  /* Using hard-float -msingle-float.  */
  Val_GNU_MIPS_ABI_FP_SINGLE = 2,
  /* Using soft-float.  */
  Val_GNU_MIPS_ABI_FP_SOFT = 3,
  /* Using -mips32r2 -mfp64.  */
  Val_GNU_MIPS_ABI_FP_OLD_64 = 4,
  /* Using -mfpxx.  */
  Val_GNU_MIPS_ABI_FP_XX = 5,
  /* Using -mips32r2 -mfp64.  */
  Val_GNU_MIPS_ABI_FP_64 = 6,
  /* Using -mips32r2 -mfp64 -mno-odd-spreg.  */
  Val_GNU_MIPS_ABI_FP_64A = 7,
  /* Maximum allocated FP ABI value.  */
  Val_GNU_MIPS_ABI_FP_MAX = 7
};

/* HPPA specific definitions.  */

/* Legal values for e_flags field of Elf32_Ehdr.  */

#define EF_PARISC_TRAPNIL	0x00010000 /* Trap nil pointer dereference.  */
#define EF_PARISC_EXT		0x00020000 /* Program uses arch. extensions. */
#define EF_PARISC_LSB		0x00040000 /* Program expects little endian. */
#define EF_PARISC_WIDE		0x00080000 /* Program expects wide mode.  */
#define EF_PARISC_NO_KABP	0x00100000 /* No kernel assisted branch
					      prediction.  */
#define EF_PARISC_LAZYSWAP	0x00400000 /* Allow lazy swapping.  */
#define EF_PARISC_ARCH		0x0000ffff /* Architecture version.  */

/* Defined values for `e_flags & EF_PARISC_ARCH' are:  */

#define EFA_PARISC_1_0		    0x020b /* PA-RISC 1.0 big-endian.  */
#define EFA_PARISC_1_1		    0x0210 /* PA-RISC 1.1 big-endian.  */
#define EFA_PARISC_2_0		    0x0214 /* PA-RISC 2.0 big-endian.  */

/* Additional section indices.  */

#define SHN_PARISC_ANSI_COMMON	0xff00	   /* Section for tentatively declared
					      symbols in ANSI C.  */
#define SHN_PARISC_HUGE_COMMON	0xff01	   /* Common blocks in huge model.  */

/* Legal values for sh_type field of Elf32_Shdr.  */

#define SHT_PARISC_EXT		0x70000000 /* Contains product specific ext. */
#define SHT_PARISC_UNWIND	0x70000001 /* Unwind information.  */
#define SHT_PARISC_DOC		0x70000002 /* Debug info for optimized code. */

/* Legal values for sh_flags field of Elf32_Shdr.  */

#define SHF_PARISC_SHORT	0x20000000 /* Section with short addressing. */
#define SHF_PARISC_HUGE		0x40000000 /* Section far from gp.  */
#define SHF_PARISC_SBP		0x80000000 /* Static branch prediction code. */

/* Legal values for ST_TYPE subfield of st_info (symbol type).  */

#define STT_PARISC_MILLICODE	13	/* Millicode function entry point.  */

#define STT_HP_OPAQUE		(STT_LOOS + 0x1)
#define STT_HP_STUB		(STT_LOOS + 0x2)

/* HPPA relocs.  */

#define R_PARISC_NONE		0	/* No reloc.  */
#define R_PARISC_DIR32		1	/* Direct 32-bit reference.  */
#define R_PARISC_DIR21L		2	/* Left 21 bits of eff. address.  */
#define R_PARISC_DIR17R		3	/* Right 17 bits of eff. address.  */
#define R_PARISC_DIR17F		4	/* 17 bits of eff. address.  */
#define R_PARISC_DIR14R		6	/* Right 14 bits of eff. address.  */
#define R_PARISC_PCREL32	9	/* 32-bit rel. address.  */
#define R_PARISC_PCREL21L	10	/* Left 21 bits of rel. address.  */
#define R_PARISC_PCREL17R	11	/* Right 17 bits of rel. address.  */
#define R_PARISC_PCREL17F	12	/* 17 bits of rel. address.  */
#define R_PARISC_PCREL14R	14	/* Right 14 bits of rel. address.  */
#define R_PARISC_DPREL21L	18	/* Left 21 bits of rel. address.  */
#define R_PARISC_DPREL14R	22	/* Right 14 bits of rel. address.  */
#define R_PARISC_GPREL21L	26	/* GP-relative, left 21 bits.  */
#define R_PARISC_GPREL14R	30	/* GP-relative, right 14 bits.  */
#define R_PARISC_LTOFF21L	34	/* LT-relative, left 21 bits.  */
#define R_PARISC_LTOFF14R	38	/* LT-relative, right 14 bits.  */
#define R_PARISC_SECREL32	41	/* 32 bits section rel. address.  */
#define R_PARISC_SEGBASE	48	/* No relocation, set segment base.  */
#define R_PARISC_SEGREL32	49	/* 32 bits segment rel. address.  */
#define R_PARISC_PLTOFF21L	50	/* PLT rel. address, left 21 bits.  */
#define R_PARISC_PLTOFF14R	54	/* PLT rel. address, right 14 bits.  */
#define R_PARISC_LTOFF_FPTR32	57	/* 32 bits LT-rel. function pointer. */
#define R_PARISC_LTOFF_FPTR21L	58	/* LT-rel. fct ptr, left 21 bits. */
#define R_PARISC_LTOFF_FPTR14R	62	/* LT-rel. fct ptr, right 14 bits. */
#define R_PARISC_FPTR64		64	/* 64 bits function address.  */
#define R_PARISC_PLABEL32	65	/* 32 bits function address.  */
#define R_PARISC_PLABEL21L	66	/* Left 21 bits of fdesc address.  */
#define R_PARISC_PLABEL14R	70	/* Right 14 bits of fdesc address.  */
#define R_PARISC_PCREL64	72	/* 64 bits PC-rel. address.  */
#define R_PARISC_PCREL22F	74	/* 22 bits PC-rel. address.  */
#define R_PARISC_PCREL14WR	75	/* PC-rel. address, right 14 bits.  */
#define R_PARISC_PCREL14DR	76	/* PC rel. address, right 14 bits.  */
#define R_PARISC_PCREL16F	77	/* 16 bits PC-rel. address.  */
#define R_PARISC_PCREL16WF	78	/* 16 bits PC-rel. address.  */
#define R_PARISC_PCREL16DF	79	/* 16 bits PC-rel. address.  */
#define R_PARISC_DIR64		80	/* 64 bits of eff. address.  */
#define R_PARISC_DIR14WR	83	/* 14 bits of eff. address.  */
#define R_PARISC_DIR14DR	84	/* 14 bits of eff. address.  */
#define R_PARISC_DIR16F		85	/* 16 bits of eff. address.  */
#define R_PARISC_DIR16WF	86	/* 16 bits of eff. address.  */
#define R_PARISC_DIR16DF	87	/* 16 bits of eff. address.  */
#define R_PARISC_GPREL64	88	/* 64 bits of GP-rel. address.  */
#define R_PARISC_GPREL14WR	91	/* GP-rel. address, right 14 bits.  */
#define R_PARISC_GPREL14DR	92	/* GP-rel. address, right 14 bits.  */
#define R_PARISC_GPREL16F	93	/* 16 bits GP-rel. address.  */
#define R_PARISC_GPREL16WF	94	/* 16 bits GP-rel. address.  */
#define R_PARISC_GPREL16DF	95	/* 16 bits GP-rel. address.  */
#define R_PARISC_LTOFF64	96	/* 64 bits LT-rel. address.  */
#define R_PARISC_LTOFF14WR	99	/* LT-rel. address, right 14 bits.  */
#define R_PARISC_LTOFF14DR	100	/* LT-rel. address, right 14 bits.  */
#define R_PARISC_LTOFF16F	101	/* 16 bits LT-rel. address.  */
#define R_PARISC_LTOFF16WF	102	/* 16 bits LT-rel. address.  */
#define R_PARISC_LTOFF16DF	103	/* 16 bits LT-rel. address.  */
#define R_PARISC_SECREL64	104	/* 64 bits section rel. address.  */
#define R_PARISC_SEGREL64	112	/* 64 bits segment rel. address.  */
#define R_PARISC_PLTOFF14WR	115	/* PLT-rel. address, right 14 bits.  */
#define R_PARISC_PLTOFF14DR	116	/* PLT-rel. address, right 14 bits.  */
#define R_PARISC_PLTOFF16F	117	/* 16 bits LT-rel. address.  */
#define R_PARISC_PLTOFF16WF	118	/* 16 bits PLT-rel. address.  */
#define R_PARISC_PLTOFF16DF	119	/* 16 bits PLT-rel. address.  */
#define R_PARISC_LTOFF_FPTR64	120	/* 64 bits LT-rel. function ptr.  */
#define R_PARISC_LTOFF_FPTR14WR	123	/* LT-rel. fct. ptr., right 14 bits. */
#define R_PARISC_LTOFF_FPTR14DR	124	/* LT-rel. fct. ptr., right 14 bits. */
#define R_PARISC_LTOFF_FPTR16F	125	/* 16 bits LT-rel. function ptr.  */
#define R_PARISC_LTOFF_FPTR16WF	126	/* 16 bits LT-rel. function ptr.  */
#define R_PARISC_LTOFF_FPTR16DF	127	/* 16 bits LT-rel. function ptr.  */
#define R_PARISC_LORESERVE	128
#define R_PARISC_COPY		128	/* Copy relocation.  */
#define R_PARISC_IPLT		129	/* Dynamic reloc, imported PLT */
#define R_PARISC_EPLT		130	/* Dynamic reloc, exported PLT */
#define R_PARISC_TPREL32	153	/* 32 bits TP-rel. address.  */
#define R_PARISC_TPREL21L	154	/* TP-rel. address, left 21 bits.  */
#define R_PARISC_TPREL14R	158	/* TP-rel. address, right 14 bits.  */
#define R_PARISC_LTOFF_TP21L	162	/* LT-TP-rel. address, left 21 bits. */
#define R_PARISC_LTOFF_TP14R	166	/* LT-TP-rel. address, right 14 bits.*/
#define R_PARISC_LTOFF_TP14F	167	/* 14 bits LT-TP-rel. address.  */
#define R_PARISC_TPREL64	216	/* 64 bits TP-rel. address.  */
#define R_PARISC_TPREL14WR	219	/* TP-rel. address, right 14 bits.  */
#define R_PARISC_TPREL14DR	220	/* TP-rel. address, right 14 bits.  */
#define R_PARISC_TPREL16F	221	/* 16 bits TP-rel. address.  */
#define R_PARISC_TPREL16WF	222	/* 16 bits TP-rel. address.  */
#define R_PARISC_TPREL16DF	223	/* 16 bits TP-rel. address.  */
#define R_PARISC_LTOFF_TP64	224	/* 64 bits LT-TP-rel. address.  */
#define R_PARISC_LTOFF_TP14WR	227	/* LT-TP-rel. address, right 14 bits.*/
#define R_PARISC_LTOFF_TP14DR	228	/* LT-TP-rel. address, right 14 bits.*/
#define R_PARISC_LTOFF_TP16F	229	/* 16 bits LT-TP-rel. address.  */
#define R_PARISC_LTOFF_TP16WF	230	/* 16 bits LT-TP-rel. address.  */
#define R_PARISC_LTOFF_TP16DF	231	/* 16 bits LT-TP-rel. address.  */
#define R_PARISC_GNU_VTENTRY	232
#define R_PARISC_GNU_VTINHERIT	233
#define R_PARISC_TLS_GD21L	234	/* GD 21-bit left.  */
#define R_PARISC_TLS_GD14R	235	/* GD 14-bit right.  */
#define R_PARISC_TLS_GDCALL	236	/* GD call to __t_g_a.  */
#define R_PARISC_TLS_LDM21L	237	/* LD module 21-bit left.  */
#define R_PARISC_TLS_LDM14R	238	/* LD module 14-bit right.  */
#define R_PARISC_TLS_LDMCALL	239	/* LD module call to __t_g_a.  */
#define R_PARISC_TLS_LDO21L	240	/* LD offset 21-bit left.  */
#define R_PARISC_TLS_LDO14R	241	/* LD offset 14-bit right.  */
#define R_PARISC_TLS_DTPMOD32	242	/* DTP module 32-bit.  */
#define R_PARISC_TLS_DTPMOD64	243	/* DTP module 64-bit.  */
#define R_PARISC_TLS_DTPOFF32	244	/* DTP offset 32-bit.  */
#define R_PARISC_TLS_DTPOFF64	245	/* DTP offset 32-bit.  */
#define R_PARISC_TLS_LE21L	R_PARISC_TPREL21L
#define R_PARISC_TLS_LE14R	R_PARISC_TPREL14R
#define R_PARISC_TLS_IE21L	R_PARISC_LTOFF_TP21L
#define R_PARISC_TLS_IE14R	R_PARISC_LTOFF_TP14R
#define R_PARISC_TLS_TPREL32	R_PARISC_TPREL32
#define R_PARISC_TLS_TPREL64	R_PARISC_TPREL64
#define R_PARISC_HIRESERVE	255

/* Legal values for p_type field of Elf32_Phdr/Elf64_Phdr.  */

#define PT_HP_TLS		(PT_LOOS + 0x0)
#define PT_HP_CORE_NONE		(PT_LOOS + 0x1)
#define PT_HP_CORE_VERSION	(PT_LOOS + 0x2)
#define PT_HP_CORE_KERNEL	(PT_LOOS + 0x3)
#define PT_HP_CORE_COMM		(PT_LOOS + 0x4)
#define PT_HP_CORE_PROC		(PT_LOOS + 0x5)
#define PT_HP_CORE_LOADABLE	(PT_LOOS + 0x6)
#define PT_HP_CORE_STACK	(PT_LOOS + 0x7)
#define PT_HP_CORE_SHM		(PT_LOOS + 0x8)
#define PT_HP_CORE_MMF		(PT_LOOS + 0x9)
#define PT_HP_PARALLEL		(PT_LOOS + 0x10)
#define PT_HP_FASTBIND		(PT_LOOS + 0x11)
#define PT_HP_OPT_ANNOT		(PT_LOOS + 0x12)
#define PT_HP_HSL_ANNOT		(PT_LOOS + 0x13)
#define PT_HP_STACK		(PT_LOOS + 0x14)

#define PT_PARISC_ARCHEXT	0x70000000
#define PT_PARISC_UNWIND	0x70000001

/* Legal values for p_flags field of Elf32_Phdr/Elf64_Phdr.  */

#define PF_PARISC_SBP		0x08000000

#define PF_HP_PAGE_SIZE		0x00100000
#define PF_HP_FAR_SHARED	0x00200000
#define PF_HP_NEAR_SHARED	0x00400000
#define PF_HP_CODE		0x01000000
#define PF_HP_MODIFY		0x02000000
#define PF_HP_LAZYSWAP		0x04000000
#define PF_HP_SBP		0x08000000


/* Alpha specific definitions.  */

/* Legal values for e_flags field of Elf64_Ehdr.  */

#define EF_ALPHA_32BIT		1	/* All addresses must be < 2GB.  */
#define EF_ALPHA_CANRELAX	2	/* Relocations for relaxing exist.  */

/* Legal values for sh_type field of Elf64_Shdr.  */

/* These two are primerily concerned with ECOFF debugging info.  */
#define SHT_ALPHA_DEBUG		0x70000001
#define SHT_ALPHA_REGINFO	0x70000002

/* Legal values for sh_flags field of Elf64_Shdr.  */

#define SHF_ALPHA_GPREL		0x10000000

/* Legal values for st_other field of Elf64_Sym.  */
#define STO_ALPHA_NOPV		0x80	/* No PV required.  */
#define STO_ALPHA_STD_GPLOAD	0x88	/* PV only used for initial ldgp.  */

/* Alpha relocs.  */

#define R_ALPHA_NONE		0	/* No reloc */
#define R_ALPHA_REFLONG		1	/* Direct 32 bit */
#define R_ALPHA_REFQUAD		2	/* Direct 64 bit */
#define R_ALPHA_GPREL32		3	/* GP relative 32 bit */
#define R_ALPHA_LITERAL		4	/* GP relative 16 bit w/optimization */
#define R_ALPHA_LITUSE		5	/* Optimization hint for LITERAL */
#define R_ALPHA_GPDISP		6	/* Add displacement to GP */
#define R_ALPHA_BRADDR		7	/* PC+4 relative 23 bit shifted */
#define R_ALPHA_HINT		8	/* PC+4 relative 16 bit shifted */
#define R_ALPHA_SREL16		9	/* PC relative 16 bit */
#define R_ALPHA_SREL32		10	/* PC relative 32 bit */
#define R_ALPHA_SREL64		11	/* PC relative 64 bit */
#define R_ALPHA_GPRELHIGH	17	/* GP relative 32 bit, high 16 bits */
#define R_ALPHA_GPRELLOW	18	/* GP relative 32 bit, low 16 bits */
#define R_ALPHA_GPREL16		19	/* GP relative 16 bit */
#define R_ALPHA_COPY		24	/* Copy symbol at runtime */
#define R_ALPHA_GLOB_DAT	25	/* Create GOT entry */
#define R_ALPHA_JMP_SLOT	26	/* Create PLT entry */
#define R_ALPHA_RELATIVE	27	/* Adjust by program base */
#define R_ALPHA_TLS_GD_HI	28
#define R_ALPHA_TLSGD		29
#define R_ALPHA_TLS_LDM		30
#define R_ALPHA_DTPMOD64	31
#define R_ALPHA_GOTDTPREL	32
#define R_ALPHA_DTPREL64	33
#define R_ALPHA_DTPRELHI	34
#define R_ALPHA_DTPRELLO	35
#define R_ALPHA_DTPREL16	36
#define R_ALPHA_GOTTPREL	37
#define R_ALPHA_TPREL64		38
#define R_ALPHA_TPRELHI		39
#define R_ALPHA_TPRELLO		40
#define R_ALPHA_TPREL16		41
/* Keep this the last entry.  */
#define R_ALPHA_NUM		46

/* Magic values of the LITUSE relocation addend.  */
#define LITUSE_ALPHA_ADDR	0
#define LITUSE_ALPHA_BASE	1
#define LITUSE_ALPHA_BYTOFF	2
#define LITUSE_ALPHA_JSR	3
#define LITUSE_ALPHA_TLS_GD	4
#define LITUSE_ALPHA_TLS_LDM	5

/* Legal values for d_tag of Elf64_Dyn.  */
#define DT_ALPHA_PLTRO		(DT_LOPROC + 0)
#define DT_ALPHA_NUM		1

/* PowerPC specific declarations */

/* Values for Elf32/64_Ehdr.e_flags.  */
#define EF_PPC_EMB		0x80000000	/* PowerPC embedded flag */

/* Cygnus local bits below */
#define EF_PPC_RELOCATABLE	0x00010000	/* PowerPC -mrelocatable flag*/
#define EF_PPC_RELOCATABLE_LIB	0x00008000	/* PowerPC -mrelocatable-lib
						   flag */

/* PowerPC relocations defined by the ABIs */
#define R_PPC_NONE		0
#define R_PPC_ADDR32		1	/* 32bit absolute address */
#define R_PPC_ADDR24		2	/* 26bit address, 2 bits ignored.  */
#define R_PPC_ADDR16		3	/* 16bit absolute address */
#define R_PPC_ADDR16_LO		4	/* lower 16bit of absolute address */
#define R_PPC_ADDR16_HI		5	/* high 16bit of absolute address */
#define R_PPC_ADDR16_HA		6	/* adjusted high 16bit */
#define R_PPC_ADDR14		7	/* 16bit address, 2 bits ignored */
#define R_PPC_ADDR14_BRTAKEN	8
#define R_PPC_ADDR14_BRNTAKEN	9
#define R_PPC_REL24		10	/* PC relative 26 bit */
#define R_PPC_REL14		11	/* PC relative 16 bit */
#define R_PPC_REL14_BRTAKEN	12
#define R_PPC_REL14_BRNTAKEN	13
#define R_PPC_GOT16		14
#define R_PPC_GOT16_LO		15
#define R_PPC_GOT16_HI		16
#define R_PPC_GOT16_HA		17
#define R_PPC_PLTREL24		18
#define R_PPC_COPY		19
#define R_PPC_GLOB_DAT		20
#define R_PPC_JMP_SLOT		21
#define R_PPC_RELATIVE		22
#define R_PPC_LOCAL24PC		23
#define R_PPC_UADDR32		24
#define R_PPC_UADDR16		25
#define R_PPC_REL32		26
#define R_PPC_PLT32		27
#define R_PPC_PLTREL32		28
#define R_PPC_PLT16_LO		29
#define R_PPC_PLT16_HI		30
#define R_PPC_PLT16_HA		31
#define R_PPC_SDAREL16		32
#define R_PPC_SECTOFF		33
#define R_PPC_SECTOFF_LO	34
#define R_PPC_SECTOFF_HI	35
#define R_PPC_SECTOFF_HA	36

/* PowerPC relocations defined for the TLS access ABI.  */
#define R_PPC_TLS		67 /* none	(sym+add)@tls */
#define R_PPC_DTPMOD32		68 /* word32	(sym+add)@dtpmod */
#define R_PPC_TPREL16		69 /* half16*	(sym+add)@tprel */
#define R_PPC_TPREL16_LO	70 /* half16	(sym+add)@tprel@l */
#define R_PPC_TPREL16_HI	71 /* half16	(sym+add)@tprel@h */
#define R_PPC_TPREL16_HA	72 /* half16	(sym+add)@tprel@ha */
#define R_PPC_TPREL32		73 /* word32	(sym+add)@tprel */
#define R_PPC_DTPREL16		74 /* half16*	(sym+add)@dtprel */
#define R_PPC_DTPREL16_LO	75 /* half16	(sym+add)@dtprel@l */
#define R_PPC_DTPREL16_HI	76 /* half16	(sym+add)@dtprel@h */
#define R_PPC_DTPREL16_HA	77 /* half16	(sym+add)@dtprel@ha */
#define R_PPC_DTPREL32		78 /* word32	(sym+add)@dtprel */
#define R_PPC_GOT_TLSGD16	79 /* half16*	(sym+add)@got@tlsgd */
#define R_PPC_GOT_TLSGD16_LO	80 /* half16	(sym+add)@got@tlsgd@l */
#define R_PPC_GOT_TLSGD16_HI	81 /* half16	(sym+add)@got@tlsgd@h */
#define R_PPC_GOT_TLSGD16_HA	82 /* half16	(sym+add)@got@tlsgd@ha */
#define R_PPC_GOT_TLSLD16	83 /* half16*	(sym+add)@got@tlsld */
#define R_PPC_GOT_TLSLD16_LO	84 /* half16	(sym+add)@got@tlsld@l */
#define R_PPC_GOT_TLSLD16_HI	85 /* half16	(sym+add)@got@tlsld@h */
#define R_PPC_GOT_TLSLD16_HA	86 /* half16	(sym+add)@got@tlsld@ha */
#define R_PPC_GOT_TPREL16	87 /* half16*	(sym+add)@got@tprel */
#define R_PPC_GOT_TPREL16_LO	88 /* half16	(sym+add)@got@tprel@l */
#define R_PPC_GOT_TPREL16_HI	89 /* half16	(sym+add)@got@tprel@h */
#define R_PPC_GOT_TPREL16_HA	90 /* half16	(sym+add)@got@tprel@ha */
#define R_PPC_GOT_DTPREL16	91 /* half16*	(sym+add)@got@dtprel */
#define R_PPC_GOT_DTPREL16_LO	92 /* half16*	(sym+add)@got@dtprel@l */
#define R_PPC_GOT_DTPREL16_HI	93 /* half16*	(sym+add)@got@dtprel@h */
#define R_PPC_GOT_DTPREL16_HA	94 /* half16*	(sym+add)@got@dtprel@ha */
#define R_PPC_TLSGD		95 /* none	(sym+add)@tlsgd */
#define R_PPC_TLSLD		96 /* none	(sym+add)@tlsld */

/* The remaining relocs are from the Embedded ELF ABI, and are not
   in the SVR4 ELF ABI.  */
#define R_PPC_EMB_NADDR32	101
#define R_PPC_EMB_NADDR16	102
#define R_PPC_EMB_NADDR16_LO	103
#define R_PPC_EMB_NADDR16_HI	104
#define R_PPC_EMB_NADDR16_HA	105
#define R_PPC_EMB_SDAI16	106
#define R_PPC_EMB_SDA2I16	107
#define R_PPC_EMB_SDA2REL	108
#define R_PPC_EMB_SDA21		109	/* 16 bit offset in SDA */
#define R_PPC_EMB_MRKREF	110
#define R_PPC_EMB_RELSEC16	111
#define R_PPC_EMB_RELST_LO	112
#define R_PPC_EMB_RELST_HI	113
#define R_PPC_EMB_RELST_HA	114
#define R_PPC_EMB_BIT_FLD	115
#define R_PPC_EMB_RELSDA	116	/* 16 bit relative offset in SDA */

/* Diab tool relocations.  */
#define R_PPC_DIAB_SDA21_LO	180	/* like EMB_SDA21, but lower 16 bit */
#define R_PPC_DIAB_SDA21_HI	181	/* like EMB_SDA21, but high 16 bit */
#define R_PPC_DIAB_SDA21_HA	182	/* like EMB_SDA21, adjusted high 16 */
#define R_PPC_DIAB_RELSDA_LO	183	/* like EMB_RELSDA, but lower 16 bit */
#define R_PPC_DIAB_RELSDA_HI	184	/* like EMB_RELSDA, but high 16 bit */
#define R_PPC_DIAB_RELSDA_HA	185	/* like EMB_RELSDA, adjusted high 16 */

/* GNU extension to support local ifunc.  */
#define R_PPC_IRELATIVE		248

/* GNU relocs used in PIC code sequences.  */
#define R_PPC_REL16		249	/* half16   (sym+add-.) */
#define R_PPC_REL16_LO		250	/* half16   (sym+add-.)@l */
#define R_PPC_REL16_HI		251	/* half16   (sym+add-.)@h */
#define R_PPC_REL16_HA		252	/* half16   (sym+add-.)@ha */

/* This is a phony reloc to handle any old fashioned TOC16 references
   that may still be in object files.  */
#define R_PPC_TOC16		255

/* PowerPC specific values for the Dyn d_tag field.  */
#define DT_PPC_GOT		(DT_LOPROC + 0)
#define DT_PPC_OPT		(DT_LOPROC + 1)
#define DT_PPC_NUM		2

/* PowerPC specific values for the DT_PPC_OPT Dyn entry.  */
#define PPC_OPT_TLS		1

/* PowerPC64 relocations defined by the ABIs */
#define R_PPC64_NONE		R_PPC_NONE
#define R_PPC64_ADDR32		R_PPC_ADDR32 /* 32bit absolute address */
#define R_PPC64_ADDR24		R_PPC_ADDR24 /* 26bit address, word aligned */
#define R_PPC64_ADDR16		R_PPC_ADDR16 /* 16bit absolute address */
#define R_PPC64_ADDR16_LO	R_PPC_ADDR16_LO	/* lower 16bits of address */
#define R_PPC64_ADDR16_HI	R_PPC_ADDR16_HI	/* high 16bits of address. */
#define R_PPC64_ADDR16_HA	R_PPC_ADDR16_HA /* adjusted high 16bits.  */
#define R_PPC64_ADDR14		R_PPC_ADDR14 /* 16bit address, word aligned */
#define R_PPC64_ADDR14_BRTAKEN	R_PPC_ADDR14_BRTAKEN
#define R_PPC64_ADDR14_BRNTAKEN	R_PPC_ADDR14_BRNTAKEN
#define R_PPC64_REL24		R_PPC_REL24 /* PC-rel. 26 bit, word aligned */
#define R_PPC64_REL14		R_PPC_REL14 /* PC relative 16 bit */
#define R_PPC64_REL14_BRTAKEN	R_PPC_REL14_BRTAKEN
#define R_PPC64_REL14_BRNTAKEN	R_PPC_REL14_BRNTAKEN
#define R_PPC64_GOT16		R_PPC_GOT16
#define R_PPC64_GOT16_LO	R_PPC_GOT16_LO
#define R_PPC64_GOT16_HI	R_PPC_GOT16_HI
#define R_PPC64_GOT16_HA	R_PPC_GOT16_HA

#define R_PPC64_COPY		R_PPC_COPY
#define R_PPC64_GLOB_DAT	R_PPC_GLOB_DAT
#define R_PPC64_JMP_SLOT	R_PPC_JMP_SLOT
#define R_PPC64_RELATIVE	R_PPC_RELATIVE

#define R_PPC64_UADDR32		R_PPC_UADDR32
#define R_PPC64_UADDR16		R_PPC_UADDR16
#define R_PPC64_REL32		R_PPC_REL32
#define R_PPC64_PLT32		R_PPC_PLT32
#define R_PPC64_PLTREL32	R_PPC_PLTREL32
#define R_PPC64_PLT16_LO	R_PPC_PLT16_LO
#define R_PPC64_PLT16_HI	R_PPC_PLT16_HI
#define R_PPC64_PLT16_HA	R_PPC_PLT16_HA

#define R_PPC64_SECTOFF		R_PPC_SECTOFF
#define R_PPC64_SECTOFF_LO	R_PPC_SECTOFF_LO
#define R_PPC64_SECTOFF_HI	R_PPC_SECTOFF_HI
#define R_PPC64_SECTOFF_HA	R_PPC_SECTOFF_HA
#define R_PPC64_ADDR30		37 /* word30 (S + A - P) >> 2 */
#define R_PPC64_ADDR64		38 /* doubleword64 S + A */
#define R_PPC64_ADDR16_HIGHER	39 /* half16 #higher(S + A) */
#define R_PPC64_ADDR16_HIGHERA	40 /* half16 #highera(S + A) */
#define R_PPC64_ADDR16_HIGHEST	41 /* half16 #highest(S + A) */
#define R_PPC64_ADDR16_HIGHESTA	42 /* half16 #highesta(S + A) */
#define R_PPC64_UADDR64		43 /* doubleword64 S + A */
#define R_PPC64_REL64		44 /* doubleword64 S + A - P */
#define R_PPC64_PLT64		45 /* doubleword64 L + A */
#define R_PPC64_PLTREL64	46 /* doubleword64 L + A - P */
#define R_PPC64_TOC16		47 /* half16* S + A - .TOC */
#define R_PPC64_TOC16_LO	48 /* half16 #lo(S + A - .TOC.) */
#define R_PPC64_TOC16_HI	49 /* half16 #hi(S + A - .TOC.) */
#define R_PPC64_TOC16_HA	50 /* half16 #ha(S + A - .TOC.) */
#define R_PPC64_TOC		51 /* doubleword64 .TOC */
#define R_PPC64_PLTGOT16	52 /* half16* M + A */
#define R_PPC64_PLTGOT16_LO	53 /* half16 #lo(M + A) */
#define R_PPC64_PLTGOT16_HI	54 /* half16 #hi(M + A) */
#define R_PPC64_PLTGOT16_HA	55 /* half16 #ha(M + A) */

#define R_PPC64_ADDR16_DS	56 /* half16ds* (S + A) >> 2 */
#define R_PPC64_ADDR16_LO_DS	57 /* half16ds  #lo(S + A) >> 2 */
#define R_PPC64_GOT16_DS	58 /* half16ds* (G + A) >> 2 */
#define R_PPC64_GOT16_LO_DS	59 /* half16ds  #lo(G + A) >> 2 */
#define R_PPC64_PLT16_LO_DS	60 /* half16ds  #lo(L + A) >> 2 */
#define R_PPC64_SECTOFF_DS	61 /* half16ds* (R + A) >> 2 */
#define R_PPC64_SECTOFF_LO_DS	62 /* half16ds  #lo(R + A) >> 2 */
#define R_PPC64_TOC16_DS	63 /* half16ds* (S + A - .TOC.) >> 2 */
#define R_PPC64_TOC16_LO_DS	64 /* half16ds  #lo(S + A - .TOC.) >> 2 */
#define R_PPC64_PLTGOT16_DS	65 /* half16ds* (M + A) >> 2 */
#define R_PPC64_PLTGOT16_LO_DS	66 /* half16ds  #lo(M + A) >> 2 */

/* PowerPC64 relocations defined for the TLS access ABI.  */
#define R_PPC64_TLS		67 /* none	(sym+add)@tls */
#define R_PPC64_DTPMOD64	68 /* doubleword64 (sym+add)@dtpmod */
#define R_PPC64_TPREL16		69 /* half16*	(sym+add)@tprel */
#define R_PPC64_TPREL16_LO	70 /* half16	(sym+add)@tprel@l */
#define R_PPC64_TPREL16_HI	71 /* half16	(sym+add)@tprel@h */
#define R_PPC64_TPREL16_HA	72 /* half16	(sym+add)@tprel@ha */
#define R_PPC64_TPREL64		73 /* doubleword64 (sym+add)@tprel */
#define R_PPC64_DTPREL16	74 /* half16*	(sym+add)@dtprel */
#define R_PPC64_DTPREL16_LO	75 /* half16	(sym+add)@dtprel@l */
#define R_PPC64_DTPREL16_HI	76 /* half16	(sym+add)@dtprel@h */
#define R_PPC64_DTPREL16_HA	77 /* half16	(sym+add)@dtprel@ha */
#define R_PPC64_DTPREL64	78 /* doubleword64 (sym+add)@dtprel */
#define R_PPC64_GOT_TLSGD16	79 /* half16*	(sym+add)@got@tlsgd */
#define R_PPC64_GOT_TLSGD16_LO	80 /* half16	(sym+add)@got@tlsgd@l */
#define R_PPC64_GOT_TLSGD16_HI	81 /* half16	(sym+add)@got@tlsgd@h */
#define R_PPC64_GOT_TLSGD16_HA	82 /* half16	(sym+add)@got@tlsgd@ha */
#define R_PPC64_GOT_TLSLD16	83 /* half16*	(sym+add)@got@tlsld */
#define R_PPC64_GOT_TLSLD16_LO	84 /* half16	(sym+add)@got@tlsld@l */
#define R_PPC64_GOT_TLSLD16_HI	85 /* half16	(sym+add)@got@tlsld@h */
#define R_PPC64_GOT_TLSLD16_HA	86 /* half16	(sym+add)@got@tlsld@ha */
#define R_PPC64_GOT_TPREL16_DS	87 /* half16ds*	(sym+add)@got@tprel */
#define R_PPC64_GOT_TPREL16_LO_DS 88 /* half16ds (sym+add)@got@tprel@l */
#define R_PPC64_GOT_TPREL16_HI	89 /* half16	(sym+add)@got@tprel@h */
#define R_PPC64_GOT_TPREL16_HA	90 /* half16	(sym+add)@got@tprel@ha */
#define R_PPC64_GOT_DTPREL16_DS	91 /* half16ds*	(sym+add)@got@dtprel */
#define R_PPC64_GOT_DTPREL16_LO_DS 92 /* half16ds (sym+add)@got@dtprel@l */
#define R_PPC64_GOT_DTPREL16_HI	93 /* half16	(sym+add)@got@dtprel@h */
#define R_PPC64_GOT_DTPREL16_HA	94 /* half16	(sym+add)@got@dtprel@ha */
#define R_PPC64_TPREL16_DS	95 /* half16ds*	(sym+add)@tprel */
#define R_PPC64_TPREL16_LO_DS	96 /* half16ds	(sym+add)@tprel@l */
#define R_PPC64_TPREL16_HIGHER	97 /* half16	(sym+add)@tprel@higher */
#define R_PPC64_TPREL16_HIGHERA	98 /* half16	(sym+add)@tprel@highera */
#define R_PPC64_TPREL16_HIGHEST	99 /* half16	(sym+add)@tprel@highest */
#define R_PPC64_TPREL16_HIGHESTA 100 /* half16	(sym+add)@tprel@highesta */
#define R_PPC64_DTPREL16_DS	101 /* half16ds* (sym+add)@dtprel */
#define R_PPC64_DTPREL16_LO_DS	102 /* half16ds	(sym+add)@dtprel@l */
#define R_PPC64_DTPREL16_HIGHER	103 /* half16	(sym+add)@dtprel@higher */
#define R_PPC64_DTPREL16_HIGHERA 104 /* half16	(sym+add)@dtprel@highera */
#define R_PPC64_DTPREL16_HIGHEST 105 /* half16	(sym+add)@dtprel@highest */
#define R_PPC64_DTPREL16_HIGHESTA 106 /* half16	(sym+add)@dtprel@highesta */
#define R_PPC64_TLSGD		107 /* none	(sym+add)@tlsgd */
#define R_PPC64_TLSLD		108 /* none	(sym+add)@tlsld */
#define R_PPC64_TOCSAVE		109 /* none */

/* Added when HA and HI relocs were changed to report overflows.  */
#define R_PPC64_ADDR16_HIGH	110
#define R_PPC64_ADDR16_HIGHA	111
#define R_PPC64_TPREL16_HIGH	112
#define R_PPC64_TPREL16_HIGHA	113
#define R_PPC64_DTPREL16_HIGH	114
#define R_PPC64_DTPREL16_HIGHA	115

/* GNU extension to support local ifunc.  */
#define R_PPC64_JMP_IREL	247
#define R_PPC64_IRELATIVE	248
#define R_PPC64_REL16		249	/* half16   (sym+add-.) */
#define R_PPC64_REL16_LO	250	/* half16   (sym+add-.)@l */
#define R_PPC64_REL16_HI	251	/* half16   (sym+add-.)@h */
#define R_PPC64_REL16_HA	252	/* half16   (sym+add-.)@ha */

/* e_flags bits specifying ABI.
   1 for original function descriptor using ABI,
   2 for revised ABI without function descriptors,
   0 for unspecified or not using any features affected by the differences.  */
#define EF_PPC64_ABI	3

/* PowerPC64 specific values for the Dyn d_tag field.  */
#define DT_PPC64_GLINK  (DT_LOPROC + 0)
#define DT_PPC64_OPD	(DT_LOPROC + 1)
#define DT_PPC64_OPDSZ	(DT_LOPROC + 2)
#define DT_PPC64_OPT	(DT_LOPROC + 3)
#define DT_PPC64_NUM    4

/* PowerPC64 specific bits in the DT_PPC64_OPT Dyn entry.  */
#define PPC64_OPT_TLS		1
#define PPC64_OPT_MULTI_TOC	2
#define PPC64_OPT_LOCALENTRY	4

/* PowerPC64 specific values for the Elf64_Sym st_other field.  */
#define STO_PPC64_LOCAL_BIT	5
#define STO_PPC64_LOCAL_MASK	(7 << STO_PPC64_LOCAL_BIT)
#define PPC64_LOCAL_ENTRY_OFFSET(other)				\
 (((1 << (((other) & STO_PPC64_LOCAL_MASK) >> STO_PPC64_LOCAL_BIT)) >> 2) << 2)


/* ARM specific declarations */

/* Processor specific flags for the ELF header e_flags field.  */
#define EF_ARM_RELEXEC		0x01
#define EF_ARM_HASENTRY		0x02
#define EF_ARM_INTERWORK	0x04
#define EF_ARM_APCS_26		0x08
#define EF_ARM_APCS_FLOAT	0x10
#define EF_ARM_PIC		0x20
#define EF_ARM_ALIGN8		0x40 /* 8-bit structure alignment is in use */
#define EF_ARM_NEW_ABI		0x80
#define EF_ARM_OLD_ABI		0x100
#define EF_ARM_SOFT_FLOAT	0x200
#define EF_ARM_VFP_FLOAT	0x400
#define EF_ARM_MAVERICK_FLOAT	0x800

#define EF_ARM_ABI_FLOAT_SOFT	0x200   /* NB conflicts with EF_ARM_SOFT_FLOAT */
#define EF_ARM_ABI_FLOAT_HARD	0x400   /* NB conflicts with EF_ARM_VFP_FLOAT */


/* Other constants defined in the ARM ELF spec. version B-01.  */
/* NB. These conflict with values defined above.  */
#define EF_ARM_SYMSARESORTED	0x04
#define EF_ARM_DYNSYMSUSESEGIDX	0x08
#define EF_ARM_MAPSYMSFIRST	0x10
#define EF_ARM_EABIMASK		0XFF000000

/* Constants defined in AAELF.  */
#define EF_ARM_BE8	    0x00800000
#define EF_ARM_LE8	    0x00400000

#define EF_ARM_EABI_VERSION(flags)	((flags) & EF_ARM_EABIMASK)
#define EF_ARM_EABI_UNKNOWN	0x00000000
#define EF_ARM_EABI_VER1	0x01000000
#define EF_ARM_EABI_VER2	0x02000000
#define EF_ARM_EABI_VER3	0x03000000
#define EF_ARM_EABI_VER4	0x04000000
#define EF_ARM_EABI_VER5	0x05000000

/* Additional symbol types for Thumb.  */
#define STT_ARM_TFUNC		STT_LOPROC /* A Thumb function.  */
#define STT_ARM_16BIT		STT_HIPROC /* A Thumb label.  */

/* ARM-specific values for sh_flags */
#define SHF_ARM_ENTRYSECT	0x10000000 /* Section contains an entry point */
#define SHF_ARM_COMDEF		0x80000000 /* Section may be multiply defined
					      in the input to a link step.  */

/* ARM-specific program header flags */
#define PF_ARM_SB		0x10000000 /* Segment contains the location
					      addressed by the static base. */
#define PF_ARM_PI		0x20000000 /* Position-independent segment.  */
#define PF_ARM_ABS		0x40000000 /* Absolute segment.  */

/* Processor specific values for the Phdr p_type field.  */
#define PT_ARM_EXIDX		(PT_LOPROC + 1)	/* ARM unwind segment.  */

/* Processor specific values for the Shdr sh_type field.  */
#define SHT_ARM_EXIDX		(SHT_LOPROC + 1) /* ARM unwind section.  */
#define SHT_ARM_PREEMPTMAP	(SHT_LOPROC + 2) /* Preemption details.  */
#define SHT_ARM_ATTRIBUTES	(SHT_LOPROC + 3) /* ARM attributes section.  */


/* AArch64 relocs.  */

#define R_AARCH64_NONE            0	/* No relocation.  */

/* ILP32 AArch64 relocs.  */
#define R_AARCH64_P32_ABS32		  1	/* Direct 32 bit.  */
#define R_AARCH64_P32_COPY		180	/* Copy symbol at runtime.  */
#define R_AARCH64_P32_GLOB_DAT		181	/* Create GOT entry.  */
#define R_AARCH64_P32_JUMP_SLOT		182	/* Create PLT entry.  */
#define R_AARCH64_P32_RELATIVE		183	/* Adjust by program base.  */
#define R_AARCH64_P32_TLS_DTPMOD	184	/* Module number, 32 bit.  */
#define R_AARCH64_P32_TLS_DTPREL	185	/* Module-relative offset, 32 bit.  */
#define R_AARCH64_P32_TLS_TPREL		186	/* TP-relative offset, 32 bit.  */
#define R_AARCH64_P32_TLSDESC		187	/* TLS Descriptor.  */
#define R_AARCH64_P32_IRELATIVE		188	/* STT_GNU_IFUNC relocation. */

/* LP64 AArch64 relocs.  */
#define R_AARCH64_ABS64         257	/* Direct 64 bit. */
#define R_AARCH64_ABS32         258	/* Direct 32 bit.  */
#define R_AARCH64_ABS16		259	/* Direct 16-bit.  */
#define R_AARCH64_PREL64	260	/* PC-relative 64-bit.	*/
#define R_AARCH64_PREL32	261	/* PC-relative 32-bit.	*/
#define R_AARCH64_PREL16	262	/* PC-relative 16-bit.	*/
#define R_AARCH64_MOVW_UABS_G0	263	/* Dir. MOVZ imm. from bits 15:0.  */
#define R_AARCH64_MOVW_UABS_G0_NC 264	/* Likewise for MOVK; no check.  */
#define R_AARCH64_MOVW_UABS_G1	265	/* Dir. MOVZ imm. from bits 31:16.  */
#define R_AARCH64_MOVW_UABS_G1_NC 266	/* Likewise for MOVK; no check.  */
#define R_AARCH64_MOVW_UABS_G2	267	/* Dir. MOVZ imm. from bits 47:32.  */
#define R_AARCH64_MOVW_UABS_G2_NC 268	/* Likewise for MOVK; no check.  */
#define R_AARCH64_MOVW_UABS_G3	269	/* Dir. MOV{K,Z} imm. from 63:48.  */
#define R_AARCH64_MOVW_SABS_G0	270	/* Dir. MOV{N,Z} imm. from 15:0.  */
#define R_AARCH64_MOVW_SABS_G1	271	/* Dir. MOV{N,Z} imm. from 31:16.  */
#define R_AARCH64_MOVW_SABS_G2	272	/* Dir. MOV{N,Z} imm. from 47:32.  */
#define R_AARCH64_LD_PREL_LO19	273	/* PC-rel. LD imm. from bits 20:2.  */
#define R_AARCH64_ADR_PREL_LO21	274	/* PC-rel. ADR imm. from bits 20:0.  */
#define R_AARCH64_ADR_PREL_PG_HI21 275	/* Page-rel. ADRP imm. from 32:12.  */
#define R_AARCH64_ADR_PREL_PG_HI21_NC 276 /* Likewise; no overflow check.  */
#define R_AARCH64_ADD_ABS_LO12_NC 277	/* Dir. ADD imm. from bits 11:0.  */
#define R_AARCH64_LDST8_ABS_LO12_NC 278	/* Likewise for LD/ST; no check. */
#define R_AARCH64_TSTBR14	279	/* PC-rel. TBZ/TBNZ imm. from 15:2.  */
#define R_AARCH64_CONDBR19	280	/* PC-rel. cond. br. imm. from 20:2. */
#define R_AARCH64_JUMP26	282	/* PC-rel. B imm. from bits 27:2.  */
#define R_AARCH64_CALL26	283	/* Likewise for CALL.  */
#define R_AARCH64_LDST16_ABS_LO12_NC 284 /* Dir. ADD imm. from bits 11:1.  */
#define R_AARCH64_LDST32_ABS_LO12_NC 285 /* Likewise for bits 11:2.  */
#define R_AARCH64_LDST64_ABS_LO12_NC 286 /* Likewise for bits 11:3.  */
#define R_AARCH64_MOVW_PREL_G0	287	/* PC-rel. MOV{N,Z} imm. from 15:0.  */
#define R_AARCH64_MOVW_PREL_G0_NC 288	/* Likewise for MOVK; no check.  */
#define R_AARCH64_MOVW_PREL_G1	289	/* PC-rel. MOV{N,Z} imm. from 31:16. */
#define R_AARCH64_MOVW_PREL_G1_NC 290	/* Likewise for MOVK; no check.  */
#define R_AARCH64_MOVW_PREL_G2	291	/* PC-rel. MOV{N,Z} imm. from 47:32. */
#define R_AARCH64_MOVW_PREL_G2_NC 292	/* Likewise for MOVK; no check.  */
#define R_AARCH64_MOVW_PREL_G3	293	/* PC-rel. MOV{N,Z} imm. from 63:48. */
#define R_AARCH64_LDST128_ABS_LO12_NC 299 /* Dir. ADD imm. from bits 11:4.  */
#define R_AARCH64_MOVW_GOTOFF_G0 300	/* GOT-rel. off. MOV{N,Z} imm. 15:0. */
#define R_AARCH64_MOVW_GOTOFF_G0_NC 301	/* Likewise for MOVK; no check.  */
#define R_AARCH64_MOVW_GOTOFF_G1 302	/* GOT-rel. o. MOV{N,Z} imm. 31:16.  */
#define R_AARCH64_MOVW_GOTOFF_G1_NC 303	/* Likewise for MOVK; no check.  */
#define R_AARCH64_MOVW_GOTOFF_G2 304	/* GOT-rel. o. MOV{N,Z} imm. 47:32.  */
#define R_AARCH64_MOVW_GOTOFF_G2_NC 305	/* Likewise for MOVK; no check.  */
#define R_AARCH64_MOVW_GOTOFF_G3 306	/* GOT-rel. o. MOV{N,Z} imm. 63:48.  */
#define R_AARCH64_GOTREL64	307	/* GOT-relative 64-bit.  */
#define R_AARCH64_GOTREL32	308	/* GOT-relative 32-bit.  */
#define R_AARCH64_GOT_LD_PREL19	309	/* PC-rel. GOT off. load imm. 20:2.  */
#define R_AARCH64_LD64_GOTOFF_LO15 310	/* GOT-rel. off. LD/ST imm. 14:3.  */
#define R_AARCH64_ADR_GOT_PAGE	311	/* P-page-rel. GOT off. ADRP 32:12.  */
#define R_AARCH64_LD64_GOT_LO12_NC 312	/* Dir. GOT off. LD/ST imm. 11:3.  */
#define R_AARCH64_LD64_GOTPAGE_LO15 313	/* GOT-page-rel. GOT off. LD/ST 14:3 */
#define R_AARCH64_TLSGD_ADR_PREL21 512	/* PC-relative ADR imm. 20:0.  */
#define R_AARCH64_TLSGD_ADR_PAGE21 513	/* page-rel. ADRP imm. 32:12.  */
#define R_AARCH64_TLSGD_ADD_LO12_NC 514	/* direct ADD imm. from 11:0.  */
#define R_AARCH64_TLSGD_MOVW_G1	515	/* GOT-rel. MOV{N,Z} 31:16.  */
#define R_AARCH64_TLSGD_MOVW_G0_NC 516	/* GOT-rel. MOVK imm. 15:0.  */
#define R_AARCH64_TLSLD_ADR_PREL21 517	/* Like 512; local dynamic model.  */
#define R_AARCH64_TLSLD_ADR_PAGE21 518	/* Like 513; local dynamic model.  */
#define R_AARCH64_TLSLD_ADD_LO12_NC 519	/* Like 514; local dynamic model.  */
#define R_AARCH64_TLSLD_MOVW_G1	520	/* Like 515; local dynamic model.  */
#define R_AARCH64_TLSLD_MOVW_G0_NC 521	/* Like 516; local dynamic model.  */
#define R_AARCH64_TLSLD_LD_PREL19 522	/* TLS PC-rel. load imm. 20:2.  */
#define R_AARCH64_TLSLD_MOVW_DTPREL_G2 523 /* TLS DTP-rel. MOV{N,Z} 47:32.  */
#define R_AARCH64_TLSLD_MOVW_DTPREL_G1 524 /* TLS DTP-rel. MOV{N,Z} 31:16.  */
#define R_AARCH64_TLSLD_MOVW_DTPREL_G1_NC 525 /* Likewise; MOVK; no check.  */
#define R_AARCH64_TLSLD_MOVW_DTPREL_G0 526 /* TLS DTP-rel. MOV{N,Z} 15:0.  */
#define R_AARCH64_TLSLD_MOVW_DTPREL_G0_NC 527 /* Likewise; MOVK; no check.  */
#define R_AARCH64_TLSLD_ADD_DTPREL_HI12 528 /* DTP-rel. ADD imm. from 23:12. */
#define R_AARCH64_TLSLD_ADD_DTPREL_LO12 529 /* DTP-rel. ADD imm. from 11:0.  */
#define R_AARCH64_TLSLD_ADD_DTPREL_LO12_NC 530 /* Likewise; no ovfl. check.  */
#define R_AARCH64_TLSLD_LDST8_DTPREL_LO12 531 /* DTP-rel. LD/ST imm. 11:0.  */
#define R_AARCH64_TLSLD_LDST8_DTPREL_LO12_NC 532 /* Likewise; no check.  */
#define R_AARCH64_TLSLD_LDST16_DTPREL_LO12 533 /* DTP-rel. LD/ST imm. 11:1.  */
#define R_AARCH64_TLSLD_LDST16_DTPREL_LO12_NC 534 /* Likewise; no check.  */
#define R_AARCH64_TLSLD_LDST32_DTPREL_LO12 535 /* DTP-rel. LD/ST imm. 11:2.  */
#define R_AARCH64_TLSLD_LDST32_DTPREL_LO12_NC 536 /* Likewise; no check.  */
#define R_AARCH64_TLSLD_LDST64_DTPREL_LO12 537 /* DTP-rel. LD/ST imm. 11:3.  */
#define R_AARCH64_TLSLD_LDST64_DTPREL_LO12_NC 538 /* Likewise; no check.  */
#define R_AARCH64_TLSIE_MOVW_GOTTPREL_G1 539 /* GOT-rel. MOV{N,Z} 31:16.  */
#define R_AARCH64_TLSIE_MOVW_GOTTPREL_G0_NC 540 /* GOT-rel. MOVK 15:0.  */
#define R_AARCH64_TLSIE_ADR_GOTTPREL_PAGE21 541 /* Page-rel. ADRP 32:12.  */
#define R_AARCH64_TLSIE_LD64_GOTTPREL_LO12_NC 542 /* Direct LD off. 11:3.  */
#define R_AARCH64_TLSIE_LD_GOTTPREL_PREL19 543 /* PC-rel. load imm. 20:2.  */
#define R_AARCH64_TLSLE_MOVW_TPREL_G2 544 /* TLS TP-rel. MOV{N,Z} 47:32.  */
#define R_AARCH64_TLSLE_MOVW_TPREL_G1 545 /* TLS TP-rel. MOV{N,Z} 31:16.  */
#define R_AARCH64_TLSLE_MOVW_TPREL_G1_NC 546 /* Likewise; MOVK; no check.  */
#define R_AARCH64_TLSLE_MOVW_TPREL_G0 547 /* TLS TP-rel. MOV{N,Z} 15:0.  */
#define R_AARCH64_TLSLE_MOVW_TPREL_G0_NC 548 /* Likewise; MOVK; no check.  */
#define R_AARCH64_TLSLE_ADD_TPREL_HI12 549 /* TP-rel. ADD imm. 23:12.  */
#define R_AARCH64_TLSLE_ADD_TPREL_LO12 550 /* TP-rel. ADD imm. 11:0.  */
#define R_AARCH64_TLSLE_ADD_TPREL_LO12_NC 551 /* Likewise; no ovfl. check.  */
#define R_AARCH64_TLSLE_LDST8_TPREL_LO12 552 /* TP-rel. LD/ST off. 11:0.  */
#define R_AARCH64_TLSLE_LDST8_TPREL_LO12_NC 553 /* Likewise; no ovfl. check. */
#define R_AARCH64_TLSLE_LDST16_TPREL_LO12 554 /* TP-rel. LD/ST off. 11:1.  */
#define R_AARCH64_TLSLE_LDST16_TPREL_LO12_NC 555 /* Likewise; no check.  */
#define R_AARCH64_TLSLE_LDST32_TPREL_LO12 556 /* TP-rel. LD/ST off. 11:2.  */
#define R_AARCH64_TLSLE_LDST32_TPREL_LO12_NC 557 /* Likewise; no check.  */
#define R_AARCH64_TLSLE_LDST64_TPREL_LO12 558 /* TP-rel. LD/ST off. 11:3.  */
#define R_AARCH64_TLSLE_LDST64_TPREL_LO12_NC 559 /* Likewise; no check.  */
#define R_AARCH64_TLSDESC_LD_PREL19 560	/* PC-rel. load immediate 20:2.  */
#define R_AARCH64_TLSDESC_ADR_PREL21 561 /* PC-rel. ADR immediate 20:0.  */
#define R_AARCH64_TLSDESC_ADR_PAGE21 562 /* Page-rel. ADRP imm. 32:12.  */
#define R_AARCH64_TLSDESC_LD64_LO12 563	/* Direct LD off. from 11:3.  */
#define R_AARCH64_TLSDESC_ADD_LO12 564	/* Direct ADD imm. from 11:0.  */
#define R_AARCH64_TLSDESC_OFF_G1 565	/* GOT-rel. MOV{N,Z} imm. 31:16.  */
#define R_AARCH64_TLSDESC_OFF_G0_NC 566	/* GOT-rel. MOVK imm. 15:0; no ck.  */
#define R_AARCH64_TLSDESC_LDR	567	/* Relax LDR.  */
#define R_AARCH64_TLSDESC_ADD	568	/* Relax ADD.  */
#define R_AARCH64_TLSDESC_CALL	569	/* Relax BLR.  */
#define R_AARCH64_TLSLE_LDST128_TPREL_LO12 570 /* TP-rel. LD/ST off. 11:4.  */
#define R_AARCH64_TLSLE_LDST128_TPREL_LO12_NC 571 /* Likewise; no check.  */
#define R_AARCH64_TLSLD_LDST128_DTPREL_LO12 572 /* DTP-rel. LD/ST imm. 11:4. */
#define R_AARCH64_TLSLD_LDST128_DTPREL_LO12_NC 573 /* Likewise; no check.  */
#define R_AARCH64_COPY         1024	/* Copy symbol at runtime.  */
#define R_AARCH64_GLOB_DAT     1025	/* Create GOT entry.  */
#define R_AARCH64_JUMP_SLOT    1026	/* Create PLT entry.  */
#define R_AARCH64_RELATIVE     1027	/* Adjust by program base.  */
#define R_AARCH64_TLS_DTPMOD   1028	/* Module number, 64 bit.  */
#define R_AARCH64_TLS_DTPREL   1029	/* Module-relative offset, 64 bit.  */
#define R_AARCH64_TLS_TPREL    1030	/* TP-relative offset, 64 bit.  */
#define R_AARCH64_TLSDESC      1031	/* TLS Descriptor.  */
#define R_AARCH64_IRELATIVE	1032	/* STT_GNU_IFUNC relocation.  */

/* MTE memory tag segment type.  */
#define PT_AARCH64_MEMTAG_MTE	(PT_LOPROC + 2)

/* AArch64 specific values for the Dyn d_tag field.  */
#define DT_AARCH64_BTI_PLT	(DT_LOPROC + 1)
#define DT_AARCH64_PAC_PLT	(DT_LOPROC + 3)
#define DT_AARCH64_VARIANT_PCS	(DT_LOPROC + 5)
#define DT_AARCH64_NUM		6

/* AArch64 specific values for the st_other field.  */
#define STO_AARCH64_VARIANT_PCS 0x80

/* ARM relocs.  */

#define R_ARM_NONE		0	/* No reloc */
#define R_ARM_PC24		1	/* Deprecated PC relative 26
					   bit branch.  */
#define R_ARM_ABS32		2	/* Direct 32 bit  */
#define R_ARM_REL32		3	/* PC relative 32 bit */
#define R_ARM_PC13		4
#define R_ARM_ABS16		5	/* Direct 16 bit */
#define R_ARM_ABS12		6	/* Direct 12 bit */
#define R_ARM_THM_ABS5		7	/* Direct & 0x7C (LDR, STR).  */
#define R_ARM_ABS8		8	/* Direct 8 bit */
#define R_ARM_SBREL32		9
#define R_ARM_THM_PC22		10	/* PC relative 24 bit (Thumb32 BL).  */
#define R_ARM_THM_PC8		11	/* PC relative & 0x3FC
					   (Thumb16 LDR, ADD, ADR).  */
#define R_ARM_AMP_VCALL9	12
#define R_ARM_SWI24		13	/* Obsolete static relocation.  */
#define R_ARM_TLS_DESC		13      /* Dynamic relocation.  */
#define R_ARM_THM_SWI8		14	/* Reserved.  */
#define R_ARM_XPC25		15	/* Reserved.  */
#define R_ARM_THM_XPC22		16	/* Reserved.  */
#define R_ARM_TLS_DTPMOD32	17	/* ID of module containing symbol */
#define R_ARM_TLS_DTPOFF32	18	/* Offset in TLS block */
#define R_ARM_TLS_TPOFF32	19	/* Offset in static TLS block */
#define R_ARM_COPY		20	/* Copy symbol at runtime */
#define R_ARM_GLOB_DAT		21	/* Create GOT entry */
#define R_ARM_JUMP_SLOT		22	/* Create PLT entry */
#define R_ARM_RELATIVE		23	/* Adjust by program base */
#define R_ARM_GOTOFF		24	/* 32 bit offset to GOT */
#define R_ARM_GOTPC		25	/* 32 bit PC relative offset to GOT */
#define R_ARM_GOT32		26	/* 32 bit GOT entry */
#define R_ARM_PLT32		27	/* Deprecated, 32 bit PLT address.  */
#define R_ARM_CALL		28	/* PC relative 24 bit (BL, BLX).  */
#define R_ARM_JUMP24		29	/* PC relative 24 bit
					   (B, BL<cond>).  */
#define R_ARM_THM_JUMP24	30	/* PC relative 24 bit (Thumb32 B.W).  */
#define R_ARM_BASE_ABS		31	/* Adjust by program base.  */
#define R_ARM_ALU_PCREL_7_0	32	/* Obsolete.  */
#define R_ARM_ALU_PCREL_15_8	33	/* Obsolete.  */
#define R_ARM_ALU_PCREL_23_15	34	/* Obsolete.  */
#define R_ARM_LDR_SBREL_11_0	35	/* Deprecated, prog. base relative.  */
#define R_ARM_ALU_SBREL_19_12	36	/* Deprecated, prog. base relative.  */
#define R_ARM_ALU_SBREL_27_20	37	/* Deprecated, prog. base relative.  */
#define R_ARM_TARGET1		38
#define R_ARM_SBREL31		39	/* Program base relative.  */
#define R_ARM_V4BX		40
#define R_ARM_TARGET2		41
#define R_ARM_PREL31		42	/* 32 bit PC relative.  */
#define R_ARM_MOVW_ABS_NC	43	/* Direct 16-bit (MOVW).  */
#define R_ARM_MOVT_ABS		44	/* Direct high 16-bit (MOVT).  */
#define R_ARM_MOVW_PREL_NC	45	/* PC relative 16-bit (MOVW).  */
#define R_ARM_MOVT_PREL		46	/* PC relative (MOVT).  */
#define R_ARM_THM_MOVW_ABS_NC	47	/* Direct 16 bit (Thumb32 MOVW).  */
#define R_ARM_THM_MOVT_ABS	48	/* Direct high 16 bit
					   (Thumb32 MOVT).  */
#define R_ARM_THM_MOVW_PREL_NC	49	/* PC relative 16 bit
					   (Thumb32 MOVW).  */
#define R_ARM_THM_MOVT_PREL	50	/* PC relative high 16 bit
					   (Thumb32 MOVT).  */
#define R_ARM_THM_JUMP19	51	/* PC relative 20 bit
					   (Thumb32 B<cond>.W).  */
#define R_ARM_THM_JUMP6		52	/* PC relative X & 0x7E
					   (Thumb16 CBZ, CBNZ).  */
#define R_ARM_THM_ALU_PREL_11_0	53	/* PC relative 12 bit
					   (Thumb32 ADR.W).  */
#define R_ARM_THM_PC12		54	/* PC relative 12 bit
					   (Thumb32 LDR{D,SB,H,SH}).  */
#define R_ARM_ABS32_NOI		55	/* Direct 32-bit.  */
#define R_ARM_REL32_NOI		56	/* PC relative 32-bit.  */
#define R_ARM_ALU_PC_G0_NC	57	/* PC relative (ADD, SUB).  */
#define R_ARM_ALU_PC_G0		58	/* PC relative (ADD, SUB).  */
#define R_ARM_ALU_PC_G1_NC	59	/* PC relative (ADD, SUB).  */
#define R_ARM_ALU_PC_G1		60	/* PC relative (ADD, SUB).  */
#define R_ARM_ALU_PC_G2		61	/* PC relative (ADD, SUB).  */
#define R_ARM_LDR_PC_G1		62	/* PC relative (LDR,STR,LDRB,STRB).  */
#define R_ARM_LDR_PC_G2		63	/* PC relative (LDR,STR,LDRB,STRB).  */
#define R_ARM_LDRS_PC_G0	64	/* PC relative (STR{D,H},
					   LDR{D,SB,H,SH}).  */
#define R_ARM_LDRS_PC_G1	65	/* PC relative (STR{D,H},
					   LDR{D,SB,H,SH}).  */
#define R_ARM_LDRS_PC_G2	66	/* PC relative (STR{D,H},
					   LDR{D,SB,H,SH}).  */
#define R_ARM_LDC_PC_G0		67	/* PC relative (LDC, STC).  */
#define R_ARM_LDC_PC_G1		68	/* PC relative (LDC, STC).  */
#define R_ARM_LDC_PC_G2		69	/* PC relative (LDC, STC).  */
#define R_ARM_ALU_SB_G0_NC	70	/* Program base relative (ADD,SUB).  */
#define R_ARM_ALU_SB_G0		71	/* Program base relative (ADD,SUB).  */
#define R_ARM_ALU_SB_G1_NC	72	/* Program base relative (ADD,SUB).  */
#define R_ARM_ALU_SB_G1		73	/* Program base relative (ADD,SUB).  */
#define R_ARM_ALU_SB_G2		74	/* Program base relative (ADD,SUB).  */
#define R_ARM_LDR_SB_G0		75	/* Program base relative (LDR,
					   STR, LDRB, STRB).  */
#define R_ARM_LDR_SB_G1		76	/* Program base relative
					   (LDR, STR, LDRB, STRB).  */
#define R_ARM_LDR_SB_G2		77	/* Program base relative
					   (LDR, STR, LDRB, STRB).  */
#define R_ARM_LDRS_SB_G0	78	/* Program base relative
					   (LDR, STR, LDRB, STRB).  */
#define R_ARM_LDRS_SB_G1	79	/* Program base relative
					   (LDR, STR, LDRB, STRB).  */
#define R_ARM_LDRS_SB_G2	80	/* Program base relative
					   (LDR, STR, LDRB, STRB).  */
#define R_ARM_LDC_SB_G0		81	/* Program base relative (LDC,STC).  */
#define R_ARM_LDC_SB_G1		82	/* Program base relative (LDC,STC).  */
#define R_ARM_LDC_SB_G2		83	/* Program base relative (LDC,STC).  */
#define R_ARM_MOVW_BREL_NC	84	/* Program base relative 16
					   bit (MOVW).  */
#define R_ARM_MOVT_BREL		85	/* Program base relative high
					   16 bit (MOVT).  */
#define R_ARM_MOVW_BREL		86	/* Program base relative 16
					   bit (MOVW).  */
#define R_ARM_THM_MOVW_BREL_NC	87	/* Program base relative 16
					   bit (Thumb32 MOVW).  */
#define R_ARM_THM_MOVT_BREL	88	/* Program base relative high
					   16 bit (Thumb32 MOVT).  */
#define R_ARM_THM_MOVW_BREL	89	/* Program base relative 16
					   bit (Thumb32 MOVW).  */
#define R_ARM_TLS_GOTDESC	90
#define R_ARM_TLS_CALL		91
#define R_ARM_TLS_DESCSEQ	92	/* TLS relaxation.  */
#define R_ARM_THM_TLS_CALL	93
#define R_ARM_PLT32_ABS		94
#define R_ARM_GOT_ABS		95	/* GOT entry.  */
#define R_ARM_GOT_PREL		96	/* PC relative GOT entry.  */
#define R_ARM_GOT_BREL12	97	/* GOT entry relative to GOT
					   origin (LDR).  */
#define R_ARM_GOTOFF12		98	/* 12 bit, GOT entry relative
					   to GOT origin (LDR, STR).  */
#define R_ARM_GOTRELAX		99
#define R_ARM_GNU_VTENTRY	100
#define R_ARM_GNU_VTINHERIT	101
#define R_ARM_THM_PC11		102	/* PC relative & 0xFFE (Thumb16 B).  */
#define R_ARM_THM_PC9		103	/* PC relative & 0x1FE
					   (Thumb16 B/B<cond>).  */
#define R_ARM_TLS_GD32		104	/* PC-rel 32 bit for global dynamic
					   thread local data */
#define R_ARM_TLS_LDM32		105	/* PC-rel 32 bit for local dynamic
					   thread local data */
#define R_ARM_TLS_LDO32		106	/* 32 bit offset relative to TLS
					   block */
#define R_ARM_TLS_IE32		107	/* PC-rel 32 bit for GOT entry of
					   static TLS block offset */
#define R_ARM_TLS_LE32		108	/* 32 bit offset relative to static
					   TLS block */
#define R_ARM_TLS_LDO12		109	/* 12 bit relative to TLS
					   block (LDR, STR).  */
#define R_ARM_TLS_LE12		110	/* 12 bit relative to static
					   TLS block (LDR, STR).  */
#define R_ARM_TLS_IE12GP	111	/* 12 bit GOT entry relative
					   to GOT origin (LDR).  */
#define R_ARM_ME_TOO		128	/* Obsolete.  */
#define R_ARM_THM_TLS_DESCSEQ	129
#define R_ARM_THM_TLS_DESCSEQ16	129
#define R_ARM_THM_TLS_DESCSEQ32	130
#define R_ARM_THM_GOT_BREL12	131	/* GOT entry relative to GOT
					   origin, 12 bit (Thumb32 LDR).  */
#define R_ARM_IRELATIVE		160
#define R_ARM_RXPC25		249
#define R_ARM_RSBREL32		250
#define R_ARM_THM_RPC22		251
#define R_ARM_RREL32		252
#define R_ARM_RABS22		253
#define R_ARM_RPC24		254
#define R_ARM_RBASE		255
/* Keep this the last entry.  */
#define R_ARM_NUM		256

/* C-SKY */
#define R_CKCORE_NONE               0	/* no reloc */
#define R_CKCORE_ADDR32             1	/* direct 32 bit (S + A) */
#define R_CKCORE_PCRELIMM8BY4       2	/* disp ((S + A - P) >> 2) & 0xff   */
#define R_CKCORE_PCRELIMM11BY2      3	/* disp ((S + A - P) >> 1) & 0x7ff  */
#define R_CKCORE_PCREL32            5	/* 32-bit rel (S + A - P)           */
#define R_CKCORE_PCRELJSR_IMM11BY2  6	/* disp ((S + A - P) >>1) & 0x7ff   */
#define R_CKCORE_RELATIVE           9	/* 32 bit adjust program base(B + A)*/
#define R_CKCORE_COPY               10	/* 32 bit adjust by program base    */
#define R_CKCORE_GLOB_DAT           11	/* off between got and sym (S)      */
#define R_CKCORE_JUMP_SLOT          12	/* PLT entry (S) */
#define R_CKCORE_GOTOFF             13	/* offset to GOT (S + A - GOT)      */
#define R_CKCORE_GOTPC              14	/* PC offset to GOT (GOT + A - P)   */
#define R_CKCORE_GOT32              15	/* 32 bit GOT entry (G) */
#define R_CKCORE_PLT32              16	/* 32 bit PLT entry (G) */
#define R_CKCORE_ADDRGOT            17	/* GOT entry in GLOB_DAT (GOT + G)  */
#define R_CKCORE_ADDRPLT            18	/* PLT entry in GLOB_DAT (GOT + G)  */
#define R_CKCORE_PCREL_IMM26BY2     19	/* ((S + A - P) >> 1) & 0x3ffffff   */
#define R_CKCORE_PCREL_IMM16BY2     20	/* disp ((S + A - P) >> 1) & 0xffff */
#define R_CKCORE_PCREL_IMM16BY4     21	/* disp ((S + A - P) >> 2) & 0xffff */
#define R_CKCORE_PCREL_IMM10BY2     22	/* disp ((S + A - P) >> 1) & 0x3ff  */
#define R_CKCORE_PCREL_IMM10BY4     23	/* disp ((S + A - P) >> 2) & 0x3ff  */
#define R_CKCORE_ADDR_HI16          24	/* high & low 16 bit ADDR */
                                        /* ((S + A) >> 16) & 0xffff */
#define R_CKCORE_ADDR_LO16          25	/* (S + A) & 0xffff */
#define R_CKCORE_GOTPC_HI16         26	/* high & low 16 bit GOTPC */
                                        /* ((GOT + A - P) >> 16) & 0xffff */
#define R_CKCORE_GOTPC_LO16         27	/* (GOT + A - P) & 0xffff */
#define R_CKCORE_GOTOFF_HI16        28	/* high & low 16 bit GOTOFF */
                                        /* ((S + A - GOT) >> 16) & 0xffff */
#define R_CKCORE_GOTOFF_LO16        29	/* (S + A - GOT) & 0xffff */
#define R_CKCORE_GOT12              30	/* 12 bit disp GOT entry (G) */
#define R_CKCORE_GOT_HI16           31	/* high & low 16 bit GOT */
                                        /* (G >> 16) & 0xffff */
#define R_CKCORE_GOT_LO16           32	/* (G & 0xffff) */
#define R_CKCORE_PLT12              33	/* 12 bit disp PLT entry (G) */
#define R_CKCORE_PLT_HI16           34	/* high & low 16 bit PLT */
                                        /* (G >> 16) & 0xffff */
#define R_CKCORE_PLT_LO16           35	/* G & 0xffff */
#define R_CKCORE_ADDRGOT_HI16       36	/* high & low 16 bit ADDRGOT */
                                        /* (GOT + G * 4) & 0xffff */
#define R_CKCORE_ADDRGOT_LO16       37	/* (GOT + G * 4) & 0xffff */
#define R_CKCORE_ADDRPLT_HI16       38	/* high & low 16 bit ADDRPLT */
                                        /* ((GOT + G * 4) >> 16) & 0xFFFF */
#define R_CKCORE_ADDRPLT_LO16       39	/* (GOT+G*4) & 0xffff */
#define R_CKCORE_PCREL_JSR_IMM26BY2 40	/* disp ((S+A-P) >>1) & x3ffffff */
#define R_CKCORE_TOFFSET_LO16       41	/* (S+A-BTEXT) & 0xffff */
#define R_CKCORE_DOFFSET_LO16       42	/* (S+A-BTEXT) & 0xffff */
#define R_CKCORE_PCREL_IMM18BY2     43	/* disp ((S+A-P) >>1) & 0x3ffff */
#define R_CKCORE_DOFFSET_IMM18      44	/* disp (S+A-BDATA) & 0x3ffff */
#define R_CKCORE_DOFFSET_IMM18BY2   45	/* disp ((S+A-BDATA)>>1) & 0x3ffff */
#define R_CKCORE_DOFFSET_IMM18BY4   46	/* disp ((S+A-BDATA)>>2) & 0x3ffff */
#define R_CKCORE_GOT_IMM18BY4       48	/* disp (G >> 2) */
#define R_CKCORE_PLT_IMM18BY4       49	/* disp (G >> 2) */
#define R_CKCORE_PCREL_IMM7BY4      50	/* disp ((S+A-P) >>2) & 0x7f */
#define R_CKCORE_TLS_LE32           51	/* 32 bit offset to TLS block */
#define R_CKCORE_TLS_IE32           52
#define R_CKCORE_TLS_GD32           53
#define R_CKCORE_TLS_LDM32          54
#define R_CKCORE_TLS_LDO32          55
#define R_CKCORE_TLS_DTPMOD32       56
#define R_CKCORE_TLS_DTPOFF32       57
#define R_CKCORE_TLS_TPOFF32        58

/* C-SKY elf header definition.  */
#define EF_CSKY_ABIMASK		    0XF0000000
#define EF_CSKY_OTHER		    0X0FFF0000
#define EF_CSKY_PROCESSOR	    0X0000FFFF

#define EF_CSKY_ABIV1		    0X10000000
#define EF_CSKY_ABIV2		    0X20000000

/* C-SKY attributes section.  */
#define SHT_CSKY_ATTRIBUTES	    (SHT_LOPROC + 1)

/* IA-64 specific declarations.  */

/* Processor specific flags for the Ehdr e_flags field.  */
#define EF_IA_64_MASKOS		0x0000000f	/* os-specific flags */
#define EF_IA_64_ABI64		0x00000010	/* 64-bit ABI */
#define EF_IA_64_ARCH		0xff000000	/* arch. version mask */

/* Processor specific values for the Phdr p_type field.  */
#define PT_IA_64_ARCHEXT	(PT_LOPROC + 0)	/* arch extension bits */
#define PT_IA_64_UNWIND		(PT_LOPROC + 1)	/* ia64 unwind bits */
#define PT_IA_64_HP_OPT_ANOT	(PT_LOOS + 0x12)
#define PT_IA_64_HP_HSL_ANOT	(PT_LOOS + 0x13)
#define PT_IA_64_HP_STACK	(PT_LOOS + 0x14)

/* Processor specific flags for the Phdr p_flags field.  */
#define PF_IA_64_NORECOV	0x80000000	/* spec insns w/o recovery */

/* Processor specific values for the Shdr sh_type field.  */
#define SHT_IA_64_EXT		(SHT_LOPROC + 0) /* extension bits */
#define SHT_IA_64_UNWIND	(SHT_LOPROC + 1) /* unwind bits */

/* Processor specific flags for the Shdr sh_flags field.  */
#define SHF_IA_64_SHORT		0x10000000	/* section near gp */
#define SHF_IA_64_NORECOV	0x20000000	/* spec insns w/o recovery */

/* Processor specific values for the Dyn d_tag field.  */
#define DT_IA_64_PLT_RESERVE	(DT_LOPROC + 0)
#define DT_IA_64_NUM		1

/* IA-64 relocations.  */
#define R_IA64_NONE		0x00	/* none */
#define R_IA64_IMM14		0x21	/* symbol + addend, add imm14 */
#define R_IA64_IMM22		0x22	/* symbol + addend, add imm22 */
#define R_IA64_IMM64		0x23	/* symbol + addend, mov imm64 */
#define R_IA64_DIR32MSB		0x24	/* symbol + addend, data4 MSB */
#define R_IA64_DIR32LSB		0x25	/* symbol + addend, data4 LSB */
#define R_IA64_DIR64MSB		0x26	/* symbol + addend, data8 MSB */
#define R_IA64_DIR64LSB		0x27	/* symbol + addend, data8 LSB */
#define R_IA64_GPREL22		0x2a	/* @gprel(sym + add), add imm22 */
#define R_IA64_GPREL64I		0x2b	/* @gprel(sym + add), mov imm64 */
#define R_IA64_GPREL32MSB	0x2c	/* @gprel(sym + add), data4 MSB */
#define R_IA64_GPREL32LSB	0x2d	/* @gprel(sym + add), data4 LSB */
#define R_IA64_GPREL64MSB	0x2e	/* @gprel(sym + add), data8 MSB */
#define R_IA64_GPREL64LSB	0x2f	/* @gprel(sym + add), data8 LSB */
#define R_IA64_LTOFF22		0x32	/* @ltoff(sym + add), add imm22 */
#define R_IA64_LTOFF64I		0x33	/* @ltoff(sym + add), mov imm64 */
#define R_IA64_PLTOFF22		0x3a	/* @pltoff(sym + add), add imm22 */
#define R_IA64_PLTOFF64I	0x3b	/* @pltoff(sym + add), mov imm64 */
#define R_IA64_PLTOFF64MSB	0x3e	/* @pltoff(sym + add), data8 MSB */
#define R_IA64_PLTOFF64LSB	0x3f	/* @pltoff(sym + add), data8 LSB */
#define R_IA64_FPTR64I		0x43	/* @fptr(sym + add), mov imm64 */
#define R_IA64_FPTR32MSB	0x44	/* @fptr(sym + add), data4 MSB */
#define R_IA64_FPTR32LSB	0x45	/* @fptr(sym + add), data4 LSB */
#define R_IA64_FPTR64MSB	0x46	/* @fptr(sym + add), data8 MSB */
#define R_IA64_FPTR64LSB	0x47	/* @fptr(sym + add), data8 LSB */
#define R_IA64_PCREL60B		0x48	/* @pcrel(sym + add), brl */
#define R_IA64_PCREL21B		0x49	/* @pcrel(sym + add), ptb, call */
#define R_IA64_PCREL21M		0x4a	/* @pcrel(sym + add), chk.s */
#define R_IA64_PCREL21F		0x4b	/* @pcrel(sym + add), fchkf */
#define R_IA64_PCREL32MSB	0x4c	/* @pcrel(sym + add), data4 MSB */
#define R_IA64_PCREL32LSB	0x4d	/* @pcrel(sym + add), data4 LSB */
#define R_IA64_PCREL64MSB	0x4e	/* @pcrel(sym + add), data8 MSB */
#define R_IA64_PCREL64LSB	0x4f	/* @pcrel(sym + add), data8 LSB */
#define R_IA64_LTOFF_FPTR22	0x52	/* @ltoff(@fptr(s+a)), imm22 */
#define R_IA64_LTOFF_FPTR64I	0x53	/* @ltoff(@fptr(s+a)), imm64 */
#define R_IA64_LTOFF_FPTR32MSB	0x54	/* @ltoff(@fptr(s+a)), data4 MSB */
#define R_IA64_LTOFF_FPTR32LSB	0x55	/* @ltoff(@fptr(s+a)), data4 LSB */
#define R_IA64_LTOFF_FPTR64MSB	0x56	/* @ltoff(@fptr(s+a)), data8 MSB */
#define R_IA64_LTOFF_FPTR64LSB	0x57	/* @ltoff(@fptr(s+a)), data8 LSB */
#define R_IA64_SEGREL32MSB	0x5c	/* @segrel(sym + add), data4 MSB */
#define R_IA64_SEGREL32LSB	0x5d	/* @segrel(sym + add), data4 LSB */
#define R_IA64_SEGREL64MSB	0x5e	/* @segrel(sym + add), data8 MSB */
#define R_IA64_SEGREL64LSB	0x5f	/* @segrel(sym + add), data8 LSB */
#define R_IA64_SECREL32MSB	0x64	/* @secrel(sym + add), data4 MSB */
#define R_IA64_SECREL32LSB	0x65	/* @secrel(sym + add), data4 LSB */
#define R_IA64_SECREL64MSB	0x66	/* @secrel(sym + add), data8 MSB */
#define R_IA64_SECREL64LSB	0x67	/* @secrel(sym + add), data8 LSB */
#define R_IA64_REL32MSB		0x6c	/* data 4 + REL */
#define R_IA64_REL32LSB		0x6d	/* data 4 + REL */
#define R_IA64_REL64MSB		0x6e	/* data 8 + REL */
#define R_IA64_REL64LSB		0x6f	/* data 8 + REL */
#define R_IA64_LTV32MSB		0x74	/* symbol + addend, data4 MSB */
#define R_IA64_LTV32LSB		0x75	/* symbol + addend, data4 LSB */
#define R_IA64_LTV64MSB		0x76	/* symbol + addend, data8 MSB */
#define R_IA64_LTV64LSB		0x77	/* symbol + addend, data8 LSB */
#define R_IA64_PCREL21BI	0x79	/* @pcrel(sym + add), 21bit inst */
#define R_IA64_PCREL22		0x7a	/* @pcrel(sym + add), 22bit inst */
#define R_IA64_PCREL64I		0x7b	/* @pcrel(sym + add), 64bit inst */
#define R_IA64_IPLTMSB		0x80	/* dynamic reloc, imported PLT, MSB */
#define R_IA64_IPLTLSB		0x81	/* dynamic reloc, imported PLT, LSB */
#define R_IA64_COPY		0x84	/* copy relocation */
#define R_IA64_SUB		0x85	/* Addend and symbol difference */
#define R_IA64_LTOFF22X		0x86	/* LTOFF22, relaxable.  */
#define R_IA64_LDXMOV		0x87	/* Use of LTOFF22X.  */
#define R_IA64_TPREL14		0x91	/* @tprel(sym + add), imm14 */
#define R_IA64_TPREL22		0x92	/* @tprel(sym + add), imm22 */
#define R_IA64_TPREL64I		0x93	/* @tprel(sym + add), imm64 */
#define R_IA64_TPREL64MSB	0x96	/* @tprel(sym + add), data8 MSB */
#define R_IA64_TPREL64LSB	0x97	/* @tprel(sym + add), data8 LSB */
#define R_IA64_LTOFF_TPREL22	0x9a	/* @ltoff(@tprel(s+a)), imm2 */
#define R_IA64_DTPMOD64MSB	0xa6	/* @dtpmod(sym + add), data8 MSB */
#define R_IA64_DTPMOD64LSB	0xa7	/* @dtpmod(sym + add), data8 LSB */
#define R_IA64_LTOFF_DTPMOD22	0xaa	/* @ltoff(@dtpmod(sym + add)), imm22 */
#define R_IA64_DTPREL14		0xb1	/* @dtprel(sym + add), imm14 */
#define R_IA64_DTPREL22		0xb2	/* @dtprel(sym + add), imm22 */
#define R_IA64_DTPREL64I	0xb3	/* @dtprel(sym + add), imm64 */
#define R_IA64_DTPREL32MSB	0xb4	/* @dtprel(sym + add), data4 MSB */
#define R_IA64_DTPREL32LSB	0xb5	/* @dtprel(sym + add), data4 LSB */
#define R_IA64_DTPREL64MSB	0xb6	/* @dtprel(sym + add), data8 MSB */
#define R_IA64_DTPREL64LSB	0xb7	/* @dtprel(sym + add), data8 LSB */
#define R_IA64_LTOFF_DTPREL22	0xba	/* @ltoff(@dtprel(s+a)), imm22 */

/* SH specific declarations */

/* Processor specific flags for the ELF header e_flags field.  */
#define EF_SH_MACH_MASK		0x1f
#define EF_SH_UNKNOWN		0x0
#define EF_SH1			0x1
#define EF_SH2			0x2
#define EF_SH3			0x3
#define EF_SH_DSP		0x4
#define EF_SH3_DSP		0x5
#define EF_SH4AL_DSP		0x6
#define EF_SH3E			0x8
#define EF_SH4			0x9
#define EF_SH2E			0xb
#define EF_SH4A			0xc
#define EF_SH2A			0xd
#define EF_SH4_NOFPU		0x10
#define EF_SH4A_NOFPU		0x11
#define EF_SH4_NOMMU_NOFPU	0x12
#define EF_SH2A_NOFPU		0x13
#define EF_SH3_NOMMU		0x14
#define EF_SH2A_SH4_NOFPU	0x15
#define EF_SH2A_SH3_NOFPU	0x16
#define EF_SH2A_SH4		0x17
#define EF_SH2A_SH3E		0x18

/* SH relocs.  */
#define	R_SH_NONE		0
#define	R_SH_DIR32		1
#define	R_SH_REL32		2
#define	R_SH_DIR8WPN		3
#define	R_SH_IND12W		4
#define	R_SH_DIR8WPL		5
#define	R_SH_DIR8WPZ		6
#define	R_SH_DIR8BP		7
#define	R_SH_DIR8W		8
#define	R_SH_DIR8L		9
#define	R_SH_SWITCH16		25
#define	R_SH_SWITCH32		26
#define	R_SH_USES		27
#define	R_SH_COUNT		28
#define	R_SH_ALIGN		29
#define	R_SH_CODE		30
#define	R_SH_DATA		31
#define	R_SH_LABEL		32
#define	R_SH_SWITCH8		33
#define	R_SH_GNU_VTINHERIT	34
#define	R_SH_GNU_VTENTRY	35
#define	R_SH_TLS_GD_32		144
#define	R_SH_TLS_LD_32		145
#define	R_SH_TLS_LDO_32		146
#define	R_SH_TLS_IE_32		147
#define	R_SH_TLS_LE_32		148
#define	R_SH_TLS_DTPMOD32	149
#define	R_SH_TLS_DTPOFF32	150
#define	R_SH_TLS_TPOFF32	151
#define	R_SH_GOT32		160
#define	R_SH_PLT32		161
#define	R_SH_COPY		162
#define	R_SH_GLOB_DAT		163
#define	R_SH_JMP_SLOT		164
#define	R_SH_RELATIVE		165
#define	R_SH_GOTOFF		166
#define	R_SH_GOTPC		167
/* Keep this the last entry.  */
#define	R_SH_NUM		256

/* S/390 specific definitions.  */

/* Valid values for the e_flags field.  */

#define EF_S390_HIGH_GPRS    0x00000001  /* High GPRs kernel facility needed.  */

/* Additional s390 relocs */

#define R_390_NONE		0	/* No reloc.  */
#define R_390_8			1	/* Direct 8 bit.  */
#define R_390_12		2	/* Direct 12 bit.  */
#define R_390_16		3	/* Direct 16 bit.  */
#define R_390_32		4	/* Direct 32 bit.  */
#define R_390_PC32		5	/* PC relative 32 bit.	*/
#define R_390_GOT12		6	/* 12 bit GOT offset.  */
#define R_390_GOT32		7	/* 32 bit GOT offset.  */
#define R_390_PLT32		8	/* 32 bit PC relative PLT address.  */
#define R_390_COPY		9	/* Copy symbol at runtime.  */
#define R_390_GLOB_DAT		10	/* Create GOT entry.  */
#define R_390_JMP_SLOT		11	/* Create PLT entry.  */
#define R_390_RELATIVE		12	/* Adjust by program base.  */
#define R_390_GOTOFF32		13	/* 32 bit offset to GOT.	 */
#define R_390_GOTPC		14	/* 32 bit PC relative offset to GOT.  */
#define R_390_GOT16		15	/* 16 bit GOT offset.  */
#define R_390_PC16		16	/* PC relative 16 bit.	*/
#define R_390_PC16DBL		17	/* PC relative 16 bit shifted by 1.  */
#define R_390_PLT16DBL		18	/* 16 bit PC rel. PLT shifted by 1.  */
#define R_390_PC32DBL		19	/* PC relative 32 bit shifted by 1.  */
#define R_390_PLT32DBL		20	/* 32 bit PC rel. PLT shifted by 1.  */
#define R_390_GOTPCDBL		21	/* 32 bit PC rel. GOT shifted by 1.  */
#define R_390_64		22	/* Direct 64 bit.  */
#define R_390_PC64		23	/* PC relative 64 bit.	*/
#define R_390_GOT64		24	/* 64 bit GOT offset.  */
#define R_390_PLT64		25	/* 64 bit PC relative PLT address.  */
#define R_390_GOTENT		26	/* 32 bit PC rel. to GOT entry >> 1. */
#define R_390_GOTOFF16		27	/* 16 bit offset to GOT. */
#define R_390_GOTOFF64		28	/* 64 bit offset to GOT. */
#define R_390_GOTPLT12		29	/* 12 bit offset to jump slot.	*/
#define R_390_GOTPLT16		30	/* 16 bit offset to jump slot.	*/
#define R_390_GOTPLT32		31	/* 32 bit offset to jump slot.	*/
#define R_390_GOTPLT64		32	/* 64 bit offset to jump slot.	*/
#define R_390_GOTPLTENT		33	/* 32 bit rel. offset to jump slot.  */
#define R_390_PLTOFF16		34	/* 16 bit offset from GOT to PLT. */
#define R_390_PLTOFF32		35	/* 32 bit offset from GOT to PLT. */
#define R_390_PLTOFF64		36	/* 16 bit offset from GOT to PLT. */
#define R_390_TLS_LOAD		37	/* Tag for load insn in TLS code.  */
#define R_390_TLS_GDCALL	38	/* Tag for function call in general
					   dynamic TLS code. */
#define R_390_TLS_LDCALL	39	/* Tag for function call in local
					   dynamic TLS code. */
#define R_390_TLS_GD32		40	/* Direct 32 bit for general dynamic
					   thread local data.  */
#define R_390_TLS_GD64		41	/* Direct 64 bit for general dynamic
					  thread local data.  */
#define R_390_TLS_GOTIE12	42	/* 12 bit GOT offset for static TLS
					   block offset.  */
#define R_390_TLS_GOTIE32	43	/* 32 bit GOT offset for static TLS
					   block offset.  */
#define R_390_TLS_GOTIE64	44	/* 64 bit GOT offset for static TLS
					   block offset. */
#define R_390_TLS_LDM32		45	/* Direct 32 bit for local dynamic
					   thread local data in LE code.  */
#define R_390_TLS_LDM64		46	/* Direct 64 bit for local dynamic
					   thread local data in LE code.  */
#define R_390_TLS_IE32		47	/* 32 bit address of GOT entry for
					   negated static TLS block offset.  */
#define R_390_TLS_IE64		48	/* 64 bit address of GOT entry for
					   negated static TLS block offset.  */
#define R_390_TLS_IEENT		49	/* 32 bit rel. offset to GOT entry for
					   negated static TLS block offset.  */
#define R_390_TLS_LE32		50	/* 32 bit negated offset relative to
					   static TLS block.  */
#define R_390_TLS_LE64		51	/* 64 bit negated offset relative to
					   static TLS block.  */
#define R_390_TLS_LDO32		52	/* 32 bit offset relative to TLS
					   block.  */
#define R_390_TLS_LDO64		53	/* 64 bit offset relative to TLS
					   block.  */
#define R_390_TLS_DTPMOD	54	/* ID of module containing symbol.  */
#define R_390_TLS_DTPOFF	55	/* Offset in TLS block.	 */
#define R_390_TLS_TPOFF		56	/* Negated offset in static TLS
					   block.  */
#define R_390_20		57	/* Direct 20 bit.  */
#define R_390_GOT20		58	/* 20 bit GOT offset.  */
#define R_390_GOTPLT20		59	/* 20 bit offset to jump slot.  */
#define R_390_TLS_GOTIE20	60	/* 20 bit GOT offset for static TLS
					   block offset.  */
#define R_390_IRELATIVE         61      /* STT_GNU_IFUNC relocation.  */
/* Keep this the last entry.  */
#define R_390_NUM		62


/* CRIS relocations.  */
#define R_CRIS_NONE		0
#define R_CRIS_8		1
#define R_CRIS_16		2
#define R_CRIS_32		3
#define R_CRIS_8_PCREL		4
#define R_CRIS_16_PCREL		5
#define R_CRIS_32_PCREL		6
#define R_CRIS_GNU_VTINHERIT	7
#define R_CRIS_GNU_VTENTRY	8
#define R_CRIS_COPY		9
#define R_CRIS_GLOB_DAT		10
#define R_CRIS_JUMP_SLOT	11
#define R_CRIS_RELATIVE		12
#define R_CRIS_16_GOT		13
#define R_CRIS_32_GOT		14
#define R_CRIS_16_GOTPLT	15
#define R_CRIS_32_GOTPLT	16
#define R_CRIS_32_GOTREL	17
#define R_CRIS_32_PLT_GOTREL	18
#define R_CRIS_32_PLT_PCREL	19

#define R_CRIS_NUM		20


/* AMD x86-64 relocations.  */
#define R_X86_64_NONE		0	/* No reloc */
#define R_X86_64_64		1	/* Direct 64 bit  */
#define R_X86_64_PC32		2	/* PC relative 32 bit signed */
#define R_X86_64_GOT32		3	/* 32 bit GOT entry */
#define R_X86_64_PLT32		4	/* 32 bit PLT address */
#define R_X86_64_COPY		5	/* Copy symbol at runtime */
#define R_X86_64_GLOB_DAT	6	/* Create GOT entry */
#define R_X86_64_JUMP_SLOT	7	/* Create PLT entry */
#define R_X86_64_RELATIVE	8	/* Adjust by program base */
#define R_X86_64_GOTPCREL	9	/* 32 bit signed PC relative
					   offset to GOT */
#define R_X86_64_32		10	/* Direct 32 bit zero extended */
#define R_X86_64_32S		11	/* Direct 32 bit sign extended */
#define R_X86_64_16		12	/* Direct 16 bit zero extended */
#define R_X86_64_PC16		13	/* 16 bit sign extended pc relative */
#define R_X86_64_8		14	/* Direct 8 bit sign extended  */
#define R_X86_64_PC8		15	/* 8 bit sign extended pc relative */
#define R_X86_64_DTPMOD64	16	/* ID of module containing symbol */
#define R_X86_64_DTPOFF64	17	/* Offset in module's TLS block */
#define R_X86_64_TPOFF64	18	/* Offset in initial TLS block */
#define R_X86_64_TLSGD		19	/* 32 bit signed PC relative offset
					   to two GOT entries for GD symbol */
#define R_X86_64_TLSLD		20	/* 32 bit signed PC relative offset
					   to two GOT entries for LD symbol */
#define R_X86_64_DTPOFF32	21	/* Offset in TLS block */
#define R_X86_64_GOTTPOFF	22	/* 32 bit signed PC relative offset
					   to GOT entry for IE symbol */
#define R_X86_64_TPOFF32	23	/* Offset in initial TLS block */
#define R_X86_64_PC64		24	/* PC relative 64 bit */
#define R_X86_64_GOTOFF64	25	/* 64 bit offset to GOT */
#define R_X86_64_GOTPC32	26	/* 32 bit signed pc relative
					   offset to GOT */
#define R_X86_64_GOT64		27	/* 64-bit GOT entry offset */
#define R_X86_64_GOTPCREL64	28	/* 64-bit PC relative offset
					   to GOT entry */
#define R_X86_64_GOTPC64	29	/* 64-bit PC relative offset to GOT */
#define R_X86_64_GOTPLT64	30 	/* like GOT64, says PLT entry needed */
#define R_X86_64_PLTOFF64	31	/* 64-bit GOT relative offset
					   to PLT entry */
#define R_X86_64_SIZE32		32	/* Size of symbol plus 32-bit addend */
#define R_X86_64_SIZE64		33	/* Size of symbol plus 64-bit addend */
#define R_X86_64_GOTPC32_TLSDESC 34	/* GOT offset for TLS descriptor.  */
#define R_X86_64_TLSDESC_CALL   35	/* Marker for call through TLS
					   descriptor.  */
#define R_X86_64_TLSDESC        36	/* TLS descriptor.  */
#define R_X86_64_IRELATIVE	37	/* Adjust indirectly by program base */
#define R_X86_64_RELATIVE64	38	/* 64-bit adjust by program base */
					/* 39 Reserved was R_X86_64_PC32_BND */
					/* 40 Reserved was R_X86_64_PLT32_BND */
#define R_X86_64_GOTPCRELX	41	/* Load from 32 bit signed pc relative
					   offset to GOT entry without REX
					   prefix, relaxable.  */
#define R_X86_64_REX_GOTPCRELX	42	/* Load from 32 bit signed pc relative
					   offset to GOT entry with REX prefix,
					   relaxable.  */
#define R_X86_64_NUM		43

/* x86-64 sh_type values.  */
#define SHT_X86_64_UNWIND	0x70000001 /* Unwind information.  */


/* AM33 relocations.  */
#define R_MN10300_NONE		0	/* No reloc.  */
#define R_MN10300_32		1	/* Direct 32 bit.  */
#define R_MN10300_16		2	/* Direct 16 bit.  */
#define R_MN10300_8		3	/* Direct 8 bit.  */
#define R_MN10300_PCREL32	4	/* PC-relative 32-bit.  */
#define R_MN10300_PCREL16	5	/* PC-relative 16-bit signed.  */
#define R_MN10300_PCREL8	6	/* PC-relative 8-bit signed.  */
#define R_MN10300_GNU_VTINHERIT	7	/* Ancient C++ vtable garbage... */
#define R_MN10300_GNU_VTENTRY	8	/* ... collection annotation.  */
#define R_MN10300_24		9	/* Direct 24 bit.  */
#define R_MN10300_GOTPC32	10	/* 32-bit PCrel offset to GOT.  */
#define R_MN10300_GOTPC16	11	/* 16-bit PCrel offset to GOT.  */
#define R_MN10300_GOTOFF32	12	/* 32-bit offset from GOT.  */
#define R_MN10300_GOTOFF24	13	/* 24-bit offset from GOT.  */
#define R_MN10300_GOTOFF16	14	/* 16-bit offset from GOT.  */
#define R_MN10300_PLT32		15	/* 32-bit PCrel to PLT entry.  */
#define R_MN10300_PLT16		16	/* 16-bit PCrel to PLT entry.  */
#define R_MN10300_GOT32		17	/* 32-bit offset to GOT entry.  */
#define R_MN10300_GOT24		18	/* 24-bit offset to GOT entry.  */
#define R_MN10300_GOT16		19	/* 16-bit offset to GOT entry.  */
#define R_MN10300_COPY		20	/* Copy symbol at runtime.  */
#define R_MN10300_GLOB_DAT	21	/* Create GOT entry.  */
#define R_MN10300_JMP_SLOT	22	/* Create PLT entry.  */
#define R_MN10300_RELATIVE	23	/* Adjust by program base.  */
#define R_MN10300_TLS_GD	24	/* 32-bit offset for global dynamic.  */
#define R_MN10300_TLS_LD	25	/* 32-bit offset for local dynamic.  */
#define R_MN10300_TLS_LDO	26	/* Module-relative offset.  */
#define R_MN10300_TLS_GOTIE	27	/* GOT offset for static TLS block
					   offset.  */
#define R_MN10300_TLS_IE	28	/* GOT address for static TLS block
					   offset.  */
#define R_MN10300_TLS_LE	29	/* Offset relative to static TLS
					   block.  */
#define R_MN10300_TLS_DTPMOD	30	/* ID of module containing symbol.  */
#define R_MN10300_TLS_DTPOFF	31	/* Offset in module TLS block.  */
#define R_MN10300_TLS_TPOFF	32	/* Offset in static TLS block.  */
#define R_MN10300_SYM_DIFF	33	/* Adjustment for next reloc as needed
					   by linker relaxation.  */
#define R_MN10300_ALIGN		34	/* Alignment requirement for linker
					   relaxation.  */
#define R_MN10300_NUM		35


/* M32R relocs.  */
#define R_M32R_NONE		0	/* No reloc. */
#define R_M32R_16		1	/* Direct 16 bit. */
#define R_M32R_32		2	/* Direct 32 bit. */
#define R_M32R_24		3	/* Direct 24 bit. */
#define R_M32R_10_PCREL		4	/* PC relative 10 bit shifted. */
#define R_M32R_18_PCREL		5	/* PC relative 18 bit shifted. */
#define R_M32R_26_PCREL		6	/* PC relative 26 bit shifted. */
#define R_M32R_HI16_ULO		7	/* High 16 bit with unsigned low. */
#define R_M32R_HI16_SLO		8	/* High 16 bit with signed low. */
#define R_M32R_LO16		9	/* Low 16 bit. */
#define R_M32R_SDA16		10	/* 16 bit offset in SDA. */
#define R_M32R_GNU_VTINHERIT	11
#define R_M32R_GNU_VTENTRY	12
/* M32R relocs use SHT_RELA.  */
#define R_M32R_16_RELA		33	/* Direct 16 bit. */
#define R_M32R_32_RELA		34	/* Direct 32 bit. */
#define R_M32R_24_RELA		35	/* Direct 24 bit. */
#define R_M32R_10_PCREL_RELA	36	/* PC relative 10 bit shifted. */
#define R_M32R_18_PCREL_RELA	37	/* PC relative 18 bit shifted. */
#define R_M32R_26_PCREL_RELA	38	/* PC relative 26 bit shifted. */
#define R_M32R_HI16_ULO_RELA	39	/* High 16 bit with unsigned low */
#define R_M32R_HI16_SLO_RELA	40	/* High 16 bit with signed low */
#define R_M32R_LO16_RELA	41	/* Low 16 bit */
#define R_M32R_SDA16_RELA	42	/* 16 bit offset in SDA */
#define R_M32R_RELA_GNU_VTINHERIT	43
#define R_M32R_RELA_GNU_VTENTRY	44
#define R_M32R_REL32		45	/* PC relative 32 bit.  */

#define R_M32R_GOT24		48	/* 24 bit GOT entry */
#define R_M32R_26_PLTREL	49	/* 26 bit PC relative to PLT shifted */
#define R_M32R_COPY		50	/* Copy symbol at runtime */
#define R_M32R_GLOB_DAT		51	/* Create GOT entry */
#define R_M32R_JMP_SLOT		52	/* Create PLT entry */
#define R_M32R_RELATIVE		53	/* Adjust by program base */
#define R_M32R_GOTOFF		54	/* 24 bit offset to GOT */
#define R_M32R_GOTPC24		55	/* 24 bit PC relative offset to GOT */
#define R_M32R_GOT16_HI_ULO	56	/* High 16 bit GOT entry with unsigned
					   low */
#define R_M32R_GOT16_HI_SLO	57	/* High 16 bit GOT entry with signed
					   low */
#define R_M32R_GOT16_LO		58	/* Low 16 bit GOT entry */
#define R_M32R_GOTPC_HI_ULO	59	/* High 16 bit PC relative offset to
					   GOT with unsigned low */
#define R_M32R_GOTPC_HI_SLO	60	/* High 16 bit PC relative offset to
					   GOT with signed low */
#define R_M32R_GOTPC_LO		61	/* Low 16 bit PC relative offset to
					   GOT */
#define R_M32R_GOTOFF_HI_ULO	62	/* High 16 bit offset to GOT
					   with unsigned low */
#define R_M32R_GOTOFF_HI_SLO	63	/* High 16 bit offset to GOT
					   with signed low */
#define R_M32R_GOTOFF_LO	64	/* Low 16 bit offset to GOT */
#define R_M32R_NUM		256	/* Keep this the last entry. */

/* MicroBlaze relocations */
#define R_MICROBLAZE_NONE		0	/* No reloc. */
#define R_MICROBLAZE_32 		1	/* Direct 32 bit. */
#define R_MICROBLAZE_32_PCREL		2	/* PC relative 32 bit. */
#define R_MICROBLAZE_64_PCREL		3	/* PC relative 64 bit. */
#define R_MICROBLAZE_32_PCREL_LO	4	/* Low 16 bits of PCREL32. */
#define R_MICROBLAZE_64 		5	/* Direct 64 bit. */
#define R_MICROBLAZE_32_LO		6	/* Low 16 bit. */
#define R_MICROBLAZE_SRO32		7	/* Read-only small data area. */
#define R_MICROBLAZE_SRW32		8	/* Read-write small data area. */
#define R_MICROBLAZE_64_NONE		9	/* No reloc. */
#define R_MICROBLAZE_32_SYM_OP_SYM	10	/* Symbol Op Symbol relocation. */
#define R_MICROBLAZE_GNU_VTINHERIT	11	/* GNU C++ vtable hierarchy. */
#define R_MICROBLAZE_GNU_VTENTRY	12	/* GNU C++ vtable member usage. */
#define R_MICROBLAZE_GOTPC_64		13	/* PC-relative GOT offset.  */
#define R_MICROBLAZE_GOT_64		14	/* GOT entry offset.  */
#define R_MICROBLAZE_PLT_64		15	/* PLT offset (PC-relative).  */
#define R_MICROBLAZE_REL		16	/* Adjust by program base.  */
#define R_MICROBLAZE_JUMP_SLOT		17	/* Create PLT entry.  */
#define R_MICROBLAZE_GLOB_DAT		18	/* Create GOT entry.  */
#define R_MICROBLAZE_GOTOFF_64		19	/* 64 bit offset to GOT. */
#define R_MICROBLAZE_GOTOFF_32		20	/* 32 bit offset to GOT. */
#define R_MICROBLAZE_COPY		21	/* Runtime copy.  */
#define R_MICROBLAZE_TLS		22	/* TLS Reloc. */
#define R_MICROBLAZE_TLSGD		23	/* TLS General Dynamic. */
#define R_MICROBLAZE_TLSLD		24	/* TLS Local Dynamic. */
#define R_MICROBLAZE_TLSDTPMOD32	25	/* TLS Module ID. */
#define R_MICROBLAZE_TLSDTPREL32	26	/* TLS Offset Within TLS Block. */
#define R_MICROBLAZE_TLSDTPREL64	27	/* TLS Offset Within TLS Block. */
#define R_MICROBLAZE_TLSGOTTPREL32	28	/* TLS Offset From Thread Pointer. */
#define R_MICROBLAZE_TLSTPREL32 	29	/* TLS Offset From Thread Pointer. */

/* Legal values for d_tag (dynamic entry type).  */
#define DT_NIOS2_GP             0x70000002 /* Address of _gp.  */

/* Nios II relocations.  */
#define R_NIOS2_NONE		0	/* No reloc.  */
#define R_NIOS2_S16		1	/* Direct signed 16 bit.  */
#define R_NIOS2_U16		2	/* Direct unsigned 16 bit.  */
#define R_NIOS2_PCREL16		3	/* PC relative 16 bit.  */
#define R_NIOS2_CALL26		4	/* Direct call.  */
#define R_NIOS2_IMM5		5	/* 5 bit constant expression.  */
#define R_NIOS2_CACHE_OPX	6	/* 5 bit expression, shift 22.  */
#define R_NIOS2_IMM6		7	/* 6 bit constant expression.  */
#define R_NIOS2_IMM8		8	/* 8 bit constant expression.  */
#define R_NIOS2_HI16		9	/* High 16 bit.  */
#define R_NIOS2_LO16		10	/* Low 16 bit.  */
#define R_NIOS2_HIADJ16		11	/* High 16 bit, adjusted.  */
#define R_NIOS2_BFD_RELOC_32	12	/* 32 bit symbol value + addend.  */
#define R_NIOS2_BFD_RELOC_16	13	/* 16 bit symbol value + addend.  */
#define R_NIOS2_BFD_RELOC_8	14	/* 8 bit symbol value + addend.  */
#define R_NIOS2_GPREL		15	/* 16 bit GP pointer offset.  */
#define R_NIOS2_GNU_VTINHERIT	16	/* GNU C++ vtable hierarchy.  */
#define R_NIOS2_GNU_VTENTRY	17	/* GNU C++ vtable member usage.  */
#define R_NIOS2_UJMP		18	/* Unconditional branch.  */
#define R_NIOS2_CJMP		19	/* Conditional branch.  */
#define R_NIOS2_CALLR		20	/* Indirect call through register.  */
#define R_NIOS2_ALIGN		21	/* Alignment requirement for
					   linker relaxation.  */
#define R_NIOS2_GOT16		22	/* 16 bit GOT entry.  */
#define R_NIOS2_CALL16		23	/* 16 bit GOT entry for function.  */
#define R_NIOS2_GOTOFF_LO	24	/* %lo of offset to GOT pointer.  */
#define R_NIOS2_GOTOFF_HA	25	/* %hiadj of offset to GOT pointer.  */
#define R_NIOS2_PCREL_LO	26	/* %lo of PC relative offset.  */
#define R_NIOS2_PCREL_HA	27	/* %hiadj of PC relative offset.  */
#define R_NIOS2_TLS_GD16	28	/* 16 bit GOT offset for TLS GD.  */
#define R_NIOS2_TLS_LDM16	29	/* 16 bit GOT offset for TLS LDM.  */
#define R_NIOS2_TLS_LDO16	30	/* 16 bit module relative offset.  */
#define R_NIOS2_TLS_IE16	31	/* 16 bit GOT offset for TLS IE.  */
#define R_NIOS2_TLS_LE16	32	/* 16 bit LE TP-relative offset.  */
#define R_NIOS2_TLS_DTPMOD	33	/* Module number.  */
#define R_NIOS2_TLS_DTPREL	34	/* Module-relative offset.  */
#define R_NIOS2_TLS_TPREL	35	/* TP-relative offset.  */
#define R_NIOS2_COPY		36	/* Copy symbol at runtime.  */
#define R_NIOS2_GLOB_DAT	37	/* Create GOT entry.  */
#define R_NIOS2_JUMP_SLOT	38	/* Create PLT entry.  */
#define R_NIOS2_RELATIVE	39	/* Adjust by program base.  */
#define R_NIOS2_GOTOFF		40	/* 16 bit offset to GOT pointer.  */
#define R_NIOS2_CALL26_NOAT	41	/* Direct call in .noat section.  */
#define R_NIOS2_GOT_LO		42	/* %lo() of GOT entry.  */
#define R_NIOS2_GOT_HA		43	/* %hiadj() of GOT entry.  */
#define R_NIOS2_CALL_LO		44	/* %lo() of function GOT entry.  */
#define R_NIOS2_CALL_HA		45	/* %hiadj() of function GOT entry.  */

/* TILEPro relocations.  */
#define R_TILEPRO_NONE		0	/* No reloc */
#define R_TILEPRO_32		1	/* Direct 32 bit */
#define R_TILEPRO_16		2	/* Direct 16 bit */
#define R_TILEPRO_8		3	/* Direct 8 bit */
#define R_TILEPRO_32_PCREL	4	/* PC relative 32 bit */
#define R_TILEPRO_16_PCREL	5	/* PC relative 16 bit */
#define R_TILEPRO_8_PCREL	6	/* PC relative 8 bit */
#define R_TILEPRO_LO16		7	/* Low 16 bit */
#define R_TILEPRO_HI16		8	/* High 16 bit */
#define R_TILEPRO_HA16		9	/* High 16 bit, adjusted */
#define R_TILEPRO_COPY		10	/* Copy relocation */
#define R_TILEPRO_GLOB_DAT	11	/* Create GOT entry */
#define R_TILEPRO_JMP_SLOT	12	/* Create PLT entry */
#define R_TILEPRO_RELATIVE	13	/* Adjust by program base */
#define R_TILEPRO_BROFF_X1	14	/* X1 pipe branch offset */
#define R_TILEPRO_JOFFLONG_X1	15	/* X1 pipe jump offset */
#define R_TILEPRO_JOFFLONG_X1_PLT 16	/* X1 pipe jump offset to PLT */
#define R_TILEPRO_IMM8_X0	17	/* X0 pipe 8-bit */
#define R_TILEPRO_IMM8_Y0	18	/* Y0 pipe 8-bit */
#define R_TILEPRO_IMM8_X1	19	/* X1 pipe 8-bit */
#define R_TILEPRO_IMM8_Y1	20	/* Y1 pipe 8-bit */
#define R_TILEPRO_MT_IMM15_X1	21	/* X1 pipe mtspr */
#define R_TILEPRO_MF_IMM15_X1	22	/* X1 pipe mfspr */
#define R_TILEPRO_IMM16_X0	23	/* X0 pipe 16-bit */
#define R_TILEPRO_IMM16_X1	24	/* X1 pipe 16-bit */
#define R_TILEPRO_IMM16_X0_LO	25	/* X0 pipe low 16-bit */
#define R_TILEPRO_IMM16_X1_LO	26	/* X1 pipe low 16-bit */
#define R_TILEPRO_IMM16_X0_HI	27	/* X0 pipe high 16-bit */
#define R_TILEPRO_IMM16_X1_HI	28	/* X1 pipe high 16-bit */
#define R_TILEPRO_IMM16_X0_HA	29	/* X0 pipe high 16-bit, adjusted */
#define R_TILEPRO_IMM16_X1_HA	30	/* X1 pipe high 16-bit, adjusted */
#define R_TILEPRO_IMM16_X0_PCREL 31	/* X0 pipe PC relative 16 bit */
#define R_TILEPRO_IMM16_X1_PCREL 32	/* X1 pipe PC relative 16 bit */
#define R_TILEPRO_IMM16_X0_LO_PCREL 33	/* X0 pipe PC relative low 16 bit */
#define R_TILEPRO_IMM16_X1_LO_PCREL 34	/* X1 pipe PC relative low 16 bit */
#define R_TILEPRO_IMM16_X0_HI_PCREL 35	/* X0 pipe PC relative high 16 bit */
#define R_TILEPRO_IMM16_X1_HI_PCREL 36	/* X1 pipe PC relative high 16 bit */
#define R_TILEPRO_IMM16_X0_HA_PCREL 37	/* X0 pipe PC relative ha() 16 bit */
#define R_TILEPRO_IMM16_X1_HA_PCREL 38	/* X1 pipe PC relative ha() 16 bit */
#define R_TILEPRO_IMM16_X0_GOT	39	/* X0 pipe 16-bit GOT offset */
#define R_TILEPRO_IMM16_X1_GOT	40	/* X1 pipe 16-bit GOT offset */
#define R_TILEPRO_IMM16_X0_GOT_LO 41	/* X0 pipe low 16-bit GOT offset */
#define R_TILEPRO_IMM16_X1_GOT_LO 42	/* X1 pipe low 16-bit GOT offset */
#define R_TILEPRO_IMM16_X0_GOT_HI 43	/* X0 pipe high 16-bit GOT offset */
#define R_TILEPRO_IMM16_X1_GOT_HI 44	/* X1 pipe high 16-bit GOT offset */
#define R_TILEPRO_IMM16_X0_GOT_HA 45	/* X0 pipe ha() 16-bit GOT offset */
#define R_TILEPRO_IMM16_X1_GOT_HA 46	/* X1 pipe ha() 16-bit GOT offset */
#define R_TILEPRO_MMSTART_X0	47	/* X0 pipe mm "start" */
#define R_TILEPRO_MMEND_X0	48	/* X0 pipe mm "end" */
#define R_TILEPRO_MMSTART_X1	49	/* X1 pipe mm "start" */
#define R_TILEPRO_MMEND_X1	50	/* X1 pipe mm "end" */
#define R_TILEPRO_SHAMT_X0	51	/* X0 pipe shift amount */
#define R_TILEPRO_SHAMT_X1	52	/* X1 pipe shift amount */
#define R_TILEPRO_SHAMT_Y0	53	/* Y0 pipe shift amount */
#define R_TILEPRO_SHAMT_Y1	54	/* Y1 pipe shift amount */
#define R_TILEPRO_DEST_IMM8_X1	55	/* X1 pipe destination 8-bit */
/* Relocs 56-59 are currently not defined.  */
#define R_TILEPRO_TLS_GD_CALL	60	/* "jal" for TLS GD */
#define R_TILEPRO_IMM8_X0_TLS_GD_ADD 61	/* X0 pipe "addi" for TLS GD */
#define R_TILEPRO_IMM8_X1_TLS_GD_ADD 62	/* X1 pipe "addi" for TLS GD */
#define R_TILEPRO_IMM8_Y0_TLS_GD_ADD 63	/* Y0 pipe "addi" for TLS GD */
#define R_TILEPRO_IMM8_Y1_TLS_GD_ADD 64	/* Y1 pipe "addi" for TLS GD */
#define R_TILEPRO_TLS_IE_LOAD	65	/* "lw_tls" for TLS IE */
#define R_TILEPRO_IMM16_X0_TLS_GD 66	/* X0 pipe 16-bit TLS GD offset */
#define R_TILEPRO_IMM16_X1_TLS_GD 67	/* X1 pipe 16-bit TLS GD offset */
#define R_TILEPRO_IMM16_X0_TLS_GD_LO 68	/* X0 pipe low 16-bit TLS GD offset */
#define R_TILEPRO_IMM16_X1_TLS_GD_LO 69	/* X1 pipe low 16-bit TLS GD offset */
#define R_TILEPRO_IMM16_X0_TLS_GD_HI 70	/* X0 pipe high 16-bit TLS GD offset */
#define R_TILEPRO_IMM16_X1_TLS_GD_HI 71	/* X1 pipe high 16-bit TLS GD offset */
#define R_TILEPRO_IMM16_X0_TLS_GD_HA 72	/* X0 pipe ha() 16-bit TLS GD offset */
#define R_TILEPRO_IMM16_X1_TLS_GD_HA 73	/* X1 pipe ha() 16-bit TLS GD offset */
#define R_TILEPRO_IMM16_X0_TLS_IE 74	/* X0 pipe 16-bit TLS IE offset */
#define R_TILEPRO_IMM16_X1_TLS_IE 75	/* X1 pipe 16-bit TLS IE offset */
#define R_TILEPRO_IMM16_X0_TLS_IE_LO 76	/* X0 pipe low 16-bit TLS IE offset */
#define R_TILEPRO_IMM16_X1_TLS_IE_LO 77	/* X1 pipe low 16-bit TLS IE offset */
#define R_TILEPRO_IMM16_X0_TLS_IE_HI 78	/* X0 pipe high 16-bit TLS IE offset */
#define R_TILEPRO_IMM16_X1_TLS_IE_HI 79	/* X1 pipe high 16-bit TLS IE offset */
#define R_TILEPRO_IMM16_X0_TLS_IE_HA 80	/* X0 pipe ha() 16-bit TLS IE offset */
#define R_TILEPRO_IMM16_X1_TLS_IE_HA 81	/* X1 pipe ha() 16-bit TLS IE offset */
#define R_TILEPRO_TLS_DTPMOD32	82	/* ID of module containing symbol */
#define R_TILEPRO_TLS_DTPOFF32	83	/* Offset in TLS block */
#define R_TILEPRO_TLS_TPOFF32	84	/* Offset in static TLS block */
#define R_TILEPRO_IMM16_X0_TLS_LE 85	/* X0 pipe 16-bit TLS LE offset */
#define R_TILEPRO_IMM16_X1_TLS_LE 86	/* X1 pipe 16-bit TLS LE offset */
#define R_TILEPRO_IMM16_X0_TLS_LE_LO 87	/* X0 pipe low 16-bit TLS LE offset */
#define R_TILEPRO_IMM16_X1_TLS_LE_LO 88	/* X1 pipe low 16-bit TLS LE offset */
#define R_TILEPRO_IMM16_X0_TLS_LE_HI 89	/* X0 pipe high 16-bit TLS LE offset */
#define R_TILEPRO_IMM16_X1_TLS_LE_HI 90	/* X1 pipe high 16-bit TLS LE offset */
#define R_TILEPRO_IMM16_X0_TLS_LE_HA 91	/* X0 pipe ha() 16-bit TLS LE offset */
#define R_TILEPRO_IMM16_X1_TLS_LE_HA 92	/* X1 pipe ha() 16-bit TLS LE offset */

#define R_TILEPRO_GNU_VTINHERIT	128	/* GNU C++ vtable hierarchy */
#define R_TILEPRO_GNU_VTENTRY	129	/* GNU C++ vtable member usage */

#define R_TILEPRO_NUM		130


/* TILE-Gx relocations.  */
#define R_TILEGX_NONE		0	/* No reloc */
#define R_TILEGX_64		1	/* Direct 64 bit */
#define R_TILEGX_32		2	/* Direct 32 bit */
#define R_TILEGX_16		3	/* Direct 16 bit */
#define R_TILEGX_8		4	/* Direct 8 bit */
#define R_TILEGX_64_PCREL	5	/* PC relative 64 bit */
#define R_TILEGX_32_PCREL	6	/* PC relative 32 bit */
#define R_TILEGX_16_PCREL	7	/* PC relative 16 bit */
#define R_TILEGX_8_PCREL	8	/* PC relative 8 bit */
#define R_TILEGX_HW0		9	/* hword 0 16-bit */
#define R_TILEGX_HW1		10	/* hword 1 16-bit */
#define R_TILEGX_HW2		11	/* hword 2 16-bit */
#define R_TILEGX_HW3		12	/* hword 3 16-bit */
#define R_TILEGX_HW0_LAST	13	/* last hword 0 16-bit */
#define R_TILEGX_HW1_LAST	14	/* last hword 1 16-bit */
#define R_TILEGX_HW2_LAST	15	/* last hword 2 16-bit */
#define R_TILEGX_COPY		16	/* Copy relocation */
#define R_TILEGX_GLOB_DAT	17	/* Create GOT entry */
#define R_TILEGX_JMP_SLOT	18	/* Create PLT entry */
#define R_TILEGX_RELATIVE	19	/* Adjust by program base */
#define R_TILEGX_BROFF_X1	20	/* X1 pipe branch offset */
#define R_TILEGX_JUMPOFF_X1	21	/* X1 pipe jump offset */
#define R_TILEGX_JUMPOFF_X1_PLT	22	/* X1 pipe jump offset to PLT */
#define R_TILEGX_IMM8_X0	23	/* X0 pipe 8-bit */
#define R_TILEGX_IMM8_Y0	24	/* Y0 pipe 8-bit */
#define R_TILEGX_IMM8_X1	25	/* X1 pipe 8-bit */
#define R_TILEGX_IMM8_Y1	26	/* Y1 pipe 8-bit */
#define R_TILEGX_DEST_IMM8_X1	27	/* X1 pipe destination 8-bit */
#define R_TILEGX_MT_IMM14_X1	28	/* X1 pipe mtspr */
#define R_TILEGX_MF_IMM14_X1	29	/* X1 pipe mfspr */
#define R_TILEGX_MMSTART_X0	30	/* X0 pipe mm "start" */
#define R_TILEGX_MMEND_X0	31	/* X0 pipe mm "end" */
#define R_TILEGX_SHAMT_X0	32	/* X0 pipe shift amount */
#define R_TILEGX_SHAMT_X1	33	/* X1 pipe shift amount */
#define R_TILEGX_SHAMT_Y0	34	/* Y0 pipe shift amount */
#define R_TILEGX_SHAMT_Y1	35	/* Y1 pipe shift amount */
#define R_TILEGX_IMM16_X0_HW0	36	/* X0 pipe hword 0 */
#define R_TILEGX_IMM16_X1_HW0	37	/* X1 pipe hword 0 */
#define R_TILEGX_IMM16_X0_HW1	38	/* X0 pipe hword 1 */
#define R_TILEGX_IMM16_X1_HW1	39	/* X1 pipe hword 1 */
#define R_TILEGX_IMM16_X0_HW2	40	/* X0 pipe hword 2 */
#define R_TILEGX_IMM16_X1_HW2	41	/* X1 pipe hword 2 */
#define R_TILEGX_IMM16_X0_HW3	42	/* X0 pipe hword 3 */
#define R_TILEGX_IMM16_X1_HW3	43	/* X1 pipe hword 3 */
#define R_TILEGX_IMM16_X0_HW0_LAST 44	/* X0 pipe last hword 0 */
#define R_TILEGX_IMM16_X1_HW0_LAST 45	/* X1 pipe last hword 0 */
#define R_TILEGX_IMM16_X0_HW1_LAST 46	/* X0 pipe last hword 1 */
#define R_TILEGX_IMM16_X1_HW1_LAST 47	/* X1 pipe last hword 1 */
#define R_TILEGX_IMM16_X0_HW2_LAST 48	/* X0 pipe last hword 2 */
#define R_TILEGX_IMM16_X1_HW2_LAST 49	/* X1 pipe last hword 2 */
#define R_TILEGX_IMM16_X0_HW0_PCREL 50	/* X0 pipe PC relative hword 0 */
#define R_TILEGX_IMM16_X1_HW0_PCREL 51	/* X1 pipe PC relative hword 0 */
#define R_TILEGX_IMM16_X0_HW1_PCREL 52	/* X0 pipe PC relative hword 1 */
#define R_TILEGX_IMM16_X1_HW1_PCREL 53	/* X1 pipe PC relative hword 1 */
#define R_TILEGX_IMM16_X0_HW2_PCREL 54	/* X0 pipe PC relative hword 2 */
#define R_TILEGX_IMM16_X1_HW2_PCREL 55	/* X1 pipe PC relative hword 2 */
#define R_TILEGX_IMM16_X0_HW3_PCREL 56	/* X0 pipe PC relative hword 3 */
#define R_TILEGX_IMM16_X1_HW3_PCREL 57	/* X1 pipe PC relative hword 3 */
#define R_TILEGX_IMM16_X0_HW0_LAST_PCREL 58 /* X0 pipe PC-rel last hword 0 */
#define R_TILEGX_IMM16_X1_HW0_LAST_PCREL 59 /* X1 pipe PC-rel last hword 0 */
#define R_TILEGX_IMM16_X0_HW1_LAST_PCREL 60 /* X0 pipe PC-rel last hword 1 */
#define R_TILEGX_IMM16_X1_HW1_LAST_PCREL 61 /* X1 pipe PC-rel last hword 1 */
#define R_TILEGX_IMM16_X0_HW2_LAST_PCREL 62 /* X0 pipe PC-rel last hword 2 */
#define R_TILEGX_IMM16_X1_HW2_LAST_PCREL 63 /* X1 pipe PC-rel last hword 2 */
#define R_TILEGX_IMM16_X0_HW0_GOT 64	/* X0 pipe hword 0 GOT offset */
#define R_TILEGX_IMM16_X1_HW0_GOT 65	/* X1 pipe hword 0 GOT offset */
#define R_TILEGX_IMM16_X0_HW0_PLT_PCREL 66 /* X0 pipe PC-rel PLT hword 0 */
#define R_TILEGX_IMM16_X1_HW0_PLT_PCREL 67 /* X1 pipe PC-rel PLT hword 0 */
#define R_TILEGX_IMM16_X0_HW1_PLT_PCREL 68 /* X0 pipe PC-rel PLT hword 1 */
#define R_TILEGX_IMM16_X1_HW1_PLT_PCREL 69 /* X1 pipe PC-rel PLT hword 1 */
#define R_TILEGX_IMM16_X0_HW2_PLT_PCREL 70 /* X0 pipe PC-rel PLT hword 2 */
#define R_TILEGX_IMM16_X1_HW2_PLT_PCREL 71 /* X1 pipe PC-rel PLT hword 2 */
#define R_TILEGX_IMM16_X0_HW0_LAST_GOT 72 /* X0 pipe last hword 0 GOT offset */
#define R_TILEGX_IMM16_X1_HW0_LAST_GOT 73 /* X1 pipe last hword 0 GOT offset */
#define R_TILEGX_IMM16_X0_HW1_LAST_GOT 74 /* X0 pipe last hword 1 GOT offset */
#define R_TILEGX_IMM16_X1_HW1_LAST_GOT 75 /* X1 pipe last hword 1 GOT offset */
#define R_TILEGX_IMM16_X0_HW3_PLT_PCREL 76 /* X0 pipe PC-rel PLT hword 3 */
#define R_TILEGX_IMM16_X1_HW3_PLT_PCREL 77 /* X1 pipe PC-rel PLT hword 3 */
#define R_TILEGX_IMM16_X0_HW0_TLS_GD 78	/* X0 pipe hword 0 TLS GD offset */
#define R_TILEGX_IMM16_X1_HW0_TLS_GD 79	/* X1 pipe hword 0 TLS GD offset */
#define R_TILEGX_IMM16_X0_HW0_TLS_LE 80	/* X0 pipe hword 0 TLS LE offset */
#define R_TILEGX_IMM16_X1_HW0_TLS_LE 81	/* X1 pipe hword 0 TLS LE offset */
#define R_TILEGX_IMM16_X0_HW0_LAST_TLS_LE 82 /* X0 pipe last hword 0 LE off */
#define R_TILEGX_IMM16_X1_HW0_LAST_TLS_LE 83 /* X1 pipe last hword 0 LE off */
#define R_TILEGX_IMM16_X0_HW1_LAST_TLS_LE 84 /* X0 pipe last hword 1 LE off */
#define R_TILEGX_IMM16_X1_HW1_LAST_TLS_LE 85 /* X1 pipe last hword 1 LE off */
#define R_TILEGX_IMM16_X0_HW0_LAST_TLS_GD 86 /* X0 pipe last hword 0 GD off */
#define R_TILEGX_IMM16_X1_HW0_LAST_TLS_GD 87 /* X1 pipe last hword 0 GD off */
#define R_TILEGX_IMM16_X0_HW1_LAST_TLS_GD 88 /* X0 pipe last hword 1 GD off */
#define R_TILEGX_IMM16_X1_HW1_LAST_TLS_GD 89 /* X1 pipe last hword 1 GD off */
/* Relocs 90-91 are currently not defined.  */
#define R_TILEGX_IMM16_X0_HW0_TLS_IE 92	/* X0 pipe hword 0 TLS IE offset */
#define R_TILEGX_IMM16_X1_HW0_TLS_IE 93	/* X1 pipe hword 0 TLS IE offset */
#define R_TILEGX_IMM16_X0_HW0_LAST_PLT_PCREL 94 /* X0 pipe PC-rel PLT last hword 0 */
#define R_TILEGX_IMM16_X1_HW0_LAST_PLT_PCREL 95 /* X1 pipe PC-rel PLT last hword 0 */
#define R_TILEGX_IMM16_X0_HW1_LAST_PLT_PCREL 96 /* X0 pipe PC-rel PLT last hword 1 */
#define R_TILEGX_IMM16_X1_HW1_LAST_PLT_PCREL 97 /* X1 pipe PC-rel PLT last hword 1 */
#define R_TILEGX_IMM16_X0_HW2_LAST_PLT_PCREL 98 /* X0 pipe PC-rel PLT last hword 2 */
#define R_TILEGX_IMM16_X1_HW2_LAST_PLT_PCREL 99 /* X1 pipe PC-rel PLT last hword 2 */
#define R_TILEGX_IMM16_X0_HW0_LAST_TLS_IE 100 /* X0 pipe last hword 0 IE off */
#define R_TILEGX_IMM16_X1_HW0_LAST_TLS_IE 101 /* X1 pipe last hword 0 IE off */
#define R_TILEGX_IMM16_X0_HW1_LAST_TLS_IE 102 /* X0 pipe last hword 1 IE off */
#define R_TILEGX_IMM16_X1_HW1_LAST_TLS_IE 103 /* X1 pipe last hword 1 IE off */
/* Relocs 104-105 are currently not defined.  */
#define R_TILEGX_TLS_DTPMOD64	106	/* 64-bit ID of symbol's module */
#define R_TILEGX_TLS_DTPOFF64	107	/* 64-bit offset in TLS block */
#define R_TILEGX_TLS_TPOFF64	108	/* 64-bit offset in static TLS block */
#define R_TILEGX_TLS_DTPMOD32	109	/* 32-bit ID of symbol's module */
#define R_TILEGX_TLS_DTPOFF32	110	/* 32-bit offset in TLS block */
#define R_TILEGX_TLS_TPOFF32	111	/* 32-bit offset in static TLS block */
#define R_TILEGX_TLS_GD_CALL	112	/* "jal" for TLS GD */
#define R_TILEGX_IMM8_X0_TLS_GD_ADD 113	/* X0 pipe "addi" for TLS GD */
#define R_TILEGX_IMM8_X1_TLS_GD_ADD 114	/* X1 pipe "addi" for TLS GD */
#define R_TILEGX_IMM8_Y0_TLS_GD_ADD 115	/* Y0 pipe "addi" for TLS GD */
#define R_TILEGX_IMM8_Y1_TLS_GD_ADD 116	/* Y1 pipe "addi" for TLS GD */
#define R_TILEGX_TLS_IE_LOAD	117	/* "ld_tls" for TLS IE */
#define R_TILEGX_IMM8_X0_TLS_ADD 118	/* X0 pipe "addi" for TLS GD/IE */
#define R_TILEGX_IMM8_X1_TLS_ADD 119	/* X1 pipe "addi" for TLS GD/IE */
#define R_TILEGX_IMM8_Y0_TLS_ADD 120	/* Y0 pipe "addi" for TLS GD/IE */
#define R_TILEGX_IMM8_Y1_TLS_ADD 121	/* Y1 pipe "addi" for TLS GD/IE */

#define R_TILEGX_GNU_VTINHERIT	128	/* GNU C++ vtable hierarchy */
#define R_TILEGX_GNU_VTENTRY	129	/* GNU C++ vtable member usage */

#define R_TILEGX_NUM		130

/* RISC-V ELF Flags */
#define EF_RISCV_RVC 			0x0001
#define EF_RISCV_FLOAT_ABI 		0x0006
#define EF_RISCV_FLOAT_ABI_SOFT 	0x0000
#define EF_RISCV_FLOAT_ABI_SINGLE 	0x0002
#define EF_RISCV_FLOAT_ABI_DOUBLE 	0x0004
#define EF_RISCV_FLOAT_ABI_QUAD 	0x0006
#define EF_RISCV_RVE			0x0008
#define EF_RISCV_TSO			0x0010

/* RISC-V relocations.  */
#define R_RISCV_NONE		 0
#define R_RISCV_32		 1
#define R_RISCV_64		 2
#define R_RISCV_RELATIVE	 3
#define R_RISCV_COPY		 4
#define R_RISCV_JUMP_SLOT	 5
#define R_RISCV_TLS_DTPMOD32	 6
#define R_RISCV_TLS_DTPMOD64	 7
#define R_RISCV_TLS_DTPREL32	 8
#define R_RISCV_TLS_DTPREL64	 9
#define R_RISCV_TLS_TPREL32	10
#define R_RISCV_TLS_TPREL64	11
#define R_RISCV_BRANCH		16
#define R_RISCV_JAL		17
#define R_RISCV_CALL		18
#define R_RISCV_CALL_PLT	19
#define R_RISCV_GOT_HI20	20
#define R_RISCV_TLS_GOT_HI20	21
#define R_RISCV_TLS_GD_HI20	22
#define R_RISCV_PCREL_HI20	23
#define R_RISCV_PCREL_LO12_I	24
#define R_RISCV_PCREL_LO12_S	25
#define R_RISCV_HI20		26
#define R_RISCV_LO12_I		27
#define R_RISCV_LO12_S		28
#define R_RISCV_TPREL_HI20	29
#define R_RISCV_TPREL_LO12_I	30
#define R_RISCV_TPREL_LO12_S	31
#define R_RISCV_TPREL_ADD	32
#define R_RISCV_ADD8		33
#define R_RISCV_ADD16		34
#define R_RISCV_ADD32		35
#define R_RISCV_ADD64		36
#define R_RISCV_SUB8		37
#define R_RISCV_SUB16		38
#define R_RISCV_SUB32		39
#define R_RISCV_SUB64		40
#define R_RISCV_GNU_VTINHERIT	41
#define R_RISCV_GNU_VTENTRY	42
#define R_RISCV_ALIGN		43
#define R_RISCV_RVC_BRANCH	44
#define R_RISCV_RVC_JUMP	45
#define R_RISCV_RVC_LUI		46
#define R_RISCV_GPREL_I		47
#define R_RISCV_GPREL_S		48
#define R_RISCV_TPREL_I		49
#define R_RISCV_TPREL_S		50
#define R_RISCV_RELAX		51
#define R_RISCV_SUB6		52
#define R_RISCV_SET6		53
#define R_RISCV_SET8		54
#define R_RISCV_SET16		55
#define R_RISCV_SET32		56
#define R_RISCV_32_PCREL	57
#define R_RISCV_IRELATIVE	58

#define R_RISCV_NUM		59

/* RISC-V specific values for the st_other field.  */
#define STO_RISCV_VARIANT_CC	0x80	/* Function uses variant calling
					   convention */

/* RISC-V specific values for the sh_type field.  */
#define SHT_RISCV_ATTRIBUTES	(SHT_LOPROC + 3)

/* RISC-V specific values for the p_type field.  */
#define PT_RISCV_ATTRIBUTES	(PT_LOPROC + 3)

/* RISC-V specific values for the d_tag field.  */
#define DT_RISCV_VARIANT_CC	(DT_LOPROC + 1)

/* BPF specific declarations.  */

#define R_BPF_NONE		0	/* No reloc */
#define R_BPF_64_64		1
#define R_BPF_64_32		10

/* Imagination Meta specific relocations. */

#define R_METAG_HIADDR16	0
#define R_METAG_LOADDR16	1
#define R_METAG_ADDR32		2	/* 32bit absolute address */
#define R_METAG_NONE		3	/* No reloc */
#define R_METAG_RELBRANCH	4
#define R_METAG_GETSETOFF	5

/* Backward compatibility */
#define R_METAG_REG32OP1	6
#define R_METAG_REG32OP2	7
#define R_METAG_REG32OP3	8
#define R_METAG_REG16OP1	9
#define R_METAG_REG16OP2	10
#define R_METAG_REG16OP3	11
#define R_METAG_REG32OP4	12

#define R_METAG_HIOG		13
#define R_METAG_LOOG		14

#define R_METAG_REL8		15
#define R_METAG_REL16		16

/* GNU */
#define R_METAG_GNU_VTINHERIT	30
#define R_METAG_GNU_VTENTRY	31

/* PIC relocations */
#define R_METAG_HI16_GOTOFF	32
#define R_METAG_LO16_GOTOFF	33
#define R_METAG_GETSET_GOTOFF	34
#define R_METAG_GETSET_GOT	35
#define R_METAG_HI16_GOTPC	36
#define R_METAG_LO16_GOTPC	37
#define R_METAG_HI16_PLT	38
#define R_METAG_LO16_PLT	39
#define R_METAG_RELBRANCH_PLT	40
#define R_METAG_GOTOFF		41
#define R_METAG_PLT		42
#define R_METAG_COPY		43
#define R_METAG_JMP_SLOT	44
#define R_METAG_RELATIVE	45
#define R_METAG_GLOB_DAT	46

/* TLS relocations */
#define R_METAG_TLS_GD		47
#define R_METAG_TLS_LDM		48
#define R_METAG_TLS_LDO_HI16	49
#define R_METAG_TLS_LDO_LO16	50
#define R_METAG_TLS_LDO		51
#define R_METAG_TLS_IE		52
#define R_METAG_TLS_IENONPIC	53
#define R_METAG_TLS_IENONPIC_HI16 54
#define R_METAG_TLS_IENONPIC_LO16 55
#define R_METAG_TLS_TPOFF	56
#define R_METAG_TLS_DTPMOD	57
#define R_METAG_TLS_DTPOFF	58
#define R_METAG_TLS_LE		59
#define R_METAG_TLS_LE_HI16	60
#define R_METAG_TLS_LE_LO16	61

/* NDS32 relocations.  */
#define R_NDS32_NONE		0
#define R_NDS32_32_RELA 	20
#define R_NDS32_COPY		39
#define R_NDS32_GLOB_DAT	40
#define R_NDS32_JMP_SLOT	41
#define R_NDS32_RELATIVE	42
#define R_NDS32_TLS_TPOFF	102
#define R_NDS32_TLS_DESC	119

/* LoongArch ELF Flags */
#define EF_LARCH_ABI_MODIFIER_MASK  0x07
#define EF_LARCH_ABI_SOFT_FLOAT     0x01
#define EF_LARCH_ABI_SINGLE_FLOAT   0x02
#define EF_LARCH_ABI_DOUBLE_FLOAT   0x03
#define EF_LARCH_OBJABI_V1          0x40

/* LoongArch specific dynamic relocations */
#define R_LARCH_NONE		0
#define R_LARCH_32		1
#define R_LARCH_64		2
#define R_LARCH_RELATIVE	3
#define R_LARCH_COPY		4
#define R_LARCH_JUMP_SLOT	5
#define R_LARCH_TLS_DTPMOD32	6
#define R_LARCH_TLS_DTPMOD64	7
#define R_LARCH_TLS_DTPREL32	8
#define R_LARCH_TLS_DTPREL64	9
#define R_LARCH_TLS_TPREL32	10
#define R_LARCH_TLS_TPREL64	11
#define R_LARCH_IRELATIVE	12

/* Reserved for future relocs that the dynamic linker must understand.  */

/* used by the static linker for relocating .text.  */
#define R_LARCH_MARK_LA  20
#define R_LARCH_MARK_PCREL  21
#define R_LARCH_SOP_PUSH_PCREL  22
#define R_LARCH_SOP_PUSH_ABSOLUTE  23
#define R_LARCH_SOP_PUSH_DUP  24
#define R_LARCH_SOP_PUSH_GPREL  25
#define R_LARCH_SOP_PUSH_TLS_TPREL  26
#define R_LARCH_SOP_PUSH_TLS_GOT  27
#define R_LARCH_SOP_PUSH_TLS_GD  28
#define R_LARCH_SOP_PUSH_PLT_PCREL  29
#define R_LARCH_SOP_ASSERT  30
#define R_LARCH_SOP_NOT  31
#define R_LARCH_SOP_SUB  32
#define R_LARCH_SOP_SL  33
#define R_LARCH_SOP_SR  34
#define R_LARCH_SOP_ADD  35
#define R_LARCH_SOP_AND  36
#define R_LARCH_SOP_IF_ELSE  37
#define R_LARCH_SOP_POP_32_S_10_5  38
#define R_LARCH_SOP_POP_32_U_10_12  39
#define R_LARCH_SOP_POP_32_S_10_12  40
#define R_LARCH_SOP_POP_32_S_10_16  41
#define R_LARCH_SOP_POP_32_S_10_16_S2  42
#define R_LARCH_SOP_POP_32_S_5_20  43
#define R_LARCH_SOP_POP_32_S_0_5_10_16_S2  44
#define R_LARCH_SOP_POP_32_S_0_10_10_16_S2  45
#define R_LARCH_SOP_POP_32_U  46

/* used by the static linker for relocating non .text.  */
#define R_LARCH_ADD8  47
#define R_LARCH_ADD16  48
#define R_LARCH_ADD24  49
#define R_LARCH_ADD32  50
#define R_LARCH_ADD64  51
#define R_LARCH_SUB8  52
#define R_LARCH_SUB16  53
#define R_LARCH_SUB24  54
#define R_LARCH_SUB32  55
#define R_LARCH_SUB64  56
#define R_LARCH_GNU_VTINHERIT  57
#define R_LARCH_GNU_VTENTRY  58


/* ARCompact/ARCv2 specific relocs.  */
#define R_ARC_NONE		0x0
#define R_ARC_8			0x1
#define R_ARC_16		0x2
#define R_ARC_24		0x3
#define R_ARC_32		0x4
#define R_ARC_B26		0x5
#define R_ARC_B22_PCREL		0x6
#define R_ARC_H30		0x7
#define R_ARC_N8		0x8
#define R_ARC_N16		0x9
#define R_ARC_N24		0xA
#define R_ARC_N32		0xB
#define R_ARC_SDA		0xC
#define R_ARC_SECTOFF		0xD
#define R_ARC_S21H_PCREL	0xE
#define R_ARC_S21W_PCREL	0xF
#define R_ARC_S25H_PCREL	0x10
#define R_ARC_S25W_PCREL	0x11
#define R_ARC_SDA32		0x12
#define R_ARC_SDA_LDST		0x13
#define R_ARC_SDA_LDST1		0x14
#define R_ARC_SDA_LDST2		0x15
#define R_ARC_SDA16_LD		0x16
#define R_ARC_SDA16_LD1		0x17
#define R_ARC_SDA16_LD2		0x18
#define R_ARC_S13_PCREL		0x19
#define R_ARC_W			0x1A
#define R_ARC_32_ME		0x1B
#define R_ARC_N32_ME		0x1C
#define R_ARC_SECTOFF_ME	0x1D
#define R_ARC_SDA32_ME		0x1E
#define R_ARC_W_ME		0x1F
#define R_ARC_H30_ME		0x20
#define R_ARC_SECTOFF_U8	0x21
#define R_ARC_SECTOFF_S9	0x22
#define R_AC_SECTOFF_U8		0x23
#define R_AC_SECTOFF_U8_1	0x24
#define R_AC_SECTOFF_U8_2	0x25
#define R_AC_SECTOFF_S9		0x26
#define R_AC_SECTOFF_S9_1	0x27
#define R_AC_SECTOFF_S9_2	0x28
#define R_ARC_SECTOFF_ME_1	0x29
#define R_ARC_SECTOFF_ME_2	0x2A
#define R_ARC_SECTOFF_1		0x2B
#define R_ARC_SECTOFF_2		0x2C
#define R_ARC_PC32		0x32
#define R_ARC_GOTPC32		0x33
#define R_ARC_PLT32		0x34
#define R_ARC_COPY		0x35
#define R_ARC_GLOB_DAT		0x36
#define R_ARC_JUMP_SLOT		0x37
#define R_ARC_RELATIVE		0x38
#define R_ARC_GOTOFF		0x39
#define R_ARC_GOTPC		0x3A
#define R_ARC_GOT32		0x3B

#define R_ARC_TLS_DTPMOD	0x42
#define R_ARC_TLS_DTPOFF	0x43
#define R_ARC_TLS_TPOFF		0x44
#define R_ARC_TLS_GD_GOT	0x45
#define R_ARC_TLS_GD_LD	        0x46
#define R_ARC_TLS_GD_CALL	0x47
#define R_ARC_TLS_IE_GOT	0x48
#define R_ARC_TLS_DTPOFF_S9	0x4a
#define R_ARC_TLS_LE_S9		0x4a
#define R_ARC_TLS_LE_32		0x4b

/* OpenRISC 1000 specific relocs.  */
#define R_OR1K_NONE		0
#define R_OR1K_32		1
#define R_OR1K_16		2
#define R_OR1K_8		3
#define R_OR1K_LO_16_IN_INSN	4
#define R_OR1K_HI_16_IN_INSN	5
#define R_OR1K_INSN_REL_26	6
#define R_OR1K_GNU_VTENTRY	7
#define R_OR1K_GNU_VTINHERIT	8
#define R_OR1K_32_PCREL		9
#define R_OR1K_16_PCREL		10
#define R_OR1K_8_PCREL		11
#define R_OR1K_GOTPC_HI16	12
#define R_OR1K_GOTPC_LO16	13
#define R_OR1K_GOT16		14
#define R_OR1K_PLT26		15
#define R_OR1K_GOTOFF_HI16	16
#define R_OR1K_GOTOFF_LO16	17
#define R_OR1K_COPY		18
#define R_OR1K_GLOB_DAT		19
#define R_OR1K_JMP_SLOT		20
#define R_OR1K_RELATIVE		21
#define R_OR1K_TLS_GD_HI16	22
#define R_OR1K_TLS_GD_LO16	23
#define R_OR1K_TLS_LDM_HI16	24
#define R_OR1K_TLS_LDM_LO16	25
#define R_OR1K_TLS_LDO_HI16	26
#define R_OR1K_TLS_LDO_LO16	27
#define R_OR1K_TLS_IE_HI16	28
#define R_OR1K_TLS_IE_LO16	29
#define R_OR1K_TLS_LE_HI16	30
#define R_OR1K_TLS_LE_LO16	31
#define R_OR1K_TLS_TPOFF	32
#define R_OR1K_TLS_DTPOFF	33
#define R_OR1K_TLS_DTPMOD	34

#endif	/* elf.h */
