//===- llvm/BinaryFormat/ELF.h - ELF constants and structures ---*- C++ -*-===//
//
// Part of the LLVM Project, under the Apache License v2.0 with LLVM Exceptions.
// See https://llvm.org/LICENSE.txt for license information.
// SPDX-License-Identifier: Apache-2.0 WITH LLVM-exception
//
//===----------------------------------------------------------------------===//
//
// This header contains common, non-processor-specific data structures and
// constants for the ELF file format.
//
// The details of the ELF32 bits in this file are largely based on the Tool
// Interface Standard (TIS) Executable and Linking Format (ELF) Specification
// Version 1.2, May 1995. The ELF64 stuff is based on ELF-64 Object File Format
// Version 1.5, Draft 2, May 1998 as well as OpenBSD header files.
//
//===----------------------------------------------------------------------===//

#ifndef LLVM_BINARYFORMAT_ELF_H
#define LLVM_BINARYFORMAT_ELF_H

#include "llvm/ADT/StringRef.h"
#include <cstdint>
#include <cstring>

namespace llvm {
namespace ELF {

using Elf32_Addr = uint32_t; // Program address
using Elf32_Off = uint32_t;  // File offset
using Elf32_Half = uint16_t;
using Elf32_Word = uint32_t;
using Elf32_Sword = int32_t;

using Elf64_Addr = uint64_t;
using Elf64_Off = uint64_t;
using Elf64_Half = uint16_t;
using Elf64_Word = uint32_t;
using Elf64_Sword = int32_t;
using Elf64_Xword = uint64_t;
using Elf64_Sxword = int64_t;

// Object file magic string.
static const char ElfMagic[] = {0x7f, 'E', 'L', 'F', '\0'};

// e_ident size and indices.
enum {
  EI_MAG0 = 0,       // File identification index.
  EI_MAG1 = 1,       // File identification index.
  EI_MAG2 = 2,       // File identification index.
  EI_MAG3 = 3,       // File identification index.
  EI_CLASS = 4,      // File class.
  EI_DATA = 5,       // Data encoding.
  EI_VERSION = 6,    // File version.
  EI_OSABI = 7,      // OS/ABI identification.
  EI_ABIVERSION = 8, // ABI version.
  EI_PAD = 9,        // Start of padding bytes.
  EI_NIDENT = 16     // Number of bytes in e_ident.
};

struct Elf32_Ehdr {
  unsigned char e_ident[EI_NIDENT]; // ELF Identification bytes
  Elf32_Half e_type;                // Type of file (see ET_* below)
  Elf32_Half e_machine;   // Required architecture for this file (see EM_*)
  Elf32_Word e_version;   // Must be equal to 1
  Elf32_Addr e_entry;     // Address to jump to in order to start program
  Elf32_Off e_phoff;      // Program header table's file offset, in bytes
  Elf32_Off e_shoff;      // Section header table's file offset, in bytes
  Elf32_Word e_flags;     // Processor-specific flags
  Elf32_Half e_ehsize;    // Size of ELF header, in bytes
  Elf32_Half e_phentsize; // Size of an entry in the program header table
  Elf32_Half e_phnum;     // Number of entries in the program header table
  Elf32_Half e_shentsize; // Size of an entry in the section header table
  Elf32_Half e_shnum;     // Number of entries in the section header table
  Elf32_Half e_shstrndx;  // Sect hdr table index of sect name string table

  bool checkMagic() const {
    return (memcmp(e_ident, ElfMagic, strlen(ElfMagic))) == 0;
  }

  unsigned char getFileClass() const { return e_ident[EI_CLASS]; }
  unsigned char getDataEncoding() const { return e_ident[EI_DATA]; }
};

// 64-bit ELF header. Fields are the same as for ELF32, but with different
// types (see above).
struct Elf64_Ehdr {
  unsigned char e_ident[EI_NIDENT];
  Elf64_Half e_type;
  Elf64_Half e_machine;
  Elf64_Word e_version;
  Elf64_Addr e_entry;
  Elf64_Off e_phoff;
  Elf64_Off e_shoff;
  Elf64_Word e_flags;
  Elf64_Half e_ehsize;
  Elf64_Half e_phentsize;
  Elf64_Half e_phnum;
  Elf64_Half e_shentsize;
  Elf64_Half e_shnum;
  Elf64_Half e_shstrndx;

  bool checkMagic() const {
    return (memcmp(e_ident, ElfMagic, strlen(ElfMagic))) == 0;
  }

  unsigned char getFileClass() const { return e_ident[EI_CLASS]; }
  unsigned char getDataEncoding() const { return e_ident[EI_DATA]; }
};

// File types.
// See current registered ELF types at:
//    http://www.sco.com/developers/gabi/latest/ch4.eheader.html
enum {
  ET_NONE = 0,        // No file type
  ET_REL = 1,         // Relocatable file
  ET_EXEC = 2,        // Executable file
  ET_DYN = 3,         // Shared object file
  ET_CORE = 4,        // Core file
  ET_LOOS = 0xfe00,   // Beginning of operating system-specific codes
  ET_HIOS = 0xfeff,   // Operating system-specific
  ET_LOPROC = 0xff00, // Beginning of processor-specific codes
  ET_HIPROC = 0xffff  // Processor-specific
};

// Versioning
enum { EV_NONE = 0, EV_CURRENT = 1 };

// Machine architectures
// See current registered ELF machine architectures at:
//    http://www.uxsglobal.com/developers/gabi/latest/ch4.eheader.html
enum {
  EM_NONE = 0,           // No machine
  EM_M32 = 1,            // AT&T WE 32100
  EM_SPARC = 2,          // SPARC
  EM_386 = 3,            // Intel 386
  EM_68K = 4,            // Motorola 68000
  EM_88K = 5,            // Motorola 88000
  EM_IAMCU = 6,          // Intel MCU
  EM_860 = 7,            // Intel 80860
  EM_MIPS = 8,           // MIPS R3000
  EM_S370 = 9,           // IBM System/370
  EM_MIPS_RS3_LE = 10,   // MIPS RS3000 Little-endian
  EM_PARISC = 15,        // Hewlett-Packard PA-RISC
  EM_VPP500 = 17,        // Fujitsu VPP500
  EM_SPARC32PLUS = 18,   // Enhanced instruction set SPARC
  EM_960 = 19,           // Intel 80960
  EM_PPC = 20,           // PowerPC
  EM_PPC64 = 21,         // PowerPC64
  EM_S390 = 22,          // IBM System/390
  EM_SPU = 23,           // IBM SPU/SPC
  EM_V800 = 36,          // NEC V800
  EM_FR20 = 37,          // Fujitsu FR20
  EM_RH32 = 38,          // TRW RH-32
  EM_RCE = 39,           // Motorola RCE
  EM_ARM = 40,           // ARM
  EM_ALPHA = 41,         // DEC Alpha
  EM_SH = 42,            // Hitachi SH
  EM_SPARCV9 = 43,       // SPARC V9
  EM_TRICORE = 44,       // Siemens TriCore
  EM_ARC = 45,           // Argonaut RISC Core
  EM_H8_300 = 46,        // Hitachi H8/300
  EM_H8_300H = 47,       // Hitachi H8/300H
  EM_H8S = 48,           // Hitachi H8S
  EM_H8_500 = 49,        // Hitachi H8/500
  EM_IA_64 = 50,         // Intel IA-64 processor architecture
  EM_MIPS_X = 51,        // Stanford MIPS-X
  EM_COLDFIRE = 52,      // Motorola ColdFire
  EM_68HC12 = 53,        // Motorola M68HC12
  EM_MMA = 54,           // Fujitsu MMA Multimedia Accelerator
  EM_PCP = 55,           // Siemens PCP
  EM_NCPU = 56,          // Sony nCPU embedded RISC processor
  EM_NDR1 = 57,          // Denso NDR1 microprocessor
  EM_STARCORE = 58,      // Motorola Star*Core processor
  EM_ME16 = 59,          // Toyota ME16 processor
  EM_ST100 = 60,         // STMicroelectronics ST100 processor
  EM_TINYJ = 61,         // Advanced Logic Corp. TinyJ embedded processor family
  EM_X86_64 = 62,        // AMD x86-64 architecture
  EM_PDSP = 63,          // Sony DSP Processor
  EM_PDP10 = 64,         // Digital Equipment Corp. PDP-10
  EM_PDP11 = 65,         // Digital Equipment Corp. PDP-11
  EM_FX66 = 66,          // Siemens FX66 microcontroller
  EM_ST9PLUS = 67,       // STMicroelectronics ST9+ 8/16 bit microcontroller
  EM_ST7 = 68,           // STMicroelectronics ST7 8-bit microcontroller
  EM_68HC16 = 69,        // Motorola MC68HC16 Microcontroller
  EM_68HC11 = 70,        // Motorola MC68HC11 Microcontroller
  EM_68HC08 = 71,        // Motorola MC68HC08 Microcontroller
  EM_68HC05 = 72,        // Motorola MC68HC05 Microcontroller
  EM_SVX = 73,           // Silicon Graphics SVx
  EM_ST19 = 74,          // STMicroelectronics ST19 8-bit microcontroller
  EM_VAX = 75,           // Digital VAX
  EM_CRIS = 76,          // Axis Communications 32-bit embedded processor
  EM_JAVELIN = 77,       // Infineon Technologies 32-bit embedded processor
  EM_FIREPATH = 78,      // Element 14 64-bit DSP Processor
  EM_ZSP = 79,           // LSI Logic 16-bit DSP Processor
  EM_MMIX = 80,          // Donald Knuth's educational 64-bit processor
  EM_HUANY = 81,         // Harvard University machine-independent object files
  EM_PRISM = 82,         // SiTera Prism
  EM_AVR = 83,           // Atmel AVR 8-bit microcontroller
  EM_FR30 = 84,          // Fujitsu FR30
  EM_D10V = 85,          // Mitsubishi D10V
  EM_D30V = 86,          // Mitsubishi D30V
  EM_V850 = 87,          // NEC v850
  EM_M32R = 88,          // Mitsubishi M32R
  EM_MN10300 = 89,       // Matsushita MN10300
  EM_MN10200 = 90,       // Matsushita MN10200
  EM_PJ = 91,            // picoJava
  EM_OPENRISC = 92,      // OpenRISC 32-bit embedded processor
  EM_ARC_COMPACT = 93,   // ARC International ARCompact processor (old
                         // spelling/synonym: EM_ARC_A5)
  EM_XTENSA = 94,        // Tensilica Xtensa Architecture
  EM_VIDEOCORE = 95,     // Alphamosaic VideoCore processor
  EM_TMM_GPP = 96,       // Thompson Multimedia General Purpose Processor
  EM_NS32K = 97,         // National Semiconductor 32000 series
  EM_TPC = 98,           // Tenor Network TPC processor
  EM_SNP1K = 99,         // Trebia SNP 1000 processor
  EM_ST200 = 100,        // STMicroelectronics (www.st.com) ST200
  EM_IP2K = 101,         // Ubicom IP2xxx microcontroller family
  EM_MAX = 102,          // MAX Processor
  EM_CR = 103,           // National Semiconductor CompactRISC microprocessor
  EM_F2MC16 = 104,       // Fujitsu F2MC16
  EM_MSP430 = 105,       // Texas Instruments embedded microcontroller msp430
  EM_BLACKFIN = 106,     // Analog Devices Blackfin (DSP) processor
  EM_SE_C33 = 107,       // S1C33 Family of Seiko Epson processors
  EM_SEP = 108,          // Sharp embedded microprocessor
  EM_ARCA = 109,         // Arca RISC Microprocessor
  EM_UNICORE = 110,      // Microprocessor series from PKU-Unity Ltd. and MPRC
                         // of Peking University
  EM_EXCESS = 111,       // eXcess: 16/32/64-bit configurable embedded CPU
  EM_DXP = 112,          // Icera Semiconductor Inc. Deep Execution Processor
  EM_ALTERA_NIOS2 = 113, // Altera Nios II soft-core processor
  EM_CRX = 114,          // National Semiconductor CompactRISC CRX
  EM_XGATE = 115,        // Motorola XGATE embedded processor
  EM_C166 = 116,         // Infineon C16x/XC16x processor
  EM_M16C = 117,         // Renesas M16C series microprocessors
  EM_DSPIC30F = 118,     // Microchip Technology dsPIC30F Digital Signal
                         // Controller
  EM_CE = 119,           // Freescale Communication Engine RISC core
  EM_M32C = 120,         // Renesas M32C series microprocessors
  EM_TSK3000 = 131,      // Altium TSK3000 core
  EM_RS08 = 132,         // Freescale RS08 embedded processor
  EM_SHARC = 133,        // Analog Devices SHARC family of 32-bit DSP
                         // processors
  EM_ECOG2 = 134,        // Cyan Technology eCOG2 microprocessor
  EM_SCORE7 = 135,       // Sunplus S+core7 RISC processor
  EM_DSP24 = 136,        // New Japan Radio (NJR) 24-bit DSP Processor
  EM_VIDEOCORE3 = 137,   // Broadcom VideoCore III processor
  EM_LATTICEMICO32 = 138, // RISC processor for Lattice FPGA architecture
  EM_SE_C17 = 139,        // Seiko Epson C17 family
  EM_TI_C6000 = 140,      // The Texas Instruments TMS320C6000 DSP family
  EM_TI_C2000 = 141,      // The Texas Instruments TMS320C2000 DSP family
  EM_TI_C5500 = 142,      // The Texas Instruments TMS320C55x DSP family
  EM_MMDSP_PLUS = 160,    // STMicroelectronics 64bit VLIW Data Signal Processor
  EM_CYPRESS_M8C = 161,   // Cypress M8C microprocessor
  EM_R32C = 162,          // Renesas R32C series microprocessors
  EM_TRIMEDIA = 163,      // NXP Semiconductors TriMedia architecture family
  EM_HEXAGON = 164,       // Qualcomm Hexagon processor
  EM_8051 = 165,          // Intel 8051 and variants
  EM_STXP7X = 166,        // STMicroelectronics STxP7x family of configurable
                          // and extensible RISC processors
  EM_NDS32 = 167,         // Andes Technology compact code size embedded RISC
                          // processor family
  EM_ECOG1 = 168,         // Cyan Technology eCOG1X family
  EM_ECOG1X = 168,        // Cyan Technology eCOG1X family
  EM_MAXQ30 = 169,        // Dallas Semiconductor MAXQ30 Core Micro-controllers
  EM_XIMO16 = 170,        // New Japan Radio (NJR) 16-bit DSP Processor
  EM_MANIK = 171,         // M2000 Reconfigurable RISC Microprocessor
  EM_CRAYNV2 = 172,       // Cray Inc. NV2 vector architecture
  EM_RX = 173,            // Renesas RX family
  EM_METAG = 174,         // Imagination Technologies META processor
                          // architecture
  EM_MCST_ELBRUS = 175,   // MCST Elbrus general purpose hardware architecture
  EM_ECOG16 = 176,        // Cyan Technology eCOG16 family
  EM_CR16 = 177,          // National Semiconductor CompactRISC CR16 16-bit
                          // microprocessor
  EM_ETPU = 178,          // Freescale Extended Time Processing Unit
  EM_SLE9X = 179,         // Infineon Technologies SLE9X core
  EM_L10M = 180,          // Intel L10M
  EM_K10M = 181,          // Intel K10M
  EM_AARCH64 = 183,       // ARM AArch64
  EM_AVR32 = 185,         // Atmel Corporation 32-bit microprocessor family
  EM_STM8 = 186,          // STMicroeletronics STM8 8-bit microcontroller
  EM_TILE64 = 187,        // Tilera TILE64 multicore architecture family
  EM_TILEPRO = 188,       // Tilera TILEPro multicore architecture family
  EM_MICROBLAZE = 189,    // Xilinx MicroBlaze 32-bit RISC soft processor core
  EM_CUDA = 190,          // NVIDIA CUDA architecture
  EM_TILEGX = 191,        // Tilera TILE-Gx multicore architecture family
  EM_CLOUDSHIELD = 192,   // CloudShield architecture family
  EM_COREA_1ST = 193,     // KIPO-KAIST Core-A 1st generation processor family
  EM_COREA_2ND = 194,     // KIPO-KAIST Core-A 2nd generation processor family
  EM_ARC_COMPACT2 = 195,  // Synopsys ARCompact V2
  EM_OPEN8 = 196,         // Open8 8-bit RISC soft processor core
  EM_RL78 = 197,          // Renesas RL78 family
  EM_VIDEOCORE5 = 198,    // Broadcom VideoCore V processor
  EM_78KOR = 199,         // Renesas 78KOR family
  EM_56800EX = 200,       // Freescale 56800EX Digital Signal Controller (DSC)
  EM_BA1 = 201,           // Beyond BA1 CPU architecture
  EM_BA2 = 202,           // Beyond BA2 CPU architecture
  EM_XCORE = 203,         // XMOS xCORE processor family
  EM_MCHP_PIC = 204,      // Microchip 8-bit PIC(r) family
  EM_INTEL205 = 205,      // Reserved by Intel
  EM_INTEL206 = 206,      // Reserved by Intel
  EM_INTEL207 = 207,      // Reserved by Intel
  EM_INTEL208 = 208,      // Reserved by Intel
  EM_INTEL209 = 209,      // Reserved by Intel
  EM_KM32 = 210,          // KM211 KM32 32-bit processor
  EM_KMX32 = 211,         // KM211 KMX32 32-bit processor
  EM_KMX16 = 212,         // KM211 KMX16 16-bit processor
  EM_KMX8 = 213,          // KM211 KMX8 8-bit processor
  EM_KVARC = 214,         // KM211 KVARC processor
  EM_CDP = 215,           // Paneve CDP architecture family
  EM_COGE = 216,          // Cognitive Smart Memory Processor
  EM_COOL = 217,          // iCelero CoolEngine
  EM_NORC = 218,          // Nanoradio Optimized RISC
  EM_CSR_KALIMBA = 219,   // CSR Kalimba architecture family
  EM_AMDGPU = 224,        // AMD GPU architecture
  EM_RISCV = 243,         // RISC-V
  EM_LANAI = 244,         // Lanai 32-bit processor
  EM_BPF = 247,           // Linux kernel bpf virtual machine
  EM_VE = 251,            // NEC SX-Aurora VE
  EM_CSKY = 252,          // C-SKY 32-bit processor
};

// Object file classes.
enum {
  ELFCLASSNONE = 0,
  ELFCLASS32 = 1, // 32-bit object file
  ELFCLASS64 = 2  // 64-bit object file
};

// Object file byte orderings.
enum {
  ELFDATANONE = 0, // Invalid data encoding.
  ELFDATA2LSB = 1, // Little-endian object file
  ELFDATA2MSB = 2  // Big-endian object file
};

// OS ABI identification.
enum {
  ELFOSABI_NONE = 0,           // UNIX System V ABI
  ELFOSABI_HPUX = 1,           // HP-UX operating system
  ELFOSABI_NETBSD = 2,         // NetBSD
  ELFOSABI_GNU = 3,            // GNU/Linux
  ELFOSABI_LINUX = 3,          // Historical alias for ELFOSABI_GNU.
  ELFOSABI_HURD = 4,           // GNU/Hurd
  ELFOSABI_SOLARIS = 6,        // Solaris
  ELFOSABI_AIX = 7,            // AIX
  ELFOSABI_IRIX = 8,           // IRIX
  ELFOSABI_FREEBSD = 9,        // FreeBSD
  ELFOSABI_TRU64 = 10,         // TRU64 UNIX
  ELFOSABI_MODESTO = 11,       // Novell Modesto
  ELFOSABI_OPENBSD = 12,       // OpenBSD
  ELFOSABI_OPENVMS = 13,       // OpenVMS
  ELFOSABI_NSK = 14,           // Hewlett-Packard Non-Stop Kernel
  ELFOSABI_AROS = 15,          // AROS
  ELFOSABI_FENIXOS = 16,       // FenixOS
  ELFOSABI_CLOUDABI = 17,      // Nuxi CloudABI
  ELFOSABI_FIRST_ARCH = 64,    // First architecture-specific OS ABI
  ELFOSABI_AMDGPU_HSA = 64,    // AMD HSA runtime
  ELFOSABI_AMDGPU_PAL = 65,    // AMD PAL runtime
  ELFOSABI_AMDGPU_MESA3D = 66, // AMD GCN GPUs (GFX6+) for MESA runtime
  ELFOSABI_ARM = 97,           // ARM
  ELFOSABI_C6000_ELFABI = 64,  // Bare-metal TMS320C6000
  ELFOSABI_C6000_LINUX = 65,   // Linux TMS320C6000
  ELFOSABI_STANDALONE = 255,   // Standalone (embedded) application
  ELFOSABI_LAST_ARCH = 255     // Last Architecture-specific OS ABI
};

// AMDGPU OS ABI Version identification.
enum {
  // ELFABIVERSION_AMDGPU_HSA_V1 does not exist because OS ABI identification
  // was never defined for V1.
  ELFABIVERSION_AMDGPU_HSA_V2 = 0,
  ELFABIVERSION_AMDGPU_HSA_V3 = 1,
  ELFABIVERSION_AMDGPU_HSA_V4 = 2,
  ELFABIVERSION_AMDGPU_HSA_V5 = 3
};

#define ELF_RELOC(name, value) name = value,

// X86_64 relocations.
enum {
#include "ELFRelocs/x86_64.def"
};

// i386 relocations.
enum {
#include "ELFRelocs/i386.def"
};

// ELF Relocation types for PPC32
enum {
#include "ELFRelocs/PowerPC.def"
};

// Specific e_flags for PPC64
enum {
  // e_flags bits specifying ABI:
  // 1 for original ABI using function descriptors,
  // 2 for revised ABI without function descriptors,
  // 0 for unspecified or not using any features affected by the differences.
  EF_PPC64_ABI = 3
};

// Special values for the st_other field in the symbol table entry for PPC64.
enum {
  STO_PPC64_LOCAL_BIT = 5,
  STO_PPC64_LOCAL_MASK = (7 << STO_PPC64_LOCAL_BIT)
};
static inline int64_t decodePPC64LocalEntryOffset(unsigned Other) {
  unsigned Val = (Other & STO_PPC64_LOCAL_MASK) >> STO_PPC64_LOCAL_BIT;
  return ((1 << Val) >> 2) << 2;
}

// ELF Relocation types for PPC64
enum {
#include "ELFRelocs/PowerPC64.def"
};

// ELF Relocation types for AArch64
enum {
#include "ELFRelocs/AArch64.def"
};

// Special values for the st_other field in the symbol table entry for AArch64.
enum {
  // Symbol may follow different calling convention than base PCS.
  STO_AARCH64_VARIANT_PCS = 0x80
};

// ARM Specific e_flags
enum : unsigned {
  EF_ARM_SOFT_FLOAT = 0x00000200U,     // Legacy pre EABI_VER5
  EF_ARM_ABI_FLOAT_SOFT = 0x00000200U, // EABI_VER5
  EF_ARM_VFP_FLOAT = 0x00000400U,      // Legacy pre EABI_VER5
  EF_ARM_ABI_FLOAT_HARD = 0x00000400U, // EABI_VER5
  EF_ARM_EABI_UNKNOWN = 0x00000000U,
  EF_ARM_EABI_VER1 = 0x01000000U,
  EF_ARM_EABI_VER2 = 0x02000000U,
  EF_ARM_EABI_VER3 = 0x03000000U,
  EF_ARM_EABI_VER4 = 0x04000000U,
  EF_ARM_EABI_VER5 = 0x05000000U,
  EF_ARM_EABIMASK = 0xFF000000U
};

// ELF Relocation types for ARM
enum {
#include "ELFRelocs/ARM.def"
};

// ARC Specific e_flags
enum : unsigned {
  EF_ARC_MACH_MSK = 0x000000ff,
  EF_ARC_OSABI_MSK = 0x00000f00,
  E_ARC_MACH_ARC600 = 0x00000002,
  E_ARC_MACH_ARC601 = 0x00000004,
  E_ARC_MACH_ARC700 = 0x00000003,
  EF_ARC_CPU_ARCV2EM = 0x00000005,
  EF_ARC_CPU_ARCV2HS = 0x00000006,
  E_ARC_OSABI_ORIG = 0x00000000,
  E_ARC_OSABI_V2 = 0x00000200,
  E_ARC_OSABI_V3 = 0x00000300,
  E_ARC_OSABI_V4 = 0x00000400,
  EF_ARC_PIC = 0x00000100
};

// ELF Relocation types for ARC
enum {
#include "ELFRelocs/ARC.def"
};

// AVR specific e_flags
enum : unsigned {
  EF_AVR_ARCH_AVR1 = 1,
  EF_AVR_ARCH_AVR2 = 2,
  EF_AVR_ARCH_AVR25 = 25,
  EF_AVR_ARCH_AVR3 = 3,
  EF_AVR_ARCH_AVR31 = 31,
  EF_AVR_ARCH_AVR35 = 35,
  EF_AVR_ARCH_AVR4 = 4,
  EF_AVR_ARCH_AVR5 = 5,
  EF_AVR_ARCH_AVR51 = 51,
  EF_AVR_ARCH_AVR6 = 6,
  EF_AVR_ARCH_AVRTINY = 100,
  EF_AVR_ARCH_XMEGA1 = 101,
  EF_AVR_ARCH_XMEGA2 = 102,
  EF_AVR_ARCH_XMEGA3 = 103,
  EF_AVR_ARCH_XMEGA4 = 104,
  EF_AVR_ARCH_XMEGA5 = 105,
  EF_AVR_ARCH_XMEGA6 = 106,
  EF_AVR_ARCH_XMEGA7 = 107,

  EF_AVR_ARCH_MASK = 0x7f, // EF_AVR_ARCH_xxx selection mask

  EF_AVR_LINKRELAX_PREPARED = 0x80, // The file is prepared for linker
                                    // relaxation to be applied
};

// ELF Relocation types for AVR
enum {
#include "ELFRelocs/AVR.def"
};

// Mips Specific e_flags
enum : unsigned {
  EF_MIPS_NOREORDER = 0x00000001, // Don't reorder instructions
  EF_MIPS_PIC = 0x00000002,       // Position independent code
  EF_MIPS_CPIC = 0x00000004,      // Call object with Position independent code
  EF_MIPS_ABI2 = 0x00000020,      // File uses N32 ABI
  EF_MIPS_32BITMODE = 0x00000100, // Code compiled for a 64-bit machine
                                  // in 32-bit mode
  EF_MIPS_FP64 = 0x00000200,      // Code compiled for a 32-bit machine
                                  // but uses 64-bit FP registers
  EF_MIPS_NAN2008 = 0x00000400,   // Uses IEE 754-2008 NaN encoding

  // ABI flags
  EF_MIPS_ABI_O32 = 0x00001000, // This file follows the first MIPS 32 bit ABI
  EF_MIPS_ABI_O64 = 0x00002000, // O32 ABI extended for 64-bit architecture.
  EF_MIPS_ABI_EABI32 = 0x00003000, // EABI in 32 bit mode.
  EF_MIPS_ABI_EABI64 = 0x00004000, // EABI in 64 bit mode.
  EF_MIPS_ABI = 0x0000f000,        // Mask for selecting EF_MIPS_ABI_ variant.

  // MIPS machine variant
  EF_MIPS_MACH_NONE = 0x00000000,    // A standard MIPS implementation.
  EF_MIPS_MACH_3900 = 0x00810000,    // Toshiba R3900
  EF_MIPS_MACH_4010 = 0x00820000,    // LSI R4010
  EF_MIPS_MACH_4100 = 0x00830000,    // NEC VR4100
  EF_MIPS_MACH_4650 = 0x00850000,    // MIPS R4650
  EF_MIPS_MACH_4120 = 0x00870000,    // NEC VR4120
  EF_MIPS_MACH_4111 = 0x00880000,    // NEC VR4111/VR4181
  EF_MIPS_MACH_SB1 = 0x008a0000,     // Broadcom SB-1
  EF_MIPS_MACH_OCTEON = 0x008b0000,  // Cavium Networks Octeon
  EF_MIPS_MACH_XLR = 0x008c0000,     // RMI Xlr
  EF_MIPS_MACH_OCTEON2 = 0x008d0000, // Cavium Networks Octeon2
  EF_MIPS_MACH_OCTEON3 = 0x008e0000, // Cavium Networks Octeon3
  EF_MIPS_MACH_5400 = 0x00910000,    // NEC VR5400
  EF_MIPS_MACH_5900 = 0x00920000,    // MIPS R5900
  EF_MIPS_MACH_5500 = 0x00980000,    // NEC VR5500
  EF_MIPS_MACH_9000 = 0x00990000,    // Unknown
  EF_MIPS_MACH_LS2E = 0x00a00000,    // ST Microelectronics Loongson 2E
  EF_MIPS_MACH_LS2F = 0x00a10000,    // ST Microelectronics Loongson 2F
  EF_MIPS_MACH_LS3A = 0x00a20000,    // Loongson 3A
  EF_MIPS_MACH = 0x00ff0000,         // EF_MIPS_MACH_xxx selection mask

  // ARCH_ASE
  EF_MIPS_MICROMIPS = 0x02000000,     // microMIPS
  EF_MIPS_ARCH_ASE_M16 = 0x04000000,  // Has Mips-16 ISA extensions
  EF_MIPS_ARCH_ASE_MDMX = 0x08000000, // Has MDMX multimedia extensions
  EF_MIPS_ARCH_ASE = 0x0f000000,      // Mask for EF_MIPS_ARCH_ASE_xxx flags

  // ARCH
  EF_MIPS_ARCH_1 = 0x00000000,    // MIPS1 instruction set
  EF_MIPS_ARCH_2 = 0x10000000,    // MIPS2 instruction set
  EF_MIPS_ARCH_3 = 0x20000000,    // MIPS3 instruction set
  EF_MIPS_ARCH_4 = 0x30000000,    // MIPS4 instruction set
  EF_MIPS_ARCH_5 = 0x40000000,    // MIPS5 instruction set
  EF_MIPS_ARCH_32 = 0x50000000,   // MIPS32 instruction set per linux not elf.h
  EF_MIPS_ARCH_64 = 0x60000000,   // MIPS64 instruction set per linux not elf.h
  EF_MIPS_ARCH_32R2 = 0x70000000, // mips32r2, mips32r3, mips32r5
  EF_MIPS_ARCH_64R2 = 0x80000000, // mips64r2, mips64r3, mips64r5
  EF_MIPS_ARCH_32R6 = 0x90000000, // mips32r6
  EF_MIPS_ARCH_64R6 = 0xa0000000, // mips64r6
  EF_MIPS_ARCH = 0xf0000000       // Mask for applying EF_MIPS_ARCH_ variant
};

// ELF Relocation types for Mips
enum {
#include "ELFRelocs/Mips.def"
};

// Special values for the st_other field in the symbol table entry for MIPS.
enum {
  STO_MIPS_OPTIONAL = 0x04,  // Symbol whose definition is optional
  STO_MIPS_PLT = 0x08,       // PLT entry related dynamic table record
  STO_MIPS_PIC = 0x20,       // PIC func in an object mixes PIC/non-PIC
  STO_MIPS_MICROMIPS = 0x80, // MIPS Specific ISA for MicroMips
  STO_MIPS_MIPS16 = 0xf0     // MIPS Specific ISA for Mips16
};

// .MIPS.options section descriptor kinds
enum {
  ODK_NULL = 0,       // Undefined
  ODK_REGINFO = 1,    // Register usage information
  ODK_EXCEPTIONS = 2, // Exception processing options
  ODK_PAD = 3,        // Section padding options
  ODK_HWPATCH = 4,    // Hardware patches applied
  ODK_FILL = 5,       // Linker fill value
  ODK_TAGS = 6,       // Space for tool identification
  ODK_HWAND = 7,      // Hardware AND patches applied
  ODK_HWOR = 8,       // Hardware OR patches applied
  ODK_GP_GROUP = 9,   // GP group to use for text/data sections
  ODK_IDENT = 10,     // ID information
  ODK_PAGESIZE = 11   // Page size information
};

// Hexagon-specific e_flags
enum {
  // Object processor version flags, bits[11:0]
  EF_HEXAGON_MACH_V2 = 0x00000001,   // Hexagon V2
  EF_HEXAGON_MACH_V3 = 0x00000002,   // Hexagon V3
  EF_HEXAGON_MACH_V4 = 0x00000003,   // Hexagon V4
  EF_HEXAGON_MACH_V5 = 0x00000004,   // Hexagon V5
  EF_HEXAGON_MACH_V55 = 0x00000005,  // Hexagon V55
  EF_HEXAGON_MACH_V60 = 0x00000060,  // Hexagon V60
  EF_HEXAGON_MACH_V62 = 0x00000062,  // Hexagon V62
  EF_HEXAGON_MACH_V65 = 0x00000065,  // Hexagon V65
  EF_HEXAGON_MACH_V66 = 0x00000066,  // Hexagon V66
  EF_HEXAGON_MACH_V67 = 0x00000067,  // Hexagon V67
  EF_HEXAGON_MACH_V67T = 0x00008067, // Hexagon V67T
  EF_HEXAGON_MACH_V68 = 0x00000068,  // Hexagon V68
  EF_HEXAGON_MACH_V69 = 0x00000069,  // Hexagon V69
  EF_HEXAGON_MACH = 0x000003ff,      // Hexagon V..

  // Highest ISA version flags
  EF_HEXAGON_ISA_MACH = 0x00000000, // Same as specified in bits[11:0]
                                    // of e_flags
  EF_HEXAGON_ISA_V2 = 0x00000010,   // Hexagon V2 ISA
  EF_HEXAGON_ISA_V3 = 0x00000020,   // Hexagon V3 ISA
  EF_HEXAGON_ISA_V4 = 0x00000030,   // Hexagon V4 ISA
  EF_HEXAGON_ISA_V5 = 0x00000040,   // Hexagon V5 ISA
  EF_HEXAGON_ISA_V55 = 0x00000050,  // Hexagon V55 ISA
  EF_HEXAGON_ISA_V60 = 0x00000060,  // Hexagon V60 ISA
  EF_HEXAGON_ISA_V62 = 0x00000062,  // Hexagon V62 ISA
  EF_HEXAGON_ISA_V65 = 0x00000065,  // Hexagon V65 ISA
  EF_HEXAGON_ISA_V66 = 0x00000066,  // Hexagon V66 ISA
  EF_HEXAGON_ISA_V67 = 0x00000067,  // Hexagon V67 ISA
  EF_HEXAGON_ISA_V68 = 0x00000068,  // Hexagon V68 ISA
  EF_HEXAGON_ISA_V69 = 0x00000069,  // Hexagon V69 ISA
  EF_HEXAGON_ISA = 0x000003ff,      // Hexagon V.. ISA
};

// Hexagon-specific section indexes for common small data
enum {
  SHN_HEXAGON_SCOMMON = 0xff00,   // Other access sizes
  SHN_HEXAGON_SCOMMON_1 = 0xff01, // Byte-sized access
  SHN_HEXAGON_SCOMMON_2 = 0xff02, // Half-word-sized access
  SHN_HEXAGON_SCOMMON_4 = 0xff03, // Word-sized access
  SHN_HEXAGON_SCOMMON_8 = 0xff04  // Double-word-size access
};

// ELF Relocation types for Hexagon
enum {
#include "ELFRelocs/Hexagon.def"
};

// ELF Relocation type for Lanai.
enum {
#include "ELFRelocs/Lanai.def"
};

// RISCV Specific e_flags
enum : unsigned {
  EF_RISCV_RVC = 0x0001,
  EF_RISCV_FLOAT_ABI = 0x0006,
  EF_RISCV_FLOAT_ABI_SOFT = 0x0000,
  EF_RISCV_FLOAT_ABI_SINGLE = 0x0002,
  EF_RISCV_FLOAT_ABI_DOUBLE = 0x0004,
  EF_RISCV_FLOAT_ABI_QUAD = 0x0006,
  EF_RISCV_RVE = 0x0008,
  EF_RISCV_TSO = 0x0010,
};

// ELF Relocation types for RISC-V
enum {
#include "ELFRelocs/RISCV.def"
};

enum {
  // Symbol may follow different calling convention than the standard calling
  // convention.
  STO_RISCV_VARIANT_CC = 0x80
};

// ELF Relocation types for S390/zSeries
enum {
#include "ELFRelocs/SystemZ.def"
};

// ELF Relocation type for Sparc.
enum {
#include "ELFRelocs/Sparc.def"
};

// AMDGPU specific e_flags.
enum : unsigned {
  // Processor selection mask for EF_AMDGPU_MACH_* values.
  EF_AMDGPU_MACH = 0x0ff,

  // Not specified processor.
  EF_AMDGPU_MACH_NONE = 0x000,

  // R600-based processors.

  // Radeon HD 2000/3000 Series (R600).
  EF_AMDGPU_MACH_R600_R600 = 0x001,
  EF_AMDGPU_MACH_R600_R630 = 0x002,
  EF_AMDGPU_MACH_R600_RS880 = 0x003,
  EF_AMDGPU_MACH_R600_RV670 = 0x004,
  // Radeon HD 4000 Series (R700).
  EF_AMDGPU_MACH_R600_RV710 = 0x005,
  EF_AMDGPU_MACH_R600_RV730 = 0x006,
  EF_AMDGPU_MACH_R600_RV770 = 0x007,
  // Radeon HD 5000 Series (Evergreen).
  EF_AMDGPU_MACH_R600_CEDAR = 0x008,
  EF_AMDGPU_MACH_R600_CYPRESS = 0x009,
  EF_AMDGPU_MACH_R600_JUNIPER = 0x00a,
  EF_AMDGPU_MACH_R600_REDWOOD = 0x00b,
  EF_AMDGPU_MACH_R600_SUMO = 0x00c,
  // Radeon HD 6000 Series (Northern Islands).
  EF_AMDGPU_MACH_R600_BARTS = 0x00d,
  EF_AMDGPU_MACH_R600_CAICOS = 0x00e,
  EF_AMDGPU_MACH_R600_CAYMAN = 0x00f,
  EF_AMDGPU_MACH_R600_TURKS = 0x010,

  // Reserved for R600-based processors.
  EF_AMDGPU_MACH_R600_RESERVED_FIRST = 0x011,
  EF_AMDGPU_MACH_R600_RESERVED_LAST = 0x01f,

  // First/last R600-based processors.
  EF_AMDGPU_MACH_R600_FIRST = EF_AMDGPU_MACH_R600_R600,
  EF_AMDGPU_MACH_R600_LAST = EF_AMDGPU_MACH_R600_TURKS,

  // AMDGCN-based processors.
  EF_AMDGPU_MACH_AMDGCN_GFX600        = 0x020,
  EF_AMDGPU_MACH_AMDGCN_GFX601        = 0x021,
  EF_AMDGPU_MACH_AMDGCN_GFX700        = 0x022,
  EF_AMDGPU_MACH_AMDGCN_GFX701        = 0x023,
  EF_AMDGPU_MACH_AMDGCN_GFX702        = 0x024,
  EF_AMDGPU_MACH_AMDGCN_GFX703        = 0x025,
  EF_AMDGPU_MACH_AMDGCN_GFX704        = 0x026,
  EF_AMDGPU_MACH_AMDGCN_RESERVED_0X27 = 0x027,
  EF_AMDGPU_MACH_AMDGCN_GFX801        = 0x028,
  EF_AMDGPU_MACH_AMDGCN_GFX802        = 0x029,
  EF_AMDGPU_MACH_AMDGCN_GFX803        = 0x02a,
  EF_AMDGPU_MACH_AMDGCN_GFX810        = 0x02b,
  EF_AMDGPU_MACH_AMDGCN_GFX900        = 0x02c,
  EF_AMDGPU_MACH_AMDGCN_GFX902        = 0x02d,
  EF_AMDGPU_MACH_AMDGCN_GFX904        = 0x02e,
  EF_AMDGPU_MACH_AMDGCN_GFX906        = 0x02f,
  EF_AMDGPU_MACH_AMDGCN_GFX908        = 0x030,
  EF_AMDGPU_MACH_AMDGCN_GFX909        = 0x031,
  EF_AMDGPU_MACH_AMDGCN_GFX90C        = 0x032,
  EF_AMDGPU_MACH_AMDGCN_GFX1010       = 0x033,
  EF_AMDGPU_MACH_AMDGCN_GFX1011       = 0x034,
  EF_AMDGPU_MACH_AMDGCN_GFX1012       = 0x035,
  EF_AMDGPU_MACH_AMDGCN_GFX1030       = 0x036,
  EF_AMDGPU_MACH_AMDGCN_GFX1031       = 0x037,
  EF_AMDGPU_MACH_AMDGCN_GFX1032       = 0x038,
  EF_AMDGPU_MACH_AMDGCN_GFX1033       = 0x039,
  EF_AMDGPU_MACH_AMDGCN_GFX602        = 0x03a,
  EF_AMDGPU_MACH_AMDGCN_GFX705        = 0x03b,
  EF_AMDGPU_MACH_AMDGCN_GFX805        = 0x03c,
  EF_AMDGPU_MACH_AMDGCN_GFX1035       = 0x03d,
  EF_AMDGPU_MACH_AMDGCN_GFX1034       = 0x03e,
  EF_AMDGPU_MACH_AMDGCN_GFX90A        = 0x03f,
  EF_AMDGPU_MACH_AMDGCN_RESERVED_0X40 = 0x040,
  EF_AMDGPU_MACH_AMDGCN_RESERVED_0X41 = 0x041,
  EF_AMDGPU_MACH_AMDGCN_GFX1013       = 0x042,
  EF_AMDGPU_MACH_AMDGCN_RESERVED_0X43 = 0x043,
  EF_AMDGPU_MACH_AMDGCN_RESERVED_0X44 = 0x044,
  EF_AMDGPU_MACH_AMDGCN_RESERVED_0X45 = 0x045,

  // First/last AMDGCN-based processors.
  EF_AMDGPU_MACH_AMDGCN_FIRST = EF_AMDGPU_MACH_AMDGCN_GFX600,
  EF_AMDGPU_MACH_AMDGCN_LAST = EF_AMDGPU_MACH_AMDGCN_RESERVED_0X45,

  // Indicates if the "xnack" target feature is enabled for all code contained
  // in the object.
  //
  // Only valid for ELFOSABI_AMDGPU_HSA and ELFABIVERSION_AMDGPU_HSA_V2.
  EF_AMDGPU_FEATURE_XNACK_V2 = 0x01,
  // Indicates if the trap handler is enabled for all code contained
  // in the object.
  //
  // Only valid for ELFOSABI_AMDGPU_HSA and ELFABIVERSION_AMDGPU_HSA_V2.
  EF_AMDGPU_FEATURE_TRAP_HANDLER_V2 = 0x02,

  // Indicates if the "xnack" target feature is enabled for all code contained
  // in the object.
  //
  // Only valid for ELFOSABI_AMDGPU_HSA and ELFABIVERSION_AMDGPU_HSA_V3.
  EF_AMDGPU_FEATURE_XNACK_V3 = 0x100,
  // Indicates if the "sramecc" target feature is enabled for all code
  // contained in the object.
  //
  // Only valid for ELFOSABI_AMDGPU_HSA and ELFABIVERSION_AMDGPU_HSA_V3.
  EF_AMDGPU_FEATURE_SRAMECC_V3 = 0x200,

  // XNACK selection mask for EF_AMDGPU_FEATURE_XNACK_* values.
  //
  // Only valid for ELFOSABI_AMDGPU_HSA and ELFABIVERSION_AMDGPU_HSA_V4.
  EF_AMDGPU_FEATURE_XNACK_V4 = 0x300,
  // XNACK is not supported.
  EF_AMDGPU_FEATURE_XNACK_UNSUPPORTED_V4 = 0x000,
  // XNACK is any/default/unspecified.
  EF_AMDGPU_FEATURE_XNACK_ANY_V4 = 0x100,
  // XNACK is off.
  EF_AMDGPU_FEATURE_XNACK_OFF_V4 = 0x200,
  // XNACK is on.
  EF_AMDGPU_FEATURE_XNACK_ON_V4 = 0x300,

  // SRAMECC selection mask for EF_AMDGPU_FEATURE_SRAMECC_* values.
  //
  // Only valid for ELFOSABI_AMDGPU_HSA and ELFABIVERSION_AMDGPU_HSA_V4.
  EF_AMDGPU_FEATURE_SRAMECC_V4 = 0xc00,
  // SRAMECC is not supported.
  EF_AMDGPU_FEATURE_SRAMECC_UNSUPPORTED_V4 = 0x000,
  // SRAMECC is any/default/unspecified.
  EF_AMDGPU_FEATURE_SRAMECC_ANY_V4 = 0x400,
  // SRAMECC is off.
  EF_AMDGPU_FEATURE_SRAMECC_OFF_V4 = 0x800,
  // SRAMECC is on.
  EF_AMDGPU_FEATURE_SRAMECC_ON_V4 = 0xc00,
};

// ELF Relocation types for AMDGPU
enum {
#include "ELFRelocs/AMDGPU.def"
};

// ELF Relocation types for BPF
enum {
#include "ELFRelocs/BPF.def"
};

// ELF Relocation types for M68k
enum {
#include "ELFRelocs/M68k.def"
};

// MSP430 specific e_flags
enum : unsigned {
  EF_MSP430_MACH_MSP430x11 = 11,
  EF_MSP430_MACH_MSP430x11x1 = 110,
  EF_MSP430_MACH_MSP430x12 = 12,
  EF_MSP430_MACH_MSP430x13 = 13,
  EF_MSP430_MACH_MSP430x14 = 14,
  EF_MSP430_MACH_MSP430x15 = 15,
  EF_MSP430_MACH_MSP430x16 = 16,
  EF_MSP430_MACH_MSP430x20 = 20,
  EF_MSP430_MACH_MSP430x22 = 22,
  EF_MSP430_MACH_MSP430x23 = 23,
  EF_MSP430_MACH_MSP430x24 = 24,
  EF_MSP430_MACH_MSP430x26 = 26,
  EF_MSP430_MACH_MSP430x31 = 31,
  EF_MSP430_MACH_MSP430x32 = 32,
  EF_MSP430_MACH_MSP430x33 = 33,
  EF_MSP430_MACH_MSP430x41 = 41,
  EF_MSP430_MACH_MSP430x42 = 42,
  EF_MSP430_MACH_MSP430x43 = 43,
  EF_MSP430_MACH_MSP430x44 = 44,
  EF_MSP430_MACH_MSP430X = 45,
  EF_MSP430_MACH_MSP430x46 = 46,
  EF_MSP430_MACH_MSP430x47 = 47,
  EF_MSP430_MACH_MSP430x54 = 54,
};

// ELF Relocation types for MSP430
enum {
#include "ELFRelocs/MSP430.def"
};

// ELF Relocation type for VE.
enum {
#include "ELFRelocs/VE.def"
};


// ELF Relocation types for CSKY
enum {
#include "ELFRelocs/CSKY.def"
};

#undef ELF_RELOC

// Section header.
struct Elf32_Shdr {
  Elf32_Word sh_name;      // Section name (index into string table)
  Elf32_Word sh_type;      // Section type (SHT_*)
  Elf32_Word sh_flags;     // Section flags (SHF_*)
  Elf32_Addr sh_addr;      // Address where section is to be loaded
  Elf32_Off sh_offset;     // File offset of section data, in bytes
  Elf32_Word sh_size;      // Size of section, in bytes
  Elf32_Word sh_link;      // Section type-specific header table index link
  Elf32_Word sh_info;      // Section type-specific extra information
  Elf32_Word sh_addralign; // Section address alignment
  Elf32_Word sh_entsize;   // Size of records contained within the section
};

// Section header for ELF64 - same fields as ELF32, different types.
struct Elf64_Shdr {
  Elf64_Word sh_name;
  Elf64_Word sh_type;
  Elf64_Xword sh_flags;
  Elf64_Addr sh_addr;
  Elf64_Off sh_offset;
  Elf64_Xword sh_size;
  Elf64_Word sh_link;
  Elf64_Word sh_info;
  Elf64_Xword sh_addralign;
  Elf64_Xword sh_entsize;
};

// Special section indices.
enum {
  SHN_UNDEF = 0,          // Undefined, missing, irrelevant, or meaningless
  SHN_LORESERVE = 0xff00, // Lowest reserved index
  SHN_LOPROC = 0xff00,    // Lowest processor-specific index
  SHN_HIPROC = 0xff1f,    // Highest processor-specific index
  SHN_LOOS = 0xff20,      // Lowest operating system-specific index
  SHN_HIOS = 0xff3f,      // Highest operating system-specific index
  SHN_ABS = 0xfff1,       // Symbol has absolute value; does not need relocation
  SHN_COMMON = 0xfff2,    // FORTRAN COMMON or C external global variables
  SHN_XINDEX = 0xffff,    // Mark that the index is >= SHN_LORESERVE
  SHN_HIRESERVE = 0xffff  // Highest reserved index
};

// Section types.
enum : unsigned {
  SHT_NULL = 0,           // No associated section (inactive entry).
  SHT_PROGBITS = 1,       // Program-defined contents.
  SHT_SYMTAB = 2,         // Symbol table.
  SHT_STRTAB = 3,         // String table.
  SHT_RELA = 4,           // Relocation entries; explicit addends.
  SHT_HASH = 5,           // Symbol hash table.
  SHT_DYNAMIC = 6,        // Information for dynamic linking.
  SHT_NOTE = 7,           // Information about the file.
  SHT_NOBITS = 8,         // Data occupies no space in the file.
  SHT_REL = 9,            // Relocation entries; no explicit addends.
  SHT_SHLIB = 10,         // Reserved.
  SHT_DYNSYM = 11,        // Symbol table.
  SHT_INIT_ARRAY = 14,    // Pointers to initialization functions.
  SHT_FINI_ARRAY = 15,    // Pointers to termination functions.
  SHT_PREINIT_ARRAY = 16, // Pointers to pre-init functions.
  SHT_GROUP = 17,         // Section group.
  SHT_SYMTAB_SHNDX = 18,  // Indices for SHN_XINDEX entries.
  // Experimental support for SHT_RELR sections. For details, see proposal
  // at https://groups.google.com/forum/#!topic/generic-abi/bX460iggiKg
  SHT_RELR = 19,         // Relocation entries; only offsets.
  SHT_LOOS = 0x60000000, // Lowest operating system-specific type.
  // Android packed relocation section types.
  // https://android.googlesource.com/platform/bionic/+/6f12bfece5dcc01325e0abba56a46b1bcf991c69/tools/relocation_packer/src/elf_file.cc#37
  SHT_ANDROID_REL = 0x60000001,
  SHT_ANDROID_RELA = 0x60000002,
  SHT_LLVM_ODRTAB = 0x6fff4c00,         // LLVM ODR table.
  SHT_LLVM_LINKER_OPTIONS = 0x6fff4c01, // LLVM Linker Options.
  SHT_LLVM_ADDRSIG = 0x6fff4c03,        // List of address-significant symbols
                                        // for safe ICF.
  SHT_LLVM_DEPENDENT_LIBRARIES =
      0x6fff4c04,                    // LLVM Dependent Library Specifiers.
  SHT_LLVM_SYMPART = 0x6fff4c05,     // Symbol partition specification.
  SHT_LLVM_PART_EHDR = 0x6fff4c06,   // ELF header for loadable partition.
  SHT_LLVM_PART_PHDR = 0x6fff4c07,   // Phdrs for loadable partition.
  SHT_LLVM_BB_ADDR_MAP = 0x6fff4c08, // LLVM Basic Block Address Map.
  SHT_LLVM_CALL_GRAPH_PROFILE = 0x6fff4c09, // LLVM Call Graph Profile.
  // Android's experimental support for SHT_RELR sections.
  // https://android.googlesource.com/platform/bionic/+/b7feec74547f84559a1467aca02708ff61346d2a/libc/include/elf.h#512
  SHT_ANDROID_RELR = 0x6fffff00,   // Relocation entries; only offsets.
  SHT_GNU_ATTRIBUTES = 0x6ffffff5, // Object attributes.
  SHT_GNU_HASH = 0x6ffffff6,       // GNU-style hash table.
  SHT_GNU_verdef = 0x6ffffffd,     // GNU version definitions.
  SHT_GNU_verneed = 0x6ffffffe,    // GNU version references.
  SHT_GNU_versym = 0x6fffffff,     // GNU symbol versions table.
  SHT_HIOS = 0x6fffffff,           // Highest operating system-specific type.
  SHT_LOPROC = 0x70000000,         // Lowest processor arch-specific type.
  // Fixme: All this is duplicated in MCSectionELF. Why??
  // Exception Index table
  SHT_ARM_EXIDX = 0x70000001U,
  // BPABI DLL dynamic linking pre-emption map
  SHT_ARM_PREEMPTMAP = 0x70000002U,
  //  Object file compatibility attributes
  SHT_ARM_ATTRIBUTES = 0x70000003U,
  SHT_ARM_DEBUGOVERLAY = 0x70000004U,
  SHT_ARM_OVERLAYSECTION = 0x70000005U,
  SHT_HEX_ORDERED = 0x70000000,   // Link editor is to sort the entries in
                                  // this section based on their sizes
  SHT_X86_64_UNWIND = 0x70000001, // Unwind information

  SHT_MIPS_REGINFO = 0x70000006,  // Register usage information
  SHT_MIPS_OPTIONS = 0x7000000d,  // General options
  SHT_MIPS_DWARF = 0x7000001e,    // DWARF debugging section.
  SHT_MIPS_ABIFLAGS = 0x7000002a, // ABI information.

  SHT_MSP430_ATTRIBUTES = 0x70000003U,

  SHT_RISCV_ATTRIBUTES = 0x70000003U,

  SHT_HIPROC = 0x7fffffff, // Highest processor arch-specific type.
  SHT_LOUSER = 0x80000000, // Lowest type reserved for applications.
  SHT_HIUSER = 0xffffffff  // Highest type reserved for applications.
};

// Section flags.
enum : unsigned {
  // Section data should be writable during execution.
  SHF_WRITE = 0x1,

  // Section occupies memory during program execution.
  SHF_ALLOC = 0x2,

  // Section contains executable machine instructions.
  SHF_EXECINSTR = 0x4,

  // The data in this section may be merged.
  SHF_MERGE = 0x10,

  // The data in this section is null-terminated strings.
  SHF_STRINGS = 0x20,

  // A field in this section holds a section header table index.
  SHF_INFO_LINK = 0x40U,

  // Adds special ordering requirements for link editors.
  SHF_LINK_ORDER = 0x80U,

  // This section requires special OS-specific processing to avoid incorrect
  // behavior.
  SHF_OS_NONCONFORMING = 0x100U,

  // This section is a member of a section group.
  SHF_GROUP = 0x200U,

  // This section holds Thread-Local Storage.
  SHF_TLS = 0x400U,

  // Identifies a section containing compressed data.
  SHF_COMPRESSED = 0x800U,

  // This section should not be garbage collected by the linker.
  SHF_GNU_RETAIN = 0x200000,

  // This section is excluded from the final executable or shared library.
  SHF_EXCLUDE = 0x80000000U,

  // Start of target-specific flags.

  SHF_MASKOS = 0x0ff00000,

  // Bits indicating processor-specific flags.
  SHF_MASKPROC = 0xf0000000,

  /// All sections with the "d" flag are grouped together by the linker to form
  /// the data section and the dp register is set to the start of the section by
  /// the boot code.
  XCORE_SHF_DP_SECTION = 0x10000000,

  /// All sections with the "c" flag are grouped together by the linker to form
  /// the constant pool and the cp register is set to the start of the constant
  /// pool by the boot code.
  XCORE_SHF_CP_SECTION = 0x20000000,

  // If an object file section does not have this flag set, then it may not hold
  // more than 2GB and can be freely referred to in objects using smaller code
  // models. Otherwise, only objects using larger code models can refer to them.
  // For example, a medium code model object can refer to data in a section that
  // sets this flag besides being able to refer to data in a section that does
  // not set it; likewise, a small code model object can refer only to code in a
  // section that does not set this flag.
  SHF_X86_64_LARGE = 0x10000000,

  // All sections with the GPREL flag are grouped into a global data area
  // for faster accesses
  SHF_HEX_GPREL = 0x10000000,

  // Section contains text/data which may be replicated in other sections.
  // Linker must retain only one copy.
  SHF_MIPS_NODUPES = 0x01000000,

  // Linker must generate implicit hidden weak names.
  SHF_MIPS_NAMES = 0x02000000,

  // Section data local to process.
  SHF_MIPS_LOCAL = 0x04000000,

  // Do not strip this section.
  SHF_MIPS_NOSTRIP = 0x08000000,

  // Section must be part of global data area.
  SHF_MIPS_GPREL = 0x10000000,

  // This section should be merged.
  SHF_MIPS_MERGE = 0x20000000,

  // Address size to be inferred from section entry size.
  SHF_MIPS_ADDR = 0x40000000,

  // Section data is string data by default.
  SHF_MIPS_STRING = 0x80000000,

  // Make code section unreadable when in execute-only mode
  SHF_ARM_PURECODE = 0x20000000
};

// Section Group Flags
enum : unsigned {
  GRP_COMDAT = 0x1,
  GRP_MASKOS = 0x0ff00000,
  GRP_MASKPROC = 0xf0000000
};

// Symbol table entries for ELF32.
struct Elf32_Sym {
  Elf32_Word st_name;     // Symbol name (index into string table)
  Elf32_Addr st_value;    // Value or address associated with the symbol
  Elf32_Word st_size;     // Size of the symbol
  unsigned char st_info;  // Symbol's type and binding attributes
  unsigned char st_other; // Must be zero; reserved
  Elf32_Half st_shndx;    // Which section (header table index) it's defined in

  // These accessors and mutators correspond to the ELF32_ST_BIND,
  // ELF32_ST_TYPE, and ELF32_ST_INFO macros defined in the ELF specification:
  unsigned char getBinding() const { return st_info >> 4; }
  unsigned char getType() const { return st_info & 0x0f; }
  void setBinding(unsigned char b) { setBindingAndType(b, getType()); }
  void setType(unsigned char t) { setBindingAndType(getBinding(), t); }
  void setBindingAndType(unsigned char b, unsigned char t) {
    st_info = (b << 4) + (t & 0x0f);
  }
};

// Symbol table entries for ELF64.
struct Elf64_Sym {
  Elf64_Word st_name;     // Symbol name (index into string table)
  unsigned char st_info;  // Symbol's type and binding attributes
  unsigned char st_other; // Must be zero; reserved
  Elf64_Half st_shndx;    // Which section (header tbl index) it's defined in
  Elf64_Addr st_value;    // Value or address associated with the symbol
  Elf64_Xword st_size;    // Size of the symbol

  // These accessors and mutators are identical to those defined for ELF32
  // symbol table entries.
  unsigned char getBinding() const { return st_info >> 4; }
  unsigned char getType() const { return st_info & 0x0f; }
  void setBinding(unsigned char b) { setBindingAndType(b, getType()); }
  void setType(unsigned char t) { setBindingAndType(getBinding(), t); }
  void setBindingAndType(unsigned char b, unsigned char t) {
    st_info = (b << 4) + (t & 0x0f);
  }
};

// The size (in bytes) of symbol table entries.
enum {
  SYMENTRY_SIZE32 = 16, // 32-bit symbol entry size
  SYMENTRY_SIZE64 = 24  // 64-bit symbol entry size.
};

// Symbol bindings.
enum {
  STB_LOCAL = 0,  // Local symbol, not visible outside obj file containing def
  STB_GLOBAL = 1, // Global symbol, visible to all object files being combined
  STB_WEAK = 2,   // Weak symbol, like global but lower-precedence
  STB_GNU_UNIQUE = 10,
  STB_LOOS = 10,   // Lowest operating system-specific binding type
  STB_HIOS = 12,   // Highest operating system-specific binding type
  STB_LOPROC = 13, // Lowest processor-specific binding type
  STB_HIPROC = 15  // Highest processor-specific binding type
};

// Symbol types.
enum {
  STT_NOTYPE = 0,     // Symbol's type is not specified
  STT_OBJECT = 1,     // Symbol is a data object (variable, array, etc.)
  STT_FUNC = 2,       // Symbol is executable code (function, etc.)
  STT_SECTION = 3,    // Symbol refers to a section
  STT_FILE = 4,       // Local, absolute symbol that refers to a file
  STT_COMMON = 5,     // An uninitialized common block
  STT_TLS = 6,        // Thread local data object
  STT_GNU_IFUNC = 10, // GNU indirect function
  STT_LOOS = 10,      // Lowest operating system-specific symbol type
  STT_HIOS = 12,      // Highest operating system-specific symbol type
  STT_LOPROC = 13,    // Lowest processor-specific symbol type
  STT_HIPROC = 15,    // Highest processor-specific symbol type

  // AMDGPU symbol types
  STT_AMDGPU_HSA_KERNEL = 10
};

enum {
  STV_DEFAULT = 0,  // Visibility is specified by binding type
  STV_INTERNAL = 1, // Defined by processor supplements
  STV_HIDDEN = 2,   // Not visible to other components
  STV_PROTECTED = 3 // Visible in other components but not preemptable
};

// Symbol number.
enum { STN_UNDEF = 0 };

// Special relocation symbols used in the MIPS64 ELF relocation entries
enum {
  RSS_UNDEF = 0, // None
  RSS_GP = 1,    // Value of gp
  RSS_GP0 = 2,   // Value of gp used to create object being relocated
  RSS_LOC = 3    // Address of location being relocated
};

// Relocation entry, without explicit addend.
struct Elf32_Rel {
  Elf32_Addr r_offset; // Location (file byte offset, or program virtual addr)
  Elf32_Word r_info;   // Symbol table index and type of relocation to apply

  // These accessors and mutators correspond to the ELF32_R_SYM, ELF32_R_TYPE,
  // and ELF32_R_INFO macros defined in the ELF specification:
  Elf32_Word getSymbol() const { return (r_info >> 8); }
  unsigned char getType() const { return (unsigned char)(r_info & 0x0ff); }
  void setSymbol(Elf32_Word s) { setSymbolAndType(s, getType()); }
  void setType(unsigned char t) { setSymbolAndType(getSymbol(), t); }
  void setSymbolAndType(Elf32_Word s, unsigned char t) {
    r_info = (s << 8) + t;
  }
};

// Relocation entry with explicit addend.
struct Elf32_Rela {
  Elf32_Addr r_offset;  // Location (file byte offset, or program virtual addr)
  Elf32_Word r_info;    // Symbol table index and type of relocation to apply
  Elf32_Sword r_addend; // Compute value for relocatable field by adding this

  // These accessors and mutators correspond to the ELF32_R_SYM, ELF32_R_TYPE,
  // and ELF32_R_INFO macros defined in the ELF specification:
  Elf32_Word getSymbol() const { return (r_info >> 8); }
  unsigned char getType() const { return (unsigned char)(r_info & 0x0ff); }
  void setSymbol(Elf32_Word s) { setSymbolAndType(s, getType()); }
  void setType(unsigned char t) { setSymbolAndType(getSymbol(), t); }
  void setSymbolAndType(Elf32_Word s, unsigned char t) {
    r_info = (s << 8) + t;
  }
};

// Relocation entry without explicit addend or info (relative relocations only).
typedef Elf32_Word Elf32_Relr; // offset/bitmap for relative relocations

// Relocation entry, without explicit addend.
struct Elf64_Rel {
  Elf64_Addr r_offset; // Location (file byte offset, or program virtual addr).
  Elf64_Xword r_info;  // Symbol table index and type of relocation to apply.

  // These accessors and mutators correspond to the ELF64_R_SYM, ELF64_R_TYPE,
  // and ELF64_R_INFO macros defined in the ELF specification:
  Elf64_Word getSymbol() const { return (r_info >> 32); }
  Elf64_Word getType() const { return (Elf64_Word)(r_info & 0xffffffffL); }
  void setSymbol(Elf64_Word s) { setSymbolAndType(s, getType()); }
  void setType(Elf64_Word t) { setSymbolAndType(getSymbol(), t); }
  void setSymbolAndType(Elf64_Word s, Elf64_Word t) {
    r_info = ((Elf64_Xword)s << 32) + (t & 0xffffffffL);
  }
};

// Relocation entry with explicit addend.
struct Elf64_Rela {
  Elf64_Addr r_offset; // Location (file byte offset, or program virtual addr).
  Elf64_Xword r_info;  // Symbol table index and type of relocation to apply.
  Elf64_Sxword r_addend; // Compute value for relocatable field by adding this.

  // These accessors and mutators correspond to the ELF64_R_SYM, ELF64_R_TYPE,
  // and ELF64_R_INFO macros defined in the ELF specification:
  Elf64_Word getSymbol() const { return (r_info >> 32); }
  Elf64_Word getType() const { return (Elf64_Word)(r_info & 0xffffffffL); }
  void setSymbol(Elf64_Word s) { setSymbolAndType(s, getType()); }
  void setType(Elf64_Word t) { setSymbolAndType(getSymbol(), t); }
  void setSymbolAndType(Elf64_Word s, Elf64_Word t) {
    r_info = ((Elf64_Xword)s << 32) + (t & 0xffffffffL);
  }
};

// Relocation entry without explicit addend or info (relative relocations only).
typedef Elf64_Xword Elf64_Relr; // offset/bitmap for relative relocations

// Program header for ELF32.
struct Elf32_Phdr {
  Elf32_Word p_type;   // Type of segment
  Elf32_Off p_offset;  // File offset where segment is located, in bytes
  Elf32_Addr p_vaddr;  // Virtual address of beginning of segment
  Elf32_Addr p_paddr;  // Physical address of beginning of segment (OS-specific)
  Elf32_Word p_filesz; // Num. of bytes in file image of segment (may be zero)
  Elf32_Word p_memsz;  // Num. of bytes in mem image of segment (may be zero)
  Elf32_Word p_flags;  // Segment flags
  Elf32_Word p_align;  // Segment alignment constraint
};

// Program header for ELF64.
struct Elf64_Phdr {
  Elf64_Word p_type;    // Type of segment
  Elf64_Word p_flags;   // Segment flags
  Elf64_Off p_offset;   // File offset where segment is located, in bytes
  Elf64_Addr p_vaddr;   // Virtual address of beginning of segment
  Elf64_Addr p_paddr;   // Physical addr of beginning of segment (OS-specific)
  Elf64_Xword p_filesz; // Num. of bytes in file image of segment (may be zero)
  Elf64_Xword p_memsz;  // Num. of bytes in mem image of segment (may be zero)
  Elf64_Xword p_align;  // Segment alignment constraint
};

// Segment types.
enum {
  PT_NULL = 0,            // Unused segment.
  PT_LOAD = 1,            // Loadable segment.
  PT_DYNAMIC = 2,         // Dynamic linking information.
  PT_INTERP = 3,          // Interpreter pathname.
  PT_NOTE = 4,            // Auxiliary information.
  PT_SHLIB = 5,           // Reserved.
  PT_PHDR = 6,            // The program header table itself.
  PT_TLS = 7,             // The thread-local storage template.
  PT_LOOS = 0x60000000,   // Lowest operating system-specific pt entry type.
  PT_HIOS = 0x6fffffff,   // Highest operating system-specific pt entry type.
  PT_LOPROC = 0x70000000, // Lowest processor-specific program hdr entry type.
  PT_HIPROC = 0x7fffffff, // Highest processor-specific program hdr entry type.

  // x86-64 program header types.
  // These all contain stack unwind tables.
  PT_GNU_EH_FRAME = 0x6474e550,
  PT_SUNW_EH_FRAME = 0x6474e550,
  PT_SUNW_UNWIND = 0x6464e550,

  PT_GNU_STACK = 0x6474e551,    // Indicates stack executability.
  PT_GNU_RELRO = 0x6474e552,    // Read-only after relocation.
  PT_GNU_PROPERTY = 0x6474e553, // .note.gnu.property notes sections.

  PT_OPENBSD_RANDOMIZE = 0x65a3dbe6, // Fill with random data.
  PT_OPENBSD_WXNEEDED = 0x65a3dbe7,  // Program does W^X violations.
  PT_OPENBSD_BOOTDATA = 0x65a41be6,  // Section for boot arguments.

  // ARM program header types.
  PT_ARM_ARCHEXT = 0x70000000, // Platform architecture compatibility info
  // These all contain stack unwind tables.
  PT_ARM_EXIDX = 0x70000001,
  PT_ARM_UNWIND = 0x70000001,

  // MIPS program header types.
  PT_MIPS_REGINFO = 0x70000000,  // Register usage information.
  PT_MIPS_RTPROC = 0x70000001,   // Runtime procedure table.
  PT_MIPS_OPTIONS = 0x70000002,  // Options segment.
  PT_MIPS_ABIFLAGS = 0x70000003, // Abiflags segment.
};

// Segment flag bits.
enum : unsigned {
  PF_X = 1,                // Execute
  PF_W = 2,                // Write
  PF_R = 4,                // Read
  PF_MASKOS = 0x0ff00000,  // Bits for operating system-specific semantics.
  PF_MASKPROC = 0xf0000000 // Bits for processor-specific semantics.
};

// Dynamic table entry for ELF32.
struct Elf32_Dyn {
  Elf32_Sword d_tag; // Type of dynamic table entry.
  union {
    Elf32_Word d_val; // Integer value of entry.
    Elf32_Addr d_ptr; // Pointer value of entry.
  } d_un;
};

// Dynamic table entry for ELF64.
struct Elf64_Dyn {
  Elf64_Sxword d_tag; // Type of dynamic table entry.
  union {
    Elf64_Xword d_val; // Integer value of entry.
    Elf64_Addr d_ptr;  // Pointer value of entry.
  } d_un;
};

// Dynamic table entry tags.
enum {
#define DYNAMIC_TAG(name, value) DT_##name = value,
#include "DynamicTags.def"
#undef DYNAMIC_TAG
};

// DT_FLAGS values.
enum {
  DF_ORIGIN = 0x01,    // The object may reference $ORIGIN.
  DF_SYMBOLIC = 0x02,  // Search the shared lib before searching the exe.
  DF_TEXTREL = 0x04,   // Relocations may modify a non-writable segment.
  DF_BIND_NOW = 0x08,  // Process all relocations on load.
  DF_STATIC_TLS = 0x10 // Reject attempts to load dynamically.
};

// State flags selectable in the `d_un.d_val' element of the DT_FLAGS_1 entry.
enum {
  DF_1_NOW = 0x00000001,       // Set RTLD_NOW for this object.
  DF_1_GLOBAL = 0x00000002,    // Set RTLD_GLOBAL for this object.
  DF_1_GROUP = 0x00000004,     // Set RTLD_GROUP for this object.
  DF_1_NODELETE = 0x00000008,  // Set RTLD_NODELETE for this object.
  DF_1_LOADFLTR = 0x00000010,  // Trigger filtee loading at runtime.
  DF_1_INITFIRST = 0x00000020, // Set RTLD_INITFIRST for this object.
  DF_1_NOOPEN = 0x00000040,    // Set RTLD_NOOPEN for this object.
  DF_1_ORIGIN = 0x00000080,    // $ORIGIN must be handled.
  DF_1_DIRECT = 0x00000100,    // Direct binding enabled.
  DF_1_TRANS = 0x00000200,
  DF_1_INTERPOSE = 0x00000400,  // Object is used to interpose.
  DF_1_NODEFLIB = 0x00000800,   // Ignore default lib search path.
  DF_1_NODUMP = 0x00001000,     // Object can't be dldump'ed.
  DF_1_CONFALT = 0x00002000,    // Configuration alternative created.
  DF_1_ENDFILTEE = 0x00004000,  // Filtee terminates filters search.
  DF_1_DISPRELDNE = 0x00008000, // Disp reloc applied at build time.
  DF_1_DISPRELPND = 0x00010000, // Disp reloc applied at run-time.
  DF_1_NODIRECT = 0x00020000,   // Object has no-direct binding.
  DF_1_IGNMULDEF = 0x00040000,
  DF_1_NOKSYMS = 0x00080000,
  DF_1_NOHDR = 0x00100000,
  DF_1_EDITED = 0x00200000, // Object is modified after built.
  DF_1_NORELOC = 0x00400000,
  DF_1_SYMINTPOSE = 0x00800000, // Object has individual interposers.
  DF_1_GLOBAUDIT = 0x01000000,  // Global auditing required.
  DF_1_SINGLETON = 0x02000000,  // Singleton symbols are used.
  DF_1_PIE = 0x08000000,        // Object is a position-independent executable.
};

// DT_MIPS_FLAGS values.
enum {
  RHF_NONE = 0x00000000,                   // No flags.
  RHF_QUICKSTART = 0x00000001,             // Uses shortcut pointers.
  RHF_NOTPOT = 0x00000002,                 // Hash size is not a power of two.
  RHS_NO_LIBRARY_REPLACEMENT = 0x00000004, // Ignore LD_LIBRARY_PATH.
  RHF_NO_MOVE = 0x00000008,                // DSO address may not be relocated.
  RHF_SGI_ONLY = 0x00000010,               // SGI specific features.
  RHF_GUARANTEE_INIT = 0x00000020,         // Guarantee that .init will finish
                                           // executing before any non-init
                                           // code in DSO is called.
  RHF_DELTA_C_PLUS_PLUS = 0x00000040,      // Contains Delta C++ code.
  RHF_GUARANTEE_START_INIT = 0x00000080,   // Guarantee that .init will start
                                           // executing before any non-init
                                           // code in DSO is called.
  RHF_PIXIE = 0x00000100,                  // Generated by pixie.
  RHF_DEFAULT_DELAY_LOAD = 0x00000200,     // Delay-load DSO by default.
  RHF_REQUICKSTART = 0x00000400,           // Object may be requickstarted
  RHF_REQUICKSTARTED = 0x00000800,         // Object has been requickstarted
  RHF_CORD = 0x00001000,                   // Generated by cord.
  RHF_NO_UNRES_UNDEF = 0x00002000,         // Object contains no unresolved
                                           // undef symbols.
  RHF_RLD_ORDER_SAFE = 0x00004000          // Symbol table is in a safe order.
};

// ElfXX_VerDef structure version (GNU versioning)
enum { VER_DEF_NONE = 0, VER_DEF_CURRENT = 1 };

// VerDef Flags (ElfXX_VerDef::vd_flags)
enum { VER_FLG_BASE = 0x1, VER_FLG_WEAK = 0x2, VER_FLG_INFO = 0x4 };

// Special constants for the version table. (SHT_GNU_versym/.gnu.version)
enum {
  VER_NDX_LOCAL = 0,       // Unversioned local symbol
  VER_NDX_GLOBAL = 1,      // Unversioned global symbol
  VERSYM_VERSION = 0x7fff, // Version Index mask
  VERSYM_HIDDEN = 0x8000   // Hidden bit (non-default version)
};

// ElfXX_VerNeed structure version (GNU versioning)
enum { VER_NEED_NONE = 0, VER_NEED_CURRENT = 1 };

// SHT_NOTE section types.

// Generic note types.
enum : unsigned {
  NT_VERSION = 1,
  NT_ARCH = 2,
  NT_GNU_BUILD_ATTRIBUTE_OPEN = 0x100,
  NT_GNU_BUILD_ATTRIBUTE_FUNC = 0x101,
};

// Core note types.
enum : unsigned {
  NT_PRSTATUS = 1,
  NT_FPREGSET = 2,
  NT_PRPSINFO = 3,
  NT_TASKSTRUCT = 4,
  NT_AUXV = 6,
  NT_PSTATUS = 10,
  NT_FPREGS = 12,
  NT_PSINFO = 13,
  NT_LWPSTATUS = 16,
  NT_LWPSINFO = 17,
  NT_WIN32PSTATUS = 18,

  NT_PPC_VMX = 0x100,
  NT_PPC_VSX = 0x102,
  NT_PPC_TAR = 0x103,
  NT_PPC_PPR = 0x104,
  NT_PPC_DSCR = 0x105,
  NT_PPC_EBB = 0x106,
  NT_PPC_PMU = 0x107,
  NT_PPC_TM_CGPR = 0x108,
  NT_PPC_TM_CFPR = 0x109,
  NT_PPC_TM_CVMX = 0x10a,
  NT_PPC_TM_CVSX = 0x10b,
  NT_PPC_TM_SPR = 0x10c,
  NT_PPC_TM_CTAR = 0x10d,
  NT_PPC_TM_CPPR = 0x10e,
  NT_PPC_TM_CDSCR = 0x10f,

  NT_386_TLS = 0x200,
  NT_386_IOPERM = 0x201,
  NT_X86_XSTATE = 0x202,

  NT_S390_HIGH_GPRS = 0x300,
  NT_S390_TIMER = 0x301,
  NT_S390_TODCMP = 0x302,
  NT_S390_TODPREG = 0x303,
  NT_S390_CTRS = 0x304,
  NT_S390_PREFIX = 0x305,
  NT_S390_LAST_BREAK = 0x306,
  NT_S390_SYSTEM_CALL = 0x307,
  NT_S390_TDB = 0x308,
  NT_S390_VXRS_LOW = 0x309,
  NT_S390_VXRS_HIGH = 0x30a,
  NT_S390_GS_CB = 0x30b,
  NT_S390_GS_BC = 0x30c,

  NT_ARM_VFP = 0x400,
  NT_ARM_TLS = 0x401,
  NT_ARM_HW_BREAK = 0x402,
  NT_ARM_HW_WATCH = 0x403,
  NT_ARM_SVE = 0x405,
  NT_ARM_PAC_MASK = 0x406,

  NT_FILE = 0x46494c45,
  NT_PRXFPREG = 0x46e62b7f,
  NT_SIGINFO = 0x53494749,
};

// LLVM-specific notes.
enum {
  NT_LLVM_HWASAN_GLOBALS = 3,
};

// GNU note types.
enum {
  NT_GNU_ABI_TAG = 1,
  NT_GNU_HWCAP = 2,
  NT_GNU_BUILD_ID = 3,
  NT_GNU_GOLD_VERSION = 4,
  NT_GNU_PROPERTY_TYPE_0 = 5,
};

// Property types used in GNU_PROPERTY_TYPE_0 notes.
enum : unsigned {
  GNU_PROPERTY_STACK_SIZE = 1,
  GNU_PROPERTY_NO_COPY_ON_PROTECTED = 2,
  GNU_PROPERTY_AARCH64_FEATURE_1_AND = 0xc0000000,
  GNU_PROPERTY_X86_FEATURE_1_AND = 0xc0000002,

  GNU_PROPERTY_X86_UINT32_OR_LO = 0xc0008000,
  GNU_PROPERTY_X86_FEATURE_2_NEEDED = GNU_PROPERTY_X86_UINT32_OR_LO + 1,
  GNU_PROPERTY_X86_ISA_1_NEEDED = GNU_PROPERTY_X86_UINT32_OR_LO + 2,

  GNU_PROPERTY_X86_UINT32_OR_AND_LO = 0xc0010000,
  GNU_PROPERTY_X86_FEATURE_2_USED = GNU_PROPERTY_X86_UINT32_OR_AND_LO + 1,
  GNU_PROPERTY_X86_ISA_1_USED = GNU_PROPERTY_X86_UINT32_OR_AND_LO + 2,
};

// aarch64 processor feature bits.
enum : unsigned {
  GNU_PROPERTY_AARCH64_FEATURE_1_BTI = 1 << 0,
  GNU_PROPERTY_AARCH64_FEATURE_1_PAC = 1 << 1,
};

// x86 processor feature bits.
enum : unsigned {
  GNU_PROPERTY_X86_FEATURE_1_IBT = 1 << 0,
  GNU_PROPERTY_X86_FEATURE_1_SHSTK = 1 << 1,

  GNU_PROPERTY_X86_FEATURE_2_X86 = 1 << 0,
  GNU_PROPERTY_X86_FEATURE_2_X87 = 1 << 1,
  GNU_PROPERTY_X86_FEATURE_2_MMX = 1 << 2,
  GNU_PROPERTY_X86_FEATURE_2_XMM = 1 << 3,
  GNU_PROPERTY_X86_FEATURE_2_YMM = 1 << 4,
  GNU_PROPERTY_X86_FEATURE_2_ZMM = 1 << 5,
  GNU_PROPERTY_X86_FEATURE_2_FXSR = 1 << 6,
  GNU_PROPERTY_X86_FEATURE_2_XSAVE = 1 << 7,
  GNU_PROPERTY_X86_FEATURE_2_XSAVEOPT = 1 << 8,
  GNU_PROPERTY_X86_FEATURE_2_XSAVEC = 1 << 9,

  GNU_PROPERTY_X86_ISA_1_BASELINE = 1 << 0,
  GNU_PROPERTY_X86_ISA_1_V2 = 1 << 1,
  GNU_PROPERTY_X86_ISA_1_V3 = 1 << 2,
  GNU_PROPERTY_X86_ISA_1_V4 = 1 << 3,
};

// FreeBSD note types.
enum {
  NT_FREEBSD_ABI_TAG = 1,
  NT_FREEBSD_NOINIT_TAG = 2,
  NT_FREEBSD_ARCH_TAG = 3,
  NT_FREEBSD_FEATURE_CTL = 4,
};

// NT_FREEBSD_FEATURE_CTL values (see FreeBSD's sys/sys/elf_common.h).
enum {
  NT_FREEBSD_FCTL_ASLR_DISABLE = 0x00000001,
  NT_FREEBSD_FCTL_PROTMAX_DISABLE = 0x00000002,
  NT_FREEBSD_FCTL_STKGAP_DISABLE = 0x00000004,
  NT_FREEBSD_FCTL_WXNEEDED = 0x00000008,
  NT_FREEBSD_FCTL_LA48 = 0x00000010,
  NT_FREEBSD_FCTL_ASG_DISABLE = 0x00000020,
};

// FreeBSD core note types.
enum {
  NT_FREEBSD_THRMISC = 7,
  NT_FREEBSD_PROCSTAT_PROC = 8,
  NT_FREEBSD_PROCSTAT_FILES = 9,
  NT_FREEBSD_PROCSTAT_VMMAP = 10,
  NT_FREEBSD_PROCSTAT_GROUPS = 11,
  NT_FREEBSD_PROCSTAT_UMASK = 12,
  NT_FREEBSD_PROCSTAT_RLIMIT = 13,
  NT_FREEBSD_PROCSTAT_OSREL = 14,
  NT_FREEBSD_PROCSTAT_PSSTRINGS = 15,
  NT_FREEBSD_PROCSTAT_AUXV = 16,
};

// NetBSD core note types.
enum {
  NT_NETBSDCORE_PROCINFO = 1,
  NT_NETBSDCORE_AUXV = 2,
  NT_NETBSDCORE_LWPSTATUS = 24,
};

// OpenBSD core note types.
enum {
  NT_OPENBSD_PROCINFO = 10,
  NT_OPENBSD_AUXV = 11,
  NT_OPENBSD_REGS = 20,
  NT_OPENBSD_FPREGS = 21,
  NT_OPENBSD_XFPREGS = 22,
  NT_OPENBSD_WCOOKIE = 23,
};

// AMDGPU-specific section indices.
enum {
  SHN_AMDGPU_LDS = 0xff00, // Variable in LDS; symbol encoded like SHN_COMMON
};

// AMD vendor specific notes. (Code Object V2)
enum {
  NT_AMD_HSA_CODE_OBJECT_VERSION = 1,
  NT_AMD_HSA_HSAIL = 2,
  NT_AMD_HSA_ISA_VERSION = 3,
  // Note types with values between 4 and 9 (inclusive) are reserved.
  NT_AMD_HSA_METADATA = 10,
  NT_AMD_HSA_ISA_NAME = 11,
  NT_AMD_PAL_METADATA = 12
};

// AMDGPU vendor specific notes. (Code Object V3)
enum {
  // Note types with values between 0 and 31 (inclusive) are reserved.
  NT_AMDGPU_METADATA = 32
};

// LLVMOMPOFFLOAD specific notes.
enum : unsigned {
  NT_LLVM_OPENMP_OFFLOAD_VERSION = 1,
  NT_LLVM_OPENMP_OFFLOAD_PRODUCER = 2,
  NT_LLVM_OPENMP_OFFLOAD_PRODUCER_VERSION = 3
};

enum {
  GNU_ABI_TAG_LINUX = 0,
  GNU_ABI_TAG_HURD = 1,
  GNU_ABI_TAG_SOLARIS = 2,
  GNU_ABI_TAG_FREEBSD = 3,
  GNU_ABI_TAG_NETBSD = 4,
  GNU_ABI_TAG_SYLLABLE = 5,
  GNU_ABI_TAG_NACL = 6,
};

constexpr const char *ELF_NOTE_GNU = "GNU";

// Android packed relocation group flags.
enum {
  RELOCATION_GROUPED_BY_INFO_FLAG = 1,
  RELOCATION_GROUPED_BY_OFFSET_DELTA_FLAG = 2,
  RELOCATION_GROUPED_BY_ADDEND_FLAG = 4,
  RELOCATION_GROUP_HAS_ADDEND_FLAG = 8,
};

// Compressed section header for ELF32.
struct Elf32_Chdr {
  Elf32_Word ch_type;
  Elf32_Word ch_size;
  Elf32_Word ch_addralign;
};

// Compressed section header for ELF64.
struct Elf64_Chdr {
  Elf64_Word ch_type;
  Elf64_Word ch_reserved;
  Elf64_Xword ch_size;
  Elf64_Xword ch_addralign;
};

// Note header for ELF32.
struct Elf32_Nhdr {
  Elf32_Word n_namesz;
  Elf32_Word n_descsz;
  Elf32_Word n_type;
};

// Note header for ELF64.
struct Elf64_Nhdr {
  Elf64_Word n_namesz;
  Elf64_Word n_descsz;
  Elf64_Word n_type;
};

// Legal values for ch_type field of compressed section header.
enum {
  ELFCOMPRESS_ZLIB = 1,            // ZLIB/DEFLATE algorithm.
  ELFCOMPRESS_LOOS = 0x60000000,   // Start of OS-specific.
  ELFCOMPRESS_HIOS = 0x6fffffff,   // End of OS-specific.
  ELFCOMPRESS_LOPROC = 0x70000000, // Start of processor-specific.
  ELFCOMPRESS_HIPROC = 0x7fffffff  // End of processor-specific.
};

/// Convert an architecture name into ELF's e_machine value.
uint16_t convertArchNameToEMachine(StringRef Arch);

/// Convert an ELF's e_machine value into an architecture name.
StringRef convertEMachineToArchName(uint16_t EMachine);

} // end namespace ELF
} // end namespace llvm

#endif // LLVM_BINARYFORMAT_ELF_H
