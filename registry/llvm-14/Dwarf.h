//===-- llvm/BinaryFormat/Dwarf.h ---Dwarf Constants-------------*- C++ -*-===//
//
// Part of the LLVM Project, under the Apache License v2.0 with LLVM Exceptions.
// See https://llvm.org/LICENSE.txt for license information.
// SPDX-License-Identifier: Apache-2.0 WITH LLVM-exception
//
//===----------------------------------------------------------------------===//
//
/// \file
/// This file contains constants used for implementing Dwarf
/// debug support.
///
/// For details on the Dwarf specfication see the latest DWARF Debugging
/// Information Format standard document on http://www.dwarfstd.org. This
/// file often includes support for non-released standard features.
//
//===----------------------------------------------------------------------===//

#ifndef LLVM_BINARYFORMAT_DWARF_H
#define LLVM_BINARYFORMAT_DWARF_H

#include "llvm/Support/Compiler.h"
#include "llvm/Support/DataTypes.h"
#include "llvm/Support/ErrorHandling.h"
#include "llvm/Support/Format.h"
#include "llvm/Support/FormatVariadicDetails.h"
#include "llvm/ADT/Triple.h"

#include <limits>

namespace llvm {
class StringRef;
template<typename T> class Optional;

namespace dwarf {


//===----------------------------------------------------------------------===//
// DWARF constants as gleaned from the DWARF Debugging Information Format V.5
// reference manual http://www.dwarfstd.org/.
//

// Do not mix the following two enumerations sets.  DW_TAG_invalid changes the
// enumeration base type.

enum LLVMConstants : uint32_t {
  /// LLVM mock tags (see also llvm/BinaryFormat/Dwarf.def).
  /// \{
  DW_TAG_invalid = ~0U,        ///< Tag for invalid results.
  DW_VIRTUALITY_invalid = ~0U, ///< Virtuality for invalid results.
  DW_MACINFO_invalid = ~0U,    ///< Macinfo type for invalid results.
  /// \}

  /// Special values for an initial length field.
  /// \{
  DW_LENGTH_lo_reserved = 0xfffffff0, ///< Lower bound of the reserved range.
  DW_LENGTH_DWARF64 = 0xffffffff,     ///< Indicator of 64-bit DWARF format.
  DW_LENGTH_hi_reserved = 0xffffffff, ///< Upper bound of the reserved range.
  /// \}

  /// Other constants.
  /// \{
  DWARF_VERSION = 4,       ///< Default dwarf version we output.
  DW_PUBTYPES_VERSION = 2, ///< Section version number for .debug_pubtypes.
  DW_PUBNAMES_VERSION = 2, ///< Section version number for .debug_pubnames.
  DW_ARANGES_VERSION = 2,  ///< Section version number for .debug_aranges.
  /// \}

  /// Identifiers we use to distinguish vendor extensions.
  /// \{
  DWARF_VENDOR_DWARF = 0, ///< Defined in v2 or later of the DWARF standard.
  DWARF_VENDOR_APPLE = 1,
  DWARF_VENDOR_BORLAND = 2,
  DWARF_VENDOR_GNU = 3,
  DWARF_VENDOR_GOOGLE = 4,
  DWARF_VENDOR_LLVM = 5,
  DWARF_VENDOR_MIPS = 6,
  DWARF_VENDOR_WASM = 7,
  DWARF_VENDOR_ALTIUM,
  DWARF_VENDOR_COMPAQ,
  DWARF_VENDOR_GHS,
  DWARF_VENDOR_GO,
  DWARF_VENDOR_HP,
  DWARF_VENDOR_IBM,
  DWARF_VENDOR_INTEL,
  DWARF_VENDOR_PGI,
  DWARF_VENDOR_SUN,
  DWARF_VENDOR_UPC,
  ///\}
};

/// Constants that define the DWARF format as 32 or 64 bit.
enum DwarfFormat : uint8_t { DWARF32, DWARF64 };

/// Special ID values that distinguish a CIE from a FDE in DWARF CFI.
/// Not inside an enum because a 64-bit value is needed.
/// @{
const uint32_t DW_CIE_ID = UINT32_MAX;
const uint64_t DW64_CIE_ID = UINT64_MAX;
/// @}

/// Identifier of an invalid DIE offset in the .debug_info section.
const uint32_t DW_INVALID_OFFSET = UINT32_MAX;

enum Tag : uint16_t {
#define HANDLE_DW_TAG(ID, NAME, VERSION, VENDOR, KIND) DW_TAG_##NAME = ID,
#include "llvm/BinaryFormat/Dwarf.def"
  DW_TAG_lo_user = 0x4080,
  DW_TAG_hi_user = 0xffff,
  DW_TAG_user_base = 0x1000 ///< Recommended base for user tags.
};

inline bool isType(Tag T) {
  switch (T) {
  default:
    return false;
#define HANDLE_DW_TAG(ID, NAME, VERSION, VENDOR, KIND)                         \
  case DW_TAG_##NAME:                                                          \
    return (KIND == DW_KIND_TYPE);
#include "llvm/BinaryFormat/Dwarf.def"
  }
}

/// Attributes.
enum Attribute : uint16_t {
#define HANDLE_DW_AT(ID, NAME, VERSION, VENDOR) DW_AT_##NAME = ID,
#include "llvm/BinaryFormat/Dwarf.def"
  DW_AT_lo_user = 0x2000,
  DW_AT_hi_user = 0x3fff,
};

enum Form : uint16_t {
#define HANDLE_DW_FORM(ID, NAME, VERSION, VENDOR) DW_FORM_##NAME = ID,
#include "llvm/BinaryFormat/Dwarf.def"
  DW_FORM_lo_user = 0x1f00, ///< Not specified by DWARF.
};

enum LocationAtom {
#define HANDLE_DW_OP(ID, NAME, VERSION, VENDOR) DW_OP_##NAME = ID,
#include "llvm/BinaryFormat/Dwarf.def"
  DW_OP_lo_user = 0xe0,
  DW_OP_hi_user = 0xff,
  DW_OP_LLVM_fragment = 0x1000,         ///< Only used in LLVM metadata.
  DW_OP_LLVM_convert = 0x1001,          ///< Only used in LLVM metadata.
  DW_OP_LLVM_tag_offset = 0x1002,       ///< Only used in LLVM metadata.
  DW_OP_LLVM_entry_value = 0x1003,      ///< Only used in LLVM metadata.
  DW_OP_LLVM_implicit_pointer = 0x1004, ///< Only used in LLVM metadata.
  DW_OP_LLVM_arg = 0x1005,              ///< Only used in LLVM metadata.
};

enum TypeKind : uint8_t {
#define HANDLE_DW_ATE(ID, NAME, VERSION, VENDOR) DW_ATE_##NAME = ID,
#include "llvm/BinaryFormat/Dwarf.def"
  DW_ATE_lo_user = 0x80,
  DW_ATE_hi_user = 0xff
};

enum DecimalSignEncoding {
  // Decimal sign attribute values
  DW_DS_unsigned = 0x01,
  DW_DS_leading_overpunch = 0x02,
  DW_DS_trailing_overpunch = 0x03,
  DW_DS_leading_separate = 0x04,
  DW_DS_trailing_separate = 0x05
};

enum EndianityEncoding {
  // Endianity attribute values
#define HANDLE_DW_END(ID, NAME) DW_END_##NAME = ID,
#include "llvm/BinaryFormat/Dwarf.def"
  DW_END_lo_user = 0x40,
  DW_END_hi_user = 0xff
};

enum AccessAttribute {
  // Accessibility codes
  DW_ACCESS_public = 0x01,
  DW_ACCESS_protected = 0x02,
  DW_ACCESS_private = 0x03
};

enum VisibilityAttribute {
  // Visibility codes
  DW_VIS_local = 0x01,
  DW_VIS_exported = 0x02,
  DW_VIS_qualified = 0x03
};

enum VirtualityAttribute {
#define HANDLE_DW_VIRTUALITY(ID, NAME) DW_VIRTUALITY_##NAME = ID,
#include "llvm/BinaryFormat/Dwarf.def"
  DW_VIRTUALITY_max = 0x02
};

enum DefaultedMemberAttribute {
#define HANDLE_DW_DEFAULTED(ID, NAME) DW_DEFAULTED_##NAME = ID,
#include "llvm/BinaryFormat/Dwarf.def"
  DW_DEFAULTED_max = 0x02
};

enum SourceLanguage {
#define HANDLE_DW_LANG(ID, NAME, LOWER_BOUND, VERSION, VENDOR)                 \
  DW_LANG_##NAME = ID,
#include "llvm/BinaryFormat/Dwarf.def"
  DW_LANG_lo_user = 0x8000,
  DW_LANG_hi_user = 0xffff
};

inline bool isCPlusPlus(SourceLanguage S) {
  bool result = false;
  // Deliberately enumerate all the language options so we get a warning when
  // new language options are added (-Wswitch) that'll hopefully help keep this
  // switch up-to-date when new C++ versions are added.
  switch (S) {
  case DW_LANG_C_plus_plus:
  case DW_LANG_C_plus_plus_03:
  case DW_LANG_C_plus_plus_11:
  case DW_LANG_C_plus_plus_14:
    result = true;
    break;
  case DW_LANG_C89:
  case DW_LANG_C:
  case DW_LANG_Ada83:
  case DW_LANG_Cobol74:
  case DW_LANG_Cobol85:
  case DW_LANG_Fortran77:
  case DW_LANG_Fortran90:
  case DW_LANG_Pascal83:
  case DW_LANG_Modula2:
  case DW_LANG_Java:
  case DW_LANG_C99:
  case DW_LANG_Ada95:
  case DW_LANG_Fortran95:
  case DW_LANG_PLI:
  case DW_LANG_ObjC:
  case DW_LANG_ObjC_plus_plus:
  case DW_LANG_UPC:
  case DW_LANG_D:
  case DW_LANG_Python:
  case DW_LANG_OpenCL:
  case DW_LANG_Go:
  case DW_LANG_Modula3:
  case DW_LANG_Haskell:
  case DW_LANG_OCaml:
  case DW_LANG_Rust:
  case DW_LANG_C11:
  case DW_LANG_Swift:
  case DW_LANG_Julia:
  case DW_LANG_Dylan:
  case DW_LANG_Fortran03:
  case DW_LANG_Fortran08:
  case DW_LANG_RenderScript:
  case DW_LANG_BLISS:
  case DW_LANG_Mips_Assembler:
  case DW_LANG_GOOGLE_RenderScript:
  case DW_LANG_BORLAND_Delphi:
  case DW_LANG_lo_user:
  case DW_LANG_hi_user:
    result = false;
    break;
  }

  return result;
}

inline bool isFortran(SourceLanguage S) {
  bool result = false;
  // Deliberately enumerate all the language options so we get a warning when
  // new language options are added (-Wswitch) that'll hopefully help keep this
  // switch up-to-date when new Fortran versions are added.
  switch (S) {
  case DW_LANG_Fortran77:
  case DW_LANG_Fortran90:
  case DW_LANG_Fortran95:
  case DW_LANG_Fortran03:
  case DW_LANG_Fortran08:
    result = true;
    break;
  case DW_LANG_C89:
  case DW_LANG_C:
  case DW_LANG_Ada83:
  case DW_LANG_C_plus_plus:
  case DW_LANG_Cobol74:
  case DW_LANG_Cobol85:
  case DW_LANG_Pascal83:
  case DW_LANG_Modula2:
  case DW_LANG_Java:
  case DW_LANG_C99:
  case DW_LANG_Ada95:
  case DW_LANG_PLI:
  case DW_LANG_ObjC:
  case DW_LANG_ObjC_plus_plus:
  case DW_LANG_UPC:
  case DW_LANG_D:
  case DW_LANG_Python:
  case DW_LANG_OpenCL:
  case DW_LANG_Go:
  case DW_LANG_Modula3:
  case DW_LANG_Haskell:
  case DW_LANG_C_plus_plus_03:
  case DW_LANG_C_plus_plus_11:
  case DW_LANG_OCaml:
  case DW_LANG_Rust:
  case DW_LANG_C11:
  case DW_LANG_Swift:
  case DW_LANG_Julia:
  case DW_LANG_Dylan:
  case DW_LANG_C_plus_plus_14:
  case DW_LANG_RenderScript:
  case DW_LANG_BLISS:
  case DW_LANG_Mips_Assembler:
  case DW_LANG_GOOGLE_RenderScript:
  case DW_LANG_BORLAND_Delphi:
  case DW_LANG_lo_user:
  case DW_LANG_hi_user:
    result = false;
    break;
  }

  return result;
}

enum CaseSensitivity {
  // Identifier case codes
  DW_ID_case_sensitive = 0x00,
  DW_ID_up_case = 0x01,
  DW_ID_down_case = 0x02,
  DW_ID_case_insensitive = 0x03
};

enum CallingConvention {
// Calling convention codes
#define HANDLE_DW_CC(ID, NAME) DW_CC_##NAME = ID,
#include "llvm/BinaryFormat/Dwarf.def"
  DW_CC_lo_user = 0x40,
  DW_CC_hi_user = 0xff
};

enum InlineAttribute {
  // Inline codes
  DW_INL_not_inlined = 0x00,
  DW_INL_inlined = 0x01,
  DW_INL_declared_not_inlined = 0x02,
  DW_INL_declared_inlined = 0x03
};

enum ArrayDimensionOrdering {
  // Array ordering
  DW_ORD_row_major = 0x00,
  DW_ORD_col_major = 0x01
};

enum DiscriminantList {
  // Discriminant descriptor values
  DW_DSC_label = 0x00,
  DW_DSC_range = 0x01
};

/// Line Number Standard Opcode Encodings.
enum LineNumberOps : uint8_t {
#define HANDLE_DW_LNS(ID, NAME) DW_LNS_##NAME = ID,
#include "llvm/BinaryFormat/Dwarf.def"
};

/// Line Number Extended Opcode Encodings.
enum LineNumberExtendedOps {
#define HANDLE_DW_LNE(ID, NAME) DW_LNE_##NAME = ID,
#include "llvm/BinaryFormat/Dwarf.def"
  DW_LNE_lo_user = 0x80,
  DW_LNE_hi_user = 0xff
};

enum LineNumberEntryFormat {
#define HANDLE_DW_LNCT(ID, NAME) DW_LNCT_##NAME = ID,
#include "llvm/BinaryFormat/Dwarf.def"
  DW_LNCT_lo_user = 0x2000,
  DW_LNCT_hi_user = 0x3fff,
};

enum MacinfoRecordType {
  // Macinfo Type Encodings
  DW_MACINFO_define = 0x01,
  DW_MACINFO_undef = 0x02,
  DW_MACINFO_start_file = 0x03,
  DW_MACINFO_end_file = 0x04,
  DW_MACINFO_vendor_ext = 0xff
};

/// DWARF v5 macro information entry type encodings.
enum MacroEntryType {
#define HANDLE_DW_MACRO(ID, NAME) DW_MACRO_##NAME = ID,
#include "llvm/BinaryFormat/Dwarf.def"
  DW_MACRO_lo_user = 0xe0,
  DW_MACRO_hi_user = 0xff
};

/// GNU .debug_macro macro information entry type encodings.
enum GnuMacroEntryType {
#define HANDLE_DW_MACRO_GNU(ID, NAME) DW_MACRO_GNU_##NAME = ID,
#include "llvm/BinaryFormat/Dwarf.def"
  DW_MACRO_GNU_lo_user = 0xe0,
  DW_MACRO_GNU_hi_user = 0xff
};

/// DWARF v5 range list entry encoding values.
enum RnglistEntries {
#define HANDLE_DW_RLE(ID, NAME) DW_RLE_##NAME = ID,
#include "llvm/BinaryFormat/Dwarf.def"
};

/// DWARF v5 loc list entry encoding values.
enum LoclistEntries {
#define HANDLE_DW_LLE(ID, NAME) DW_LLE_##NAME = ID,
#include "llvm/BinaryFormat/Dwarf.def"
};

/// Call frame instruction encodings.
enum CallFrameInfo {
#define HANDLE_DW_CFA(ID, NAME) DW_CFA_##NAME = ID,
#define HANDLE_DW_CFA_PRED(ID, NAME, ARCH) DW_CFA_##NAME = ID,
#include "llvm/BinaryFormat/Dwarf.def"
  DW_CFA_extended = 0x00,

  DW_CFA_lo_user = 0x1c,
  DW_CFA_hi_user = 0x3f
};

enum Constants {
  // Children flag
  DW_CHILDREN_no = 0x00,
  DW_CHILDREN_yes = 0x01,

  DW_EH_PE_absptr = 0x00,
  DW_EH_PE_omit = 0xff,
  DW_EH_PE_uleb128 = 0x01,
  DW_EH_PE_udata2 = 0x02,
  DW_EH_PE_udata4 = 0x03,
  DW_EH_PE_udata8 = 0x04,
  DW_EH_PE_sleb128 = 0x09,
  DW_EH_PE_sdata2 = 0x0A,
  DW_EH_PE_sdata4 = 0x0B,
  DW_EH_PE_sdata8 = 0x0C,
  DW_EH_PE_signed = 0x08,
  DW_EH_PE_pcrel = 0x10,
  DW_EH_PE_textrel = 0x20,
  DW_EH_PE_datarel = 0x30,
  DW_EH_PE_funcrel = 0x40,
  DW_EH_PE_aligned = 0x50,
  DW_EH_PE_indirect = 0x80
};

/// Constants for the DW_APPLE_PROPERTY_attributes attribute.
/// Keep this list in sync with clang's DeclObjCCommon.h
/// ObjCPropertyAttribute::Kind!
enum ApplePropertyAttributes {
#define HANDLE_DW_APPLE_PROPERTY(ID, NAME) DW_APPLE_PROPERTY_##NAME = ID,
#include "llvm/BinaryFormat/Dwarf.def"
};

/// Constants for unit types in DWARF v5.
enum UnitType : unsigned char {
#define HANDLE_DW_UT(ID, NAME) DW_UT_##NAME = ID,
#include "llvm/BinaryFormat/Dwarf.def"
  DW_UT_lo_user = 0x80,
  DW_UT_hi_user = 0xff
};

enum Index {
#define HANDLE_DW_IDX(ID, NAME) DW_IDX_##NAME = ID,
#include "llvm/BinaryFormat/Dwarf.def"
  DW_IDX_lo_user = 0x2000,
  DW_IDX_hi_user = 0x3fff
};

inline bool isUnitType(uint8_t UnitType) {
  switch (UnitType) {
  case DW_UT_compile:
  case DW_UT_type:
  case DW_UT_partial:
  case DW_UT_skeleton:
  case DW_UT_split_compile:
  case DW_UT_split_type:
    return true;
  default:
    return false;
  }
}

inline bool isUnitType(dwarf::Tag T) {
  switch (T) {
  case DW_TAG_compile_unit:
  case DW_TAG_type_unit:
  case DW_TAG_partial_unit:
  case DW_TAG_skeleton_unit:
    return true;
  default:
    return false;
  }
}

// Constants for the DWARF v5 Accelerator Table Proposal
enum AcceleratorTable {
  // Data layout descriptors.
  DW_ATOM_null = 0u,       ///  Marker as the end of a list of atoms.
  DW_ATOM_die_offset = 1u, // DIE offset in the debug_info section.
  DW_ATOM_cu_offset = 2u, // Offset of the compile unit header that contains the
                          // item in question.
  DW_ATOM_die_tag = 3u,   // A tag entry.
  DW_ATOM_type_flags = 4u, // Set of flags for a type.

  DW_ATOM_type_type_flags = 5u, // Dsymutil type extension.
  DW_ATOM_qual_name_hash = 6u,  // Dsymutil qualified hash extension.

  // DW_ATOM_type_flags values.

  // Always set for C++, only set for ObjC if this is the @implementation for a
  // class.
  DW_FLAG_type_implementation = 2u,

  // Hash functions.

  // Daniel J. Bernstein hash.
  DW_hash_function_djb = 0u
};

// Constants for the GNU pubnames/pubtypes extensions supporting gdb index.
enum GDBIndexEntryKind {
  GIEK_NONE,
  GIEK_TYPE,
  GIEK_VARIABLE,
  GIEK_FUNCTION,
  GIEK_OTHER,
  GIEK_UNUSED5,
  GIEK_UNUSED6,
  GIEK_UNUSED7
};

enum GDBIndexEntryLinkage { GIEL_EXTERNAL, GIEL_STATIC };

/// \defgroup DwarfConstantsDumping Dwarf constants dumping functions
///
/// All these functions map their argument's value back to the
/// corresponding enumerator name or return an empty StringRef if the value
/// isn't known.
///
/// @{
StringRef TagString(unsigned Tag);
StringRef ChildrenString(unsigned Children);
StringRef AttributeString(unsigned Attribute);
StringRef FormEncodingString(unsigned Encoding);
StringRef OperationEncodingString(unsigned Encoding);
StringRef AttributeEncodingString(unsigned Encoding);
StringRef DecimalSignString(unsigned Sign);
StringRef EndianityString(unsigned Endian);
StringRef AccessibilityString(unsigned Access);
StringRef DefaultedMemberString(unsigned DefaultedEncodings);
StringRef VisibilityString(unsigned Visibility);
StringRef VirtualityString(unsigned Virtuality);
StringRef LanguageString(unsigned Language);
StringRef CaseString(unsigned Case);
StringRef ConventionString(unsigned Convention);
StringRef InlineCodeString(unsigned Code);
StringRef ArrayOrderString(unsigned Order);
StringRef LNStandardString(unsigned Standard);
StringRef LNExtendedString(unsigned Encoding);
StringRef MacinfoString(unsigned Encoding);
StringRef MacroString(unsigned Encoding);
StringRef GnuMacroString(unsigned Encoding);
StringRef RangeListEncodingString(unsigned Encoding);
StringRef LocListEncodingString(unsigned Encoding);
StringRef CallFrameString(unsigned Encoding, Triple::ArchType Arch);
StringRef ApplePropertyString(unsigned);
StringRef UnitTypeString(unsigned);
StringRef AtomTypeString(unsigned Atom);
StringRef GDBIndexEntryKindString(GDBIndexEntryKind Kind);
StringRef GDBIndexEntryLinkageString(GDBIndexEntryLinkage Linkage);
StringRef IndexString(unsigned Idx);
StringRef FormatString(DwarfFormat Format);
StringRef FormatString(bool IsDWARF64);
StringRef RLEString(unsigned RLE);
/// @}

/// \defgroup DwarfConstantsParsing Dwarf constants parsing functions
///
/// These functions map their strings back to the corresponding enumeration
/// value or return 0 if there is none, except for these exceptions:
///
/// \li \a getTag() returns \a DW_TAG_invalid on invalid input.
/// \li \a getVirtuality() returns \a DW_VIRTUALITY_invalid on invalid input.
/// \li \a getMacinfo() returns \a DW_MACINFO_invalid on invalid input.
///
/// @{
unsigned getTag(StringRef TagString);
unsigned getOperationEncoding(StringRef OperationEncodingString);
unsigned getVirtuality(StringRef VirtualityString);
unsigned getLanguage(StringRef LanguageString);
unsigned getCallingConvention(StringRef LanguageString);
unsigned getAttributeEncoding(StringRef EncodingString);
unsigned getMacinfo(StringRef MacinfoString);
unsigned getMacro(StringRef MacroString);
/// @}

/// \defgroup DwarfConstantsVersioning Dwarf version for constants
///
/// For constants defined by DWARF, returns the DWARF version when the constant
/// was first defined. For vendor extensions, if there is a version-related
/// policy for when to emit it, returns a version number for that policy.
/// Otherwise returns 0.
///
/// @{
unsigned TagVersion(Tag T);
unsigned AttributeVersion(Attribute A);
unsigned FormVersion(Form F);
unsigned OperationVersion(LocationAtom O);
unsigned AttributeEncodingVersion(TypeKind E);
unsigned LanguageVersion(SourceLanguage L);
/// @}

/// \defgroup DwarfConstantsVendor Dwarf "vendor" for constants
///
/// These functions return an identifier describing "who" defined the constant,
/// either the DWARF standard itself or the vendor who defined the extension.
///
/// @{
unsigned TagVendor(Tag T);
unsigned AttributeVendor(Attribute A);
unsigned FormVendor(Form F);
unsigned OperationVendor(LocationAtom O);
unsigned AttributeEncodingVendor(TypeKind E);
unsigned LanguageVendor(SourceLanguage L);
/// @}

Optional<unsigned> LanguageLowerBound(SourceLanguage L);

/// The size of a reference determined by the DWARF 32/64-bit format.
inline uint8_t getDwarfOffsetByteSize(DwarfFormat Format) {
  switch (Format) {
  case DwarfFormat::DWARF32:
    return 4;
  case DwarfFormat::DWARF64:
    return 8;
  }
  llvm_unreachable("Invalid Format value");
}

/// A helper struct providing information about the byte size of DW_FORM
/// values that vary in size depending on the DWARF version, address byte
/// size, or DWARF32/DWARF64.
struct FormParams {
  uint16_t Version;
  uint8_t AddrSize;
  DwarfFormat Format;
  /// True if DWARF v2 output generally uses relocations for references
  /// to other .debug_* sections.
  bool DwarfUsesRelocationsAcrossSections = false;

  /// The definition of the size of form DW_FORM_ref_addr depends on the
  /// version. In DWARF v2 it's the size of an address; after that, it's the
  /// size of a reference.
  uint8_t getRefAddrByteSize() const {
    if (Version == 2)
      return AddrSize;
    return getDwarfOffsetByteSize();
  }

  /// The size of a reference is determined by the DWARF 32/64-bit format.
  uint8_t getDwarfOffsetByteSize() const {
    return dwarf::getDwarfOffsetByteSize(Format);
  }

  explicit operator bool() const { return Version && AddrSize; }
};

/// Get the byte size of the unit length field depending on the DWARF format.
inline uint8_t getUnitLengthFieldByteSize(DwarfFormat Format) {
  switch (Format) {
  case DwarfFormat::DWARF32:
    return 4;
  case DwarfFormat::DWARF64:
    return 12;
  }
  llvm_unreachable("Invalid Format value");
}

/// Get the fixed byte size for a given form.
///
/// If the form has a fixed byte size, then an Optional with a value will be
/// returned. If the form is always encoded using a variable length storage
/// format (ULEB or SLEB numbers or blocks) then None will be returned.
///
/// \param Form DWARF form to get the fixed byte size for.
/// \param Params DWARF parameters to help interpret forms.
/// \returns Optional<uint8_t> value with the fixed byte size or None if
/// \p Form doesn't have a fixed byte size.
Optional<uint8_t> getFixedFormByteSize(dwarf::Form Form, FormParams Params);

/// Tells whether the specified form is defined in the specified version,
/// or is an extension if extensions are allowed.
bool isValidFormForVersion(Form F, unsigned Version, bool ExtensionsOk = true);

/// Returns the symbolic string representing Val when used as a value
/// for attribute Attr.
StringRef AttributeValueString(uint16_t Attr, unsigned Val);

/// Returns the symbolic string representing Val when used as a value
/// for atom Atom.
StringRef AtomValueString(uint16_t Atom, unsigned Val);

/// Describes an entry of the various gnu_pub* debug sections.
///
/// The gnu_pub* kind looks like:
///
/// 0-3  reserved
/// 4-6  symbol kind
/// 7    0 == global, 1 == static
///
/// A gdb_index descriptor includes the above kind, shifted 24 bits up with the
/// offset of the cu within the debug_info section stored in those 24 bits.
struct PubIndexEntryDescriptor {
  GDBIndexEntryKind Kind;
  GDBIndexEntryLinkage Linkage;
  PubIndexEntryDescriptor(GDBIndexEntryKind Kind, GDBIndexEntryLinkage Linkage)
      : Kind(Kind), Linkage(Linkage) {}
  /* implicit */ PubIndexEntryDescriptor(GDBIndexEntryKind Kind)
      : Kind(Kind), Linkage(GIEL_EXTERNAL) {}
  explicit PubIndexEntryDescriptor(uint8_t Value)
      : Kind(
            static_cast<GDBIndexEntryKind>((Value & KIND_MASK) >> KIND_OFFSET)),
        Linkage(static_cast<GDBIndexEntryLinkage>((Value & LINKAGE_MASK) >>
                                                  LINKAGE_OFFSET)) {}
  uint8_t toBits() const {
    return Kind << KIND_OFFSET | Linkage << LINKAGE_OFFSET;
  }

private:
  enum {
    KIND_OFFSET = 4,
    KIND_MASK = 7 << KIND_OFFSET,
    LINKAGE_OFFSET = 7,
    LINKAGE_MASK = 1 << LINKAGE_OFFSET
  };
};

template <typename Enum> struct EnumTraits : public std::false_type {};

template <> struct EnumTraits<Attribute> : public std::true_type {
  static constexpr char Type[3] = "AT";
  static constexpr StringRef (*StringFn)(unsigned) = &AttributeString;
};

template <> struct EnumTraits<Form> : public std::true_type {
  static constexpr char Type[5] = "FORM";
  static constexpr StringRef (*StringFn)(unsigned) = &FormEncodingString;
};

template <> struct EnumTraits<Index> : public std::true_type {
  static constexpr char Type[4] = "IDX";
  static constexpr StringRef (*StringFn)(unsigned) = &IndexString;
};

template <> struct EnumTraits<Tag> : public std::true_type {
  static constexpr char Type[4] = "TAG";
  static constexpr StringRef (*StringFn)(unsigned) = &TagString;
};

template <> struct EnumTraits<LineNumberOps> : public std::true_type {
  static constexpr char Type[4] = "LNS";
  static constexpr StringRef (*StringFn)(unsigned) = &LNStandardString;
};

template <> struct EnumTraits<LocationAtom> : public std::true_type {
  static constexpr char Type[3] = "OP";
  static constexpr StringRef (*StringFn)(unsigned) = &OperationEncodingString;
};

inline uint64_t computeTombstoneAddress(uint8_t AddressByteSize) {
  return std::numeric_limits<uint64_t>::max() >> (8 - AddressByteSize) * 8;
}

} // End of namespace dwarf

/// Dwarf constants format_provider
///
/// Specialization of the format_provider template for dwarf enums. Unlike the
/// dumping functions above, these format unknown enumerator values as
/// DW_TYPE_unknown_1234 (e.g. DW_TAG_unknown_ffff).
template <typename Enum>
struct format_provider<Enum, std::enable_if_t<dwarf::EnumTraits<Enum>::value>> {
  static void format(const Enum &E, raw_ostream &OS, StringRef Style) {
    StringRef Str = dwarf::EnumTraits<Enum>::StringFn(E);
    if (Str.empty()) {
      OS << "DW_" << dwarf::EnumTraits<Enum>::Type << "_unknown_"
         << llvm::format("%x", E);
    } else
      OS << Str;
  }
};
} // End of namespace llvm

#endif
