From PV Require Import Base.Outcome Base.Prim Spec.PrimSpec Proofs.PrimProofs
  Spec.C05Line Spec.C05Header Model.C05Kinds Model.C05LineProgram Model.C05Header
  Gen.C05Tables Proofs.C05Leb Proofs.C05Tables Proofs.C05Machine Proofs.C05Header.
From Coq Require Import ZifyBool.
Ltac Zify.zify_post_hook ::= Z.to_euclidean_division_equations.
Open Scope list_scope.
Open Scope Z_scope.


  Ltac legacy_tail h :=
      rewrite rd_uint_byte by lia; cbn [bind];
      rewrite rd_sint_byte by lia; cbn [bind];
      rewrite rd_uint_byte by lia; cbn [bind];
      rewrite rd_uint_byte by lia; cbn [bind];
      rewrite <- !app_assoc; cbn [app]; rewrite <- !app_assoc; cbn [app];
      match goal with Hstd : zlen (h_std_lengths h) = _ |- _ =>
        rewrite (take_exact (h_std_lengths h) _ (Z.to_nat (p_opcode_base (h_params h) - 1)))
          by (unfold zlen in Hstd; lia) end;
      cbn [of_opt bind];
      change (fun obj : list Z => match obj with [] => true | _ :: _ => false end) with is_nil;
      match goal with Hed : enc_list enc_dirname _ ?ed |- _ =>
        rewrite (rd_incdirs_valid _ ed _ Hed)
          by (pose proof (enc_list_len _ _ _ enc_dirname_len Hed); rewrite app_length; lia) end;
      cbn [of_opt bind];
      match goal with Hef : enc_list enc_file _ ?ef |- _ =>
        rewrite (rd_file_entries_valid _ ef _ Hef)
          by (pose proof (enc_list_len _ _ _ enc_file_len Hef); rewrite app_length; lia) end;
      cbn [bind]; unfold raw_view;
      match goal with |- context [5 <=? ?v] => replace (5 <=? v) with false by lia end;
      do 2 f_equal; destruct (h_params h); cbn [p_min_inst p_max_ops p_default_is_stmt p_line_base p_line_range p_opcode_base] in *.

Theorem parse_header_valid s h prog e tail :
  wf_header h = true -> ms_is64 s = h_is64 h ->
  enc_unit (ms_le s) h prog e ->
  initial_length_wf (zlen e - ilsz (h_is64 h)) (h_is64 h) = true ->
  exists body, enc_body (ms_le s) h body /\
    zlen e = ilsz (h_is64 h) + zlen (enc_prefix (ms_le s) h) + Z.of_nat (offsz (h_is64 h)) + zlen body + zlen prog /\
    parse_header s (e ++ tail) =
      Ok {| rh_view := raw_view h (zlen e - ilsz (h_is64 h)) (zlen body); rh_rest := prog ++ tail |}.
Proof.
  intros Hwf Hs64 (body & Hbody & He) Hil. exists body. split; [exact Hbody|].
  cbv zeta in He.
  set (le := ms_le s) in *.
  set (after_len := enc_prefix le h ++ int_encode le (offsz (h_is64 h)) (zlen body) ++ body ++ prog) in *.
  assert (Hlen : zlen e = ilsz (h_is64 h) + zlen after_len).
  { rewrite He, zlen_app, zlen_initial_length. reflexivity. }
  assert (Hal : zlen after_len = zlen (enc_prefix le h) + Z.of_nat (offsz (h_is64 h)) + zlen body + zlen prog).
  { unfold after_len. rewrite !zlen_app. unfold zlen at 2. rewrite int_encode_length. lia. }
  split; [lia|].
  replace (zlen e - ilsz (h_is64 h)) with (zlen after_len) in * by lia.
  destruct (wf_header_spec h Hwf) as (Hver & Hpar & Hmo & Hstd & Hasz & Hssz & Hv5).
  destruct (wf_params_spec _ Hpar) as (Hmi & Hmops & Hdis & Hlb & Hlr & Hob).
  assert (Hhl : 0 <= zlen body < 2 ^ (8 * Z.of_nat (offsz (h_is64 h)))).
  { pose proof (zlen_nonneg body). pose proof (zlen_nonneg prog). pose proof (zlen_nonneg (enc_prefix le h)).
    split; [lia|]. unfold initial_length_wf in Hil. destruct (h_is64 h); cbn [offsz] in *.
    - change (2 ^ (8 * Z.of_nat 8)) with (2 ^ 64). lia.
    - change (2 ^ (8 * Z.of_nat 4)) with 4294967296. lia. }
  remember (zlen after_len) as ul eqn:Eul. remember (zlen body) as hl eqn:Ehl.
  unfold parse_header. fold le. rewrite He, <- app_assoc.
  rewrite initial_length_valid by exact Hil. cbn [of_opt bind fst].
  unfold after_len, enc_prefix. rewrite <- !app_assoc.
  rewrite rd_uint_valid by (change (2 ^ (8 * Z.of_nat 2)) with 65536; lia). cbn [bind].
  rewrite !Z.geb_leb.
  destruct Hbody as (et & Het & ->).
  destruct (Z.leb_spec 5 (h_version h)) as [H5|H5].
  - (* version 5 *)
    admit.
  - (* versions 2-4 *)
    unfold enc_tables in Het. replace (h_version h <? 5) with true in Het by lia.
    destruct Het as (ed & ef & Hed & Hef & ->).
    cbn [app]. unfold offset_size. rewrite Hs64. fold (offsz (h_is64 h)).
    cbn [bind].
    rewrite rd_uint_valid by exact Hhl. cbn [bind].
    rewrite rd_uint_byte by lia. cbn [bind].
    assert (Hmo1 : (if 4 <=? h_version h then [p_max_ops (h_params h)] else []) ++ [] =
                   (if 4 <=? h_version h then [p_max_ops (h_params h)] else [])) by apply app_nil_r.
    destruct (Z.leb_spec 4 (h_version h)) as [H4|H4]; cbn [app].
    + rewrite rd_uint_byte by lia. cbn [bind]. legacy_tail h. Show.
    + assert (Hmo' : p_max_ops (h_params h) = 1) by lia. legacy_tail h.
      cbn [p_max_ops]. f_equal. lia.
Admitted.
