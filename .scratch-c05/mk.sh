#!/bin/bash
# usage: mk.sh target.vo ...
cd /verif && /venv/bin/python -c "
import sys; sys.path.insert(0,'.')
from tools.lib import framework as F
ok,out=F.step_make(sys.argv[1:]); print(ok); print(out[-3500:])" "$@"
