From PV Require Import Base.Bytes Spec.PrimSpec Proofs.PrimProofs Spec.C05Line.
From Coq Require Import ZifyBool.
Open Scope list_scope.
Open Scope Z_scope.
Goal forall v, - 2 ^ (7 * Z.of_nat 0 + 6) <= v < 2 ^ (7 * Z.of_nat 0 + 6) -> sleb_valid [v mod 128] v.
Proof.
  intros v Hv. change (2 ^ (7 * Z.of_nat 0 + 6)) with 64 in Hv.
    destruct (Z.ltb_spec v 0) as [Hn|Hp].
    Show.
    assert (v = v mod 128 - 128) by lia.
