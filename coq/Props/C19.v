(* Props/C19.v — property C19: opening arbitrary bytes fails only with ELFError;
   header enumeration terminates within bounds.  Only statements, closed by [exact];
   proofs live in Proofs/C19Proofs.v (part 1) and Proofs/C19Battery.v (part 2).
   Models: Model/C19Base.v (counting stream monad), Model/C19Ctor.v (ELFFile.__init__
   and everything it calls), Model/C19Battery.v (the enumeration battery). *)
From Coq Require Import String.
From PV Require Import Base.Bytes Base.Outcome Base.Fmt.
From PV Require Import Model.C19Base Model.C19Ctor Proofs.C19Proofs.

(* Part 1.  For EVERY byte string the constructor returns an object or raises ELFError /
   ELFParseError (both ELFError subclasses): no TypeError, OverflowError, ValueError... *)
Theorem C19_construct_total : forall bs, all_bytes bs = true ->
  match construct_model bs with
  | Ok _ => True | Err EElf => True | Err EParse => True | Err _ => False
  end.
Proof. exact construct_total. Qed.
Print Assumptions C19_construct_total.

(* The statement is false of the code before the two repairs (known_findings.d/C19.json):
   e_shstrndx = SHN_XINDEX with e_shoff beyond EOF raised TypeError ... *)
Theorem C19_construct_total_legacy_refuted :
  exists bs, all_bytes bs = true /\ ~ elf_outcome (construct_legacy bs).
Proof. exact construct_total_legacy_refuted. Qed.
Print Assumptions C19_construct_total_legacy_refuted.

Theorem C19_legacy_typeerror :
  all_bytes witness_xindex = true /\ construct_legacy witness_xindex = Err (EPy "TypeError").
Proof. exact legacy_typeerror. Qed.
Print Assumptions C19_legacy_typeerror.

(* ... and a compressed name-table header with sh_offset >= 2^63 raised OverflowError *)
Theorem C19_legacy_overflow :
  all_bytes witness_seek = true /\ construct_legacy witness_seek = Err (EPy "OverflowError").
Proof. exact legacy_overflow. Qed.
Print Assumptions C19_legacy_overflow.

(* non-vacuity: the model accepts a minimal well-formed image (so "always fail" is not
   what is being proved total), and the repaired outcomes on the two witnesses *)
Example C19_minimal_image_accepted :
  all_bytes minimal_ok = true /\
  match construct_model minimal_ok with Ok f => f_strtab f <> None | Err _ => False end.
Proof. split; vm_compute; [reflexivity|discriminate]. Qed.

Example C19_repaired_witnesses :
  construct_model witness_xindex = Err EElf /\ construct_model witness_seek = Err EParse.
Proof. split; [exact repaired_xindex|exact repaired_seek]. Qed.
