(* Props/C19.v — property C19: opening arbitrary bytes fails only with ELFError;
   header enumeration terminates within bounds.  Only statements, closed by [exact];
   proofs live in Proofs/C19Proofs.v (part 1) and Proofs/C19Battery.v (part 2).
   Models: Model/C19Base.v (counting stream monad), Model/C19Ctor.v (ELFFile.__init__
   and everything it calls), Model/C19Battery.v (the enumeration battery). *)
From Coq Require Import String.
From PV Require Import Base.Bytes Base.Outcome Base.Fmt.
From PV Require Import Model.C19Base Model.C19Ctor Model.C19Battery Proofs.C19Proofs Proofs.C19Battery.

(* Part 1.  For EVERY byte string the constructor returns an object or raises ELFError /
   ELFParseError (both ELFError subclasses): no TypeError, OverflowError, ValueError... *)
Theorem C19_construct_total : forall bs, all_bytes bs = true ->
  match construct_model bs with
  | Ok _ => True | Err EElf => True | Err EParse => True | Err _ => False
  end.
Proof. exact construct_total. Qed.
Print Assumptions C19_construct_total.

(* The statement is false of the code before the two repairs (known_findings.d/C19.json):
   e_shstrndx = SHN_XINDEX with e_shoff beyond EOF raised TypeError ... *)
Theorem C19_construct_total_legacy_refuted :
  exists bs, all_bytes bs = true /\ ~ elf_outcome (construct_legacy bs).
Proof. exact construct_total_legacy_refuted. Qed.
Print Assumptions C19_construct_total_legacy_refuted.

Theorem C19_legacy_typeerror :
  all_bytes witness_xindex = true /\ construct_legacy witness_xindex = Err (EPy "TypeError").
Proof. exact legacy_typeerror. Qed.
Print Assumptions C19_legacy_typeerror.

(* ... and a compressed name-table header with sh_offset >= 2^63 raised OverflowError *)
Theorem C19_legacy_overflow :
  all_bytes witness_seek = true /\ construct_legacy witness_seek = Err (EPy "OverflowError").
Proof. exact legacy_overflow. Qed.
Print Assumptions C19_legacy_overflow.

(* The same without any hypothesis: every list of integers taken mod 256 is a byte string. *)
Theorem C19_construct_total_any : forall l : list Z,
  match construct_model (map (fun z => (z mod 256)%Z) l) with
  | Ok _ => True | Err EElf => True | Err EParse => True | Err _ => False
  end.
Proof. exact construct_total_any. Qed.
Print Assumptions C19_construct_total_any.

(* Part 2.  Model/C19Battery.v runs ELFFile(stream) and then the enumeration battery
   (iter_sections with every section class, iter_segments incl. DynamicSegment's search through
   the sections, symbol counts, dynamic tags, notes incl. GNU properties, ELF/GNU hash symbol
   counts, version-needed/-defined chains with their auxiliaries) with every Python loop given the
   fuel |file| + 1.  For EVERY byte string no loop exhausts it: each loop ends, by returning or by
   raising, within |file| + 1 iterations, whatever counts, sizes, offsets and links the file holds. *)
Theorem C19_battery_terminates : forall bs, all_bytes bs = true -> fst (battery_model bs) <> Err EFuel.
Proof. exact battery_terminates. Qed.
Print Assumptions C19_battery_terminates.

Theorem C19_battery_terminates_any : forall l : list Z,
  fst (battery_model (map (fun z => (z mod 256)%Z) l)) <> Err EFuel.
Proof. exact battery_terminates_any. Qed.
Print Assumptions C19_battery_terminates_any.

(* False of the code before the repairs 690af1e and eedb89f (known_findings.d/C19.json): *)
Theorem C19_battery_terminates_legacy_refuted :
  exists bs, all_bytes bs = true /\ fst (battery_legacy bs) = Err EFuel.
Proof. exact battery_terminates_legacy_refuted. Qed.
Print Assumptions C19_battery_terminates_legacy_refuted.

(* ... iter_segments with e_phoff = 0, e_phentsize = 0 and a count taken from section 0 (129 bytes) *)
Theorem C19_legacy_segments_unbounded :
  all_bytes witness_segments = true /\ fst (battery_legacy witness_segments) = Err EFuel.
Proof. exact legacy_segments_unbounded. Qed.
Print Assumptions C19_legacy_segments_unbounded.

(* ... iter_versions on a chain whose last entry (vn_next = 0) is re-read sh_info times (291 bytes) *)
Theorem C19_legacy_versions_unbounded :
  all_bytes witness_versions = true /\ fst (battery_legacy witness_versions) = Err EFuel.
Proof. exact legacy_versions_unbounded. Qed.
Print Assumptions C19_legacy_versions_unbounded.

(* The loops one by one (b is any battery context over a byte string, built by the constructor). *)
Theorem C19_iter_sections_terminates : forall b, bgood b -> safe (collect_sections b) (fun _ => True).
Proof. exact safe_collect_sections. Qed.
Print Assumptions C19_iter_sections_terminates.

Theorem C19_iter_segments_terminates : forall b, bgood b -> safe (collect_segments b) (fun _ => True).
Proof. exact safe_collect_segments. Qed.
Print Assumptions C19_iter_segments_terminates.

Theorem C19_iter_tags_terminates : forall b offset lk loff,
  bgood b -> safe (iter_tags b offset lk loff) (fun _ => True).
Proof. exact safe_iter_tags. Qed.
Print Assumptions C19_iter_tags_terminates.

Theorem C19_iter_notes_terminates : forall b offset size,
  bgood b -> safe (iter_notes b offset size) (fun _ => True).
Proof. exact safe_iter_notes. Qed.
Print Assumptions C19_iter_notes_terminates.

Theorem C19_iter_versions_terminates : forall b s, bgood b -> safe (iter_versions b s) (fun _ => True).
Proof. exact safe_iter_versions. Qed.
Print Assumptions C19_iter_versions_terminates.

Theorem C19_gnu_hash_walk_terminates : forall b s, bgood b -> safe (gnu_hash_nsyms b s) (fun _ => True).
Proof. exact safe_gnu_hash_nsyms. Qed.
Print Assumptions C19_gnu_hash_walk_terminates.

(* Counters (ops = struct parses + string reads, what the harness measures on the real code):
   enumerating the tags of one dynamic table costs at most 2 * (|file| + 1) operations. *)
Theorem C19_iter_tags_linear : forall b offset lk loff c,
  bgood b ->
  (ops (snd (iter_tags b offset lk loff c)) <= ops c + 2 * (flen (bs_of b) + 1))%Z.
Proof. exact iter_tags_linear_bytes. Qed.
Print Assumptions C19_iter_tags_linear.

(* non-vacuity: the model accepts a minimal well-formed image (so "always fail" is not
   what is being proved total), and the repaired outcomes on the two witnesses *)
Example C19_minimal_image_accepted :
  all_bytes minimal_ok = true /\
  match construct_model minimal_ok with Ok f => f_strtab f <> None | Err _ => False end.
Proof. split; vm_compute; [reflexivity|discriminate]. Qed.

Example C19_repaired_witnesses :
  construct_model witness_xindex = Err EElf /\ construct_model witness_seek = Err EParse.
Proof. split; [exact repaired_xindex|exact repaired_seek]. Qed.

(* non-vacuity of part 2: on the two witnesses the repaired model runs the battery to its end and
   enumerates what is there (no segments; one version entry with one auxiliary) *)
Example C19_repaired_segments :
  match fst (battery_model witness_segments) with
  | Ok o => r_sections o = ([K_Null], None) /\ r_segments o = ([], None)
  | Err _ => False
  end.
Proof. exact repaired_segments. Qed.

Example C19_repaired_versions :
  match fst (battery_model witness_versions) with
  | Ok o => r_sections o = ([K_Null; K_StrTab; K_VerNeed], None) /\ r_versions o = [Ok (1, 1)%Z]
  | Err _ => False
  end.
Proof. exact repaired_versions. Qed.

(* non-vacuity of the per-loop theorems: the constructor establishes their hypothesis [bgood] *)
Example C19_bgood_satisfiable :
  match construct_model witness_versions with Ok f => bgood (mk_bctx f) | Err _ => False end.
Proof. exact bgood_witness. Qed.
