(* Props/C15.v — property C15: symbol-version sections resolve each symbol to its
   encoded version.  Only statements, closed by [exact]; proofs live in
   Proofs/C15Proofs.v.  Model: Model/C15GnuVersions.v (transliteration of
   elf/gnuversions.py and the section-construction glue of elf/elffile.py, decoding
   with the layouts regenerated from the live construct trees).  Spec:
   Spec/C15Versions.v (records linked by displacements at arbitrary positions of an
   arbitrary image, names in the linked string table, one half-word per symbol).

   Every theorem quantifies over ALL images [img] (byte lists) and ALL header tables
   that satisfy the boolean layout predicate — not over images made by an encoder:
   whatever lies between, before or after the records (padding, garbage, other
   records, overlapping chains) is unconstrained, the displacements are arbitrary,
   with ONE restriction that the standard itself makes: a next link of zero means
   "no further record", so the layout predicates ([verdef_chain], [verdaux_chain],
   [verneed_chain], [vernaux_chain] through [link_ok]) require a NON-ZERO vd_next /
   vn_next on every entry that has a successor and a non-zero vda_next / vna_next on
   every auxiliary that has a successor.  The link of the LAST entry and of the last
   auxiliary of each chain stays free (zero or any garbage).  A chain in which a zero
   link precedes further counted records is therefore outside the *_exact theorems;
   what the reader does there when the zero link sits on the chain's last entry and
   only the COUNT (sh_info, or an entry's vd_cnt / vn_cnt) is too large is stated by the four
   *_ended_at_zero_link theorems (behaviour of /repo commit eedb89f; C19 owns that finding). *)
From PV Require Import Base.Fmt Base.Outcome Base.Enum Gen.ElfLayouts Spec.ElfGabi Spec.C15Versions
     Model.C15GnuVersions Proofs.ElfLayoutFacts Proofs.C15Proofs.
Open Scope Z_scope.
Open Scope list_scope.

(* ---- data tie: the record layouts and the Enum table of the live code are the standard ones ---- *)
Theorem C15_layouts_standard : forall le is64,
  gen_Elf_Verdef le is64 = spec_Elf_Verdef le /\ gen_Elf_Verdaux le is64 = spec_Elf_Verdaux le /\
  gen_Elf_Verneed le is64 = spec_Elf_Verneed le /\ gen_Elf_Vernaux le is64 = spec_Elf_Vernaux le /\
  gen_Elf_Versym le is64 = spec_Elf_Versym le /\ gen_Elf_Sym le is64 = spec_Elf_Sym le is64.
Proof. exact layouts_standard. Qed.
Print Assumptions C15_layouts_standard.

Theorem C15_versym_enum_table : forall is64,
  exists id, bind_lookup (snd (versym_struct true is64)) "ndx" = Some (id, false)
             /\ table_lookup gen_enum_tables id = Some spec_versym_names.
Proof. exact gen_versym_enum_table. Qed.
Print Assumptions C15_versym_enum_table.

(* the layout predicate is met wherever a record sits: any prefix, any tail *)
Theorem C15_placed_anywhere : forall pre bs tail, placed (pre ++ bs ++ tail) (zlen pre) bs = true.
Proof. exact placed_app. Qed.
Print Assumptions C15_placed_anywhere.

(* ---- version definitions: entries and auxiliary chains in link order, names resolved ----
   [verdef_section_wf]: sh_info = number of entries; every non-last entry has vd_next <> 0 and every
   non-last auxiliary vda_next <> 0 (last links free). *)
Theorem C15_verdef_exact : forall le is64 img shdrs n defs,
  verdef_section_wf le img shdrs n defs = true ->
  file_verdef_versions le is64 img shdrs (Z.of_nat n) = Ok (map verdef_view defs)
  /\ file_num_versions is64 shdrs (Z.of_nat n) = Ok (zlen defs).
Proof. exact verdef_section_exact. Qed.
Print Assumptions C15_verdef_exact.

(* the same on the section object, for any header values (same non-zero-link restriction, it is
   part of [verdef_chain]) *)
Theorem C15_verdef_chain_exact : forall le is64 img h st defs,
  sh_info h = zlen defs ->
  verdef_chain le img (sh_offset st) (sh_offset h) defs = true ->
  verdef_iter_versions le is64 img h st = Ok (map verdef_view defs).
Proof. exact verdef_chain_exact. Qed.
Print Assumptions C15_verdef_chain_exact.

(* sh_info claims MORE entries than the chain holds and the chain's last entry carries vd_next = 0:
   the walk yields exactly the entries up to and including that one, whatever follows in the image *)
Theorem C15_verdef_ended_at_zero_link : forall le is64 img shdrs n defs,
  verdef_section_ended_wf le img shdrs n defs = true ->
  file_verdef_versions le is64 img shdrs (Z.of_nat n) = Ok (map verdef_view defs).
Proof. exact verdef_section_ended. Qed.
Print Assumptions C15_verdef_ended_at_zero_link.

(* ---- version requirements ----
   [verneed_section_wf]: sh_info = number of entries; every non-last entry has vn_next <> 0 and every
   non-last auxiliary vna_next <> 0 (last links free). *)
Theorem C15_verneed_exact : forall le is64 img shdrs n needs,
  verneed_section_wf le img shdrs n needs = true ->
  file_verneed_versions le is64 img shdrs (Z.of_nat n) = Ok (map verneed_view needs)
  /\ file_num_versions is64 shdrs (Z.of_nat n) = Ok (zlen needs).
Proof. exact verneed_section_exact. Qed.
Print Assumptions C15_verneed_exact.

Theorem C15_verneed_chain_exact : forall le is64 img h st needs,
  sh_info h = zlen needs ->
  verneed_chain le img (sh_offset st) (sh_offset h) needs = true ->
  verneed_iter_versions le is64 img h st = Ok (map verneed_view needs).
Proof. exact verneed_chain_exact. Qed.
Print Assumptions C15_verneed_chain_exact.

Theorem C15_verneed_ended_at_zero_link : forall le is64 img shdrs n needs,
  verneed_section_ended_wf le img shdrs n needs = true ->
  file_verneed_versions le is64 img shdrs (Z.of_nat n) = Ok (map verneed_view needs).
Proof. exact verneed_section_ended. Qed.
Print Assumptions C15_verneed_ended_at_zero_link.

(* the auxiliary iterator (GNUVersionSection._iter_version_auxiliaries, on the section object) asked for
   MORE auxiliaries than the chain holds, the chain's last auxiliary carrying a zero vda_next / vna_next:
   exactly the chain's auxiliaries are yielded *)
Theorem C15_verdaux_ended_at_zero_link : forall le is64 img st auxs off extra,
  ends_with_zero vda_next auxs = true ->
  verdaux_chain le img (sh_offset st) off auxs = true ->
  iter_version_auxiliaries (verdef_cfg le is64) img st (List.length auxs + extra) off
  = Ok (map verdaux_view auxs).
Proof. exact verdaux_chain_ended. Qed.
Print Assumptions C15_verdaux_ended_at_zero_link.

Theorem C15_vernaux_ended_at_zero_link : forall le is64 img st auxs off extra,
  ends_with_zero vna_next auxs = true ->
  vernaux_chain le img (sh_offset st) off auxs = true ->
  iter_version_auxiliaries (verneed_cfg le is64) img st (List.length auxs + extra) off
  = Ok (map vernaux_view auxs).
Proof. exact vernaux_chain_ended. Qed.
Print Assumptions C15_vernaux_ended_at_zero_link.

(* ---- the version-symbol table: one (index, name) per dynamic symbol ----
   The table's own size decides how many entries are yielded (sh_size / sh_entsize of the version
   section); entry i is paired with the name of symbol i.  The linked symbol table may hold MORE
   symbols than the version table has entries (a whole number of them); with equal counts this is
   "exactly one index per dynamic symbol". *)
Theorem C15_versym_exact : forall le is64 img shdrs n entries,
  versym_section_wf le is64 img shdrs n entries = true ->
  file_versym_symbols le is64 img shdrs (Z.of_nat n) = Ok (map versym_view entries)
  /\ file_versym_num_symbols is64 shdrs (Z.of_nat n) = Ok (zlen entries).
Proof. exact versym_section_exact. Qed.
Print Assumptions C15_versym_exact.

(* the reported half-word carries the index and the hidden bit *)
Theorem C15_versym_hidden_bit : forall v, versym_fits v = true ->
  versym_value v mod 32768 = vs_index v /\ (32768 <=? versym_value v) = vs_hidden v.
Proof. exact versym_value_split. Qed.
Print Assumptions C15_versym_hidden_bit.

(* ---- one file holding all three sections, each linked to its own string table: the model's answers are
   functions of (image, header table, section index) only, so every section's names come through that
   section's sh_link, independently of the other sections and of the order of the questions ---- *)
Theorem C15_one_file_sections_exact : forall le is64 img shdrs nd nn nv defs needs entries,
  verdef_section_wf le img shdrs nd defs = true ->
  verneed_section_wf le img shdrs nn needs = true ->
  versym_section_wf le is64 img shdrs nv entries = true ->
  file_verdef_versions le is64 img shdrs (Z.of_nat nd) = Ok (map verdef_view defs)
  /\ file_verneed_versions le is64 img shdrs (Z.of_nat nn) = Ok (map verneed_view needs)
  /\ file_versym_symbols le is64 img shdrs (Z.of_nat nv) = Ok (map versym_view entries).
Proof. exact one_file_sections_exact. Qed.
Print Assumptions C15_one_file_sections_exact.

(* the layout predicates are monotone in the image: a section certified on a prefix of a file is certified on
   the whole file, whatever follows (e.g. a section header table of 0xff00 or more entries at the end of it) *)
Theorem C15_section_wf_any_tail : forall le is64 img t shdrs,
  (forall n defs, verdef_section_wf le img shdrs n defs = true -> verdef_section_wf le (img ++ t) shdrs n defs = true)
  /\ (forall n needs, verneed_section_wf le img shdrs n needs = true -> verneed_section_wf le (img ++ t) shdrs n needs = true)
  /\ (forall n entries, versym_section_wf le is64 img shdrs n entries = true ->
                        versym_section_wf le is64 (img ++ t) shdrs n entries = true).
Proof. exact section_wf_any_tail. Qed.
Print Assumptions C15_section_wf_any_tail.

(* ---- resolving an index: the first entry in link order that carries it, else nothing ----
   (same domain: non-zero next links on all non-last entries and auxiliaries) *)
Theorem C15_verdef_get_version_exact : forall le is64 img shdrs n defs idx,
  verdef_section_wf le img shdrs n defs = true ->
  file_verdef_get_version le is64 img shdrs (Z.of_nat n) idx
  = Ok (option_map verdef_view (verdef_find idx defs)).
Proof. exact verdef_get_version_exact. Qed.
Print Assumptions C15_verdef_get_version_exact.

Theorem C15_verneed_get_version_exact : forall le is64 img shdrs n needs idx,
  verneed_section_wf le img shdrs n needs = true ->
  file_verneed_get_version le is64 img shdrs (Z.of_nat n) idx
  = Ok (option_map verneed_hit_view (verneed_find idx needs)).
Proof. exact verneed_get_version_exact. Qed.
Print Assumptions C15_verneed_get_version_exact.

(* what the two reference searches say *)
Theorem C15_verdef_find_first : forall idx defs d, verdef_find idx defs = Some d ->
  exists pre post, defs = pre ++ d :: post /\ vd_ndx d = idx /\ (forall x, In x pre -> vd_ndx x <> idx).
Proof. exact verdef_find_some. Qed.
Print Assumptions C15_verdef_find_first.

Theorem C15_verdef_find_nothing : forall idx defs,
  verdef_find idx defs = None <-> (forall d, In d defs -> vd_ndx d <> idx).
Proof. exact verdef_find_none. Qed.
Print Assumptions C15_verdef_find_nothing.

Theorem C15_verneed_find_carries : forall idx needs d a, verneed_find idx needs = Some (d, a) ->
  In d needs /\ In a (vn_auxs d) /\ vna_other a = idx.
Proof. exact verneed_find_some. Qed.
Print Assumptions C15_verneed_find_carries.

Theorem C15_verneed_find_nothing : forall idx needs,
  verneed_find idx needs = None <-> (forall d a, In d needs -> In a (vn_auxs d) -> vna_other a <> idx).
Proof. exact verneed_find_none. Qed.
Print Assumptions C15_verneed_find_nothing.

(* ---- has_indexes: some auxiliary has an index assigned; the memoised second call agrees ----
   (same domain: non-zero next links on all non-last entries and auxiliaries) *)
Theorem C15_has_indexes_exact : forall le is64 img shdrs n needs,
  verneed_section_wf le img shdrs n needs = true ->
  file_verneed_has_indexes le is64 img shdrs (Z.of_nat n)
  = Ok (Ok (verneed_has_indexes needs), Ok (verneed_has_indexes needs)).
Proof. exact has_indexes_exact. Qed.
Print Assumptions C15_has_indexes_exact.

(* ================= non-vacuity: concrete non-contiguous, padded images ================= *)
Definition ex_G (n : nat) : list Z := repeat 0xAA n.                       (* garbage filler *)
(* "\0lib.so\0V1\0V2\0": '' at 0, "lib.so" at 1, "V1" at 8, "V2" at 11 *)
Definition ex_strtab : list Z := [0; 108;105;98;46;115;111; 0; 86;49; 0; 86;50; 0].

(* big-endian definitions: entry 0 (2 auxiliaries, gaps of 5 and 3 bytes, garbage last vda_next),
   6 garbage bytes, entry 1 carrying index 2 with the hidden bit *)
Definition ex_d0 := mk_verdef 1 1 1 0x0d696910 25 50 [mk_verdaux 1 11 [108;105;98;46;115;111]; mk_verdaux 8 0xdeadbeef [86;49]].
Definition ex_d1 := mk_verdef 1 0 0x8002 0x0b792650 20 0 [mk_verdaux 11 0 [86;50]].
Definition ex_def_img : list Z :=
  ex_strtab ++ ex_G 2 ++ enc_verdef false ex_d0 ++ ex_G 5 ++ enc_verdaux false (mk_verdaux 1 11 []) ++ ex_G 3
  ++ enc_verdaux false (mk_verdaux 8 0xdeadbeef []) ++ ex_G 6 ++ enc_verdef false ex_d1
  ++ enc_verdaux false (mk_verdaux 11 0 []) ++ ex_G 2.
Definition ex_def_shdrs : list shdr :=
  [mk_shdr 0 0 0 0 0 0; mk_shdr SHT_GNU_verdef 16 80 0 2 2; mk_shdr SHT_STRTAB 0 14 0 0 0].
Example C15_ex_verdef :
  verdef_section_wf false ex_def_img ex_def_shdrs 1 [ex_d0; ex_d1] = true
  /\ verdef_find 0x8002 [ex_d0; ex_d1] = Some ex_d1 /\ verdef_find 2 [ex_d0; ex_d1] = None.
Proof. vm_compute. auto. Qed.

(* the same image under a header whose sh_info claims 5 entries: ex_d1's zero vd_next ends the walk.
   And a zero link in front of a counted successor is NOT a well-formed chain. *)
Definition ex_def_shdrs5 : list shdr :=
  [mk_shdr 0 0 0 0 0 0; mk_shdr SHT_GNU_verdef 16 80 0 2 5; mk_shdr SHT_STRTAB 0 14 0 0 0].
Example C15_ex_verdef_ended :
  verdef_section_ended_wf false ex_def_img ex_def_shdrs5 1 [ex_d0; ex_d1] = true
  /\ verdef_section_wf false ex_def_img ex_def_shdrs5 1 [ex_d0; ex_d1] = false
  /\ link_ok (vd_next ex_d1) [ex_d1] = false.
Proof. vm_compute. auto. Qed.

(* little-endian requirements: one file whose first auxiliary lies 14 garbage bytes behind the entry,
   the second 4 garbage bytes further; the second carries index 3 with the hidden bit; the string
   table comes AFTER the section *)
Definition ex_n0 := mk_verneed 1 1 30 0 [108;105;98;46;115;111]
  [mk_vernaux 0x0d696911 0 0 8 20 [86;49]; mk_vernaux 0x0d696912 0 0x8003 11 7 [86;50]].
Definition ex_need_img : list Z :=
  ex_G 7 ++ enc_verneed true ex_n0 ++ ex_G 14 ++ enc_vernaux true (mk_vernaux 0x0d696911 0 0 8 20 [])
  ++ ex_G 4 ++ enc_vernaux true (mk_vernaux 0x0d696912 0 0x8003 11 7 []) ++ ex_G 1 ++ ex_strtab.
Definition ex_need_shdrs : list shdr :=
  [mk_shdr SHT_STRTAB 74 14 0 0 0; mk_shdr SHT_GNU_verneed 7 66 0 0 1].
Example C15_ex_verneed :
  verneed_section_wf true ex_need_img ex_need_shdrs 1 [ex_n0] = true
  /\ verneed_has_indexes [ex_n0] = true
  /\ option_map (fun x => vna_name (snd x)) (verneed_find 0x8003 [ex_n0]) = Some 11
  /\ verneed_find 3 [ex_n0] = None.
Proof. vm_compute. auto. Qed.

(* a 32-bit little-endian version-symbol table of three symbols, the second hidden *)
Definition ex_s (name : Z) (str : list Z) := mk_dynsym name 1 2 0 0 0 7 0x1000 4 str.
Definition ex_entries : list (versym * dynsym) :=
  [(mk_versym 0 false, ex_s 0 []); (mk_versym 2 true, ex_s 8 [86;49]); (mk_versym 5 false, ex_s 1 [108;105;98;46;115;111])].
Definition ex_sym_img : list Z :=
  ex_strtab ++ ex_G 3 ++ enc_dynsym true false (ex_s 0 []) ++ enc_dynsym true false (ex_s 8 [])
  ++ enc_dynsym true false (ex_s 1 []) ++ ex_G 1
  ++ enc_versym true (mk_versym 0 false) ++ enc_versym true (mk_versym 2 true) ++ enc_versym true (mk_versym 5 false)
  ++ ex_G 2.
Definition ex_sym_shdrs : list shdr :=
  [mk_shdr 0 0 0 0 0 0; mk_shdr SHT_GNU_versym 66 6 2 2 0; mk_shdr SHT_DYNSYM 17 48 16 3 1; mk_shdr SHT_STRTAB 0 14 0 0 0].
Example C15_ex_versym :
  versym_section_wf true false ex_sym_img ex_sym_shdrs 1 ex_entries = true
  /\ map (fun e => versym_value (fst e)) ex_entries = [0; 0x8002; 5].
Proof. vm_compute. auto. Qed.
