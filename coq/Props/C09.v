(* Props/C09.v — property C09: dynamic linking information is exact, with or without
   section headers.  Only statements, closed by [exact]; proofs live in
   Proofs/C09Tables.v, C09Tags.v, C09Hash.v, C09Views.v, C09Relocs.v, C09Syms.v, C09Seg.v, C09History.v (C09Examples.v: the inputs of the Examples).
   Model: Model/C09Dynamic.v (transliteration of elf/dynamic.py, elf/hash.py
   get_number_of_symbols, the parts of elf/elffile.py, sections.py, relocation.py the
   Dynamic classes call; record layouts and decoding dicts are regenerated from the live
   code into Gen/ElfLayouts.v).  Meaning: Spec/C09Dyn.v (gABI dynamic section, hash
   tables, program header; GNU hash format). *)
From PV Require Import Base.Outcome Base.Fmt Base.Enum Gen.ElfLayouts Gen.C09Hash Spec.ElfGabi Spec.C09Dyn Model.C09Dynamic.
From PV Require Import Proofs.C09Tables Proofs.C09Tags Proofs.C09Hash Proofs.C09Views Proofs.C09Relocs Proofs.C09Syms Proofs.C09Seg Proofs.C09History Proofs.C09Examples.
Open Scope string_scope.
Open Scope list_scope.
Open Scope Z_scope.

(* ---- which d_tag dict: for EVERY e_machine and EI_OSABI value the dict ELFStructs._create_dyn
   builds (tabulated by the translator from the live objects) is the tag set of the platform:
   MIPS, AArch64, Solaris (unless the machine has its own set), common otherwise *)
Theorem C09_dtab_selection : forall machine osabi,
  table_of_id (dtab_id machine osabi) = Ok (spec_dtab machine osabi).
Proof. exact dtab_selection. Qed.
Print Assumptions C09_dtab_selection.

(* in each of the four tag sets every tag the library interprets stands for its gABI number and
   for no other (so DT_NULL terminates, DT_NEEDED/... carry strings, DT_STRTAB/... are pointers) *)
Theorem C09_dtab_names : forall kind val name v, In (val, name) spec_dt_names ->
  is_name (dec_enum (table_of_kind kind) v) name = (v =? val).
Proof. exact (fun k val name v H => dtab_names k val name H v). Qed.
Print Assumptions C09_dtab_names.

(* the string-valued tags the code handles are the standard's, DT_SUNW_FILTER on Solaris only *)
Theorem C09_handled_tags : forall machine osabi v,
  handled_tag (dec_enum (spec_dtab machine osabi) v) = string_tag (spec_is_solaris machine osabi) v.
Proof. exact handled_is_string_tag. Qed.
Print Assumptions C09_handled_tags.

(* every e_machine: the p_type / sh_type dicts give PT_LOAD, PT_DYNAMIC, SHT_STRTAB, SHT_DYNAMIC,
   SHT_NOBITS, SHT_DYNSYM their gABI numbers and only those *)
Theorem C09_open_tables : forall img f, elf_open img = Ok f ->
  f_img f = img /\
  f_dtab f = spec_dtab (e_machine (f_eh f)) (e_osabi (f_eh f)) /\
  (forall val name, In (val, name) spec_pt_names -> forall v, is_name (dec_enum (f_ptab f) v) name = (v =? val)) /\
  (forall val name, In (val, name) spec_sht_names -> forall v, is_name (dec_enum (f_stab f) v) name = (v =? val)).
Proof. exact elf_open_inv. Qed.
Print Assumptions C09_open_tables.

(* ---- tags_exact: ANY array of entries (both classes and byte orders, any tag numbers, duplicates
   kept, anything behind the terminator) placed at any offset of any image and followed by anything
   is iterated to exactly the entries up to and including the first DT_NULL *)
Theorem C09_tags_exact : forall f dy,
  dy_empty dy = false ->
  (forall v, is_name (dec_enum (f_dtab f) v) "DT_NULL" = (v =? DT_NULL)) ->
  forall es l (pre tail : list Z),
  forallb (dyn_fits (f_le f) (f_is64 f)) es = true ->
  cut_at_null es = Some l ->
  f_img f = pre ++ encode_dyns (f_le f) (f_is64 f) es ++ tail ->
  dy_off dy = zlen pre ->
  raw_tags f dy = Ok (map (raw_of (f_dtab f)) l).
Proof. exact raw_tags_exact. Qed.
Print Assumptions C09_tags_exact.

Example C09_tags_exact_nonvacuous :
  exists f dy es l pre tail,
    elf_open ex_img = Ok f /\ dy_empty dy = false /\
    forallb (dyn_fits (f_le f) (f_is64 f)) es = true /\ cut_at_null es = Some l /\
    f_img f = pre ++ encode_dyns (f_le f) (f_is64 f) es ++ tail /\ dy_off dy = zlen pre /\
    length l = 5%nat /\ length es = 6%nat /\ tail <> [] /\
    raw_tags f dy = Ok [(EN "DT_NEEDED", 1); (EN "DT_SONAME", 6); (EN "DT_STRTAB", 4368); (EN "DT_NEEDED", 1); (EN "DT_NULL", 0)].
Proof.
  exists ex_f, (mkDyn 176 false None), ex_dyn, (firstn 5 ex_dyn), ex_pre, (ex_strtab ++ ex_shdrs).
  vm_compute. repeat split; discriminate.
Qed.

(* ---- strings_resolved: a string-valued tag yields the NUL-terminated string at index d_val of the
   designated table, wherever the table lies and whatever follows it *)
Theorem C09_string_in_table : forall (pre tab tail : list Z) i s,
  str_at tab i = Some s -> cstring_or_empty (pre ++ tab ++ tail) (zlen pre + i) = s.
Proof. exact string_in_table. Qed.
Print Assumptions C09_string_in_table.

Theorem C09_strings_resolved : forall f st machine osabi (pre tab tail : list Z) l,
  f_dtab f = spec_dtab machine osabi ->
  f_img f = pre ++ tab ++ tail -> st_off st = zlen pre -> st_usable st = true ->
  strings_ok (spec_is_solaris machine osabi) tab l = true ->
  dynamic_tags f (Ok (Some st)) (map (raw_of (f_dtab f)) l)
  = Ok (map (expected_tag (f_dtab f) (spec_is_solaris machine osabi) tab) l).
Proof. exact dynamic_tags_exact. Qed.
Print Assumptions C09_strings_resolved.

(* iter_tags of a Dynamic object whose string table was given to the constructor (DynamicSection:
   the section its sh_link designates): exactly the entries with their strings *)
Theorem C09_iter_tags_linked : forall img f off st es l (pre tail pre2 tab tail2 : list Z),
  elf_open img = Ok f ->
  forallb (dyn_fits (f_le f) (f_is64 f)) es = true -> cut_at_null es = Some l ->
  img = pre ++ encode_dyns (f_le f) (f_is64 f) es ++ tail -> off = zlen pre ->
  img = pre2 ++ tab ++ tail2 -> st_off st = zlen pre2 -> st_usable st = true ->
  strings_ok (spec_is_solaris (e_machine (f_eh f)) (e_osabi (f_eh f))) tab l = true ->
  view_tags f (mkDyn off false (Some st))
  = Ok (map (expected_tag (f_dtab f) (spec_is_solaris (e_machine (f_eh f)) (e_osabi (f_eh f))) tab) l).
Proof. exact view_tags_linked. Qed.
Print Assumptions C09_iter_tags_linked.

Example C09_iter_tags_linked_nonvacuous :
  exists f l,
    elf_open ex_img = Ok f /\ cut_at_null ex_dyn = Some l /\
    forallb (dyn_fits (f_le f) (f_is64 f)) ex_dyn = true /\
    ex_img = ex_pre ++ encode_dyns (f_le f) (f_is64 f) ex_dyn ++ (ex_strtab ++ ex_shdrs) /\
    ex_img = (ex_pre ++ encode_dyns true true ex_dyn) ++ ex_strtab ++ ex_shdrs /\
    zlen (ex_pre ++ encode_dyns true true ex_dyn) = 272 /\
    strings_ok (spec_is_solaris (e_machine (f_eh f)) (e_osabi (f_eh f))) ex_strtab l = true /\
    map snd (map (expected_tag (f_dtab f) false ex_strtab) l)
    = [Some [108; 105; 98; 99]; Some [102; 111; 111]; None; Some [108; 105; 98; 99]; None].
Proof. exists ex_f, (firstn 5 ex_dyn). vm_compute. repeat split. Qed.

(* no table given (DynamicSegment of a file without section headers): the first DT_STRTAB entry,
   mapped through the PT_LOAD segments, designates the table; same tags, same strings *)
Theorem C09_iter_tags_pointed : forall img f ps off es l sp (pre tail pre2 tab tail2 : list Z),
  elf_open img = Ok f ->
  forallb (dyn_fits (f_le f) (f_is64 f)) es = true -> cut_at_null es = Some l ->
  img = pre ++ encode_dyns (f_le f) (f_is64 f) es ++ tail -> off = zlen pre ->
  img = pre2 ++ tab ++ tail2 ->
  first_val DT_STRTAB l = Some sp -> sp <> 0 -> addr_to_off ps sp 1 = Some (zlen pre2) ->
  strings_ok (spec_is_solaris (e_machine (f_eh f)) (e_osabi (f_eh f))) tab l = true ->
  let dy := mkDyn off false None in
  raw_tags f dy = Ok (map (raw_of (f_dtab f)) l) /\
  iter_tags_all f ps (map (raw_of (f_dtab f)) l) dy
  = Ok (map (expected_tag (f_dtab f) (spec_is_solaris (e_machine (f_eh f)) (e_osabi (f_eh f))) tab) l).
Proof. exact iter_tags_pointed. Qed.
Print Assumptions C09_iter_tags_pointed.

Example C09_iter_tags_pointed_nonvacuous :
  first_val DT_STRTAB (firstn 5 ex_dyn) = Some 4368 /\
  addr_to_off ex_ps 4368 1 = Some (zlen (ex_pre' ++ encode_dyns true true ex_dyn)) /\
  (exists f, elf_open ex_img' = Ok f /\ e_shoff (f_eh f) = 0).
Proof. vm_compute. repeat split. eexists. split; reflexivity. Qed.

(* ---- pointer -> file offset: the offset the code takes (the first PT_LOAD whose file image holds
   the first byte) is the one the standard's rule gives, and no other PT_LOAD gives a different one *)
Theorem C09_address_offset : forall f ps addr len off,
  (forall v, is_name (dec_enum (f_ptab f) v) "PT_LOAD" = (v =? PT_LOAD)) ->
  addr_to_off ps addr len = Some off ->
  hd_error (address_offsets f ps addr 1) = Some off /\
  forall o, In o (address_offsets f ps addr 1) -> o = off.
Proof.
  exact (fun f ps addr len off Hn H =>
           conj (address_offset_first f ps addr len off Hn H) (address_offsets_unambiguous f ps addr len off Hn H)).
Qed.
Print Assumptions C09_address_offset.

Theorem C09_get_table_offset : forall f ps l val name,
  (forall v, is_name (dec_enum (f_dtab f) v) name = (v =? val)) ->
  get_table_offset f ps (map (raw_of (f_dtab f)) l) name =
  match first_val val l with
  | None => (None, None)
  | Some ptr => (Some ptr, if ptr =? 0 then None else hd_error (address_offsets f ps ptr 1))
  end.
Proof. exact get_table_offset_spec. Qed.
Print Assumptions C09_get_table_offset.

(* ---- SysV hash entry width: for EVERY e_machine value and both classes the width structs._create_elf_hash
   chooses (tabulated by the translator for every machine name x class x byte order) is the psABIs': 64-bit
   entries for ELFCLASS64 EM_ALPHA and EM_S390, 32-bit words everywhere else; the wide layout is the
   standard's *)
Theorem C09_hash_width : forall f,
  hash_wide f = spec_hash_wide (e_machine (f_eh f)) (f_is64 f) /\
  forall le, gen_Elf_Hash_wide le = spec_Elf_Hash_w le true.
Proof. exact (fun f => conj (hash_wide_spec f) gen_Elf_Hash_wide_spec). Qed.
Print Assumptions C09_hash_width.

(* ---- count_from_hash: the symbol count recovered from a hash table is the true count, for every
   table that is valid for N symbols (C03 has no such lemmas yet; these are stated here) *)
Theorem C09_count_from_sysv_hash : forall f off N,
  sysv_valid (f_le f) (spec_hash_wide (e_machine (f_eh f)) (f_is64 f)) (seekz (f_img f) off) N = true ->
  sysv_num_symbols f off = Ok N.
Proof. exact sysv_count. Qed.
Print Assumptions C09_count_from_sysv_hash.

Theorem C09_count_from_gnu_hash : forall f off N,
  all_bytes (f_img f) = true -> 0 <= off ->
  gnu_valid (f_le f) (f_is64 f) (seekz (f_img f) off) N = true ->
  gnu_num_symbols f off = Ok N.
Proof. exact gnu_count. Qed.
Print Assumptions C09_count_from_gnu_hash.

Example C09_count_from_hash_nonvacuous :
  all_bytes ex_gnu = true /\ gnu_valid true true (seekz ([9; 9; 9] ++ ex_gnu) 3) 5 = true /\
  gnu_num_symbols (ex_hash_f ([9; 9; 9] ++ ex_gnu)) 3 = Ok 5 /\
  sysv_valid true false (seekz ([9] ++ ex_sysv) 1) 5 = true /\
  sysv_valid true true (seekz ([9] ++ ex_sysv64) 1) 5 = true /\ sysv_valid true false (seekz ([9] ++ ex_sysv64) 1) 5 = false /\
  sysv_num_symbols (ex_hash_f_s390x ([9] ++ ex_sysv64)) 1 = Ok 5 /\
  gnu_valid true true ex_gnu 4 = false /\ gnu_valid true true ex_gnu 6 = false.
Proof. vm_compute. repeat split. Qed.

(* ---- views_agree (tags and strings): for EVERY image satisfying the boolean consistency predicate
   of Spec/C09Dyn.v (every dynamic pointer lies in a PT_LOAD whose file image contains the table; the
   section headers describe the same bytes; the .dynamic section may lie at the segment's offset or
   hold a copy elsewhere) and EVERY image that is its stripped form (e_shoff = e_shnum = e_shstrndx = 0,
   same bytes behind the ELF header), the DynamicSection of the original, the DynamicSegment of the
   original and the DynamicSegment of the stripped image all yield exactly the standard's reading:
   the entries up to and including the first DT_NULL, string-valued tags resolved in the table that
   the section link designates = the table DT_STRTAB points to *)
Theorem C09_views_agree_tags : forall img img',
  consistent_b img = true -> stripped_of_b img img' = true ->
  exists d, describe img = Some d /\
    section_tags img = Ok (expected_view img d) /\
    segment_tags img = Ok (expected_view img d) /\
    segment_tags img' = Ok (expected_view img d).
Proof. exact views_agree_tags. Qed.
Print Assumptions C09_views_agree_tags.

Example C09_views_agree_nonvacuous :
  consistent_b ex_img = true /\ stripped_of_b ex_img ex_img' = true /\ ex_img <> ex_img' /\
  segment_tags ex_img' =
  Ok [(EN "DT_NEEDED", 1, Some [108; 105; 98; 99]); (EN "DT_SONAME", 6, Some [102; 111; 111]);
      (EN "DT_STRTAB", 4368, None); (EN "DT_NEEDED", 1, Some [108; 105; 98; 99]); (EN "DT_NULL", 0, None)].
Proof. vm_compute. repeat split. discriminate. Qed.

(* ---- views_agree (relocation tables): under the same hypotheses, the relocation tables that
   get_relocation_tables builds (REL / RELA / RELR / JMPREL with their flavour), and every entry
   iter_relocations reads from them, are the same from the DynamicSegment of the stripped image, from
   the DynamicSegment of the original and from the DynamicSection of the original *)
Theorem C09_views_agree_relocs : forall img img',
  consistent_b img = true -> stripped_of_b img img' = true ->
  segment_relocs img' = section_relocs img /\ segment_relocs img = section_relocs img.
Proof. exact views_agree_relocs. Qed.
Print Assumptions C09_views_agree_relocs.

Example C09_views_agree_relocs_nonvacuous :
  consistent_b ex2_img = true /\ stripped_of_b ex2_img ex2_img' = true /\
  segment_relocs ex2_img' =
  Ok [(RelTable "RELA" (Some 282) 48 true, Ok [(8192, 4294967303, Some (-8)); (8200, 8, Some 4660)])].
Proof. vm_compute. repeat split. Qed.

(* ---- views_agree (dynamic symbols) + count_from_hash at work: for EVERY image satisfying
   sym_consistent_b (consistent_b, a SHT_DYNSYM section of standard entry size linked to the same
   string table, DT_SYMTAB mapped to it, every st_name inside the table, and a GNU hash table - or,
   without one, a SysV hash table - valid for its entry count) and every byte image that is its
   stripped form, the symbols the DynamicSegment of the stripped image enumerates (count recovered
   from the hash table, entries through DT_SYMTAB, names through DT_STRTAB) are exactly the entries
   and names of the SHT_DYNSYM section of the original, in order *)
Theorem C09_views_agree_symbols : forall img img',
  sym_consistent_b img = true -> stripped_of_b img img' = true -> all_bytes img' = true ->
  segment_symbols img' = section_symbols_view img.
Proof. exact views_agree_symbols. Qed.
Print Assumptions C09_views_agree_symbols.

Example C09_views_agree_symbols_nonvacuous :
  sym_consistent_b ex3_img = true /\ stripped_of_b ex3_img ex3_img' = true /\ all_bytes ex3_img' = true /\
  match segment_symbols ex3_img' with Ok l => Some (map snd l) | Err _ => None end = Some [[]; [102; 111; 111]].
Proof. vm_compute. repeat split. Qed.

(* ---- the segment view alone: for EVERY image in which no SHT_DYNAMIC section lies at the offset of
   PT_DYNAMIC - the section header table is absent, or it describes ANOTHER dynamic array elsewhere,
   linked to ANOTHER string table - the DynamicSegment yields the segment's own entries up to and
   including DT_NULL, with string-valued tags resolved in the table that its own DT_STRTAB / DT_STRSZ
   designate through the PT_LOAD map (never in the table some section links) *)
Theorem C09_segment_view_alone : forall img, seg_consistent_b img = true ->
  exists s, describe_seg img = Some s /\ segment_tags img = Ok (expected_seg_view img s).
Proof. exact segment_view_alone. Qed.
Print Assumptions C09_segment_view_alone.

Example C09_segment_view_alone_nonvacuous :
  seg_consistent_b ex4_img = true /\ seg_consistent_b ex4_img' = true /\ consistent_b ex4_img = false /\
  segment_tags ex4_img = segment_tags ex4_img' /\
  segment_tags ex4_img =
  Ok [(EN "DT_NEEDED", 1, Some [108; 105; 98; 99]); (EN "DT_SONAME", 6, Some [102; 111; 111]);
      (EN "DT_STRTAB", 4352, None); (EN "DT_STRSZ", 10, None); (EN "DT_NULL", 0, None)] /\
  section_tags ex4_img =
  Ok [(EN "DT_NEEDED", 1, Some [76; 73; 66; 67]); (EN "DT_STRTAB", 4362, None); (EN "DT_STRSZ", 10, None);
      (EN "DT_NULL", 0, None)].
Proof. vm_compute. repeat split. Qed.

(* ---- histories on ONE object: the stateful model of Dynamic (the _num_tags cache that _get_tag
   consults, the suspended _iter_tags generators with their type filter and next index) answers EVERY
   history of calls - walks started, advanced one tag at a time and interleaved in any order with
   num_tags() and get_tag(n) - exactly as the reference does, for which the array is the fixed list of
   entries up to and including DT_NULL: an interrupted walk resumes where it stood, nothing is lost,
   num_tags() is the length of the list, get_tag(n) its n-th element or IndexError (invariant lifted
   over the run: the cache is unset or holds the true count, every suspended walk stands at a position
   of the list) *)
Theorem C09_history_exact : forall f dy, dy_empty dy = false ->
  forall ts, raw_tags f dy = Ok ts ->
  forall ops, Forall hop_ok ops ->
  hrun f dy (dst_init dy) ops = rrun rawtag tmatch ts [] ops.
Proof. exact history_exact_init. Qed.
Print Assumptions C09_history_exact.

Example C09_history_exact_nonvacuous :
  let dy := mkDyn 176 false None in
  let ops := [HStart None; HNext 0; HNext 0; HNumTags; HStart (Some "DT_NEEDED"); HNext 1; HGetTag 4; HGetTag 5;
              HNext 0; HNext 0; HNext 0; HNext 0; HNext 1; HNext 1] in
  dy_empty dy = false /\ Forall hop_ok ops /\
  (exists ts, raw_tags ex_f dy = Ok ts /\ length ts = 5%nat) /\
  hrun ex_f dy (dst_init dy) ops =
  [AStarted; ATag (EN "DT_NEEDED", 1); ATag (EN "DT_SONAME", 6); ANum 5; AStarted; ATag (EN "DT_NEEDED", 1);
   ATag (EN "DT_NULL", 0); AErr (EPy "IndexError"); ATag (EN "DT_STRTAB", 4368); ATag (EN "DT_NEEDED", 1);
   ATag (EN "DT_NULL", 0); AStop; ATag (EN "DT_NEEDED", 1); AStop].
Proof.
  cbv zeta. split; [reflexivity|]. split; [repeat constructor; cbn; lia|].
  split; [eexists; split; vm_compute; reflexivity|]. vm_compute. reflexivity.
Qed.
