(* Props/C07.v — placeholder while the proofs are being built *)
From PV Require Import Gen.C07Tables Spec.C07Lists.
Theorem C07_placeholder : DW_LLE_end_of_list = BinNums.Z0.
Proof. reflexivity. Qed.
Print Assumptions C07_placeholder.
Example C07_ex : True. Proof. exact I. Qed.
