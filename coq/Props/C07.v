(* Props/C07.v — property C07: location and range lists decode to exactly the encoded entries.
   Only statements, closed by [exact]; proofs in Proofs/C07*.v.
   Model: Model/C07Lists.v (transliteration of dwarf/locationlists.py, ranges.py, dwarf_util.py,
   dwarfinfo.get_addr, die._translate_attr_value) instantiated in Model/C07Inst.v with the tables
   regenerated from the live modules (Gen/C07Tables.v): LLE_TABLES / RLE_TABLES, gen_*_CU_header.
   Spec: Spec/C07Lists.v, Spec/C07Sections.v (encoders over every free byte, meanings, wf as bool). *)
From Coq Require Import String.
From PV Require Import Base.Bytes Base.Outcome Base.Prim Base.Enum Spec.PrimSpec
  Model.C07Kinds Model.C07Lists Model.C07Session Model.C07Inst Gen.C07Tables Spec.C07Lists Spec.C07Sections
  Proofs.C07V4 Proofs.C07V5 Proofs.C07Tables Proofs.C07Units Proofs.C07Top Proofs.C07Enum
  Proofs.C07Classify Proofs.C07Session Proofs.C07Tails.
From Coq Require Import ZArith List Bool.
Import ListNotations.
Open Scope string_scope.
Open Scope list_scope.
Open Scope Z_scope.

(* ================================================================== the code's data is the standard's *)
Theorem C07_lle_enum_standard : forall e, In e gen_ENUM_DW_LLE <-> In e spec_ENUM_DW_LLE.
Proof. exact lle_enum_standard. Qed.
Print Assumptions C07_lle_enum_standard.

Theorem C07_rle_enum_standard : forall e, In e gen_ENUM_DW_RLE <-> In e spec_ENUM_DW_RLE.
Proof. exact rle_enum_standard. Qed.
Print Assumptions C07_rle_enum_standard.

(* operand kinds of every DW_LLE / DW_RLE kind: the Switch tables of the entry structs *)
Theorem C07_lle_struct_standard : forall x,
  assoc gen_lle_switch (lle_name x) = Some (op_kinds (lle_ops x)).
Proof. exact lle_struct_standard. Qed.
Print Assumptions C07_lle_struct_standard.

Theorem C07_rle_struct_standard : forall x,
  assoc gen_rle_switch (rle_name x) = Some (op_kinds (rle_ops x)).
Proof. exact rle_struct_standard. Qed.
Print Assumptions C07_rle_struct_standard.

Theorem C07_unit_headers_standard :
  gen_loclists_CU_header = spec_list_header /\ gen_rnglists_CU_header = spec_list_header.
Proof. exact unit_headers_standard. Qed.
Print Assumptions C07_unit_headers_standard.

(* entry_translate implements the meaning of every kind: indexed addresses through the table,
   start/length converted to [start, start+length) *)
Theorem C07_lle_translate_standard : forall tbl addr,
  (forall i, 0 <= i < zlen tbl -> addr i = Ok (addr_at tbl i)) ->
  forall asz off len x, wf_lle asz (zlen tbl) x = true ->
  translate_entry LLE_TABLES addr (lle_raw off len x) = Ok (lle_tup tbl off len x).
Proof. exact lle_translate_standard. Qed.
Print Assumptions C07_lle_translate_standard.

Theorem C07_rle_translate_standard : forall tbl addr,
  (forall i, 0 <= i < zlen tbl -> addr i = Ok (addr_at tbl i)) ->
  forall asz off len x, wf_rle asz (zlen tbl) x = true ->
  translate_entry RLE_TABLES addr (rle_raw off len x) = Ok (rle_tup tbl off len x).
Proof. exact rle_translate_standard. Qed.
Print Assumptions C07_rle_translate_standard.

(* ================================================================== pre-v5 lists *)
(* any list of base-selection and location entries (any expression length < 2^16), any address
   size > 0, both byte orders, placed after any prefix and before any tail *)
Theorem C07_v4_loc_roundtrip : forall S version l pre tail cu,
  version < 5 -> (0 < s_asz S)%nat -> forallb (wf_v4loc (s_asz S)) l = true ->
  get_location_list_at_offset LLE_TABLES S version
    (pre ++ enc_v4loc_list (s_le S) (s_asz S) l ++ tail) (zlen pre) cu
  = Ok (v4loc_meaning (s_le S) (s_asz S) (zlen pre) l).
Proof. exact get_location_list_v4. Qed.
Print Assumptions C07_v4_loc_roundtrip.

Theorem C07_v4_rng_roundtrip : forall S version l pre tail cu,
  version < 5 -> (0 < s_asz S)%nat -> forallb (wf_v4rng (s_asz S)) l = true ->
  get_range_list_at_offset RLE_TABLES S version
    (pre ++ enc_v4rng_list (s_le S) (s_asz S) l ++ tail) (zlen pre) cu
  = Ok (v4rng_meaning (s_le S) (s_asz S) (zlen pre) l).
Proof. exact get_range_list_v4. Qed.
Print Assumptions C07_v4_rng_roundtrip.

(* ================================================================== v5 lists *)
(* every DW_LLE kind, every valid ULEB128 encoding of every operand, counted expressions of any
   length; indexed kinds through the unit's address table in .debug_addr *)
Theorem C07_v5_loc_roundtrip : forall S version l pre tail cu tbl,
  5 <= version -> addr_table_at S cu tbl -> forallb (wf_lle (s_asz S) (zlen tbl)) l = true ->
  get_location_list_at_offset LLE_TABLES S version
    (pre ++ enc_lle_list (s_le S) (s_asz S) l ++ tail) (zlen pre) (Some cu)
  = Ok (lle_meaning (s_le S) (s_asz S) tbl (zlen pre) l).
Proof. exact get_location_list_v5. Qed.
Print Assumptions C07_v5_loc_roundtrip.

Theorem C07_v5_rng_roundtrip : forall S version l pre tail cu tbl,
  5 <= version -> addr_table_at S cu tbl -> forallb (wf_rle (s_asz S) (zlen tbl)) l = true ->
  get_range_list_at_offset RLE_TABLES S version
    (pre ++ enc_rle_list (s_le S) (s_asz S) l ++ tail) (zlen pre) (Some cu)
  = Ok (rle_meaning (s_le S) (s_asz S) tbl (zlen pre) l).
Proof. exact get_range_list_v5. Qed.
Print Assumptions C07_v5_rng_roundtrip.

(* the untranslated view and its translation *)
Theorem C07_v5_rng_raw_roundtrip : forall S l pre tail n,
  forallb (wf_rle (s_asz S) n) l = true ->
  get_range_list_at_offset_ex RLE_TABLES S (pre ++ enc_rle_list (s_le S) (s_asz S) l ++ tail) (zlen pre)
  = Ok (rle_raw_meaning (s_le S) (s_asz S) (zlen pre) l).
Proof. exact get_range_list_ex_valid. Qed.
Print Assumptions C07_v5_rng_raw_roundtrip.

Theorem C07_translate_v5_entry : forall S cu tbl off len x,
  addr_table_at S cu tbl -> wf_rle (s_asz S) (zlen tbl) x = true ->
  translate_entry RLE_TABLES (get_addr (s_le S) (s_addr S) (Some cu)) (rle_raw off len x)
  = Ok (rle_tup tbl off len x).
Proof. exact translate_v5_entry_valid. Qed.
Print Assumptions C07_translate_v5_entry.

(* ================================================================== indexed access *)
(* entry i of the unit's address table is at DW_AT_addr_base + i * address_size *)
Theorem C07_index_resolution : forall le asz tbl apre apost cu i,
  cu_addr_base cu = Some (zlen apre) -> cu_asz cu = asz ->
  wf_addr_table asz tbl = true -> 0 <= i < zlen tbl ->
  get_addr le (Some (apre ++ enc_addr_table le asz tbl ++ apost)) (Some cu) i = Ok (addr_at tbl i).
Proof. exact get_addr_valid. Qed.
Print Assumptions C07_index_resolution.

(* entry k of a unit block's offset table (8 | 4 bytes each) designates table + offsets[k] *)
Theorem C07_by_offset_table : forall le u pre post cu k,
  wf_unit u = true -> cu_is64 cu = ub_is64 u -> 0 <= k < ub_count u ->
  resolve_via_offset_table le (pre ++ enc_unit le u ++ post) cu k (Some (unit_table_offset (zlen pre) u))
  = Ok (unit_table_offset (zlen pre) u + nth (Z.to_nat k) (ub_offsets u) 0).
Proof. exact resolve_via_offset_table_valid. Qed.
Print Assumptions C07_by_offset_table.

(* ================================================================== unit blocks *)
(* a section that is a sequence of unit blocks (DWARF32 or DWARF64 each, offset_count >= 0):
   iter_CUs reports every block, in order, with its header fields and offset table *)
Theorem C07_unit_blocks_exact : forall le version us,
  5 <= version -> forallb wf_unit us = true ->
  iter_CUs gen_rnglists_CU_header le version (concat (map (enc_unit le) us)) = Ok (unit_headers 0 us)
  /\ iter_CUs gen_loclists_CU_header le version (concat (map (enc_unit le) us)) = Ok (unit_headers 0 us).
Proof.
  intros le version us Hv Hwf. destruct unit_headers_standard as [-> ->].
  split; exact (iter_CUs_valid le version us Hv Hwf).
Qed.
Print Assumptions C07_unit_blocks_exact.

(* iter_CU_range_lists_ex (repaired): exactly the lists of the block, from the end of the offset
   table to the end of the block, for every offset_count *)
Theorem C07_unit_block_lists_exact : forall S u lists pre post,
  wf_unit u = true -> ub_body u = rng_body (s_le S) (s_asz S) lists ->
  forallb (rle_wf_list (s_asz S)) lists = true ->
  iter_CU_range_lists_ex RLE_TABLES S (pre ++ enc_unit (s_le S) u ++ post) (unit_header (zlen pre) u)
  = Ok (rng_lists_raw (s_le S) (s_asz S) (unit_body_offset (zlen pre) u) lists).
Proof. exact iter_CU_range_lists_ex_valid. Qed.
Print Assumptions C07_unit_block_lists_exact.

(* ================================================================== enumeration *)
(* the lists visited are the lists the DIEs reference, each once, in section order *)
Theorem C07_range_enumeration_exact : forall T S version stream cus refs (ex : list ex_item),
  range_refs S (5 <=? version) cus = Ok refs ->
  incr (map ex_start ex) ->
  (forall o cv, In (o, cv) refs ->
     exists e, In e ex /\ ex_start e = o /\
               get_range_list_at_offset T S version stream o (Some (cuinfo_of cv)) = Ok (snd e)) ->
  iter_range_lists T S version stream cus = Ok (enum_expected (map fst refs) ex).
Proof. exact iter_range_lists_exact. Qed.
Print Assumptions C07_range_enumeration_exact.

(* ================================================================== lists that share a tail
   an offset (attribute value or offset-table slot) may designate the first byte of the k-th entry of
   an encoded list: fetching there returns that entry and the following ones, each with its own
   offset and length, i.e. the tail of the host list's entries *)
Theorem C07_v5_loc_tail_sharing : forall S version a b pre tail cu tbl,
  5 <= version -> addr_table_at S cu tbl -> forallb (wf_lle (s_asz S) (zlen tbl)) (a ++ b) = true ->
  get_location_list_at_offset LLE_TABLES S version
    (pre ++ enc_lle_list (s_le S) (s_asz S) (a ++ b) ++ tail)
    (zlen pre + zlen (concat (map (enc_lle (s_le S) (s_asz S)) a))) (Some cu)
  = Ok (skipn (length a) (lle_meaning (s_le S) (s_asz S) tbl (zlen pre) (a ++ b))).
Proof. exact v5_loc_tail_sharing. Qed.
Print Assumptions C07_v5_loc_tail_sharing.

Theorem C07_v5_rng_tail_sharing : forall S version a b pre tail cu tbl,
  5 <= version -> addr_table_at S cu tbl -> forallb (wf_rle (s_asz S) (zlen tbl)) (a ++ b) = true ->
  get_range_list_at_offset RLE_TABLES S version
    (pre ++ enc_rle_list (s_le S) (s_asz S) (a ++ b) ++ tail)
    (zlen pre + zlen (concat (map (enc_rle (s_le S) (s_asz S)) a))) (Some cu)
  = Ok (skipn (length a) (rle_meaning (s_le S) (s_asz S) tbl (zlen pre) (a ++ b))).
Proof. exact v5_rng_tail_sharing. Qed.
Print Assumptions C07_v5_rng_tail_sharing.

Theorem C07_v4_loc_tail_sharing : forall S version a b pre tail cu,
  version < 5 -> (0 < s_asz S)%nat -> forallb (wf_v4loc (s_asz S)) (a ++ b) = true ->
  get_location_list_at_offset LLE_TABLES S version
    (pre ++ enc_v4loc_list (s_le S) (s_asz S) (a ++ b) ++ tail)
    (zlen pre + zlen (concat (map (enc_v4loc (s_le S) (s_asz S)) a))) cu
  = Ok (skipn (length a) (v4loc_meaning (s_le S) (s_asz S) (zlen pre) (a ++ b))).
Proof. exact v4_loc_tail_sharing. Qed.
Print Assumptions C07_v4_loc_tail_sharing.

Theorem C07_v4_rng_tail_sharing : forall S version a b pre tail cu,
  version < 5 -> (0 < s_asz S)%nat -> forallb (wf_v4rng (s_asz S)) (a ++ b) = true ->
  get_range_list_at_offset RLE_TABLES S version
    (pre ++ enc_v4rng_list (s_le S) (s_asz S) (a ++ b) ++ tail)
    (zlen pre + zlen (concat (map (enc_v4rng (s_le S) (s_asz S)) a))) cu
  = Ok (skipn (length a) (v4rng_meaning (s_le S) (s_asz S) (zlen pre) (a ++ b))).
Proof. exact v4_rng_tail_sharing. Qed.
Print Assumptions C07_v4_rng_tail_sharing.

(* the enumeration demanded with tail sharing (Spec/C07Sections.v enum_designated: every designated list
   once, in offset order) is the one of C07_range_enumeration_exact when every designated offset is the
   first byte of an item; C07_range_enumeration_exact itself covers tail sharing (its [ex] may list
   the designated tails as items of their own) *)
Theorem C07_enum_designated_items : forall refs (ex : list ex_item),
  incr (map ex_start ex) -> (forall o, In o refs -> In o (map ex_start ex)) ->
  enum_designated refs ex = enum_expected refs ex.
Proof. exact enum_designated_items. Qed.
Print Assumptions C07_enum_designated_items.

(* finding loclists-tail-at-unit-end (repaired in /repo, known_findings.d/C07.json): the v5 walk of
   iter_location_lists left a unit block as soon as the stream reached its end, so a designated tail of
   the block's LAST list was fetched correctly but not visited by the enumeration.
   iter_location_lists_unfixed is the walk before the repair. *)
Theorem C07_loclists_tail_at_unit_end_refuted :
  get_location_list_at_offset LLE_TABLES tail_S 5 tail_loclists 17 (Some (cuinfo_of (hd (Build_cuview 0 false 0 []) tail_cus)))
    = Ok (lle_meaning true 4 [] 17 [LBaseAddress 0x1000])
  /\ enum_designated [12; 17] tail_items
     = [lle_meaning true 4 [] 12 [LOffsetPair (1, 0%nat) (2, 0%nat) (0%nat, [0x50]); LBaseAddress 0x1000];
        lle_meaning true 4 [] 17 [LBaseAddress 0x1000]]
  /\ iter_location_lists_unfixed LLE_TABLES gen_loclists_CU_header gen_locview_pair tail_S 5 tail_loclists tail_cus
     = Ok [lle_meaning true 4 [] 12 [LOffsetPair (1, 0%nat) (2, 0%nat) (0%nat, [0x50]); LBaseAddress 0x1000]].
Proof. exact tail_at_unit_end. Qed.
Print Assumptions C07_loclists_tail_at_unit_end_refuted.

(* the repaired walk (the model of the code as it is now) visits both lists *)
Theorem C07_loclists_tail_at_unit_end_visited :
  iter_location_lists LLE_TABLES gen_loclists_CU_header gen_locview_pair tail_S 5 tail_loclists tail_cus
  = Ok (enum_designated [12; 17] tail_items).
Proof. exact tail_at_unit_end_fixed. Qed.
Print Assumptions C07_loclists_tail_at_unit_end_visited.

(* ================================================================== any call order (Model/C07Session.v)
   The objects DWARFInfo.location_lists()/range_lists() hand out share one stream per section with the
   DIE parser, and three generators read relative to stream.tell() across their yields.  The session
   model makes the cursors of .debug_loclists/.debug_rnglists and the per-unit DIE caches explicit;
   a state is reachable when some sequence of public calls (DIE parsing of a unit: top DIE / a prefix /
   all; fetches through DIE attributes; get_range_list_at_offset_ex; the five enumerations, each with
   arbitrary such calls between its yields) leads to it from a freshly opened DWARFInfo. *)
Notation c07_reachable := (reachable LLE_TABLES RLE_TABLES gen_loclists_CU_header gen_rnglists_CU_header gen_locview_pair).
Notation c07_hooks S cus := (map (run_acts LLE_TABLES RLE_TABLES S cus)).

(* dwarf_util._resolve_via_offset_table (DW_FORM_loclistx / DW_FORM_rnglistx): the value of
   C07_by_offset_table, and the section stream is left where it was *)
Theorem C07_offset_table_lookup_keeps_position : forall le stream cu index base cur,
  resolve_via_offset_table_cur le stream cu index base cur
  = do v <- resolve_via_offset_table le stream cu index base; Ok (v, cur).
Proof. exact resolve_cur_eq. Qed.
Print Assumptions C07_offset_table_lookup_keeps_position.

(* hence parsing DIEs, for the first time or from the cache, never moves a list-section cursor *)
Theorem C07_die_parsing_keeps_cursors : forall S cus s k n s',
  c07_reachable S cus s -> act_parse S cus k n s = Ok s' -> ss_cur s' = ss_cur s.
Proof. exact (die_parsing_keeps_cursors LLE_TABLES RLE_TABLES gen_loclists_CU_header gen_rnglists_CU_header gen_locview_pair). Qed.
Print Assumptions C07_die_parsing_keeps_cursors.

(* iter_location_lists, started in any reachable state (nothing parsed yet, partly or fully warmed
   up, streams anywhere) and with any calls between its yields that do not read .debug_loclists
   (pre-v5: any calls at all), yields exactly what the position-passing model yields ... *)
Theorem C07_location_enumeration_any_history : forall S cus s version sched ys s',
  c07_reachable S cus s -> op_in_domain S cus (OIterLoc version sched) = true ->
  iter_location_lists_sess LLE_TABLES gen_loclists_CU_header gen_locview_pair S cus version (c07_hooks S cus sched) s
  = Ok (ys, s') ->
  iter_location_lists LLE_TABLES gen_loclists_CU_header gen_locview_pair S version (loc_stream S version) cus
  = Ok (map fst ys).
Proof. exact (location_enumeration_any_history LLE_TABLES RLE_TABLES gen_loclists_CU_header gen_rnglists_CU_header gen_locview_pair). Qed.
Print Assumptions C07_location_enumeration_any_history.

(* ... and it does yield them when the consumer parses DIEs between the yields *)
Theorem C07_location_enumeration_total : forall S cus s version sched ls,
  c07_reachable S cus s -> translatable S cus -> parse_only cus sched = true ->
  iter_location_lists LLE_TABLES gen_loclists_CU_header gen_locview_pair S version (loc_stream S version) cus = Ok ls ->
  exists ys s',
    iter_location_lists_sess LLE_TABLES gen_loclists_CU_header gen_locview_pair S cus version (c07_hooks S cus sched) s
    = Ok (ys, s') /\ map fst ys = ls.
Proof. exact (location_enumeration_total LLE_TABLES RLE_TABLES gen_loclists_CU_header gen_rnglists_CU_header gen_locview_pair). Qed.
Print Assumptions C07_location_enumeration_total.

(* iter_range_lists: any reachable state, any calls between the yields (every list is reached by an
   absolute seek); with C07_range_enumeration_exact: exactly the referenced lists *)
Theorem C07_range_enumeration_any_history : forall S cus s version sched ys s',
  c07_reachable S cus s ->
  iter_range_lists_sess RLE_TABLES S cus version (c07_hooks S cus sched) s = Ok (ys, s') ->
  iter_range_lists RLE_TABLES S version (rng_stream S version) cus = Ok (map fst ys).
Proof. exact (range_enumeration_any_history LLE_TABLES RLE_TABLES gen_loclists_CU_header gen_rnglists_CU_header gen_locview_pair). Qed.
Print Assumptions C07_range_enumeration_any_history.

Theorem C07_range_enumeration_total : forall S cus s version sched ls,
  c07_reachable S cus s -> translatable S cus -> parse_only cus sched = true ->
  iter_range_lists RLE_TABLES S version (rng_stream S version) cus = Ok ls ->
  exists ys s', iter_range_lists_sess RLE_TABLES S cus version (c07_hooks S cus sched) s = Ok (ys, s')
                /\ map fst ys = ls.
Proof. exact (range_enumeration_total LLE_TABLES RLE_TABLES gen_loclists_CU_header gen_rnglists_CU_header gen_locview_pair). Qed.
Print Assumptions C07_range_enumeration_total.

(* LocationLists.iter_CUs / RangeLists.iter_CUs: any reachable state, any calls between the yields;
   with C07_unit_blocks_exact: exactly the unit blocks *)
Theorem C07_unit_blocks_any_history : forall S cus s sched,
  c07_reachable S cus s ->
  (forall ys s', iter_CUs_loc_sess gen_loclists_CU_header S (c07_hooks S cus sched) s = Ok (ys, s') ->
                 iter_CUs gen_loclists_CU_header (s_le S) 5 (loc_stream S 5) = Ok (map fst ys))
  /\ (forall ys s', iter_CUs_rng_sess gen_rnglists_CU_header S (c07_hooks S cus sched) s = Ok (ys, s') ->
                    iter_CUs gen_rnglists_CU_header (s_le S) 5 (rng_stream S 5) = Ok (map fst ys)).
Proof. exact (unit_blocks_any_history LLE_TABLES RLE_TABLES gen_loclists_CU_header gen_rnglists_CU_header gen_locview_pair). Qed.
Print Assumptions C07_unit_blocks_any_history.

Theorem C07_unit_blocks_total : forall S cus s sched,
  c07_reachable S cus s -> translatable S cus -> parse_only cus sched = true ->
  (forall hs, iter_CUs gen_loclists_CU_header (s_le S) 5 (loc_stream S 5) = Ok hs ->
              exists ys s', iter_CUs_loc_sess gen_loclists_CU_header S (c07_hooks S cus sched) s = Ok (ys, s')
                            /\ map fst ys = hs)
  /\ (forall hs, iter_CUs gen_rnglists_CU_header (s_le S) 5 (rng_stream S 5) = Ok hs ->
                 exists ys s', iter_CUs_rng_sess gen_rnglists_CU_header S (c07_hooks S cus sched) s = Ok (ys, s')
                               /\ map fst ys = hs).
Proof. exact (unit_blocks_total LLE_TABLES RLE_TABLES gen_loclists_CU_header gen_rnglists_CU_header gen_locview_pair). Qed.
Print Assumptions C07_unit_blocks_total.

(* iter_CU_range_lists_ex on the ui-th block of iter_CUs(): any reachable state, any calls between
   the yields that do not read .debug_rnglists; with C07_unit_block_lists_exact: exactly its lists *)
Theorem C07_unit_block_lists_any_history : forall S cus s ui sched ys s',
  c07_reachable S cus s -> op_in_domain S cus (OIterCUEx ui sched) = true ->
  iter_block_lists_sess RLE_TABLES gen_rnglists_CU_header S ui (c07_hooks S cus sched) s = Ok (ys, s') ->
  iter_block_lists RLE_TABLES gen_rnglists_CU_header S ui = Ok (map fst ys).
Proof. exact (unit_block_lists_any_history LLE_TABLES RLE_TABLES gen_loclists_CU_header gen_rnglists_CU_header gen_locview_pair). Qed.
Print Assumptions C07_unit_block_lists_any_history.

Theorem C07_unit_block_lists_total : forall S cus s ui sched ls,
  c07_reachable S cus s -> translatable S cus -> parse_only cus sched = true ->
  iter_block_lists RLE_TABLES gen_rnglists_CU_header S ui = Ok ls ->
  exists ys s', iter_block_lists_sess RLE_TABLES gen_rnglists_CU_header S ui (c07_hooks S cus sched) s = Ok (ys, s')
                /\ map fst ys = ls.
Proof. exact (unit_block_lists_total LLE_TABLES RLE_TABLES gen_loclists_CU_header gen_rnglists_CU_header gen_locview_pair). Qed.
Print Assumptions C07_unit_block_lists_total.

(* the restriction on the consumer is needed: reading the second list of a block between the first two
   yields of iter_CU_range_lists_ex ends the enumeration after one list (op_in_domain = false there) *)
Theorem C07_same_stream_fetch_refuted :
  op_in_domain ex_S ex_cus (OIterCUEx 0 [[AGetRngEx 16]]) = false
  /\ iter_block_lists RLE_TABLES gen_rnglists_CU_header ex_S 0
     = Ok (rng_lists_raw true 4 12 [[ROffsetPair (1, 0%nat) (2, 0%nat)]; [RStartLength 5 (6, 0%nat)]])
  /\ value_of (iter_block_lists_sess RLE_TABLES gen_rnglists_CU_header ex_S 0
                 (c07_hooks ex_S ex_cus [[AGetRngEx 16]]) (fresh ex_cus))
     = Ok [(rle_raw_meaning true 4 12 [ROffsetPair (1, 0%nat) (2, 0%nat)],
            [ERaw "get_range_list_at_offset_ex" (rle_raw_meaning true 4 16 [RStartLength 5 (6, 0%nat)])])].
Proof. exact ex_same_stream_fetch. Qed.
Print Assumptions C07_same_stream_fetch_refuted.

(* the offset -> unit map of iter_range_lists holds only units of the enumerated section's generation:
   offsets into .debug_ranges and into .debug_rnglists are unrelated number spaces, and a unit of the
   other generation neither supplies nor masks (by a numerically equal offset) a list of this one *)
Theorem C07_range_refs_generation : forall S ver5 cus refs,
  range_refs S ver5 cus = Ok refs ->
  forall o cv, In (o, cv) refs -> In cv cus /\ (5 <=? cv_version cv) = ver5.
Proof. exact range_refs_generation. Qed.
Print Assumptions C07_range_refs_generation.

(* ================================================================== classification *)
(* finite sweep: versions 2..5 x every name of ENUM_DW_AT x every name of ENUM_DW_FORM *)
Theorem C07_classification : forall v n f c,
  In v VERSIONS -> In n gen_DW_AT_names -> In f gen_DW_FORM_names ->
  std_classify v n f = Some c ->
  gen_classify v n f = lclass_code c /\ classify_attribute n f v = lclass_code c.
Proof. exact classification_standard. Qed.
Print Assumptions C07_classification.

Theorem C07_classification_model_is_code : forall v n f,
  In v VERSIONS -> In n gen_DW_AT_names -> In f gen_DW_FORM_names ->
  classify_attribute n f v = gen_classify v n f.
Proof. exact classification_model_is_code. Qed.
Print Assumptions C07_classification_model_is_code.

(* ================================================================== non-vacuity *)
Example C07_ex_v4 :
  forallb (wf_v4loc 4) [V4Base 0x1000; V4Loc 0 0x20 [0x50]; V4Loc 0xfffffffe 1 []] = true
  /\ forallb (wf_v4rng 8) [R4Base (2 ^ 64 - 1); R4Range 1 0] = true.
Proof. split; reflexivity. Qed.

Example C07_ex_v5 :
  forallb (wf_lle 8 2)
    [LBaseAddressx (1, 2%nat); LStartxEndx (0, 0%nat) (1, 1%nat) (0%nat, [0x9c]);
     LStartxLength (1, 0%nat) (300, 1%nat) (3%nat, []); LOffsetPair (2 ^ 70, 0%nat) (1, 0%nat) (0%nat, [1; 2; 3]);
     LDefaultLocation (0%nat, [0x50]); LBaseAddress (2 ^ 64 - 1); LStartEnd 0 1 (0%nat, []);
     LStartLength 7 (0, 4%nat) (0%nat, [0x91; 0x7f])] = true
  /\ forallb (wf_rle 4 1)
    [RBaseAddressx (0, 1%nat); RStartxEndx (0, 0%nat) (0, 0%nat); RStartxLength (0, 0%nat) (9, 0%nat);
     ROffsetPair (1, 0%nat) (2, 2%nat); RBaseAddress 0xffffffff; RStartEnd 3 4; RStartLength 5 (6, 0%nat)] = true.
Proof. split; reflexivity. Qed.

Example C07_ex_units :
  forallb wf_unit
    [ {| ub_is64 := false; ub_version := 5; ub_asz := 8; ub_seg := 0; ub_offsets := []; ub_body := [0] |};
      {| ub_is64 := true; ub_version := 5; ub_asz := 4; ub_seg := 0; ub_offsets := [16; 20];
         ub_body := rng_body true 4 [[ROffsetPair (1, 0%nat) (2, 0%nat)]; []] |} ] = true.
Proof. reflexivity. Qed.

Example C07_ex_classification : (300 <=? decided)%nat = true.
Proof. exact decided_many. Qed.

(* a session on a freshly opened file whose DIE refers to its location list by index: enumeration
   (the scan parses the indexed attribute), a fetch through the attribute, enumeration again with the
   DIEs cached: the one list every time; its units are translatable and the schedule parse-only *)
Example C07_ex_session :
  exists ls, iter_location_lists LLE_TABLES gen_loclists_CU_header gen_locview_pair ex_S 5 (loc_stream ex_S 5) ex_cus = Ok ls
             /\ length ls = 1%nat
             /\ ex_run [OIterLoc 5 [[AParse 0 2]]; OAct (AFetch 0 1 "DW_AT_location"); OIterLoc 5 []] (fresh ex_cus)
                = (map (ETups "iter_location_lists") ls ++ [ETups "fetch" (concat ls)]
                   ++ map (ETups "iter_location_lists") ls, None).
Proof. exact ex_fresh_enumeration. Qed.

Example C07_ex_session_hypotheses : translatable ex_S ex_cus /\ parse_only ex_cus [[AParse 0 2]] = true.
Proof. exact ex_translatable. Qed.
