(* Props/C13.v — property C13: address-range and name lookup tables resolve to the right
   compilation unit; unit lookup by contained / exact offset.  Only statements, closed by
   [exact]; proofs live in Base/PyData.v and Proofs/C13*.v.
   Models: Model/C13Aranges.v (dwarf/aranges.py), Model/C13NameLUT.v (dwarf/namelut.py),
   Model/C13DwarfInfo.v (dwarf/dwarfinfo.py unit lookup, dwarf/compileunit.py DIE cache).
   Specs: Spec/C13Spec.v. *)
From PV Require Import Base.PyData Base.Prim Spec.PrimSpec Spec.C13Spec
     Model.C13Aranges Model.C13NameLUT Model.C13DwarfInfo
     Proofs.C13Aranges Proofs.C13NameLUT Proofs.C13Units.
From Coq Require Import ZArith List Bool Permutation.
Import ListNotations.
Open Scope Z_scope.

(* ================================================================ Python containers *)
(* bisect.bisect_right, modelled as CPython's halving loop, returns the number of keys <= x *)
Theorem C13_bisect_right_count : forall a x, sorted a -> bisect_right a x = count_le x a.
Proof. exact bisect_right_count. Qed.
Print Assumptions C13_bisect_right_count.

(* list.sort(key=...): the model's insertion sort sorts, permutes, is stable ... *)
Theorem C13_sort_sorted : forall (key : arange_entry -> Z) l, sorted (map key (sorted_by key l)).
Proof. exact (@sorted_by_sorted arange_entry). Qed.
Print Assumptions C13_sort_sorted.

Theorem C13_sort_perm : forall (key : arange_entry -> Z) l, Permutation (sorted_by key l) l.
Proof. exact (@sorted_by_perm arange_entry). Qed.
Print Assumptions C13_sort_perm.

Theorem C13_sort_stable : forall (key : arange_entry -> Z) l k,
  filter (fun e => key e =? k) (sorted_by key l) = filter (fun e => key e =? k) l.
Proof. exact (@sorted_by_stable arange_entry). Qed.
Print Assumptions C13_sort_stable.

(* ... and ANY sorted stable rearrangement (timsort's result included) equals it *)
Theorem C13_sort_unique : forall (key : arange_entry -> Z) l l',
  sorted (map key l') ->
  (forall k, filter (fun e => key e =? k) l' = filter (fun e => key e =? k) l) ->
  l' = sorted_by key l.
Proof. exact (@sorted_by_unique arange_entry). Qed.
Print Assumptions C13_sort_unique.

(* the parallel-list cache maintained with bisect/insert is transparent: the answer is the
   pure parse, and the invariant (sorted keys, parallel lists, cached = parsed) is kept *)
Theorem C13_bisect_cache_transparent : forall A (parse : Z -> res A) c k,
  bcache_inv parse c ->
  snd (bcache_get parse c k) = parse k /\ bcache_inv parse (fst (bcache_get parse c k)) /\
  (forall x, In x (fst (fst (bcache_get parse c k))) -> x = k \/ In x (fst c)).
Proof. exact @bcache_get_spec. Qed.
Print Assumptions C13_bisect_cache_transparent.

(* ================================================================ .debug_aranges *)
(* round trip: every tuple of every set with its set header, in encoded order; any number of
   sets, address size 4 or 8 per set IN ANY MIXTURE, each set starting wherever the previous one
   ends (no alignment of set starts is assumed: the header padding is counted from the start of
   the set, DWARF 6.1.2), any padding/trailing bytes, both byte orders.
   Tuples: wf_aranges (tuple_ok) excludes only the terminator pair (0, 0).  A range beginning
   at address 0 (0, len > 0) and a zero-length tuple with non-zero address (a, 0) are in the
   domain at any position of a set: they are listed, and so is everything after them.  Ranges
   may overlap here; disjointness is a hypothesis of the lookup theorems only. *)
Theorem C13_aranges_entries_exact : forall le sets,
  wf_aranges sets = true ->
  get_entries le false (encode_aranges le sets) (zlen (encode_aranges le sets)) =
  Ok (aranges_entries sets).
Proof. exact aranges_entries_exact. Qed.
Print Assumptions C13_aranges_entries_exact.

(* the object built by ARanges.__init__: entries stably sorted by start address, keys parallel *)
Theorem C13_aranges_init_exact : forall le sets,
  wf_aranges sets = true ->
  aranges_init le (encode_aranges le sets) (zlen (encode_aranges le sets)) =
  Ok (mk_aranges (sorted_by ae_begin (aranges_entries sets))
                 (map ae_begin (sorted_by ae_begin (aranges_entries sets)))).
Proof. exact aranges_init_exact. Qed.
Print Assumptions C13_aranges_init_exact.

(* lookup: for pairwise non-conflicting ranges in ANY order (adjacent allowed), the answer is
   Some o iff some tuple [b, b+len) with unit offset o contains the address.
   Domain (ranges_disjoint = no tuple begins inside another one): ranges beginning at address 0
   are in; zero-length tuples are in as long as they do not begin inside a range (in a gap, right
   at the end of a range, several at one address): they contain no address and hide nothing.
   A zero-length tuple that begins inside a range is excluded for good reason: the bisect lands
   on it instead of the enclosing range and the answer is None
   (C13_lookup_setwise_refuted below); such tables stay in the domain of
   C13_aranges_entries_exact.
   The end b + len is an integer, NOT reduced modulo the address width of the set: begin and
   length are each below 2^(8*address_size) (tuple_ok), their sum may be exactly 2^32 / 2^64
   (a range reaching the top of the address space) and its last byte is still contained. *)
Theorem C13_lookup_iff_contained : forall es a,
  ranges_disjoint es = true ->
  exists r,
    cu_offset_at_addr (mk_aranges (sorted_by ae_begin es) (map ae_begin (sorted_by ae_begin es))) a = Ok r /\
    forall o, r = Some o <-> exists e, In e es /\ ae_contains e a = true /\ ae_info_offset e = o.
Proof. exact lookup_iff_contained. Qed.
Print Assumptions C13_lookup_iff_contained.

(* ... and None exactly when no tuple contains it *)
Theorem C13_lookup_none_iff : forall es a,
  ranges_disjoint es = true ->
  (cu_offset_at_addr (mk_aranges (sorted_by ae_begin es) (map ae_begin (sorted_by ae_begin es))) a = Ok None
   <-> forall e, In e es -> ae_contains e a = false).
Proof. exact lookup_none_iff. Qed.
Print Assumptions C13_lookup_none_iff.

(* end to end on the bytes, against the executable spec the harness uses *)
Theorem C13_lookup_end_to_end : forall le sets a,
  wf_aranges sets = true -> ranges_disjoint (aranges_entries sets) = true ->
  (do t <- aranges_init le (encode_aranges le sets) (zlen (encode_aranges le sets));
   cu_offset_at_addr t a) = Ok (lookup_spec (aranges_entries sets) a).
Proof. exact aranges_lookup_end_to_end. Qed.
Print Assumptions C13_lookup_end_to_end.

(* a deviation found in the code as shipped (repaired by fix: efe8bbe): the header padding was
   counted from the start of the SECTION.  A well-formed table whose second set (8-byte
   addresses) starts at offset 24 made the old code raise ELFParseError where binutils and LLVM
   print the range ... *)
Theorem C13_aranges_section_padding_refuted :
  exists sets, wf_aranges sets = true /\ ranges_disjoint (aranges_entries sets) = true /\
    aranges_entries sets = [mk_arange_entry 0x1000 0x10 0x40 44 2 8 0] /\
    get_entries_unfixed true false (encode_aranges true sets) (zlen (encode_aranges true sets)) = Err EParse.
Proof. exact aranges_section_padding_refuted. Qed.
Print Assumptions C13_aranges_section_padding_refuted.

(* ... and on tables whose sets all start at a multiple of their tuple size (the domain this
   property's theorems had before the repair) the old and the repaired code agree *)
Theorem C13_aranges_unfixed_agrees_aligned : forall le sets,
  wf_aranges sets = true -> aranges_aligned sets = true ->
  get_entries_unfixed le false (encode_aranges le sets) (zlen (encode_aranges le sets)) =
  get_entries le false (encode_aranges le sets) (zlen (encode_aranges le sets)).
Proof. exact aranges_unfixed_agrees_aligned. Qed.
Print Assumptions C13_aranges_unfixed_agrees_aligned.

(* the deviation found in the code as shipped (DESIGN 5; repaired by a fix: commit): on a table
   whose sets are all empty the old cu_offset_at_addr raised IndexError where the spec says None *)
Theorem C13_lookup_unfixed_refuted :
  exists sets a, wf_aranges sets = true /\ ranges_disjoint (aranges_entries sets) = true /\
    (do t <- aranges_init true (encode_aranges true sets) (zlen (encode_aranges true sets));
     cu_offset_at_addr_unfixed t a) = Err (EPy "IndexError") /\
    lookup_spec (aranges_entries sets) a = None.
Proof. exact lookup_unfixed_refuted. Qed.
Print Assumptions C13_lookup_unfixed_refuted.

(* ... and that is the only difference between the old and the repaired code *)
Theorem C13_lookup_unfixed_agrees : forall t a,
  ar_entries t <> [] -> cu_offset_at_addr_unfixed t a = cu_offset_at_addr t a.
Proof. exact lookup_unfixed_agrees. Qed.
Print Assumptions C13_lookup_unfixed_agrees.

(* boundary of the domain: under plain set-theoretic disjointness (a zero-length tuple is the
   empty set) the statement is false; ranges_disjoint counts a zero-length tuple as
   conflicting with a range it starts in *)
Theorem C13_lookup_setwise_refuted :
  exists es a, ranges_setwise_disjoint es = true /\
    (exists e, In e es /\ ae_contains e a = true) /\
    cu_offset_at_addr (mk_aranges (sorted_by ae_begin es) (map ae_begin (sorted_by ae_begin es))) a = Ok None.
Proof. exact lookup_setwise_refuted. Qed.
Print Assumptions C13_lookup_setwise_refuted.

(* ================================================================ name tables *)
(* the parser builds the dict of all encoded (name, unit offset, absolute entry offset)
   triples inserted in encoded order, and the set headers in order *)
Theorem C13_names_exact : forall le sets,
  wf_names sets = true ->
  namelut_get_entries le (encode_names le sets) (zlen (encode_names le sets)) =
  Ok (dict_of_list bytes_eqb (names_items sets), names_headers sets).
Proof. exact names_exact. Qed.
Print Assumptions C13_names_exact.

(* distinct names: the item list IS the encoded list *)
Theorem C13_names_items_distinct : forall le sets,
  wf_names sets = true -> NoDup (map fst (names_items sets)) ->
  exists p, namelut_get_entries le (encode_names le sets) (zlen (encode_names le sets)) = Ok p /\
            nl_items p = names_items sets /\ nl_cu_headers p = names_headers sets.
Proof. exact names_items_distinct. Qed.
Print Assumptions C13_names_items_distinct.

(* names are byte strings (list Z): two spellings of one identifier with different UTF-8 bytes
   (NFC / NFD, ANGSTROM SIGN / A WITH RING) are two names, no Unicode normalisation.
   in general: each name maps to its LAST encoded entry, iteration order is the order of
   FIRST occurrences, [] raises KeyError exactly for absent names, headers in order *)
Theorem C13_names_mapping : forall le sets,
  wf_names sets = true ->
  exists p, namelut_get_entries le (encode_names le sets) (zlen (encode_names le sets)) = Ok p /\
    (forall name, nl_get p name = assoc_last bytes_eqb (names_items sets) name) /\
    (forall name, nl_getitem p name =
                  match assoc_last bytes_eqb (names_items sets) name with
                  | Some v => Ok v | None => Err (EPy "KeyError") end) /\
    nl_iter p = dedup bytes_eqb (map fst (names_items sets)) /\
    nl_len p = zlen (dedup bytes_eqb (map fst (names_items sets))) /\
    nl_cu_headers p = names_headers sets.
Proof. exact names_mapping. Qed.
Print Assumptions C13_names_mapping.

Theorem C13_names_lazy_memo : forall le stream size st p st',
  nl_force le stream size st = Ok (st', p) ->
  st' = Some p /\ nl_force le stream size st' = Ok (st', p).
Proof. exact nl_force_stable. Qed.
Print Assumptions C13_names_lazy_memo.

(* ================================================================ units *)
(* the header parse at the start of an encoded unit placed anywhere in a stream: v2-v5,
   32/64-bit format, all six v5 unit types, any body *)
Theorem C13_parse_unit_header : forall le u pre post,
  wf_unit u = true ->
  parse_CU_at_offset le (pre ++ encode_unit le u ++ post) (zlen pre) = Ok (unit_at (zlen pre) u).
Proof. exact parse_CU_at_unit. Qed.
Print Assumptions C13_parse_unit_header.

(* get_CU_containing, for units tiling the section and ANY cache state satisfying the
   invariant (bisect-cache invariant + cached offsets start units) *)
Theorem C13_unit_containing : forall le stream size cus,
  tiling 0 cus size ->
  (forall c, In c cus -> parse_CU_at_offset le stream (cu_offset c) = Ok c) ->
  forall c r, cu_inv le stream cus c -> 0 <= r < size ->
  exists u, containing_spec cus r = Some u /\
    snd (get_CU_containing le stream size c r) = Ok u /\
    cu_inv le stream cus (fst (get_CU_containing le stream size c r)).
Proof. exact unit_containing. Qed.
Print Assumptions C13_unit_containing.

Theorem C13_unit_at_exact : forall le stream size cus,
  tiling 0 cus size ->
  (forall c, In c cus -> parse_CU_at_offset le stream (cu_offset c) = Ok c) ->
  forall c u, cu_inv le stream cus c -> In u cus ->
  snd (get_CU_at le stream size c (cu_offset u)) = Ok u /\
  cu_inv le stream cus (fst (get_CU_at le stream size c (cu_offset u))).
Proof. exact unit_at_exact. Qed.
Print Assumptions C13_unit_at_exact.

(* the invariant holds initially and every valid query keeps it while answering the
   stateless spec: so it holds in every reachable state *)
Theorem C13_history_step : forall le stream size cus,
  tiling 0 cus size ->
  (forall c, In c cus -> parse_CU_at_offset le stream (cu_offset c) = Ok c) ->
  forall D (parse_die : cu -> Z -> res D) st o,
  st_inv le stream cus parse_die st -> valid_op cus o = true ->
  snd (di_step parse_die le stream size st o) = answer_spec parse_die cus size o /\
  st_inv le stream cus parse_die (fst (di_step parse_die le stream size st o)).
Proof. exact di_step_spec. Qed.
Print Assumptions C13_history_step.

(* on the bytes: after ANY history h1 of valid queries on a fresh object, every further valid
   history h2 (all lookup orders) is answered by the stateless spec *)
Theorem C13_history_independent : forall D (parse_die : cu -> Z -> res D) le us h1 h2,
  wf_units us = true ->
  forallb (valid_op (section_units us)) h1 = true ->
  forallb (valid_op (section_units us)) h2 = true ->
  let stream := encode_units le us in
  let size := zlen stream in
  let st := fst (di_run parse_die le stream size di_init h1) in
  snd (di_run parse_die le stream size st h2) =
  map (answer_spec parse_die (section_units us) size) h2.
Proof. exact @units_history_exact. Qed.
Print Assumptions C13_history_independent.

(* failed lookups in the history.  Scope: the property speaks of "all lookup orders"; a lookup that
   FAILS (offset-exact lookup handed an offset outside the section, or one at which the unit
   header parse raises: truncated header, unsupported version) is a lookup too, and the answers of
   the valid ones must not depend on it.  Such a lookup leaves the object as it was ... *)
Theorem C13_failed_lookup_changes_nothing : forall le stream size cus D (parse_die : cu -> Z -> res D) st o,
  st_inv le stream cus parse_die st -> lookup_fails le stream size o = true ->
  di_step parse_die le stream size st o = (st, snd (di_step parse_die le stream size di_init o)).
Proof. exact @di_step_failing. Qed.
Print Assumptions C13_failed_lookup_changes_nothing.

(* ... so that in histories where failed lookups stand anywhere between valid ones, the valid ones
   are answered by the stateless spec and the failed ones exactly as a fresh object answers them.
   (Not covered: an offset-exact lookup at a non-unit offset whose bytes happen to PARSE as a unit
   header - get_CU_at is documented as unvalidated and that garbage unit enters the cache.) *)
Theorem C13_history_with_failed_lookups : forall D (parse_die : cu -> Z -> res D) le us h1 h2,
  wf_units us = true ->
  let stream := encode_units le us in
  let size := zlen stream in
  let cus := section_units us in
  let ok := fun o => valid_op cus o || lookup_fails le stream size o in
  forallb ok h1 = true -> forallb ok h2 = true ->
  let st := fst (di_run parse_die le stream size di_init h1) in
  snd (di_run parse_die le stream size st h2) =
  map (fun o => if valid_op cus o then answer_spec parse_die cus size o
                else snd (di_step parse_die le stream size di_init o)) h2.
Proof. exact @units_history_with_failures. Qed.
Print Assumptions C13_history_with_failed_lookups.

(* an arbitrary offset inside the section resolves to the unit whose extent contains it *)
Theorem C13_unit_containing_bytes : forall D (parse_die : cu -> Z -> res D) le us h r,
  wf_units us = true -> forallb (valid_op (section_units us)) h = true ->
  let stream := encode_units le us in
  let size := zlen stream in
  let st := fst (di_run parse_die le stream size di_init h) in
  0 <= r < size ->
  exists u, In u (section_units us) /\ cu_contains u r = true /\
            snd (get_CU_containing le stream size (st_cus st) r) = Ok u.
Proof. exact @unit_containing_exact. Qed.
Print Assumptions C13_unit_containing_bytes.

(* ... and that unit is unique *)
Theorem C13_containing_unique : forall us r u v,
  wf_units us = true -> In u (section_units us) -> In v (section_units us) ->
  cu_contains u r = true -> cu_contains v r = true -> u = v.
Proof. exact containing_unique. Qed.
Print Assumptions C13_containing_unique.

(* an offset-exact lookup returns the unit starting there *)
Theorem C13_unit_at_bytes : forall D (parse_die : cu -> Z -> res D) le us h u,
  wf_units us = true -> forallb (valid_op (section_units us)) h = true ->
  let stream := encode_units le us in
  let size := zlen stream in
  let st := fst (di_run parse_die le stream size di_init h) in
  In u (section_units us) ->
  snd (get_CU_at le stream size (st_cus st) (cu_offset u)) = Ok u.
Proof. exact @unit_at_exact_bytes. Qed.
Print Assumptions C13_unit_at_bytes.

(* a lookup-table entry resolves to the entry at its absolute offset inside its unit *)
Theorem C13_die_from_lut : forall D (parse_die : cu -> Z -> res D) le us h u d,
  wf_units us = true -> forallb (valid_op (section_units us)) h = true ->
  let stream := encode_units le us in
  let size := zlen stream in
  let st := fst (di_run parse_die le stream size di_init h) in
  In u (section_units us) ->
  snd (get_DIE_from_lut_entry parse_die le stream size st (cu_offset u) d) =
  die_spec parse_die (section_units us) size (cu_offset u) d.
Proof. exact @die_from_lut_bytes. Qed.
Print Assumptions C13_die_from_lut.

(* ================================================================ non-vacuity *)
(* an 8-byte-address set at offset 24 (not a multiple of its tuple size 16) between two
   4-byte-address sets, the last one at the odd offset 123 (three free bytes after the second
   set's terminator); a range beginning at
   address 0 in the middle of a set and a zero-length tuple, each followed by further tuples *)
Definition ex_sets : list arange_set :=
  [mk_arange_set 5 0x40 4 [0; 0; 0; 0] [] [];
   mk_arange_set 2 0 8 [1; 2; 3; 4] [(0x1010, 0x20); (0, 8); (0x2000, 0); (0x1000, 0x10)] [5; 6; 7];
   mk_arange_set 2 0x80 4 [9; 9; 9; 9] [(0x10, 8)] [7]].
Example C13_ex_aranges :
  wf_aranges ex_sets = true /\ aranges_aligned ex_sets = false /\
  ranges_disjoint (aranges_entries ex_sets) = true /\
  zlen (encode_aranges false (firstn 2 ex_sets)) = 123 /\
  map (fun e => (ae_begin e, ae_length e)) (aranges_entries ex_sets) =
    [(0x1010, 0x20); (0, 8); (0x2000, 0); (0x1000, 0x10); (0x10, 8)] /\
  get_entries false false (encode_aranges false ex_sets) (zlen (encode_aranges false ex_sets)) =
    Ok (aranges_entries ex_sets) /\
  lookup_spec (aranges_entries ex_sets) 0x100f = Some 0 /\
  lookup_spec (aranges_entries ex_sets) 0x1030 = None /\
  lookup_spec (aranges_entries ex_sets) 0x2000 = None /\
  (do t <- aranges_init false (encode_aranges false ex_sets) (zlen (encode_aranges false ex_sets));
   cu_offset_at_addr t 0) = Ok (Some 0) /\
  (do t <- aranges_init false (encode_aranges false ex_sets) (zlen (encode_aranges false ex_sets));
   cu_offset_at_addr t 0x17) = Ok (Some 0x80).
Proof. vm_compute. repeat split; reflexivity. Qed.

(* ranges ending exactly at 2^32 (4-byte set) and 2^64 (8-byte set) contain their last byte *)
Definition ex_top_sets : list arange_set :=
  [mk_arange_set 2 0x10 4 [0; 0; 0; 0] [(0xFFFF0000, 0x10000)] [];
   mk_arange_set 2 0x20 8 [0; 0; 0; 0] [(0xFFFFFFFFFFFFF000, 0x1000)] []].
Example C13_ex_top_of_address_space :
  wf_aranges ex_top_sets = true /\ ranges_disjoint (aranges_entries ex_top_sets) = true /\
  map (fun a => do t <- aranges_init true (encode_aranges true ex_top_sets) (zlen (encode_aranges true ex_top_sets));
                cu_offset_at_addr t a)
      [0xFFFEFFFF; 0xFFFF0000; 0xFFFFFFFF; 0x100000000; 0xFFFFFFFFFFFFF000; 0xFFFFFFFFFFFFFFFF] =
  [Ok None; Ok (Some 0x10); Ok (Some 0x10); Ok None; Ok (Some 0x20); Ok (Some 0x20)].
Proof. vm_compute. repeat split; reflexivity. Qed.

Definition ex_names : list name_set :=
  [mk_name_set 2 0 0x30 [(11, [109; 97; 105; 110]); (0x20, [195; 169])] [];
   mk_name_set 2 0x30 0x10 [] [1; 2];
   mk_name_set 2 0x40 0x10 [(12, [109; 97; 105; 110])] []].
Example C13_ex_names :
  wf_names ex_names = true /\
  assoc_last bytes_eqb (names_items ex_names) [109; 97; 105; 110] = Some (0x40, 0x4c) /\
  dedup bytes_eqb (map fst (names_items ex_names)) = [[109; 97; 105; 110]; [195; 169]].
Proof. vm_compute. repeat split; reflexivity. Qed.

Definition ex_units : list unit_spec :=
  [mk_unit_spec false 4 0 0 8 0 0 [1; 2];
   mk_unit_spec true 5 4 0 4 77 0 [1];
   mk_unit_spec false 5 2 0 8 99 0x1d [3; 0]].
Definition ex_history : list di_op :=
  [OpContaining 40; OpAt 13; OpDie 0 12; OpContaining 5; OpAt 0; OpContaining 12].
Example C13_ex_units :
  wf_units ex_units = true /\ forallb (valid_op (section_units ex_units)) ex_history = true /\
  map cu_offset (section_units ex_units) = [0; 13; 46] /\
  option_map cu_offset (containing_spec (section_units ex_units) 45) = Some 13.
Proof. vm_compute. repeat split; reflexivity. Qed.

(* failing lookups that satisfy the hypothesis of C13_history_with_failed_lookups: truncated header in
   the last byte, offset outside the section, the first unit's version field taken for a length *)
Example C13_ex_failed_lookups :
  let stream := encode_units true ex_units in
  zlen stream = 72 /\
  forallb (fun o => valid_op (section_units ex_units) o || lookup_fails true stream 72 o)
          [OpAt 13; OpAt 71; OpContaining 50; OpDie 70 71; OpAt 100; OpAt 0; OpAt 4; OpAt 46] = true /\
  map (lookup_fails true stream 72) [OpAt 71; OpDie 70 71; OpAt 100; OpAt 4; OpAt 46] = [true; true; true; true; false].
Proof. vm_compute. repeat split; reflexivity. Qed.
