(* Props/C08.v — property C08: relocation tables decode exactly; RELR expands to the addresses its
   anchors and bitmaps denote; debug-section relocation follows the psABI; errors are not skipped.
   Only statements, closed by [exact]; proofs live in Proofs/C08Proofs.v.
   Model: Model/C08Reloc.v (transliteration of elf/relocation.py, Dynamic.get_relocation_tables,
   ELFFile._read_dwarf_section) over the record layouts, recipe dicts, calc functions and
   machine/flavour dispatch REGENERATED from the live code (Gen/ElfLayouts.v, Gen/C08Recipes.v).
   Spec: Spec/C08Spec.v (gABI entries, RELR proposal, psABI table, reference application). *)
From PV Require Import Base.Fmt Base.Outcome Spec.ElfGabi Spec.C08Spec Spec.C08Hist Gen.ElfLayouts Gen.C08Recipes
     Model.C08Reloc Model.C08Hist Proofs.C08Proofs Proofs.C08Hist.
Open Scope Z_scope.
Open Scope list_scope.

(* ---------------- tables: every entry list, any surrounding bytes, up to entsize-1 slack bytes *)
Theorem C08_rel_roundtrip : forall le is64 es pre tail slack,
  forallb (rent_wf is64 false false) es = true ->
  0 <= slack < rel_entsize is64 false false ->
  iter_relocations (gen_Elf_Rel le is64) (pre ++ encode_table le is64 false false es ++ tail)
                   (zlen pre) (zlen (encode_table le is64 false false es) + slack)
  = Ok (map (rent_view is64 false false) es).
Proof. exact rel_roundtrip. Qed.
Print Assumptions C08_rel_roundtrip.

Theorem C08_rela_roundtrip : forall le is64 es pre tail slack,
  forallb (rent_wf is64 false true) es = true ->
  0 <= slack < rel_entsize is64 false true ->
  iter_relocations (gen_Elf_Rela le is64) (pre ++ encode_table le is64 false true es ++ tail)
                   (zlen pre) (zlen (encode_table le is64 false true es) + slack)
  = Ok (map (rent_view is64 false true) es).
Proof. exact rela_roundtrip. Qed.
Print Assumptions C08_rela_roundtrip.

(* MIPS ELF64: r_sym/r_ssym/r_type3/r_type2/r_type in file order, synthesized r_info *)
Theorem C08_mips64_split : forall le (rela : bool) es pre tail slack,
  forallb (rent_wf true true rela) es = true ->
  0 <= slack < rel_entsize true true rela ->
  iter_relocations (if rela then gen_Elf_Rela_mips64 le else gen_Elf_Rel_mips64 le)
                   (pre ++ encode_table le true true rela es ++ tail)
                   (zlen pre) (zlen (encode_table le true true rela es) + slack)
  = Ok (map (rent_view true true rela) es).
Proof. exact mips64_split. Qed.
Print Assumptions C08_mips64_split.

(* the struct the code selects for (class, machine, flavour) is one of those three *)
Theorem C08_rel_struct_cases : forall le is64 mips rela,
  rel_struct le is64 mips rela =
  if is64 && mips then (if rela then gen_Elf_Rela_mips64 le else gen_Elf_Rel_mips64 le)
  else (if rela then gen_Elf_Rela le is64 else gen_Elf_Rel le is64).
Proof. exact rel_struct_cases. Qed.
Print Assumptions C08_rel_struct_cases.

Theorem C08_entry_roundtrip : forall le is64 mips rela e tail,
  rent_wf is64 (is64 && mips) rela e = true ->
  decode_layout (rel_struct le is64 mips rela) (encode_rent le is64 (is64 && mips) rela e ++ tail)
  = Some (rent_view is64 (is64 && mips) rela e, tail).
Proof. exact rent_roundtrip. Qed.
Print Assumptions C08_entry_roundtrip.

Theorem C08_num_relocations_exact : forall le is64 mips rela es slack,
  forallb (rent_wf is64 (is64 && mips) rela) es = true ->
  0 <= slack < rel_entsize is64 (is64 && mips) rela ->
  num_relocations (rel_struct le is64 mips rela)
                  (zlen (encode_table le is64 (is64 && mips) rela es) + slack) = zlen es.
Proof. exact num_relocations_exact. Qed.
Print Assumptions C08_num_relocations_exact.

Theorem C08_get_relocation_exact : forall le is64 mips rela es pre tail n d,
  forallb (rent_wf is64 (is64 && mips) rela) es = true ->
  (n < length es)%nat ->
  get_relocation (rel_struct le is64 mips rela)
                 (pre ++ encode_table le is64 (is64 && mips) rela es ++ tail) (zlen pre) (Z.of_nat n)
  = Ok (rent_view is64 (is64 && mips) rela (nth n es d)).
Proof. exact get_relocation_exact. Qed.
Print Assumptions C08_get_relocation_exact.

Theorem C08_entsize_checked : forall le is64 mips rela entsize,
  reloc_section_check (rel_struct le is64 mips rela) entsize
  = if entsize =? rel_entsize is64 (is64 && mips) rela then Ok tt else Err EElf.
Proof. exact reloc_section_check_exact. Qed.
Print Assumptions C08_entsize_checked.

(* ---------------- RELR: model = gABI reading for EVERY word list *)
Theorem C08_relr_equal : forall le is64 ws pre tail,
  relr_words_wf is64 ws = true ->
  relr_iter_relocations le is64 (pre ++ encode_relr le is64 ws ++ tail)
                        (zlen pre) (zlen (encode_relr le is64 ws)) (wordsize is64)
  = relr_spec is64 ws.
Proof. exact relr_equal. Qed.
Print Assumptions C08_relr_equal.

Theorem C08_relr_entsize_checked : forall le is64 img off size entsize,
  entsize <> wordsize is64 -> relr_iter_relocations le is64 img off size entsize = Err EElf.
Proof. exact relr_entsize_checked. Qed.
Print Assumptions C08_relr_entsize_checked.

(* ---------------- recipes regenerated from the code = the psABI table *)
(* for every row: the machine+flavour reaches a recipe family, the family has the type, with the
   psABI width, never needing a missing addend, and its (symbolically translated) calc function
   equals the psABI formula modulo 2^(8n) for ALL integers V S P A (A := V for REL) *)
Theorem C08_calc_matches_psabi : forall em rela typ name n f,
  In (em, rela, typ, name, n, f) psabi_table -> row_ok em rela typ n f.
Proof. exact calc_matches_psabi. Qed.
Print Assumptions C08_calc_matches_psabi.

(* conversely the code supports nothing else on the listed machines (R_ARM_CALL aside) *)
Theorem C08_recipes_within_psabi : forall em rela fam typ r,
  In em listed_machines -> family_for em rela = Some fam -> recipe_of fam typ = Some r ->
  (em = EM_ARM /\ typ = 28) \/ psabi_lookup em rela typ <> None.
Proof. exact recipes_within_psabi. Qed.
Print Assumptions C08_recipes_within_psabi.

Theorem C08_dispatch_matches_psabi : forall em rela,
  In em listed_machines ->
  (match family_for em rela with Some _ => true | None => false end) = flavour_ok em rela.
Proof. exact dispatch_matches_psabi. Qed.
Print Assumptions C08_dispatch_matches_psabi.

(* ---------------- application *)
(* one relocation: the transliterated _do_apply_relocation = the reference step *)
Theorem C08_apply_one_refines : forall le is64 em rela symvals symval,
  In em listed_machines ->
  (forall n, 0 <= n < zlen symvals -> symval n = Ok (nth (Z.to_nat n) symvals 0)) ->
  nth 0 symvals 0 = 0 ->
  forall s e,
  all_bytes s = true -> zlen s < 2 ^ 63 ->
  rent_wf is64 (is64 && is_mips em) rela e = true ->
  apply_entry_wf is64 em rela (zlen s) e = true ->
  do_apply_relocation le is64 em (zlen symvals) symval s (rent_view is64 (is64 && is_mips em) rela e)
  = spec_apply_one le is64 em rela symvals s e.
Proof. exact apply_one_refines. Qed.
Print Assumptions C08_apply_one_refines.

(* FRAME: same length, bytes outside [r_offset, r_offset+n) unchanged, the field decodes in the
   file's byte order to the psABI value wrapped to the field width *)
Theorem C08_apply_frame : forall le is64 em rela symvals s e s',
  spec_apply_one le is64 em rela symvals s e = Ok s' ->
  exists n f, psabi_lookup em rela (r_typ e) = Some (n, f) /\
    length s' = length s /\
    (forall i d, (f = FNone \/ Z.of_nat i < r_off e \/ r_off e + Z.of_nat n <= Z.of_nat i) ->
                 nth i s' d = nth i s d) /\
    (f <> FNone ->
     int_decode le (slice s' (Z.to_nat (r_off e)) n)
     = wrap n (eval_formula f (int_decode le (slice s (Z.to_nat (r_off e)) n))
                            (sym_S symvals (r_sym e)) (r_off e)
                            (if rela then r_add e else int_decode le (slice s (Z.to_nat (r_off e)) n)))).
Proof. exact apply_one_frame. Qed.
Print Assumptions C08_apply_frame.

(* the whole list: nothing skipped, nothing else touched *)
Theorem C08_apply_all_frame : forall le is64 em rela symvals es s s',
  spec_apply_all le is64 em rela symvals s es = Ok s' ->
  length s' = length s /\
  (forall e, In e es -> r_sym e < zlen symvals /\ flavour_ok em rela = true /\
                        psabi_lookup em rela (r_typ e) <> None) /\
  (forall i d, forallb (fun e => negb (touches em rela e (Z.of_nat i))) es = true -> nth i s' d = nth i s d).
Proof. exact apply_all_frame. Qed.
Print Assumptions C08_apply_all_frame.

(* sequential composition: entry e's field holds e's value computed on the state left by the
   entries before it, provided no later entry overwrites it *)
Theorem C08_apply_all_field : forall le is64 em rela symvals es1 e es2 s s',
  spec_apply_all le is64 em rela symvals s (es1 ++ e :: es2) = Ok s' ->
  exists s1 n f,
    spec_apply_all le is64 em rela symvals s es1 = Ok s1 /\
    psabi_lookup em rela (r_typ e) = Some (n, f) /\
    (f <> FNone ->
     (forall i, r_off e <= Z.of_nat i < r_off e + Z.of_nat n ->
                forallb (fun e' => negb (touches em rela e' (Z.of_nat i))) es2 = true) ->
     int_decode le (slice s' (Z.to_nat (r_off e)) n)
     = wrap n (eval_formula f (int_decode le (slice s1 (Z.to_nat (r_off e)) n))
                            (sym_S symvals (r_sym e)) (r_off e)
                            (if rela then r_add e else int_decode le (slice s1 (Z.to_nat (r_off e)) n)))).
Proof. exact apply_all_field. Qed.
Print Assumptions C08_apply_all_field.

(* the path of ELFFile._read_dwarf_section(relocate=True) on an image holding the section, its
   .rel/.rela table and the linked symbol table = the reference application *)
Theorem C08_read_dwarf_section_exact :
  forall le is64 em img secs section rs symtab (rela : bool) es syms pre tail pre2 tail2,
  In em listed_machines ->
  find_relocations_for_section secs (s_name section) = Some rs ->
  s_type rs = (if rela then SHT_RELA else SHT_REL) ->
  s_entsize rs = rel_entsize is64 (is64 && is_mips em) rela ->
  nth_error secs (Z.to_nat (s_link rs)) = Some symtab ->
  s_entsize symtab = sym_entsize is64 -> s_size symtab = zlen (encode_symtab le is64 syms) ->
  img = pre ++ encode_table le is64 (is64 && is_mips em) rela es ++ tail ->
  s_off rs = zlen pre -> s_size rs = zlen (encode_table le is64 (is64 && is_mips em) rela es) ->
  img = pre2 ++ encode_symtab le is64 syms ++ tail2 -> s_off symtab = zlen pre2 ->
  forallb (sym_wf is64) syms = true -> snd (nth 0 syms (0, 0)) = 0 ->
  forallb (rent_wf is64 (is64 && is_mips em) rela) es = true ->
  let data := firstn (Z.to_nat (s_size section)) (zskipn (s_off section) img) in
  all_bytes data = true -> zlen data < 2 ^ 63 ->
  forallb (apply_entry_wf is64 em rela (zlen data)) es = true ->
  read_dwarf_section le is64 em img secs section true
  = spec_apply_all le is64 em rela (map snd syms) data es.
Proof. exact read_dwarf_section_exact. Qed.
Print Assumptions C08_read_dwarf_section_exact.

Theorem C08_find_relocations_sound : forall secs name rs,
  find_relocations_for_section secs name = Some rs ->
  In rs secs /\ (s_type rs = SHT_REL \/ s_type rs = SHT_RELA) /\
  (bytes_eqb (s_name rs) (dot_rel ++ name) = true \/ bytes_eqb (s_name rs) (dot_rela ++ name) = true).
Proof. exact find_relocations_sound. Qed.
Print Assumptions C08_find_relocations_sound.

Theorem C08_symtab_value_exact : forall le is64 tail syms pre n d,
  forallb (sym_wf is64) syms = true -> (n < length syms)%nat ->
  symtab_value le is64 (pre ++ encode_symtab le is64 syms ++ tail) (zlen pre) (sym_entsize is64) (Z.of_nat n)
  = Ok (snd (nth n syms d)).
Proof. exact symtab_value_exact. Qed.
Print Assumptions C08_symtab_value_exact.

(* ---------------- errors: exactly the relocation error, never a silent skip *)
Theorem C08_errors_exact : forall le is64 em rela symvals s e,
  let reloc_error := negb (r_sym e <? zlen symvals) || negb (flavour_ok em rela) ||
                     ((em =? EM_MIPS) && rela && is64 && (r_typ e =? 18) && mips64_compound e) ||
                     match psabi_lookup em rela (r_typ e) with None => true | Some _ => false end in
  (reloc_error = true -> spec_apply_one le is64 em rela symvals s e = Err EReloc) /\
  (reloc_error = false ->
     (exists s', spec_apply_one le is64 em rela symvals s e = Ok s') \/
     spec_apply_one le is64 em rela symvals s e = Err EParse).
Proof. exact apply_one_errors. Qed.
Print Assumptions C08_errors_exact.

(* on ANY machine and input the transliterated code applies a relocation only through a recipe *)
Theorem C08_model_never_skips : forall le is64 em nsyms symval s reloc s',
  do_apply_relocation le is64 em nsyms symval s reloc = Ok s' ->
  exists sym typ fam r,
    getf reloc "r_info_sym" = Ok sym /\ sym < nsyms /\ getf reloc "r_info_type" = Ok typ /\
    family_for em (has_field reloc "r_addend") = Some fam /\ recipe_of fam typ = Some r.
Proof. exact model_never_skips. Qed.
Print Assumptions C08_model_never_skips.

Theorem C08_model_reloc_errors : forall le is64 em nsyms symval s reloc sym,
  getf reloc "r_info_sym" = Ok sym ->
  (nsyms <= sym -> do_apply_relocation le is64 em nsyms symval s reloc = Err EReloc) /\
  (forall sv typ, sym < nsyms -> symval sym = Ok sv -> getf reloc "r_info_type" = Ok typ ->
     family_for em (has_field reloc "r_addend") = None ->
     do_apply_relocation le is64 em nsyms symval s reloc = Err EReloc).
Proof. exact model_reloc_errors. Qed.
Print Assumptions C08_model_reloc_errors.

(* ---------------- relocation disabled / absent: the bytes of the section, untouched *)
Theorem C08_no_relocation_when_disabled : forall le is64 em img secs section,
  read_dwarf_section le is64 em img secs section false
  = Ok (firstn (Z.to_nat (s_size section)) (zskipn (s_off section) img)).
Proof. exact no_relocation_when_disabled. Qed.
Print Assumptions C08_no_relocation_when_disabled.

Theorem C08_no_relocation_section : forall le is64 em img secs section,
  find_relocations_for_section secs (s_name section) = None ->
  read_dwarf_section le is64 em img secs section true
  = Ok (firstn (Z.to_nat (s_size section)) (zskipn (s_off section) img)).
Proof. exact no_relocation_section. Qed.
Print Assumptions C08_no_relocation_section.

(* ---------------- dynamic tables *)
Theorem C08_dynamic_tables_exact : forall le is64 em tags segs relsz relasz relrsz pltsz pltrel,
  (first_tag tags DT_REL <> None ->
     first_tag tags DT_RELSZ = Some relsz /\
     first_tag tags DT_RELENT = Some (rel_entsize is64 (is64 && is_mips em) false)) ->
  (first_tag tags DT_RELA <> None ->
     first_tag tags DT_RELASZ = Some relasz /\
     first_tag tags DT_RELAENT = Some (rel_entsize is64 (is64 && is_mips em) true)) ->
  (first_tag tags DT_RELR <> None ->
     first_tag tags DT_RELRSZ = Some relrsz /\ first_tag tags DT_RELRENT = Some (wordsize is64)) ->
  (first_tag tags DT_JMPREL <> None ->
     first_tag tags DT_PLTRELSZ = Some pltsz /\ first_tag tags DT_PLTREL = Some pltrel) ->
  get_relocation_tables le is64 em tags segs
  = Ok (opt_tab (first_tag tags DT_REL) (fun p => TRel "REL" (table_offset segs p) relsz false) ++
        opt_tab (first_tag tags DT_RELA) (fun p => TRel "RELA" (table_offset segs p) relasz true) ++
        opt_tab (first_tag tags DT_RELR) (fun p => TRelr (table_offset segs p) relrsz (wordsize is64)) ++
        opt_tab (first_tag tags DT_JMPREL) (fun p => TRel "JMPREL" (table_offset segs p) pltsz (pltrel =? 7))).
Proof. exact dynamic_tables_exact. Qed.
Print Assumptions C08_dynamic_tables_exact.

Theorem C08_first_tag_exact : forall l1 t v l2,
  forallb (fun p => negb (fst p =? t) && negb (fst p =? 0)) l1 = true ->
  first_tag (l1 ++ (t, v) :: l2) t = Some v.
Proof. exact first_tag_exact. Qed.
Print Assumptions C08_first_tag_exact.

Theorem C08_first_tag_after_null : forall l1 l2 t,
  t <> 0 -> forallb (fun p => negb (fst p =? t)) l1 = true ->
  first_tag (l1 ++ (0, 0) :: l2) t = None.
Proof. exact first_tag_after_null. Qed.
Print Assumptions C08_first_tag_after_null.

Theorem C08_address_offset_exact : forall l1 off vaddr filesz l2 addr,
  forallb (fun sg => match sg with (o, v, fz) => negb ((v <=? addr) && (addr + 1 <=? v + fz)) end) l1 = true ->
  vaddr <= addr < vaddr + filesz ->
  address_offset (l1 ++ (off, vaddr, filesz) :: l2) addr = Some (addr - vaddr + off).
Proof. exact address_offset_exact. Qed.
Print Assumptions C08_address_offset_exact.

(* ---------------- table OBJECTS: every answer is independent of what was asked before *)
(* The RELR object carries the memo `_cached_relocations`; REL/RELA objects carry nothing.  A
   history is any finite list of: start a walk, resume a walk for one item, abandon a walk,
   num_relocations(), get_relocation(n), a complete walk (Spec/C08Hist.v [hop]). *)

(* the lazy generator body, run to its end, is the eager model the RELR theorems above speak about *)
Theorem C08_relr_lazy_walk_refines : forall le is64 img off size,
  relr_iter_relocations le is64 img off size (wordsize is64) = collapse (relr_source le is64 img off size).
Proof. exact relr_source_collapse. Qed.
Print Assumptions C08_relr_lazy_walk_refines.

(* INVARIANT, for every walk source and every history (no side condition): the memo is None or
   holds exactly what a complete walk yields; in particular never a prefix left by an abandoned walk *)
Theorem C08_relr_memo_invariant : forall (src : lazy Z) (h : list hop),
  match r_cache (fold_left (fun s o => fst (relr_hstep src s o)) h relr_new) with
  | None => True
  | Some l => collapse src = Ok l
  end.
Proof. exact relr_memo_invariant. Qed.
Print Assumptions C08_relr_memo_invariant.

(* a table-level question (count, n-th entry, complete walk) put after ANY history whatsoever is
   answered from the gABI reading of the words alone *)
Theorem C08_relr_answers_history_free : forall le is64 ws pre tail (h : list hop) (o : hop),
  relr_words_wf is64 ws = true ->
  table_op o = true -> hop_ok false 0 o = true ->
  let src := relr_source le is64 (pre ++ encode_relr le is64 ws ++ tail) (zlen pre)
                         (zlen (encode_relr le is64 ws)) in
  snd (relr_hstep src (fold_left (fun s o => fst (relr_hstep src s o)) h relr_new) o)
  = snd (spec_step (relr_spec is64 ws) [] o).
Proof. exact relr_answers_history_free. Qed.
Print Assumptions C08_relr_answers_history_free.

(* whole histories, suspended and abandoned generators included: the list of answers of the
   object = the reference answers computed from the expansion *)
Theorem C08_relr_history_exact : forall le is64 ws pre tail (h : list hop) l,
  relr_words_wf is64 ws = true ->
  relr_spec is64 ws = Ok l ->
  forallb (hop_ok false 0) h = true ->
  relr_hist le is64 (pre ++ encode_relr le is64 ws ++ tail) (zlen pre) (zlen (encode_relr le is64 ws))
            (wordsize is64) h
  = Ok (spec_hist (Ok l) h).
Proof. exact relr_history_exact. Qed.
Print Assumptions C08_relr_history_exact.

(* REL / RELA / MIPS64 tables: the same histories are transparent *)
Theorem C08_rel_history_exact : forall le is64 mips rela es pre tail slack,
  forallb (rent_wf is64 (is64 && mips) rela) es = true ->
  0 <= slack < rel_entsize is64 (is64 && mips) rela ->
  forall h : list hop,
  forallb (hop_ok true (zlen es)) h = true ->
  rel_hist (rel_struct le is64 mips rela) (pre ++ encode_table le is64 (is64 && mips) rela es ++ tail)
           (zlen pre) (zlen (encode_table le is64 (is64 && mips) rela es) + slack) h
  = spec_hist (Ok (map (rent_view is64 (is64 && mips) rela) es)) h.
Proof. exact rel_history_exact. Qed.
Print Assumptions C08_rel_history_exact.

(* ---------------- which sections are searched for .rel/.rela<name>: all of them *)
(* the count recorded as the gABI prescribes (e_shnum, or 0 and sh_size of header 0 from 0xff00
   sections on): iter_sections visits every header of the table *)
Theorem C08_sections_all_visible : forall e_shoff table,
  e_shoff <> 0 -> 1 <= zlen table ->
  s_size (hd (mkSec [] 0 0 0 0 0) table) = snd (shnum_fields (zlen table)) ->
  iter_sections e_shoff (fst (shnum_fields (zlen table))) table = table.
Proof. exact sections_all_visible. Qed.
Print Assumptions C08_sections_all_visible.

(* so loading a debug section of such a FILE is read_dwarf_section over its whole section table,
   to which every theorem above applies, however many sections there are *)
Theorem C08_read_dwarf_file_refines : forall le is64 em img e_shoff table section flag,
  e_shoff <> 0 -> 1 <= zlen table ->
  s_size (hd (mkSec [] 0 0 0 0 0) table) = snd (shnum_fields (zlen table)) ->
  read_dwarf_section_file le is64 em img e_shoff (fst (shnum_fields (zlen table))) table section flag
  = read_dwarf_section le is64 em img table section flag.
Proof. exact read_dwarf_file_refines. Qed.
Print Assumptions C08_read_dwarf_file_refines.

(* ---------------- machines outside the supported set: rejected, never skipped *)
Theorem C08_psabi_unlisted : forall em rela typ,
  ~ In em listed_machines -> psabi_lookup em rela typ = None.
Proof. exact psabi_unlisted. Qed.
Print Assumptions C08_psabi_unlisted.

(* an object for a machine that is not listed and for which the code reaches no recipe table,
   whose debug section has a NON-EMPTY relocation table: loading with relocation enabled raises the
   relocation error (as the reference application does); the bytes are not handed out unrelocated *)
Theorem C08_unsupported_machine_rejected :
  forall le is64 em img secs section rs symtab (rela : bool) e es syms pre tail pre2 tail2,
  ~ In em listed_machines -> family_for em rela = None ->
  find_relocations_for_section secs (s_name section) = Some rs ->
  s_type rs = (if rela then SHT_RELA else SHT_REL) ->
  s_entsize rs = rel_entsize is64 (is64 && is_mips em) rela ->
  nth_error secs (Z.to_nat (s_link rs)) = Some symtab ->
  s_entsize symtab = sym_entsize is64 -> s_size symtab = zlen (encode_symtab le is64 syms) ->
  img = pre ++ encode_table le is64 (is64 && is_mips em) rela (e :: es) ++ tail ->
  s_off rs = zlen pre -> s_size rs = zlen (encode_table le is64 (is64 && is_mips em) rela (e :: es)) ->
  img = pre2 ++ encode_symtab le is64 syms ++ tail2 -> s_off symtab = zlen pre2 ->
  forallb (sym_wf is64) syms = true ->
  forallb (rent_wf is64 (is64 && is_mips em) rela) (e :: es) = true ->
  read_dwarf_section le is64 em img secs section true = Err EReloc
  /\ spec_apply_all le is64 em rela (map snd syms)
                    (firstn (Z.to_nat (s_size section)) (zskipn (s_off section) img)) (e :: es) = Err EReloc.
Proof. exact read_dwarf_section_unsupported_machine. Qed.
Print Assumptions C08_unsupported_machine_rejected.

(* ---------------- S is st_value, whatever kind of symbol it is *)
Theorem C08_symbol_value_any_type : forall le is64 name value size sbind styp ol ov shndx pre tail,
  sym_any_wf is64 name value size sbind styp ol ov shndx = true ->
  symtab_value le is64
    (pre ++ encode_layout (spec_Elf_Sym le is64) (sym_vals_of is64 name value size sbind styp ol ov shndx) ++ tail)
    (zlen pre) (sym_entsize is64) 0
  = Ok value.
Proof. exact symbol_value_any_type. Qed.
Print Assumptions C08_symbol_value_any_type.

(* ---------------- through .gnu_debuglink: the caller's flag reaches the separate debug file *)
Theorem C08_debuglink_flag_forwarded : forall le is64 em img secs section own flag,
  dwarf_via_debuglink true false true (read_dwarf_section le is64 em img secs section) own flag
  = read_dwarf_section le is64 em img secs section flag
  /\ dwarf_via_debuglink true false true (read_dwarf_section le is64 em img secs section) own false
     = Ok (firstn (Z.to_nat (s_size section)) (zskipn (s_off section) img)).
Proof. exact debuglink_flag_forwarded. Qed.
Print Assumptions C08_debuglink_flag_forwarded.

(* ---------------- the ELFFile object: get_dwarf_info() called repeatedly, in any order *)
(* for EVERY image and flag sequence: the n-th call answers as a first call with its own flag
   would, and the file image the object holds is unchanged *)
Theorem C08_dwarf_call_own_flag : forall le is64 em img secs section (flags : list bool) n,
  (n < length flags)%nat ->
  nth n (fst (dwarf_calls le is64 em secs section (mkElfObj img) flags)) (Err EFuel)
  = read_dwarf_section le is64 em img secs section (nth n flags false)
  /\ snd (dwarf_calls le is64 em secs section (mkElfObj img) flags) = mkElfObj img.
Proof. exact dwarf_call_own_flag. Qed.
Print Assumptions C08_dwarf_call_own_flag.

(* hence: every relocating call yields the reference application to the RAW section bytes (never
   to bytes an earlier call relocated), every non-relocating call the raw bytes *)
Theorem C08_dwarf_calls_exact :
  forall le is64 em img secs section rs symtab (rela : bool) es syms pre tail pre2 tail2,
  In em listed_machines ->
  find_relocations_for_section secs (s_name section) = Some rs ->
  s_type rs = (if rela then SHT_RELA else SHT_REL) ->
  s_entsize rs = rel_entsize is64 (is64 && is_mips em) rela ->
  nth_error secs (Z.to_nat (s_link rs)) = Some symtab ->
  s_entsize symtab = sym_entsize is64 -> s_size symtab = zlen (encode_symtab le is64 syms) ->
  img = pre ++ encode_table le is64 (is64 && is_mips em) rela es ++ tail ->
  s_off rs = zlen pre -> s_size rs = zlen (encode_table le is64 (is64 && is_mips em) rela es) ->
  img = pre2 ++ encode_symtab le is64 syms ++ tail2 -> s_off symtab = zlen pre2 ->
  forallb (sym_wf is64) syms = true -> snd (nth 0 syms (0, 0)) = 0 ->
  forallb (rent_wf is64 (is64 && is_mips em) rela) es = true ->
  let data := firstn (Z.to_nat (s_size section)) (zskipn (s_off section) img) in
  all_bytes data = true -> zlen data < 2 ^ 63 ->
  forallb (apply_entry_wf is64 em rela (zlen data)) es = true ->
  forall flags : list bool,
  dwarf_calls le is64 em secs section (mkElfObj img) flags
  = (map (fun f : bool => if f then spec_apply_all le is64 em rela (map snd syms) data es else Ok data) flags,
     mkElfObj img).
Proof. exact dwarf_calls_exact. Qed.
Print Assumptions C08_dwarf_calls_exact.

(* ---------------- non-vacuity: the hypotheses are met by concrete, non-trivial inputs *)
(* a RELA entry with a negative addend and a full-width symbol index; a MIPS64 entry with all sub-fields *)
Example C08_ex_entries :
  rent_wf true false true (mkRent 0xfffffffffffffff0 0xffffffff 11 (-2^63) 0 0 0) = true /\
  rent_wf false false false (mkRent 0x10 0xffffff 255 0 0 0 0) = true /\
  rent_wf true true true (mkRent 8 5 18 (-1) 7 2 3) = true /\
  rent_view true true false (mkRent 8 5 18 0 7 2 3) =
    [("r_offset", VZ 8); ("r_sym", VZ 5); ("r_ssym", VZ 7); ("r_type3", VZ 2); ("r_type2", VZ 3);
     ("r_type", VZ 18); ("r_info_sym", VZ 5); ("r_info_ssym", VZ 7); ("r_info_type", VZ 18);
     ("r_info_type2", VZ 3); ("r_info_type3", VZ 2); ("r_info", VZ 0x0000000507020312)]%string.
Proof. repeat split; vm_compute; reflexivity. Qed.

(* anchor + bitmap with bit 1 and bit 63; two consecutive bitmaps; a bitmap without anchor is malformed *)
Example C08_ex_relr :
  relr_spec true [0x1000; 0x8000000000000003] = Ok [0x1000; 0x1008; 0x1008 + 62 * 8] /\
  relr_spec false [0x100; 3; 5] = Ok [0x100; 0x104; 0x104 + 31 * 4 + 4] /\
  relr_spec false [3] = Err EElf /\
  relr_words_wf true [0x1000; 0x8000000000000003] = true.
Proof. repeat split; vm_compute; reflexivity. Qed.

(* x86-64 LE: R_X86_64_PC32 with a negative result wraps to 32 bits; R_X86_64_64 with S > 2^63;
   the model run on the encoded image agrees *)
Example C08_ex_apply :
  let symvals := [0; 0x10; 0xfffffffffffffff0] in
  let es := [mkRent 4 1 2 (-0x20) 0 0 0; mkRent 8 2 1 0x20 0 0 0] in
  let s := [1; 2; 3; 4; 5; 6; 7; 8; 9; 10; 11; 12; 13; 14; 15; 16] in
  apply_wf true EM_X86_64 true symvals s es = true /\
  spec_apply_all true true EM_X86_64 true symvals s es
  = Ok [1; 2; 3; 4; 0xec; 0xff; 0xff; 0xff; 0x10; 0; 0; 0; 0; 0; 0; 0] /\
  spec_apply_all true true EM_386 true symvals s es = Err EReloc.
Proof. repeat split; vm_compute; reflexivity. Qed.

(* a RELR object: a walk abandoned after one item, then a complete walk, the count, an entry, the
   abandoned generator again (finished), a second walk interleaved with the memo being filled *)
Example C08_ex_history :
  let ws := [0x1000; 0x8000000000000003] in
  let h := [HStart; HNext 0; HClose 0; HIter; HNum; HGet 2; HNext 0; HStart; HNext 1; HNum; HNext 1] in
  forallb (hop_ok false 0) h = true /\
  relr_hist true true ([7; 7; 7] ++ encode_relr true true ws ++ [9]) 3 16 8 h
  = Ok [AUnit; AItem 0x1000; AUnit; AList [0x1000; 0x1008; 0x11f8]; AInt 3; AItem 0x11f8; AStop;
        AUnit; AItem 0x1000; AInt 3; AItem 0x1008] /\
  spec_hist (relr_spec true ws) h
  = [AUnit; AItem 0x1000; AUnit; AList [0x1000; 0x1008; 0x11f8]; AInt 3; AItem 0x11f8; AStop;
     AUnit; AItem 0x1000; AInt 3; AItem 0x1008].
Proof. repeat split; vm_compute; reflexivity. Qed.

(* i386 REL: S is added to the in-place addend ONCE per call, whatever calls came before: applying
   the reference twice in a row is a different (wrong) result, so the clause is not vacuous *)
Example C08_ex_repeated_calls :
  let symvals := [0; 0x100] in
  let es := [mkRent 0 1 1 0 0 0 0] in
  let s := [1; 0; 0; 0; 9; 9; 9; 9] in
  map (fun f : bool => if f then spec_apply_all true false EM_386 false symvals s es else Ok s) [true; false; true]
  = [Ok [1; 1; 0; 0; 9; 9; 9; 9]; Ok s; Ok [1; 1; 0; 0; 9; 9; 9; 9]] /\
  spec_apply_all true false EM_386 false symvals [1; 1; 0; 0; 9; 9; 9; 9] es = Ok [1; 2; 0; 0; 9; 9; 9; 9].
Proof. repeat split; vm_compute; reflexivity. Qed.

(* extended numbering: 0xff00 sections are recorded as e_shnum = 0 / sh_size = 0xff00 and all seen;
   reading e_shnum alone would see none of them *)
Example C08_ex_many_sections :
  shnum_fields 0xfeff = (0xfeff, 0) /\ shnum_fields 0xff00 = (0, 0xff00) /\
  num_sections 64 0 0xff00 = 0xff00 /\ num_sections 64 0xfeff 0 = 0xfeff /\
  let table := mkSec [] 0 0 3 0 0 :: [mkSec [46; 114; 101; 108; 46; 120] SHT_REL 0 0 0 8; mkSec [46; 120] 1 0 0 0 0] in
  iter_sections 64 0 table = table /\ find_relocations_for_section (iter_sections 64 0 table) [46; 120] <> None.
Proof. repeat split; try (vm_compute; reflexivity). vm_compute. discriminate. Qed.

(* ARM: R_ARM_ABS32 against a Thumb function symbol (odd st_value) adds the value as it stands;
   RISC-V (not listed, no recipe table in the code): rejected *)
Example C08_ex_arm_thumb_and_riscv :
  spec_apply_all true false EM_ARM false [0; 0x8001] [4; 0; 0; 0; 9; 9] [mkRent 0 1 2 0 0 0 0]
  = Ok [5; 0x80; 0; 0; 9; 9] /\
  sym_any_wf false 7 0x8001 4 1 2 0 0 1 = true /\
  ~ In 243 listed_machines /\ family_for 243 true = None /\ family_for 243 false = None /\
  spec_apply_all true true 243 true [0; 16] [0; 0; 0; 0; 0; 0; 0; 0] [mkRent 0 1 2 0 0 0 0] = Err EReloc.
Proof.
  repeat split; try (vm_compute; reflexivity).
  vm_compute. intros H. repeat (destruct H as [H|H]; [discriminate H|]). exact H.
Qed.

(* one object, two debug sections whose relocation sections link (sh_link) to DIFFERENT symbol
   tables with different values at index 1: each section gets S from its own table *)
Example C08_ex_two_symtabs :
  let n_info := [46; 100; 101; 98; 117; 103; 95; 105; 110; 102; 111] in
  let n_line := [46; 100; 101; 98; 117; 103; 95; 108; 105; 110; 101] in
  let rel := encode_table true true false true [mkRent 0 1 1 0 0 0 0] in
  let img := repeat 0 16 ++ rel ++ rel ++ encode_symtab true true [(0, 0); (0, 0x11)]
                     ++ encode_symtab true true [(0, 0); (0, 0x22)] in
  let s_info := mkSec n_info 1 0 8 0 0 in
  let s_line := mkSec n_line 1 8 8 0 0 in
  let secs := [mkSec [] 0 0 0 0 0; s_info; s_line;
               mkSec (dot_rela ++ n_info) SHT_RELA 16 24 5 24; mkSec (dot_rela ++ n_line) SHT_RELA 40 24 6 24;
               mkSec [] SHT_SYMTAB 64 48 0 24; mkSec [] 11 112 48 0 24] in
  read_dwarf_section true true EM_X86_64 img secs s_info true = Ok [0x11; 0; 0; 0; 0; 0; 0; 0] /\
  read_dwarf_section true true EM_X86_64 img secs s_line true = Ok [0x22; 0; 0; 0; 0; 0; 0; 0].
Proof. split; vm_compute; reflexivity. Qed.
