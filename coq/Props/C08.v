(* Props/C08.v — placeholder while the proofs are being written *)
From PV Require Import Base.Fmt Spec.C08Spec Model.C08Reloc.
Theorem C08_placeholder : True.
Proof. exact I. Qed.
Print Assumptions C08_placeholder.
Example C08_ex : True. Proof. exact I. Qed.
