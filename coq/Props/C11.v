(* Props/C11.v — property C11: the DWARF view is invariant under container encoding.
   Only statements, closed by [exact]; proofs live in Proofs/C11*.v.
   Spec/C11Container.v: [debug_view inflate parse fuel fs e relocate follow] is what a file
   hands to the DWARF reader (configuration, the 19 section slots with content / size /
   address / relocation section, and the view of a supplementary file); the DWARF dump
   (units, entries, line tables, frame tables) is a function of it.  zlib is the variable
   [inflate] (never an axiom): every theorem below is universally quantified over it, the
   only thing assumed is the law [deflated inflate blob content] for the blobs handed to
   a transform.  [parse] (bytes of a linked file -> abstract file) and the file system
   [fs] are arbitrary functions too.
   Model/C11Dwarf.v + Model/C11Elf.v transliterate the code (pinned by the correspondence
   of tools/harness/c11.py, which also runs Spec and Model side by side on every case). *)
From PV Require Import Base.Bytes Base.Outcome Base.Fmt Spec.PrimSpec Spec.ElfGabi Spec.C11Container
  Model.C11Elf Model.C11Dwarf Gen.C11Names
  Proofs.C11Crc Proofs.C11View Proofs.C11Zgnu Proofs.C11Links Proofs.C11Reject Proofs.C11Refine Proofs.C11Seq Proofs.C11Gen Proofs.C11Stored
  Proofs.C11Examples.
From Coq Require Import Lia.
Open Scope list_scope.
Open Scope Z_scope.

(* ======================================================================= CRC-32 *)
(* the bitwise register model of binascii.crc32 = remainder of polynomial long division over GF(2) *)
Theorem C11_crc32_model_spec : forall bs, all_bytes bs = true -> crc32_model bs = crc32_poly bs.
Proof. exact crc32_model_is_poly. Qed.
Print Assumptions C11_crc32_model_spec.

(* _file_crc32 (4096-byte pieces chained through the running value) = CRC of the whole file *)
Theorem C11_file_crc32_whole : forall file, file_crc32 file = crc32_model file.
Proof. exact file_crc32_is_model. Qed.
Print Assumptions C11_file_crc32_whole.

Example C11_ex_crc_check : crc32_poly [49; 50; 51; 52; 53; 54; 55; 56; 57] = 0xCBF43926.
Proof. vm_compute. reflexivity. Qed.

(* ======================================================================= invariance *)
(* gABI (SHF_COMPRESSED + Elf_Chdr + zlib stream): ANY set of sections of ANY file may be
   re-encoded — each stored plainly and completely, not the debug-link carrier, header
   values fitting their fields; reserved word, alignment, new offset and the bytes that
   follow are arbitrary; the blob is ANY complete zlib stream of the content (any level) —
   and the view is the same, for every fuel, file system, relocate and follow_links. *)
Theorem C11_view_invariant_gabi :
  forall (inflate : list Z -> Z -> option (list Z * bool)) (parse : list Z -> option elf)
         (choice : nat -> option gabi_args) (e : elf),
  gabi_choice_ok choice e = true -> gabi_blobs_ok inflate choice e ->
  forall fuel fs relocate follow,
    debug_view inflate parse fuel fs (T_gabi choice e) relocate follow
    = debug_view inflate parse fuel fs e relocate follow.
Proof. exact gabi_view_invariant. Qed.
Print Assumptions C11_view_invariant_gabi.

(* more generally: files whose sections agree pairwise on name and on being a relocation
   section, on address and stored payload where the DWARF reader asks for the name, and on
   the raw bytes where it is the debug-link carrier, are interchangeable *)
Theorem C11_view_depends_on_payloads :
  forall (inflate : list Z -> Z -> option (list Z * bool)) (parse : list Z -> option elf) (e e' : elf),
  e_le e' = e_le e -> e_is64 e' = e_is64 e -> e_machine e' = e_machine e -> e_flags e' = e_flags e ->
  Forall2 (fun s s' =>
             s_name s' = s_name s /\ is_reloc_sec s' = is_reloc_sec s /\
             (observed (s_name s) = true ->
                s_addr s' = s_addr s /\
                stored_payload inflate (e_le e) (e_is64 e) s' = stored_payload inflate (e_le e) (e_is64 e) s) /\
             (s_name s = n_debuglink -> s_stream s' = s_stream s))
          (e_secs e) (e_secs e') ->
  forall relocate fuel fs follow,
    debug_view inflate parse fuel fs e' relocate follow = debug_view inflate parse fuel fs e relocate follow.
Proof. exact secs_equiv_view. Qed.
Print Assumptions C11_view_depends_on_payloads.

(* keep-debug: dropping the contents of every section the DWARF reader never asks for
   (SHT_NOBITS, arbitrary bytes at its offset) changes nothing — unconditionally *)
Theorem C11_view_invariant_keep_debug :
  forall (inflate : list Z -> Z -> option (list Z * bool)) (parse : list Z -> option elf)
         (fill : nat -> list Z) (e : elf) fuel fs relocate follow,
    debug_view inflate parse fuel fs (T_keep_debug fill e) relocate follow
    = debug_view inflate parse fuel fs e relocate follow.
Proof. exact keep_debug_view_invariant. Qed.
Print Assumptions C11_view_invariant_keep_debug.

(* legacy GNU (".debug_X" renamed ".zdebug_X", "ZLIB" + 8-byte big-endian size + zlib
   stream), decided PER NAME, relocation sections renamed along; file in the plain naming,
   no phantom bytes.  Files mixing both namings are covered (any subset of names). *)
Theorem C11_view_invariant_zgnu :
  forall (inflate : list Z -> Z -> option (list Z * bool)) (parse : list Z -> option elf)
         (choice : nat -> option zgnu_args) (e : elf),
  zgnu_choice_ok choice e = true -> zgnu_blobs_ok inflate choice e ->
  plain_names e = true -> no_phantom e = true ->
  forall fuel fs relocate follow,
    debug_view inflate parse fuel fs (T_zgnu choice e) relocate follow
    = debug_view inflate parse fuel fs e relocate follow.
Proof. exact zgnu_view_invariant. Qed.
Print Assumptions C11_view_invariant_zgnu.

(* separate debug file: a file without .debug_info/.zdebug_info to which a .gnu_debuglink
   (name, NUL, zero padding to 4, CRC in the file's byte order) is appended shows, when
   links are followed, exactly the view of the linked file — in particular the view of the
   original when the link names a copy of it *)
Theorem C11_view_through_debuglink :
  forall (inflate : list Z -> Z -> option (list Z * bool)) (parse : list Z -> option elf)
         es name pad crc off tail load dbg ed,
  presence es true = false -> debuglink_ok name pad crc = true ->
  load name = Some dbg -> crc32_poly dbg = crc -> parse dbg = Some ed ->
  forall fuel relocate,
  debug_view inflate parse (S fuel) (Some load)
             (add_section (debuglink_sec (e_le es) name pad crc off tail) es) relocate true
  = debug_view inflate parse fuel (Some load) ed relocate true.
Proof. exact debuglink_view. Qed.
Print Assumptions C11_view_through_debuglink.

(* the objcopy workflow: stripped file + link to a keep-debug copy of the original shows the
   view of the original *)
Theorem C11_only_keep_debug_workflow :
  forall (inflate : list Z -> Z -> option (list Z * bool)) (parse : list Z -> option elf)
         es name pad crc off tail load dbg e fill,
  presence es true = false -> debuglink_ok name pad crc = true ->
  load name = Some dbg -> crc32_poly dbg = crc -> parse dbg = Some (T_keep_debug fill e) ->
  forall fuel relocate,
  debug_view inflate parse (S fuel) (Some load)
             (add_section (debuglink_sec (e_le es) name pad crc off tail) es) relocate true
  = debug_view inflate parse fuel (Some load) e relocate true.
Proof. exact keep_debug_workflow. Qed.
Print Assumptions C11_only_keep_debug_workflow.

(* ... and when the link is not followed (no loader, follow_links=False, or the file has
   debug info of its own) it is inert *)
Theorem C11_debuglink_inert :
  forall (inflate : list Z -> Z -> option (list Z * bool)) (parse : list Z -> option elf)
         es le name pad crc off tail fs follow,
  fs = None \/ follow = false \/ presence es true = true ->
  forall fuel relocate,
  debug_view inflate parse (S fuel) fs (add_section (debuglink_sec le name pad crc off tail) es) relocate follow
  = own_view inflate parse fs es relocate follow.
Proof. exact debuglink_inert. Qed.
Print Assumptions C11_debuglink_inert.

(* a debug link whose checksum does not match its target is rejected (specification) *)
Theorem C11_debuglink_crc_mismatch_no_view :
  forall (inflate : list Z -> Z -> option (list Z * bool)) (parse : list Z -> option elf)
         es name pad crc off tail load dbg,
  presence es true = false -> debuglink_ok name pad crc = true ->
  load name = Some dbg -> crc32_poly dbg <> crc ->
  forall fuel relocate,
  debug_view inflate parse (S fuel) (Some load)
             (add_section (debuglink_sec (e_le es) name pad crc off tail) es) relocate true = None.
Proof. exact debuglink_crc_mismatch. Qed.
Print Assumptions C11_debuglink_crc_mismatch_no_view.

(* supplementary file behind .gnu_debugaltlink (name, NUL, 20-byte build id, anything):
   with a loader and follow_links the supplementary file's own view becomes v_sup; without
   either it is None; the file's slots are untouched except the carrier's own slot *)
Theorem C11_view_altlink :
  forall (inflate : list Z -> Z -> option (list Z * bool)) (parse : list Z -> option elf)
         e name id rest off tail load b esup sl slsup relocate,
  no_phantom e = true -> own_slots inflate e relocate = Some sl -> nth SLOT_SUP sl None = None ->
  no_nul name = true -> length id = 20%nat ->
  load name = Some b -> parse b = Some esup ->
  own_slots inflate esup true = Some slsup -> sup_path (e_le esup) slsup <> None ->
  let body := altlink_body name (id ++ rest) in
  let d := mkDesc body (zlen body) 0 (if relocate then reloc_index e n_debugaltlink else None) in
  let e' := add_section (link_section n_debugaltlink body off tail) e in
  own_view inflate parse (Some load) e' relocate true =
    Some (mkView (config_of e) (set_nth SLOT_ALTLINK (Some d) sl) (Some (config_of esup, slsup))) /\
  own_view inflate parse None e' relocate true =
    Some (mkView (config_of e) (set_nth SLOT_ALTLINK (Some d) sl) None) /\
  forall fs, own_view inflate parse fs e' relocate false =
    Some (mkView (config_of e) (set_nth SLOT_ALTLINK (Some d) sl) None).
Proof. exact altlink_view. Qed.
Print Assumptions C11_view_altlink.

(* the same file behind a DWARF 5 .debug_sup (version, is_supplementary = 0, name, NUL, rest):
   the same supplementary view *)
Theorem C11_view_debugsup :
  forall (inflate : list Z -> Z -> option (list Z * bool)) (parse : list Z -> option elf)
         e version name rest off tail load b esup sl slsup relocate,
  no_phantom e = true -> own_slots inflate e relocate = Some sl ->
  no_nul name = true ->
  load name = Some b -> parse b = Some esup ->
  own_slots inflate esup true = Some slsup -> sup_path (e_le esup) slsup <> None ->
  let body := debugsup_body (e_le e) version 0 name rest in
  let d := mkDesc body (zlen body) 0 (if relocate then reloc_index e n_debug_sup else None) in
  let e' := add_section (link_section n_debug_sup body off tail) e in
  own_view inflate parse (Some load) e' relocate true =
    Some (mkView (config_of e) (set_nth SLOT_SUP (Some d) sl) (Some (config_of esup, slsup))) /\
  own_view inflate parse None e' relocate true =
    Some (mkView (config_of e) (set_nth SLOT_SUP (Some d) sl) None) /\
  forall fs, own_view inflate parse fs e' relocate false =
    Some (mkView (config_of e) (set_nth SLOT_SUP (Some d) sl) None).
Proof. exact debugsup_view. Qed.
Print Assumptions C11_view_debugsup.

(* composition (two hops): stripped file --.gnu_debuglink--> debug file --.gnu_debugaltlink /
   .debug_sup--> supplementary file.  The loader is handed down: through the link one sees the
   debug file's own view INCLUDING the supplementary view, exactly as when the debug file is
   opened directly with the same loader *)
Theorem C11_view_two_hop :
  forall (inflate : list Z -> Z -> option (list Z * bool)) (parse : list Z -> option elf)
         es name pad crc off tail load dbg ed,
  presence es true = false -> debuglink_ok name pad crc = true ->
  load name = Some dbg -> crc32_poly dbg = crc -> parse dbg = Some ed ->
  sec_named ed n_debuglink = None ->
  forall fuel relocate,
  debug_view inflate parse (S (S fuel)) (Some load)
             (add_section (debuglink_sec (e_le es) name pad crc off tail) es) relocate true
  = own_view inflate parse (Some load) ed relocate true.
Proof. exact two_hop_view. Qed.
Print Assumptions C11_view_two_hop.

Theorem C11_view_two_hop_altlink :
  forall (inflate : list Z -> Z -> option (list Z * bool)) (parse : list Z -> option elf)
         es name pad crc off tail load dbg e supname id rest off2 tail2 b esup sl slsup relocate,
  presence es true = false -> debuglink_ok name pad crc = true ->
  load name = Some dbg -> crc32_poly dbg = crc ->
  parse dbg = Some (add_section (link_section n_debugaltlink (altlink_body supname (id ++ rest)) off2 tail2) e) ->
  sec_named e n_debuglink = None ->
  no_phantom e = true -> own_slots inflate e relocate = Some sl -> nth SLOT_SUP sl None = None ->
  no_nul supname = true -> length id = 20%nat ->
  load supname = Some b -> parse b = Some esup ->
  own_slots inflate esup true = Some slsup -> sup_path (e_le esup) slsup <> None ->
  forall fuel,
  debug_view inflate parse (S (S fuel)) (Some load)
             (add_section (debuglink_sec (e_le es) name pad crc off tail) es) relocate true
  = Some (mkView (config_of e)
            (set_nth SLOT_ALTLINK
               (Some (mkDesc (altlink_body supname (id ++ rest)) (zlen (altlink_body supname (id ++ rest))) 0
                             (if relocate then reloc_index e n_debugaltlink else None))) sl)
            (Some (config_of esup, slsup))).
Proof. exact two_hop_altlink. Qed.
Print Assumptions C11_view_two_hop_altlink.

Theorem C11_view_two_hop_debugsup :
  forall (inflate : list Z -> Z -> option (list Z * bool)) (parse : list Z -> option elf)
         es name pad crc off tail load dbg e version supname rest off2 tail2 b esup sl slsup relocate,
  presence es true = false -> debuglink_ok name pad crc = true ->
  load name = Some dbg -> crc32_poly dbg = crc ->
  parse dbg = Some (add_section (link_section n_debug_sup (debugsup_body (e_le e) version 0 supname rest) off2 tail2) e) ->
  sec_named e n_debuglink = None ->
  no_phantom e = true -> own_slots inflate e relocate = Some sl ->
  no_nul supname = true ->
  load supname = Some b -> parse b = Some esup ->
  own_slots inflate esup true = Some slsup -> sup_path (e_le esup) slsup <> None ->
  forall fuel,
  debug_view inflate parse (S (S fuel)) (Some load)
             (add_section (debuglink_sec (e_le es) name pad crc off tail) es) relocate true
  = Some (mkView (config_of e)
            (set_nth SLOT_SUP
               (Some (mkDesc (debugsup_body (e_le e) version 0 supname rest)
                             (zlen (debugsup_body (e_le e) version 0 supname rest)) 0
                             (if relocate then reloc_index e n_debug_sup else None))) sl)
            (Some (config_of esup, slsup))).
Proof. exact two_hop_debugsup. Qed.
Print Assumptions C11_view_two_hop_debugsup.

(* ======================================================================= the code's data *)
(* regenerated from the live code on every run (Gen/C11Names.v): the section names
   get_dwarf_info asks for and the DWARFInfo parameter each feeds, the names of
   has_dwarf_info and of the link section, the constants of the legacy framing, the shapes
   of Gnu_debuglink / Dwarf_debugsup / Dwarf_debugaltlink and the tabulated Padding lambda
   equal what Spec and Model use *)
Theorem C11_gen_tables_match_spec :
  map snd gen_slots = spec_slot_names /\
  map fst gen_slots = spec_slot_attrs /\
  map ascii_bytes (map snd gen_slots) = section_names /\
  map ascii_bytes gen_presence_names = [n_debug_info; n_zdebug_info; n_eh_frame] /\
  forallb (fun n => bytes_eqb (ascii_bytes n) n_debuglink) gen_link_names = true /\
  gen_zdebug_magic = ZLIB_MAGIC /\ gen_zdebug_size_fmt = ">Q"%string /\
  gen_zdebug_min_size = 12 /\ gen_zdebug_chunk = 4096 /\
  gen_debuglink_shape_le = spec_debuglink_shape true /\ gen_debuglink_shape_be = spec_debuglink_shape false /\
  gen_debugsup_shape_le = spec_debugsup_shape true /\ gen_debugsup_shape_be = spec_debugsup_shape false /\
  gen_altlink_shape_le = spec_altlink_shape /\ gen_altlink_shape_be = spec_altlink_shape /\
  gen_debuglink_padding_le = map (fun k => 3 - k mod 4) upto12 /\
  gen_debuglink_padding_be = map (fun k => 3 - k mod 4) upto12 /\
  map (fun k => Z.of_nat (debuglink_padlen (repeat 1 (Z.to_nat k)))) upto12 = gen_debuglink_padding_le.
Proof. exact gen_tables_match. Qed.
Print Assumptions C11_gen_tables_match_spec.

(* ======================================================================= presence *)
(* has_dwarf_info(strict) of the model = the formula of the property, for every file whose
   Section objects can be constructed ... *)
Theorem C11_presence_exact : forall e strict, constructible e = true ->
  has_dwarf_info e strict = Ok (presence e strict).
Proof. exact presence_exact. Qed.
Print Assumptions C11_presence_exact.

(* ... which is every file the model of ELFFile() returns, for all byte strings *)
Theorem C11_presence_exact_img : forall img e strict, parse_image img = Ok e ->
  img_has_dwarf_info img strict = Ok (presence e strict).
Proof. exact img_presence_exact. Qed.
Print Assumptions C11_presence_exact_img.

(* ======================================================================= rejections (model of the code) *)
Theorem C11_link_rejected_on_crc_mismatch :
  forall (inflate : list Z -> Z -> option (list Z * bool)) f load e relocate dls filename checksum ext,
  get_section_by_name e n_debuglink = Ok (Some dls) ->
  has_dwarf_info e true = Ok false ->
  gnu_debuglink_parse (e_le e) (s_stream (sc_sec dls)) = Ok (filename, checksum) ->
  load filename = Some ext -> all_bytes ext = true -> crc32_poly ext <> checksum ->
  get_dwarf_info inflate (S f) (Some load) e relocate true = Err EElf.
Proof. exact link_rejected_on_crc_mismatch. Qed.
Print Assumptions C11_link_rejected_on_crc_mismatch.

(* legacy framing: size <= 12, magic other than "ZLIB", or declared size <> inflated size:
   ELFCompressionError (an exception, not an assert statement: commit 30d0c52) *)
Theorem C11_zdebug_bad_framing_rejected :
  forall (inflate : list Z -> Z -> option (list Z * bool)) d,
  zdebug_bad inflate d -> decompress_dwarf_section inflate d = Err ECompress.
Proof. exact zdebug_bad_framing_rejected. Qed.
Print Assumptions C11_zdebug_bad_framing_rejected.

Theorem C11_zdebug_bad_framing_no_payload :
  forall (inflate : list Z -> Z -> option (list Z * bool)) raw size,
  size <= 12 \/ firstn 4 raw <> ZLIB_MAGIC \/
  (exists out eof, inflate (skipn 12 raw) 0 = Some (out, eof) /\ be_decode (firstn 8 (skipn 4 raw)) <> zlen out) ->
  zdebug_payload inflate raw size = None.
Proof. exact spec_zdebug_bad_framing_rejected. Qed.
Print Assumptions C11_zdebug_bad_framing_no_payload.

(* gABI: a declared ch_size different from the inflated size (smaller OR larger) is
   rejected with ELFCompressionError, for every complete zlib stream *)
Theorem C11_declared_size_mismatch_rejected :
  forall (inflate : list Z -> Z -> option (list Z * bool)) e sc p,
  sc_compressed sc = true -> sc_ctype sc = ELFCOMPRESS_ZLIB -> s_type (sc_sec sc) <> SHT_NOBITS ->
  deflated inflate (compressed_bytes e sc) p ->
  0 <= sc_dsize sc < 2 ^ 63 -> sc_dsize sc <> zlen p ->
  section_data inflate e sc = Err ECompress.
Proof. exact declared_size_mismatch_rejected. Qed.
Print Assumptions C11_declared_size_mismatch_rejected.

Theorem C11_declared_size_mismatch_no_payload :
  forall (inflate : list Z -> Z -> option (list Z * bool)) le is64 s h t p,
  decode_layout (spec_Elf_Chdr le is64) (s_stream s) = Some (h, t) ->
  is_nobits s = false -> rec_z h "ch_type" = ELFCOMPRESS_ZLIB ->
  deflated inflate (py_read (s_size s - Z.of_nat (chdr_size is64)) (skipn (chdr_size is64) (s_stream s))) p ->
  0 <= rec_z h "ch_size" < 2 ^ 63 -> rec_z h "ch_size" <> zlen p ->
  gabi_payload inflate le is64 s = None.
Proof. exact spec_declared_size_mismatch_rejected. Qed.
Print Assumptions C11_declared_size_mismatch_no_payload.

(* what the code did before commit d25be29 (Section.data without the decomp.eof test):
   a declared size smaller than the inflated size was accepted and the data truncated *)
Theorem C11_declared_size_smaller_accepted_before_repair :
  deflated inflate_stored (compressed_bytes refute_elf refute_section) [7; 9] /\
  sc_dsize refute_section < zlen [7; 9] /\
  make_section refute_elf refute_sec = Ok refute_section /\
  section_data_gen inflate_stored false refute_elf refute_section = Ok [7] /\
  section_data inflate_stored refute_elf refute_section = Err ECompress.
Proof. exact declared_size_smaller_accepted_before_repair. Qed.
Print Assumptions C11_declared_size_smaller_accepted_before_repair.

(* ======================================================================= the model of the code computes the specification *)
(* get_dwarf_info of Model/C11Dwarf.v returns a DWARFInfo whose view is debug_view, and raises
   exactly when there is no view — for every constructible file (every file parse_image returns),
   every fuel, loader returning byte strings, relocate, follow_links; the oracle refuses
   max_length >= 2^63 as CPython does.  So the theorems above are theorems about the model. *)
Theorem C11_model_refines_spec :
  forall (inflate : list Z -> Z -> option (list Z * bool)),
  (forall d n, 2 ^ 63 <= n -> inflate d n = None) ->
  forall (loader : option (list Z -> option (list Z))),
  (forall (load : list Z -> option (list Z)) (n b : list Z),
     loader = Some load -> load n = Some b -> all_bytes b = true) ->
  forall fuel e relocate follow, constructible e = true ->
  res_view (get_dwarf_info inflate fuel loader e relocate follow)
  = debug_view inflate parse_opt fuel loader e relocate follow.
Proof. exact model_refines_spec. Qed.
Print Assumptions C11_model_refines_spec.

Theorem C11_model_view_invariant_gabi :
  forall (inflate : list Z -> Z -> option (list Z * bool)),
  (forall d n, 2 ^ 63 <= n -> inflate d n = None) ->
  forall (loader : option (list Z -> option (list Z))),
  (forall (load : list Z -> option (list Z)) (n b : list Z),
     loader = Some load -> load n = Some b -> all_bytes b = true) ->
  forall choice e,
  constructible e = true -> gabi_choice_ok choice e = true -> gabi_blobs_ok inflate choice e ->
  forall fuel relocate follow,
    res_view (get_dwarf_info inflate fuel loader (T_gabi choice e) relocate follow)
    = res_view (get_dwarf_info inflate fuel loader e relocate follow).
Proof. exact model_gabi_invariant. Qed.
Print Assumptions C11_model_view_invariant_gabi.

Theorem C11_model_view_invariant_zgnu :
  forall (inflate : list Z -> Z -> option (list Z * bool)),
  (forall d n, 2 ^ 63 <= n -> inflate d n = None) ->
  forall (loader : option (list Z -> option (list Z))),
  (forall (load : list Z -> option (list Z)) (n b : list Z),
     loader = Some load -> load n = Some b -> all_bytes b = true) ->
  forall choice e,
  constructible e = true -> zgnu_choice_ok choice e = true -> zgnu_blobs_ok inflate choice e ->
  plain_names e = true -> no_phantom e = true ->
  forall fuel relocate follow,
    res_view (get_dwarf_info inflate fuel loader (T_zgnu choice e) relocate follow)
    = res_view (get_dwarf_info inflate fuel loader e relocate follow).
Proof. exact model_zgnu_invariant. Qed.
Print Assumptions C11_model_view_invariant_zgnu.

(* call sequences on ONE ELFFile object (state = the cached section name map): the n-th answer
   is the answer of a fresh object to the n-th call's own (relocate, follow_links) ... *)
Theorem C11_calls_stateless :
  forall (inflate : list Z -> Z -> option (list Z * bool)) fuel loader e,
  constructible e = true -> forall calls st, st_valid e st ->
  obj_run inflate fuel loader e st calls
  = map (fun c => get_dwarf_info inflate fuel loader e (fst c) (snd c)) calls.
Proof. exact calls_stateless. Qed.
Print Assumptions C11_calls_stateless.

(* ... and shows the specification's view of those flags, whatever was called before *)
Theorem C11_calls_views :
  forall (inflate : list Z -> Z -> option (list Z * bool)) fuel loader e,
  (forall d n, 2 ^ 63 <= n -> inflate d n = None) ->
  (forall (load : list Z -> option (list Z)) (n b : list Z),
     loader = Some load -> load n = Some b -> all_bytes b = true) ->
  constructible e = true -> forall calls,
  map res_view (obj_run inflate fuel loader e None calls)
  = map (fun c => debug_view inflate parse_opt fuel loader e (fst c) (snd c)) calls.
Proof. exact calls_views. Qed.
Print Assumptions C11_calls_views.

(* the transforms keep a file constructible, so they can be iterated and mixed *)
Theorem C11_transforms_constructible : forall e, constructible e = true ->
  (forall choice, gabi_choice_ok choice e = true -> constructible (T_gabi choice e) = true) /\
  (forall choice, zgnu_choice_ok choice e = true -> constructible (T_zgnu choice e) = true).
Proof. exact (fun e Hc => conj (fun ch H => gabi_constructible ch e H Hc) (fun ch H => zgnu_constructible ch e H Hc)). Qed.
Print Assumptions C11_transforms_constructible.

(* ======================================================================= non-vacuity *)
(* the laws assumed of zlib are jointly satisfiable: the stored codec obeys them for every content *)
Example C11_ex_oracle_law_satisfiable :
  (forall p, deflated inflate_stored p p) /\ (forall d n, 2 ^ 63 <= n -> inflate_stored d n = None).
Proof.
  split; [exact stored_deflated|]. intros d n Hn. unfold inflate_stored.
  destruct (Z.eqb_spec n 0) as [->|_]; [lia|].
  destruct (Z.leb_spec (2 ^ 63) n) as [_|H]; [reflexivity|lia].
Qed.

(* the model on a concrete re-encoded file: a DWARFInfo, the same as for the original *)
Example C11_ex_model :
  res_view (get_dwarf_info inflate_stored 2 None (T_gabi ex_gabi_choice ex_elf) true true) <> None /\
  res_view (get_dwarf_info inflate_stored 2 None (T_zgnu ex_zgnu_choice ex_elf) true true)
  = res_view (get_dwarf_info inflate_stored 2 None ex_elf true true).
Proof. split; [vm_compute; discriminate|vm_compute; reflexivity]. Qed.

(* gABI: the hypotheses hold of a concrete file and choice, the transform changes the file,
   and the (equal) views are not the trivial None *)
Example C11_ex_gabi :
  gabi_choice_ok ex_gabi_choice ex_elf = true /\ gabi_blobs_ok inflate_stored ex_gabi_choice ex_elf /\
  T_gabi ex_gabi_choice ex_elf <> ex_elf /\
  debug_view inflate_stored ex_parse 2 None (T_gabi ex_gabi_choice ex_elf) true true <> None /\
  debug_view inflate_stored ex_parse 2 None (T_gabi ex_gabi_choice ex_elf) true true
  = debug_view inflate_stored ex_parse 2 None ex_elf true true.
Proof.
  split; [reflexivity|]. split; [apply stored_gabi_blobs_ok; reflexivity|].
  split; [discriminate|]. split; [vm_compute; discriminate|].
  apply C11_view_invariant_gabi; [reflexivity|apply stored_gabi_blobs_ok; reflexivity].
Qed.

(* keep-debug changes the file (.text loses its contents) *)
Example C11_ex_keep_debug :
  T_keep_debug (fun _ => [1; 2; 3]) ex_elf <> ex_elf /\
  debug_view inflate_stored ex_parse 2 None (T_keep_debug (fun _ => [1; 2; 3]) ex_elf) true true
  = debug_view inflate_stored ex_parse 2 None ex_elf true true.
Proof. split; [discriminate|apply C11_view_invariant_keep_debug]. Qed.

(* legacy: both .debug_info sections and (by renaming) .rela.debug_info are involved;
   the relocation section is still found, at the same index *)
Example C11_ex_zgnu :
  zgnu_choice_ok ex_zgnu_choice ex_elf = true /\ zgnu_blobs_ok inflate_stored ex_zgnu_choice ex_elf /\
  plain_names ex_elf = true /\ no_phantom ex_elf = true /\
  map s_name (e_secs (T_zgnu ex_zgnu_choice ex_elf)) =
    map ascii_bytes [".text"; ".zdebug_info"; ".zdebug_info"; ".debug_abbrev"; ".rela.zdebug_info"; ".eh_frame"]%string /\
  option_map (fun v => option_map d_reloc (nth 0 (v_slots v) None))
             (debug_view inflate_stored ex_parse 2 None (T_zgnu ex_zgnu_choice ex_elf) true true)
    = Some (Some (Some 4%nat)) /\
  debug_view inflate_stored ex_parse 2 None (T_zgnu ex_zgnu_choice ex_elf) true true
  = debug_view inflate_stored ex_parse 2 None ex_elf true true.
Proof.
  split; [reflexivity|]. split; [apply stored_zgnu_blobs_ok; reflexivity|].
  split; [reflexivity|]. split; [reflexivity|]. split; [reflexivity|]. split; [vm_compute; reflexivity|].
  apply C11_view_invariant_zgnu; try reflexivity. apply stored_zgnu_blobs_ok; reflexivity.
Qed.

(* the per-name hypothesis is needed: re-encoding only the later of two .debug_info
   sections changes which section the name denotes, and the view *)
Example C11_ex_zgnu_per_name_needed :
  zgnu_choice_ok ex_zgnu_bad_choice ex_elf = false /\
  debug_view inflate_stored ex_parse 2 None (T_zgnu ex_zgnu_bad_choice ex_elf) true true
  <> debug_view inflate_stored ex_parse 2 None ex_elf true true.
Proof. split; [reflexivity|vm_compute; discriminate]. Qed.

(* debug link: right CRC -> the linked file's view (not None); wrong CRC -> rejected *)
Example C11_ex_debuglink :
  presence ex_stripped true = false /\ debuglink_ok ex_dbg_name ex_pad ex_crc = true /\
  debug_view inflate_stored ex_parse 3 (Some ex_load)
    (add_section (debuglink_sec true ex_dbg_name ex_pad ex_crc 200 [1]) ex_stripped) true true
  = debug_view inflate_stored ex_parse 2 (Some ex_load) ex_elf true true /\
  debug_view inflate_stored ex_parse 2 (Some ex_load) ex_elf true true <> None /\
  debug_view inflate_stored ex_parse 3 (Some ex_load)
    (add_section (debuglink_sec true ex_dbg_name ex_pad (ex_crc + 1) 200 [1]) ex_stripped) true true = None.
Proof.
  split; [reflexivity|]. split; [vm_compute; reflexivity|].
  split; [apply (C11_view_through_debuglink inflate_stored ex_parse ex_stripped ex_dbg_name ex_pad ex_crc 200 [1]
                   ex_load ex_dbg_bytes ex_elf); reflexivity|].
  split; [vm_compute; discriminate|].
  apply (C11_debuglink_crc_mismatch_no_view inflate_stored ex_parse ex_stripped ex_dbg_name ex_pad (ex_crc + 1) 200 [1]
           ex_load ex_dbg_bytes); try reflexivity. vm_compute. discriminate.
Qed.

(* supplementary link in both encodings: same supplementary view *)
Example C11_ex_sup :
  option_map v_sup (own_view inflate_stored ex_parse (Some ex_load)
     (add_section (link_section n_debugaltlink (altlink_body ex_dbg_name (ex_id ++ [])) 300 []) ex_stripped) true true)
  = option_map v_sup (own_view inflate_stored ex_parse (Some ex_load)
     (add_section (link_section n_debug_sup (debugsup_body true 5 0 ex_dbg_name [20]) 300 []) ex_stripped) true true) /\
  option_map v_sup (own_view inflate_stored ex_parse (Some ex_load)
     (add_section (link_section n_debugaltlink (altlink_body ex_dbg_name (ex_id ++ [])) 300 []) ex_stripped) true true)
  = Some (option_map (fun sl => (config_of ex_elf, sl)) (own_slots inflate_stored ex_elf true)) /\
  own_slots inflate_stored ex_elf true <> None.
Proof. split; [vm_compute; reflexivity|]. split; [vm_compute; reflexivity|vm_compute; discriminate]. Qed.

(* two hops on concrete files: the supplementary view is there, and it is the one the debug
   file shows when opened directly *)
Example C11_ex_two_hop :
  debug_view inflate_stored ex2_parse 3 (Some ex2_load)
    (add_section (debuglink_sec true ex_dbg_name ex_pad ex2_crc 200 [1]) ex_stripped) true true
  = own_view inflate_stored ex2_parse (Some ex2_load) ex2_dbg_elf true true /\
  option_map v_sup (own_view inflate_stored ex2_parse (Some ex2_load) ex2_dbg_elf true true)
  = Some (option_map (fun sl => (config_of ex_elf, sl)) (own_slots inflate_stored ex_elf true)) /\
  own_slots inflate_stored ex_elf true <> None.
Proof.
  split; [|split; [vm_compute; reflexivity|vm_compute; discriminate]].
  apply (C11_view_two_hop inflate_stored ex2_parse ex_stripped ex_dbg_name ex_pad ex2_crc 200 [1]
           ex2_load ex2_dbg_bytes ex2_dbg_elf); try reflexivity; vm_compute; reflexivity.
Qed.

(* a call sequence on a concrete object: three answers, each a DWARFInfo, the state being valid *)
Example C11_ex_calls :
  st_valid ex_elf None /\ constructible ex_elf = true /\
  map (fun r => match res_view r with Some _ => true | None => false end)
      (obj_run inflate_stored 2 None ex_elf None [(true, true); (false, false); (true, false)]) = [true; true; true].
Proof. split; [left; reflexivity|]. split; [reflexivity|vm_compute; reflexivity]. Qed.

(* rejections: a concrete bad framing; presence on a concrete file *)
Example C11_ex_zdebug_bad :
  zdebug_bad inflate_stored (mkDescriptor (ascii_bytes ".zdebug_info") 0 ([90;76;73;66; 0;0;0;0;0;0;0;9; 1;2;3]) 15 0 None).
Proof.
  right. right. split; [vm_compute; discriminate|]. exists [1;2;3], true. split; [reflexivity|]. vm_compute. discriminate.
Qed.

Example C11_ex_presence :
  constructible ex_elf = true /\ has_dwarf_info ex_elf true = Ok true /\
  constructible ex_stripped = true /\ has_dwarf_info ex_stripped true = Ok false /\
  has_dwarf_info ex_stripped false = Ok true.
Proof. repeat split; reflexivity. Qed.
