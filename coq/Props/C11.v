(* Props/C11.v — property C11: the DWARF view is invariant under container encoding.
   Only statements, closed by [exact]; proofs live in Proofs/C11*.v. *)
From PV Require Import Base.Bytes Spec.C11Container Model.C11Dwarf Proofs.C11Crc.

(* CRC-32: the bitwise register model of binascii.crc32 = remainder of polynomial long division over GF(2) *)
Theorem C11_crc32_model_spec : forall bs, all_bytes bs = true -> crc32_model bs = crc32_poly bs.
Proof. exact crc32_model_is_poly. Qed.
Print Assumptions C11_crc32_model_spec.

(* _file_crc32 (4096-byte pieces chained through the running value) = CRC of the whole file *)
Theorem C11_file_crc32_whole : forall file, file_crc32 file = crc32_model file.
Proof. exact file_crc32_is_model. Qed.
Print Assumptions C11_file_crc32_whole.

Example C11_ex_crc_check : crc32_poly [49; 50; 51; 52; 53; 54; 55; 56; 57] = 0xCBF43926.
Proof. vm_compute. reflexivity. Qed.
