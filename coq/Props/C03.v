(* Props/C03.v — property C03: symbol tables enumerate exactly; name and hash lookups are
   complete and sound.  Only statements, closed by [exact]; proofs live in
   Proofs/C03Tables.v, C03Sym.v, C03HashFn.v, C03GenHash.v, C03Sysv.v, C03Gnu.v, C03Hist.v, C03Image.v.

   Model: Model/C03Sections.v (sections.py: StringTableSection.get_string,
   SymbolTableSection num_symbols / get_symbol / iter_symbols / get_symbol_by_name,
   SymbolTableIndexSection.get_section_index, SUNWSyminfoTableSection) and Model/C03Hash.v
   (hash.py: ELFHashTable, GNUHashTable and the two section classes).  Records are decoded
   with the layouts regenerated from the live construct trees (Gen/ElfLayouts.v).
   Meaning: Spec/C03Sym.v (gABI symbol table, string table, SHT_SYMTAB_SHNDX, Solaris
   syminfo) and Spec/C03Hash.v (hash functions by their recurrences on 32-bit words; hash
   sections by BOOLEAN well-formedness predicates wf_sysv_hash / wf_gnu_hash — no builder).

   Image-level statements quantify over ALL byte lists [img] in which the pieces are
   [placed] (Spec/C03Sym.v) at the offsets the section headers give — any order, anything
   between and after them.  [vth vs i] is the i-th symbol view.  [sysv_params T] /
   [gnu_params T chain_pos] (Proofs/C03Sysv.v, C03Gnu.v) are the parameter records the two
   __init__ methods obtain from a table T; the image-level theorems prove that they do.

   Two defects found by this check are repaired in /repo (elf_hash left 32 bits on Python's
   unbounded integers; GNUHashTable.get_symbol read the chain from the shared stream cursor);
   the model mirrors the repaired code, so every theorem is at full strength. *)
From PV Require Import Base.Outcome Base.Fmt Base.Prim.
From PV Require Import Gen.ElfLayouts Gen.PyFuns Spec.ElfGabi Spec.C03Sym Spec.C03Hash Model.C03Sections Model.C03Hash.
From PV Require Import Proofs.C03Tables Proofs.C03HashFn Proofs.C03GenHash Proofs.C03Sysv Proofs.C03Gnu Proofs.C03Sym Proofs.C03Hist Proofs.C03Image.
Open Scope list_scope.
Open Scope Z_scope.

(* a symbol table section (sh_offset, sh_size, sh_entsize) and its string table's sh_offset *)
Local Notation cfg le is64 off size es stroff := (mkSymCfg le is64 (mkSec off size es) stroff).

(* ================================================================== the data of the structs *)
(* the layouts the live code builds (regenerated each run) are the gABI's, both classes and orders *)
Theorem C03_sym_layouts_gabi : forall le is64,
  gen_Elf_Sym le is64 = spec_Elf_Sym le is64 /\
  gen_Elf_Sunw_Syminfo le is64 = spec_Elf_Sunw_Syminfo le /\
  gen_Elf_Hash le is64 = spec_Elf_Hash le /\
  gen_Gnu_Hash le is64 = spec_Gnu_Hash le is64.
Proof. exact sym_layouts_gabi. Qed.
Print Assumptions C03_sym_layouts_gabi.

(* binding, type, visibility, local bits, section index and si_boundto are named by the standard's
   tables; no field is strict (an unassigned value is reported as the integer) *)
Theorem C03_sym_enum_tables :
  binds_agree gen_binds_Elf_Sym_32 spec_sym_binds = true /\
  binds_agree gen_binds_Elf_Sym_64 spec_sym_binds = true /\
  binds_agree gen_binds_Elf_Sunw_Syminfo_32 spec_syminfo_binds = true /\
  binds_agree gen_binds_Elf_Sunw_Syminfo_64 spec_syminfo_binds = true.
Proof. exact sym_binds_agree. Qed.
Print Assumptions C03_sym_enum_tables.

(* ================================================================== symbol tables *)
(* the number of entries: any entry size >= the standard one, trailing bytes short of an entry ignored *)
Theorem C03_num_symbols_exact : forall le is64 es (rows : list row) off size stroff,
  symtab_ok is64 es rows = true ->
  es * zlen rows <= size < es * (zlen rows + 1) ->
  num_symbols (cfg le is64 off size es stroff) = zlen rows.
Proof. exact num_symbols_exact. Qed.
Print Assumptions C03_num_symbols_exact.

(* entry i, every field, its name read through the linked string table *)
Theorem C03_get_symbol_exact : forall le is64 es rows strtab img off size stroff,
  symtab_ok is64 es rows = true -> names_ok strtab rows = true ->
  placed img off (encode_symtab le is64 rows) -> placed img stroff strtab ->
  forall i, 0 <= i < zlen rows ->
  get_symbol img (cfg le is64 off size es stroff) i = Ok (vth (views strtab rows) i).
Proof. exact get_symbol_exact. Qed.
Print Assumptions C03_get_symbol_exact.

(* round trip: the enumeration is exactly the encoded entries, in index order, nothing more *)
Theorem C03_symtab_roundtrip : forall le is64 es rows strtab img off size stroff,
  symtab_ok is64 es rows = true -> names_ok strtab rows = true ->
  placed img off (encode_symtab le is64 rows) -> placed img stroff strtab ->
  es * zlen rows <= size < es * (zlen rows + 1) ->
  iter_symbols img (cfg le is64 off size es stroff) = Ok (views strtab rows).
Proof. exact iter_symbols_exact. Qed.
Print Assumptions C03_symtab_roundtrip.

(* lookup by name: exactly the symbols bearing the name, in table order, or None *)
Theorem C03_by_name_exact : forall le is64 es rows strtab img off size stroff,
  symtab_ok is64 es rows = true -> names_ok strtab rows = true ->
  placed img off (encode_symtab le is64 rows) -> placed img stroff strtab ->
  es * zlen rows <= size < es * (zlen rows + 1) ->
  forall q, get_symbol_by_name img (cfg le is64 off size es stroff) q = Ok (by_name_spec strtab rows q).
Proof. exact by_name_exact. Qed.
Print Assumptions C03_by_name_exact.

Theorem C03_by_name_none : forall strtab rows q,
  by_name_spec strtab rows q = None <-> (forall v, In v (views strtab rows) -> fst v <> q).
Proof. exact by_name_spec_none. Qed.
Print Assumptions C03_by_name_none.

Theorem C03_by_name_some : forall strtab rows q l,
  by_name_spec strtab rows q = Some l -> l = filter (fun v => beqb (fst v) q) (views strtab rows) /\ l <> [].
Proof. exact by_name_spec_some. Qed.
Print Assumptions C03_by_name_some.

(* ---- the section OBJECT has state (self._symbol_name_map, None until the first lookup by name), each
   generator returned by iter_symbols() has a position, and the file stream is shared with every other
   section and with the consumer.  [sym_run img c adv 0 (None, []) ops] (Model/C03Sections.v) runs any
   sequence of calls on one fresh object: num_symbols, get_symbol(n), an enumeration abandoned after k
   steps, get_symbol_by_name, and single next() steps of any number of live generators, where [adv t] is
   the stream cursor at which call t starts — ARBITRARY: whatever other reads, seeks, lock-step walks
   happened in between.  Every call of EVERY history under EVERY cursor schedule answers what the
   specification [answers] (Spec/C03Sym.v) says ... *)
Theorem C03_history_free : forall le is64 es rows strtab img off size stroff,
  symtab_ok is64 es rows = true -> names_ok strtab rows = true ->
  placed img off (encode_symtab le is64 rows) -> placed img stroff strtab ->
  es * zlen rows <= size < es * (zlen rows + 1) ->
  forall adv calls, forallb (call_ok rows) calls = true ->
  snd (sym_run img (cfg le is64 off size es stroff) adv 0 (None, []) (map op_of calls))
  = map obs_of (answers strtab rows [] calls).
Proof. exact history_free. Qed.
Print Assumptions C03_history_free.

(* ... hence nothing observed depends on the cursor between calls or between two yields *)
Theorem C03_cursor_free : forall le is64 es rows strtab img off size stroff,
  symtab_ok is64 es rows = true -> names_ok strtab rows = true ->
  placed img off (encode_symtab le is64 rows) -> placed img stroff strtab ->
  es * zlen rows <= size < es * (zlen rows + 1) ->
  forall adv adv' calls, forallb (call_ok rows) calls = true ->
  snd (sym_run img (cfg le is64 off size es stroff) adv 0 (None, []) (map op_of calls))
  = snd (sym_run img (cfg le is64 off size es stroff) adv' 0 (None, []) (map op_of calls)).
Proof. exact cursor_free. Qed.
Print Assumptions C03_cursor_free.

(* ... lookup by name returns exactly the symbols bearing the name after any history *)
Theorem C03_by_name_after_history : forall le is64 es rows strtab img off size stroff,
  symtab_ok is64 es rows = true -> names_ok strtab rows = true ->
  placed img off (encode_symtab le is64 rows) -> placed img stroff strtab ->
  es * zlen rows <= size < es * (zlen rows + 1) ->
  forall adv calls q, forallb (call_ok rows) calls = true ->
  snd (sym_run img (cfg le is64 off size es stroff) adv 0 (None, []) (map op_of calls ++ [OpByName q]))
  = map obs_of (answers strtab rows [] calls) ++ [ObsByName (Ok (by_name_spec strtab rows q))].
Proof. exact by_name_after_history. Qed.
Print Assumptions C03_by_name_after_history.

(* ... and the step of a generator that has taken j steps yields entry j (then StopIteration),
   whatever was interleaved with its steps *)
Theorem C03_next_yields_in_order : forall le is64 es rows strtab img off size stroff,
  symtab_ok is64 es rows = true -> names_ok strtab rows = true ->
  placed img off (encode_symtab le is64 rows) -> placed img stroff strtab ->
  es * zlen rows <= size < es * (zlen rows + 1) ->
  forall adv calls g, forallb (call_ok rows) calls = true ->
  let j := epos (fold_left (advance rows) calls []) g in
  snd (sym_run img (cfg le is64 off size es stroff) adv 0 (None, []) (map op_of calls ++ [OpNext g]))
  = map obs_of (answers strtab rows [] calls) ++
    [if j <? zlen rows then ObsSym (Ok (vth (views strtab rows) j)) else ObsStop].
Proof. exact next_yields_in_order. Qed.
Print Assumptions C03_next_yields_in_order.

(* get_symbol started at any cursor: both of its reads seek *)
Theorem C03_get_symbol_cursor_free : forall img c cur n, get_symbol_cur img c cur n = get_symbol img c n.
Proof. exact get_symbol_cur_free. Qed.
Print Assumptions C03_get_symbol_cursor_free.

(* GNUHashTable.get_number_of_symbols as the code runs it (one seek, then reads at the cursor inside a
   method that never yields) reads the same chain words as the indexed walk of C03_gnu_count_exact *)
Theorem C03_gnu_count_sequential : forall le img fuel P,
  gnu_hash_number_of_symbols_cur le img fuel P = gnu_hash_number_of_symbols (read_chain_word le img P) fuel P.
Proof. exact gnu_number_of_symbols_cur_eq. Qed.
Print Assumptions C03_gnu_count_sequential.

(* the extended section index of symbol i is entry i of the companion SHT_SYMTAB_SHNDX table *)
Theorem C03_section_index_exact : forall le es xrows img off size,
  shndx_ok es xrows = true -> placed img off (encode_shndx le xrows) ->
  forall i, 0 <= i < zlen xrows ->
  get_section_index img le (mkSec off size es) i = Ok (fst (nth (Z.to_nat i) xrows (0, []))).
Proof. exact section_index_exact. Qed.
Print Assumptions C03_section_index_exact.

(* Solaris syminfo: entries 1.. with the name of the symbol of the same index *)
Theorem C03_syminfo_exact : forall le is64 es rows strtab img off size stroff ies irows ioff isize,
  symtab_ok is64 es rows = true -> names_ok strtab rows = true ->
  placed img off (encode_symtab le is64 rows) -> placed img stroff strtab ->
  syminfo_ok ies irows = true -> placed img ioff (encode_syminfo le irows) ->
  zlen irows = zlen rows -> ies * zlen irows <= isize < ies * (zlen irows + 1) -> 1 <= zlen irows ->
  syminfo_iter_symbols img (cfg le is64 off size es stroff) (mkSec ioff isize ies)
  = Ok (syminfo_views (names_of strtab rows) irows).
Proof. exact syminfo_iter_exact. Qed.
Print Assumptions C03_syminfo_exact.

(* ================================================================== hash functions *)
(* on EVERY input list the code's functions are the standard recurrences on 32-bit words *)
Theorem C03_elf_hash_spec : forall name, elf_hash name = sysv_hash name.
Proof. exact elf_hash_spec. Qed.
Print Assumptions C03_elf_hash_spec.

Theorem C03_gnu_hash_spec : forall key, gnu_hash_m key = gnu_hash key.
Proof. exact gnu_hash_spec. Qed.
Print Assumptions C03_gnu_hash_spec.

(* the same, stated of the functions TRANSLATED from the live source on every run (Gen/PyFuns.v):
   an edit of ELFHashTable.elf_hash / GNUHashTable.gnu_hash changes these terms and the proofs are re-checked *)
Theorem C03_gen_elf_hash_spec : forall name, gen_elf_hash name = sysv_hash name.
Proof. exact gen_elf_hash_spec. Qed.
Print Assumptions C03_gen_elf_hash_spec.

Theorem C03_gen_gnu_hash_spec : forall key, gen_gnu_hash key = gnu_hash key.
Proof. exact gen_gnu_hash_spec. Qed.
Print Assumptions C03_gen_gnu_hash_spec.

(* and they are the hand models the lookup theorems below are about *)
Theorem C03_gen_hash_models : forall bs, gen_elf_hash bs = elf_hash bs /\ gen_gnu_hash bs = gnu_hash_m bs.
Proof. exact (fun bs => conj (gen_elf_hash_model bs) (gen_gnu_hash_model bs)). Qed.
Print Assumptions C03_gen_hash_models.

Theorem C03_sysv_hash_recurrence : forall name c,
  sysv_hash [] = 0 /\ sysv_hash (name ++ [c]) = sysv_hash_step (sysv_hash name) c /\ 0 <= sysv_hash name < 2 ^ 28.
Proof. exact (fun name c => conj eq_refl (conj (sysv_hash_snoc name c) (sysv_hash_range name))). Qed.
Print Assumptions C03_sysv_hash_recurrence.

Theorem C03_gnu_hash_recurrence : forall key c,
  gnu_hash [] = 5381 /\ gnu_hash (key ++ [c]) = (33 * gnu_hash key + c) mod 2 ^ 32 /\ 0 <= gnu_hash key < 2 ^ 32.
Proof. exact (fun key c => conj eq_refl (conj (gnu_hash_snoc key c) (gnu_hash_range key))). Qed.
Print Assumptions C03_gnu_hash_recurrence.

(* the repaired defect, for the record: on unbounded integers the gABI fragment leaves 32 bits *)
Theorem C03_elf_hash_unrepaired_refuted :
  exists name, forallb is_byte name = true /\ elf_hash_unrepaired name <> sysv_hash name.
Proof. exact elf_hash_unrepaired_differs. Qed.
Print Assumptions C03_elf_hash_unrepaired_refuted.

(* ================================================================== SysV hash table, any symbol source *)
(* [getsym] is whatever object answers get_symbol (a section, a dynamic segment): it is only
   required to answer the symbol views [vs] *)
Theorem C03_sysv_lookup_sound : forall (T : sysv_table) (vs : list symview) (getsym : Z -> res symbol),
  wf_sysv_hash T (map fst vs) = true ->
  (forall i, 0 <= i < zlen vs -> getsym i = Ok (vth vs i)) ->
  forall q v, elf_hash_get_symbol getsym (sysv_params T) q = Ok (Some v) ->
  fst v = q /\ exists i, 1 <= i < zlen vs /\ v = vth vs i.
Proof. exact sysv_lookup_sound. Qed.
Print Assumptions C03_sysv_lookup_sound.

Theorem C03_sysv_lookup_complete : forall (T : sysv_table) (vs : list symview) (getsym : Z -> res symbol),
  wf_sysv_hash T (map fst vs) = true ->
  (forall i, 0 <= i < zlen vs -> getsym i = Ok (vth vs i)) ->
  forall q, (exists i, 1 <= i < zlen vs /\ fst (vth vs i) = q) ->
  exists v, elf_hash_get_symbol getsym (sysv_params T) q = Ok (Some v) /\ fst v = q.
Proof. exact sysv_lookup_complete. Qed.
Print Assumptions C03_sysv_lookup_complete.

(* exactly which: the first symbol of the bucket's chain that bears the name *)
Theorem C03_sysv_lookup_exact : forall (T : sysv_table) (vs : list symview) (getsym : Z -> res symbol),
  wf_sysv_hash T (map fst vs) = true ->
  (forall i, 0 <= i < zlen vs -> getsym i = Ok (vth vs i)) ->
  forall q, elf_hash_get_symbol getsym (sysv_params T) q
            = Ok (option_map (vth vs) (find (fun j => beqb (fst (vth vs j)) q) (bucket_chain T q))).
Proof. exact sysv_get_symbol_char. Qed.
Print Assumptions C03_sysv_lookup_exact.

(* absent names — bucket collisions and full hash collisions included — yield None, never an error *)
Theorem C03_sysv_lookup_absent : forall (T : sysv_table) (vs : list symview) (getsym : Z -> res symbol),
  wf_sysv_hash T (map fst vs) = true ->
  (forall i, 0 <= i < zlen vs -> getsym i = Ok (vth vs i)) ->
  forall q, (forall i, 1 <= i < zlen vs -> fst (vth vs i) <> q) ->
  elf_hash_get_symbol getsym (sysv_params T) q = Ok None.
Proof. exact sysv_lookup_absent. Qed.
Print Assumptions C03_sysv_lookup_absent.

Theorem C03_sysv_count_exact : forall (T : sysv_table) (vs : list symview),
  wf_sysv_hash T (map fst vs) = true -> elf_hash_number_of_symbols (sysv_params T) = zlen vs.
Proof. exact sysv_count_exact. Qed.
Print Assumptions C03_sysv_count_exact.

(* ================================================================== GNU hash table, any symbol source *)
(* [rc] reads chain words: constrained on the hashed symbols only — beyond the last one there may be
   the end of the file or anything else (the walk provably never reads there) *)
Theorem C03_gnu_lookup_sound : forall is64 (T : gnu_table) (vs : list symview) (getsym : Z -> res symbol) (rc : Z -> res Z) chain_pos,
  wf_gnu_hash is64 T (map fst vs) = true ->
  (forall i, 0 <= i < zlen vs -> getsym i = Ok (vth vs i)) ->
  (forall i, gt_symoffset T <= i < zlen vs -> rc i = Ok (zth (gt_chain T) (i - gt_symoffset T))) ->
  forall fuel, (Z.to_nat (zlen vs - gt_symoffset T) <= fuel)%nat ->
  forall q v, gnu_hash_get_symbol is64 rc getsym fuel (gnu_params T chain_pos) q = Ok (Some v) ->
  fst v = q /\ exists i, gt_symoffset T <= i < zlen vs /\ v = vth vs i.
Proof. exact gnu_lookup_sound. Qed.
Print Assumptions C03_gnu_lookup_sound.

(* the statement that was false of the code before the repair (DESIGN section 5) *)
Theorem C03_gnu_lookup_complete : forall is64 (T : gnu_table) (vs : list symview) (getsym : Z -> res symbol) (rc : Z -> res Z) chain_pos,
  wf_gnu_hash is64 T (map fst vs) = true ->
  (forall i, 0 <= i < zlen vs -> getsym i = Ok (vth vs i)) ->
  (forall i, gt_symoffset T <= i < zlen vs -> rc i = Ok (zth (gt_chain T) (i - gt_symoffset T))) ->
  forall fuel, (Z.to_nat (zlen vs - gt_symoffset T) <= fuel)%nat ->
  forall q, (exists i, gt_symoffset T <= i < zlen vs /\ fst (vth vs i) = q) ->
  exists v, gnu_hash_get_symbol is64 rc getsym fuel (gnu_params T chain_pos) q = Ok (Some v) /\ fst v = q.
Proof. exact gnu_lookup_complete. Qed.
Print Assumptions C03_gnu_lookup_complete.

(* absent names — bloom false positives, bucket collisions, full 32-bit collisions, chains ending at
   the table end — yield None, never an error *)
Theorem C03_gnu_lookup_absent : forall is64 (T : gnu_table) (vs : list symview) (getsym : Z -> res symbol) (rc : Z -> res Z) chain_pos,
  wf_gnu_hash is64 T (map fst vs) = true ->
  (forall i, 0 <= i < zlen vs -> getsym i = Ok (vth vs i)) ->
  (forall i, gt_symoffset T <= i < zlen vs -> rc i = Ok (zth (gt_chain T) (i - gt_symoffset T))) ->
  forall fuel, (Z.to_nat (zlen vs - gt_symoffset T) <= fuel)%nat ->
  forall q, (forall i, gt_symoffset T <= i < zlen vs -> fst (vth vs i) <> q) ->
  gnu_hash_get_symbol is64 rc getsym fuel (gnu_params T chain_pos) q = Ok None.
Proof. exact gnu_lookup_absent. Qed.
Print Assumptions C03_gnu_lookup_absent.

Theorem C03_gnu_count_exact : forall is64 (T : gnu_table) (vs : list symview) (rc : Z -> res Z) chain_pos,
  wf_gnu_hash is64 T (map fst vs) = true ->
  (forall i, gt_symoffset T <= i < zlen vs -> rc i = Ok (zth (gt_chain T) (i - gt_symoffset T))) ->
  forall fuel, (Z.to_nat (zlen vs - gt_symoffset T) <= fuel)%nat ->
  gnu_hash_number_of_symbols rc fuel (gnu_params T chain_pos) = Ok (zlen vs).
Proof. exact gnu_count_exact. Qed.
Print Assumptions C03_gnu_count_exact.

(* ================================================================== ELFHashSection in a file image *)
(* [machine] is the header's e_machine.  The SysV table's entries are 32-bit words except on ELF64 Alpha and
   s390x, where they are 64-bit (sysv_entry_bytes, Spec/C03Hash.v); the machines for which the LIVE code reads
   wide entries (Gen/C09Hash.v, regenerated) are exactly those: *)
Theorem C03_hash_entry_width : forall is64 machine,
  hash_wide is64 machine = Nat.eqb (sysv_entry_bytes is64 machine) 8.
Proof. exact hash_wide_spec. Qed.
Print Assumptions C03_hash_entry_width.

Theorem C03_sysv_section_sound : forall le is64 es rows strtab img off size stroff T hoff machine,
  symtab_ok is64 es rows = true -> names_ok strtab rows = true ->
  placed img off (encode_symtab le is64 rows) -> placed img stroff strtab ->
  wf_sysv_hash T (names_of strtab rows) = true -> placed img hoff (encode_sysv_hash_w (sysv_entry_bytes is64 machine) le T) ->
  forall q v, elf_hash_section_get_symbol_m machine img (cfg le is64 off size es stroff) hoff q = Ok (Some v) ->
  fst v = q /\ exists i, 1 <= i < zlen rows /\ v = vth (views strtab rows) i.
Proof. exact sysv_section_sound. Qed.
Print Assumptions C03_sysv_section_sound.

Theorem C03_sysv_section_complete : forall le is64 es rows strtab img off size stroff T hoff machine,
  symtab_ok is64 es rows = true -> names_ok strtab rows = true ->
  placed img off (encode_symtab le is64 rows) -> placed img stroff strtab ->
  wf_sysv_hash T (names_of strtab rows) = true -> placed img hoff (encode_sysv_hash_w (sysv_entry_bytes is64 machine) le T) ->
  forall q, (exists i, 1 <= i < zlen rows /\ fst (vth (views strtab rows) i) = q) ->
  exists v, elf_hash_section_get_symbol_m machine img (cfg le is64 off size es stroff) hoff q = Ok (Some v) /\ fst v = q.
Proof. exact sysv_section_complete. Qed.
Print Assumptions C03_sysv_section_complete.

Theorem C03_sysv_section_absent : forall le is64 es rows strtab img off size stroff T hoff machine,
  symtab_ok is64 es rows = true -> names_ok strtab rows = true ->
  placed img off (encode_symtab le is64 rows) -> placed img stroff strtab ->
  wf_sysv_hash T (names_of strtab rows) = true -> placed img hoff (encode_sysv_hash_w (sysv_entry_bytes is64 machine) le T) ->
  forall q, (forall i, 1 <= i < zlen rows -> fst (vth (views strtab rows) i) <> q) ->
  elf_hash_section_get_symbol_m machine img (cfg le is64 off size es stroff) hoff q = Ok None.
Proof. exact sysv_section_absent. Qed.
Print Assumptions C03_sysv_section_absent.

Theorem C03_sysv_section_count : forall le is64 es rows strtab img off size stroff T hoff machine,
  wf_sysv_hash T (names_of strtab rows) = true -> placed img hoff (encode_sysv_hash_w (sysv_entry_bytes is64 machine) le T) ->
  elf_hash_section_number_of_symbols_m machine img (cfg le is64 off size es stroff) hoff = Ok (zlen rows).
Proof. exact sysv_section_count. Qed.
Print Assumptions C03_sysv_section_count.

(* ================================================================== GNUHashSection in a file image *)
(* no machine here: the GNU hash section has 32-bit header, bucket and chain words on every machine *)
Theorem C03_gnu_section_sound : forall le is64 es rows strtab img off size stroff T hoff,
  symtab_ok is64 es rows = true -> names_ok strtab rows = true ->
  placed img off (encode_symtab le is64 rows) -> placed img stroff strtab ->
  wf_gnu_hash is64 T (names_of strtab rows) = true -> placed img hoff (encode_gnu_hash le is64 T) ->
  forall q v, gnu_hash_section_get_symbol img (cfg le is64 off size es stroff) hoff q = Ok (Some v) ->
  fst v = q /\ exists i, gt_symoffset T <= i < zlen rows /\ v = vth (views strtab rows) i.
Proof. exact gnu_section_sound. Qed.
Print Assumptions C03_gnu_section_sound.

Theorem C03_gnu_section_complete : forall le is64 es rows strtab img off size stroff T hoff,
  symtab_ok is64 es rows = true -> names_ok strtab rows = true ->
  placed img off (encode_symtab le is64 rows) -> placed img stroff strtab ->
  wf_gnu_hash is64 T (names_of strtab rows) = true -> placed img hoff (encode_gnu_hash le is64 T) ->
  forall q, (exists i, gt_symoffset T <= i < zlen rows /\ fst (vth (views strtab rows) i) = q) ->
  exists v, gnu_hash_section_get_symbol img (cfg le is64 off size es stroff) hoff q = Ok (Some v) /\ fst v = q.
Proof. exact gnu_section_complete. Qed.
Print Assumptions C03_gnu_section_complete.

Theorem C03_gnu_section_absent : forall le is64 es rows strtab img off size stroff T hoff,
  symtab_ok is64 es rows = true -> names_ok strtab rows = true ->
  placed img off (encode_symtab le is64 rows) -> placed img stroff strtab ->
  wf_gnu_hash is64 T (names_of strtab rows) = true -> placed img hoff (encode_gnu_hash le is64 T) ->
  forall q, (forall i, gt_symoffset T <= i < zlen rows -> fst (vth (views strtab rows) i) <> q) ->
  gnu_hash_section_get_symbol img (cfg le is64 off size es stroff) hoff q = Ok None.
Proof. exact gnu_section_absent. Qed.
Print Assumptions C03_gnu_section_absent.

Theorem C03_gnu_section_count : forall le is64 es rows strtab img off size stroff T hoff,
  wf_gnu_hash is64 T (names_of strtab rows) = true -> placed img hoff (encode_gnu_hash le is64 T) ->
  gnu_hash_section_number_of_symbols img (cfg le is64 off size es stroff) hoff = Ok (zlen rows).
Proof. exact gnu_section_count. Qed.
Print Assumptions C03_gnu_section_count.

(* ================================================================== non-vacuity *)
(* four ELF64 symbols "", fooAz, fooBY, bar with one free byte per entry (sh_entsize 25); fooAz and
   fooBY have EQUAL GNU hashes (the defect's trigger); a SysV table with 2 buckets and a GNU table with
   symoffset 1, 2 buckets (one empty), one bloom word, shift 5 *)
Definition ex_strtab : list Z := [0; 102; 111; 111; 65; 122; 0; 102; 111; 111; 66; 89; 0; 98; 97; 114; 0].
Definition ex_rows : list row :=
  [ (mkSym 0 0 0 0 0 0 0 0 0, [170]);
    (mkSym 1 0x1000 8 1 2 0 0 0 7, [187]);
    (mkSym 7 0xfffffffffffffff0 16 2 1 5 3 2 0xffff, [204]);
    (mkSym 13 0x2000 0 1 0 0 0 3 0xfff1, [221]) ].
Definition ex_sysv : sysv_table := mkSysv [3; 2] [0; 0; 0; 1].
Definition ex_gnu : gnu_table := mkGnu 1 5 [288230444873285664] [1; 0] [259228324; 259228324; 193487035].
Definition ex_img : list Z :=
  [127; 69; 76] ++ ex_strtab ++ [9; 9] ++ encode_symtab true true ex_rows ++ [7] ++
  encode_sysv_hash true ex_sysv ++ [5; 5; 5] ++ encode_gnu_hash true true ex_gnu.

(* the hypotheses of every theorem above hold of this input *)
Example C03_ex_wellformed :
  symtab_ok true 25 ex_rows = true /\ names_ok ex_strtab ex_rows = true /\
  wf_sysv_hash ex_sysv (names_of ex_strtab ex_rows) = true /\
  wf_gnu_hash true ex_gnu (names_of ex_strtab ex_rows) = true /\
  gnu_hash [102; 111; 111; 65; 122] = gnu_hash [102; 111; 111; 66; 89].
Proof. vm_compute. repeat split; reflexivity. Qed.

Example C03_ex_placed :
  placed ex_img 3 ex_strtab /\ placed ex_img 22 (encode_symtab true true ex_rows) /\
  placed ex_img 123 (encode_sysv_hash true ex_sysv) /\ placed ex_img 158 (encode_gnu_hash true true ex_gnu).
Proof.
  repeat split.
  - exists [127; 69; 76], ([9; 9] ++ encode_symtab true true ex_rows ++ [7] ++
      encode_sysv_hash true ex_sysv ++ [5; 5; 5] ++ encode_gnu_hash true true ex_gnu). split; reflexivity.
  - exists ([127; 69; 76] ++ ex_strtab ++ [9; 9]), ([7] ++
      encode_sysv_hash true ex_sysv ++ [5; 5; 5] ++ encode_gnu_hash true true ex_gnu). split; reflexivity.
  - exists ([127; 69; 76] ++ ex_strtab ++ [9; 9] ++ encode_symtab true true ex_rows ++ [7]),
      ([5; 5; 5] ++ encode_gnu_hash true true ex_gnu). split; reflexivity.
  - exists ([127; 69; 76] ++ ex_strtab ++ [9; 9] ++ encode_symtab true true ex_rows ++ [7] ++
      encode_sysv_hash true ex_sysv ++ [5; 5; 5]), []. split; reflexivity.
Qed.

(* and the conclusions, computed by the model on that image: enumeration, lookup by name, both hash
   lookups of the symbol that FOLLOWS an equal-hash entry, of an absent name with that same hash
   (fooCX), and both counts; the GNU section ends the file *)
Example C03_ex_results :
  let c := cfg true true 22 100 25 3 in
  iter_symbols ex_img c = Ok (views ex_strtab ex_rows) /\
  get_symbol_by_name ex_img c [102; 111; 111; 66; 89] = Ok (Some [vth (views ex_strtab ex_rows) 2]) /\
  elf_hash_section_get_symbol_m 62 ex_img c 123 [102; 111; 111; 66; 89] = Ok (Some (vth (views ex_strtab ex_rows) 2)) /\
  gnu_hash_section_get_symbol ex_img c 158 [102; 111; 111; 66; 89] = Ok (Some (vth (views ex_strtab ex_rows) 2)) /\
  gnu_hash_section_get_symbol ex_img c 158 [102; 111; 111; 67; 88] = Ok None /\
  elf_hash_section_number_of_symbols_m 62 ex_img c 123 = Ok 4 /\
  gnu_hash_section_number_of_symbols ex_img c 158 = Ok 4.
Proof. vm_compute. repeat split; reflexivity. Qed.

(* a history on that image, with a wild cursor schedule: generator 0 takes a step; fooBY (beyond that
   point) is looked up; generator 1 starts a lock-step walk; generator 0 resumes after other calls; ...;
   an absent name; generator 0 runs to StopIteration *)
Example C03_ex_history :
  let c := cfg true true 22 100 25 3 in
  let adv := fun t => 7919 * t mod 300 in
  let calls := [CNext 0; CByName [102; 111; 111; 66; 89]; CNext 1; CNum; CNext 0; CIter 2; CGet 3; CNext 1;
                CByName []; CNext 0; CByName [120]; CNext 0; CNext 0] in
  forallb (call_ok ex_rows) calls = true /\
  snd (sym_run ex_img c adv 0 (None, []) (map op_of calls)) = map obs_of (answers ex_strtab ex_rows [] calls) /\
  nth 4 (answers ex_strtab ex_rows [] calls) AStop = ASym (vth (views ex_strtab ex_rows) 1) /\
  nth 1 (answers ex_strtab ex_rows [] calls) AStop = AByName (Some [vth (views ex_strtab ex_rows) 2]) /\
  nth 10 (answers ex_strtab ex_rows [] calls) AStop = AByName None /\
  nth 12 (answers ex_strtab ex_rows [] calls) (ANum 0) = AStop.
Proof. vm_compute. repeat split; reflexivity. Qed.

(* the same tables in an s390x file: 64-bit SysV entries, 32-bit GNU words *)
Definition ex_img_s390 : list Z :=
  [127; 69; 76] ++ ex_strtab ++ [9; 9] ++ encode_symtab false true ex_rows ++ [7] ++
  encode_sysv_hash_w 8 false ex_sysv ++ [5; 5; 5] ++ encode_gnu_hash false true ex_gnu.
Example C03_ex_s390 :
  let c := cfg false true 22 100 25 3 in
  sysv_entry_bytes true EM_S390 = 8%nat /\ hash_wide true EM_S390 = true /\ hash_wide false EM_S390 = false /\
  placed ex_img_s390 123 (encode_sysv_hash_w (sysv_entry_bytes true EM_S390) false ex_sysv) /\
  elf_hash_section_get_symbol_m EM_S390 ex_img_s390 c 123 [102; 111; 111; 66; 89] = Ok (Some (vth (views ex_strtab ex_rows) 2)) /\
  elf_hash_section_number_of_symbols_m EM_S390 ex_img_s390 c 123 = Ok 4 /\
  gnu_hash_section_get_symbol ex_img_s390 c 190 [102; 111; 111; 66; 89] = Ok (Some (vth (views ex_strtab ex_rows) 2)) /\
  gnu_hash_section_number_of_symbols ex_img_s390 c 190 = Ok 4.
Proof.
  cbv zeta. repeat split; try (vm_compute; reflexivity).
  exists ([127; 69; 76] ++ ex_strtab ++ [9; 9] ++ encode_symtab false true ex_rows ++ [7]),
         ([5; 5; 5] ++ encode_gnu_hash false true ex_gnu). split; reflexivity.
Qed.
