(* Props/C17.v — property C17: symbolic names and numeric codes follow the ELF and DWARF
   registries.  Only statements, closed by [exact]; proofs live in Proofs/C17Proofs.v and
   Base/Enum.v.
   Library side: Gen/Tables.v — every ENUM_* dict, flag class and DW_* constant group of
   elf/enums.py, elf/constants.py, dwarf/enums.py, dwarf/constants.py, dwarf/dwarf_expr.py,
   dwarf/callframe.py, regenerated from the LIVE modules on every run (tools/gen/gen_tables.py).
   Registry side: Gen/Registry.v — regenerated from the vendored glibc elf.h and LLVM 14
   BinaryFormat headers (tools/gen/gen_registry.py); Spec/C17Registry.v reads it as a function.
   The quantifier of the property is finite — every (name, value) pair of every table whose
   name the registry defines — and is enumerated completely: the bound is the table. *)
From Coq Require Import ZArith List Bool String.
From PV Require Import Base.Enum Spec.C17Registry Proofs.C17Proofs Gen.Tables Gen.Registry.
Import ListNotations.
Open Scope Z_scope.
Open Scope string_scope.

(* ---- the property, all tables at once *)
Theorem C17_all_tables_follow_registry : forall t T n v v',
  In (t, T) all_tables -> In (n, v) T -> registry_lookup n = Some v' -> v = v'.
Proof. exact all_tables_agree_flat. Qed.
Print Assumptions C17_all_tables_follow_registry.

(* the same without a lookup function: the registry defines no name twice, so membership suffices *)
Theorem C17_registry_is_a_function : forall n v, registry_lookup n = Some v <-> In (n, v) registry.
Proof. exact registry_lookup_iff. Qed.
Print Assumptions C17_registry_is_a_function.

Theorem C17_all_tables_follow_registry_membership : forall t T n v v',
  In (t, T) all_tables -> In (n, v) T -> In (n, v') registry -> v = v'.
Proof. exact all_tables_agree_membership. Qed.
Print Assumptions C17_all_tables_follow_registry_membership.

(* names on which glibc and LLVM disagree with each other never count against the library *)
Theorem C17_registry_conflicts_excluded : forall n,
  In n (map fst registry_conflicts) -> registry_lookup n = None.
Proof. exact conflicts_excluded. Qed.
Print Assumptions C17_registry_conflicts_excluded.

(* ---- per group of tables, as the property text lists them *)
Theorem C17_file_header_codes :
  registry_agrees tbl_ENUM_EI_CLASS /\ registry_agrees tbl_ENUM_EI_DATA /\ registry_agrees tbl_ENUM_E_VERSION /\
  registry_agrees tbl_ENUM_EI_OSABI /\ registry_agrees tbl_ENUM_E_TYPE /\ registry_agrees tbl_ENUM_E_MACHINE /\
  registry_agrees tbl_E_FLAGS.
Proof. exact agrees_file_header. Qed.
Print Assumptions C17_file_header_codes.

Theorem C17_section_codes :
  registry_agrees tbl_ENUM_SH_TYPE_BASE /\ registry_agrees tbl_ENUM_SH_TYPE_AMD64 /\
  registry_agrees tbl_ENUM_SH_TYPE_ARM /\ registry_agrees tbl_ENUM_SH_TYPE_AARCH64 /\
  registry_agrees tbl_ENUM_SH_TYPE_RISCV /\ registry_agrees tbl_ENUM_SH_TYPE_MIPS /\
  registry_agrees tbl_SH_FLAGS /\ registry_agrees tbl_SHN_INDICES /\ registry_agrees tbl_ENUM_ST_SHNDX /\
  registry_agrees tbl_ENUM_ELFCOMPRESS_TYPE.
Proof. exact agrees_sections. Qed.
Print Assumptions C17_section_codes.

Theorem C17_segment_codes :
  registry_agrees tbl_ENUM_P_TYPE_BASE /\ registry_agrees tbl_ENUM_P_TYPE_ARM /\
  registry_agrees tbl_ENUM_P_TYPE_AARCH64 /\ registry_agrees tbl_ENUM_P_TYPE_MIPS /\
  registry_agrees tbl_ENUM_P_TYPE_RISCV /\ registry_agrees tbl_P_FLAGS.
Proof. exact agrees_segments. Qed.
Print Assumptions C17_segment_codes.

Theorem C17_dynamic_tag_codes :
  registry_agrees tbl_ENUM_D_TAG_COMMON /\ registry_agrees tbl_ENUM_D_TAG_SOLARIS /\
  registry_agrees tbl_ENUM_D_TAG_MIPS /\ registry_agrees tbl_ENUM_D_TAG_AARCH64 /\ registry_agrees tbl_ENUM_D_TAG /\
  registry_agrees tbl_ENUM_DT_FLAGS /\ registry_agrees tbl_ENUM_DT_FLAGS_1 /\ registry_agrees tbl_RH_FLAGS.
Proof. exact agrees_dynamic. Qed.
Print Assumptions C17_dynamic_tag_codes.

Theorem C17_symbol_codes :
  registry_agrees tbl_ENUM_ST_INFO_BIND /\ registry_agrees tbl_ENUM_ST_INFO_TYPE /\
  registry_agrees tbl_ENUM_ST_VISIBILITY /\ registry_agrees tbl_ENUM_ST_LOCAL /\
  registry_agrees tbl_ENUM_VERSYM /\ registry_agrees tbl_VER_FLAGS /\
  registry_agrees tbl_ENUM_SUNW_SYMINFO_BOUNDTO /\ registry_agrees tbl_SUNW_SYMINFO_FLAGS.
Proof. exact agrees_symbols. Qed.
Print Assumptions C17_symbol_codes.

Theorem C17_note_codes :
  registry_agrees tbl_ENUM_NOTE_N_TYPE /\ registry_agrees tbl_ENUM_CORE_NOTE_N_TYPE /\
  registry_agrees tbl_ENUM_NOTE_ABI_TAG_OS /\ registry_agrees tbl_ENUM_NOTE_GNU_PROPERTY_TYPE /\
  registry_agrees tbl_ENUM_GNU_PROPERTY_X86_FEATURE_1_FLAGS.
Proof. exact agrees_notes. Qed.
Print Assumptions C17_note_codes.

Theorem C17_relocation_codes :
  registry_agrees tbl_ENUM_RELOC_TYPE_i386 /\ registry_agrees tbl_ENUM_RELOC_TYPE_x64 /\
  registry_agrees tbl_ENUM_RELOC_TYPE_ARM /\ registry_agrees tbl_ENUM_RELOC_TYPE_AARCH64 /\
  registry_agrees tbl_ENUM_RELOC_TYPE_MIPS /\ registry_agrees tbl_ENUM_RELOC_TYPE_PPC /\
  registry_agrees tbl_ENUM_RELOC_TYPE_PPC64 /\ registry_agrees tbl_ENUM_RELOC_TYPE_S390X /\
  registry_agrees tbl_ENUM_RELOC_TYPE_BPF /\ registry_agrees tbl_ENUM_RELOC_TYPE_LOONGARCH.
Proof. exact agrees_relocations. Qed.
Print Assumptions C17_relocation_codes.

Theorem C17_dwarf_tag_attribute_form_unit_codes :
  registry_agrees tbl_ENUM_DW_TAG /\ registry_agrees tbl_ENUM_DW_CHILDREN /\ registry_agrees tbl_ENUM_DW_AT /\
  registry_agrees tbl_ENUM_DW_FORM /\ registry_agrees tbl_DW_FORM_raw2name /\ registry_agrees tbl_ENUM_DW_UT /\
  registry_agrees tbl_CONST_DW_UT.
Proof. exact agrees_dwarf_dies. Qed.
Print Assumptions C17_dwarf_tag_attribute_form_unit_codes.

Theorem C17_dwarf_language_encoding_and_attribute_value_codes :
  registry_agrees tbl_ENUM_DW_LANG /\ registry_agrees tbl_CONST_DW_LANG /\ registry_agrees tbl_ENUM_DW_ATE /\
  registry_agrees tbl_CONST_DW_ATE /\ registry_agrees tbl_ENUM_DW_ACCESS /\ registry_agrees tbl_CONST_DW_ACCESS /\
  registry_agrees tbl_ENUM_DW_INL /\ registry_agrees tbl_CONST_DW_INL /\ registry_agrees tbl_ENUM_DW_CC /\
  registry_agrees tbl_CONST_DW_CC /\ registry_agrees tbl_CONST_DW_VIS /\ registry_agrees tbl_CONST_DW_VIRTUALITY /\
  registry_agrees tbl_CONST_DW_ID /\ registry_agrees tbl_CONST_DW_ORD.
Proof. exact agrees_dwarf_attribute_values. Qed.
Print Assumptions C17_dwarf_language_encoding_and_attribute_value_codes.

Theorem C17_dwarf_operation_codes :
  registry_agrees tbl_DW_OP_name2opcode /\ registry_agrees tbl_DW_OP_opcode2name.
Proof. exact agrees_dwarf_expressions. Qed.
Print Assumptions C17_dwarf_operation_codes.

Theorem C17_dwarf_line_program_codes :
  registry_agrees tbl_CONST_DW_LNS /\ registry_agrees tbl_CONST_DW_LNE /\ registry_agrees tbl_CONST_DW_LNCT /\
  registry_agrees tbl_ENUM_DW_LNCT.
Proof. exact agrees_dwarf_line_programs. Qed.
Print Assumptions C17_dwarf_line_program_codes.

Theorem C17_dwarf_call_frame_codes :
  registry_agrees tbl_CONST_DW_CFA /\ registry_agrees tbl_callframe_DW_CFA /\
  registry_agrees tbl_callframe_OPCODE_NAME_MAP /\ registry_agrees tbl_DW_EH_encoding_flags.
Proof. exact agrees_dwarf_call_frames. Qed.
Print Assumptions C17_dwarf_call_frame_codes.

Theorem C17_dwarf_list_entry_codes : registry_agrees tbl_ENUM_DW_LLE /\ registry_agrees tbl_ENUM_DW_RLE.
Proof. exact agrees_dwarf_list_entries. Qed.
Print Assumptions C17_dwarf_list_entry_codes.

(* the reverse maps (DW_FORM_raw2name, DW_OP_opcode2name, _OPCODE_NAME_MAP, callframe's DW_CFA_*
   globals) carry only pairs of the tables they are computed from *)
Theorem C17_inverse_maps_consistent :
  incl tbl_DW_FORM_raw2name tbl_ENUM_DW_FORM /\ incl tbl_DW_OP_opcode2name tbl_DW_OP_name2opcode /\
  incl tbl_callframe_OPCODE_NAME_MAP tbl_callframe_DW_CFA /\ incl tbl_callframe_DW_CFA tbl_CONST_DW_CFA.
Proof. exact inverse_maps_consistent. Qed.
Print Assumptions C17_inverse_maps_consistent.

(* ---- construct's Enum (Base/Enum.v), for all tables and all integers *)
(* the model IS SymmetricMapping's reversed dict built by overwrite *)
Theorem C17_enum_model_is_reversed_dict : forall T d v, enum_decode_dict T d v = enum_decode T d v.
Proof. exact enum_decode_dict_eq. Qed.
Print Assumptions C17_enum_model_is_reversed_dict.

Theorem C17_enum_decode_name : forall T d v n, enum_decode T d v = Name n -> In (n, v) T.
Proof. exact enum_decode_name. Qed.
Print Assumptions C17_enum_decode_name.

Theorem C17_enum_decode_raw : forall T v, (forall n, ~ In (n, v) T) -> enum_decode T DefPass v = Raw v.
Proof. exact enum_decode_raw. Qed.
Print Assumptions C17_enum_decode_raw.

Theorem C17_enum_decode_error : forall T v,
  (forall n, ~ In (n, v) T) -> enum_decode T DefRaise v = MappingError.
Proof. exact enum_decode_error. Qed.
Print Assumptions C17_enum_decode_error.

(* when several names carry a value the LAST one in dict order is reported *)
Theorem C17_enum_decode_last : forall T1 T2 d n v,
  (forall m, ~ In (m, v) T2) -> enum_decode (T1 ++ (n, v) :: T2)%list d v = Name n.
Proof. exact enum_decode_last. Qed.
Print Assumptions C17_enum_decode_last.

Theorem C17_enum_decode_cases : forall T d v,
  (exists n, enum_decode T d v = Name n /\ In (n, v) T) \/
  (enum_decode T d v = Raw v /\ d = DefPass /\ forall n, ~ In (n, v) T) \/
  (enum_decode T d v = MappingError /\ d = DefRaise /\ forall n, ~ In (n, v) T).
Proof. exact enum_decode_cases. Qed.
Print Assumptions C17_enum_decode_cases.

(* ---- "consequently": a code found in a file is reported under a name whose registry value is
   that code, and a standard name selects the standard code *)
Theorem C17_code_reported_under_registry_name : forall t T d v n v',
  In (t, T) all_tables -> enum_decode T d v = Name n -> registry_lookup n = Some v' -> v' = v.
Proof. exact code_reported_under_registry_name. Qed.
Print Assumptions C17_code_reported_under_registry_name.

Theorem C17_name_selects_registry_code : forall t T n v v',
  In (t, T) all_tables -> enum_encode T n = Some v -> registry_lookup n = Some v' -> v = v'.
Proof. exact name_selects_registry_code. Qed.
Print Assumptions C17_name_selects_registry_code.

Theorem C17_registry_code_is_named : forall t T d n v,
  In (t, T) all_tables -> In (n, v) T ->
  exists m, enum_decode T d v = Name m /\ In (m, v) T /\ forall v', registry_lookup m = Some v' -> v' = v.
Proof. exact registry_code_is_named. Qed.
Print Assumptions C17_registry_code_is_named.

(* ---- non-vacuity: the hypotheses are satisfied by concrete, non-trivial inputs *)
Example C17_nonvacuous_pair :
  (In ("ENUM_SH_TYPE_BASE", tbl_ENUM_SH_TYPE_BASE) all_tables /\ In ("SHT_RELR", 19) tbl_ENUM_SH_TYPE_BASE /\
   registry_lookup "SHT_RELR" = Some 19) /\
  (In ("DW_OP_name2opcode", tbl_DW_OP_name2opcode) all_tables /\ In ("DW_OP_addr", 3) tbl_DW_OP_name2opcode /\
   registry_lookup "DW_OP_addr" = Some 3) /\
  (In ("ENUM_RELOC_TYPE_ARM", tbl_ENUM_RELOC_TYPE_ARM) all_tables /\
   In ("R_ARM_IRELATIVE", 160) tbl_ENUM_RELOC_TYPE_ARM /\ registry_lookup "R_ARM_IRELATIVE" = Some 160).
Proof.
  repeat split;
    first [ apply in_all_tables; vm_compute; reflexivity
          | apply tfind_in; vm_compute; reflexivity
          | vm_compute; reflexivity ].
Qed.

Example C17_nonvacuous_decode :
  enum_decode tbl_ENUM_SH_TYPE_BASE DefPass 19 = Name "SHT_RELR" /\
  enum_decode tbl_ENUM_SH_TYPE_BASE DefPass 12345 = Raw 12345 /\
  enum_decode tbl_ENUM_EI_CLASS DefRaise 77 = MappingError /\
  enum_decode tbl_ENUM_DW_TAG DefPass 46 = Name "DW_TAG_subprogram" /\
  enum_encode tbl_ENUM_DW_FORM "DW_FORM_strp" = Some 14.
Proof. repeat split; vm_compute; reflexivity. Qed.

(* the registry covers the bulk of the tables (guards against an empty registry making the
   agreement vacuous): at least 2000 of the pairs have a registry counterpart *)
Example C17_coverage :
  Z.leb 2000 (fold_left (fun a t => a + covered (snd t)) all_tables 0) = true /\
  Z.leb 4000 (Z.of_nat (List.length registry)) = true.
Proof. split; vm_compute; reflexivity. Qed.
