(* Props/C04.v — TEMPORARY scaffold while the harness is brought up. *)
From PV Require Import Spec.C04Spec Gen.C04Forms.
Theorem C04_scaffold : gen_cu_v5_from = 5%Z.
Proof. reflexivity. Qed.
Print Assumptions C04_scaffold.
Example C04_ex : True. Proof. exact I. Qed.
