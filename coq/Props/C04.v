(* Props/C04.v — property C04: debugging-information entries are decoded into exactly
   the encoded tree.  Only statements, closed by [exact]; proofs live in Proofs/C04*.v.
   Model: Model/C04Model.v (dwarfinfo.py, abbrevtable.py, die.py, compileunit.py, typeunit.py).
   Spec: Spec/C04Spec.v, Spec/C04Sem.v (written from DWARF 2-5).  Tables: Gen/C04Forms.v
   (regenerated from the live construct objects on every run). *)
From Coq Require Import String.
From PV Require Import Base.Outcome Base.Prim Spec.PrimSpec Spec.C04Desc Spec.C04Spec Spec.C04Sem Gen.C04Forms
                       Model.C04Model Proofs.C04Forms Proofs.C04Header Proofs.C04Abbrev Proofs.C04Entry Proofs.C04Unit Proofs.C04Tree Proofs.C04Refs Proofs.C04Bridge Proofs.C04Parent Proofs.C04Values.
From Coq Require Import ZArith List Bool.
Import ListNotations.
Open Scope string_scope.
Open Scope list_scope.
Open Scope Z_scope.

(* ------------------------------------------------------------------ (1) the tables of the code are the standard's *)
(* DESIGN 4.4 T1.  For each of the 32 configurations (byte order x DWARF32/64 x address size x
   version 2..5) and each of the 46 supported form codes (DWARF 5 Table 7.6, DW_FORM_ref of DWARF 1, the two dwz forms) the live
   Dwarf_dw_form dict has a parser under the standard's name, and that parser reads exactly the
   operand encoding the standard prescribes for this version / format / address size
   (finite: 32 x 46 entries, by vm_compute). *)
Theorem C04_gen_forms_match_standard : forall (c : cfg) (code : Z) (name : string),
  In c all_cfgs -> In (code, name) std_form_names ->
  exists k, std_form_class c code = Some k /\
            sfind (cfg_forms c) name = Some (class_desc (c_le c) k).
Proof. exact gen_forms_match_standard. Qed.
Print Assumptions C04_gen_forms_match_standard.

(* the 32 configurations are all of them *)
Theorem C04_all_cfgs_complete : forall c : cfg, cfg_ok c = true -> In c all_cfgs.
Proof. exact cfg_ok_in. Qed.
Print Assumptions C04_all_cfgs_complete.

(* both number -> name dicts the entry parser consults (ENUM_DW_FORM through the abbreviation
   declaration, DW_FORM_raw2name for DW_FORM_indirect) give every standard form code its standard name *)
Theorem C04_gen_form_names_match_standard : forall (code : Z) (name : string),
  In (code, name) std_form_names ->
  zfind gen_dec_form code = Some name /\ zfind gen_form_raw2name code = Some name.
Proof. exact gen_form_names_match_standard. Qed.
Print Assumptions C04_gen_form_names_match_standard.

(* the unit header structs (v2-4 CU, the six v5 unit kinds, v4 type unit) are the standard's layouts *)
Theorem C04_gen_headers_match_standard : forall le is64 : bool,
  gen_cu_header_lt5 le is64 = std_cu_lt5 le is64 /\
  gen_cu_header_ge5 le is64 = std_cu_ge5 le is64 /\
  gen_tu_header le is64 = std_tu le is64 /\
  gen_cu_v5_from = 5 /\ gen_dec_ut_pass = false /\
  (forall k, In k [1; 2; 3; 4; 5; 6] ->
     zfind gen_dec_ut k = nth_error ["DW_UT_compile"; "DW_UT_type"; "DW_UT_partial"; "DW_UT_skeleton";
                                     "DW_UT_split_compile"; "DW_UT_split_type"] (Z.to_nat (k - 1))).
Proof. exact gen_headers_match_standard. Qed.
Print Assumptions C04_gen_headers_match_standard.

(* the abbreviation declaration struct: ULEB tag, 1-byte children flag, (ULEB name, ULEB form,
   SLEB value iff implicit_const) until (0, 0) *)
Theorem C04_gen_abbrev_shape :
  gen_abbrev_tag_field = DUleb /\ gen_abbrev_children_field = DInt true 1 false /\
  gen_abbrev_at_field = DUleb /\ gen_abbrev_form_field = DUleb /\ gen_abbrev_value_field = DSleb /\
  gen_abbrev_value_forms = ["DW_FORM_implicit_const"] /\
  gen_abbrev_stop = ("DW_AT_null", "DW_FORM_null") /\
  gen_dec_tag_pass = true /\ gen_dec_at_pass = true /\ gen_dec_form_pass = true /\
  gen_dec_children = [(0, "DW_CHILDREN_no"); (1, "DW_CHILDREN_yes")] /\
  zfind gen_dec_at 0 = Some "DW_AT_null" /\ zfind gen_dec_form 0 = Some "DW_FORM_null".
Proof. exact gen_abbrev_shape. Qed.
Print Assumptions C04_gen_abbrev_shape.

Theorem C04_gen_initlen_matches_prim :
  gen_initlen_reserved_lo = INITLEN_RESERVED_LO /\ gen_initlen_escape = 0xffffffff.
Proof. exact gen_initlen_matches_prim. Qed.
Print Assumptions C04_gen_initlen_matches_prim.

(* display names are one-to-one: two different attribute / tag / form numbers never show up under the
   same dict key (so DIE.attributes, a dict keyed by name, loses no attribute of a well-formed entry) *)
Theorem C04_gen_at_names_one_to_one : forall a b, enum_pass gen_dec_at a = enum_pass gen_dec_at b -> a = b.
Proof. exact gen_at_names_one_to_one. Qed.
Print Assumptions C04_gen_at_names_one_to_one.
Theorem C04_gen_tag_names_one_to_one : forall a b, enum_pass gen_dec_tag a = enum_pass gen_dec_tag b -> a = b.
Proof. exact gen_tag_names_one_to_one. Qed.
Print Assumptions C04_gen_tag_names_one_to_one.
Theorem C04_gen_form_names_one_to_one : forall a b, enum_pass gen_dec_form a = enum_pass gen_dec_form b -> a = b.
Proof. exact gen_form_names_one_to_one. Qed.
Print Assumptions C04_gen_form_names_one_to_one.

(* the tuples of form names written inline in the code (extracted from the source of iter_DIE_children in
   compileunit.py and typeunit.py, DIE.get_DIE_from_attribute and DIE._translate_attr_value): the three copies of
   the unit-relative reference tuple agree, the section-relative form is DW_FORM_ref_addr, the index-form
   tuples are the standard's strx* / addrx* forms (compared as sets: reordering a tuple is harmless; same_names a b
   = true gives forall n, membership in a = membership in b, Proofs/C04Forms.v same_names_mem).  The model's
   tests are these generated lists. *)
Theorem C04_gen_form_name_sets :
  same_names gen_die_ref_unit_forms std_unit_ref_names = true /\
  same_names gen_cu_sibling_unit_forms std_unit_ref_names = true /\
  same_names gen_tu_sibling_unit_forms std_unit_ref_names = true /\
  gen_cu_sibling_addr_form = "DW_FORM_ref_addr" /\ gen_tu_sibling_addr_form = "DW_FORM_ref_addr" /\
  gen_die_ref_addr_pattern = "DW_FORM_ref_addr" /\ gen_die_ref_sig8_pattern = "DW_FORM_ref_sig8" /\
  same_names gen_die_ref_sup_forms ["DW_FORM_ref_sup4"; "DW_FORM_ref_sup8"; "DW_FORM_GNU_ref_alt"] = true /\
  same_names gen_translate_addrx_forms std_addrx_names = true /\
  same_names gen_translate_strx_forms std_strx_names = true /\
  snodup (concat gen_translate_chain) = true /\
  same_names (concat gen_translate_chain)
             (["DW_FORM_strp"; "DW_FORM_line_strp"; "DW_FORM_GNU_strp_alt"; "DW_FORM_strp_sup"; "DW_FORM_flag";
               "DW_FORM_flag_present"; "DW_FORM_loclistx"; "DW_FORM_rnglistx"] ++ std_addrx_names ++ std_strx_names) = true.
Proof. exact gen_form_name_sets. Qed.
Print Assumptions C04_gen_form_name_sets.

(* ------------------------------------------------------------------ (2) unit headers and abbreviation tables *)
(* DESIGN 4.4 T2.  DWARFInfo._parse_CU_at_offset over the header of the standard (v2-v4 compilation unit,
   the six DWARF 5 unit kinds; DWARF32/64, both byte orders, address size 4/8), at any offset of the
   section (pre), followed by anything (rest), with any declared length: the unit object carries exactly the
   encoded parameters; the first entry is expected right after the header. *)
Theorem C04_cu_header_roundtrip : forall (c : cfg) (k : ukind) (aoff len : Z) (pre rest : list Z),
  header_wf c k aoff = true -> initial_length_wf len (c_is64 c) = true -> is_types4 k = false ->
  parse_cu_at (c_le c)
    (pre ++ initial_length_encode (c_le c) len (c_is64 c) ++ encode_header_rest c k aoff ++ rest) (zlen pre)
  = Ok (mkuctx (c_le c) (c_is64 c) (addr_size_z c) (c_ver c) (zlen pre)
               (zlen pre + initlen_size c + zlen (encode_header_rest c k aoff)) len
               (hdr_unit_type k) (hdr_fields c k aoff)).
Proof. exact cu_header_roundtrip. Qed.
Print Assumptions C04_cu_header_roundtrip.

(* the v4 type unit header of .debug_types (DWARFInfo._parse_TU_at_offset) *)
Theorem C04_tu_header_roundtrip : forall (c : cfg) (sg toff aoff len : Z) (pre rest : list Z),
  header_wf c (UKtypes4 sg toff) aoff = true -> initial_length_wf len (c_is64 c) = true ->
  parse_tu_at (c_le c)
    (pre ++ initial_length_encode (c_le c) len (c_is64 c) ++ encode_header_rest c (UKtypes4 sg toff) aoff ++ rest)
    (zlen pre)
  = Ok (expect_uctx c (UKtypes4 sg toff) aoff len (zlen pre)).
Proof. exact tu_header_roundtrip. Qed.
Print Assumptions C04_tu_header_roundtrip.

(* AbbrevTable over the standard's encoding of a table (every LEB128 number in any valid encoding, minimal or
   not; arbitrary distinct codes; unknown tag / attribute / form numbers; DW_FORM_implicit_const values) located
   anywhere in .debug_abbrev: the dict holds exactly the declarations ... *)
Theorem C04_abbrev_roundtrip : forall (t : atable) (sec : list Z) (off : Z) (tail : list Z),
  atable_wf t = true -> 0 <= off -> (Z.to_nat off < length sec)%nat ->
  skipn (Z.to_nat off) sec = encode_atable t ++ tail ->
  get_abbrev_table sec off
  = Ok (rev (map (fun d => (lv (d_code d),
                            mkmdecl (enum_pass gen_dec_tag (lv (d_tag d))) (d_kids d)
                                    (map (fun a => mkmspec (enum_pass gen_dec_at (lv (a_name a)))
                                                           (enum_pass gen_dec_form (lv (a_form a)))
                                                           (option_map lv (a_const a))) (d_attrs d))))
                 (t_decls t))).
Proof. exact abbrev_roundtrip. Qed.
Print Assumptions C04_abbrev_roundtrip.

(* ... and a lookup by code finds the declaration with that code *)
Theorem C04_abbrev_lookup : forall (t : atable) (code : Z),
  atable_wf t = true ->
  zfind (expect_abbrevs t) code = option_map expect_mdecl (find_decl (t_decls t) code).
Proof. exact abbrev_lookup. Qed.
Print Assumptions C04_abbrev_lookup.

(* ------------------------------------------------------------------ (3) entries *)
(* every operand class of the standard except the two special ones is read back exactly, any following bytes *)
Theorem C04_operand_roundtrip : forall c k op t,
  operand_wf c k op = true -> plain_class k = true ->
  parse_desc (class_desc (c_le c) k) (encode_operand c k op ++ t) = Ok (raw_of op, t).
Proof. exact parse_desc_operand. Qed.
Print Assumptions C04_operand_roundtrip.

(* DW_FORM_indirect chains of any length: final form, raw value of the innermost operand, chain length *)
Theorem C04_indirect_roundtrip : forall c f inner t,
  cfg_ok c = true -> operand_wf c CIndirect (OpIndirect f inner) = true ->
  resolve_indirect (cfg_forms c) (encode_operand c CIndirect (OpIndirect f inner) ++ t)
  = Ok (dn_form (final_form 0x16 (OpIndirect f inner)), raw_of inner, chain_length (OpIndirect f inner), t).
Proof. exact resolve_indirect_ok. Qed.
Print Assumptions C04_indirect_roundtrip.

(* the attribute loop of DIE._parse_DIE, without assuming distinct attribute names: DIE.attributes is the
   dict obtained by assigning the expected attributes in order *)
Theorem C04_attributes_dict : forall c, cfg_ok c = true ->
  forall specs vals t pos acc,
  forallb aspec_wf specs = true -> vals_wf c specs vals = true ->
  parse_attrs (cfg_forms c) (map expect_mspec specs) (encode_vals c specs vals ++ t) pos acc
  = Ok (fold_left attrs_set (expect_attrs dn_at dn_form c specs vals pos) acc,
        pos + zlen (encode_vals c specs vals)).
Proof. exact parse_attrs_fold. Qed.
Print Assumptions C04_attributes_dict.

(* one entry (null entries included) wherever it lies: offset, size, abbreviation code, tag, child flag and,
   in order, each attribute's name, final form, raw value, offset and indirection length *)
Theorem C04_entry_exact : forall c (abbrevs : list (Z * mdecl)) (ds : list adecl) (e : fentry)
                                 (sec : list Z) (off : Z) (tail : list Z),
  cfg_ok c = true ->
  (forall code, zfind abbrevs code = option_map expect_mdecl (find_decl ds code)) ->
  forallb adecl_wf ds = true ->
  entry_wf c ds e = true ->
  zskipn off sec = encode_entry c ds e ++ tail ->
  parse_die (cfg_forms c) abbrevs sec off = Ok (expect_entry dn_tag dn_at dn_form c ds e off).
Proof. exact parse_die_ok. Qed.
Print Assumptions C04_entry_exact.

(* DESIGN 4.4 T3 (dies_flat_exact).  A well-formed unit placed anywhere in its section: the header parses to
   the unit's parameters, its abbreviation table (anywhere in .debug_abbrev) to its declarations, ... *)
Theorem C04_unit_header_exact : forall (u : unit) (pre tail : list Z),
  unit_wf u = true ->
  (if is_types4 (u_kind u) then parse_tu_at else parse_cu_at)
    (c_le (u_cfg u)) (pre ++ encode_unit u ++ tail) (zlen pre)
  = Ok (expect_uctx (u_cfg u) (u_kind u) (u_abbrev_off u) (unit_length u) (zlen pre)).
Proof. exact unit_header_exact. Qed.
Print Assumptions C04_unit_header_exact.

Theorem C04_unit_abbrevs_exact : forall (u : unit) (abbrev_sec sec : list Z) (off : Z),
  unit_wf u = true -> table_at abbrev_sec u ->
  open_unit abbrev_sec sec (expect_unit_ctx u off)
  = Ok (mkmunit (expect_unit_ctx u off) sec (expect_abbrevs (u_table u))).
Proof. exact unit_abbrevs_exact. Qed.
Print Assumptions C04_unit_abbrevs_exact.

(* the executable placement check the driver evaluates implies table_at *)
Theorem C04_table_at_b_sound : forall (abbrev_sec : list Z) (u : unit),
  atable_wf (u_table u) = true -> table_at_b abbrev_sec u = true -> table_at abbrev_sec u.
Proof. exact table_at_b_sound. Qed.
Print Assumptions C04_table_at_b_sound.

(* ... and fetching the entry at each successive offset from cu_die_offset on yields exactly the pre-order
   flattening of the encoded tree, one null entry closing each sibling list *)
Theorem C04_dies_flat_exact : forall (u : unit) (pre tail : list Z),
  unit_wf u = true ->
  let sec := pre ++ encode_unit u ++ tail in
  let M := expect_munit u sec (zlen pre) in
  Forall (fun x => get_die M (x_off x) = Ok x)
         (expect_entries dn_tag dn_at dn_form (u_cfg u) (t_decls (u_table u)) (unit_entries u)
                         (zlen pre + header_size u)).
Proof. exact unit_entries_exact. Qed.
Print Assumptions C04_dies_flat_exact.

(* resolved values.  DIE._translate_attr_value (the .value of an attribute) for a form code f and raw value:
   strp / line_strp -> the NUL-terminated string at that offset of .debug_str / .debug_line_str; flag -> truth
   value; strx* -> .debug_str_offsets[base + i * offset_size] then the string; addrx* -> .debug_addr[base + i *
   address_size]; loclistx / rnglistx -> base + table[i]; bases from the DW_AT_*_base attributes of the unit's
   top entry; anything else the raw value.  Whenever the standard's value exists (Spec.C04Sem.resolve = Some),
   the library returns it. *)
Theorem C04_value_exact : forall (S : dsections) (U : uctx) (c : cfg) (xs : xsections)
        (top_attrs : list xattr) (root : list (Z * Z * rawval)) (f : Z) (raw : rawval) (v : value),
  ctx_match S U c xs -> bases_match top_attrs root ->
  resolve c xs root f raw = Some v ->
  translate_attr_value S U top_attrs (dn_form f) raw = Ok v.
Proof. exact translate_value_exact. Qed.
Print Assumptions C04_value_exact.

(* for a unit: the values of all attributes of any well-formed entry, in order, with the bases taken from the
   unit's own top entry *)
Theorem C04_unit_values_exact : forall (u : unit) (S : dsections) (xs : xsections) (uoff : Z) (d : die) (off : Z) (vs : list value),
  unit_wf u = true -> sections_match S xs ->
  let c := u_cfg u in let ds := t_decls (u_table u) in
  entry_wf c ds (root_fentry d) = true ->
  resolve_all c xs (root_codes u) (entry_codes c ds (die_code d) (die_vals d)) = map Some vs ->
  die_values S (expect_unit_ctx u uoff) (x_attrs (root_entry c ds (u_root u) (uoff + header_size u)))
             (root_entry c ds d off) = Ok vs.
Proof. exact unit_values_exact. Qed.
Print Assumptions C04_unit_values_exact.

(* ------------------------------------------------------------------ (4) tiling *)
(* DESIGN 4.4 T4.  The expected (= decoded, by C04_dies_flat_exact) entries start at cu_die_offset, each one
   starts where the previous one ends, each has positive size, and the last one ends at
   cu_offset + unit_length + initial-length size = the end of the encoded unit *)
Theorem C04_tiling : forall (u : unit) (off : Z),
  unit_wf u = true ->
  let U := expect_unit_ctx u off in
  tiles (expect_dies (u_cfg u) (t_decls (u_table u)) (unit_entries u) (uc_die_off U))
        (uc_die_off U) (uc_off U + uc_size U)
  /\ uc_die_off U = off + header_size u
  /\ uc_off U + uc_size U = off + zlen (encode_unit u).
Proof. exact unit_tiling. Qed.
Print Assumptions C04_tiling.

(* ------------------------------------------------------------------ (5) children, terminators, iteration *)
(* DESIGN 4.4 T5.  Hypothesis unit_sibs_ok: wherever an entry with children carries DW_AT_sibling, the attribute
   (forms ref1/2/4/8/ref_udata relative to the unit, or ref_addr) designates the true next sibling / the null
   entry closing the list (Spec.C04Sem.sibling_ok); absent attributes are always fine.
   cu.iter_DIEs() = _iter_DIE_subtree(top DIE), which walks with iter_DIE_children (sibling shortcut or
   recursive terminator search), yields exactly the pre-order list of C04_dies_flat_exact. *)
Theorem C04_iter_DIEs_exact : forall (u : unit) (pre tail : list Z) (in_info : bool),
  unit_wf u = true ->
  let sec := pre ++ encode_unit u ++ tail in
  unit_sibs_ok u in_info sec (zlen pre) = true ->
  iter_DIEs (expect_munit u sec (zlen pre))
  = Ok (expect_entries dn_tag dn_at dn_form (u_cfg u) (t_decls (u_table u)) (unit_entries u)
                       (zlen pre + header_size u)).
Proof. exact iter_DIEs_exact. Qed.
Print Assumptions C04_iter_DIEs_exact.

(* children_exact / terminators_exact: for EVERY node d (at offset off) of the encoded tree, DIE.iter_children()
   returns exactly the root entries of the encoded children in order (kid_roots: each child starts where the
   previous child's subtree ends), and the terminator recorded is the null entry right after the last child's
   subtree; an entry whose abbreviation says DW_CHILDREN_no has no children and no terminator *)
Theorem C04_children_exact : forall (u : unit) (pre tail : list Z) (in_info : bool) (d : die) (off : Z),
  unit_wf u = true ->
  let sec := pre ++ encode_unit u ++ tail in
  let c := u_cfg u in let ds := t_decls (u_table u) in let M := expect_munit u sec (zlen pre) in
  unit_sibs_ok u in_info sec (zlen pre) = true ->
  node_at c ds (u_root u) (zlen pre + header_size u) d off ->
  iter_children M (unit_fuel M) (root_entry c ds d off)
  = Ok (if d_has_kids ds d then kid_roots c ds (die_kids d) (off + root_size c ds d) else [],
        if d_has_kids ds d
        then Some (null_entry c ds (die_term d) (off + root_size c ds d + kids_size c ds (die_kids d)))
        else None).
Proof. exact unit_children_exact. Qed.
Print Assumptions C04_children_exact.

(* the same in the vocabulary of the specification the harness compares against (Spec.C04Sem.expect_tree,
   siblings_wf = the 5th bit of the driver's wf answer): for every node, iter_children of the node's entry =
   (entries of the expected tree node's children, its terminator) *)
Theorem C04_children_exact_tree : forall (u : unit) (pre tail : list Z) (in_info : bool) (d : die) (off : Z),
  unit_wf u = true ->
  let sec := pre ++ encode_unit u ++ tail in
  let c := u_cfg u in let ds := t_decls (u_table u) in let M := expect_munit u sec (zlen pre) in
  siblings_wf c ds in_info (zlen pre) (u_root u)
              (expect_tree dn_tag dn_at dn_form c ds (u_root u) (zlen pre + header_size u)) = true ->
  node_at c ds (u_root u) (zlen pre + header_size u) d off ->
  let n := expect_tree dn_tag dn_at dn_form c ds d off in
  iter_children M (unit_fuel M) (xn_die n) = Ok (map xn_die (xn_kids n), xn_term n).
Proof. exact children_exact_tree. Qed.
Print Assumptions C04_children_exact_tree.

(* the spec's sibling check implies the hypothesis of C04_iter_DIEs_exact / C04_children_exact *)
Theorem C04_spec_siblings_wf_imp : forall (u : unit) (in_info : bool) (sec : list Z) (off : Z),
  siblings_wf (u_cfg u) (t_decls (u_table u)) in_info off (u_root u)
              (expect_tree dn_tag dn_at dn_form (u_cfg u) (t_decls (u_table u)) (u_root u) (off + header_size u)) = true ->
  unit_sibs_ok u in_info sec off = true.
Proof. exact spec_siblings_wf_imp. Qed.
Print Assumptions C04_spec_siblings_wf_imp.

(* every node of the expected tree sits where the flattening puts it: its entry is the expected entry at its
   offset and its subtree ends after the encoded size of the subtree *)
Theorem C04_expect_tree_positions : forall c ds d off,
  xn_die (expect_tree dn_tag dn_at dn_form c ds d off) = root_entry c ds d off /\
  xn_end (expect_tree dn_tag dn_at dn_form c ds d off) = off + tree_size c ds d.
Proof. exact expect_tree_pos. Qed.
Print Assumptions C04_expect_tree_positions.

(* parent_exact: for every node dp (at offp) with children, and every t that is the offset of one of its encoded
   children or of the null entry closing them, DIE.get_parent() of the entry at t -- the top-down search
   _search_ancestor_offspring, which at each generation descends into the child with the closest offset not
   greater than t -- returns the entry at offp; the top entry has no parent *)
Theorem C04_parent_exact : forall (u : unit) (pre tail : list Z) (in_info : bool) (dp : die) (offp t : Z) (x : xdie),
  unit_wf u = true ->
  let sec := pre ++ encode_unit u ++ tail in
  let c := u_cfg u in let ds := t_decls (u_table u) in let M := expect_munit u sec (zlen pre) in
  unit_sibs_ok u in_info sec (zlen pre) = true ->
  node_at c ds (u_root u) (zlen pre + header_size u) dp offp -> d_has_kids ds dp = true ->
  child_pos c ds dp offp t -> x_off x = t ->
  get_parent M x = Ok (Some offp).
Proof. exact unit_parent_exact. Qed.
Print Assumptions C04_parent_exact.

Theorem C04_parent_of_top : forall (M : munit) (x top : xdie),
  get_top_DIE M = Ok top -> x_off x = x_off top -> get_parent M x = Ok None.
Proof. exact parent_of_top. Qed.
Print Assumptions C04_parent_of_top.

(* ------------------------------------------------------------------ (6) references *)
(* DESIGN 4.4 T6.  DIE.get_DIE_from_attribute returns the entry that starts at the designated offset
   (find_entry over the expected = decoded entry list), together with the unit that holds it.
   Unit-relative forms (ref1/2/4/8/ref_udata; the value is relative to the unit start): *)
Theorem C04_refs_resolve_unit : forall (u : unit) (pre tail : list Z) (S : dsections) (w : where_) (a : xattr) (v : Z) (d : xdie),
  unit_wf u = true ->
  let sec := pre ++ encode_unit u ++ tail in
  is_unit_ref_form (xa_form a) = true -> xa_raw a = RInt v ->
  find_entry (expect_dies (u_cfg u) (t_decls (u_table u)) (unit_entries u) (zlen pre + header_size u)) (zlen pre + v) = Some d ->
  die_from_attribute S w (expect_munit u sec (zlen pre)) a = Ok (w, zlen pre, d).
Proof. exact unit_ref_exact. Qed.
Print Assumptions C04_refs_resolve_unit.

(* DW_FORM_ref_addr: an offset into .debug_info; the containing unit is searched from the start of the section
   (units before it are parsed and skipped, units after it are never looked at), its abbreviation table is
   loaded, and the entry at the offset is returned *)
Theorem C04_refs_resolve_ref_addr : forall (S : dsections) (before : list unit) (u : unit) (after : list unit)
        (w : where_) (M0 : munit) (a : xattr) (raw : Z) (d : xdie),
  s_info S = encode_section (before ++ u :: after) ->
  forallb unit_wf (before ++ [u]) = true -> units_in (s_le S) false (before ++ [u]) = true ->
  table_at (s_abbrev S) u ->
  let off := zlen (encode_section before) in
  xa_form a = EName "DW_FORM_ref_addr" -> xa_raw a = RInt raw ->
  find_entry (expect_dies (u_cfg u) (t_decls (u_table u)) (unit_entries u) (off + header_size u)) raw = Some d ->
  die_from_attribute S w M0 a = Ok (InInfo, off, d).
Proof. exact ref_addr_exact. Qed.
Print Assumptions C04_refs_resolve_ref_addr.

(* DW_FORM_ref_sig8 naming a DWARF 5 type unit (DW_UT_type / DW_UT_split_type) of .debug_info: the entry at
   unit offset + type_offset of the (last) unit carrying the signature.  [This is the behaviour repaired by
   /repo commit f90eac4.] *)
Theorem C04_refs_resolve_sig8_info : forall (S : dsections) (before : list unit) (u : unit) (after types_us : list unit)
        (w : where_) (M0 : munit) (a : xattr) (sg toff : Z) (d : xdie),
  s_info S = encode_section (before ++ u :: after) -> s_types S = encode_section types_us ->
  forallb unit_wf (before ++ u :: after) = true -> units_in (s_le S) false (before ++ u :: after) = true ->
  forallb unit_wf types_us = true -> units_in (s_le S) true types_us = true ->
  u_kind u = UKtype sg toff \/ u_kind u = UKsplit_type sg toff ->
  (forall u', In u' after -> v5_type_sig u' <> Some sg) ->
  table_at (s_abbrev S) u ->
  let off := zlen (encode_section before) in
  xa_form a = EName "DW_FORM_ref_sig8" -> xa_raw a = RInt sg ->
  find_entry (expect_dies (u_cfg u) (t_decls (u_table u)) (unit_entries u) (off + header_size u)) (off + toff) = Some d ->
  die_from_attribute S w M0 a = Ok (InInfo, off, d).
Proof. exact ref_sig8_info_exact. Qed.
Print Assumptions C04_refs_resolve_sig8_info.

(* DW_FORM_ref_sig8 naming a v4 type unit of .debug_types *)
Theorem C04_refs_resolve_sig8_types : forall (S : dsections) (info_us before : list unit) (u : unit) (after : list unit)
        (w : where_) (M0 : munit) (a : xattr) (sg toff : Z) (d : xdie),
  s_info S = encode_section info_us -> s_types S = encode_section (before ++ u :: after) ->
  forallb unit_wf info_us = true -> units_in (s_le S) false info_us = true ->
  forallb unit_wf (before ++ u :: after) = true -> units_in (s_le S) true (before ++ u :: after) = true ->
  u_kind u = UKtypes4 sg toff ->
  (forall u', In u' info_us -> v5_type_sig u' <> Some sg) ->
  (forall u', In u' after -> types4_sig u' <> Some sg) ->
  table_at (s_abbrev S) u ->
  let off := zlen (encode_section before) in
  xa_form a = EName "DW_FORM_ref_sig8" -> xa_raw a = RInt sg ->
  find_entry (expect_dies (u_cfg u) (t_decls (u_table u)) (unit_entries u) (off + header_size u)) (off + toff) = Some d ->
  die_from_attribute S w M0 a = Ok (InTypes, off, d).
Proof. exact ref_sig8_types_exact. Qed.
Print Assumptions C04_refs_resolve_sig8_types.

(* ------------------------------------------------------------------ (7) several units *)
(* DESIGN 4.4 T7.  Units of mixed version / format / address size / kind laid end to end: iter_CUs (iter_TUs
   for .debug_types) finds each at the running sum of the encoded sizes and parses it with its own parameters *)
Theorem C04_multi_unit_CUs : forall (le : bool) (us : list unit),
  forallb unit_wf us = true -> units_in le false us = true ->
  iter_CUs le (encode_section us) = Ok (expect_units us 0).
Proof. exact iter_CUs_exact. Qed.
Print Assumptions C04_multi_unit_CUs.

Theorem C04_multi_unit_TUs : forall (le : bool) (us : list unit),
  forallb unit_wf us = true -> units_in le true us = true ->
  iter_TUs le (encode_section us) = Ok (expect_units us 0).
Proof. exact iter_TUs_exact. Qed.
Print Assumptions C04_multi_unit_TUs.

(* the j-th unit among others: its table loads and its entries / iteration are the expected ones at their
   section offsets (off = total encoded size of the units before it) *)
Theorem C04_section_unit_exact : forall (sec abbrev_sec : list Z) (before : list unit) (u : unit) (after : list unit) (in_info : bool),
  sec = encode_section (before ++ u :: after) ->
  unit_wf u = true -> table_at abbrev_sec u ->
  let off := zlen (encode_section before) in
  let M := expect_munit u sec off in
  unit_sibs_ok u in_info sec off = true ->
  open_unit abbrev_sec sec (expect_unit_ctx u off) = Ok M /\
  Forall (fun x => get_die M (x_off x) = Ok x)
         (expect_dies (u_cfg u) (t_decls (u_table u)) (unit_entries u) (off + header_size u)) /\
  iter_DIEs M = Ok (expect_dies (u_cfg u) (t_decls (u_table u)) (unit_entries u) (off + header_size u)).
Proof. exact section_unit_exact. Qed.
Print Assumptions C04_section_unit_exact.

(* ------------------------------------------------------------------ non-vacuity *)
Example C04_ex_cfg : In (mkcfg false true true 5) all_cfgs /\ In (0x28, "DW_FORM_strx4") std_form_names /\
  std_form_class (mkcfg false true true 5) 0x28 = Some (CFixed 4) /\
  std_form_class (mkcfg false true true 2) 0x10 = Some (CFixed 8) /\
  std_form_class (mkcfg false true false 3) 0x10 = Some (CFixed 8) /\
  std_form_class (mkcfg false false true 3) 0x10 = Some (CFixed 4).
Proof. vm_compute. intuition. Qed.

(* a DWARF 5, 64-bit, big-endian skeleton unit: root with an inline string, an indirect(indirect(udata 300))
   attribute with a non-minimal form code, an implicit_const child, padded null entry *)
Definition ex_table : atable :=
  mkatable [mkadecl (mklebn 1 [0x81; 0x00]) (mklebn 0x11 [0x11]) true
                    [mkaspec (mklebn 0x03 [0x03]) (mklebn 0x08 [0x08]) None;
                     mkaspec (mklebn 0x7777 [0xf7; 0xee; 0x01]) (mklebn 0x16 [0x16]) None] [0] [0x80; 0];
            mkadecl (mklebn 300 [0xac; 0x02]) (mklebn 0x12345 [0xc5; 0xc6; 0x04]) false
                    [mkaspec (mklebn 0x3e [0x3e]) (mklebn 0x21 [0x21]) (Some (mklebn (-5) [0x7b]))] [0] [0]]
           [0].
Definition ex_unit : unit :=
  mkunit (mkcfg false true true 5) (UKskeleton 0x1122334455667788) 3 ex_table
         (Node (mklebn 1 [1]) [OpStr [97; 98];
                               OpIndirect (mklebn 0x16 [0x96; 0x00]) (OpIndirect (mklebn 0x0f [0x0f]) (OpLeb (mklebn 300 [0xac; 0x02])))]
               [Node (mklebn 300 [0xac; 0x02]) [OpImplicit] [] []] [0x80; 0x00]).
Example C04_ex_unit_wf :
  unit_wf ex_unit = true /\ table_at_b ([9; 9; 9] ++ encode_atable ex_table ++ [7]) ex_unit = true /\
  units_in false false [ex_unit; ex_unit] = true /\
  List.length (unit_entries ex_unit) = 3%nat /\ zlen (encode_unit ex_unit) = 45.
Proof. vm_compute. intuition. Qed.

(* a unit whose root carries a DW_AT_sibling (ref_udata, non-minimal) pointing at its own end: the sibling
   hypothesis is satisfiable with a present attribute, and the node relation reaches a grandchild *)
Definition ex_table2 : atable :=
  mkatable [mkadecl (mklebn 7 [7]) (mklebn 0x2e [0x2e]) true
                    [mkaspec (mklebn 0x01 [0x01]) (mklebn 0x13 [0x13]) None] [0] [0];
            mkadecl (mklebn 9 [9]) (mklebn 0x34 [0x34]) false
                    [mkaspec (mklebn 0x02 [0x02]) (mklebn 0x0b [0x0b]) None] [0] [0]]
           [0].
Definition ex_unit2 : unit :=
  mkunit (mkcfg true false false 4) UKlegacy 0 ex_table2
         (Node (mklebn 7 [7]) [OpU 28]
               [Node (mklebn 7 [7]) [OpU 24] [Node (mklebn 9 [9]) [OpU 5] [] []] [0];
                Node (mklebn 9 [0x89; 0]) [OpU 6] [] []] [0]).
Example C04_ex_siblings :
  unit_wf ex_unit2 = true /\
  unit_sibs_ok ex_unit2 true ([1; 2; 3] ++ encode_unit ex_unit2 ++ [4]) 3 = true /\
  zlen (encode_unit ex_unit2) = 28.
Proof. vm_compute. intuition. Qed.

(* the reference of the first child of ex_unit2 (unit-relative 24, unit at 3) designates an entry: its sibling *)
Example C04_ex_ref_target :
  exists d, find_entry (expect_dies (u_cfg ex_unit2) (t_decls ex_table2) (unit_entries ex_unit2) (3 + header_size ex_unit2))
                       (3 + 24) = Some d /\ x_code d = 9 /\ x_size d = 3.
Proof. eexists. vm_compute. intuition. Qed.

(* in ex_unit2 (at offset 3) the grandchild at 24 and the null entry at 26 are child positions of the first
   child (at 19), which is a node of the tree *)
Example C04_ex_positions :
  let c := u_cfg ex_unit2 in let ds := t_decls ex_table2 in
  exists k1 k2 g, die_kids (u_root ex_unit2) = [k1; k2] /\ die_kids k1 = [g] /\
    node_at c ds (u_root ex_unit2) (3 + header_size ex_unit2) k1 19 /\ d_has_kids ds k1 = true /\
    child_pos c ds k1 19 24 /\ child_pos c ds k1 19 26.
Proof.
  cbv zeta. do 3 eexists. split; [reflexivity|]. split; [reflexivity|]. split; [|split; [reflexivity|split]].
  - eapply node_below; [reflexivity| |apply node_self]. apply (kid_here _ _ _ _ 19).
  - eapply cp_kid. apply (kid_here _ _ _ _ 24).
  - apply cp_term. reflexivity.
Qed.

(* resolvable index forms: a strx1 attribute through DW_AT_str_offsets_base of the root *)
Example C04_ex_resolve :
  resolve (mkcfg true false false 5) (mkxsections [120; 0; 97; 98; 0] [] [9; 9; 2; 0; 0; 0] [] [] [])
          [(AT_str_offsets_base, 0x17, RInt 2)] 0x25 (RInt 0) = Some (VBytes [97; 98]).
Proof. vm_compute. reflexivity. Qed.
