(* Props/C10.v — placeholder while the proofs are being built *)
From PV Require Import Model.C10Machine Spec.C10Spec.
Theorem C10_placeholder : True.
Proof. exact I. Qed.
Print Assumptions C10_placeholder.
Example C10_placeholder_ex : True.
Proof. exact I. Qed.
