(* Props/C10.v — property C10: answers do not depend on query history or stream position.
   Only statements, closed by [exact]; proofs live in
   Proofs/C10{Base,Tree,Nodes,Elf,Units,Lines,Main,Top,Nav,Nav2,Nav3,NavTop,Final}.v.

   Model  Model/C10Machine.v: [step : state -> op -> state * answer], the transliteration of the caches
          (_cu_offsets_map/_cu_cache, _diemap/_dielist, _abbrevtable_cache, _linetable_cache,
          _section_name_map, _symbol_name_map, _num_tags, _decoded_entries, CFIEntry._decoded_table, _type_units_by_sig), the object heaps with
          _parent/_terminator, ONE cursor per stream, and the frames of live generators.
   Spec   Spec/C10Spec.v: [query_spec F o], a function of the file and the query only, and [spec_step]
          over iterator positions alone (no caches, no cursors, no objects).
   Inv    Proofs/C10Base.v [Inv F s]: cursor list complete; cache key lists sorted, duplicate-free and
          parallel to the object lists; every cached unit / entry / abbreviation table / line program is
          the pure parse at its key; the first cached entry of a unit is its top entry; every unit and entry
          object is the one the cache holds for its offset (identity); every set _parent / _terminator
          link points to the object of the true parent / closing null entry; every memo field, when set,
          equals the pure result.  [frames_rel F s afs] ties live generator frames to iterator positions.
   Domain [wf_file F] (units tile .debug_info, entry trees tile their units, DW_AT_sibling truthful, tables
          present), [fuel_ok F fuel] (the fuel of the model's loops exceeds the size bound of the file, so
          fuel never runs out), [op_ok F o] = [valid_op F o] (offset-exact lookups name the start of a
          unit / entry, indices are inside their tables) and outside the known finding. *)
From PV Require Import Model.C10Types Model.C10Machine Spec.C10Spec.
From PV Require Import Proofs.C10Base Proofs.C10Units Proofs.C10Nav3 Proofs.C10Final.
From Coq Require Import String.
From Coq Require Import ZArith List Bool.
Import ListNotations.
Open Scope Z_scope.

(* ---- the invariant holds on a freshly opened object *)
Theorem C10_inv_init : forall F n, Inv F (init_state n).
Proof. exact Inv_init. Qed.
Print Assumptions C10_inv_init.

(* ---- the bisect-maintained unit cache is transparent: get_CU_at on the offset of a unit returns the
   object of the pure parse of that unit, whatever was cached and wherever the cursors were *)
Theorem C10_unit_cache_transparent : forall F, wf_file F = true -> forall fuel, (length (f_units F) < fuel)%nat ->
  forall s u ud, Inv F s -> unit_at F u = Some ud ->
  exists s' id, get_CU_at (parsers_of F) u s = (s', Ok id) /\ Inv F s' /\ ext s s' /\ cu_at s' id u.
Proof. exact get_CU_at_ok. Qed.
Print Assumptions C10_unit_cache_transparent.

(* ---- get_CU_containing: the search started from the nearest cached unit finds the unit that contains
   the address *)
Theorem C10_unit_containing : forall F, wf_file F = true -> forall fuel, (length (f_units F) < fuel)%nat ->
  forall s a, Inv F s -> 0 <= a < f_info_size F ->
  exists ud s' id, unit_containing F a = Some ud /\ get_CU_containing (parsers_of F) fuel a s = (s', Ok id) /\
                   Inv F s' /\ ext s s' /\ cu_at s' id (ud_off ud).
Proof. exact get_CU_containing_ok. Qed.
Print Assumptions C10_unit_containing.

(* ---- inserting a freshly parsed entry at the bisect position keeps the per-unit cache sorted,
   duplicate-free, parallel, headed by the top entry, and every object the pure parse at its key *)
Theorem C10_entry_cache_insert : forall F, wf_file F = true -> forall fuel, (length (f_units F) < fuel)%nat ->
  forall s cu c off e, Inv F s -> nth_error (cus s) cu = Some c ->
  entry_at F (c_off c) off = Some e -> ~ In off (c_diemap c) ->
  (c_diemap c = [] -> off = c_die_off c) -> c_die_off c <= off ->
  let i := bisect_right (c_diemap c) off in
  let f := fun c0 => set_c_cache c0 (list_insert i off (c_diemap c0)) (list_insert i (length (dies s)) (c_dielist c0)) in
  let s' := set_cus (set_dies s (dies s ++ [mk_die cu off (en_raw e) None None])) (upd_nth cu f (cus s)) in
  Inv F s' /\ ext s s' /\ die_at s' (length (dies s)) (c_off c) off.
Proof. exact Inv_insert_die. Qed.
Print Assumptions C10_entry_cache_insert.

(* ---- the per-unit entry cache is transparent: _get_cached_DIE on the offset of an entry returns the
   object of the pure parse of that entry (hit or miss, any cursor position) *)
Theorem C10_entry_cache_transparent : forall F, wf_file F = true -> forall fuel, (length (f_units F) < fuel)%nat ->
  forall s cu c off e, Inv F s -> nth_error (cus s) cu = Some c -> entry_at F (c_off c) off = Some e ->
  exists s' id, get_cached_DIE (parsers_of F) cu off s = (s', Ok id) /\ Inv F s' /\ ext s s' /\
                die_at s' id (c_off c) off.
Proof. exact get_cached_DIE_ok. Qed.
Print Assumptions C10_entry_cache_transparent.

(* ---- get_parent: the ancestor search with its side effects on _parent / _terminator links returns the
   object of the true parent *)
Theorem C10_get_parent : forall F, wf_file F = true -> forall fuel, (length (f_units F) < fuel)%nat ->
  (forall ud, In ud (f_units F) -> (2 * nav_fuel (ud_tree ud) < fuel)%nat) ->
  forall s self u o e, Inv F s -> die_at s self u o -> entry_at F u o = Some e ->
  exists s' r, get_parent (parsers_of F) fuel self s = (s', Ok r) /\ Inv F s' /\ ext s s' /\
    match en_parent e with
    | Some po => exists pid, r = Some pid /\ die_at s' pid u po
    | None => r = None
    end.
Proof. exact get_parent_ok. Qed.
Print Assumptions C10_get_parent.

(* ---- one step of the machine refines one step of the reference machine and keeps the invariant:
   EVERY operation (queries, navigation, generator creation and resumption, stream repositioning) *)
Theorem C10_step_refines : forall F, wf_file F = true -> forall fuel, fuel_ok F fuel = true ->
  forall s afs o, Inv F s -> frames_rel F s afs -> op_ok F o = true ->
  snd (step (parsers_of F) fuel s o) = snd (spec_step F afs o) /\
  Inv F (fst (step (parsers_of F) fuel s o)) /\
  frames_rel F (fst (step (parsers_of F) fuel s o)) (fst (spec_step F afs o)).
Proof. exact step_refines. Qed.
Print Assumptions C10_step_refines.

(* ---- ... lifted to every finite history, from any state that satisfies the invariant *)
Theorem C10_history_refines : forall F, wf_file F = true -> forall fuel, fuel_ok F fuel = true ->
  forall h s afs, Inv F s -> frames_rel F s afs -> forallb (op_ok F) h = true ->
  snd (run (parsers_of F) fuel s h) = snd (spec_run F afs h) /\
  Inv F (fst (run (parsers_of F) fuel s h)) /\
  frames_rel F (fst (run (parsers_of F) fuel s h)) (fst (spec_run F afs h)).
Proof. exact history_refines. Qed.
Print Assumptions C10_history_refines.

(* ---- ... in particular from a freshly opened object: the answers of a history are those of the
   reference machine, which has no caches and no cursors *)
Theorem C10_history_independent : forall F, wf_file F = true -> forall fuel, fuel_ok F fuel = true ->
  forall n h, forallb (op_ok F) h = true ->
  snd (run (parsers_of F) fuel (init_state n) h) = snd (spec_run F (repeat AFEmpty n) h).
Proof. exact history_independent. Qed.
Print Assumptions C10_history_independent.

(* ---- a query asked after ANY history returns the stateless answer, which is also what a freshly
   opened object returns *)
Theorem C10_query_after_history : forall F, wf_file F = true -> forall fuel, fuel_ok F fuel = true ->
  forall n h o, forallb (op_ok F) (h ++ [o]) = true -> is_query o = true ->
  snd (step (parsers_of F) fuel (fst (run (parsers_of F) fuel (init_state n) h)) o) = query_spec F o /\
  snd (step (parsers_of F) fuel (init_state n) o) = query_spec F o.
Proof. exact query_after_history. Qed.
Print Assumptions C10_query_after_history.

(* ---- the decoded call-frame table of entries[i] (CFIEntry.get_decoded(), memoised per entry; an FDE goes
   through the memo of its CIE) is the same after every history of fetching lists and decoding other entries *)
Theorem C10_cfi_decoded_history_independent : forall F, wf_file F = true -> forall fuel, fuel_ok F fuel = true ->
  forall n h eh i, forallb (op_ok F) (h ++ [CFIDecoded eh i]) = true ->
  snd (step (parsers_of F) fuel (fst (run (parsers_of F) fuel (init_state n) h)) (CFIDecoded eh i)) =
  query_spec F (CFIDecoded eh i).
Proof. exact cfi_decoded_after_history. Qed.
Print Assumptions C10_cfi_decoded_history_independent.

(* ---- two opened files in one process (any two files, e.g. of different byte order, address size, DWARF
   format): a history that interleaves queries on both gets, for every query, the stateless answer for ITS file;
   the model has no state outside the two objects - that the library has none either (module- or class-level
   caches) is what the pair histories of the correspondence pin *)
Theorem C10_two_objects_independent : forall F1 F2, wf_file F1 = true -> wf_file F2 = true ->
  forall fuel1 fuel2, fuel_ok F1 fuel1 = true -> fuel_ok F2 fuel2 = true ->
  forall h s1 s2 a1 a2, Inv F1 s1 -> frames_rel F1 s1 a1 -> Inv F2 s2 -> frames_rel F2 s2 a2 ->
  forallb (fun wo : bool * op => op_ok (if fst wo then F2 else F1) (snd wo)) h = true ->
  prod_run (parsers_of F1) (parsers_of F2) fuel1 fuel2 (s1, s2) h = spec_prod_run F1 F2 (a1, a2) h.
Proof. exact product_refines. Qed.
Print Assumptions C10_two_objects_independent.

(* ---- repeated identical queries return equal results, whatever happens in between *)
Theorem C10_repeated_queries_equal : forall F, wf_file F = true -> forall fuel, fuel_ok F fuel = true ->
  forall n h1 h2 o, forallb (op_ok F) (h1 ++ o :: h2 ++ [o]) = true -> is_query o = true ->
  let s1 := fst (run (parsers_of F) fuel (init_state n) h1) in
  let s2 := fst (run (parsers_of F) fuel (init_state n) (h1 ++ o :: h2)) in
  snd (step (parsers_of F) fuel s1 o) = snd (step (parsers_of F) fuel s2 o).
Proof. exact repeated_queries_equal. Qed.
Print Assumptions C10_repeated_queries_equal.

(* ---- sequential iteration and random access agree entry for entry: the element a generator yields
   next is the answer of the offset / index query for that position, in every reachable state *)
Theorem C10_iter_CUs_agrees : forall F, wf_file F = true -> forall fuel, fuel_ok F fuel = true ->
  forall s afs slot off, Inv F s -> frames_rel F s afs -> nth slot afs AFEmpty = AFCUs off -> off < f_info_size F ->
  valid_op F (CUAt off) = true /\ snd (step (parsers_of F) fuel s (Next slot)) = query_spec F (CUAt off).
Proof. exact iter_CUs_agrees. Qed.
Print Assumptions C10_iter_CUs_agrees.

Theorem C10_iter_children_agrees : forall F, wf_file F = true -> forall fuel, fuel_ok F fuel = true ->
  forall s afs slot u acf ud acf' c, Inv F s -> frames_rel F s afs ->
  nth slot afs AFEmpty = AFChildren u acf -> unit_at F u = Some ud ->
  achildren_next (ud_entries ud) acf = (acf', Some c) ->
  snd (step (parsers_of F) fuel s (Next slot)) = query_spec F (DIEAt u c).
Proof. exact iter_children_agrees. Qed.
Print Assumptions C10_iter_children_agrees.

Theorem C10_iter_DIEs_agrees : forall F, wf_file F = true -> forall fuel, fuel_ok F fuel = true ->
  forall s afs slot u ast ud ast' d, Inv F s -> frames_rel F s afs ->
  nth slot afs AFEmpty = AFSubtree u ast -> unit_at F u = Some ud ->
  asubtree_next (ud_entries ud) ast = Some (ast', Some d) ->
  snd (step (parsers_of F) fuel s (Next slot)) = query_spec F (DIEAt u d).
Proof. exact iter_DIEs_agrees. Qed.
Print Assumptions C10_iter_DIEs_agrees.

Theorem C10_iter_sections_agrees : forall F, wf_file F = true -> forall fuel, fuel_ok F fuel = true ->
  forall s afs slot i, Inv F s -> frames_rel F s afs -> nth slot afs AFEmpty = AFSections i ->
  in_table i (f_shdrs F) = true -> snd (step (parsers_of F) fuel s (Next slot)) = query_spec F (ESection i).
Proof. exact iter_sections_agrees. Qed.
Print Assumptions C10_iter_sections_agrees.

Theorem C10_iter_symbols_agrees : forall F, wf_file F = true -> forall fuel, fuel_ok F fuel = true ->
  forall s afs slot i, Inv F s -> frames_rel F s afs -> nth slot afs AFEmpty = AFSymbols i ->
  in_table i (f_syms F) = true -> snd (step (parsers_of F) fuel s (Next slot)) = query_spec F (ESymbol i).
Proof. exact iter_symbols_agrees. Qed.
Print Assumptions C10_iter_symbols_agrees.

Theorem C10_iter_tags_agrees : forall F, wf_file F = true -> forall fuel, fuel_ok F fuel = true ->
  forall s afs slot n, Inv F s -> frames_rel F s afs -> nth slot afs AFEmpty = AFTags n false ->
  valid_op F (EGetTag n) = true /\ snd (step (parsers_of F) fuel s (Next slot)) = query_spec F (EGetTag n).
Proof. exact iter_tags_agrees. Qed.
Print Assumptions C10_iter_tags_agrees.

(* ---- the known finding (key lineprogram-header-file_entry-grows-after-get_entries): at full strength
   the property is FALSE of the faithful model — LineProgram.get_entries() appends one entry per
   DW_LNE_define_file to the shared header, so LineProg answers differently after LineEntries.  The
   theorems above exclude exactly this: [op_ok] demands [no_define_file F] for the operation LineProg only
   (and only that: every other operation on such a file, LineEntries included, is covered) *)
Theorem C10_lineprog_file_entry_refuted :
  exists F fuel h o, wf_file F = true /\ fuel_ok F fuel = true /\ forallb (valid_op F) (h ++ [o]) = true /\
    is_query o = true /\
    snd (step (parsers_of F) fuel (fst (run (parsers_of F) fuel (init_state 0) h)) o) <>
    snd (step (parsers_of F) fuel (init_state 0) o).
Proof. exact lineprog_file_entry_refuted. Qed.
Print Assumptions C10_lineprog_file_entry_refuted.

(* ---- non-vacuity: the hypotheses are satisfiable by a file with a unit of six entries, a line program,
   call-frame information, sections, a symbol and dynamic tags, and by a history that interleaves unit,
   entry, parent, reference, line-program, CFI and ELF queries with stream repositioning and live
   generators of every kind, partially consumed *)
Example C10_ex_wf : wf_file ex_file = true /\ wf_file ex_file0 = true /\ fuel_ok ex_file 40 = true /\
                    fuel_ok ex_file0 40 = true /\ no_define_file ex_file0 = true /\ no_define_file ex_file = false.
Proof. vm_compute. repeat split. Qed.

Definition ex_history : list op :=
  [DIEAt 0 20; Disturb 1 7; Parent 0 20; CUAt 0; DIEAt 0 15; Parent 0 22; DIEAt 0 20; Disturb 1 0; TopDIE 0;
   CUContaining 17; DIEGlobal 22; Parent 0 11; FollowRef 0 11 0; FollowRef 0 11 1; LineEntries 0; LineProg 0;
   LineEntries 0; CFIDecoded false 2; CFIDecoded false 0; CFI false; CFIDecoded false 1; CFIDecoded false 2; Disturb 0 3;
   NewIterCUs 0; NewIterSections 1; Next 0; Next 1; ESectionByName 2; Next 1; Next 0; Next 1;
   NewIterSymbols 0; NewIterTags 1; Next 0; Next 1; ESymbolByName 3; EGetTag 1; Next 1; EGetTag 2; ENumTags; Next 1;
   ESection 1; ESegment 0; ESymbol 0; EString 0; ENumSections;
   NewIterDIEs 0 0; NewIterChildren 1 0 11; Next 0; Next 1; Next 0; Disturb 1 2; Next 0; Next 1; Next 0; Next 1;
   NewIterSiblings 1 0 15; Next 0; Next 1; Next 0; Next 1; Next 0; Next 0;
   NewIterSiblings 0 0 11; Next 0; NewIterChildren 0 0 22; Next 0; Parent 0 23; Parent 0 15; DIEAt 0 18].

Example C10_ex_history_ok : forallb (op_ok ex_file0) ex_history = true /\
  snd (run (parsers_of ex_file0) 40 (init_state 2) ex_history) = snd (spec_run ex_file0 (repeat AFEmpty 2) ex_history) /\
  nth 2 (snd (run (parsers_of ex_file0) 40 (init_state 2) ex_history)) ANone = ADie 0 18 3 /\
  nth 15 (snd (run (parsers_of ex_file0) 40 (init_state 2) ex_history)) ANone = AVals [200; 1] /\
  nth 64 (snd (run (parsers_of ex_file0) 40 (init_state 2) ex_history)) ANone = AErr (EPy "RuntimeError") /\
  nth 17 (snd (run (parsers_of ex_file0) 40 (init_state 2) ex_history)) ANone = AVals [502].
Proof. vm_compute. repeat split. Qed.

(* the same history without LineProg is inside the theorem's domain on the file WITH DW_LNE_define_file *)
Example C10_ex_history_ok_define_file :
  forallb (op_ok ex_file) (filter (fun o => match o with LineProg _ => false | _ => true end) ex_history) = true.
Proof. vm_compute. reflexivity. Qed.

Example C10_ex_iter_agrees :
  let s := fst (run (parsers_of ex_file0) 40 (init_state 2) [NewIterCUs 0; NewIterSections 1; Next 1]) in
  snd (step (parsers_of ex_file0) 40 s (Next 0)) = AUnit 0 100 /\
  snd (step (parsers_of ex_file0) 40 s (Next 1)) = AVals [2; 401].
Proof. vm_compute. split; reflexivity. Qed.

(* type units: a partially consumed iter_TUs() generator does not disturb the signature index, and the other way round *)
Example C10_ex_type_units :
  let h := [NewIterTUs 0; Next 0; TUBySig 7002; Next 0; TUBySig 7001; TUBySig 9; Next 0; TUBySig 7002] in
  forallb (op_ok ex_file0) h = true /\
  snd (run (parsers_of ex_file0) 40 (init_state 2) h) =
  [ADone; AVals [0; 0; 600]; AVals [0; 12; 601]; AVals [0; 12; 601]; AVals [0; 0; 600]; AErr (EPy "KeyError"); AStop;
   AVals [0; 12; 601]].
Proof. vm_compute. split; reflexivity. Qed.

Example C10_ex_two_objects :
  let h := [(false, CFI false); (true, CFIDecoded false 1); (false, CFIDecoded false 2); (true, LineProg 0); (false, Parent 0 20)] in
  forallb (fun wo : bool * op => op_ok (if fst wo then ex_file0 else ex_file) (snd wo)) h = true /\
  prod_run (parsers_of ex_file) (parsers_of ex_file0) 40 40 (init_state 1, init_state 1) h =
  [AVals [300]; AVals [501]; AVals [502]; AVals [200; 1]; ADie 0 18 3].
Proof. vm_compute. split; reflexivity. Qed.
