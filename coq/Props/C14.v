(* Props/C14.v — property C14: note sections and segments yield every note exactly once;
   descriptors of the known kinds are decoded to their encoded fields; stab records are
   enumerated exactly.  Only statements, closed by [exact]; proofs live in
   Proofs/C14Proofs.v, C14Desc.v, C14Iter.v.
   Model: Model/C14Notes.v (transliteration of elf/notes.py iter_notes, sections.py
   NoteSection / StabSection, segments.py NoteSegment, structs.py Elf_Prop / Elf_Nt_File,
   common/utils.py roundup — its body, the layouts, enum dicts, Switch table and lambdas are
   regenerated from the live code into Gen/C14Notes.v and Gen/ElfLayouts.v).
   Meaning: Spec/C14Notes.v (gABI note format, Linux gABI extensions, elfcore.h, stabs).
   The loop guard defect (a final header-only note was dropped) is repaired in /repo
   (fix: commit); the model mirrors the repaired code, so the theorems are at full strength. *)
From PV Require Import Base.Outcome Base.Fmt Base.Enum Base.Prim.
From PV Require Import Gen.ElfLayouts Gen.C14Notes Spec.ElfGabi Spec.PrimSpec Spec.C14Notes Model.C14Notes.
From PV Require Import Proofs.C14Proofs Proofs.C14Desc Proofs.C14Iter.
Open Scope string_scope.
Open Scope list_scope.
Open Scope Z_scope.

(* ---- roundup (translated from the live function body): a multiple of 2^b in [n, n + 2^b) ... *)
Theorem C14_roundup_spec : forall n b, 0 <= b ->
  roundup n b mod 2 ^ b = 0 /\ n <= roundup n b < n + 2 ^ b.
Proof. exact roundup_spec. Qed.
Print Assumptions C14_roundup_spec.

(* ... hence the least multiple of 2^b that is >= n (every integer n, in particular n >= 1) *)
Theorem C14_roundup_least : forall n b k, 0 <= b -> k mod 2 ^ b = 0 -> n <= k -> roundup n b <= k.
Proof. exact roundup_least. Qed.
Print Assumptions C14_roundup_least.

(* ---- the walk: the encoding of ANY well-formed note list (any number of notes, every name and
   descriptor size and residue mod 4, absent/empty names, empty descriptors, a header-only
   final note, arbitrary padding bytes, known and unknown owners and types), placed at any
   offset of any image and followed by anything, is iterated to exactly the encoded notes:
   owner, type name or number, raw descriptor, decoded descriptor, offset, padded size; no
   error, nothing more.  [adv i] is the stream cursor at which the generator is resumed for its
   i-th step: the theorem holds for every such schedule, i.e. whatever the consumer does with
   the stream between two yields *)
Theorem C14_notes_exact : forall c adv ns (pre tail : list Z),
  wf_cfg c = true -> wf_notes (scfg_of c) ns = true ->
  iter_notes c (pre ++ encode_notes (scfg_of c) ns ++ tail) adv (zlen pre) (zlen (encode_notes (scfg_of c) ns))
  = (expected_notes (scfg_of c) (zlen pre) ns, None).
Proof. exact notes_exact. Qed.
Print Assumptions C14_notes_exact.

(* the whole extent is consumed: the padded sizes add up to the extent size ... *)
Theorem C14_extent_consumed : forall c ns off,
  wf_notes (scfg_of c) ns = true ->
  total_size (expected_notes (scfg_of c) off ns) = zlen (encode_notes (scfg_of c) ns).
Proof. exact extent_consumed. Qed.
Print Assumptions C14_extent_consumed.

(* ... and each note starts where the previous one ended *)
Theorem C14_offsets_consecutive : forall c ns off,
  consecutive off (expected_notes (scfg_of c) off ns).
Proof. exact offsets_consecutive. Qed.
Print Assumptions C14_offsets_consecutive.

(* one loop iteration, for the record: the note at the cursor and the next cursor *)
Theorem C14_one_note : forall c n img cur (A R : list Z),
  wf_cfg c = true -> wf_note (scfg_of c) n = true ->
  img = A ++ encode_note (scfg_of c) n ++ R ->
  one_note c img cur (zlen A) = Ok (expected_note (scfg_of c) (zlen A) n, zlen A + note_size (scfg_of c) n).
Proof. exact one_note_ok. Qed.
Print Assumptions C14_one_note.

(* ---- the section view and the segment view of the same bytes agree (on every image,
   well-formed or not: both are the same function of offset and size) *)
Theorem C14_views_agree : forall c img adv sh ph,
  rec_z sh "sh_offset" = rec_z ph "p_offset" -> rec_z sh "sh_size" = rec_z ph "p_filesz" ->
  NoteSection_iter_notes c img adv sh = NoteSegment_iter_notes c img adv ph.
Proof. exact views_agree. Qed.
Print Assumptions C14_views_agree.

(* image level: headers decoded from the file itself, wherever they lie *)
Theorem C14_views_exact : forall c adv adv' ns (pre tail : list Z) shoff phoff sh ph,
  wf_cfg c = true -> wf_notes (scfg_of c) ns = true ->
  let img := pre ++ encode_notes (scfg_of c) ns ++ tail in
  section_header_at c img shoff = Ok sh -> segment_header_at c img phoff = Ok ph ->
  rec_z sh "sh_offset" = zlen pre -> rec_z sh "sh_size" = zlen (encode_notes (scfg_of c) ns) ->
  rec_z ph "p_offset" = zlen pre -> rec_z ph "p_filesz" = zlen (encode_notes (scfg_of c) ns) ->
  section_notes_at c img adv shoff = Ok (expected_notes (scfg_of c) (zlen pre) ns, None) /\
  segment_notes_at c img adv' phoff = Ok (expected_notes (scfg_of c) (zlen pre) ns, None).
Proof. exact views_exact. Qed.
Print Assumptions C14_views_exact.

(* ---- type names: the table the code selects for the file type (regenerated map
   gen_n_type_table_of_etype over every e_type name, "<raw>" and none) is the core-file
   table exactly for ET_CORE and the GNU table otherwise *)
Theorem C14_type_names : forall c, wf_cfg c = true ->
  n_type_table c = spec_n_types (s_core (scfg_of c)).
Proof. exact n_type_table_spec. Qed.
Print Assumptions C14_type_names.

(* ---- descriptor dispatch: the if/elif chain selects exactly the standard's kind *)
Theorem C14_dispatch : forall c name ty, wf_cfg c = true ->
  desc_dispatch (name_of (n_type_table c) ty) name = spec_kind (scfg_of c) name ty.
Proof. exact dispatch_spec. Qed.
Print Assumptions C14_dispatch.

(* ---- every known descriptor kind (ABI tag, build id, gold version, property list, prpsinfo,
   file map) and the unknown kind: decoding the encoding gives the encoded fields back *)
Theorem C14_descriptors_exact : forall c d img (A R : list Z),
  wf_desc (scfg_of c) d = true ->
  img = A ++ desc_bytes (scfg_of c) d ++ R ->
  decode_desc c img (desc_kind d) (zlen A) (zlen (desc_bytes (scfg_of c) d)) (desc_bytes (scfg_of c) d)
  = Ok (desc_view (scfg_of c) d).
Proof. exact decode_desc_ok. Qed.
Print Assumptions C14_descriptors_exact.

(* the build-id text reads back as the build-id bytes *)
Theorem C14_build_id_text : forall bs, all_bytes bs = true -> unhex_text (hex_text bs) = bs.
Proof. exact unhex_hex_text. Qed.
Print Assumptions C14_build_id_text.

(* GNU property lists: any number of properties of every kind, class-dependent padding *)
Theorem C14_property_list : forall c ps fuel img (A R : list Z),
  (length ps < fuel)%nat -> forallb (wf_prop (scfg_of c)) ps = true ->
  img = A ++ encode_props (scfg_of c) ps ++ R ->
  props_go fuel c img (zlen A) (zlen A + zlen (encode_props (scfg_of c) ps))
  = Ok (map (prop_view (scfg_of c)) ps).
Proof. exact props_go_ok. Qed.
Print Assumptions C14_property_list.

(* the regenerated tables of the descriptor code are the standard's *)
Theorem C14_tables :
  (gen_prop_type_table = spec_prop_types /\ gen_prop_type_strict = false) /\
  (forall c, table_by_id (fst (abi_os_bind c)) = spec_abi_os /\ snd (abi_os_bind c) = false) /\
  (forall c, Elf_Prpsinfo c = prps_layout (scfg_of c)) /\
  (subset_s gen_ugid_half_machines spec_ugid_half_machines = true /\
   subset_s spec_ugid_half_machines gen_ugid_half_machines = true).
Proof. exact (conj prop_type_table (conj abi_os_table (conj Elf_Prpsinfo_spec ugid_half_machines_spec))). Qed.
Print Assumptions C14_tables.

(* the Switch of Elf_Prop selects: native word for a stack size of native width, a 4-byte word
   for the x86 / AArch64 bit masks of 4 bytes, raw bytes for everything else (any other type, and a
   stack size or bit mask that declares another size: the data are always the pr_datasz bytes, so the
   struct is exactly as long as the stride of the list) *)
Theorem C14_property_switch : forall c,
  prop_case c GNU_PROPERTY_STACK_SIZE (Z.of_nat (native (scfg_of c))) = Some (native (scfg_of c)) /\
  (forall ty, is_word_prop ty = true -> prop_case c ty 4 = Some 4%nat) /\
  (forall ty dsz, (is_word_prop ty && (dsz =? 4))%bool = false ->
     ((ty =? GNU_PROPERTY_STACK_SIZE) && (dsz =? Z.of_nat (native (scfg_of c))))%bool = false ->
     prop_case c ty dsz = None).
Proof. exact (fun c => conj (prop_case_stack c) (conj (prop_case_word c) (prop_case_raw c))). Qed.
Print Assumptions C14_property_switch.

(* ---- stabs: a .stab section over any image holding the encoded records yields exactly the
   records, each with its offset *)
Theorem C14_stabs_exact : forall c adv ss (pre tail : list Z) sh,
  forallb (wf_stab (c_le c)) ss = true ->
  rec_z sh "sh_offset" = zlen pre -> rec_z sh "sh_size" = zlen (encode_stabs (c_le c) ss) ->
  StabSection_iter_stabs c (pre ++ encode_stabs (c_le c) ss ++ tail) adv sh
  = (expected_stabs (c_le c) (zlen pre) ss, None).
Proof. exact stabs_exact. Qed.
Print Assumptions C14_stabs_exact.

(* ---- the header fields that do not locate the bytes are free parameters.  Two section headers
   with the same sh_offset and sh_size enumerate the same stabs on every image ... *)
Theorem C14_stabs_header_free : forall c img adv sh sh',
  rec_z sh "sh_offset" = rec_z sh' "sh_offset" -> rec_z sh "sh_size" = rec_z sh' "sh_size" ->
  StabSection_iter_stabs c img adv sh = StabSection_iter_stabs c img adv sh'.
Proof. exact stabs_header_free. Qed.
Print Assumptions C14_stabs_header_free.

(* ... so the result does not depend on sh_entsize: the table is its 12-byte records whatever the
   header's entry size says (0, 12, 20, 1, 2^64-1, ...) *)
Theorem C14_stabs_entsize_irrelevant : forall c img adv sh (e : Z),
  StabSection_iter_stabs c img adv (("sh_entsize", VZ e) :: sh) = StabSection_iter_stabs c img adv sh.
Proof. exact (fun c img adv sh e => stabs_field_irrelevant c img adv sh "sh_entsize" (VZ e) ltac:(discriminate) ltac:(discriminate)). Qed.
Print Assumptions C14_stabs_entsize_irrelevant.

(* file level: the image holds the encoded records and, anywhere, the encoded section header [h];
   every field of [h] other than sh_offset / sh_size (sh_name, sh_type, sh_flags, sh_addr, sh_link,
   sh_info, sh_addralign, sh_entsize) is universally quantified *)
Theorem C14_stabs_file_exact : forall c adv ss (pre tail A R : list Z) h img,
  forallb (wf_stab (c_le c)) ss = true -> wf_shdr (c_le c) (c_is64 c) h = true ->
  sh_offset h = zlen pre -> sh_size h = zlen (encode_stabs (c_le c) ss) ->
  img = pre ++ encode_stabs (c_le c) ss ++ tail ->
  img = A ++ encode_shdr (c_le c) (c_is64 c) h ++ R ->
  section_stabs_at c img adv (zlen A) = Ok (expected_stabs (c_le c) (zlen pre) ss, None).
Proof. exact stabs_file_exact. Qed.
Print Assumptions C14_stabs_file_exact.

(* the same for notes: sh_addralign / p_align, sh_link, sh_info, sh_entsize, flags, addresses and
   p_memsz of the two headers are free; the padding is the standard 4 bytes whatever they say *)
Theorem C14_notes_header_free : forall c img adv sh sh' ph ph',
  rec_z sh "sh_offset" = rec_z sh' "sh_offset" -> rec_z sh "sh_size" = rec_z sh' "sh_size" ->
  rec_z ph "p_offset" = rec_z ph' "p_offset" -> rec_z ph "p_filesz" = rec_z ph' "p_filesz" ->
  NoteSection_iter_notes c img adv sh = NoteSection_iter_notes c img adv sh' /\
  NoteSegment_iter_notes c img adv ph = NoteSegment_iter_notes c img adv ph'.
Proof. exact notes_header_free. Qed.
Print Assumptions C14_notes_header_free.

Theorem C14_notes_file_exact : forall c adv adv' ns (pre tail A R A' R' : list Z) h p img,
  wf_cfg c = true -> wf_notes (scfg_of c) ns = true ->
  wf_shdr (c_le c) (c_is64 c) h = true -> wf_phdr (c_le c) (c_is64 c) p = true ->
  sh_offset h = zlen pre -> sh_size h = zlen (encode_notes (scfg_of c) ns) ->
  p_offset p = zlen pre -> p_filesz p = zlen (encode_notes (scfg_of c) ns) ->
  img = pre ++ encode_notes (scfg_of c) ns ++ tail ->
  img = A ++ encode_shdr (c_le c) (c_is64 c) h ++ R ->
  img = A' ++ encode_phdr (c_le c) (c_is64 c) p ++ R' ->
  section_notes_at c img adv (zlen A) = Ok (expected_notes (scfg_of c) (zlen pre) ns, None) /\
  segment_notes_at c img adv' (zlen A') = Ok (expected_notes (scfg_of c) (zlen pre) ns, None).
Proof. exact notes_file_exact. Qed.
Print Assumptions C14_notes_file_exact.

(* ---- every read of the walk is absolute.  The model carries the stream cursor: [adv i] is where
   the consumer (reads of other sections, another walk in lock step, seeks) left it when the
   generator is resumed for step i.  On every image, well-formed or not, the yields are the same
   for any two schedules: a step starts by seeking, and its relative reads (name, descriptor)
   follow a seek of the same step *)
Theorem C14_notes_cursor_free : forall c img adv adv' offset size,
  iter_notes c img adv offset size = iter_notes c img adv' offset size.
Proof. exact notes_cursor_free. Qed.
Print Assumptions C14_notes_cursor_free.

Theorem C14_stabs_cursor_free : forall c img adv adv' sh,
  StabSection_iter_stabs c img adv sh = StabSection_iter_stabs c img adv' sh.
Proof. exact stabs_cursor_free. Qed.
Print Assumptions C14_stabs_cursor_free.

(* ---- several extents of one file.  The usual linker layout is a run of adjacent note sections and
   one PT_NOTE segment spanning them (same start as the first section, larger size).  A walk is a
   function of the file image, its offset and its size only (the code keeps nothing on the ELFFile
   between walks; the one piece of shared state, the stream cursor, is the [adv] of each walk and is
   arbitrary), so in whatever order the views are walked: a section inside the table yields exactly
   its own notes at their file offsets ... *)
Theorem C14_sub_extent_exact : forall c adv ns1 ns2 ns3 (pre tail : list Z),
  wf_cfg c = true -> wf_notes (scfg_of c) ns2 = true ->
  iter_notes c (pre ++ encode_notes (scfg_of c) (ns1 ++ ns2 ++ ns3) ++ tail) adv
    (zlen pre + zlen (encode_notes (scfg_of c) ns1)) (zlen (encode_notes (scfg_of c) ns2))
  = (expected_notes (scfg_of c) (zlen pre + zlen (encode_notes (scfg_of c) ns1)) ns2, None).
Proof. exact sub_extent_exact. Qed.
Print Assumptions C14_sub_extent_exact.

(* ... and the spanning segment yields the concatenation of what the sections yield *)
Theorem C14_spanning_extent_concat : forall c adv adv1 adv2 adv3 ns1 ns2 ns3 (pre tail : list Z),
  wf_cfg c = true -> wf_notes (scfg_of c) ns1 = true -> wf_notes (scfg_of c) ns2 = true ->
  wf_notes (scfg_of c) ns3 = true ->
  let sc := scfg_of c in
  let img := pre ++ encode_notes sc (ns1 ++ ns2 ++ ns3) ++ tail in
  let o1 := zlen pre in
  let o2 := o1 + zlen (encode_notes sc ns1) in
  let o3 := o2 + zlen (encode_notes sc ns2) in
  fst (iter_notes c img adv o1 (zlen (encode_notes sc (ns1 ++ ns2 ++ ns3))))
  = fst (iter_notes c img adv1 o1 (zlen (encode_notes sc ns1))) ++
    fst (iter_notes c img adv2 o2 (zlen (encode_notes sc ns2))) ++
    fst (iter_notes c img adv3 o3 (zlen (encode_notes sc ns3))) /\
  snd (iter_notes c img adv o1 (zlen (encode_notes sc (ns1 ++ ns2 ++ ns3)))) = None.
Proof. exact spanning_extent_concat. Qed.
Print Assumptions C14_spanning_extent_concat.

(* ---- non-vacuity: the hypotheses are met by concrete non-trivial inputs, and the statements
   compute on them *)
Definition ex_cfg : cfg := {| c_le := true; c_is64 := true; c_etype := "ET_DYN"; c_machine := "EM_X86_64" |}.
Definition ex_core : cfg := {| c_le := false; c_is64 := false; c_etype := "ET_CORE"; c_machine := "EM_386" |}.
Definition ex_notes : list note :=
  [ {| n_name := Some [65; 66]; n_nextra := []; n_npad := [0x55]; n_type := 7; n_desc := DRaw [1; 2; 3]; n_dpad := [0x66] |};
    {| n_name := Some GNU; n_nextra := []; n_npad := []; n_type := 5;
       n_desc := DProps [ (GWord 0xc0000002 3, [9; 9; 9; 9]); (GStack 0x100000, []); (GRaw 2 [], []) ];
       n_dpad := [] |};
    {| n_name := Some GNU; n_nextra := []; n_npad := []; n_type := 3; n_desc := DBuildId [0xde; 0xad; 0xbe]; n_dpad := [7] |};
    (* the header-only final note that the unrepaired loop guard dropped *)
    {| n_name := None; n_nextra := []; n_npad := []; n_type := 9; n_desc := DRaw []; n_dpad := [] |} ].
Definition ex_core_notes : list note :=
  [ {| n_name := Some [67; 79; 82; 69]; n_nextra := []; n_npad := [1; 2; 3]; n_type := 0x46494c45;
       n_desc := DFile 4096 [(0x1000, 0x2000, 0); (0x3000, 0x4000, 1)] [[47; 97]; [98]]; n_dpad := [5; 5; 5] |} ].

Example C14_ex_wf :
  wf_cfg ex_cfg = true /\ wf_notes (scfg_of ex_cfg) ex_notes = true /\
  wf_cfg ex_core = true /\ wf_notes (scfg_of ex_core) ex_core_notes = true.
Proof. vm_compute. repeat split; reflexivity. Qed.

Example C14_ex_iter :
  let enc := encode_notes (scfg_of ex_cfg) ex_notes in
  iter_notes ex_cfg ([1; 2; 3] ++ enc ++ [4; 5]) (fun i => Z.of_nat (7 * i)) 3 (zlen enc)
  = (expected_notes (scfg_of ex_cfg) 3 ex_notes, None)
  /\ length (fst (iter_notes ex_cfg ([1; 2; 3] ++ enc ++ [4; 5]) (fun _ => 0) 3 (zlen enc))) = 4%nat.
Proof. vm_compute. split; reflexivity. Qed.

Example C14_ex_core :
  let enc := encode_notes (scfg_of ex_core) ex_core_notes in
  iter_notes ex_core (enc ++ [0]) (fun _ => 1000) 0 (zlen enc) = (expected_notes (scfg_of ex_core) 0 ex_core_notes, None).
Proof. vm_compute. reflexivity. Qed.

Example C14_ex_stabs :
  let ss := [[VZ 1; VZ 0x64; VZ 0; VZ 2; VZ 0x8048000]; [VZ 9; VZ 0x24; VZ 0; VZ 7; VZ 0]] in
  forallb (wf_stab true) ss = true /\
  StabSection_iter_stabs ex_cfg ([0] ++ encode_stabs true ss ++ [0]) (fun i => Z.of_nat i) [("sh_offset", VZ 1); ("sh_size", VZ 24)]
  = (expected_stabs true 1 ss, None).
Proof. vm_compute. split; reflexivity. Qed.

(* the shape of test/testfiles_for_unittests/obj_stabs.elf: three records, sh_entsize 20 (and 1,
   and 2^64-1), sh_link / sh_info / sh_addralign arbitrary; header after the data *)
Example C14_ex_stabs_entsize :
  let ss := [[VZ 1; VZ 0; VZ 0; VZ 2; VZ 33]; [VZ 13; VZ 0x95; VZ 0xc8; VZ 0x4072; VZ 0xdeadbeef];
             [VZ 19; VZ 0x41; VZ 0x66; VZ 0xf9b1; VZ 0xcafebabe]] in
  let h e := {| sh_name := 7; sh_type := 1; sh_flags := 0; sh_addr := 0; sh_offset := 2; sh_size := 36;
                sh_link := 5; sh_info := 0xffff; sh_addralign := 4; sh_entsize := e |} in
  let img e := [7; 7] ++ encode_stabs true ss ++ [9] ++ encode_shdr true true (h e) ++ [9; 9] in
  forallb (wf_shdr true true) [h 20; h 1; h 0; h (2 ^ 64 - 1)] = true /\
  section_stabs_at ex_cfg (img 20) (fun _ => 0) 39 = Ok (expected_stabs true 2 ss, None) /\
  section_stabs_at ex_cfg (img 1) (fun _ => 5) 39 = Ok (expected_stabs true 2 ss, None) /\
  section_stabs_at ex_cfg (img (2 ^ 64 - 1)) (fun i => Z.of_nat i) 39 = Ok (expected_stabs true 2 ss, None) /\
  length (expected_stabs true 2 ss) = 3%nat.
Proof. vm_compute. repeat split; reflexivity. Qed.

(* one file, the four notes of ex_notes as two sections (2 + 2) under one segment: first section,
   segment (same start, larger size), second section *)
Example C14_ex_adjacent :
  let sc := scfg_of ex_cfg in
  let a := firstn 2 ex_notes in let b := skipn 2 ex_notes in
  let img := [1; 2; 3] ++ encode_notes sc (a ++ b) ++ [4; 5] in
  let la := zlen (encode_notes sc a) in
  iter_notes ex_cfg img (fun _ => 0) 3 la = (expected_notes sc 3 a, None) /\
  iter_notes ex_cfg img (fun _ => 0) 3 (zlen (encode_notes sc (a ++ b))) = (expected_notes sc 3 (a ++ b), None) /\
  iter_notes ex_cfg img (fun _ => 0) (3 + la) (zlen (encode_notes sc b)) = (expected_notes sc (3 + la) b, None) /\
  length (expected_notes sc 3 a) = 2%nat /\ length (expected_notes sc 3 (a ++ b)) = 4%nat.
Proof. vm_compute. repeat split; reflexivity. Qed.

(* a property list in which bit-mask types declare 8, 0 and 12 bytes, each followed by further
   properties: framed by pr_datasz, data = those bytes, the following properties found in place *)
Example C14_ex_odd_word_props :
  let ps := [ (GRaw 0xc0000002 [1; 2; 3; 4; 5; 6; 7; 8], []); (GWord 0xc0008002 7, [9; 9; 9; 9]);
              (GRaw 0xc0000000 [], []); (GStack 0x2000, []); (GRaw 0xc0010001 [1; 2; 3; 4; 5; 6; 7; 8; 9; 10; 11; 12], [5; 5; 5; 5]);
              (GWord 0xc0000002 3, [9; 9; 9; 9]) ] in
  let n := {| n_name := Some GNU; n_nextra := []; n_npad := []; n_type := 5; n_desc := DProps ps; n_dpad := [] |} in
  wf_notes (scfg_of ex_cfg) [n] = true /\
  iter_notes ex_cfg (encode_notes (scfg_of ex_cfg) [n]) (fun _ => 0) 0 (zlen (encode_notes (scfg_of ex_cfg) [n]))
  = (expected_notes (scfg_of ex_cfg) 0 [n], None) /\
  match expected_notes (scfg_of ex_cfg) 0 [n] with
  | [o] => match o_desc o with DVProps l => length l = 6%nat | _ => False end
  | _ => False
  end.
Proof. vm_compute. repeat split; reflexivity. Qed.

(* the owner is the string up to the FIRST NUL of the name field: the Go toolchain's "Go" NUL NUL
   (namesz 4), and a GNU build id whose name field is "GNU" NUL x y z w (namesz 8) is still GNU's *)
Example C14_ex_name_extra :
  let ns := [ {| n_name := Some [71; 111]; n_nextra := [0]; n_npad := []; n_type := 4; n_desc := DRaw [1; 2]; n_dpad := [8; 8] |};
              {| n_name := Some GNU; n_nextra := [120; 0; 122; 119]; n_npad := []; n_type := 3;
                 n_desc := DBuildId [0xde; 0xad]; n_dpad := [7; 7] |} ] in
  wf_notes (scfg_of ex_cfg) ns = true /\
  iter_notes ex_cfg (encode_notes (scfg_of ex_cfg) ns ++ [1]) (fun _ => 0) 0 (zlen (encode_notes (scfg_of ex_cfg) ns))
  = (expected_notes (scfg_of ex_cfg) 0 ns, None) /\
  map o_name (expected_notes (scfg_of ex_cfg) 0 ns) = [Some [71; 111]; Some GNU] /\
  map o_namesz (expected_notes (scfg_of ex_cfg) 0 ns) = [4; 8].
Proof. vm_compute. repeat split; reflexivity. Qed.
