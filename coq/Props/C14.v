(* placeholder while the proofs are being written *)
From PV Require Import Model.C14Notes.
Theorem C14_placeholder : True. Proof. exact I. Qed.
Print Assumptions C14_placeholder.
Example C14_ex : True. Proof. exact I. Qed.
