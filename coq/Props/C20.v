(* Props/C20.v — property C20: ARM / RISC-V build attributes and ARM unwind tables are
   decoded exactly.  Only statements, closed by [exact]; proofs live in
   Proofs/C20Attr.v and Proofs/C20Ehabi.v.
   Models: Model/C20Attr.v (elf/sections.py AttributesSection, AttributesSubsection,
   AttributesSubsubsection, ARMAttribute, RISCVAttribute), Model/C20Ehabi.v
   (ehabi/ehabiinfo.py get_entry, arm_expand_prel31; ehabi/decoder.py), over the tables
   of Gen/C20Tables.v regenerated from the live modules.
   Specifications: Spec/C20Attr.v (IHI 0045, RISC-V psABI), Spec/C20Ehabi.v (IHI 0038).
   Objects under histories of calls: Spec/C20Hist.v (vocabulary, generator objects, stateless
   reference answers), Model/C20Hist.v (what the section / subsection / sub-subsection /
   EHABIInfo / decoder objects keep between calls), Proofs/C20Hist.v. *)
From PV Require Import Base.Bytes Base.Outcome Base.Prim Spec.PrimSpec Model.C20Types
  Gen.C20Tables Spec.C20Attr Spec.C20Ehabi Model.C20Attr Model.C20Ehabi
  Proofs.C20Attr Proofs.C20Ehabi Gen.PyFuns Proofs.PyFunsC20
  Spec.C20Hist Model.C20Hist Proofs.C20Hist.

(* ======================= build attributes ======================= *)

(* Gen = Spec, tag tables: the Enum of the live tag struct and the table of the standard
   name every integer identically (or both reject it) *)
Theorem C20_attr_tag_tables : forall fl t,
  enum_name (ai_table (impl_of fl)) t = name_of_tag (tag_table fl) t.
Proof. exact tag_tables_agree. Qed.
Print Assumptions C20_attr_tag_tables.

(* the if/elif chain on tag names picks, for every entry of the tables (50 + 11 entries),
   the value kind the standard assigns to the tag number *)
Theorem C20_attr_tag_dispatch : forall fl name t,
  In (name, t) (tag_table fl) -> ai_class (impl_of fl) name = class_of_kind (tag_kind fl t).
Proof. exact tag_dispatch_agrees. Qed.
Print Assumptions C20_attr_tag_dispatch.

(* Gen = Spec, layouts: subsection header and the primitive fields, both byte orders *)
Theorem C20_attr_layouts : forall le,
  gen_attr_subsection_header le = spec_attr_subsection_header le /\
  gen_elf_word le = Spec.C20Attr.u32_kind le /\ gen_elf_byte le = "u8"%string /\
  gen_elf_uleb128 le = "uleb128"%string /\ gen_elf_ntbs le = "ntbs"%string.
Proof. exact attr_layouts_agree. Qed.
Print Assumptions C20_attr_layouts.

(* one attribute of any kind (uleb128, NTBS, compatibility, nested also-compatible-with),
   any valid uleb128 encoding, any following bytes: decoded exactly, consumed exactly *)
Theorem C20_attribute_exact : forall fl le a tail,
  wf_attr fl a = true ->
  p_attr (impl_of fl) le (enc_attr a ++ tail) = Ok (expected_attr fl a, tail).
Proof. exact p_attr_valid. Qed.
Print Assumptions C20_attribute_exact.

(* the whole section: ANY number of subsections, of sub-subsections in each, of section /
   symbol numbers and of attributes in each; both byte orders; both flavours; the section
   anywhere in the file ([pre] before it, [post] after it) *)
Theorem C20_attributes_exact : forall fl le pre post l,
  wf_section fl l = true ->
  read_attr_section (impl_of fl) le (pre ++ enc_section le l ++ post)
                    (zlen pre) (zlen (enc_section le l))
  = Ok (expected_section fl l).
Proof. exact read_attr_section_valid. Qed.
Print Assumptions C20_attributes_exact.

(* ======================= build attributes: one object, any history of calls ======================= *)

(* The AttributesSection object of a well-formed section anywhere in a file, and every
   AttributesSubsection / AttributesSubsubsection object it hands out, put through ANY finite
   history of: starting a walk (iter_subsections / iter_subsubsections / iter_attributes, limited
   to a vendor / scope / tag or not), next() on any walk started so far, abandoning a walk
   (close, drop, break), num_*, the list properties, complete fresh walks, going on with a pickled /
   deep-copied / copied object, and unrelated reads of
   the same stream in between.  Every answer of the history is the reference answer computed
   from the stateless decoding [expected_section]: the j-th item of any walk is the j-th encoded
   item whatever happened in between; counts and lists are complete whatever was abandoned. *)
Theorem C20_attr_history_exact : forall fl le pre post l h,
  wf_section fl l = true ->
  attr_hist (impl_of fl) le (pre ++ enc_section le l ++ post) (zlen pre) (zlen (enc_section le l)) h
  = Ok (spec_hist (expected_section fl l) h).
Proof. exact attr_hist_exact. Qed.
Print Assumptions C20_attr_history_exact.

(* read off the reference: after ANY history h1 (and whatever follows), num_subsections is the
   number of encoded subsections and .subsections shows every one of them, in order *)
Theorem C20_attr_num_subsections_any_history : forall fl le pre post l h1 h2,
  wf_section fl l = true ->
  exists answers,
    attr_hist (impl_of fl) le (pre ++ enc_section le l ++ post) (zlen pre) (zlen (enc_section le l))
              (h1 ++ ONum 0 :: h2) = Ok answers /\
    nth (List.length h1) answers HBad = HInt (zlen l).
Proof. exact attr_hist_num_subsections. Qed.
Print Assumptions C20_attr_num_subsections_any_history.

Theorem C20_attr_subsections_any_history : forall fl le pre post l h1 h2,
  wf_section fl l = true ->
  exists answers first,
    attr_hist (impl_of fl) le (pre ++ enc_section le l ++ post) (zlen pre) (zlen (enc_section le l))
              (h1 ++ OList 0 :: h2) = Ok answers /\
    nth (List.length h1) answers HBad
    = HItems first (map (fun sb => VSubsec (subsec_length sb) (sb_vendor sb)) l).
Proof. exact attr_hist_subsections. Qed.
Print Assumptions C20_attr_subsections_any_history.

(* ======================= prel31 ======================= *)

(* for ALL integers: sign-extended 31-bit offset added to the place, modulo 2^64 *)
Theorem C20_prel31_spec : forall w place, arm_expand_prel31 w place = prel31_spec w place.
Proof. exact prel31_model_spec. Qed.
Print Assumptions C20_prel31_spec.

(* the same for the function body TRANSLATED from the live Python source on every run
   (Gen/PyFuns.v gen_arm_expand_prel31, by tools/gen/pyast.py) *)
Theorem C20_translated_prel31_spec : forall w place, gen_arm_expand_prel31 w place = prel31_spec w place.
Proof. exact gen_prel31_spec. Qed.
Print Assumptions C20_translated_prel31_spec.

(* every displacement in [-2^30, 2^30) survives the encoding, whatever bit 31 of the word is *)
Theorem C20_prel31_roundtrip : forall w d place,
  disp_ok d = true -> w mod 2 ^ 31 = prel31_encode d ->
  prel31_spec w place = (place + d) mod 2 ^ 64.
Proof. exact prel31_roundtrip. Qed.
Print Assumptions C20_prel31_roundtrip.

(* ======================= index / table entries ======================= *)

Theorem C20_ehabi_layouts : forall le,
  gen_eh_index_struct le = spec_eh_index_struct le /\
  gen_eh_table_struct le = spec_eh_table_struct le /\
  gen_ehabi_index_entry_size = spec_ehabi_index_entry_size.
Proof. exact ehabi_layouts_agree. Qed.
Print Assumptions C20_ehabi_layouts.

(* every entry kind (cannot-unwind, inline compact, table compact models 0/1/2 with any
   number of extra words, generic personality, the four corrupt shapes), every displacement,
   any file of less than 2^63 bytes in which the index entry lies at its place and the
   table entry at its offset, both byte orders *)
Theorem C20_entry_kinds_exact : forall img le sh_off sh_size n a,
  zlen img < 2 ^ 63 -> 0 <= sh_off -> 0 <= n < sh_size / 8 ->
  wf_entry (sh_off + n * 8) a = true ->
  at_ img (sh_off + n * 8) (enc_index le (sh_off + n * 8) a) ->
  (table_words a <> [] -> at_ img (table_offset a) (enc_table le a)) ->
  exists r, get_entry img le sh_off sh_size n = Ok r /\
            mask_tbl a r = expected_entry (sh_off + n * 8) a.
Proof. exact get_entry_valid. Qed.
Print Assumptions C20_entry_kinds_exact.

(* ======================= byte-code ======================= *)

(* first-byte dispatch of the regenerated ring, finite sweep: for each of the 256 first
   bytes the selected handler consumes what Table 4 says and, for each of the 256 operand
   bytes where there is one, returns the text of Table 4 *)
Theorem C20_bytecode_ring_sweep : forallb ring_ok_byte bytes256 = true.
Proof. exact ring_sweep. Qed.
Print Assumptions C20_bytecode_ring_sweep.

(* instruction lists of any length over the full opcode space, uleb128 operands of any
   value in any valid encoding: items and texts are exactly the specification's *)
Theorem C20_bytecode_exact : forall l,
  forallb wf_insn l = true -> bc_decode (enc_insns l) = Ok (expected_insns l).
Proof. exact bc_decode_valid. Qed.
Print Assumptions C20_bytecode_exact.

(* on ALL byte strings the disassembler equals the reference decision list; an instruction
   cut off by the end of the array is the only failure *)
Theorem C20_bytecode_total : forall bs, all_bytes bs = true ->
  bc_decode bs = of_disasm (spec_disasm (S (List.length bs)) bs).
Proof. exact bc_decode_total. Qed.
Print Assumptions C20_bytecode_total.

Theorem C20_mnemonic_array_exact : forall r l,
  forallb wf_insn l = true -> l <> [] -> eo_bytecode r = Some (enc_insns l) ->
  mnemonic_array r = Ok (Some (expected_insns l)).
Proof. exact mnemonic_array_valid. Qed.
Print Assumptions C20_mnemonic_array_exact.

(* ======================= EHABI: one EHABIInfo object, any history of calls ======================= *)

(* For EVERY file and EVERY history of num_entry / get_entry(n) in any order and repeated,
   re-reading entry fields, pickle round trips / deep copies / copies of the info object, a fresh
   EHABIInfo in between, mnmemonic_array() of any entry handed out so far, decoder objects
   built over an entry's byte-code, decoded again and read again: each answer is the stateless
   one (the `_num_entry` memo and the decoder's `_index` / `mnemonic_array` are transparent). *)
Theorem C20_ehabi_history_transparent : forall img le sh_offset sh_size h,
  eh_hist img le sh_offset sh_size h
  = eh_spec_hist (num_entry sh_size) (get_entry img le sh_offset sh_size) bc_decode h.
Proof. exact eh_hist_transparent. Qed.
Print Assumptions C20_ehabi_history_transparent.

(* hence, at any point of any history, get_entry(n) decodes entry n exactly
   (C20_entry_kinds_exact lifted to histories) and num_entry() is the number of index entries *)
Theorem C20_ehabi_get_entry_any_history : forall img le sh_off sh_size n a h1 h2,
  zlen img < 2 ^ 63 -> 0 <= sh_off -> 0 <= n < sh_size / 8 ->
  wf_entry (sh_off + n * 8) a = true ->
  at_ img (sh_off + n * 8) (enc_index le (sh_off + n * 8) a) ->
  (table_words a <> [] -> at_ img (table_offset a) (enc_table le a)) ->
  exists r, nth (List.length h1) (eh_hist img le sh_off sh_size (h1 ++ EGet n :: h2)) EABad = EAEntry r /\
            mask_tbl a r = expected_entry (sh_off + n * 8) a.
Proof. exact eh_hist_get_exact. Qed.
Print Assumptions C20_ehabi_get_entry_any_history.

Theorem C20_ehabi_num_entry_any_history : forall img le sh_off sh_size h1 h2,
  nth (List.length h1) (eh_hist img le sh_off sh_size (h1 ++ ENum :: h2)) EABad = EAInt (sh_size / 8).
Proof. exact eh_hist_num_exact. Qed.
Print Assumptions C20_ehabi_num_entry_any_history.

(* ======================= the section header: only sh_offset and sh_size locate anything ======================= *)

(* The models over the decoded Elf_Shdr dict (Model/C20Hist.v *_sec): an index entry is 8 bytes
   whatever sh_entsize records (0, 8, 4, 16, 1, 2^32-1 ...); sh_name, sh_type, sh_flags, sh_addr,
   sh_link, sh_info, sh_addralign of .ARM.exidx may hold anything: same entries, same count, in
   every history *)
Theorem C20_ehabi_header_field_irrelevant : forall img le (h : shdr) k v hist,
  k <> "sh_offset"%string -> k <> "sh_size"%string ->
  eh_hist_sec img le ((k, v) :: h) hist = eh_hist_sec img le h hist.
Proof. exact eh_hist_field_irrelevant. Qed.
Print Assumptions C20_ehabi_header_field_irrelevant.

Theorem C20_ehabi_entry_exact_any_header : forall img le (h : shdr) n a,
  zlen img < 2 ^ 63 -> 0 <= hget h "sh_offset" -> 0 <= n < hget h "sh_size" / 8 ->
  wf_entry (hget h "sh_offset" + n * 8) a = true ->
  at_ img (hget h "sh_offset" + n * 8) (enc_index le (hget h "sh_offset" + n * 8) a) ->
  (table_words a <> [] -> at_ img (table_offset a) (enc_table le a)) ->
  exists r, get_entry_sec img le h n = Ok r /\ mask_tbl a r = expected_entry (hget h "sh_offset" + n * 8) a.
Proof. exact get_entry_sec_exact. Qed.
Print Assumptions C20_ehabi_entry_exact_any_header.

(* the attributes section: every field but sh_offset / sh_size / sh_flags is free, and sh_flags is
   free as long as SHF_COMPRESSED is clear (a compressed section is property C02's subject) *)
Theorem C20_attr_header_field_irrelevant : forall ai le img (h : shdr) k v hist,
  k <> "sh_offset"%string -> k <> "sh_size"%string -> k <> "sh_flags"%string ->
  attr_hist_sec ai le img ((k, v) :: h) hist = attr_hist_sec ai le img h hist.
Proof. exact attr_hist_field_irrelevant. Qed.
Print Assumptions C20_attr_header_field_irrelevant.

Theorem C20_attr_header_flags_irrelevant : forall ai le img (h : shdr) f hist,
  Z.land f SHF_COMPRESSED = 0 -> Z.land (hget h "sh_flags") SHF_COMPRESSED = 0 ->
  attr_hist_sec ai le img (("sh_flags"%string, f) :: h) hist = attr_hist_sec ai le img h hist.
Proof. exact attr_hist_flags_irrelevant. Qed.
Print Assumptions C20_attr_header_flags_irrelevant.

Theorem C20_attr_history_exact_any_header : forall fl le pre post l (h : shdr) hist,
  wf_section fl l = true ->
  hget h "sh_offset" = zlen pre -> hget h "sh_size" = zlen (enc_section le l) ->
  Z.land (hget h "sh_flags") SHF_COMPRESSED = 0 ->
  attr_hist_sec (impl_of fl) le (pre ++ enc_section le l ++ post) h hist
  = Ok (spec_hist (expected_section fl l) hist).
Proof. exact attr_hist_sec_exact. Qed.
Print Assumptions C20_attr_history_exact_any_header.

(* ======================= non-vacuity ======================= *)
Open Scope string_scope.
Open Scope list_scope.

(* two vendor subsections; file, section and symbol scopes; every value kind; padded uleb128 *)
Definition ex_section : list subsec :=
  [ {| sb_vendor := [97; 101; 97; 98; 105];
       sb_subs := [ {| ss_scope := 1; ss_tp := 0; ss_nums := []; ss_termpad := 0;
                       ss_attrs := [ANtbs 5 0 [55; 45; 65]; AUleb 6 1 10 2; ACompat 32 0 1 0 [103];
                                    ANestUleb 65 0 6 0 300 0; ANestNtbs 65 0 67 1 [50]] |};
                    {| ss_scope := 2; ss_tp := 2; ss_nums := [(1, 0%nat); (200, 1%nat)]; ss_termpad := 1;
                       ss_attrs := [AUleb 34 0 (2 ^ 40) 0] |} ] |};
    {| sb_vendor := [103; 110; 117];
       sb_subs := [ {| ss_scope := 3; ss_tp := 0; ss_nums := [(7, 0%nat)]; ss_termpad := 0; ss_attrs := [] |} ] |} ].
Example C20_ex_section_wf : wf_section ARM ex_section = true.
Proof. vm_compute. reflexivity. Qed.
Example C20_ex_section_runs :
  read_attr_section arm_impl false ([9; 9; 9] ++ enc_section false ex_section ++ [7])
                    3 (zlen (enc_section false ex_section))
  = Ok (expected_section ARM ex_section).
Proof. vm_compute. reflexivity. Qed.
Example C20_ex_riscv_wf :
  wf_section RISCV [ {| sb_vendor := [114]; sb_subs :=
    [ {| ss_scope := 1; ss_tp := 0; ss_nums := []; ss_termpad := 0;
         ss_attrs := [ANtbs 5 0 [114; 118]; AUleb 4 0 16 0] |} ] |} ] = true.
Proof. vm_compute. reflexivity. Qed.

(* a displacement whose bits 26 and 30 differ, a negative one, an entry of each kind *)
Example C20_ex_prel31 : disp_ok 0x04000000 = true /\ disp_ok (- 0x04000001) = true /\
  prel31_spec 0x04000000 0x100 = 0x04000100.
Proof. vm_compute. auto. Qed.
Example C20_ex_entries :
  forallb (wf_entry 0x100)
    [ECantUnwind (-8); EInline 0x04000000 0xb1 0x0f 0xb0; ETable0 12 0x40 0xa8 0xb0 0xb0;
     ETable12 (- 0x20000000) 0x180 2 0xb2 0x81 [(0x01, 0xc9, 0x84, 0xb0)]; EGeneric 4 0x44 (-0x30);
     ECorruptIndex 0x80000001 1; ECorruptInline 0 0x81b0b0b0; ECorruptTable 0 0x48 0x90000000;
     ECorruptModel 0 0x4c 3 0] = true.
Proof. vm_compute. reflexivity. Qed.
Example C20_ex_bytecode :
  forallb wf_insn [I1 0x3f; I2 0x80 0x00; I2 0xb1 0x0f; IU 300 1; I2 0xc8 0xff; I1 0xb0] = true /\
  bc_decode (enc_insns [IU 300 1; I1 0xb0])
  = Ok [([0xb2; 0xac; 0x82; 0x00], "vsp = vsp + 1716"); ([0xb0], "finish")].
Proof. vm_compute. auto. Qed.

(* a history on the two-subsection example: a walk abandoned after its first item, then the
   count; a walk limited to the second vendor; the list of the object it yields; the count again *)
Example C20_ex_history :
  let h := [OStart 0 None; ONext 0; OClose 0; ONum 0; OStart 0 (Some [103; 110; 117]); ONext 1; OList 2; ONum 0;
            ONext 0; ONext 1] in
  match attr_hist arm_impl false ([9; 9; 9] ++ enc_section false ex_section ++ [7]) 3 (zlen (enc_section false ex_section)) h with
  | Ok a => a = spec_hist (expected_section ARM ex_section) h /\
            nth 1 a HBad = HItem (Some 1%nat) (VSubsec 59 [97; 101; 97; 98; 105]) /\
            nth 3 a HBad = HInt 2 /\
            nth 5 a HBad = HItem (Some 2%nat) (VSubsec 15 [103; 110; 117]) /\
            nth 6 a HBad = HItems 3 [VSubsub ("TAG_SYMBOL", OInt 7, XNums [7])] /\
            nth 7 a HBad = HInt 2 /\ nth 8 a HBad = HStop /\ nth 9 a HBad = HStop
  | Err _ => False
  end.
Proof. vm_compute. repeat split; reflexivity. Qed.

(* one little-endian inline entry (function at place - 8; pop {r4, lr}; finish; finish), asked
   for twice around num_entry, disassembled through the entry, through a decoder object, through
   the same decoder decoded again and read again *)
Example C20_ex_eh_history :
  let img := int_encode true 4 0x7ffffff8 ++ int_encode true 4 0x80a8b0b0 in
  let a := eh_hist img true 0 8 [EGet 0; ENum; EGet 0; EMnem 1; EDecoder 0; ERedecode 0; ERead 0; EGet 1] in
  nth 0 a EABad = EAEntry (mk_entry (2 ^ 64 - 8) (Some 0) (Some [0xa8; 0xb0; 0xb0]) None) /\
  nth 1 a EABad = EAInt 1 /\ nth 2 a EABad = nth 0 a EABad /\
  nth 3 a EABad = EAMnem (Some [([0xa8], "pop {r4, lr}"); ([0xb0], "finish"); ([0xb0], "finish")]) /\
  nth 4 a EABad = nth 3 a EABad /\ nth 5 a EABad = nth 3 a EABad /\ nth 6 a EABad = nth 3 a EABad /\
  nth 7 a EABad = EAErr (EPy "IndexError").
Proof. vm_compute. repeat split; reflexivity. Qed.

(* an index whose header records sh_entsize 4: still one 8-byte entry *)
Example C20_ex_entsize :
  let img := int_encode true 4 0x7ffffff8 ++ int_encode true 4 0x80a8b0b0 in
  let h := [("sh_offset", 0); ("sh_size", 8); ("sh_entsize", 4); ("sh_addralign", 0); ("sh_link", 77)] in
  eh_hist_sec img true h [ENum; EGet 0; EGet 1]
  = [EAInt 1; EAEntry (mk_entry (2 ^ 64 - 8) (Some 0) (Some [0xa8; 0xb0; 0xb0]) None); EAErr (EPy "IndexError")].
Proof. vm_compute. reflexivity. Qed.
