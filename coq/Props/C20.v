(* Props/C20.v — placeholder while the proofs are being built *)
From PV Require Import Gen.C20Tables Spec.C20Attr.
Theorem C20_gen_tags_arm : gen_attr_tag_arm = spec_attr_tag_arm.
Proof. reflexivity. Qed.
Print Assumptions C20_gen_tags_arm.
Example C20_ex : True. Proof. exact I. Qed.
