(* Props/C05.v — property C05: line-number programs execute to the rows the DWARF state machine
   prescribes; header tables decode to the encoded ones; decoding consumes exactly the declared
   extent; the program attached to a unit is the one DW_AT_stmt_list designates.
   Only statements, closed by [exact]; proofs live in Proofs/C05*.v.

   Spec  (written from DWARF 2-5, section 6.2): Spec/C05Line.v   registers, step_spec, rows_spec,
         enc_instr/enc_prog = ALL valid encodings (any LEB128 padding, any length encoding);
         Spec/C05Header.v  lheader, enc_body/enc_unit, expected_view (what a consumer must see).
   Model (transliteration of the Python): Model/C05LineProgram.v  LineProgram._decode_line_program;
         Model/C05Header.v  Dwarf_lineprog_header, FormattedEntry, _parse_line_program_at_offset
         (resolve_strings, legacy tables), line_program_for_CU and _linetable_cache, get_entries.
   Gen   Gen/C05Tables.v  DW_LNS_*/DW_LNE_* constants, ENUM_DW_LNCT, value -> (name, parser) of
         ENUM_DW_FORM x Dwarf_dw_form, regenerated from the live modules on every run. *)
From PV Require Import Base.Outcome Base.Prim Spec.PrimSpec Spec.C05Line Spec.C05Header
  Model.C05Kinds Model.C05LineProgram Model.C05Header Gen.C05Tables
  Proofs.C05Leb Proofs.C05Tables Proofs.C05Machine Proofs.C05Header Proofs.C05Unit
  Proofs.C05Program Proofs.C05Encoder Proofs.C05Total.
Open Scope list_scope.
Open Scope Z_scope.

(* the .debug_str of the supplementary object file, when DWARFInfo.supplementary_dwarfinfo is set *)
Local Notation sup_of secs := (match sec_sup_str secs with Some sup => sup | None => None end).

(* ================================================================ 1. the code's tables *)
(* An edit of a DW_LNS/DW_LNE/DW_LNCT number, of a form code, or of the parser bound to a form in
   Dwarf_dw_form changes Gen/C05Tables.v and one of these stops compiling. *)
Theorem C05_gen_lns_standard : tbl_c05_lns = spec_lns.
Proof. exact gen_lns_standard. Qed.
Print Assumptions C05_gen_lns_standard.

Theorem C05_gen_lne_standard : tbl_c05_lne = spec_lne.
Proof. exact gen_lne_standard. Qed.
Print Assumptions C05_gen_lne_standard.

Theorem C05_gen_lnct_standard : tbl_c05_lnct = spec_lnct /\ c05_lnct_default = false.
Proof. exact gen_lnct_standard. Qed.
Print Assumptions C05_gen_lnct_standard.

(* the constants _decode_line_program branches on are the standard's opcode numbers *)
Theorem C05_gen_opcode_constants :
  [DW_LNS_copy; DW_LNS_advance_pc; DW_LNS_advance_line; DW_LNS_set_file; DW_LNS_set_column;
   DW_LNS_negate_stmt; DW_LNS_set_basic_block; DW_LNS_const_add_pc; DW_LNS_fixed_advance_pc;
   DW_LNS_set_prologue_end; DW_LNS_set_epilogue_begin; DW_LNS_set_isa] = map snd spec_lns /\
  [DW_LNE_end_sequence; DW_LNE_set_address; DW_LNE_define_file; DW_LNE_set_discriminator] =
  firstn 4 (map snd spec_lne).
Proof. exact gen_opcode_constants. Qed.
Print Assumptions C05_gen_opcode_constants.

(* every form of the property's domain: its code maps to its standard name and to the parser the
   standard's encoding of that form needs (DWARF 5, 7.5.6) *)
Theorem C05_gen_forms_standard : forall f,
  form_lookup tbl_c05_forms (lform_code f) = Some (spec_form_name f, spec_form_kind f).
Proof. exact gen_forms_standard. Qed.
Print Assumptions C05_gen_forms_standard.

(* the members of Dwarf_lineprog_header and Dwarf_lineprog_file_entry, walked from the live construct
   objects for every byte order, format and address size (every lambda probed: version thresholds,
   else values, array counts, terminating predicates): names, order, widths, signedness and
   conditions are those of DWARF 6.2.4, which Model/C05Header.parse_header reads one by one *)
Theorem C05_gen_header_layout :
  gen_c05_header = spec_header_layout /\ gen_c05_file_entry = spec_file_entry_layout.
Proof. exact gen_header_layout_standard. Qed.
Print Assumptions C05_gen_header_layout.

(* ================================================================ 2. the state machine *)
(* one iteration of the decoding loop on ANY valid encoding [e] of instruction [i], followed by
   anything: consumes exactly [e] and does what the standard's step does to the registers, emits
   the row the standard emits (or none), records the file DW_LNE_define_file defines.
   [apnd] = header['file_entry'] is a list (versions 2-4); DW_LNE_define_file needs it. *)
Theorem C05_step : forall c p apnd, wf_params p = true -> forall st i e tail,
  enc_instr c p i e -> (apnd = true \/ defined_files [i] = []) ->
  exists o, lp_step c p apnd st (e ++ tail) = Ok o /\
    o_rest o = tail /\ o_consumed o = zlen e /\
    regs_of (o_state o) = fst (step_spec p (regs_of st) i) /\
    map regs_of (entry_states (o_entries o)) = opt_list (snd (step_spec p (regs_of st) i)) /\
    o_files o = defined_files [i].
Proof. exact lp_step_sound. Qed.
Print Assumptions C05_step.

(* instruction decoding: a program of any length lying at [start, end) of a stream is decoded
   instruction by instruction, the loop stops exactly at the declared end (distance 0), leaves the
   stream at the first byte after the program, never runs out of fuel, and the states of the
   row-emitting entries are the standard's line table *)
Theorem C05_decode_instrs : forall c p apnd, wf_params p = true -> forall prog bs pre tail,
  enc_prog c p prog bs -> (apnd = true \/ defined_files prog = []) ->
  exists es,
    decode_line_program c p apnd (pre ++ bs ++ tail) (zlen pre) (zlen pre + zlen bs)
      = Ok (es, defined_files prog, 0, tail) /\
    map regs_of (entry_states es) = rows_spec p prog.
Proof. exact decode_line_program_sound. Qed.
Print Assumptions C05_decode_instrs.

(* rows_equal: for EVERY header parameter set in the property's domain (opcode_base 1..255,
   line_range 1..255, line_base -128..127, any min_inst, max_ops 1..255), both byte orders and
   address sizes, and EVERY instruction list with every valid encoding of it, the rows of the
   model are the rows of the standard's machine (all twelve registers) *)
Theorem C05_rows_equal : forall c p apnd, wf_params p = true -> forall prog bs pre tail,
  enc_prog c p prog bs -> (apnd = true \/ defined_files prog = []) ->
  rows_model c p apnd (pre ++ bs ++ tail) (zlen pre) (zlen pre + zlen bs) = Ok (rows_spec p prog).
Proof. exact rows_equal. Qed.
Print Assumptions C05_rows_equal.

(* on ARBITRARY streams and extents (valid program or not) every loop iteration consumes input or
   fails with a library error, so the model's fuel is never the reason for a result: the model
   describes _decode_line_program totally *)
Theorem C05_decode_total : forall c h apnd sec start end_,
  decode_line_program c h apnd sec start end_ <> Err EFuel.
Proof. exact decode_line_program_total. Qed.
Print Assumptions C05_decode_total.

(* the relation is inhabited by the executable encoder the correspondence uses: any instruction
   list passing the boolean check, any padding choice *)
Theorem C05_encoder_in_relation : forall c p (prog : list (instr * nat * nat)),
  wf_prog c p (map (fun x => fst (fst x)) prog) = true ->
  enc_prog c p (map (fun x => fst (fst x)) prog) (encode_prog c prog).
Proof. exact wf_prog_enc. Qed.
Print Assumptions C05_encoder_in_relation.

(* ================================================================ 3. the header *)
(* Dwarf_lineprog_header on any valid encoding of a header (versions 2-5, 32/64-bit format, v5
   directory/file formats over string, line_strp, strp, udata, data1/2/4/8/16, block) followed by
   its program and anything else: every field is the encoded one, the stream is left at the first
   program byte.  raw_view = the Container before resolve_strings (string offsets still numbers). *)
Theorem C05_header_parse : forall s h body prog t,
  wf_header h = true -> ms_is64 s = h_is64 h -> enc_body (ms_le s) h body ->
  sizes_ok (h_is64 h) (zlen (unit_rest (ms_le s) h body prog)) (zlen body) = true ->
  parse_header s (unit_bytes (ms_le s) h body prog ++ t) =
  Ok {| rh_view := raw_view h (zlen (unit_rest (ms_le s) h body prog)) (zlen body);
        rh_rest := prog ++ t |}.
Proof. exact parse_header_valid. Qed.
Print Assumptions C05_header_parse.

(* enc_unit is unit_bytes for some valid body *)
Theorem C05_enc_unit_bytes : forall le h prog e,
  enc_unit le h prog e <-> exists body, enc_body le h body /\ e = unit_bytes le h body prog.
Proof. exact enc_unit_bytes. Qed.
Print Assumptions C05_enc_unit_bytes.

(* resolve_strings: line_strp/strp offsets are replaced by the strings found there, strp_sup /
   GNU_strp_alt offsets by the strings of the supplementary file's .debug_str, every other field
   is kept, field order is kept *)
Theorem C05_resolve_strings : forall secs fmt entries,
  nodupb (map fst fmt) = true -> forallb (forms_match fmt) entries = true ->
  Forall (Forall (refs_present (sec_line_str secs) (sec_str secs) (sup_of secs))) entries ->
  resolve_strings secs (Some (format_view fmt)) (Some (map (raw_entry fmt) entries))
  = Ok (Some (map (entry_view fmt) entries)).
Proof. exact resolve_strings_valid. Qed.
Print Assumptions C05_resolve_strings.

(* header_roundtrip: _parse_line_program_at_offset on a unit lying anywhere in .debug_line gives
   the view the standard prescribes (decoded tables = encoded tables, v5 strings resolved,
   include_directory/file_entry in the legacy shape for every version) and the program extent
   [first program byte, offset + unit_length + size of the initial length) *)
Theorem C05_header_roundtrip : forall secs s h body prog pre tail,
  wf_header h = true -> ms_is64 s = h_is64 h -> enc_body (ms_le s) h body ->
  sizes_ok (h_is64 h) (zlen (unit_rest (ms_le s) h body prog)) (zlen body) = true ->
  sec_line secs = pre ++ unit_bytes (ms_le s) h body prog ++ tail ->
  Forall (Forall (refs_present (sec_line_str secs) (sec_str secs) (sup_of secs))) (h_dirs h) ->
  Forall (Forall (refs_present (sec_line_str secs) (sec_str secs) (sup_of secs))) (h_file_names h) ->
  parse_line_program_uncached secs (zlen pre) s =
  Ok {| lp_header := expected_view h (zlen (unit_rest (ms_le s) h body prog)) (zlen body);
        lp_start := zlen pre + zlen (unit_bytes (ms_le s) h body prog) - zlen prog;
        lp_end := zlen pre + zlen (unit_bytes (ms_le s) h body prog);
        lp_structs := s |}.
Proof. exact parse_line_program_valid. Qed.
Print Assumptions C05_header_roundtrip.

(* the whole property on one unit: header as encoded, and get_entries() on the program object
   decodes exactly the unit's program extent to the standard's rows *)
Theorem C05_unit_rows : forall secs s h body prog pre tail,
  wf_header h = true -> ms_is64 s = h_is64 h -> enc_body (ms_le s) h body ->
  sizes_ok (h_is64 h) (zlen (unit_rest (ms_le s) h body prog)) (zlen body) = true ->
  sec_line secs = pre ++ unit_bytes (ms_le s) h body prog ++ tail ->
  Forall (Forall (refs_present (sec_line_str secs) (sec_str secs) (sup_of secs))) (h_dirs h) ->
  Forall (Forall (refs_present (sec_line_str secs) (sec_str secs) (sup_of secs))) (h_file_names h) ->
  forall instrs, enc_prog (cfg_of s) (h_params h) instrs prog ->
  (h_version h < 5 \/ defined_files instrs = []) ->
  exists lp es,
    parse_line_program_uncached secs (zlen pre) s = Ok lp /\
    lp_header lp = expected_view h (zlen (unit_rest (ms_le s) h body prog)) (zlen body) /\
    lp_start lp = zlen pre + zlen (unit_bytes (ms_le s) h body prog) - zlen prog /\
    lp_end lp = zlen pre + zlen (unit_bytes (ms_le s) h body prog) /\
    get_entries secs lp = Ok (es, defined_files instrs, 0, tail) /\
    map regs_of (entry_states es) = rows_spec (h_params h) instrs.
Proof. exact unit_rows. Qed.
Print Assumptions C05_unit_rows.

(* the executable header encoder is inside the encoding relation *)
Theorem C05_header_encoder_in_relation : forall le k h prog,
  wf_header h = true -> wf_header_values h = true -> enc_unit le h prog (encode_unit le k h prog).
Proof. exact encode_unit_enc. Qed.
Print Assumptions C05_header_encoder_in_relation.

(* what the driver checks for a generated unit (wf_header, wf_prog, sizes) implies the hypotheses
   of C05_unit_rows, with the expected view the driver hands to the harness *)
Theorem C05_checked_unit_rows : forall secs s h k (progk : list (instr * nat * nat)) ls st sup pre tail,
  let le := ms_le s in
  let instrs := map (fun x => fst (fst x)) progk in
  let prog := encode_prog (cfg_of s) progk in
  let e := encode_unit le k h prog in
  wf_header h && wf_header_values h && header_refs_ok_b ls st sup h = true ->
  wf_prog (cfg_of s) (h_params h) instrs = true ->
  sizes_ok (h_is64 h) (unit_length_of le k h prog) (header_length_of le k h) = true ->
  ms_is64 s = h_is64 h ->
  sec_line secs = pre ++ e ++ tail -> sec_line_str secs = Some ls -> sec_str secs = Some st ->
  sec_sup_str secs = Some (Some sup) ->
  zlen ls < 2 ^ 63 -> zlen st < 2 ^ 63 -> zlen sup < 2 ^ 63 ->
  (h_version h < 5 \/ defined_files instrs = []) ->
  exists lp es,
    parse_line_program_uncached secs (zlen pre) s = Ok lp /\
    lp_header lp = expected_view h (unit_length_of le k h prog) (header_length_of le k h) /\
    lp_start lp = zlen pre + zlen e - zlen prog /\ lp_end lp = zlen pre + zlen e /\
    get_entries secs lp = Ok (es, defined_files instrs, 0, tail) /\
    map regs_of (entry_states es) = rows_spec (h_params h) instrs.
Proof. exact checked_unit_rows. Qed.
Print Assumptions C05_checked_unit_rows.

(* ================================================================ 4. the program of a unit *)
(* line_program_for_CU returns the program parsed at the offset DW_AT_stmt_list holds, whatever
   was looked up or decoded before (cache hit or miss), and keeps the cache coherent.  The model's
   structs (mstructs) carry byte order, 32/64-bit format and address size only: the DWARF version
   of the looking-up unit does not enter, so units of different versions that designate one table
   get the same program, extent and rows (exercised by the 'cu' correspondence stream) *)
Theorem C05_program_for_unit : forall secs cache cu off lp,
  cache_coherent secs (cu_structs cu) cache ->
  attr_get (cu_top_attrs cu) "DW_AT_stmt_list" = Some off ->
  parse_line_program_uncached secs off (cu_structs cu) = Ok lp ->
  exists cache', line_program_for_CU secs cache cu = Ok (Some lp, cache') /\
                 cache_coherent secs (cu_structs cu) cache' /\ cache_get cache' off = Some lp.
Proof. exact program_for_unit. Qed.
Print Assumptions C05_program_for_unit.

Theorem C05_program_for_unit_none : forall secs cache cu,
  attr_get (cu_top_attrs cu) "DW_AT_stmt_list" = None ->
  line_program_for_CU secs cache cu = Ok (None, cache).
Proof. exact program_for_unit_none. Qed.
Print Assumptions C05_program_for_unit_none.

(* ================================================================ non-vacuity *)
(* a VLIW header (4 operations per instruction) and a program using standard, extended, unknown
   extended and special opcodes with padded LEB128 operands, two sequences *)
(* an instruction with its encoding choices: k padding bytes on LEB128 operands, kl on the length *)
Definition pk (i : instr) (k kl : nat) : instr * nat * nat := (i, k, kl).
Definition ex_cfg : lcfg := {| c_le := true; c_addr_size := 8 |}.
Definition ex_params : lparams :=
  {| p_min_inst := 4; p_max_ops := 4; p_default_is_stmt := 1; p_line_base := -5; p_line_range := 14;
     p_opcode_base := 13 |}.
Definition ex_prog : list (instr * nat * nat) :=
  [pk (IAdvancePc 3) 1 0; pk (ICopy) 0 0; pk (ISpecial 27) 0 0; pk (IFixedAdvancePc 8) 0 0; pk (ICopy) 0 0;
   pk (IDefineFile [102; 46; 99] 1 2 300) 2 1; pk (IExtUnknown 128 [1; 2; 3]) 0 2; pk (ISetDiscriminator 5) 1 0;
   pk (IConstAddPc) 0 0; pk (INegateStmt) 0 0; pk (IAdvanceLine (-70)) 3 0; pk (ISpecial 255) 0 0;
   pk (IEndSequence) 0 1; pk (ISetAddress 4096) 0 0; pk (ISetPrologueEnd) 0 0; pk (ISpecial 13) 0 0;
   pk (IEndSequence) 0 0].
Definition ex_instrs : list instr := map (fun x => fst (fst x)) ex_prog.

Example C05_ex_prog_in_domain : wf_params ex_params && wf_prog ex_cfg ex_params ex_instrs = true.
Proof. vm_compute. reflexivity. Qed.

(* the instance of C05_rows_equal, evaluated: garbage before and after the program *)
Example C05_ex_rows_equal :
  let bs := encode_prog ex_cfg ex_prog in
  rows_model ex_cfg ex_params true ([9; 9; 9] ++ bs ++ [7; 7]) 3 (3 + zlen bs) = Ok (rows_spec ex_params ex_instrs)
  /\ length (rows_spec ex_params ex_instrs) = 7%nat.
Proof. vm_compute. split; reflexivity. Qed.

(* 6.2.5.1 on a VLIW header: advance_pc 3 from (address 0, op_index 0) gives (0, 3); special opcode
   27 (operation advance 1) wraps to (4, 0); fixed_advance_pc resets op_index *)
Example C05_ex_vliw_rows :
  map (fun r => (r_address r, r_op_index r, r_line r)) (firstn 3 (rows_spec ex_params ex_instrs))
  = [(0, 3, 1); (4, 0, 1 + (-5 + 0)); (12, 0, -4)].
Proof. vm_compute. reflexivity. Qed.

(* a version 5 unit, 64-bit DWARF, big endian: directory entries by line_strp, file names with an
   inline string, a udata directory index, an MD5 and a strp'd vendor field *)
Definition ex_line_str : list Z := [47; 117; 0; 47; 115; 114; 99; 0].       (* "/u" "/src" *)
Definition ex_str : list Z := [0; 120; 121; 0].                            (* "" "xy" *)
Definition ex_sup_str : list Z := [113; 0; 100; 119; 122; 0].               (* "q" "dwz": the supplementary file *)
Definition ex_header5 : lheader :=
  {| h_is64 := true; h_version := 5; h_address_size := 8; h_seg_sel_size := 0;
     h_params := ex_params; h_std_lengths := [0; 1; 1; 1; 1; 0; 0; 0; 1; 0; 0; 1];
     h_include_dirs := []; h_files := [];
     h_dir_format := [(1, LF_line_strp)];
     h_dirs := [[FV_line_strp 0 [47; 117]]; [FV_line_strp 4 [115; 114; 99]]];
     h_file_format := [(1, LF_string); (2, LF_udata); (5, LF_data16); (0x2001, LF_strp); (0x2002, LF_strp_sup)];
     h_file_names := [[FV_string [97; 46; 99]; FV_udata 1; FV_data16 (repeat 171 16); FV_strp 1 [120; 121]; FV_strp_sup 2 [100; 119; 122]];
                      [FV_string [98]; FV_udata 300; FV_data16 (repeat 1 16); FV_strp 0 []; FV_strp_sup 3 [119; 122]]] |}.
Definition ex_structs5 : mstructs := {| ms_le := false; ms_is64 := true; ms_addr := 8 |}.
Definition ex_prog5 : list (instr * nat * nat) :=
  [pk (ISetAddress 65536) 0 0; pk (ISpecial 100) 0 0; pk (IAdvancePc 9) 0 0; pk (IEndSequence) 0 0].

(* the boolean hypotheses of C05_checked_unit_rows hold for it *)
Example C05_ex_unit5_in_domain :
  let prog := encode_prog (cfg_of ex_structs5) ex_prog5 in
  wf_header ex_header5 && wf_header_values ex_header5 && header_refs_ok_b ex_line_str ex_str ex_sup_str ex_header5 = true /\
  wf_prog (cfg_of ex_structs5) ex_params (map (fun x => fst (fst x)) ex_prog5) = true /\
  sizes_ok true (unit_length_of false 1 ex_header5 prog) (header_length_of false 1 ex_header5) = true.
Proof. vm_compute. repeat split; reflexivity. Qed.

(* and the instance, evaluated: the unit at offset 2 of .debug_line *)
Example C05_ex_unit5 :
  let prog := encode_prog (cfg_of ex_structs5) ex_prog5 in
  let e := encode_unit false 1 ex_header5 prog in
  let secs := {| sec_line := [5; 5] ++ e ++ [6]; sec_line_str := Some ex_line_str; sec_str := Some ex_str; sec_sup_str := Some (Some ex_sup_str) |} in
  match parse_line_program_uncached secs 2 ex_structs5 with
  | Ok lp =>
      lp_header lp = expected_view ex_header5 (unit_length_of false 1 ex_header5 prog) (header_length_of false 1 ex_header5)
      /\ v_include_directory (lp_header lp) = [DBytes [47; 117]; DBytes [115; 114; 99]]
      /\ lp_end lp = 2 + zlen e
      /\ match get_entries secs lp with
         | Ok (es, fs, rem, rest) =>
             map regs_of (entry_states es) = rows_spec ex_params (map (fun x => fst (fst x)) ex_prog5)
             /\ length (entry_states es) = 2%nat /\ rem = 0 /\ rest = [6]
         | Err _ => False
         end
  | Err _ => False
  end.
Proof. vm_compute. repeat split; reflexivity. Qed.

(* a version 3 unit with legacy tables whose program defines a file *)
Definition ex_header3 : lheader :=
  {| h_is64 := false; h_version := 3; h_address_size := 0; h_seg_sel_size := 0;
     h_params := {| p_min_inst := 1; p_max_ops := 1; p_default_is_stmt := 0; p_line_base := -3;
                    p_line_range := 12; p_opcode_base := 10 |};
     h_std_lengths := [0; 1; 1; 1; 1; 0; 0; 0; 1];
     h_include_dirs := [[100; 49]; [100; 50]];
     h_files := [{| fe_name := [97]; fe_dir := 1; fe_mtime := 0; fe_length := 128 |}];
     h_dir_format := []; h_dirs := []; h_file_format := []; h_file_names := [] |}.
Definition ex_structs3 : mstructs := {| ms_le := true; ms_is64 := false; ms_addr := 4 |}.
Definition ex_prog3 : list (instr * nat * nat) :=
  [pk (IDefineFile [98] 2 0 0) 0 0; pk (ISetFile 2) 0 0; pk (ISpecial 10) 0 0; pk (ISpecial 200) 0 0;
   pk (IEndSequence) 0 0].

Example C05_ex_unit3 :
  let prog := encode_prog (cfg_of ex_structs3) ex_prog3 in
  let e := encode_unit true 0 ex_header3 prog in
  let secs := {| sec_line := e; sec_line_str := None; sec_str := None; sec_sup_str := None |} in
  wf_header ex_header3 && wf_header_values ex_header3 && header_refs_ok_b [] [] [] ex_header3 = true /\
  wf_prog (cfg_of ex_structs3) (h_params ex_header3) (map (fun x => fst (fst x)) ex_prog3) = true /\
  match parse_line_program_uncached secs 0 ex_structs3 with
  | Ok lp =>
      lp_header lp = expected_view ex_header3 (unit_length_of true 0 ex_header3 prog) (header_length_of true 0 ex_header3)
      /\ match get_entries secs lp with
         | Ok (es, fs, rem, rest) =>
             map regs_of (entry_states es) = rows_spec (h_params ex_header3) (map (fun x => fst (fst x)) ex_prog3)
             /\ fs = [{| fe_name := [98]; fe_dir := 2; fe_mtime := 0; fe_length := 0 |}]
             /\ length (entry_states es) = 3%nat /\ rem = 0
         | Err _ => False
         end
  | Err _ => False
  end.
Proof. vm_compute. repeat split; reflexivity. Qed.

(* with opcode_base 10, byte 10 is the first special opcode and byte 9 still DW_LNS_fixed_advance_pc:
   standard opcodes >= opcode_base do not exist under such a header *)
Example C05_ex_small_opcode_base :
  wf_instr (cfg_of ex_structs3) (h_params ex_header3) ISetPrologueEnd = false /\
  wf_instr (cfg_of ex_structs3) (h_params ex_header3) (ISpecial 10) = true.
Proof. split; reflexivity. Qed.

(* the cache: two units pointing at the same offset get the same program object *)
Example C05_ex_cache :
  let prog := encode_prog (cfg_of ex_structs3) ex_prog3 in
  let secs := {| sec_line := encode_unit true 0 ex_header3 prog; sec_line_str := None; sec_str := None; sec_sup_str := None |} in
  let cu := {| cu_structs := ex_structs3; cu_top_attrs := [("DW_AT_stmt_list"%string, 0)] |} in
  match line_program_for_CU secs [] cu with
  | Ok (Some lp, cache) => line_program_for_CU secs cache cu = Ok (Some lp, cache) /\ length cache = 1%nat
  | _ => False
  end.
Proof. vm_compute. split; reflexivity. Qed.

(* 6.2.5.3: every DW_LNE_define_file adds an entry, also one equal to an entry the table already has;
   C05_decode_instrs demands all of them (defined_files keeps repeats), so file numbers keep counting *)
Example C05_ex_repeated_define_file :
  let f := IDefineFile [97; 46; 99] 1 0 0 in
  let prog := [pk f 0 0; pk f 2 1; pk (ISetFile 3) 0 0; pk ICopy 0 0] in
  let bs := encode_prog (cfg_of ex_structs3) prog in
  wf_prog (cfg_of ex_structs3) ex_params (map (fun x => fst (fst x)) prog) = true /\
  match decode_line_program (cfg_of ex_structs3) ex_params true bs 0 (zlen bs) with
  | Ok (es, fs, rem, rest) =>
      fs = [{| fe_name := [97; 46; 99]; fe_dir := 1; fe_mtime := 0; fe_length := 0 |};
            {| fe_name := [97; 46; 99]; fe_dir := 1; fe_mtime := 0; fe_length := 0 |}] /\ rem = 0
  | Err _ => False
  end.
Proof. vm_compute. repeat split; reflexivity. Qed.
