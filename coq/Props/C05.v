(* Props/C05.v — property C05 (line-number programs).  UNDER CONSTRUCTION. *)
From PV Require Import Spec.C05Line Spec.C05Header Model.C05Kinds Model.C05Header Gen.C05Tables Proofs.C05Tables.
Open Scope list_scope.
Open Scope Z_scope.

Theorem C05_gen_lns_standard : tbl_c05_lns = spec_lns.
Proof. exact gen_lns_standard. Qed.
Print Assumptions C05_gen_lns_standard.

Example C05_ex_placeholder : wf_params {| p_min_inst := 1; p_max_ops := 1; p_default_is_stmt := 1; p_line_base := -5; p_line_range := 14; p_opcode_base := 13 |} = true.
Proof. reflexivity. Qed.
