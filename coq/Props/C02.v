(* Props/C02.v — property C02: section and segment contents, string tables and address
   mapping are exact; strict section-in-segment containment equals binutils' rule.
   Only statements, closed by [exact]; proofs live in Proofs/C02Proofs.v and
   Proofs/C02Containment.v.  Model: Model/C02Contents.v (transliteration of elf/sections.py,
   elf/segments.py, elffile.address_offsets).  Spec: Spec/C02Spec.v.
   zlib is never axiomatised: every theorem about compressed data quantifies over an arbitrary
   function [inflate] and relation [zvalid] satisfying the two laws of DESIGN 2.4. *)
From Coq Require Import String.
From PV Require Import Base.Bytes Base.Outcome Base.Prim Base.Fmt Base.Enum
     Gen.ElfLayouts Gen.Tables Spec.ElfGabi Spec.PrimSpec Spec.C02Spec
     Spec.C02Hist Model.C02Contents Model.C02Hist Gen.PyFuns Proofs.C02Proofs Proofs.C02Containment
     Proofs.PyFunsC02 Proofs.C02Hist.
Open Scope list_scope.
Open Scope Z_scope.

(* ---------------- what the code's data is: Gen tables against the gABI ---------------- *)
Theorem C02_gen_sh_flags : (F_ALLOC, F_TLS, F_COMPRESSED) = (SHF_ALLOC, SHF_TLS, SHF_COMPRESSED).
Proof. exact gen_sh_flags. Qed.
Print Assumptions C02_gen_sh_flags.

(* for every e_machine: SHT_NOBITS is reported for 8 and only for 8 *)
Theorem C02_gen_sh_type_tables : forall machine,
  In machine (map fst gen_sh_type_table_of_machine) -> sh_type_table_ok (sh_type_table machine) = true.
Proof. exact sh_type_table_machine_ok. Qed.
Print Assumptions C02_gen_sh_type_tables.

(* for every e_machine: the eight segment types the containment rule names are reported for
   their gABI/GNU numbers only, and PT_GNU_SFRAME..PT_GNU_MBIND_HI stay raw integers *)
Theorem C02_gen_p_type_tables : forall machine,
  In machine (map fst gen_p_type_table_of_machine) -> p_type_table_ok (p_type_table machine) = true.
Proof. exact p_type_table_machine_ok. Qed.
Print Assumptions C02_gen_p_type_tables.

Theorem C02_gen_ch_type_table : forall is64,
  name_code_ok (ch_type_table is64) "ELFCOMPRESS_ZLIB" ELFCOMPRESS_ZLIB = true.
Proof. exact gen_ch_type_table_ok. Qed.
Print Assumptions C02_gen_ch_type_table.

Theorem C02_gen_chdr_layout : forall le is64,
  gen_Elf_Chdr le is64 = spec_Elf_Chdr le is64 /\ chdr_sizeof le is64 = chdr_size is64.
Proof. intros le is64. split; [apply Proofs.ElfLayoutFacts.gen_Elf_Chdr_gabi | apply chdr_sizeof_spec]. Qed.
Print Assumptions C02_gen_chdr_layout.

(* ---------------- section contents ---------------- *)
(* neither SHT_NOBITS nor SHF_COMPRESSED: exactly the file bytes of the extent, for any
   placement in the file, any size *)
Theorem C02_data_plain : forall inflate T sht flags addr align le is64 pre body tail,
  sh_type_table_ok T = true -> sht <> SHT_NOBITS -> plain_flags flags ->
  let h := mk_sheader (dec_enum T sht) flags addr (zlen pre) (zlen body) align in
  exists s, section_init (pre ++ body ++ tail) le is64 h = Ok s /\
            compressed s = 0 /\ data_size s = zlen body /\ data_alignment s = align /\
            section_data inflate (pre ++ body ++ tail) le is64 s = Ok body.
Proof. exact data_plain. Qed.
Print Assumptions C02_data_plain.

(* SHT_NOBITS: a zero block of the declared size, whatever offset the header carries *)
Theorem C02_data_nobits : forall inflate T flags addr off size align le is64 stream,
  sh_type_table_ok T = true -> plain_flags flags ->
  let h := mk_sheader (dec_enum T SHT_NOBITS) flags addr off size align in
  exists s, section_init stream le is64 h = Ok s /\
            compressed s = 0 /\ data_size s = size /\ data_alignment s = align /\
            section_data inflate stream le is64 s = Ok (nobits_data size).
Proof. exact data_nobits. Qed.
Print Assumptions C02_data_nobits.

(* SHF_COMPRESSED: payload, logical size and alignment from the Chdr of the file's class *)
Theorem C02_data_compressed :
  forall (inflate : list Z -> Z -> option (list Z * bool)) (zvalid : list Z -> list Z -> Prop),
  (forall z p, zvalid z p -> inflate z 0 = Some (p, true)) ->
  (forall z p n, zvalid z p -> 0 < n -> inflate z n = Some (firstn (Z.to_nat n) p, zlen p <=? n)) ->
  forall T sht flags addr align le is64 pre res al z p tail,
  sh_type_table_ok T = true -> sht <> SHT_NOBITS -> compressed_flags flags ->
  zvalid z p -> chdr_fits le is64 ELFCOMPRESS_ZLIB res (zlen p) al = true ->
  let body := compressed_section le is64 res (zlen p) al z in
  let h := mk_sheader (dec_enum T sht) flags addr (zlen pre) (zlen body) align in
  exists s, section_init (pre ++ body ++ tail) le is64 h = Ok s /\
            compressed s <> 0 /\ data_size s = zlen p /\ data_alignment s = al /\
            section_data inflate (pre ++ body ++ tail) le is64 s = Ok p.
Proof. exact data_compressed. Qed.
Print Assumptions C02_data_compressed.

(* a declared size that disagrees with the inflated size, smaller or larger, is rejected *)
Theorem C02_data_compressed_size_mismatch_rejected :
  forall (inflate : list Z -> Z -> option (list Z * bool)) (zvalid : list Z -> list Z -> Prop),
  (forall z p, zvalid z p -> inflate z 0 = Some (p, true)) ->
  (forall z p n, zvalid z p -> 0 < n -> inflate z n = Some (firstn (Z.to_nat n) p, zlen p <=? n)) ->
  forall T sht flags addr align le is64 pre res declared al z p tail,
  sh_type_table_ok T = true -> sht <> SHT_NOBITS -> compressed_flags flags ->
  zvalid z p -> chdr_fits le is64 ELFCOMPRESS_ZLIB res declared al = true ->
  declared <> zlen p ->
  let body := compressed_section le is64 res declared al z in
  let h := mk_sheader (dec_enum T sht) flags addr (zlen pre) (zlen body) align in
  exists s, section_init (pre ++ body ++ tail) le is64 h = Ok s /\
            data_size s = declared /\
            section_data inflate (pre ++ body ++ tail) le is64 s = Err ECompress.
Proof. exact data_compressed_size_mismatch_rejected. Qed.
Print Assumptions C02_data_compressed_size_mismatch_rejected.

(* the same three facts whichever observer is asked first of a freshly built section object and
   however often: any list [obs] of compressed / data_size / data_alignment / data() on one object
   (Model.C02Hist.sec_session = Section.__init__ followed by the observers) is answered from
   the header resp. the compression header *)
Theorem C02_section_observations_any_order_plain :
  forall inflate T sht flags addr align le is64 pre body tail obs,
  sh_type_table_ok T = true -> sht <> SHT_NOBITS -> plain_flags flags ->
  let h := mk_sheader (dec_enum T sht) flags addr (zlen pre) (zlen body) align in
  sec_session inflate (pre ++ body ++ tail) le is64 h obs
  = Ok (spec_sec_session (false, zlen body, align, Some body) obs).
Proof. exact session_plain. Qed.
Print Assumptions C02_section_observations_any_order_plain.

Theorem C02_section_observations_any_order_nobits :
  forall inflate T flags addr off size align le is64 stream obs,
  sh_type_table_ok T = true -> plain_flags flags ->
  let h := mk_sheader (dec_enum T SHT_NOBITS) flags addr off size align in
  sec_session inflate stream le is64 h obs
  = Ok (spec_sec_session (false, size, align, Some (nobits_data size)) obs).
Proof. exact session_nobits. Qed.
Print Assumptions C02_section_observations_any_order_nobits.

Theorem C02_section_observations_any_order_compressed :
  forall (inflate : list Z -> Z -> option (list Z * bool)) (zvalid : list Z -> list Z -> Prop),
  (forall z p, zvalid z p -> inflate z 0 = Some (p, true)) ->
  (forall z p n, zvalid z p -> 0 < n -> inflate z n = Some (firstn (Z.to_nat n) p, zlen p <=? n)) ->
  forall T sht flags addr align le is64 pre res al z p tail obs,
  sh_type_table_ok T = true -> sht <> SHT_NOBITS -> compressed_flags flags ->
  zvalid z p -> chdr_fits le is64 ELFCOMPRESS_ZLIB res (zlen p) al = true ->
  let body := compressed_section le is64 res (zlen p) al z in
  let h := mk_sheader (dec_enum T sht) flags addr (zlen pre) (zlen body) align in
  sec_session inflate (pre ++ body ++ tail) le is64 h obs
  = Ok (spec_sec_session (true, zlen p, al, Some p) obs).
Proof. exact session_compressed. Qed.
Print Assumptions C02_section_observations_any_order_compressed.

(* which header describes "section n": the one at e_shoff + n * e_shentsize, for ANY entry size
   (the gABI allows entries larger than the structure), whichever entry point led to the section -
   get_section(n), iter_sections(), iter_sections(type), get_section_by_name, get_section_index all go
   through Model.C02Contents.section_header_at.  sh_name, sh_link, sh_info, sh_entsize are free.  The
   contents theorems above then apply to the sheader obtained. *)
Theorem C02_section_header_file_exact :
  forall le is64 T shoff shentsize n name type flags addr offset size link info addralign entsize (A R : list Z),
  let vals := shdr_vals name type flags addr offset size link info addralign entsize in
  fits_layout (spec_Elf_Shdr le is64) vals = true ->
  zlen A = shoff + n * shentsize ->
  section_header_at (A ++ encode_layout (spec_Elf_Shdr le is64) vals ++ R) le is64 T shoff shentsize n
  = Ok (mk_sheader (dec_enum T type) flags addr offset size addralign).
Proof. exact section_header_file_exact. Qed.
Print Assumptions C02_section_header_file_exact.

(* ---------------- segments ---------------- *)
Theorem C02_segment_data : forall pre body tail,
  segment_data (pre ++ body ++ tail) (zlen pre) (zlen body) = body.
Proof. exact segment_data_exact. Qed.
Print Assumptions C02_segment_data.

Theorem C02_interp_name : forall pre s tail,
  no_nul s = true -> get_interp_name (pre ++ s ++ 0 :: tail) (zlen pre) = Ok s.
Proof. exact interp_name_exact. Qed.
Print Assumptions C02_interp_name.

(* the Segment OBJECT get_segment(i) builds sees its header only through p_offset / p_filesz: any two
   program headers that agree on those give the same data on every image (p_memsz smaller than,
   equal to, larger than p_filesz or zero; any p_type, p_flags, p_vaddr, p_paddr, p_align) *)
Theorem C02_segment_data_header_free : forall stream ph ph',
  rec_z ph "p_offset" = rec_z ph' "p_offset" -> rec_z ph "p_filesz" = rec_z ph' "p_filesz" ->
  Segment_data stream ph = Segment_data stream ph'.
Proof. exact segment_data_header_free. Qed.
Print Assumptions C02_segment_data_header_free.

Theorem C02_interp_name_header_free : forall stream ph ph',
  rec_z ph "p_offset" = rec_z ph' "p_offset" ->
  InterpSegment_get_interp_name stream ph = InterpSegment_get_interp_name stream ph'.
Proof. exact interp_name_header_free. Qed.
Print Assumptions C02_interp_name_header_free.

(* file level: the image holds the segment's bytes and, anywhere, the encoded program header [h];
   every field of [h] other than p_offset / p_filesz is universally quantified *)
Theorem C02_segment_data_file_exact : forall le is64 h (pre body tail A R : list Z) img,
  phdr_fits le is64 h = true ->
  p_offset h = zlen pre -> p_filesz h = zlen body ->
  img = pre ++ body ++ tail ->
  img = A ++ enc_phdr le is64 h ++ R ->
  segment_data_at img le is64 (zlen A) = Ok body.
Proof. exact segment_data_file_exact. Qed.
Print Assumptions C02_segment_data_file_exact.

(* ... and for the interpreter path p_filesz is free too *)
Theorem C02_interp_name_file_exact : forall le is64 h (pre s tail A R : list Z) img,
  phdr_fits le is64 h = true ->
  p_offset h = zlen pre -> no_nul s = true ->
  img = pre ++ s ++ 0 :: tail ->
  img = A ++ enc_phdr le is64 h ++ R ->
  interp_name_at img le is64 (zlen A) = Ok s.
Proof. exact interp_name_file_exact. Qed.
Print Assumptions C02_interp_name_file_exact.

(* ---------------- string tables ---------------- *)
(* any string without NUL, of any length, at any offset of a table placed anywhere in the file:
   independent of where the 64-byte read chunks fall *)
Theorem C02_get_string_any_length : forall filepre tbl filepost off s,
  strtab_at tbl off s -> get_string (filepre ++ tbl ++ filepost) (zlen filepre) off = s.
Proof. exact get_string_any_length. Qed.
Print Assumptions C02_get_string_any_length.

(* ---------------- address mapping ---------------- *)
Theorem C02_address_offsets_exact : forall stream le is64 T phoff phentsize phs start size,
  p_type_table_ok T = true ->
  forallb (phdr_fits le is64) phs = true ->
  phdrs_at le is64 stream phoff phentsize phs = true ->
  address_offsets stream le is64 T phoff phentsize (zlen phs) start size = Ok (addr_map phs start size).
Proof. exact address_offsets_exact. Qed.
Print Assumptions C02_address_offsets_exact.

(* the mapping holds after ANY history of lookups on one ELFFile object: address_offsets() and
   iter_segments() generators started, resumed item by item, closed or dropped half way,
   interleaved with each other and with unrelated calls.  Every answer of every history
   (Model.C02Hist.elf_hist: one suspended walk per generator object, each with its own loop
   variable) is the answer of the stateless specification (Spec.C02Hist.spec_elf_hist: the j-th
   next() of a generator yields the j-th element of addr_map resp. of the segment list) *)
Theorem C02_address_offsets_history_exact : forall stream le is64 T phoff phentsize phs h,
  p_type_table_ok T = true ->
  forallb (phdr_fits le is64) phs = true ->
  phdrs_at le is64 stream phoff phentsize phs = true ->
  elf_hist (mkEfile stream le is64 T phoff phentsize (zlen phs)) h = spec_elf_hist phs h.
Proof. exact elf_hist_exact. Qed.
Print Assumptions C02_address_offsets_history_exact.

(* the invariant behind it, over the fold of the step function: after any history each generator
   object of the model stands exactly where the specification's does (same arguments, same
   finished flag, loop variable past exactly the headers that produced the items counted) *)
Theorem C02_address_offsets_state_invariant : forall stream le is64 T phoff phentsize phs h,
  p_type_table_ok T = true ->
  forallb (phdr_fits le is64) phs = true ->
  phdrs_at le is64 stream phoff phentsize phs = true ->
  Forall2 (gen_agree phs)
          (elf_state_after (mkEfile stream le is64 T phoff phentsize (zlen phs)) h)
          (spec_state_after phs h).
Proof. exact elf_state_invariant. Qed.
Print Assumptions C02_address_offsets_state_invariant.

(* in particular: whatever was done before, a complete lookup yields exactly addr_map *)
Theorem C02_address_offsets_after_any_history : forall stream le is64 T phoff phentsize phs h start size,
  p_type_table_ok T = true ->
  forallb (phdr_fits le is64) phs = true ->
  phdrs_at le is64 stream phoff phentsize phs = true ->
  last (elf_hist (mkEfile stream le is64 T phoff phentsize (zlen phs)) (h ++ [EAll (KAddr start size)])) AUnit
  = AList (map (fun o => [o]) (addr_map phs start size)).
Proof. exact address_offsets_after_any_history. Qed.
Print Assumptions C02_address_offsets_after_any_history.

(* ---------------- strict containment ---------------- *)
(* model = ELF_SECTION_IN_SEGMENT_1(sec, seg, 1, 1) with bfd_vma arithmetic, for all header values
   in [0, 2^64), all flags, all section and segment types, on the pairs that are not
   ELF_TBSS_SPECIAL and whose section extents offset+size, addr+size stay below 2^64 *)
Theorem C02_section_in_segment_strict : forall Tp Ts (s : shdr) (g : phdr) addralign,
  p_type_table_ok Tp = true -> sh_type_table_ok Ts = true ->
  sis_domain s g = true ->
  section_in_segment (model_pheader Tp g) (model_sheader Ts s addralign)
  = section_in_segment_strict s g.
Proof. exact section_in_segment_strict_exact. Qed.
Print Assumptions C02_section_in_segment_strict.

(* the same, for the function body TRANSLATED from the live Python source on every run
   (Gen/PyFuns.v gen_section_in_segment, by tools/gen/pyast.py): first the translated body equals
   the hand model on all header values, then the containment rule holds of the translated code *)
Theorem C02_translated_section_in_segment_is_model : forall pt po pv pf pm st sf sa so ss al,
  gen_section_in_segment pf pm po pt pv sa sf so ss st
  = section_in_segment (mk_pheader pt po pv pf pm) (mk_sheader st sf sa so ss al).
Proof. exact gen_section_in_segment_is_model. Qed.
Print Assumptions C02_translated_section_in_segment_is_model.

Theorem C02_translated_section_in_segment_strict : forall Tp Ts (s : shdr) (g : phdr),
  p_type_table_ok Tp = true -> sh_type_table_ok Ts = true ->
  sis_domain s g = true ->
  gen_section_in_segment (p_filesz g) (p_memsz g) (p_offset g) (dec_enum Tp (p_type g)) (p_vaddr g)
                         (sh_addr s) (sh_flags s) (sh_offset s) (sh_size s) (dec_enum Ts (sh_type s))
  = section_in_segment_strict s g.
Proof. exact gen_section_in_segment_strict_exact. Qed.
Print Assumptions C02_translated_section_in_segment_strict.

(* the statement without the no-wrap restriction is false: Python's unbounded integers and
   binutils' 64-bit arithmetic part ways when offset - p_offset + size reaches 2^64 (no
   well-formed image has such a section) *)
Theorem C02_section_in_segment_wrap_refuted : exists Tp Ts s g addralign,
  p_type_table_ok Tp = true /\ sh_type_table_ok Ts = true /\
  headers_u64 s g = true /\ tbss_special s g = false /\ extents_no_wrap s = false /\
  section_in_segment (model_pheader Tp g) (model_sheader Ts s addralign) = false /\
  section_in_segment_strict s g = true.
Proof. exact section_in_segment_wrap_refuted. Qed.
Print Assumptions C02_section_in_segment_wrap_refuted.

(* ---------------- non-vacuity: the hypotheses are met by concrete non-trivial inputs -------- *)
(* the zlib laws are satisfiable: the "stored" toy codec (stream = payload) obeys them, and the
   compressed-section theorem then yields a concrete ELF64 big-endian section *)
Definition toy_inflate (z : list Z) (n : Z) : option (list Z * bool) :=
  if n =? 0 then Some (z, true) else Some (firstn (Z.to_nat n) z, zlen z <=? n).
Example C02_ex_zlib_laws :
  (forall z p, z = p -> toy_inflate z 0 = Some (p, true)) /\
  (forall z p n, z = p -> 0 < n -> toy_inflate z n = Some (firstn (Z.to_nat n) p, zlen p <=? n)).
Proof.
  split.
  - intros z p ->. reflexivity.
  - intros z p n -> Hn. unfold toy_inflate. destruct (Z.eqb_spec n 0); [lia|reflexivity].
Qed.
Example C02_ex_compressed :
  let T := sh_type_table "EM_X86_64" in
  let body := compressed_section false true 0xdeadbeef 5 8 [10; 20; 30; 40; 50] in
  let h := mk_sheader (dec_enum T 1) 0x800 0 3 (zlen body) 1 in
  exists s, section_init ([7; 7; 7] ++ body ++ [9]) false true h = Ok s /\
            compressed s <> 0 /\ data_size s = 5 /\ data_alignment s = 8 /\
            section_data toy_inflate ([7; 7; 7] ++ body ++ [9]) false true s = Ok [10; 20; 30; 40; 50].
Proof.
  destruct C02_ex_zlib_laws as [L1 L2].
  exact (C02_data_compressed toy_inflate (fun z p => z = p) L1 L2
           (sh_type_table "EM_X86_64") 1 0x800 0 1 false true [7; 7; 7] 0xdeadbeef 8
           [10; 20; 30; 40; 50] [10; 20; 30; 40; 50] [9]
           eq_refl ltac:(discriminate) ltac:(discriminate) eq_refl eq_refl).
Qed.
(* a string of 70 bytes crossing a chunk boundary, in a table at file offset 2 *)
Example C02_ex_strtab :
  strtab_at (0 :: repeat 65 70 ++ [0; 66; 0]) 1 (repeat 65 70).
Proof. exists [0], [66; 0]. repeat split. Qed.
(* two program headers at offset 3 with entry size 60 (> 56) in an ELF64 LE image *)
Example C02_ex_phdrs :
  let h1 := mk_phdr PT_LOAD 5 0x1000 0x400000 0x400000 0x200 0x300 0x1000 in
  let h2 := mk_phdr PT_NOTE 4 0x1100 0x400100 0x400100 0x20 0x20 4 in
  let img := [1; 2; 3] ++ enc_phdr true true h1 ++ [0xaa; 0xbb; 0xcc; 0xdd] ++ enc_phdr true true h2 ++ [0xee] in
  forallb (phdr_fits true true) [h1; h2] = true /\ phdrs_at true true img 3 60 [h1; h2] = true /\
  addr_map [h1; h2] 0x400100 0x100 = [0x1100].
Proof. vm_compute. repeat split. Qed.
(* section 2 of a table at offset 5 whose entries are 47 bytes apart (ELF32, 7 bytes of padding each) *)
Example C02_ex_section_header_stride :
  let vals := shdr_vals 11 1 0x800 0x4000 0x300 0x55 3 4 16 8 in
  let img := repeat 0xee (5 + 2 * 47) ++ encode_layout (spec_Elf_Shdr true false) vals ++ [1; 2; 3] in
  fits_layout (spec_Elf_Shdr true false) vals = true /\
  section_header_at img true false (sh_type_table "EM_386") 5 47 2
  = Ok (mk_sheader (Name "SHT_PROGBITS") 0x800 0x4000 0x300 0x55 16).
Proof. vm_compute. repeat split. Qed.
(* an unmapped PT_NOTE (p_memsz = 0 < p_filesz = 3) whose header sits behind its bytes in an ELF32 BE image *)
Example C02_ex_segment_unmapped :
  let h := mk_phdr PT_NOTE 4 2 0x7000 0x9000 3 0 8 in
  let img := [9; 9] ++ [10; 20; 30] ++ [7] ++ enc_phdr false false h ++ [1] in
  phdr_fits false false h = true /\ segment_data_at img false false 6 = Ok [10; 20; 30].
Proof. vm_compute. repeat split. Qed.
(* a history on that image: the first lookup is abandoned after one item (it has not reached the
   third header), then a range lying in the LAST PT_LOAD is asked, item by item and as a list *)
Example C02_ex_history :
  let h1 := mk_phdr PT_LOAD 5 0x1000 0x400000 0x400000 0x200 0x300 0x1000 in
  let h2 := mk_phdr PT_NOTE 4 0x1100 0x400100 0x400100 0x20 0x20 4 in
  let h3 := mk_phdr PT_LOAD 6 0x2000 0x600000 0x600000 0x80 0x80 0x1000 in
  let img := [1; 2; 3] ++ enc_phdr true true h1 ++ [0xaa] ++ enc_phdr true true h2 ++ [0xbb] ++ enc_phdr true true h3 in
  let T := p_type_table "EM_X86_64" in
  let h := [EStart (KAddr 0x400010 1); ENext 0; EClose 0; EStart (KAddr 0x600000 1); ENext 1; ENext 1;
            EAll (KAddr 0x600000 1); ENext 0] in
  p_type_table_ok T = true /\ forallb (phdr_fits true true) [h1; h2; h3] = true /\
  phdrs_at true true img 3 57 [h1; h2; h3] = true /\
  elf_hist (mkEfile img true true T 3 57 3) h
  = [AUnit; AItem [0x1010]; AUnit; AUnit; AItem [0x2000]; AStop; AList [[0x2000]]; AStop].
Proof. vm_compute. repeat split. Qed.
(* a zero-size SHF_ALLOC section at the very start of a PT_NOTE segment: in the domain, and the
   rule says "not contained" (the clause pyelftools lacked) *)
Example C02_ex_containment :
  let s := mk_shdr 7 SHF_ALLOC 0x1000 0x1000 0 in
  let g := mk_phdr PT_NOTE 4 0x1000 0x1000 0x1000 0x100 0x100 4 in
  sis_domain s g = true /\ section_in_segment_strict s g = false /\
  section_in_segment_strict (mk_shdr 7 SHF_ALLOC 0x1001 0x1001 0) g = true /\
  p_type_table_ok (p_type_table "EM_AARCH64") = true /\ sh_type_table_ok (sh_type_table "EM_MIPS") = true.
Proof. vm_compute. repeat split. Qed.
