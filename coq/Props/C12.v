(* placeholder while the pipeline is brought up *)
From PV Require Import Spec.C12Spec Model.C12Expr.
Theorem C12_placeholder : True.
Proof. exact I. Qed.
Print Assumptions C12_placeholder.
Example C12_ex : True. Proof. exact I. Qed.
