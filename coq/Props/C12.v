(* Props/C12.v — property C12: DWARF expressions are split into exactly their
   operations and operands; operation names are one-to-one with opcodes.
   Only statements, closed by [exact]; proofs live in Proofs/C12Proofs.v.
   Model: Model/C12Expr.v (transliteration of dwarf/dwarf_expr.py parse_expr and the
   operand closures, common/utils.py read_blob) over Gen/C12Tables.v (the live
   DW_OP_name2opcode / DW_OP_opcode2name dicts and the live dispatch table).
   Spec: Spec/C12Spec.v (operand table of DWARF 2-5 + GNU/WASM, encoder, expected parse). *)
From PV Require Import Base.Outcome Spec.PrimSpec Spec.C12Spec Model.C12Expr Proofs.C12Proofs.
Open Scope string_scope.
Open Scope Z_scope.

(* MAIN: for every configuration DWARFStructs accepts, every list of well-formed
   operations (any length, any nesting depth, any valid LEB128 encodings, blobs of
   any length) parses to exactly opcode, name, operand values and byte offset of
   each operation, recursively for nested entry-value expressions. *)
Theorem C12_expr_roundtrip : forall c ops,
  cfg_ok c = true -> wf_ops c ops = true ->
  parse_expr c (encode_ops c ops) = Ok (annotate c ops).
Proof. exact expr_roundtrip. Qed.
Print Assumptions C12_expr_roundtrip.

(* the model's fuel (1 + len(expr)) is never the reason for the answer: any larger
   fuel gives the same result, EFuel is unreachable on the domain *)
Theorem C12_expr_roundtrip_any_fuel : forall c ops fuel,
  cfg_ok c = true -> wf_ops c ops = true -> (length (encode_ops c ops) < fuel)%nat ->
  parse_expr_fuel fuel c (encode_ops c ops) 0 = Ok (annotate c ops).
Proof. exact expr_roundtrip_fuel. Qed.
Print Assumptions C12_expr_roundtrip_any_fuel.

(* re-encoding the parsed result reproduces the input bytes (LEB128 re-encoded
   minimally, hence stated for inputs whose LEB128 operands are minimal) *)
Theorem C12_reencode : forall c ops r,
  cfg_ok c = true -> wf_ops c ops = true -> canon_ops c ops = true ->
  parse_expr c (encode_ops c ops) = Ok r -> reencode c r = encode_ops c ops.
Proof. exact reencode_parse. Qed.
Print Assumptions C12_reencode.

Theorem C12_reencode_annotate : forall c ops,
  wf_ops c ops = true -> canon_ops c ops = true ->
  reencode c (annotate c ops) = encode_ops c ops.
Proof. exact reencode_annotate. Qed.
Print Assumptions C12_reencode_annotate.

(* minimal LEB128 encodings exist for every value, so canonical inputs exist for
   every operand value *)
Theorem C12_uleb_canonical : forall v, 0 <= v -> uleb_ok (uleb_encode v) v = true.
Proof. exact uleb_canonical_ok. Qed.
Print Assumptions C12_uleb_canonical.
Theorem C12_sleb_canonical : forall v, sleb_ok (sleb_encode v) v = true.
Proof. exact sleb_canonical_ok. Qed.
Print Assumptions C12_sleb_canonical.

(* FINITE (<= 256 rows, vm_compute): the dispatch table of the live module, as
   identified by tools/gen/gen_c12.py, with the live names attached, IS the operand
   table of the standard.  Any edit of a width, signedness, operand order, opcode
   value or name in dwarf_expr.py changes Gen/C12Tables.v and breaks this proof
   (and with it C12_expr_roundtrip, which uses it). *)
Theorem C12_dispatch_matches_standard :
  map (fun '(o, ks) => (o, (opcode2name o, ks))) gen_dispatch = spec_optable.
Proof. exact dispatch_matches_standard. Qed.
Print Assumptions C12_dispatch_matches_standard.

(* FINITE (the two live dicts): on operation names (DW_OP_lo_user / DW_OP_hi_user
   are range markers, not operations) name -> opcode and opcode -> name are
   mutually inverse: names are in one-to-one correspondence with opcodes *)
Theorem C12_names_bijective : forall n o, is_marker n = false ->
  (slookup gen_DW_OP_name2opcode n = Some o <-> zlookup gen_DW_OP_opcode2name o = Some n).
Proof. exact names_bijective. Qed.
Print Assumptions C12_names_bijective.

(* FINITE: and they are exactly the names of the standard, with its opcodes *)
Theorem C12_names_match_standard : forall n o, is_marker n = false ->
  (slookup gen_DW_OP_name2opcode n = Some o <-> exists ks, spec_row o = Some (n, ks)).
Proof. exact names_match_standard. Qed.
Print Assumptions C12_names_match_standard.

(* a first byte outside the table is a KeyError (the one-operation instance of
   C12_illformed_rejected below, which covers any position and nesting depth) *)
Theorem C12_unknown_opcode : forall c opc rest,
  spec_row opc = None -> parse_expr c (opc :: rest) = Err (EPy "KeyError").
Proof. exact unknown_opcode_keyerror. Qed.
Print Assumptions C12_unknown_opcode.

(* THE OTHER HALF OF "exactly": a byte string with a byte that is not an operation in
   opcode position (BOpcode), or with an entry-value / implicit-value block announced
   longer than what is left of the enclosing expression (BTrunc), behind any well-formed
   operations and at any nesting depth (BInner), is refused -- it is never reported as
   some other sequence of operations.  [bad_err]: KeyError resp. ELFParseError. *)
Theorem C12_illformed_rejected : forall c b,
  cfg_ok c = true -> wf_bad c b = true ->
  parse_expr c (encode_bad c b) = Err (bad_err (why_of b)).
Proof. exact illformed_rejected. Qed.
Print Assumptions C12_illformed_rejected.

(* its simplest instance, the truncation clause (cf. C16_block_truncated) *)
Theorem C12_nested_truncated : forall c opc n lenc size body,
  cfg_ok c = true -> spec_row opc = Some (n, [NESTED]) ->
  uleb_ok lenc size = true -> zlen body < size ->
  parse_expr c (opc :: lenc ++ body) = Err EParse.
Proof. exact nested_truncated. Qed.
Print Assumptions C12_nested_truncated.

(* parse_expr is a function of (configuration, bytes) alone: in any sequence of calls
   the i-th answer is the expected parse of the i-th expression, whatever was parsed
   (and whatever the caller did with the results) before.  The harness observes the
   implementation under exactly this protocol (kind 'hist'). *)
Theorem C12_parse_history : forall c calls,
  cfg_ok c = true -> forallb (wf_ops c) calls = true ->
  map (fun ops => parse_expr c (encode_ops c ops)) calls =
  map (fun ops => Ok (annotate c ops)) calls.
Proof. exact parse_history. Qed.
Print Assumptions C12_parse_history.

(* ---------- non-vacuity: the hypotheses hold for concrete non-trivial inputs ---------- *)
Definition ex_cfg : cfg := mkCfg false 8 64.     (* big endian, 8-byte addresses, 64-bit DWARF *)
(* entry_value( GNU_entry_value( entry_value( breg5 -300 ; const_type <0x85> 3 bytes ) ; WASM_location 3 0xfffffffe ) ;
   implicit_pointer 2^63 -1 ) ; deref_size 0x80 ; GNU_parameter_ref ; regx 128 (non-minimal) ; implicit_value 2 bytes *)
Definition ex_inner : list sop :=
  [ SOp 0x75 [VLeb [0xd4; 0x7d] (-300)];
    SOp 0xa4 [VTyped [0x85; 0x01] 0x85 [1; 2; 3]] ].
Definition ex_ops : list sop :=
  [ SNest 0xa3 [0x1e]
      [ SNest 0xf3 [0x12] [ SNest 0xa3 [10] ex_inner; SOp 0xed [VWasmU32 0xfffffffe] ];
        SOp 0xa0 [VInt (2 ^ 63); VLeb [0x7f] (-1)] ];
    SOp 0x94 [VInt 0x80];
    SOp 0xfa [VInt 0xdeadbeef];
    SOp 0x90 [VLeb [0x80; 0x81; 0x00] 128];
    SOp 0x9e [VBlock [0x82; 0x00] [0xaa; 0xbb]] ].
Example C12_ex_wf : cfg_ok ex_cfg = true /\ wf_ops ex_cfg ex_ops = true /\
                    (46 <=? length (encode_ops ex_cfg ex_ops))%nat = true.
Proof. vm_compute. repeat split; reflexivity. Qed.
Example C12_ex_parse :
  parse_expr ex_cfg (encode_ops ex_cfg ex_ops) = Ok (annotate ex_cfg ex_ops) /\
  nth 1 (annotate ex_cfg ex_ops) (AInt 0) = POp 0x94 "DW_OP_deref_size" [AInt 128] 32.
Proof. vm_compute. split; reflexivity. Qed.
(* a canonical (minimal LEB128) input for the re-encoding corollary *)
Definition ex_canon : list sop :=
  [ SNest 0xf3 [0x09] [ SOp 0x75 [VLeb [0xd4; 0x7d] (-300)]; SOp 0xa7 [VInt 4; VLeb [0x20] 0x20];
                        SOp 0xed [VWasmLeb 1 [0x07] 7] ];
    SOp 0xa2 [VLeb [0x80; 0x01] 128] ].
Example C12_ex_canon : wf_ops ex_cfg ex_canon = true /\ canon_ops ex_cfg ex_canon = true /\
                       reencode ex_cfg (annotate ex_cfg ex_canon) = encode_ops ex_cfg ex_canon.
Proof. vm_compute. repeat split; reflexivity. Qed.

(* ill-formed inputs: a3 06 a3 04 a3 03 50 96 (depth 3, innermost block one byte short) and
   nop ; entry_value( lit0 ; 0xaa ...) *)
Definition ex_bad_trunc : bexpr :=
  BInner [] 0xa3 [6] (BInner [] 0xa3 [4] (BTrunc [] 0xa3 [3] 3 [0x50; 0x96]) []) [].
Definition ex_bad_opcode : bexpr :=
  BInner [SOp 0x96 []] 0xf3 [0x83; 0x00] (BOpcode [SOp 0x30 []] 0xaa [0x30]) [0x96].
Example C12_ex_bad :
  wf_bad ex_cfg ex_bad_trunc = true /\ encode_bad ex_cfg ex_bad_trunc = [0xa3; 6; 0xa3; 4; 0xa3; 3; 0x50; 0x96] /\
  parse_expr ex_cfg (encode_bad ex_cfg ex_bad_trunc) = Err EParse /\
  wf_bad ex_cfg ex_bad_opcode = true /\
  parse_expr ex_cfg (encode_bad ex_cfg ex_bad_opcode) = Err (EPy "KeyError").
Proof. vm_compute. repeat split; reflexivity. Qed.
