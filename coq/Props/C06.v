(* Props/C06.v — property C06: call-frame information is parsed and interpreted per
   DWARF / .eh_frame rules.  Only statements, closed by [exact]; proofs live in
   Proofs/C06GenProofs.v, C06InstrProofs.v, C06TableProofs.v, C06TableExact.v,
   C06EntriesProofs.v.
   Models: Model/C06Callframe.v (CallFrameInfo: entry scan, augmentation, pointer encodings,
   instruction splitting), Model/C06Table.v (CFIEntry._decode_CFI_table).
   Specs:  Spec/C06Instr.v (DWARF 5 6.4.2 / 7.24 instruction encoding), Spec/C06Entries.v
   (.debug_frame / .eh_frame layout), Spec/C06Cfi.v (the 6.4 reference interpreter),
   Spec/C06View.v (how a spec object is observed through the library's API types). *)
From Coq Require Import String.
From PV Require Import Base.Bytes Gen.C06Tables Spec.C06View Model.C06Dwarfinfo
     Proofs.C06GenProofs Proofs.C06TableProofs Proofs.C06TableExact Proofs.C06InstrProofs
     Proofs.C06EntriesProofs.
From Coq Require Import List.
Open Scope Z_scope.

(* ------------------------------------------------------------------ data of callframe.py *)
(* DW_CFA_* as the module sees them (globals() scan included): every name carries the value DWARF 5
   Table 7.29 or the binutils/LLVM registry gives it (a correct port of a further vendor opcode
   keeps this true, a wrong number does not) ... *)
Theorem C06_gen_DW_CFA_sound : forall n v,
  assoc_s n gen_DW_CFA = Some v -> assoc_s n spec_DW_CFA = Some v.
Proof. exact gen_DW_CFA_sound. Qed.
Print Assumptions C06_gen_DW_CFA_sound.

(* ... and every name of Table 7.29 + the GNU extensions ELF producers emit is there *)
Theorem C06_gen_DW_CFA_core : forall n v,
  assoc_s n spec_DW_CFA_core = Some v -> assoc_s n gen_DW_CFA = Some v.
Proof. exact gen_DW_CFA_core. Qed.
Print Assumptions C06_gen_DW_CFA_core.

Example C06_ex_gen : assoc_s "DW_CFA_def_cfa_sf" gen_DW_CFA = Some 0x12.
Proof. reflexivity. Qed.

(* _OPCODE_NAME_MAP names every opcode by a name the standard/registry gives that opcode ... *)
Theorem C06_gen_OPCODE_NAME_MAP_sound : forall op name,
  assocZ op gen_OPCODE_NAME_MAP = Some name -> assoc_s name spec_DW_CFA = Some op.
Proof. exact gen_OPCODE_NAME_MAP_sound. Qed.
Print Assumptions C06_gen_OPCODE_NAME_MAP_sound.

(* ... and knows every opcode of the core table *)
Theorem C06_gen_OPCODE_NAME_MAP_complete : forall name op,
  In (name, op) spec_DW_CFA_core -> exists name', assocZ op gen_OPCODE_NAME_MAP = Some name'.
Proof. exact gen_OPCODE_NAME_MAP_complete. Qed.
Print Assumptions C06_gen_OPCODE_NAME_MAP_complete.

Theorem C06_gen_masks : PRIMARY_MASK = 0xC0 /\ PRIMARY_ARG_MASK = 0x3F.
Proof. exact gen_masks. Qed.
Print Assumptions C06_gen_masks.

(* _eh_encoding_to_field = the nine DW_EH_PE value formats; the application codes *)
Theorem C06_gen_eh_formats :
  gen_eh_encoding_to_field = map (fun f => (format_code f, format_kind f)) all_formats
  /\ DW_EH_PE_absptr = 0 /\ DW_EH_PE_pcrel = DW_EH_PE_pcrel_code
  /\ DW_EH_PE_omit = DW_EH_PE_omit_code.
Proof. exact gen_eh_formats. Qed.
Print Assumptions C06_gen_eh_formats.

(* the construct trees of the three call frame header structs (walked on the live DWARFStructs for
   every byte order x format x address size) are the field lists of DWARF 5 7.24 / 6.4.1 *)
Theorem C06_gen_headers_are_spec :
  gen_Dwarf_CIE_header =
    [("length", HInitLen); ("CIE_id", HOffset); ("version", HU 1); ("augmentation", HCStr);
     ("address_size", HIfVer 4 (HU 1) HNone); ("segment_size", HIfVer 4 (HU 1) HNone);
     ("code_alignment_factor", HUleb); ("data_alignment_factor", HSleb);
     ("return_address_register", HIfVer 2 HUleb (HU 1))]%string
  /\ gen_EH_CIE_header = gen_Dwarf_CIE_header
  /\ gen_Dwarf_FDE_header =
    [("length", HInitLen); ("CIE_pointer", HOffset); ("initial_location", HAddr);
     ("address_range", HAddr)]%string.
Proof. exact gen_headers_are_spec. Qed.
Print Assumptions C06_gen_headers_are_spec.

(* ... and the hand model of those structs is the interpretation of the generated layouts, on
   ALL byte strings (so an edit of _create_callframe_entry_headers breaks a proof) *)
Theorem C06_model_CIE_header_is_gen : forall St bs,
  Dwarf_CIE_header St bs = pmap cie_header_of (parse_layout St [] gen_Dwarf_CIE_header) bs.
Proof. exact model_CIE_header_is_gen. Qed.
Print Assumptions C06_model_CIE_header_is_gen.

Theorem C06_model_FDE_header_is_gen : forall St bs,
  Dwarf_FDE_header St bs = pmap fde_header_of (parse_layout St [] gen_Dwarf_FDE_header) bs.
Proof. exact model_FDE_header_is_gen. Qed.
Print Assumptions C06_model_FDE_header_is_gen.

(* ------------------------------------------------------------------ instruction split *)
(* any well-formed instruction list (all opcodes, any valid LEB128 padding, blocks), encoded at
   any position of any stream, is split into exactly its opcodes and operands, and the cursor
   ends exactly at the end of the encoded list *)
Theorem C06_parse_instructions_at : forall le fmt asize, (asize = 4 \/ asize = 8)%nat ->
  forall is stream pos post fuel,
  zlen stream < 2 ^ 63 -> wf_instrs asize is = true ->
  cursor stream pos (encode_instrs le asize is ++ post) -> (length is < fuel)%nat ->
  parse_instructions fuel (structs_for le fmt asize) stream pos
                     (pos + zlen (encode_instrs le asize is))
  = Ok (map to_raw is, pos + zlen (encode_instrs le asize is)).
Proof. exact parse_instructions_at. Qed.
Print Assumptions C06_parse_instructions_at.

Theorem C06_instrs_roundtrip : forall le fmt asize is,
  (asize = 4 \/ asize = 8)%nat -> wf_instrs asize is = true ->
  zlen (encode_instrs le asize is) < 2 ^ 63 ->
  let bs := encode_instrs le asize is in
  parse_instructions (S (length bs)) (structs_for le fmt asize) bs 0 (zlen bs)
  = Ok (map to_raw is, zlen bs).
Proof. exact instrs_roundtrip. Qed.
Print Assumptions C06_instrs_roundtrip.

Example C06_ex_instrs :
  let is := [I_def_cfa (mkleb 7 [0x87; 0x00]) (mkleb 8 [8]); I_offset 16 (mkleb 1 [1]);
             I_advance_loc 3; I_def_cfa_sf (mkleb 7 [7]) (mkleb (-2) [0x7e]);
             I_expression (mkleb 3 [3]) (mkleb 2 [2]) [0x77; 0x08]; I_set_loc 0x11223344] in
  wf_instrs 4 is = true /\
  parse_instructions 100 (structs_for true 32 4) (encode_instrs true 4 is) 0
                     (zlen (encode_instrs true 4 is)) = Ok (map to_raw is, 20).
Proof. split; vm_compute; reflexivity. Qed.

(* ------------------------------------------------------------------ entries of a section *)
(* Every well-formed .debug_frame / .eh_frame section (Spec/C06Entries.wf_section: CIE versions
   1/3/4, 32/64-bit DWARF, address size 4/8, both byte orders, augmentations "" and z+RLPS in any
   order, the nine pointer formats absolute or pc-relative, any section address, FDEs referring
   to any CIE before or after them, zero terminators, every LEB128 padding) is parsed by the model
   of CallFrameInfo.get_entries into exactly the expected objects, in section order: kind, offset,
   header fields, augmentation dict and bytes, pc-relative initial location, address range, LSDA
   pointer, split instructions, entry structs, and the FDE's cie object = the object of the CIE
   its pointer designates. *)
Theorem C06_entries_roundtrip : forall s,
  wf_section s = true -> get_entries (cfi_of s) = Ok (expected_entries s).
Proof. exact entries_roundtrip. Qed.
Print Assumptions C06_entries_roundtrip.

(* entry number k is reported at position k as the view of that entry at its offset ... *)
Theorem C06_expected_entries_nth : forall s k e, nth_error (s_entries s) k = Some e ->
  nth_error (expected_entries s) k = Some (view_entry s (entry_offset_of s k) e).
Proof. exact expected_entries_nth. Qed.
Print Assumptions C06_expected_entries_nth.

(* ... and get_decoded of that object shows the table section 6.4 gives the entry (CIE: its
   initial instructions; FDE: from its CIE's rules at the pointer-decoded initial location) *)
Theorem C06_section_tables : forall s k e t,
  wf_section s = true -> nth_error (s_entries s) k = Some e ->
  expected_table s (entry_offset_of s k) e = Some t ->
  entry_domain s (entry_offset_of s k) e = true ->
  result_matches (get_decoded (view_entry s (entry_offset_of s k) e)) t.
Proof. exact section_tables. Qed.
Print Assumptions C06_section_tables.

(* The public entry points: ONE DWARFInfo holding a .debug_frame and an .eh_frame section.  Whatever
   the descriptive name / global_offset fields of the two DebugSectionDescriptors are (equal,
   None, swapped), CFI_entries() returns the entries of the .debug_frame section and
   EH_CFI_entries() those of the .eh_frame section ... *)
Theorem C06_dwarfinfo_entries : forall sd se nd ne gd ge,
  s_eh sd = false -> s_eh se = true -> s_le sd = s_le se -> s_asize sd = s_asize se ->
  wf_section sd = true -> wf_section se = true ->
  let di := mkdwarfinfo (Some (desc_of nd gd sd)) (Some (desc_of ne ge se))
                        (mkstructs (s_le sd) 32 (Z.of_nat (s_asize sd))) in
  CFI_entries di = Ok (expected_entries sd) /\ EH_CFI_entries di = Ok (expected_entries se).
Proof. exact dwarfinfo_entries. Qed.
Print Assumptions C06_dwarfinfo_entries.

(* ... in every history of calls on that object, in any order, repeated or not *)
Theorem C06_dwarfinfo_calls : forall sd se nd ne gd ge calls,
  s_eh sd = false -> s_eh se = true -> s_le sd = s_le se -> s_asize sd = s_asize se ->
  wf_section sd = true -> wf_section se = true ->
  cfi_calls (mkdwarfinfo (Some (desc_of nd gd sd)) (Some (desc_of ne ge se))
                         (mkstructs (s_le sd) 32 (Z.of_nat (s_asize sd)))) calls
  = map (fun eh : bool => Ok (expected_entries (if eh then se else sd))) calls.
Proof. exact dwarfinfo_calls. Qed.
Print Assumptions C06_dwarfinfo_calls.

Example C06_ex_dwarfinfo :
  let cie := mkscie false 3 None (mkleb 4 [4]) (mkleb (-8) [0x78]) (mkleb 16 [16])
               [I_def_cfa (mkleb 7 [7]) (mkleb 8 [8])] in
  let ecie := mkscie false 1 (Some (mkleb 1 [1], [AugR PSdata4 true])) (mkleb 1 [1])
                (mkleb (-8) [0x78]) (mkleb 16 [16]) [I_def_cfa (mkleb 7 [7]) (mkleb 8 [8])] in
  let sd := mkssection false true 8 0 [SCie cie] in
  let se := mkssection true true 8 0x500000 [SCie ecie; SZero] in
  let di := mkdwarfinfo (Some (desc_of None 0 sd)) (Some (desc_of None 0 se)) (mkstructs true 32 8) in
  wf_section sd = true /\ wf_section se = true /\
  map (fun r => match r with Ok l => Z.of_nat (List.length l) | Err _ => -1 end)
      (cfi_calls di [true; false; true]) = [2; 1; 2].
Proof. vm_compute. repeat split; reflexivity. Qed.

(* non-vacuity: gcc's "zPLR" CIE (personality udata4|indirect-ish high bits 9, LSDA and FDE
   addresses pc-relative sdata4), an FDE with an LSDA pointer, a terminator; the FDE's
   initial location is -0x29e relative to its own field at 0x400000 + 0x20 + 8 *)
Example C06_ex_eh_frame :
  let cie := mkscie false 1
               (Some (mkleb 7 [7], [AugP 9 PSdata4 (mkleb 0x20133d []); AugL (Some (PSdata4, true));
                                    AugR PSdata4 true]))
               (mkleb 1 [1]) (mkleb (-8) [0x78]) (mkleb 16 [16])
               [I_def_cfa (mkleb 7 [7]) (mkleb 8 [8]); I_offset 16 (mkleb 1 [1]); I_nop; I_nop] in
  let fde := mksfde false 0 (mkleb (-0x29e) []) (mkleb 0x89 []) (mkleb 4 [4]) (mkleb 0xb7 [])
               [I_advance_loc 1; I_def_cfa_offset (mkleb 16 [16]); I_offset 6 (mkleb 2 [2])] in
  let s := mkssection true true 8 0x400000 [SCie cie; SFde fde; SZero] in
  wf_section s = true /\ zlen (encode_section s) = 62 /\
  (match nth_error (expected_entries s) 1 with
  | Some (FDE h _ off _ cie ab lsda) =>
      Some (off, entry_offset cie, fh_CIE_pointer h, fh_initial_location h, ab, lsda)
  | _ => None
  end) = Some (0x20, 0, 0x24, 0x400000 + 0x28 - 0x29e, [0xb7; 0; 0; 0],
              Some (0x400000 + 0x31 + 0xb7)).
Proof. vm_compute. repeat split; reflexivity. Qed.

(* non-vacuity: .debug_frame, big-endian, two FDEs BEFORE their 64-bit version-4 CIE *)
Example C06_ex_debug_frame :
  let cie := mkscie true 4 None (mkleb 4 [0x84; 0]) (mkleb (-4) [0x7c]) (mkleb 14 [14])
               [I_def_cfa (mkleb 13 [13]) (mkleb 0 [0x80; 0])] in
  let fde1 := mksfde false 2 (mkleb 0x1000 []) (mkleb 0x20 []) (mkleb 0 []) (mkleb 0 [])
                [I_advance_loc 2; I_def_cfa_offset (mkleb 12 [12]); I_set_loc 0x1010] in
  let fde2 := mksfde true 2 (mkleb 0x2000 []) (mkleb 0x10 []) (mkleb 0 []) (mkleb 0 []) [I_nop] in
  let s := mkssection false false 4 0 [SFde fde1; SFde fde2; SCie cie] in
  wf_section s = true /\
  map entry_offset (expected_entries s) = [0; 24; 53] /\
  (match nth_error (expected_entries s) 0 with
  | Some (FDE h _ _ _ (CIE ch _ coff _ _ _) _ _) =>
      Some (fh_CIE_pointer h, coff, ch_version ch, ch_address_size ch)
  | _ => None
  end) = Some (53, 53, 4, Some 4).
Proof. vm_compute. repeat split; reflexivity. Qed.

(* ------------------------------------------------------------------ tables *)
(* The model of _decode_CFI_table on a CIE computes the table of the section 6.4 reference
   interpreter: for ALL instruction lists and alignment factors (operands unbounded), whenever
   the standard gives a table and its last row carries a rule (cie_domain; see the refutation) *)
Theorem C06_table_equal_cie : forall caf daf cis t,
  low6_all cis = true ->
  cfi_spec_cie caf daf cis = Some t -> cie_domain caf daf cis = true ->
  result_matches (decode_cie caf daf (map to_raw cis)) t.
Proof. exact table_equal_cie. Qed.
Print Assumptions C06_table_equal_cie.

(* the same for an FDE: rows start from the CIE's initial rules at initial_location, restore
   goes back to them, remember/restore_state, both factors *)
Theorem C06_table_equal_fde : forall caf daf cis loc fis t,
  low6_all cis = true -> low6_all fis = true ->
  cfi_spec_fde caf daf cis loc fis = Some t -> fde_domain caf daf cis loc fis = true ->
  result_matches (decode_fde caf daf (map to_raw cis) loc (map to_raw fis)) t.
Proof. exact table_equal_fde. Qed.
Print Assumptions C06_table_equal_fde.

(* full strength fails: the row closed by the end of the stream is dropped when it carries no
   rule (known finding table/final-row-without-rules-dropped) *)
Theorem C06_table_cie_refuted : exists caf daf cis t,
  low6_all cis = true /\ cfi_spec_cie caf daf cis = Some t /\
  ~ result_matches (decode_cie caf daf (map to_raw cis)) t.
Proof. exact table_cie_refuted. Qed.
Print Assumptions C06_table_cie_refuted.

Theorem C06_table_fde_refuted : exists caf daf cis loc fis t,
  low6_all cis = true /\ low6_all fis = true /\
  cfi_spec_fde caf daf cis loc fis = Some t /\
  ~ result_matches (decode_fde caf daf (map to_raw cis) loc (map to_raw fis)) t.
Proof. exact table_fde_refuted. Qed.
Print Assumptions C06_table_fde_refuted.

(* the exact extent of that finding, for ALL instruction lists and factors (no domain): the
   model's table is the 6.4 table with at most the rule-less final row missing *)
Theorem C06_table_exact_cie : forall caf daf cis t,
  low6_all cis = true -> cfi_spec_cie caf daf cis = Some t ->
  result_matches (decode_cie caf daf (map to_raw cis)) (drop_ruleless_last t).
Proof. exact table_exact_cie. Qed.
Print Assumptions C06_table_exact_cie.

(* for an FDE: whenever the CIE's initial instructions end in a row with a rule or never create a
   row (cie_closed; every CIE a compiler emits) *)
Theorem C06_table_exact_fde : forall caf daf cis loc fis t,
  low6_all cis = true -> low6_all fis = true ->
  cfi_spec_fde caf daf cis loc fis = Some t -> cie_closed caf daf cis = true ->
  result_matches (decode_fde caf daf (map to_raw cis) loc (map to_raw fis)) (drop_ruleless_last t).
Proof. exact table_exact_fde. Qed.
Print Assumptions C06_table_exact_fde.

Theorem C06_drop_nothing : forall t, last_row_has_rule t = true -> drop_ruleless_last t = t.
Proof. exact drop_nothing. Qed.
Print Assumptions C06_drop_nothing.

Example C06_ex_table_exact :
  cie_closed 1 1 [I_nop] = true /\
  option_map (fun t => map row_loc (t_rows (drop_ruleless_last t)))
             (cfi_spec_fde 1 1 [I_nop] 4096 [I_advance_loc 1; I_nop]) = Some [4096] /\
  option_map (fun t => map row_loc (t_rows t))
             (cfi_spec_fde 1 1 [I_nop] 4096 [I_advance_loc 1; I_nop]) = Some [4096; 4097].
Proof. repeat split; reflexivity. Qed.

(* sequences the standard calls invalid: no table in the spec, an exception in the model *)
Theorem C06_restore_state_underflow : forall caf daf,
  cfi_spec_cie caf daf [I_restore_state] = None /\
  decode_cie caf daf (map to_raw [I_restore_state]) = Err (EPy "IndexError").
Proof. exact restore_state_underflow. Qed.
Print Assumptions C06_restore_state_underflow.

Theorem C06_restore_in_cie : forall caf daf r, 0 <= r < 64 ->
  cfi_spec_cie caf daf [I_restore r] = None /\
  decode_cie caf daf (map to_raw [I_restore r]) = Err EDwarf.
Proof. exact restore_in_cie. Qed.
Print Assumptions C06_restore_in_cie.

(* get_decoded of the objects a section yields is decode_cie / decode_fde of their lists *)
Theorem C06_get_decoded_view_cie : forall s off c,
  get_decoded (view_cie s off c) =
  decode_cie (lv (c_caf c)) (lv (c_daf c)) (map to_raw (c_instrs c)).
Proof. exact get_decoded_view_cie. Qed.
Print Assumptions C06_get_decoded_view_cie.

Theorem C06_get_decoded_view_fde : forall s off f,
  let c := cie_at (s_entries s) (f_cie f) in
  get_decoded (view_fde s off f) =
  decode_fde (lv (c_caf c)) (lv (c_daf c)) (map to_raw (c_instrs c))
             (ptr_meaning (fde_pcrel (s_eh s) c) (s_addr s) (loc_field_off off f) (lv (f_loc f)))
             (map to_raw (f_instrs f)).
Proof. exact get_decoded_view_fde. Qed.
Print Assumptions C06_get_decoded_view_fde.

(* non-vacuity: DESIGN 5's example — def_cfa_sf r7,-2 under factors (4,-8) gives CFA r7+16 —
   and an FDE using restore, remember/restore_state and both factors is inside fde_domain *)
Example C06_ex_table_cie :
  let cis := [I_def_cfa_sf (mkleb 7 [7]) (mkleb (-2) [0x7e])] in
  cie_domain 4 (-8) cis = true /\
  cfi_spec_cie 4 (-8) cis = Some (mktable [mkrow 0 (CfaRegOff 7 16) []] []).
Proof. split; reflexivity. Qed.

Example C06_ex_table_fde :
  let cis := [I_def_cfa (mkleb 7 [7]) (mkleb 8 [8]); I_offset 16 (mkleb 1 [1])] in
  let fis := [I_advance_loc 1; I_def_cfa_offset (mkleb 16 [16]); I_offset 6 (mkleb 2 [2]);
              I_remember_state; I_advance_loc1 9; I_restore 16; I_def_cfa_offset_sf (mkleb (-3) [0x7d]);
              I_advance_loc 2; I_restore_state] in
  fde_domain 4 (-8) cis 0x1000 fis = true /\
  option_map (fun t => map row_loc (t_rows t)) (cfi_spec_fde 4 (-8) cis 0x1000 fis)
  = Some [0x1000; 0x1004; 0x1028; 0x1030].
Proof. split; vm_compute; reflexivity. Qed.
