(* Props/C06.v — property C06 (preliminary: table data only; extended below as proofs land) *)
From PV Require Import Base.Bytes Gen.C06Tables Spec.C06Instr Spec.C06Entries Model.C06Callframe
     Proofs.C06GenProofs.
From Coq Require Import String.
Open Scope Z_scope.

Theorem C06_gen_DW_CFA_is_spec : forall n, assoc_s n gen_DW_CFA = assoc_s n spec_DW_CFA.
Proof. exact gen_DW_CFA_is_spec. Qed.
Print Assumptions C06_gen_DW_CFA_is_spec.

Example C06_ex_gen : assoc_s "DW_CFA_def_cfa_sf" gen_DW_CFA = Some 0x12.
Proof. reflexivity. Qed.
