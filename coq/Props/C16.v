(* Props/C16.v — property C16: primitive decoders invert the standard encodings
   and consume exact lengths.  Only statements, closed by [exact]; proofs live in
   Proofs/PrimProofs.v.  Models: Base/Prim.v (transliteration of
   common/construct_utils.py, common/utils.py, construct FormatField/CString/
   PrefixedArray, dwarf/structs.py _InitialLengthAdapter). *)
From PV Require Import Base.Bytes Base.Outcome Base.Prim Spec.PrimSpec Proofs.PrimProofs Gen.PyFuns Gen.C16Prims Proofs.PyFunsC16 Model.C16Run.

(* every valid ULEB128 encoding, minimal or not, any length, any following bytes *)
Theorem C16_uleb_valid : forall bs v tail,
  uleb_valid bs v -> uleb_decode (bs ++ tail) = Some (v, tail).
Proof. exact uleb_decode_valid. Qed.
Print Assumptions C16_uleb_valid.

(* every strict prefix of a valid encoding is a parse error *)
Theorem C16_uleb_truncated : forall bs v p q,
  uleb_valid bs v -> bs = p ++ q -> q <> [] -> uleb_decode p = None.
Proof. exact uleb_decode_truncated. Qed.
Print Assumptions C16_uleb_truncated.

(* on ALL byte strings the decoder equals the arithmetic reading of the standard *)
Theorem C16_uleb_total : forall bs, all_bytes bs = true -> uleb_decode bs = uleb_spec bs.
Proof. exact uleb_decode_total. Qed.
Print Assumptions C16_uleb_total.

Theorem C16_uleb_inhabited : forall v, 0 <= v -> uleb_valid (uleb_encode v) v.
Proof. exact uleb_encode_valid. Qed.
Print Assumptions C16_uleb_inhabited.

Theorem C16_sleb_valid : forall bs v tail,
  sleb_valid bs v -> sleb_decode (bs ++ tail) = Some (v, tail).
Proof. exact sleb_decode_valid. Qed.
Print Assumptions C16_sleb_valid.

Theorem C16_sleb_truncated : forall bs v p q,
  sleb_valid bs v -> bs = p ++ q -> q <> [] -> sleb_decode p = None.
Proof. exact sleb_decode_truncated. Qed.
Print Assumptions C16_sleb_truncated.

Theorem C16_sleb_total : forall bs, all_bytes bs = true -> sleb_decode bs = sleb_spec bs.
Proof. exact sleb_decode_total. Qed.
Print Assumptions C16_sleb_total.

(* ---- the same for the decoders TRANSLATED from the live Python source on every run
   (Gen/PyFuns.v gen_ULEB128_parse / gen_SLEB128_parse, by tools/gen/pyast.py: the `while True`
   loop reading one byte per iteration becomes a structural Fixpoint over the unread bytes).
   First: the translated code equals the hand model on EVERY byte string; then the three theorems. *)
Theorem C16_translated_uleb_is_model : forall bs, gen_ULEB128_parse bs = res_of_dec (uleb_decode bs).
Proof. exact gen_uleb_is_model. Qed.
Print Assumptions C16_translated_uleb_is_model.

Theorem C16_translated_sleb_is_model : forall bs, gen_SLEB128_parse bs = res_of_dec (sleb_decode bs).
Proof. exact gen_sleb_is_model. Qed.
Print Assumptions C16_translated_sleb_is_model.

Theorem C16_translated_uleb_valid : forall bs v tail,
  uleb_valid bs v -> gen_ULEB128_parse (bs ++ tail) = Ok (v, tail).
Proof. exact gen_uleb_valid. Qed.
Print Assumptions C16_translated_uleb_valid.

Theorem C16_translated_uleb_truncated : forall bs v p q,
  uleb_valid bs v -> bs = p ++ q -> q <> [] -> gen_ULEB128_parse p = Err EParse.
Proof. exact gen_uleb_truncated. Qed.
Print Assumptions C16_translated_uleb_truncated.

Theorem C16_translated_uleb_total : forall bs,
  all_bytes bs = true -> gen_ULEB128_parse bs = res_of_dec (uleb_spec bs).
Proof. exact gen_uleb_total. Qed.
Print Assumptions C16_translated_uleb_total.

Theorem C16_translated_sleb_valid : forall bs v tail,
  sleb_valid bs v -> gen_SLEB128_parse (bs ++ tail) = Ok (v, tail).
Proof. exact gen_sleb_valid. Qed.
Print Assumptions C16_translated_sleb_valid.

Theorem C16_translated_sleb_truncated : forall bs v p q,
  sleb_valid bs v -> bs = p ++ q -> q <> [] -> gen_SLEB128_parse p = Err EParse.
Proof. exact gen_sleb_truncated. Qed.
Print Assumptions C16_translated_sleb_truncated.

Theorem C16_translated_sleb_total : forall bs,
  all_bytes bs = true -> gen_SLEB128_parse bs = res_of_dec (sleb_spec bs).
Proof. exact gen_sleb_total. Qed.
Print Assumptions C16_translated_sleb_total.

(* ---- the named integer fields of the struct factories (DWARFStructs Dwarf_uintN/intN/offset/length/
   target_addr over every byte order x DWARF format x address size; ELFStructs Elf_half/word/... over
   every byte order x class), read from the LIVE objects on every run (Gen/C16Prims.v), are the
   fields of the standards: signedness, width and byte order, for ALL configurations (finite, complete) *)
Theorem C16_gen_dwarf_prims_standard :
  gen_dwarf_prims = map (fun c => (c, spec_dwarf_prims (fst (fst c)) (snd (fst c)) (snd c))) all_dwarf_cfgs.
Proof. vm_compute. reflexivity. Qed.
Print Assumptions C16_gen_dwarf_prims_standard.

Theorem C16_gen_elf_prims_standard :
  gen_elf_prims = map (fun c => (c, spec_elf_prims (fst c) (snd c))) all_elf_cfgs.
Proof. vm_compute. reflexivity. Qed.
Print Assumptions C16_gen_elf_prims_standard.

(* the size the library REPORTS for the initial length (initial_length_field_size, used to step from
   unit to unit) is the size the decoder consumes: 4 / 12, for every configuration *)
Theorem C16_gen_initlen_field_size_standard :
  gen_initlen_field_size = map (fun c => (c, spec_initlen_field_size (snd (fst c)))) all_dwarf_cfgs.
Proof. vm_compute. reflexivity. Qed.
Print Assumptions C16_gen_initlen_field_size_standard.

Theorem C16_initlen_reported_size_is_consumed : forall le len is64,
  initial_length_wf len is64 = true ->
  Z.of_nat (List.length (initial_length_encode le len is64)) = spec_initlen_field_size (if is64 then 64 else 32).
Proof. exact initial_length_encode_size. Qed.
Print Assumptions C16_initlen_reported_size_is_consumed.

(* fixed-width integers, both byte orders, any width *)
Theorem C16_uint_valid : forall le n v tail,
  0 <= v < 2 ^ (8 * Z.of_nat n) ->
  uint_decode le n (int_encode le n v ++ tail) = Some (v, tail).
Proof. exact uint_decode_valid. Qed.
Print Assumptions C16_uint_valid.

Theorem C16_sint_valid : forall le n v tail,
  (0 < n)%nat -> - (2 ^ (8 * Z.of_nat n) / 2) <= v < 2 ^ (8 * Z.of_nat n) / 2 ->
  sint_decode_n le n (int_encode le n v ++ tail) = Some (v, tail).
Proof. exact sint_decode_valid. Qed.
Print Assumptions C16_sint_valid.

Theorem C16_uint_truncated : forall le n bs,
  (length bs < n)%nat -> uint_decode le n bs = None.
Proof. exact uint_decode_truncated. Qed.
Print Assumptions C16_uint_truncated.

Theorem C16_sint_truncated : forall le n bs,
  (length bs < n)%nat -> sint_decode_n le n bs = None.
Proof. exact sint_decode_truncated. Qed.
Print Assumptions C16_sint_truncated.

(* 24-bit integers: the ">BH" / "<HB" composition equals the plain 3-byte integer *)
Theorem C16_u24_valid : forall le v tail,
  0 <= v < 2 ^ 24 -> u24_decode le (int_encode le 3 v ++ tail) = Some (v, tail).
Proof. exact u24_decode_valid. Qed.
Print Assumptions C16_u24_valid.

Theorem C16_u24_truncated : forall le bs, (length bs < 3)%nat -> u24_decode le bs = None.
Proof. exact u24_decode_truncated. Qed.
Print Assumptions C16_u24_truncated.

(* NUL-terminated strings, construct's byte-at-a-time reader *)
Theorem C16_cstring_valid : forall s tail,
  no_nul s = true -> cstring_decode (cstring_encode s ++ tail) = Some (s, tail).
Proof. exact cstring_decode_valid. Qed.
Print Assumptions C16_cstring_valid.

Theorem C16_cstring_unterminated : forall s, no_nul s = true -> cstring_decode s = None.
Proof. exact cstring_decode_unterminated. Qed.
Print Assumptions C16_cstring_unterminated.

(* NUL-terminated strings, the 64-byte chunked reader: any length, any start offset,
   wherever the chunk boundaries fall *)
Theorem C16_chunked_cstring_valid : forall pre s tail,
  no_nul s = true -> parse_cstring_at (pre ++ s ++ 0 :: tail) (length pre) = Some s.
Proof. exact parse_cstring_at_valid. Qed.
Print Assumptions C16_chunked_cstring_valid.

Theorem C16_chunked_cstring_unterminated : forall pre s,
  no_nul s = true -> parse_cstring_at (pre ++ s) (length pre) = None.
Proof. exact parse_cstring_at_unterminated. Qed.
Print Assumptions C16_chunked_cstring_unterminated.

(* length-prefixed blocks over any length decoder that inverts its encoding *)
Theorem C16_block_valid : forall (len : dec Z) lenc payload tail,
  (forall t, len (lenc ++ t) = Some (zlen payload, t)) ->
  block_decode len (lenc ++ payload ++ tail) = Some (payload, tail).
Proof. exact block_decode_valid. Qed.
Print Assumptions C16_block_valid.

Theorem C16_block_truncated : forall (len : dec Z) lenc n short,
  len (lenc ++ short) = Some (n, short) -> (length short < Z.to_nat n)%nat ->
  block_decode len (lenc ++ short) = None.
Proof. exact block_decode_truncated. Qed.
Print Assumptions C16_block_truncated.

(* terminator-delimited arrays *)
Theorem C16_repeat_until_valid : forall A (d : dec A) stop enc xs term tail fuel,
  (forall x t, d (enc x ++ t) = Some (x, t)) ->
  forallb (fun x => negb (stop x)) xs = true -> stop term = true ->
  (length xs < fuel)%nat ->
  repeat_until fuel d stop (concat (map enc xs) ++ enc term ++ tail) = Some (xs, tail).
Proof. exact @repeat_until_valid. Qed.
Print Assumptions C16_repeat_until_valid.

(* a missing terminator is a parse error wherever the data ends: exactly on an element boundary (the
   empty input included) ... *)
Theorem C16_repeat_until_unterminated : forall A (d : dec A) (stop : A -> bool) enc xs fuel,
  (forall x t, d (enc x ++ t) = Some (x, t)) -> d [] = None ->
  forallb (fun x => negb (stop x)) xs = true ->
  repeat_until fuel d stop (concat (map enc xs)) = None.
Proof. exact repeat_until_unterminated. Qed.
Print Assumptions C16_repeat_until_unterminated.

(* ... or inside an element *)
Theorem C16_repeat_until_cut_inside : forall A (d : dec A) (stop : A -> bool) enc xs cut fuel,
  (forall x t, d (enc x ++ t) = Some (x, t)) -> d cut = None ->
  forallb (fun x => negb (stop x)) xs = true ->
  repeat_until fuel d stop (concat (map enc xs) ++ cut) = None.
Proof. exact repeat_until_cut_inside. Qed.
Print Assumptions C16_repeat_until_cut_inside.

(* DWARF initial length: every 32-bit length below 0xfffffff0 and every escaped
   64-bit length is accepted with the right format flag; reserved escapes rejected *)
Theorem C16_initial_length_valid : forall le len is64 tail,
  initial_length_wf len is64 = true ->
  initial_length_decode le (initial_length_encode le len is64 ++ tail) = Some ((len, is64), tail).
Proof. exact initial_length_valid. Qed.
Print Assumptions C16_initial_length_valid.

Theorem C16_initial_length_reserved : forall le first tail,
  initial_length_reserved first = true ->
  initial_length_decode le (int_encode le 4 first ++ tail) = None.
Proof. exact initial_length_reserved_rejected. Qed.
Print Assumptions C16_initial_length_reserved.

Theorem C16_initial_length_truncated : forall le bs,
  (length bs < 4)%nat -> initial_length_decode le bs = None.
Proof. exact initial_length_truncated. Qed.
Print Assumptions C16_initial_length_truncated.

Theorem C16_initial_length_truncated64 : forall le bs,
  (length bs < 8)%nat -> initial_length_decode le (int_encode le 4 0xffffffff ++ bs) = None.
Proof. exact initial_length_truncated64. Qed.
Print Assumptions C16_initial_length_truncated64.

(* what the driver runs for blocks (announced length compared with what is left before counting) is the model *)
Theorem C16_block_run_is_model : forall (len : dec Z) bs, block_decode_run len bs = block_decode len bs.
Proof. exact block_decode_run_eq. Qed.
Print Assumptions C16_block_run_is_model.

(* non-vacuity: hypotheses are met by concrete non-trivial inputs *)
Example C16_ex_nonminimal : uleb_valid [0x80; 0x81; 0x00] 128.
Proof. change 128 with ((0x80 - 128) + 128 * ((0x81 - 128) + 128 * 0)).
       repeat constructor; lia. Qed.
Example C16_ex_sleb_neg : sleb_valid [0x80; 0x7f] (-128).
Proof. change (-128) with ((0x80 - 128) + 128 * (0x7f - 128)). repeat constructor; lia. Qed.
Example C16_ex_initlen : initial_length_wf 0xffffff42 false = true /\ initial_length_reserved 0xfffffff3 = true.
Proof. split; reflexivity. Qed.
