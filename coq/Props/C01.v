(* Props/C01.v — property C01: ELF file, section and program headers are decoded exactly as
   encoded.  Only statements, closed by [exact]; proofs live in Proofs/C01*.v.

   Model  : Model/C01ElfFile.v — transliteration of elffile.py (ELFFile.__init__, _identify_file,
            _parse_elf_header, num_sections, num_segments, get_shstrndx, _get_section_header,
            _get_segment_header, _get_section_name, _make_section, _make_segment, get_section,
            get_segment, iter_sections, iter_segments, _make_section_name_map, get_section_index,
            has_section, get_section_by_name) with the constructors of the section/segment classes
            that run at creation time.  Record layouts, Enum bindings and dictionaries, the
            machine -> sh_type/p_type dictionary maps, SHF_COMPRESSED/SHN_XINDEX and the bodies of
            _section_offset/_segment_offset are REGENERATED from the live code (Gen/ElfLayouts.v,
            Gen/Tables.v, Gen/PyFuns.v).
   Meaning: Spec/C01Image.v — an abstract image [s] (class, byte order, every header field, sections
            with names, segments, name-table index) and the boolean predicate [wf_image img s]:
            the BYTES img carry s — file header at 0, section header i at e_shoff + i*e_shentsize,
            program header j at e_phoff + j*e_phentsize, entry sizes >= the gABI sizes, counts and
            name-table index direct or through the three extended-numbering escapes, names
            NUL-terminated in the designated string table, and what each specialised section
            object needs in order to exist.  img is otherwise an ARBITRARY byte list: tables
            anywhere, any filler.
   The theorems quantify over ALL img, s with wf_image img s = true (both classes, both byte
   orders, every e_machine / OS ABI value, any counts). *)
From Coq Require Import String.
From PV Require Import Base.Bytes Base.Outcome Base.Fmt Base.Enum Base.PyData.
From PV Require Import Gen.ElfLayouts Spec.ElfGabi Spec.C01Obs Spec.C01Image Model.C01ElfFile.
From PV Require Import Model.C01History Spec.C01History Proofs.C01History.
From PV Require Import Spec.C01Machines.
From PV Require Import Proofs.C01Lemmas Proofs.C01Open Proofs.C01Sections Proofs.C01Iter
  Proofs.C01Dispatch Proofs.C01Machines Proofs.C01Top Proofs.C01Examples Proofs.C01HashTie.
From PV Require Import Gen.C09Hash.
Open Scope string_scope.
Open Scope list_scope.
Open Scope Z_scope.

(* ---- 1. the record layouts walked from the live construct trees are the gABI tables *)
Theorem C01_gen_layouts_match_gabi : forall le is64,
  gen_Elf_Ehdr le is64 = spec_Elf_Ehdr le is64 /\
  gen_Elf_Shdr le is64 = spec_Elf_Shdr le is64 /\
  gen_Elf_Phdr le is64 = spec_Elf_Phdr le is64.
Proof. exact gen_layouts_match_gabi. Qed.
Print Assumptions C01_gen_layouts_match_gabi.

(* ---- 1b. the one machine-dependent layout: the wide SysV hash table (ELF64 Alpha / s390x psABIs) and the
   (machine, class) pairs that use it are the ones tabulated from the live struct factories for every
   machine name, class and byte order (Gen/C09Hash.v) *)
Theorem C01_hash_layout_translated : forall le is64 m,
  Elf_Hash_wide le = gen_Elf_Hash_wide le /\
  hash_is_wide is64 m
  = existsb (fun p => String.eqb (fst p) (machine_key m) && Bool.eqb (snd p) is64) gen_hash_wide.
Proof. exact (fun le is64 m => conj (Elf_Hash_wide_translated le) (hash_is_wide_translated is64 m)). Qed.
Print Assumptions C01_hash_layout_translated.

(* ---- 2. ELFFile(stream) succeeds; class, byte order and EVERY file-header field are the encoded
   ones (enum fields by name or raw integer, see 9) *)
Theorem C01_ehdr_exact : forall img s, wf_image img s = true ->
  exists ef, elf_open img = Ok ef /\
    c_img (ef_core ef) = img /\ c_is64 (ef_core ef) = i_is64 s /\ c_le (ef_core ef) = i_le s /\
    c_hdr (ef_core ef) = exp_ehdr s.
Proof. exact open_exact. Qed.
Print Assumptions C01_ehdr_exact.

(* section header i, for every i below the count, any table offset, any entry size >= standard *)
Theorem C01_shdr_at_exact : forall img s ef i x, wf_image img s = true -> elf_open img = Ok ef ->
  nth_sec s i = Some x -> get_section_header (ef_core ef) i = Ok (Some (exp_shdr s (snd x))).
Proof. exact shdr_at_exact. Qed.
Print Assumptions C01_shdr_at_exact.

(* program header j likewise *)
Theorem C01_phdr_at_exact : forall img s ef j p, wf_image img s = true -> elf_open img = Ok ef ->
  nth_seg s j = Some p -> get_segment_header (ef_core ef) j = Ok (exp_phdr s p).
Proof. exact phdr_at_exact. Qed.
Print Assumptions C01_phdr_at_exact.

(* ---- 3. counts and name-table index, including e_shnum = 0 / PN_XNUM / SHN_XINDEX *)
Theorem C01_counts_exact : forall img s ef, wf_image img s = true -> elf_open img = Ok ef ->
  num_sections ef = Ok (n_sections s) /\ num_segments ef = Ok (n_segments s) /\
  get_shstrndx (ef_core ef) = Ok (i_shstrndx s).
Proof. exact counts_exact. Qed.
Print Assumptions C01_counts_exact.

(* the thresholds of the three escapes, explicit: what a well-formed image's header fields look
   like.  SHN_LORESERVE = 0xff00 for the section count and the name-table index, PN_XNUM = 0xffff
   for the segment count (so 0xff00..0xfffe segments are carried by e_phnum itself); from the
   threshold on the escape (0 / 0xffff / 0xffff + section header 0) is the only encoding.
   With C01_counts_exact: in each of these cases the reported count is the encoded one. *)
Theorem C01_escape_thresholds : forall img s, wf_image img s = true ->
  let e := i_ehdr s in
  (0 < n_sections s -> n_sections s < 0xff00 ->
     e_shnum e = n_sections s \/ (e_shnum e = 0 /\ sh_size (sec0 s) = n_sections s)) /\
  (0xff00 <= n_sections s -> e_shnum e = 0 /\ sh_size (sec0 s) = n_sections s) /\
  (0 < n_segments s -> n_segments s < 0xffff ->
     e_phnum e = n_segments s \/ (e_phnum e = 0xffff /\ sh_info (sec0 s) = n_segments s)) /\
  (0xffff <= n_segments s -> e_phnum e = 0xffff /\ sh_info (sec0 s) = n_segments s) /\
  (0 < n_sections s -> i_shstrndx s < 0xff00 ->
     e_shstrndx e = i_shstrndx s \/ (e_shstrndx e = 0xffff /\ sh_link (sec0 s) = i_shstrndx s)) /\
  (0xff00 <= i_shstrndx s -> e_shstrndx e = 0xffff /\ sh_link (sec0 s) = i_shstrndx s).
Proof. exact escape_thresholds. Qed.
Print Assumptions C01_escape_thresholds.

(* ---- 4. names (C16's C-string theorem), objects, enumeration in file order, type filter *)
Theorem C01_names_exact : forall img s ef i x, wf_image img s = true -> elf_open img = Ok ef ->
  nth_sec s i = Some x -> get_section_name ef (Some (exp_shdr s (snd x))) = Ok (fst x).
Proof. exact names_exact. Qed.
Print Assumptions C01_names_exact.

(* get_section(i): name, every header field, and the specialised object kind *)
Theorem C01_section_exact : forall img s ef i x, wf_image img s = true -> elf_open img = Ok ef ->
  nth_sec s i = Some x ->
  get_section ef i = Ok {| s_name := fst x; s_hdr := exp_shdr s (snd x);
                           s_kind := spec_kind (sh_tyname s (snd x)) (fst x) |}.
Proof. exact section_exact. Qed.
Print Assumptions C01_section_exact.

Theorem C01_segment_exact : forall img s ef j p, wf_image img s = true -> elf_open img = Ok ef ->
  nth_seg s j = Some p ->
  get_segment ef j = Ok {| g_hdr := exp_phdr s p; g_kind := spec_segment_kind (p_tyname s p) |}.
Proof. exact segment_exact. Qed.
Print Assumptions C01_segment_exact.

Theorem C01_iter_sections_exact : forall img s ef ty, wf_image img s = true -> elf_open img = Ok ef ->
  iter_sections ef ty =
  Ok (map (sec_of s) (match ty with
                      | None => i_sections s
                      | Some t => filter (fun x => hval_eqb (sh_tyname s (snd x)) t) (i_sections s)
                      end)).
Proof. exact iter_sections_exact. Qed.
Print Assumptions C01_iter_sections_exact.

Theorem C01_iter_segments_exact : forall img s ef ty, wf_image img s = true -> elf_open img = Ok ef ->
  iter_segments ef ty =
  Ok (map (seg_of s) (match ty with
                      | None => i_segments s
                      | Some t => filter (fun p => hval_eqb (p_tyname s p) t) (i_segments s)
                      end)).
Proof. exact iter_segments_exact. Qed.
Print Assumptions C01_iter_segments_exact.

(* ---- 5. lookups agree with the enumeration: by index ... *)
Theorem C01_index_agrees : forall img s ef i, wf_image img s = true -> elf_open img = Ok ef ->
  0 <= i < n_sections s ->
  exists sec l, get_section ef i = Ok sec /\ iter_sections ef None = Ok l /\
                nth_error l (Z.to_nat i) = Some sec.
Proof. exact index_agrees. Qed.
Print Assumptions C01_index_agrees.

(* ... and by name: get_section_index / has_section / get_section_by_name *)
Theorem C01_lookup_agrees : forall img s ef name, wf_image img s = true -> elf_open img = Ok ef ->
  get_section_index ef name = Ok (exp_index_by_name s name) /\
  has_section ef name = Ok (match exp_index_by_name s name with Some _ => true | None => false end) /\
  get_section_by_name ef name =
    Ok (match exp_index_by_name s name with
        | Some j => match nth_sec s j with Some x => Some (sec_of s x) | None => None end
        | None => None
        end).
Proof. exact lookup_agrees. Qed.
Print Assumptions C01_lookup_agrees.

(* where the expected index is that of a section of the enumeration bearing the name (the one
   with the greatest index: the name map is overwritten), and absent iff no section bears it *)
Theorem C01_lookup_meaning : forall s name,
  (forall j, exp_index_by_name s name = Some j ->
     exists x, nth_sec s j = Some x /\ fst x = name /\
               forall j' x', nth_sec s j' = Some x' -> fst x' = name -> j' <= j) /\
  (exp_index_by_name s name = None <-> forall x, In x (i_sections s) -> fst x <> name).
Proof. exact lookup_meaning. Qed.
Print Assumptions C01_lookup_meaning.

(* ---- 5b. none of this depends on what was called before on the same object.  For EVERY history
   of calls on one ELFFile (Model/C01History.v: enumerations abandoned after k items — a generator
   that is never exhausted —, full enumerations of sections and of segments (every Segment object
   created anew, also after the name map exists), with or without type filter, has_section /
   get_section_index / get_section_by_name, in any order, starting from the fresh object), each
   answer is the history-free one above, and the object's _section_name_map is None or the
   COMPLETE map at every point *)
Theorem C01_history_independent : forall img s ef ops, wf_image img s = true -> elf_open img = Ok ef ->
  exists st', hrun ef None ops = (st', map (fun op => Ok (exp_hans s op)) ops) /\
              (st' = None \/ st' = Some (full_map s)).
Proof. exact history_independent. Qed.
Print Assumptions C01_history_independent.

(* ---- 6. codes with a standard name are reported by that name, all others as the raw integer:
   the enum-typed fields and the dictionary each is decoded with (sh_type / p_type: the one the
   decoded e_machine selects) ... *)
Theorem C01_enum_fields : forall img s ef, wf_image img s = true -> elf_open img = Ok ef ->
  let h := c_hdr (ef_core ef) in let e := i_ehdr s in
  hty h "e_ident.EI_VERSION" = named (T_ehdr "e_ident.EI_VERSION") (ei_version e) /\
  hty h "e_ident.EI_OSABI" = named (T_ehdr "e_ident.EI_OSABI") (ei_osabi e) /\
  hty h "e_type" = named (T_ehdr "e_type") (e_type e) /\
  hty h "e_machine" = named (T_ehdr "e_machine") (e_machine e) /\
  hty h "e_version" = named (T_ehdr "e_version") (e_version e) /\
  (forall i x, nth_sec s i = Some x -> exists r,
     get_section_header (ef_core ef) i = Ok (Some r) /\
     hty r "sh_type" = named (T_sh_type s) (sh_type (snd x))) /\
  (forall j p, nth_seg s j = Some p -> exists r,
     get_segment_header (ef_core ef) j = Ok r /\ hty r "p_type" = named (T_p_type s) (p_type p)).
Proof. exact enum_fields. Qed.
Print Assumptions C01_enum_fields.

(* ... where [named tbl z] is a name the dictionary holds for z, or z itself when it holds none *)
Theorem C01_enum_named_or_raw : forall tbl z,
  (exists n, named tbl z = HName n /\ In (z, n) tbl) \/
  (named tbl z = HZ z /\ forall n, ~ In (z, n) tbl).
Proof. exact named_cases. Qed.
Print Assumptions C01_enum_named_or_raw.

(* and that is what construct's (non-strict) Enum adapter computes, for any record field *)
Theorem C01_enum_adapter : forall b f id z,
  bind_of b f = Some (id, false) -> adapt_field b f (VZ z) = Some (named (table_of_id id) z).
Proof. exact adapt_field_bound. Qed.
Print Assumptions C01_enum_adapter.

(* ---- 6b. the e_machine-dependent dictionaries (structs.py create_advanced_structs, regenerated
   as a machine -> dictionary map for EVERY name of ENUM_E_MACHINE and for unnamed numbers) obey
   the gABI rule: for every machine key k and every code z, outside the processor-specific range
   0x70000000..0x7fffffff the name of z is the one an unknown machine gets; inside it a name is
   reported only if it carries that machine's prefix (so machines without a supplement report
   raw integers there) ... *)
Theorem C01_machine_dicts : forall s,
  T_sh_type s = sh_dict (machine_key (exp_machine s)) /\ T_p_type s = p_dict (machine_key (exp_machine s)).
Proof. exact image_dicts. Qed.
Print Assumptions C01_machine_dicts.

Theorem C01_machine_sh_types : forall k z,
  (in_proc z = false -> Enum.dict_get (sh_dict k) z = Enum.dict_get (sh_dict "<raw>") z) /\
  (forall n, in_proc z = true -> Enum.dict_get (sh_dict k) z = Some n ->
     exists pfx, In pfx (prefixes_of sh_proc_prefixes k) /\ String.prefix pfx n = true).
Proof. exact sh_tables_rule. Qed.
Print Assumptions C01_machine_sh_types.

Theorem C01_machine_p_types : forall k z,
  (in_proc z = false -> Enum.dict_get (p_dict k) z = Enum.dict_get (p_dict "<raw>") z) /\
  (forall n, in_proc z = true -> Enum.dict_get (p_dict k) z = Some n ->
     exists pfx, In pfx (prefixes_of p_proc_prefixes k) /\ String.prefix pfx n = true).
Proof. exact p_tables_rule. Qed.
Print Assumptions C01_machine_p_types.

(* ... and the codes the processor supplements fix are reported by name for their machine
   (ARM / AArch64 / x86-64 / MIPS / RISC-V: Spec/C01Machines.v sh_anchors, p_anchors) *)
Theorem C01_machine_anchors : forall k z n,
  (In (k, z, n) sh_anchors -> Enum.dict_get (sh_dict k) z = Some n) /\
  (In (k, z, n) p_anchors -> Enum.dict_get (p_dict k) z = Some n).
Proof. exact (fun k z n => conj (sh_tables_anchors k z n) (p_tables_anchors k z n)). Qed.
Print Assumptions C01_machine_anchors.

(* ---- 7. dispatch: for EVERY stream and header (no well-formedness assumed), an object that
   _make_section returns has the class Spec.kind_table assigns to the decoded type — with the
   '.stab' name rule, NullSection for SHT_NULL, the plain Section for every other name and for
   raw integers — keeps the header, and bears the name read from the name table *)
Theorem C01_dispatch_kind : forall ef r sec, make_section ef (Some r) = Ok sec ->
  get_section_name ef (Some r) = Ok (s_name sec) /\ s_hdr sec = r /\
  s_kind sec = spec_kind (hty r "sh_type") (s_name sec).
Proof. exact make_section_kind. Qed.
Print Assumptions C01_dispatch_kind.

Theorem C01_segment_kind : forall ef h g, make_segment ef h = Ok g ->
  g_hdr g = h /\ g_kind g = spec_segment_kind (hty h "p_type").
Proof. exact make_segment_kind. Qed.
Print Assumptions C01_segment_kind.

(* ---- non-vacuity: the hypothesis holds of concrete images (Proofs/C01Examples.v) and the
   conclusions evaluate to the expected observations *)
Example C01_ex1_wf : wf_image ex1_img ex1_spec = true.
Proof. vm_compute. reflexivity. Qed.

Example C01_ex2_wf_escapes :
  wf_image ex2_img ex2_spec = true /\
  e_shnum (i_ehdr ex2_spec) = 0 /\ e_phnum (i_ehdr ex2_spec) = 65535 /\ e_shstrndx (i_ehdr ex2_spec) = 65535.
Proof. vm_compute. repeat split. Qed.

Example C01_ex1_observed :
  match elf_open ex1_img with
  | Ok ef => (match iter_sections ef None with Ok l => map s_kind l | Err _ => [] end,
              match iter_segments ef (Some (HName "PT_NOTE")) with Ok l => map g_kind l | Err _ => [] end,
              get_section_index ef [46; 116; 101; 120; 116])
  | Err _ => ([], [], Err EFuel)
  end
  = (["NullSection"; "Section"; "StabSection"; "SymbolTableSection"; "StringTableSection";
      "StringTableSection"; "ARMAttributesSection"; "RelocationSection"; "Section"; "Section"],
     ["NoteSegment"], Ok (Some 8)).
Proof. vm_compute. reflexivity. Qed.

Example C01_ex2_observed :
  match elf_open ex2_img with
  | Ok ef => (num_sections ef, num_segments ef, get_shstrndx (ef_core ef),
              match iter_segments ef None with Ok l => map g_kind l | Err _ => [] end)
  | Err _ => (Err EFuel, Err EFuel, Err EFuel, [])
  end
  = (Ok 5, Ok 2, Ok 2, ["DynamicSegment"; "Segment"]).
Proof. vm_compute. reflexivity. Qed.
