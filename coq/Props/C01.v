(* Props/C01.v — placeholder while the proofs are being written *)
From PV Require Import Base.Fmt Spec.ElfGabi Gen.ElfLayouts Proofs.ElfLayoutFacts.

Theorem C01_gen_layouts_match_gabi : forall le is64,
  gen_Elf_Ehdr le is64 = spec_Elf_Ehdr le is64 /\
  gen_Elf_Shdr le is64 = spec_Elf_Shdr le is64 /\
  gen_Elf_Phdr le is64 = spec_Elf_Phdr le is64.
Proof. intros le is64. split; [apply gen_Elf_Ehdr_gabi|split; [apply gen_Elf_Shdr_gabi|apply gen_Elf_Phdr_gabi]]. Qed.
Print Assumptions C01_gen_layouts_match_gabi.

Example C01_placeholder : True. Proof. exact I. Qed.
