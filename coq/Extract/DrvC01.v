(* Extract/DrvC01.v — driver for C01: runs the definitions the theorems of Props/C01.v
   are about.  Requests:
     ("encode" spec)            -> (ehdr-bytes (shdr-bytes ...) (phdr-bytes ...))   Spec encoders
     ("run" img spec queries)   -> (wf (model-answer ...) (spec-answer ...))
     ("history" img spec ops)   -> (wf (model-answer ...) (spec-answer ...)): the calls ops made IN ORDER on ONE object
                                   ops = ("take" type|"<none>" k) ("iter" type|"<none>") ("segs" type|"<none>") ("has" #n) ("index" #n) ("by_name" #n)
     ("anchors")                -> (((machine code name) ...) ((machine code name) ...))   Spec/C01Machines.v sh_anchors, p_anchors
   spec    = (is64 le (ei_version ei_osabi ei_abiversion #pad e_type ... e_shstrndx)
              ((#name (sh_name ... sh_entsize)) ...) ((p_type p_flags p_offset ... p_align) ...) shstrndx)
   queries = ("header") ("num_sections") ("num_segments") ("shstrndx") ("sections") ("segments")
             ("section" i) ("segment" j) ("iter_sections" type) ("iter_segments" type) ("by_name" #name)
   Extracted with ExtrOcamlBasic only. *)
From Coq Require Import String.
From PV Require Import Base.Bytes Base.Outcome Base.Fmt Base.PyData.
From PV Require Import Spec.C01Obs Spec.C01Image Spec.C01Machines Model.C01ElfFile Model.C01History Spec.C01History.
Open Scope string_scope.
Open Scope Z_scope.

Definition is (a b : string) : bool := String.eqb a b.

(* ---- reading the abstract image *)
Definition rd_ehdr (x : sx) : ehdr_spec :=
  let l := gL x in
  let g (i : nat) := gI (nthx i l) in
  {| ei_version := g 0%nat; ei_osabi := g 1%nat; ei_abiversion := g 2%nat; ei_pad := gB (nthx 3 l);
     e_type := g 4%nat; e_machine := g 5%nat; e_version := g 6%nat; e_entry := g 7%nat;
     e_phoff := g 8%nat; e_shoff := g 9%nat; e_flags := g 10%nat; e_ehsize := g 11%nat;
     e_phentsize := g 12%nat; e_phnum := g 13%nat; e_shentsize := g 14%nat; e_shnum := g 15%nat;
     e_shstrndx := g 16%nat |}.
Definition rd_shdr (x : sx) : shdr_spec :=
  let l := gL x in
  let g (i : nat) := gI (nthx i l) in
  {| sh_name := g 0%nat; sh_type := g 1%nat; sh_flags := g 2%nat; sh_addr := g 3%nat;
     sh_offset := g 4%nat; sh_size := g 5%nat; sh_link := g 6%nat; sh_info := g 7%nat;
     sh_addralign := g 8%nat; sh_entsize := g 9%nat |}.
Definition rd_phdr (x : sx) : phdr_spec :=
  let l := gL x in
  let g (i : nat) := gI (nthx i l) in
  {| p_type := g 0%nat; p_flags := g 1%nat; p_offset := g 2%nat; p_vaddr := g 3%nat;
     p_paddr := g 4%nat; p_filesz := g 5%nat; p_memsz := g 6%nat; p_align := g 7%nat |}.
Definition rd_spec (x : sx) : image_spec :=
  let l := gL x in
  {| i_is64 := gbool (nthx 0 l); i_le := gbool (nthx 1 l); i_ehdr := rd_ehdr (nthx 2 l);
     i_sections := map (fun y => (gB (nthx 0 (gL y)), rd_shdr (nthx 1 (gL y)))) (gL (nthx 3 l));
     i_segments := map rd_phdr (gL (nthx 4 l));
     i_shstrndx := gI (nthx 5 l) |}.

(* ---- printing observations *)
Definition sx_hval (v : hval) : sx :=
  match v with HZ z => SI z | HB b => SB b | HL zs => sx_ints zs | HName n => SS n end.
Definition sx_hrec (r : hrec) : sx := SL (map (fun p => SL [SS (fst p); sx_hval (snd p)]) r).
Definition sx_section (x : list Z * hrec * string) : sx :=
  match x with (n, h, k) => SL [SB n; sx_hrec h; SS k] end.
Definition sx_segment (x : hrec * string) : sx := SL [sx_hrec (fst x); SS (snd x)].
Definition obs_sect (s : sect) := (s_name s, s_hdr s, s_kind s).
Definition obs_segm (g : segm) := (g_hdr g, g_kind g).
Definition rd_type (x : sx) : hval := match x with SS n => HName n | _ => HZ (gI x) end.

Definition model_answer (ef : elffile) (q : sx) : sx :=
  let l := gL q in
  let op := gS (nthx 0 l) in
  let a1 := nthx 1 l in
  if is op "header" then sx_ok (sx_hrec (c_hdr (ef_core ef)))
  else if is op "num_sections" then sx_res SI (num_sections ef)
  else if is op "num_segments" then sx_res SI (num_segments ef)
  else if is op "shstrndx" then sx_res SI (get_shstrndx (ef_core ef))
  else if is op "sections" then
    sx_res (fun l => SL (map (fun s => sx_section (obs_sect s)) l)) (iter_sections ef None)
  else if is op "segments" then
    sx_res (fun l => SL (map (fun g => sx_segment (obs_segm g)) l)) (iter_segments ef None)
  else if is op "section" then sx_res (fun s => sx_section (obs_sect s)) (get_section ef (gI a1))
  else if is op "segment" then sx_res (fun g => sx_segment (obs_segm g)) (get_segment ef (gI a1))
  else if is op "iter_sections" then
    sx_res (fun l => SL (map (fun s => sx_section (obs_sect s)) l)) (iter_sections ef (Some (rd_type a1)))
  else if is op "iter_segments" then
    sx_res (fun l => SL (map (fun g => sx_segment (obs_segm g)) l)) (iter_segments ef (Some (rd_type a1)))
  else if is op "by_name" then
    sx_res (fun x => x)
      (do i <- get_section_index ef (gB a1);
       do h <- has_section ef (gB a1);
       do s <- get_section_by_name ef (gB a1);
       Ok (SL [sx_opt SI i; sx_bool h; sx_opt (fun s => sx_section (obs_sect s)) s]))
  else sx_err "unknown-query".

Definition spec_answer (s : image_spec) (q : sx) : sx :=
  let l := gL q in
  let op := gS (nthx 0 l) in
  let a1 := nthx 1 l in
  if is op "header" then sx_ok (sx_hrec (exp_ehdr s))
  else if is op "num_sections" then sx_ok (SI (n_sections s))
  else if is op "num_segments" then sx_ok (SI (n_segments s))
  else if is op "shstrndx" then sx_ok (SI (i_shstrndx s))
  else if is op "sections" then sx_ok (SL (map (fun x => sx_section (exp_section s x)) (i_sections s)))
  else if is op "segments" then sx_ok (SL (map (fun p => sx_segment (exp_segment s p)) (i_segments s)))
  else if is op "section" then
    match nth_sec s (gI a1) with
    | Some x => sx_ok (sx_section (exp_section s x))
    | None => sx_err "out-of-range"
    end
  else if is op "segment" then
    match nth_seg s (gI a1) with
    | Some p => sx_ok (sx_segment (exp_segment s p))
    | None => sx_err "out-of-range"
    end
  else if is op "iter_sections" then
    sx_ok (SL (map (fun x => sx_section (exp_section s x))
                   (filter (fun x => hval_eqb (sh_tyname s (snd x)) (rd_type a1)) (i_sections s))))
  else if is op "iter_segments" then
    sx_ok (SL (map (fun p => sx_segment (exp_segment s p))
                   (filter (fun p => hval_eqb (p_tyname s p) (rd_type a1)) (i_segments s))))
  else if is op "by_name" then
    let i := exp_index_by_name s (gB a1) in
    sx_ok (SL [sx_opt SI i;
               sx_bool (match i with Some _ => true | None => false end);
               sx_opt (fun x => sx_section (exp_section s x))
                      (match i with Some j => nth_sec s j | None => None end)])
  else sx_err "unknown-query".

(* ---- call histories on one object *)
Definition rd_oty (x : sx) : option hval :=
  match x with SS n => if is n "<none>" then None else Some (HName n) | _ => Some (HZ (gI x)) end.
Definition rd_hop (x : sx) : hop :=
  let l := gL x in
  let op := gS (nthx 0 l) in
  if is op "take" then HTake (rd_oty (nthx 1 l)) (gI (nthx 2 l))
  else if is op "iter" then HIter (rd_oty (nthx 1 l))
  else if is op "segs" then HSegs (rd_oty (nthx 1 l))
  else if is op "has" then HHas (gB (nthx 1 l))
  else if is op "index" then HIndex (gB (nthx 1 l))
  else HByName (gB (nthx 1 l)).
Definition sx_hans (a : hans) : sx :=
  match a with
  | ASects l => SL (map (fun s => sx_section (obs_sect s)) l)
  | ASegs l => SL (map (fun g => sx_segment (obs_segm g)) l)
  | ABool b => sx_bool b
  | AIndex i => sx_opt SI i
  | ASect x => sx_opt (fun s => sx_section (obs_sect s)) x
  end.

Definition dispatch (req : sx) : sx :=
  let l := gL req in
  let op := gS (nthx 0 l) in
  if is op "encode" then
    let s := rd_spec (nthx 1 l) in
    SL [SB (encode_ehdr s);
        SL (map (fun x => SB (encode_shdr s (snd x))) (i_sections s));
        SL (map (fun p => SB (encode_phdr s p)) (i_segments s))]
  else if is op "history" then
    let img := gB (nthx 1 l) in
    let s := rd_spec (nthx 2 l) in
    let ops := map rd_hop (gL (nthx 3 l)) in
    SL [sx_bool (wf_image img s);
        match elf_open img with
        | Ok ef => SL (map (sx_res sx_hans) (snd (hrun ef None ops)))
        | Err e => SL (map (fun _ => sx_of_err e) ops)
        end;
        SL (map (fun op => sx_ok (sx_hans (exp_hans s op))) ops)]
  else if is op "anchors" then
    let pr (a : string * Z * string) := match a with (k, z, n) => SL [SS k; SI z; SS n] end in
    SL [SL (map pr sh_anchors); SL (map pr p_anchors)]
  else if is op "run" then
    let img := gB (nthx 1 l) in
    let s := rd_spec (nthx 2 l) in
    let qs := gL (nthx 3 l) in
    SL [sx_bool (wf_image img s);
        match elf_open img with
        | Ok ef => SL (map (model_answer ef) qs)
        | Err e => SL (map (fun _ => sx_of_err e) qs)
        end;
        SL (map (spec_answer s) qs)]
  else sx_err "unknown-op".
