(* Extract/DrvC10.v — driver for C10: runs the machine of Model/C10Machine.v (instantiated with
   the parse functions of a file description sent by the harness), the reference machine and
   the well-formedness predicate of Spec/C10Spec.v, on whole call histories.

   Requests
     ("runs" <file> nslots fuel stride lastonly (<history> ...))      lastonly<>0: only the answers of the last call
         per history, flat: "#" (model answers) "|" (spec answers) "|" (valid_op flags) "|" state "|" state ...
         abstract states: after every stride-th call and the last one (stride 0: the last one only)
     ("wf" <file> fuel)  ->  (wf_file no_define_file fuel_ok): the hypotheses of the theorems of Props/C10.v
   The abstract state is printed with objects named by their POSITION in the cache lists
   (unit: index in _cu_cache; entry: (unit index, index in _dielist)), which is what the
   harness can compute from the implementation's private attributes without relying on
   addresses. *)
From PV Require Import Base.Outcome Base.PyData Model.C10Types Model.C10Machine Spec.C10Spec.
From Coq Require Import ZArith List Bool.
Import ListNotations.
Open Scope Z_scope.

(* ---------------------------------------------------------------- decoding the file description *)
Definition g_pairs (s : sx) : list (nat * Z) :=
  map (fun p => (gnat (nthx 0 (gL p)), gI (nthx 1 (gL p)))) (gL s).
Definition g_optZ (s : sx) : option Z := match gL s with x :: _ => Some (gI x) | [] => None end.
Definition g_sibform (z : Z) : sibform := if z =? 0 then SibLocal else if z =? 1 then SibAddr else SibOther.
Definition g_refform (z : Z) : refform := if z =? 0 then RefLocal else if z =? 1 then RefAddr else RefOther.

(* (size null hc sib refs stmt pid eff) *)
Definition g_raw (s : sx) : die_raw :=
  let l := gL s in
  mk_raw (gI (nthx 0 l)) (gbool (nthx 1 l)) (gbool (nthx 2 l))
         (match gL (nthx 3 l) with f :: v :: _ => Some (g_sibform (gI f), gI v) | _ => None end)
         (map (fun p => (g_refform (gI (nthx 0 (gL p))), gI (nthx 1 (gL p)))) (gL (nthx 4 l)))
         (g_optZ (nthx 5 l)) (gI (nthx 6 l)) (g_pairs (nthx 7 l)).

Definition dummy_raw : die_raw := mk_raw 0 true false None [] None 0 [].
(* (off raw (kids...) toff traw) *)
Fixpoint g_node (s : sx) : node :=
  match s with
  | SL [SI off; raw; SL kids; SI toff; traw] => Node off (g_raw raw) (map g_node kids) toff (g_raw traw)
  | _ => Node 0 dummy_raw [] 0 dummy_raw
  end.
(* (off (size abbrev pid (tsig)?) die_off tree) *)
Definition g_unit (s : sx) : udesc :=
  let l := gL s in let h := gL (nthx 1 l) in
  mk_ud (gI (nthx 0 l)) (mk_hdr (gI (nthx 0 h)) (gI (nthx 1 h)) (gI (nthx 2 h)) (g_optZ (nthx 3 h))) (gI (nthx 2 l))
        (g_node (nthx 3 l)).
Definition g_zz (s : sx) : Z * Z := (gI (nthx 0 (gL s)), gI (nthx 1 (gL s))).
Definition g_kzz (s : sx) : Z * (Z * Z) := (gI (nthx 0 (gL s)), (gI (nthx 1 (gL s)), gI (nthx 2 (gL s)))).
(* (off (end files pid eff) start (bodypid defs) bodyend) *)
Definition g_line (s : sx) : Z * lpdesc :=
  let l := gL s in let r := gL (nthx 1 l) in let b := gL (nthx 3 l) in
  (gI (nthx 0 l),
   mk_ld (mk_lpraw (gI (nthx 0 r)) (gI (nthx 1 r)) (gI (nthx 2 r)) (g_pairs (nthx 3 r))) (gI (nthx 2 l))
         (mk_lpbody (gI (nthx 0 b)) (gI (nthx 1 b))) (gI (nthx 4 l))).
Definition g_opt_zz (s : sx) : option (Z * Z) := match gL s with a :: b :: _ => Some (gI a, gI b) | _ => None end.
Definition g_shdr (s : sx) : shdr_raw * Z :=
  let l := gL s in (mk_shdr (gI (nthx 0 l)) (gI (nthx 1 l)) (gI (nthx 2 l)) (g_pairs (nthx 3 l)) (gI (nthx 5 l)), gI (nthx 4 l)).
Definition g_phdr (s : sx) : phdr_raw * Z :=
  let l := gL s in (mk_phdr (gI (nthx 0 l)) (g_pairs (nthx 1 l)), gI (nthx 2 l)).
Definition g_sym (s : sx) : sym_raw * Z :=
  let l := gL s in (mk_sym (gI (nthx 0 l)) (gI (nthx 1 l)), gI (nthx 2 l)).
Definition g_dyn (s : sx) : dyn_raw * Z :=
  let l := gL s in (mk_dyn (gbool (nthx 0 l)) (gI (nthx 1 l)) (g_pairs (nthx 2 l)), gI (nthx 3 l)).

(* (off size sig pid die_off) *)
Definition g_tu (s : sx) : Z * tu_raw * Z :=
  let l := gL s in (gI (nthx 0 l), mk_tu (gI (nthx 1 l)) (gI (nthx 2 l)) (gI (nthx 3 l)), gI (nthx 4 l)).
(* (kind cie table) *)
Definition g_ent (s : sx) : Z * Z * Z := let l := gL s in (gI (nthx 0 l), gI (nthx 1 l), gI (nthx 2 l)).

(* (info_size (units) abbrev_size (abbrevs) (lines) cfi ehcfi
    (stream_len shoff shnum shentsize shstr_base) (shdrs) (strs) (phoff phentsize) (phdrs)
    (sym_base sym_entsize strtab_base) (syms) (dyn_base dyn_entsize) (dyns) (cfi entries) (eh cfi entries) types_size (type units)) *)
Definition g_file (s : sx) : file :=
  let l := gL s in
  let e := gL (nthx 7 l) in let ph := gL (nthx 10 l) in let sy := gL (nthx 12 l) in let dy := gL (nthx 14 l) in
  mk_file (gI (nthx 0 l)) (map g_unit (gL (nthx 1 l))) (gI (nthx 2 l)) (map g_kzz (gL (nthx 3 l)))
          (map g_line (gL (nthx 4 l))) (g_opt_zz (nthx 5 l)) (g_opt_zz (nthx 6 l))
          (gI (nthx 0 e)) (gI (nthx 1 e)) (gI (nthx 2 e)) (gI (nthx 3 e)) (gI (nthx 4 e))
          (map g_shdr (gL (nthx 8 l))) (map g_kzz (gL (nthx 9 l)))
          (gI (nthx 0 ph)) (gI (nthx 1 ph)) (map g_phdr (gL (nthx 11 l)))
          (gI (nthx 0 sy)) (gI (nthx 1 sy)) (gI (nthx 2 sy)) (map g_sym (gL (nthx 13 l)))
          (gI (nthx 0 dy)) (gI (nthx 1 dy)) (map g_dyn (gL (nthx 15 l)))
          (map g_ent (gL (nthx 16 l))) (map g_ent (gL (nthx 17 l)))
          (gI (nthx 18 l)) (map g_tu (gL (nthx 19 l))).

(* ---------------------------------------------------------------- operations *)
Open Scope string_scope.
Definition g_op (s : sx) : op :=
  let l := gL s in
  let k := gS (nthx 0 l) in
  let a := gI (nthx 1 l) in let b := gI (nthx 2 l) in let c := gI (nthx 3 l) in
  (* slots / stream ids are converted only in the branches that use them: a signature is a 64-bit number and
     must never be turned into a unary natural *)
  let na := fun (_ : unit) => Z.to_nat a in
  if k =? "Disturb" then Disturb (na tt) b
  else if k =? "CUAt" then CUAt a
  else if k =? "CUContaining" then CUContaining a
  else if k =? "TopDIE" then TopDIE a
  else if k =? "DIEAt" then DIEAt a b
  else if k =? "DIEGlobal" then DIEGlobal a
  else if k =? "Parent" then Parent a b
  else if k =? "FollowRef" then FollowRef a b (Z.to_nat c)
  else if k =? "LineProg" then LineProg a
  else if k =? "LineEntries" then LineEntries a
  else if k =? "CFI" then CFI (negb (a =? 0)%Z)
  else if k =? "CFIDecoded" then CFIDecoded (negb (a =? 0)%Z) b
  else if k =? "TUBySig" then TUBySig a
  else if k =? "NewIterTUs" then NewIterTUs (na tt)
  else if k =? "NewIterCUs" then NewIterCUs (na tt)
  else if k =? "NewIterDIEs" then NewIterDIEs (na tt) b
  else if k =? "NewIterChildren" then NewIterChildren (na tt) b c
  else if k =? "NewIterSiblings" then NewIterSiblings (na tt) b c
  else if k =? "NewIterSections" then NewIterSections (na tt)
  else if k =? "NewIterSymbols" then NewIterSymbols (na tt)
  else if k =? "NewIterTags" then NewIterTags (na tt)
  else if k =? "Next" then Next (na tt)
  else if k =? "ENumSections" then ENumSections
  else if k =? "ESection" then ESection a
  else if k =? "ESectionByName" then ESectionByName a
  else if k =? "ESegment" then ESegment a
  else if k =? "ESymbol" then ESymbol a
  else if k =? "ESymbolByName" then ESymbolByName a
  else if k =? "EString" then EString a
  else if k =? "ENumTags" then ENumTags
  else if k =? "ESectionTyped" then ESectionTyped a b
  else if k =? "RefetchDwarf" then RefetchDwarf
  else if k =? "DIEAtOutside" then DIEAtOutside a b
  else if k =? "LineEntriesFailing" then LineEntriesFailing a (EPy (gS (nthx 2 l))) c
  else if k =? "CUAtFailing" then CUAtFailing a (EPy (gS (nthx 2 l))) c
  else EGetTag a.

Definition sx_answer (a : answer) : sx :=
  match a with
  | AUnit off pid => SL [SS "unit"; SI off; SI pid]
  | ADie u o pid => SL [SS "die"; SI u; SI o; SI pid]
  | ANone => SS "none"
  | AStop => SS "stop"
  | ADone => SS "done"
  | AVals l => SL (SS "vals" :: map SI l)
  | AErr e => sx_of_err e
  end.

(* ---------------------------------------------------------------- the abstract state *)
Fixpoint index_of (x : nat) (l : list nat) (i : Z) : Z :=
  match l with
  | [] => -1
  | y :: r => if Nat.eqb x y then i else index_of x r (i + 1)
  end.
(* a DIE object: (index of its unit in _cu_cache, index in that unit's _dielist) *)
Definition die_name (s : state) (id : nat) : sx :=
  match nth_error (dies s) id with
  | Some d =>
      match nth_error (cus s) (d_cu d) with
      | Some c => SL [SI (index_of (d_cu d) (cu_objs s) 0); SI (index_of id (c_dielist c) 0)]
      | None => SS "dangling"
      end
  | None => SS "dangling"
  end.
Definition ref_sx (s : state) (o : option nat) : sx :=
  match o with Some id => die_name s id | None => SS "none" end.
Definition die_sx (s : state) (id : nat) : sx :=
  match nth_error (dies s) id with
  | Some d => SL [SI (d_off d); ref_sx s (d_parent d); ref_sx s (d_term d)]
  | None => SS "dangling"
  end.
Definition unit_sx (s : state) (uid : nat) : sx :=
  match nth_error (cus s) uid with
  | Some c => SL [SI (c_off c); SI (c_die_off c); sx_bool (match c_abbrev c with Some _ => true | None => false end);
                  sx_ints (c_diemap c); SL (map (die_sx s) (c_dielist c))]
  | None => SS "dangling"
  end.
Definition cframe_sx (s : state) (c : cframe) : sx :=
  match c with
  | CStart d => SL [SS "start"; die_name s d]
  | CYield d ch cur => SL [SS "yield"; die_name s d; die_name s ch; SI cur]
  | CDone => SS "done"
  end.
Definition slevel_sx (s : state) (l : slevel) : sx :=
  SL [die_name s (sl_die l);
      match sl_pc l with
      | PStart => SS "start" | PDie => SS "die" | PTerm => SS "term"
      | PKids c => SL [SS "kids"; cframe_sx s c]
      end].
Definition optZ_sx (o : option Z) : sx := match o with Some v => SI v | None => SS "none" end.
Definition frame_sx (s : state) (f : frame) : sx :=
  match f with
  | FEmpty => SS "empty"
  | FCUs off => SL [SS "cus"; SI off]
  | FTUs off => SL [SS "tus"; SI off]
  | FChildren c => SL [SS "children"; cframe_sx s c]
  | FSiblings self c => SL [SS "siblings"; die_name s self;
                            match c with Some c => cframe_sx s c | None => SS "none" end]
  | FSubtree st => SL [SS "subtree"; SL (map (slevel_sx s) st)]
  | FSections i n => SL [SS "sections"; SI i; optZ_sx n]
  | FSymbols i n => SL [SS "symbols"; SI i; optZ_sx n]
  | FTags n fin => SL [SS "tags"; SI n; sx_bool fin]
  end.
(* the CFI entries a client holds: which of them have a decoded table *)
Definition held_sx (h : option (list (option Z))) : sx :=
  match h with
  | None => SS "none"
  | Some l => SL (map (fun m => sx_bool (match m with Some _ => true | None => false end)) l)
  end.
Definition state_sx (s : state) : sx :=
  SL [sx_ints (cu_keys s);
      SL (map (unit_sx s) (cu_objs s));
      sx_ints (map fst (abbrevs s));
      SL (map (fun kv => SL [SI (fst kv); SI (l_files (snd kv));
                             sx_bool (match l_entries (snd kv) with Some _ => true | None => false end)]) (lines s));
      match e_secmap s with Some m => SL (map (fun kv => SL [SI (fst kv); SI (snd kv)]) m) | None => SS "none" end;
      match e_symmap s with Some m => SL (map (fun kv => SL [SI (fst kv); sx_ints (snd kv)]) m) | None => SS "none" end;
      SI (e_numtags s);
      sx_ints (cur s);
      SL (map (frame_sx s) (frames s));
      held_sx (fst (cfis s)); held_sx (snd (cfis s));
      match tu_map s with Some m => sx_ints (map fst m) | None => SS "none" end].

(* ---------------------------------------------------------------- running histories *)
Record trace := mk_trace { t_state : state; t_afs : list aframe; t_n : nat;
                           t_model : list sx; t_spec : list sx; t_valid : list sx; t_states : list sx }.

(* stride = 0: the abstract state after the last call only; stride = k: after every k-th call and the last.
   Result, flat, with separator symbols the harness can split the text on without parsing the states:
     "#" (model answers) "|" (spec answers) "|" (valid_op flags) "|" state "|" state ... *)
Definition run_history (F : file) (nslots fuel stride : nat) (lastonly : bool) (h : list op) : list sx :=
  let P := parsers_of F in
  let len := length h in
  let t := fold_left
    (fun t o =>
       let '(s', a) := step P fuel (t_state t) o in
       let '(afs', x) := spec_step F (t_afs t) o in
       let n := S (t_n t) in
       let keep := Nat.eqb n len || (negb (Nat.eqb stride 0) && Nat.eqb (Nat.modulo n stride) 0) in
       mk_trace s' afs' n (sx_answer a :: t_model t) (sx_answer x :: t_spec t)
                (sx_bool (valid_op F o) :: t_valid t)
                (if keep then state_sx s' :: SS "|" :: t_states t else t_states t))
    h (mk_trace (init_state nslots) (repeat AFEmpty nslots) 0 [] [] [] []) in
  let pick (l : list sx) := if lastonly then firstn 1 l else rev l in
  SS "#" :: SL (pick (t_model t)) :: SS "|" :: SL (pick (t_spec t)) :: SS "|" :: SL (rev (t_valid t))
     :: (match h with [] => [SS "|"; state_sx (t_state t)] | _ => rev (t_states t) end).

Definition dispatch (req : sx) : sx :=
  let l := gL req in
  let k := gS (nthx 0 l) in
  if k =? "runs" then
    let F := g_file (nthx 1 l) in
    SL (flat_map (fun h => run_history F (gnat (nthx 2 l)) (gnat (nthx 3 l)) (gnat (nthx 4 l)) (gbool (nthx 5 l))
                                       (map g_op (gL h)))
                 (gL (nthx 6 l)))
  else if k =? "wf" then
    let F := g_file (nthx 1 l) in SL [sx_bool (wf_file F); sx_bool (no_define_file F); sx_bool (fuel_ok F (gnat (nthx 2 l)))]
  else if k =? "wfdiag" then
    let F := g_file (nthx 1 l) in
    SL [sx_bool (units_chain 0 (f_units F) (f_info_size F));
        SL (map (fun ud => SL [SI (ud_off ud); sx_bool (wf_node (ud_off ud) (ud_tree ud));
                               sx_bool (node_off (ud_tree ud) =? ud_die_off ud)%Z;
                               sx_bool (node_end (ud_tree ud) <=? ud_off ud + uh_size (ud_hdr ud))%Z;
                               sx_bool (znodup (map fst (ud_entries ud)));
                               sx_bool (uh_abbrev (ud_hdr ud) <? f_abbrev_size F)%Z;
                               sx_bool (wf_unit F ud)]) (f_units F));
        sx_bool (wf_elf F)]
  else sx_err "unknown-op".
