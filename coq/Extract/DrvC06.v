(* Extract/DrvC06.v — driver for C06: runs the very definitions the theorems of Props/C06.v are
   about.  Request: (op args...).  Extracted with ExtrOcamlBasic only.

   Abstract inputs (S-expressions built by tools/harness/c06.py):
     lebval      (value #bytes)
     instr    ("name" operands...)        e.g. ("def_cfa" lebval lebval), ("expression" lebval lebval #bytes)
     item     ("R" fmt pcrel) | ("L" fmt pcrel) | ("L" "omit") | ("P" hi fmt lebval) | ("S")
     entry    ("cie" fmt64 version aug caf daf rar (instr...))    aug = "none" | (lebval (item...))
              ("fde" fmt64 cie_index loc range auglen lsda (instr...))
              ("zero")
     section  (eh le asize addr (entry...))
   Ops:
     ("section" section) -> (#bytes wf model_entries spec_entries model_tables spec_tables domains)
     ("parse" eh le asize addr #bytes) -> (model_entries model_tables)
     ("table" caf daf (cie instr...) "cie") / (... loc (fde instr...)) ->
                            (model_table spec_table domain raw_cie_instrs raw_fde_instrs)
     ("instrs" le asize (instr...)) -> (#bytes wf model_split spec_split)
     ("dwarfinfo" section_debug section_eh name_debug name_eh (call...)) with name = "none" | #bytes and
                  call = 0 (CFI_entries) | 1 (EH_CFI_entries), on ONE DWARFInfo holding both sections
                  -> (#bytes_debug #bytes_eh wf (model answer per call) (spec answer per call)) *)
From PV Require Import Base.Outcome Spec.C06View Model.C06Dwarfinfo.
Open Scope string_scope.
Open Scope Z_scope.

(* ---------------------------------------------------------------- reading abstract inputs *)
Definition g_leb (x : sx) : lebval := let l := gL x in mkleb (gI (nthx 0 l)) (gB (nthx 1 l)).

Definition g_fmt (code : Z) : ptr_format :=
  if code =? 1 then PUleb128 else if code =? 2 then PUdata2 else if code =? 3 then PUdata4
  else if code =? 4 then PUdata8 else if code =? 9 then PSleb128 else if code =? 10 then PSdata2
  else if code =? 11 then PSdata4 else if code =? 12 then PSdata8 else PAbsptr.

Definition g_instr (x : sx) : instr :=
  let l := gL x in
  let t := gS (nthx 0 l) in
  let a1 := nthx 1 l in let a2 := nthx 2 l in let a3 := nthx 3 l in
  if (t =? "advance_loc")%string then I_advance_loc (gI a1)
  else if (t =? "offset")%string then I_offset (gI a1) (g_leb a2)
  else if (t =? "restore")%string then I_restore (gI a1)
  else if (t =? "nop")%string then I_nop
  else if (t =? "set_loc")%string then I_set_loc (gI a1)
  else if (t =? "advance_loc1")%string then I_advance_loc1 (gI a1)
  else if (t =? "advance_loc2")%string then I_advance_loc2 (gI a1)
  else if (t =? "advance_loc4")%string then I_advance_loc4 (gI a1)
  else if (t =? "offset_extended")%string then I_offset_extended (g_leb a1) (g_leb a2)
  else if (t =? "restore_extended")%string then I_restore_extended (g_leb a1)
  else if (t =? "undefined")%string then I_undefined (g_leb a1)
  else if (t =? "same_value")%string then I_same_value (g_leb a1)
  else if (t =? "register")%string then I_register (g_leb a1) (g_leb a2)
  else if (t =? "remember_state")%string then I_remember_state
  else if (t =? "restore_state")%string then I_restore_state
  else if (t =? "def_cfa")%string then I_def_cfa (g_leb a1) (g_leb a2)
  else if (t =? "def_cfa_register")%string then I_def_cfa_register (g_leb a1)
  else if (t =? "def_cfa_offset")%string then I_def_cfa_offset (g_leb a1)
  else if (t =? "def_cfa_expression")%string then I_def_cfa_expression (g_leb a1) (gB a2)
  else if (t =? "expression")%string then I_expression (g_leb a1) (g_leb a2) (gB a3)
  else if (t =? "offset_extended_sf")%string then I_offset_extended_sf (g_leb a1) (g_leb a2)
  else if (t =? "def_cfa_sf")%string then I_def_cfa_sf (g_leb a1) (g_leb a2)
  else if (t =? "def_cfa_offset_sf")%string then I_def_cfa_offset_sf (g_leb a1)
  else if (t =? "val_offset")%string then I_val_offset (g_leb a1) (g_leb a2)
  else if (t =? "val_offset_sf")%string then I_val_offset_sf (g_leb a1) (g_leb a2)
  else if (t =? "val_expression")%string then I_val_expression (g_leb a1) (g_leb a2) (gB a3)
  else if (t =? "GNU_window_save")%string then I_GNU_window_save
  else if (t =? "GNU_args_size")%string then I_GNU_args_size (g_leb a1)
  else if (t =? "MIPS_advance_loc8")%string then I_MIPS_advance_loc8 (gI a1)
  else if (t =? "AARCH64_negate_ra_state_with_pc")%string then I_AARCH64_negate_ra_state_with_pc
  else if (t =? "GNU_negative_offset_extended")%string then
    I_GNU_negative_offset_extended (g_leb a1) (g_leb a2)
  else I_nop.
Definition g_instrs (x : sx) : list instr := map g_instr (gL x).

Definition g_item (x : sx) : aug_item :=
  let l := gL x in
  let t := gS (nthx 0 l) in
  if (t =? "R")%string then AugR (g_fmt (gI (nthx 1 l))) (gbool (nthx 2 l))
  else if (t =? "L")%string then
    match nthx 1 l with
    | SS _ => AugL None
    | c => AugL (Some (g_fmt (gI c), gbool (nthx 2 l)))
    end
  else if (t =? "P")%string then AugP (gI (nthx 1 l)) (g_fmt (gI (nthx 2 l))) (g_leb (nthx 3 l))
  else AugS.

Definition g_entry (x : sx) : sentry :=
  let l := gL x in
  let t := gS (nthx 0 l) in
  if (t =? "cie")%string then
    SCie (mkscie (gbool (nthx 1 l)) (gI (nthx 2 l))
                 (match nthx 3 l with
                  | SL [len; items] => Some (g_leb len, map g_item (gL items))
                  | _ => None
                  end)
                 (g_leb (nthx 4 l)) (g_leb (nthx 5 l)) (g_leb (nthx 6 l)) (g_instrs (nthx 7 l)))
  else if (t =? "fde")%string then
    SFde (mksfde (gbool (nthx 1 l)) (gnat (nthx 2 l)) (g_leb (nthx 3 l)) (g_leb (nthx 4 l))
                 (g_leb (nthx 5 l)) (g_leb (nthx 6 l)) (g_instrs (nthx 7 l)))
  else SZero.

Definition g_section (x : sx) : ssection :=
  let l := gL x in
  mkssection (gbool (nthx 0 l)) (gbool (nthx 1 l)) (gnat (nthx 2 l)) (gI (nthx 3 l))
             (map g_entry (gL (nthx 4 l))).

(* ---------------------------------------------------------------- printing observations *)
Definition sx_oz (o : option Z) : sx := match o with Some z => SI z | None => sx_none end.
Definition sx_arg (a : arg) : sx := match a with AInt z => SI z | ABlock b => SB b end.
Definition sx_instr (i : CallFrameInstruction) : sx := SL [SI (opcode i); SL (map sx_arg (args i))].
Definition sx_structs (T : structs) : sx :=
  SL [sx_bool (little_endian T); SI (dwarf_format T); SI (address_size T)].
Definition sx_augdict (d : augdict) : sx :=
  SL [sx_oz (ad_length d); sx_oz (ad_LSDA_encoding d); sx_oz (ad_FDE_encoding d);
      match ad_personality d with
      | Some p => SL [SI (pe_encoding p); SI (pe_function p)]
      | None => sx_none
      end;
      sx_bool (ad_True d)].

Fixpoint sx_entry (e : entry) : sx :=
  match e with
  | CIE h ins off d ab T =>
      SL [SS "CIE"; SI off;
          SL [SI (ch_length h); SI (ch_CIE_id h); SI (ch_version h); SB (ch_augmentation h);
              sx_oz (ch_address_size h); sx_oz (ch_segment_size h);
              SI (ch_code_alignment_factor h); SI (ch_data_alignment_factor h);
              SI (ch_return_address_register h)];
          SB ab; sx_augdict d; SL (map sx_instr ins); sx_structs T]
  | FDE h ins off T cie ab lsda =>
      SL [SS "FDE"; SI off;
          SL [SI (fh_length h); SI (fh_CIE_pointer h); SI (fh_initial_location h);
              SI (fh_address_range h)];
          SB ab; sx_oz lsda; SL (map sx_instr ins); sx_structs T; sx_entry cie]
  | ZERO off => SL [SS "ZERO"; SI off]
  end.

(* position in the list of the entry an FDE's cie attribute is: the first entry at its offset *)
Fixpoint index_of_offset (o : Z) (l : list entry) (i : Z) : Z :=
  match l with
  | [] => -1
  | e :: r => if entry_offset e =? o then i else index_of_offset o r (i + 1)
  end.
Definition sx_link (l : list entry) (e : entry) : sx :=
  match e with
  | FDE _ _ _ _ cie _ _ => SI (index_of_offset (entry_offset cie) l 0)
  | _ => sx_none
  end.

Definition sx_cfarule (c : CFARule) : sx :=
  SL [sx_oz (cfa_reg c); sx_oz (cfa_offset c);
      match cfa_expr c with Some e => SB e | None => sx_none end].
Definition sx_regrule (kv : Z * RegisterRule) : sx :=
  SL [SI (fst kv); SS (rr_type (snd kv));
      match rr_arg (snd kv) with Some a => sx_arg a | None => sx_none end].
Definition sx_line (l : line) : sx :=
  SL [SI (pc l); sx_cfarule (cfa l); SL (map sx_regrule (regs l))].
Definition sx_decoded (d : DecodedCallFrameTable) : sx :=
  SL [SL (map sx_line (table d)); sx_ints (reg_order d)].

(* a table of the reference interpreter, shown through the view *)
Definition sx_row (r : row) : sx :=
  SL [SI (row_loc r); sx_cfarule (view_cfa (row_cfa r));
      SL (map (fun kv => sx_regrule (fst kv, view_rule (snd kv))) (row_regs r))].
Definition sx_table (t : Spec.C06Cfi.table) : sx :=
  SL [SL (map sx_row (t_rows t)); sx_ints (t_columns t)].

(* ---------------------------------------------------------------- ops *)
Definition model_tables (r : res (list entry)) : sx :=
  match r with
  | Ok l => SL (map (fun e => sx_res sx_decoded (get_decoded e)) l)
  | Err _ => SL []
  end.
Definition model_entries (r : res (list entry)) : sx :=
  match r with
  | Ok l => sx_ok (SL (map (fun e => SL [sx_entry e; sx_link l e]) l))
  | Err e => sx_of_err e
  end.

Fixpoint per_entry {A} (s : ssection) (f : Z -> sentry -> A) (off : Z) (l : list sentry)
  : list A :=
  match l with
  | [] => []
  | e :: r => f off e :: per_entry s f (off + entry_size s e) r
  end.

Definition spec_link (e : sentry) : sx :=
  match e with SFde f => SI (Z.of_nat (f_cie f)) | _ => sx_none end.

Definition op_section (x : sx) : sx :=
  let s := g_section x in
  let r := get_entries (cfi_of s) in
  SL [SB (encode_section s);
      sx_bool (wf_section s);
      model_entries r;
      sx_ok (SL (map (fun p => SL [sx_entry (fst p); spec_link (snd p)])
                     (combine (expected_entries s) (s_entries s))));
      model_tables r;
      SL (per_entry s (fun off e => sx_opt sx_table (expected_table s off e)) 0 (s_entries s));
      SL (per_entry s (fun off e => sx_bool (entry_domain s off e)) 0 (s_entries s))].

Definition op_parse (l : list sx) : sx :=
  let bs := gB (nthx 5 l) in
  let info := mkcfi bs (zlen bs) (gI (nthx 4 l))
                    (mkstructs (gbool (nthx 2 l)) 32 (gI (nthx 3 l))) (gbool (nthx 1 l)) in
  let r := get_entries info in
  SL [model_entries r; model_tables r].

Definition op_table (l : list sx) : sx :=
  let caf := gI (nthx 1 l) in
  let daf := gI (nthx 2 l) in
  let cis := g_instrs (nthx 3 l) in
  match nthx 4 l with
  | SS _ =>
      SL [sx_res sx_decoded (decode_cie caf daf (map to_raw cis));
          sx_opt sx_table (cfi_spec_cie caf daf cis);
          sx_bool (cie_domain caf daf cis);
          SL (map (fun i => sx_instr (to_raw i)) cis); SL []]
  | loc =>
      let fis := g_instrs (nthx 5 l) in
      SL [sx_res sx_decoded (decode_fde caf daf (map to_raw cis) (gI loc) (map to_raw fis));
          sx_opt sx_table (cfi_spec_fde caf daf cis (gI loc) fis);
          sx_bool (fde_domain caf daf cis (gI loc) fis);
          SL (map (fun i => sx_instr (to_raw i)) cis);
          SL (map (fun i => sx_instr (to_raw i)) fis)]
  end.

Definition op_instrs (l : list sx) : sx :=
  let le := gbool (nthx 1 l) in
  let asize := gnat (nthx 2 l) in
  let is := g_instrs (nthx 3 l) in
  let bs := encode_instrs le asize is in
  let T := mkstructs le 32 (Z.of_nat asize) in
  SL [SB bs; sx_bool (forallb (wf_instr_ext asize) is);
      sx_res (fun p => SL [SL (map sx_instr (fst p)); SI (snd p)])
             (parse_instructions (Datatypes.S (length bs)) T bs 0 (zlen bs));
      sx_ok (SL [SL (map (fun i => sx_instr (to_raw i)) is); SI (zlen bs)])].

Definition g_name (x : sx) : option (list Z) := match x with SB b => Some b | _ => None end.

Definition entries_sx (r : res (list entry)) : sx := model_entries r.

Definition op_dwarfinfo (l : list sx) : sx :=
  let sd := g_section (nthx 1 l) in
  let se := g_section (nthx 2 l) in
  let calls := map gbool (gL (nthx 5 l)) in
  let di := mkdwarfinfo (Some (mkdsd (encode_section sd) (g_name (nthx 3 l)) 0
                                     (zlen (encode_section sd)) (s_addr sd)))
                        (Some (mkdsd (encode_section se) (g_name (nthx 4 l)) 0
                                     (zlen (encode_section se)) (s_addr se)))
                        (mkstructs (s_le sd) 32 (Z.of_nat (s_asize sd))) in
  let spec_of (s : ssection) : sx :=
    sx_ok (SL (map (fun p => SL [sx_entry (fst p); spec_link (snd p)])
                   (combine (expected_entries s) (s_entries s)))) in
  SL [SB (encode_section sd); SB (encode_section se);
      sx_bool (negb (s_eh sd) && s_eh se && Bool.eqb (s_le sd) (s_le se)
               && (s_asize sd =? s_asize se)%nat && wf_section sd && wf_section se);
      SL (map entries_sx (cfi_calls di calls));
      SL (map (fun eh : bool => spec_of (if eh then se else sd)) calls)].

Definition dispatch (req : sx) : sx :=
  let l := gL req in
  let op := gS (nthx 0 l) in
  if (op =? "section")%string then op_section (nthx 1 l)
  else if (op =? "parse")%string then op_parse l
  else if (op =? "table")%string then op_table l
  else if (op =? "instrs")%string then op_instrs l
  else if (op =? "dwarfinfo")%string then op_dwarfinfo l
  else sx_err "unknown-op".
