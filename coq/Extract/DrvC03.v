(* Extract/DrvC03.v — driver for C03: runs the very definitions the theorems of
   Props/C03.v are about (Spec.C03Sym, Spec.C03Hash, Model.C03Sections, Model.C03Hash).
   Request: (op args...).  Extracted with ExtrOcamlBasic only. *)
From PV Require Import Base.Fmt Base.Outcome Base.Prim Gen.PyFuns Spec.C03Sym Spec.C03Hash
                       Model.C03Sections Model.C03Hash.
Local Open Scope Z_scope.
Local Open Scope string_scope.

(* ---- decoding requests *)
Definition g_sym (s : sx) : sym :=
  let l := gints s in
  let f (i : nat) := nth i l 0%Z in
  mkSym (f 0%nat) (f 1%nat) (f 2%nat) (f 3%nat) (f 4%nat) (f 5%nat) (f 6%nat) (f 7%nat) (f 8%nat).
Definition g_row (s : sx) : row := (g_sym (nthx 0 (gL s)), gB (nthx 1 (gL s))).
Definition g_rows (s : sx) : list row := map g_row (gL s).
Definition g_xrow (s : sx) : xrow := (gI (nthx 0 (gL s)), gB (nthx 1 (gL s))).
Definition g_irow (s : sx) : irow := ((gI (nthx 0 (gL s)), gI (nthx 1 (gL s))), gB (nthx 2 (gL s))).
Definition g_sec (s : sx) : seccfg :=
  mkSec (gI (nthx 0 (gL s))) (gI (nthx 1 (gL s))) (gI (nthx 2 (gL s))).
(* (le is64 (off size entsize) stroff) *)
Definition g_cfg (s : sx) : symcfg :=
  let l := gL s in mkSymCfg (gbool (nthx 0 l)) (gbool (nthx 1 l)) (g_sec (nthx 2 l)) (gI (nthx 3 l)).
Definition g_sysv (s : sx) : sysv_table := mkSysv (gints (nthx 0 (gL s))) (gints (nthx 1 (gL s))).
Definition g_gnu (s : sx) : gnu_table :=
  let l := gL s in
  mkGnu (gI (nthx 0 l)) (gI (nthx 1 l)) (gints (nthx 2 l)) (gints (nthx 3 l)) (gints (nthx 4 l)).
Definition g_names (s : sx) : list (list Z) := map gB (gL s).

(* ---- encoding answers *)
Definition sx_view (v : list Z * list Z) : sx := SL [SB (fst v); sx_ints (snd v)].
Definition sx_views (l : list (list Z * list Z)) : sx := SL (map sx_view l).
Definition sx_optviews (o : option (list (list Z * list Z))) : sx := sx_opt sx_views o.
Definition sx_optview (o : option (list Z * list Z)) : sx := sx_opt sx_view o.
Definition sx_list {A} (f : A -> sx) (l : list A) : sx := SL (map f l).

(* calls on one object: (num) (get n) (iter k) (byname q) *)
Definition g_call (s : sx) : scall :=
  let l := gL s in
  let op := gS (nthx 0 l) in
  if op =? "num" then CNum
  else if op =? "get" then CGet (gI (nthx 1 l))
  else if op =? "iter" then CIter (gI (nthx 1 l))
  else if op =? "next" then CNext (gI (nthx 1 l))
  else CByName (gB (nthx 1 l)).
Definition g_op (s : sx) : symop :=
  match g_call s with
  | CNum => OpNum | CGet n => OpGet n | CIter k => OpIter k | CByName q => OpByName q | CNext g => OpNext g
  end.
Definition sx_obs (o : symobs) : sx :=
  match o with
  | ObsNum z => sx_ok (SI z)
  | ObsSym r => sx_res sx_view r
  | ObsSyms r => sx_res sx_views r
  | ObsByName r => sx_res sx_optviews r
  | ObsStop => SS "stop"
  end.
Definition sx_answer (a : sanswer) : sx :=
  match a with
  | ANum z => sx_ok (SI z)
  | ASym v => sx_ok (sx_view v)
  | ASyms l => sx_ok (sx_views l)
  | AByName o => sx_ok (sx_optviews o)
  | AStop => SS "stop"
  end.

Definition present_from (names : list (list Z)) (lo : Z) (q : list Z) : bool :=
  existsb (fun i => (lo <=? i)%Z) (indices_named names q).

Definition dispatch (req : sx) : sx :=
  let l := gL req in
  let op := gS (nthx 0 l) in
  let a1 := nthx 1 l in let a2 := nthx 2 l in let a3 := nthx 3 l in let a4 := nthx 4 l in
  (* ---- spec: encoders, well-formedness, expected results *)
  if op =? "enc_symtab" then SB (encode_symtab (gbool a1) (gbool a2) (g_rows a3))
  else if op =? "symtab_ok" then            (* is64 entsize rows strtab *)
    sx_bool (symtab_ok (gbool a1) (gI a2) (g_rows a3) && names_ok (gB a4) (g_rows a3))
  else if op =? "spec_views" then sx_views (views (gB a1) (g_rows a2))
  else if op =? "spec_by_name" then         (* strtab rows queries *)
    let vs := views (gB a1) (g_rows a2) in
    sx_list (fun q => sx_optviews (by_name_views vs q)) (g_names a3)
  else if op =? "enc_shndx" then SB (encode_shndx (gbool a1) (map g_xrow (gL a2)))
  else if op =? "shndx_ok" then sx_bool (shndx_ok (gI a1) (map g_xrow (gL a2)))
  else if op =? "enc_syminfo" then SB (encode_syminfo (gbool a1) (map g_irow (gL a2)))
  else if op =? "syminfo_ok" then sx_bool (syminfo_ok (gI a1) (map g_irow (gL a2)))
  else if op =? "spec_syminfo" then         (* strtab rows irows *)
    sx_views (syminfo_views (names_of (gB a1) (g_rows a2)) (map g_irow (gL a3)))
  else if op =? "enum_tables" then
    let tab (n : string) (t : list (Z * string)) := SL [SS n; sx_list (fun kv => SL [SI (fst kv); SS (snd kv)]) t] in
    SL [tab "bind" spec_st_bind; tab "type" spec_st_type; tab "local" spec_st_local;
        tab "visibility" spec_st_visibility; tab "shndx" spec_st_shndx; tab "boundto" spec_si_boundto]
  else if op =? "hashes" then sx_list (fun n => SL [SI (sysv_hash n); SI (gnu_hash n)]) (g_names a1)
  else if op =? "enc_sysv" then SB (encode_sysv_hash (gbool a1) (g_sysv a2))
  else if op =? "enc_sysv_m" then           (* le table is64 machine: entry width from the spec *)
    SB (encode_sysv_hash_w (sysv_entry_bytes (gbool a3) (gI a4)) (gbool a1) (g_sysv a2))
  else if op =? "wf_sysv" then              (* table strtab rows *)
    sx_bool (wf_sysv_hash (g_sysv a1) (names_of (gB a2) (g_rows a3)))
  else if op =? "enc_gnu" then SB (encode_gnu_hash (gbool a1) (gbool a2) (g_gnu a3))
  else if op =? "wf_gnu" then               (* is64 table strtab rows *)
    sx_bool (wf_gnu_hash (gbool a1) (g_gnu a2) (names_of (gB a3) (g_rows a4)))
  else if op =? "spec_present" then         (* strtab rows lo queries: is the name borne by a symbol >= lo *)
    let names := names_of (gB a1) (g_rows a2) in
    sx_list (fun q => sx_bool (present_from names (gI a3) q)) (g_names a4)
  else if op =? "spec_hist" then            (* strtab rows calls -> (all-calls-ok answers) *)
    let calls := map g_call (gL a3) in
    SL [sx_bool (forallb (call_ok (g_rows a2)) calls); sx_list sx_answer (answers (gB a1) (g_rows a2) [] calls)]
  (* ---- model *)
  else if op =? "m_hist" then               (* img cfg calls cursors: one fresh object driven through the history;
                                               cursors = stream.tell() observed before each call *)
    let curs := gints a4 in
    sx_list sx_obs (snd (sym_run (gB a1) (g_cfg a2) (fun t => nth (Z.to_nat t) curs 0%Z) 0%Z (None, []) (map g_op (gL a3))))
  else if op =? "m_hashes" then
    (* hand models, the pre-repair function, and the functions translated from the live source *)
    sx_list (fun n => SL [SI (elf_hash n); SI (gnu_hash_m n); SI (elf_hash_unrepaired n);
                          SI (gen_elf_hash n); SI (gen_gnu_hash n)]) (g_names a1)
  else if op =? "m_num" then SI (num_symbols (g_cfg a1))
  else if op =? "m_iter" then sx_res sx_views (iter_symbols (gB a1) (g_cfg a2))
  else if op =? "m_get" then                (* img cfg indices *)
    sx_list (fun n => sx_res sx_view (get_symbol (gB a1) (g_cfg a2) n)) (gints a3)
  else if op =? "m_by_name" then            (* img cfg queries *)
    match build_symbol_name_map (gB a1) (g_cfg a2) with
    | Ok m => sx_list (fun q => sx_res sx_optviews (get_symbol_by_name_with (gB a1) (g_cfg a2) m q)) (g_names a3)
    | Err e => sx_list (fun q => sx_of_err e) (g_names a3)
    end
  else if op =? "m_shndx" then              (* img le sec indices *)
    sx_list (fun n => sx_res SI (get_section_index (gB a1) (gbool a2) (g_sec a3) n)) (gints a4)
  else if op =? "m_syminfo" then            (* img cfg sec *)
    SL [SI (syminfo_num_symbols (g_sec a3)); sx_res sx_views (syminfo_iter_symbols (gB a1) (g_cfg a2) (g_sec a3))]
  else if op =? "m_sysv" then               (* img cfg hashoff queries -> (count lookups) *)
    let img := gB a1 in let c := g_cfg a2 in
    (* optional 5th argument: e_machine (default EM_NONE): the entry width the live code chooses *)
    match elf_hash_init_w (hash_wide (c_is64 c) (gI (nthx 5 l))) (c_le c) (c_is64 c) img (gI a3) with
    | Ok P => SL [sx_ok (SI (elf_hash_number_of_symbols P));
                  sx_list (fun q => sx_res sx_optview (elf_hash_get_symbol (get_symbol img c) P q)) (g_names a4)]
    | Err e => SL [sx_of_err e; sx_list (fun q => sx_of_err e) (g_names a4)]
    end
  else if op =? "m_gnu" then                (* img cfg hashoff queries -> (count lookups) *)
    let img := gB a1 in let c := g_cfg a2 in
    match gnu_hash_init (c_le c) (c_is64 c) img (gI a3) with
    | Ok P =>
        let rc := read_chain_word (c_le c) img P in
        let fuel := gnu_fuel img in
        SL [sx_res SI (gnu_hash_number_of_symbols rc fuel P);
            sx_list (fun q => sx_res sx_optview
                       (gnu_hash_get_symbol (c_is64 c) rc (get_symbol img c) fuel P q)) (g_names a4)]
    | Err e => SL [sx_of_err e; sx_list (fun q => sx_of_err e) (g_names a4)]
    end
  else sx_err "unknown-op".
