(* Extract/DrvC15.v — driver for C15: runs the very definitions the theorems of
   Props/C15.v are about (Model/C15GnuVersions.v, Spec/C15Versions.v).
   Request: (op args...).  Abstract shapes (all integers unless noted):
     shdr    = (type offset size entsize link info)
     verdaux = (name next #str)            verdef  = (version flags ndx hash aux next (verdaux...))
     vernaux = (hash flags other name next #str)
     verneed = (version file aux next #str (vernaux...))
     versym  = (index hidden)              dynsym  = (name bind type local pad vis shndx value size #str)
   Extracted with ExtrOcamlBasic only. *)
From PV Require Import Base.Fmt Base.Outcome Base.Enum Spec.ElfGabi Spec.C15Versions Model.C15GnuVersions.
Open Scope string_scope.
Open Scope list_scope.

(* ---- decoding abstract inputs ---- *)
Definition g_shdr (s : sx) : shdr :=
  let l := gL s in
  mk_shdr (gI (nthx 0 l)) (gI (nthx 1 l)) (gI (nthx 2 l)) (gI (nthx 3 l)) (gI (nthx 4 l)) (gI (nthx 5 l)).
Definition g_verdaux (s : sx) : verdaux :=
  let l := gL s in mk_verdaux (gI (nthx 0 l)) (gI (nthx 1 l)) (gB (nthx 2 l)).
Definition g_verdef (s : sx) : verdef :=
  let l := gL s in
  mk_verdef (gI (nthx 0 l)) (gI (nthx 1 l)) (gI (nthx 2 l)) (gI (nthx 3 l)) (gI (nthx 4 l)) (gI (nthx 5 l))
            (map g_verdaux (gL (nthx 6 l))).
Definition g_vernaux (s : sx) : vernaux :=
  let l := gL s in
  mk_vernaux (gI (nthx 0 l)) (gI (nthx 1 l)) (gI (nthx 2 l)) (gI (nthx 3 l)) (gI (nthx 4 l)) (gB (nthx 5 l)).
Definition g_verneed (s : sx) : verneed :=
  let l := gL s in
  mk_verneed (gI (nthx 0 l)) (gI (nthx 1 l)) (gI (nthx 2 l)) (gI (nthx 3 l)) (gB (nthx 4 l))
             (map g_vernaux (gL (nthx 5 l))).
Definition g_versym (s : sx) : versym :=
  let l := gL s in mk_versym (gI (nthx 0 l)) (gbool (nthx 1 l)).
Definition g_dynsym (s : sx) : dynsym :=
  let l := gL s in
  mk_dynsym (gI (nthx 0 l)) (gI (nthx 1 l)) (gI (nthx 2 l)) (gI (nthx 3 l)) (gI (nthx 4 l)) (gI (nthx 5 l))
            (gI (nthx 6 l)) (gI (nthx 7 l)) (gI (nthx 8 l)) (gB (nthx 9 l)).
Definition g_entry (s : sx) : versym * dynsym :=
  let l := gL s in (g_versym (nthx 0 l), g_dynsym (nthx 1 l)).

(* ---- results ---- *)
Definition sx_fval (v : fval) : sx :=
  match v with VZ z => SI z | VB b => SB b | VL zs => sx_ints zs end.
Definition sx_record (r : record) : sx := SL (map (fun kv => SL [SS (fst kv); sx_fval (snd kv)]) r).
Definition sx_aux (a : aux_view) : sx := SL [sx_record (fst a); SB (snd a)].
Definition sx_ver (v : ver_view) : sx :=
  SL [sx_record (fst (fst v)); sx_opt SB (snd (fst v)); SL (map sx_aux (snd v))].
Definition sx_hit (h : record * list Z * aux_view) : sx :=
  SL [sx_record (fst (fst h)); SB (snd (fst h)); sx_aux (snd h)].
Definition sx_enum (e : enum_val) : sx :=
  match e with Name n => SS n | Raw v => SI v | MappingError => SS "MappingError" end.
Definition sx_vsym (x : enum_val * list Z) : sx := SL [sx_enum (fst x); SB (snd x)].
Definition sx_list {A} (f : A -> sx) (l : list A) : sx := SL (map f l).

(* generic scaffolding encoder (ELF header, section headers): values are ints or byte strings *)
Definition g_fval (s : sx) : fval := match s with SB b => VB b | _ => VZ (gI s) end.
Definition spec_layout (name : string) (le is64 : bool) : option layout :=
  if name =? "Ehdr" then Some (spec_Elf_Ehdr le is64)
  else if name =? "Shdr" then Some (spec_Elf_Shdr le is64)
  else None.

Definition dispatch (req : sx) : sx :=
  let l := gL req in
  let op := gS (nthx 0 l) in
  let le := gbool (nthx 1 l) in
  let is64 := gbool (nthx 2 l) in
  let a3 := nthx 3 l in let a4 := nthx 4 l in let a5 := nthx 5 l in let a6 := nthx 6 l in let a7 := nthx 7 l in
  (* --- spec encoders: (op le is64 abstract) --- *)
  if op =? "enc" then
    match spec_layout (gS a3) le is64 with
    | Some L => let vals := map g_fval (gL a4) in SL [sx_bool (fits_layout L vals); SB (encode_layout L vals)]
    | None => sx_err "unknown-layout"
    end
  else if op =? "enc_verdef" then SL [sx_bool (verdef_fits le (g_verdef a3)); SB (enc_verdef le (g_verdef a3))]
  else if op =? "enc_verdaux" then SL [sx_bool (verdaux_fits le (g_verdaux a3)); SB (enc_verdaux le (g_verdaux a3))]
  else if op =? "enc_verneed" then SL [sx_bool (verneed_fits le (g_verneed a3)); SB (enc_verneed le (g_verneed a3))]
  else if op =? "enc_vernaux" then SL [sx_bool (vernaux_fits le (g_vernaux a3)); SB (enc_vernaux le (g_vernaux a3))]
  else if op =? "enc_versym" then SL [sx_bool (versym_fits (g_versym a3)); SB (enc_versym le (g_versym a3))]
  else if op =? "enc_dynsym" then
    SL [sx_bool (dynsym_fits le is64 (g_dynsym a3)); SB (enc_dynsym le is64 (g_dynsym a3))]
  (* --- (verdef le is64 #img (shdr...) n (verdef...) (idx...)) --- *)
  else if op =? "verdef" then
    let img := gB a3 in let shdrs := map g_shdr (gL a4) in let n := gI a5 in
    let defs := map g_verdef (gL a6) in let idxs := gints a7 in
    SL [ sx_bool (verdef_section_wf le img shdrs (Z.to_nat n) defs);
         sx_res (sx_list sx_ver) (file_verdef_versions le is64 img shdrs n);
         sx_ok (sx_list sx_ver (map verdef_view defs));
         sx_res SI (file_num_versions is64 shdrs n);
         sx_ok (SI (zlen defs));
         sx_list (fun i => sx_res (sx_opt sx_ver) (file_verdef_get_version le is64 img shdrs n i)) idxs;
         sx_list (fun i => sx_ok (sx_opt sx_ver (option_map verdef_view (verdef_find i defs)))) idxs;
         (* hypothesis of C15_verdef_ended_at_zero_link (its expected value is element 2) *)
         sx_bool (verdef_section_ended_wf le img shdrs (Z.to_nat n) defs) ]
  (* --- (verneed le is64 #img (shdr...) n (verneed...) (idx...)) --- *)
  else if op =? "verneed" then
    let img := gB a3 in let shdrs := map g_shdr (gL a4) in let n := gI a5 in
    let needs := map g_verneed (gL a6) in let idxs := gints a7 in
    let hi := verneed_has_indexes needs in
    SL [ sx_bool (verneed_section_wf le img shdrs (Z.to_nat n) needs);
         sx_res (sx_list sx_ver) (file_verneed_versions le is64 img shdrs n);
         sx_ok (sx_list sx_ver (map verneed_view needs));
         sx_res SI (file_num_versions is64 shdrs n);
         sx_ok (SI (zlen needs));
         sx_list (fun i => sx_res (sx_opt sx_hit) (file_verneed_get_version le is64 img shdrs n i)) idxs;
         sx_list (fun i => sx_ok (sx_opt sx_hit (option_map verneed_hit_view (verneed_find i needs)))) idxs;
         sx_res (fun p => SL [sx_res sx_bool (fst p); sx_res sx_bool (snd p)])
                (file_verneed_has_indexes le is64 img shdrs n);
         sx_ok (SL [sx_ok (sx_bool hi); sx_ok (sx_bool hi)]);
         (* hypothesis of C15_verneed_ended_at_zero_link (its expected value is element 2) *)
         sx_bool (verneed_section_ended_wf le img shdrs (Z.to_nat n) needs) ]
  (* --- (versym le is64 #img (shdr...) n ((versym dynsym)...)) --- *)
  else if op =? "versym" then
    let img := gB a3 in let shdrs := map g_shdr (gL a4) in let n := gI a5 in
    let entries := map g_entry (gL a6) in
    SL [ sx_bool (versym_section_wf le is64 img shdrs (Z.to_nat n) entries);
         sx_res (sx_list sx_vsym) (file_versym_symbols le is64 img shdrs n);
         sx_ok (sx_list sx_vsym (map versym_view entries));
         sx_res SI (file_versym_num_symbols is64 shdrs n);
         sx_ok (SI (zlen entries)) ]
  else sx_err "unknown-op".
