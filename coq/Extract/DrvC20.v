(* Extract/DrvC20.v — driver for C20: runs the very definitions the theorems of
   Props/C20.v are about (Model/C20Attr.v, Model/C20Ehabi.v, Spec/C20Attr.v, Spec/C20Ehabi.v).
   Request: (op args...).  Extracted with ExtrOcamlBasic only. *)
From PV Require Import Gen.PyFuns.
From PV Require Import Base.Outcome Base.Prim Spec.PrimSpec Model.C20Types
  Spec.C20Attr Spec.C20Ehabi Model.C20Attr Model.C20Ehabi Spec.C20Hist Model.C20Hist.
Open Scope string_scope.
Open Scope list_scope.

(* ---------- results -> sx ---------- *)
Definition sx_oextra (e : oextra) : sx :=
  match e with XNone => sx_none | XNums l => sx_ints l | XStr s => SB s end.
Fixpoint sx_oval (v : oval) : sx :=
  match v with
  | OInt z => SI z
  | OStr s => SB s
  | ONest n v' e => SL [SS n; sx_oval v'; sx_oextra e]
  end.
Definition sx_oattr (a : oattr) : sx :=
  let '(n, v, e) := a in SL [SS n; sx_oval v; sx_oextra e].
Definition sx_osub (s : osub) : sx := SL [sx_oattr (fst s); SL (map sx_oattr (snd s))].
Definition sx_osubsec (s : osubsec) : sx :=
  let '(len, vendor, subs) := s in SL [SI len; SB vendor; SL (map sx_osub subs)].
Definition sx_section (l : list osubsec) : sx := SL (map sx_osubsec l).

Definition sx_oz (o : option Z) : sx := match o with Some z => SI z | None => sx_none end.
Definition sx_ob (o : option (list Z)) : sx := match o with Some b => SB b | None => sx_none end.
Definition sx_items (l : list (list Z * string)) : sx := SL (map (fun p => SL [SB (fst p); SS (snd p)]) l).
Definition sx_entry (r : eh_out) (mn : sx) : sx :=
  SL [sx_oz (eo_function_offset r); sx_oz (eo_personality r); sx_ob (eo_bytecode r);
      sx_oz (eo_eh_table_offset r); sx_bool (eo_unwindable r); sx_bool (eo_corrupt r); mn].

(* ---------- sx -> abstract objects ---------- *)
Definition g_attr (s : sx) : sattr :=
  let l := gL s in
  let k := gS (nthx 0 l) in
  let z i := gI (nthx i l) in let n i := gnat (nthx i l) in let b i := gB (nthx i l) in
  if k =? "u" then AUleb (z 1%nat) (n 2%nat) (z 3%nat) (n 4%nat)
  else if k =? "n" then ANtbs (z 1%nat) (n 2%nat) (b 3%nat)
  else if k =? "c" then ACompat (z 1%nat) (n 2%nat) (z 3%nat) (n 4%nat) (b 5%nat)
  else if k =? "nu" then ANestUleb (z 1%nat) (n 2%nat) (z 3%nat) (n 4%nat) (z 5%nat) (n 6%nat)
  else ANestNtbs (z 1%nat) (n 2%nat) (z 3%nat) (n 4%nat) (b 5%nat).
Definition g_ssub (s : sx) : ssub :=
  let l := gL s in
  {| ss_scope := gI (nthx 0 l); ss_tp := gnat (nthx 1 l);
     ss_nums := map (fun p => (gI (nthx 0 (gL p)), gnat (nthx 1 (gL p)))) (gL (nthx 2 l));
     ss_termpad := gnat (nthx 3 l); ss_attrs := map g_attr (gL (nthx 4 l)) |}.
Definition g_subsec (s : sx) : subsec :=
  let l := gL s in {| sb_vendor := gB (nthx 0 l); sb_subs := map g_ssub (gL (nthx 1 l)) |}.
Definition g_section (s : sx) : list subsec := map g_subsec (gL s).
Definition g_flavour (s : sx) : flavour := if gS s =? "riscv" then RISCV else ARM.
Definition g_impl (s : sx) : attr_impl := if gS s =? "riscv" then riscv_impl else arm_impl.

Definition g_quad (s : sx) : quad :=
  let l := gL s in (gI (nthx 0 l), gI (nthx 1 l), gI (nthx 2 l), gI (nthx 3 l)).
Definition g_entry (s : sx) : eh_abs :=
  let l := gL s in
  let k := gS (nthx 0 l) in
  let z i := gI (nthx i l) in
  if k =? "cant" then ECantUnwind (z 1%nat)
  else if k =? "inline" then EInline (z 1%nat) (z 2%nat) (z 3%nat) (z 4%nat)
  else if k =? "t0" then ETable0 (z 1%nat) (z 2%nat) (z 3%nat) (z 4%nat) (z 5%nat)
  else if k =? "t12" then ETable12 (z 1%nat) (z 2%nat) (z 3%nat) (z 4%nat) (z 5%nat) (map g_quad (gL (nthx 6 l)))
  else if k =? "gen" then EGeneric (z 1%nat) (z 2%nat) (z 3%nat)
  else if k =? "cidx" then ECorruptIndex (z 1%nat) (z 2%nat)
  else if k =? "cinl" then ECorruptInline (z 1%nat) (z 2%nat)
  else if k =? "ctab" then ECorruptTable (z 1%nat) (z 2%nat) (z 3%nat)
  else ECorruptModel (z 1%nat) (z 2%nat) (z 3%nat) (z 4%nat).
Definition g_insn (s : sx) : insn :=
  let l := gL s in
  let k := gS (nthx 0 l) in
  if k =? "i1" then I1 (gI (nthx 1 l))
  else if k =? "i2" then I2 (gI (nthx 1 l)) (gI (nthx 2 l))
  else IU (gI (nthx 1 l)) (gnat (nthx 2 l)).

(* the disassembly the specification assigns to a byte-code array (None: no array) *)
Definition spec_mnemonics (bc : option (list Z)) : sx :=
  match bc with
  | None | Some [] => sx_none
  | Some b => match spec_disasm (S (List.length b)) b with
              | Some l => sx_items l
              | None => sx_err "truncated"
              end
  end.
Definition model_mnemonics (r : eh_out) : sx :=
  match mnemonic_array r with
  | Ok None => sx_none
  | Ok (Some l) => sx_items l
  | Err e => sx_of_err e
  end.

(* ---------- histories (Spec/C20Hist.v, Model/C20Hist.v) ---------- *)
Definition g_filter (s : sx) : option (list Z) := match s with SB b => Some b | _ => None end.
Definition g_hop (s : sx) : hop :=
  let l := gL s in
  let k := gS (nthx 0 l) in
  if k =? "start" then OStart (gnat (nthx 1 l)) (g_filter (nthx 2 l))
  else if k =? "next" then ONext (gnat (nthx 1 l))
  else if (k =? "close") || (k =? "drop") then OClose (gnat (nthx 1 l))
  else if k =? "num" then ONum (gnat (nthx 1 l))
  else if k =? "list" then OList (gnat (nthx 1 l))
  else if k =? "iter" then OIter (gnat (nthx 1 l)) (g_filter (nthx 2 l))
  else if k =? "copy" then OCopy (gnat (nthx 1 l))
  else ODisturb (gI (nthx 1 l)).
Definition sx_view (v : view) : sx :=
  match v with
  | VSubsec len vendor => SL [SS "subsec"; SI len; SB vendor]
  | VSubsub h => SL [SS "subsub"; sx_oattr h]
  | VAttr a => SL [SS "attr"; sx_oattr a]
  end.
Definition sx_hans (a : hans) : sx :=
  match a with
  | HUnit => SL [SS "unit"]
  | HItem id v => SL [SS "item"; match id with Some n => SI (Z.of_nat n) | None => sx_none end; sx_view v]
  | HStop => SL [SS "stop"]
  | HInt n => SL [SS "int"; SI n]
  | HItems first l => SL [SS "items"; SI (Z.of_nat first); SL (map sx_view l)]
  | HErr e => sx_of_err e
  | HBad => SL [SS "bad"]
  end.
Definition g_eop (s : sx) : eop :=
  let l := gL s in
  let k := gS (nthx 0 l) in
  if k =? "num" then ENum
  else if k =? "get" then EGet (gI (nthx 1 l))
  else if k =? "fields" then EFields (gnat (nthx 1 l))
  else if k =? "mnem" then EMnem (gnat (nthx 1 l))
  else if k =? "decoder" then EDecoder (gnat (nthx 1 l))
  else if k =? "redecode" then ERedecode (gnat (nthx 1 l))
  else if k =? "copyinfo" then ECopyInfo
  else if k =? "reopen" then EReopen
  else if k =? "mutate" then EMutate (gnat (nthx 1 l))
  else ERead (gnat (nthx 1 l)).
Definition sx_eans (a : eans) : sx :=
  match a with
  | EAInt n => SL [SS "int"; SI n]
  | EAEntry r => SL [SS "entry"; sx_entry r sx_none]
  | EAMnem None => SL [SS "mnem"; sx_none]
  | EAMnem (Some l) => SL [SS "mnem"; sx_items l]
  | EAErr e => sx_of_err e
  | EAUnit => SL [SS "unit"]
  | EABad => SL [SS "bad"]
  end.
(* the stateless oracle of an index whose entries are [ents], the first at [off] *)
Definition spec_entry_at (off : Z) (ents : list eh_abs) (n : Z) : res eh_out :=
  if ((0 <=? n)%Z && (n <? zlen ents)%Z)%bool then
    match nth_error ents (Z.to_nat n) with
    | Some a => Ok (expected_entry (off + 8 * n)%Z a)
    | None => Err (EPy "IndexError")
    end
  else Err (EPy "IndexError").
Definition spec_disasm_res (b : list Z) : res mnitems :=
  match spec_disasm (S (List.length b)) b with Some l => Ok l | None => Err (EPy "truncated") end.

(* the ten Elf_Shdr fields as the harness wrote them into the section header table *)
Definition g_shdr (s : sx) : shdr :=
  combine ["sh_name"; "sh_type"; "sh_flags"; "sh_addr"; "sh_offset"; "sh_size"; "sh_link"; "sh_info";
           "sh_addralign"; "sh_entsize"] (map gI (gL s)).

Definition dispatch (req : sx) : sx :=
  let l := gL req in
  let op := gS (nthx 0 l) in
  let a1 := nthx 1 l in let a2 := nthx 2 l in let a3 := nthx 3 l in
  let a4 := nthx 4 l in let a5 := nthx 5 l in
  (* ---- build attributes ---- *)
  if op =? "attr_enc" then SB (enc_section (gbool a2) (g_section a3))
  else if op =? "attr_wf" then sx_bool (wf_section (g_flavour a1) (g_section a2))
  else if op =? "attr_expected" then sx_ok (sx_section (expected_section (g_flavour a1) (g_section a2)))
  else if op =? "attr_model" then
    sx_res sx_section (read_attr_section (g_impl a1) (gbool a2) (gB a3) (gI a4) (gI a5))
  else if op =? "attr_model_sec" then
    sx_res sx_section (read_attr_section_sec (g_impl a1) (gbool a2) (gB a3) (g_shdr a4))
  else if op =? "attr_hist_model_sec" then
    sx_res (fun r => SL (map sx_hans r))
           (attr_hist_sec (g_impl a1) (gbool a2) (gB a3) (g_shdr a4) (map g_hop (gL a5)))
  else if op =? "eh_model_sec" then
    sx_res (fun r => sx_entry r (model_mnemonics r)) (get_entry_sec (gB a1) (gbool a2) (g_shdr a3) (gI a4))
  else if op =? "eh_hist_model_sec" then
    SL (map sx_eans (eh_hist_sec (gB a1) (gbool a2) (g_shdr a3) (map g_eop (gL a4))))
  else if op =? "attr_hist_model" then
    sx_res (fun r => SL (map sx_hans r))
           (attr_hist (g_impl a1) (gbool a2) (gB a3) (gI a4) (gI a5) (map g_hop (gL (nthx 6 l))))
  else if op =? "attr_hist_spec" then
    sx_ok (SL (map sx_hans (spec_hist (expected_section (g_flavour a1) (g_section a2)) (map g_hop (gL a3)))))
  (* ---- EHABI ---- *)
  else if op =? "eh_hist_model" then
    SL (map sx_eans (eh_hist (gB a1) (gbool a2) (gI a3) (gI a4) (map g_eop (gL a5))))
  else if op =? "eh_hist_spec" then
    let ents := map g_entry (gL a2) in
    SL (map sx_eans (eh_spec_hist (zlen ents) (spec_entry_at (gI a1) ents) spec_disasm_res (map g_eop (gL a3))))
  else if op =? "prel31_model" then SI (PV.Gen.PyFuns.gen_arm_expand_prel31 (gI a1) (gI a2))   (* translated body; = hand model by theorem *)
  else if op =? "prel31_spec" then SI (prel31_spec (gI a1) (gI a2))
  else if op =? "eh_enc" then
    let a := g_entry a3 in
    SL [SB (enc_index (gbool a1) (gI a2) a); SI (table_offset a); SB (enc_table (gbool a1) a)]
  else if op =? "eh_wf" then sx_bool (wf_entry (gI a1) (g_entry a2))
  else if op =? "eh_expected" then
    let a := g_entry a2 in
    let e := expected_entry (gI a1) a in
    SL [sx_ok (sx_entry e (spec_mnemonics (eo_bytecode e))); sx_bool (tbl_specified a)]
  else if op =? "eh_model" then
    sx_res (fun r => sx_entry r (model_mnemonics r))
           (get_entry (gB a1) (gbool a2) (gI a3) (gI a4) (gI a5))
  else if op =? "bc_enc" then SB (enc_insns (map g_insn (gL a1)))
  else if op =? "bc_wf" then sx_bool (forallb wf_insn (map g_insn (gL a1)))
  else if op =? "bc_expected" then sx_ok (sx_items (expected_insns (map g_insn (gL a1))))
  else if op =? "bc_model" then sx_res sx_items (bc_decode (gB a1))
  else if op =? "bc_spec" then
    match spec_disasm (S (List.length (gB a1))) (gB a1) with
    | Some r => sx_ok (sx_items r)
    | None => sx_err "truncated"
    end
  else sx_err "unknown-op".
