(* Extract/DrvC07.v — driver for C07: exposes the model (Model/C07Lists.v instantiated with the Gen
   tables), the spec encoders / meanings / wf checks (Spec/C07Lists.v, Spec/C07Sections.v) to the
   harness.  Request: (op args...).  Extracted with ExtrOcamlBasic only. *)
From Coq Require Import String.
From PV Require Import Base.Outcome Base.Prim Base.PyData Spec.PrimSpec
  Model.C07Kinds Model.C07Lists Model.C07Session Model.C07Inst Gen.C07Tables Spec.C07Lists Spec.C07Sections.
From Coq Require Import ZArith List Bool.
Import ListNotations.
Open Scope string_scope.
Open Scope list_scope.
Open Scope Z_scope.
Notation "a == b" := (String.eqb a b) (at level 70).

(* ------------------------------------------------------------------ decoding abstract inputs *)
Definition g_opt {A} (f : sx -> A) (s : sx) : option A :=
  match s with SS _ => None | _ => Some (f s) end.              (* "none" = absent *)
Definition g_list {A} (f : sx -> A) (s : sx) : list A := map f (gL s).
Definition g_uleb (s : sx) : ulebv := (gI (nthx 0 (gL s)), gnat (nthx 1 (gL s))).
Definition g_counted (s : sx) : counted := (gnat (nthx 0 (gL s)), gB (nthx 1 (gL s))).
Definition g_view (s : sx) : viewpair := (g_uleb (nthx 0 (gL s)), g_uleb (nthx 1 (gL s))).

Definition g_v4loc (s : sx) : v4loc :=
  let l := gL s in
  if gS (nthx 0 l) == "base" then V4Base (gI (nthx 1 l))
  else V4Loc (gI (nthx 1 l)) (gI (nthx 2 l)) (gB (nthx 3 l)).
Definition g_v4rng (s : sx) : v4rng :=
  let l := gL s in
  if gS (nthx 0 l) == "base" then R4Base (gI (nthx 1 l))
  else R4Range (gI (nthx 1 l)) (gI (nthx 2 l)).
Definition g_lle (s : sx) : lle :=
  let l := gL s in
  let k := gS (nthx 0 l) in
  let a1 := nthx 1 l in let a2 := nthx 2 l in let a3 := nthx 3 l in
  if k == "base_addressx" then LBaseAddressx (g_uleb a1)
  else if k == "startx_endx" then LStartxEndx (g_uleb a1) (g_uleb a2) (g_counted a3)
  else if k == "startx_length" then LStartxLength (g_uleb a1) (g_uleb a2) (g_counted a3)
  else if k == "offset_pair" then LOffsetPair (g_uleb a1) (g_uleb a2) (g_counted a3)
  else if k == "default_location" then LDefaultLocation (g_counted a1)
  else if k == "base_address" then LBaseAddress (gI a1)
  else if k == "start_end" then LStartEnd (gI a1) (gI a2) (g_counted a3)
  else LStartLength (gI a1) (g_uleb a2) (g_counted a3).
Definition g_rle (s : sx) : rle :=
  let l := gL s in
  let k := gS (nthx 0 l) in
  let a1 := nthx 1 l in let a2 := nthx 2 l in
  if k == "base_addressx" then RBaseAddressx (g_uleb a1)
  else if k == "startx_endx" then RStartxEndx (g_uleb a1) (g_uleb a2)
  else if k == "startx_length" then RStartxLength (g_uleb a1) (g_uleb a2)
  else if k == "offset_pair" then ROffsetPair (g_uleb a1) (g_uleb a2)
  else if k == "base_address" then RBaseAddress (gI a1)
  else if k == "start_end" then RStartEnd (gI a1) (gI a2)
  else RStartLength (gI a1) (g_uleb a2).

Definition g_item {A} (f : sx -> A) (s : sx) : item A :=
  let l := gL s in
  if gS (nthx 0 l) == "gap" then IGap (gB (nthx 1 l))
  else IList (g_list g_view (nthx 1 l)) (g_list f (nthx 2 l)).
(* (is64 version asz seg (index...) (item...)) *)
Definition g_lunit {A} (f : sx -> A) (s : sx) : @lunit A :=
  let l := gL s in
  {| lu_is64 := gbool (nthx 0 l); lu_version := gI (nthx 1 l); lu_asz := gI (nthx 2 l);
     lu_seg := gI (nthx 3 l); lu_index := g_list (fun x => match x with
                                   | SL p => (gnat (nthx 0 p), gnat (nthx 1 p))   (* (list entry): tail from that entry *)
                                   | _ => (gnat x, 0%nat)                         (* the whole list *)
                                   end) (nthx 4 l); lu_items := g_list (g_item f) (nthx 5 l) |}.
(* (is64 version asz seg (offsets...) #body) *)
Definition g_unit (s : sx) : unit_blk :=
  let l := gL s in
  {| ub_is64 := gbool (nthx 0 l); ub_version := gI (nthx 1 l); ub_asz := gI (nthx 2 l);
     ub_seg := gI (nthx 3 l); ub_offsets := gints (nthx 4 l); ub_body := gB (nthx 5 l) |}.

(* (le asz loc ranges loclists rnglists addr) *)
Definition g_sections (s : sx) : sections :=
  let l := gL s in
  {| s_le := gbool (nthx 0 l); s_asz := gnat (nthx 1 l);
     s_loc := g_opt gB (nthx 2 l); s_ranges := g_opt gB (nthx 3 l);
     s_loclists := g_opt gB (nthx 4 l); s_rnglists := g_opt gB (nthx 5 l); s_addr := g_opt gB (nthx 6 l) |}.
(* (version is64 asz addr_base loclists_base rnglists_base) *)
Definition g_cuinfo (s : sx) : cuinfo :=
  let l := gL s in
  {| cu_version := gI (nthx 0 l); cu_is64 := gbool (nthx 1 l); cu_asz := gnat (nthx 2 l);
     cu_addr_base := g_opt gI (nthx 3 l); cu_loclists_base := g_opt gI (nthx 4 l);
     cu_rnglists_base := g_opt gI (nthx 5 l) |}.
Definition g_attr (s : sx) : attr :=
  let l := gL s in
  {| a_name := gS (nthx 0 l); a_form := gS (nthx 1 l);
     a_raw := match nthx 2 l with SB b => ABytes b | x => AInt (gI x) end |}.
(* (version is64 asz ((attr...)...)) *)
Definition g_cuview (s : sx) : cuview :=
  let l := gL s in
  {| cv_version := gI (nthx 0 l); cv_is64 := gbool (nthx 1 l); cv_asz := gnat (nthx 2 l);
     cv_dies := g_list (g_list g_attr) (nthx 3 l) |}.

Definition g_fval (s : sx) : fval :=
  match s with
  | SI z => FInt z
  | SB b => FBytes b
  | SS t => FStr t
  | SL [SS "bool"; SI z] => FBool (negb (z =? 0))
  | SL l => FInts (map gI l)
  end.
Definition g_tup (s : sx) : tup := (gS (nthx 0 (gL s)), map g_fval (tl (gL s))).
Definition g_container (s : sx) : container :=
  map (fun p => (gS (nthx 0 (gL p)), g_fval (nthx 1 (gL p)))) (gL s).

(* ------------------------------------------------------------------ encoding results *)
Definition x_fval (v : fval) : sx :=
  match v with
  | FInt z => SI z
  | FBytes b => SB b
  | FStr s => SS s
  | FBool b => SL [SS "bool"; sx_bool b]
  | FInts l => SL (map SI l)
  end.
Definition x_tup (t : tup) : sx := SL (SS (fst t) :: map x_fval (snd t)).
Definition x_tups (l : list tup) : sx := SL (map x_tup l).
Definition x_container (c : container) : sx := SL (map (fun p => SL [SS (fst p); x_fval (snd p)]) c).
Definition x_containers (l : list container) : sx := SL (map x_container l).
Definition x_expect (ex : list (Z * Z * list tup)) : sx :=
  SL (map (fun e => SL [SI (fst (fst e)); SI (snd (fst e)); x_tups (snd e)]) ex).
Definition x_units_expect (ex : list (Z * Z * list (Z * Z * list tup))) : sx :=
  SL (map (fun e => SL [SI (fst (fst e)); SI (snd (fst e)); x_expect (snd e)]) ex).

Definition stream_of (o : option (list Z)) : list Z := match o with Some s => s | None => [] end.

(* ------------------------------------------------------------------ sessions (Model/C07Session.v)
   act: (parse k n) | (fetch k d name) | (get_ex offset)
   op:  (act a) | (iter_loc version sched) | (iter_rng version sched) | (cus_loc sched) | (cus_rng sched)
        | (cu_ex unit-index sched);  sched = ((act...)...) *)
Definition g_act (s : sx) : act :=
  let l := gL s in
  let k := gS (nthx 0 l) in
  if k == "parse" then AParse (gnat (nthx 1 l)) (gnat (nthx 2 l))
  else if k == "fetch" then AFetch (gnat (nthx 1 l)) (gnat (nthx 2 l)) (gS (nthx 3 l))
  else AGetRngEx (gI (nthx 1 l)).
Definition g_sched (s : sx) : list (list act) := g_list (g_list g_act) s.
Definition g_op (s : sx) : op :=
  let l := gL s in
  let k := gS (nthx 0 l) in
  if k == "act" then OAct (g_act (nthx 1 l))
  else if k == "iter_loc" then OIterLoc (gI (nthx 1 l)) (g_sched (nthx 2 l))
  else if k == "iter_rng" then OIterRng (gI (nthx 1 l)) (g_sched (nthx 2 l))
  else if k == "cus_loc" then OIterCUsLoc (g_sched (nthx 1 l))
  else if k == "cus_rng" then OIterCUsRng (g_sched (nthx 1 l))
  else OIterCUEx (gnat (nthx 1 l)) (g_sched (nthx 2 l)).
Definition x_ev (e : ev) : sx :=
  match e with
  | ETups label l => SL [SS label; x_tups l]
  | ERaw label l => SL [SS label; x_containers l]
  | EHdr label c => SL [SS label; x_container c]
  end.

(* ------------------------------------------------------------------ dispatch *)
Definition dispatch (req : sx) : sx :=
  let l := gL req in
  let op := gS (nthx 0 l) in
  let a1 := nthx 1 l in let a2 := nthx 2 l in let a3 := nthx 3 l in
  let a4 := nthx 4 l in let a5 := nthx 5 l in
  (* ---- spec: single lists.  (op le asz entries) / meanings (op le asz tbl pos entries) *)
  if op == "enc_v4loc" then SB (enc_v4loc_list (gbool a1) (gnat a2) (g_list g_v4loc a3))
  else if op == "enc_v4rng" then SB (enc_v4rng_list (gbool a1) (gnat a2) (g_list g_v4rng a3))
  else if op == "enc_lle" then SB (enc_lle_list (gbool a1) (gnat a2) (g_list g_lle a3))
  else if op == "enc_rle" then SB (enc_rle_list (gbool a1) (gnat a2) (g_list g_rle a3))
  else if op == "enc_addr" then SB (enc_addr_table (gbool a1) (gnat a2) (gints a3))
  else if op == "enc_unit" then SB (enc_unit (gbool a1) (g_unit a2))
  else if op == "wf_v4loc" then sx_bool (forallb (wf_v4loc (gnat a1)) (g_list g_v4loc a2))
  else if op == "wf_v4rng" then sx_bool (forallb (wf_v4rng (gnat a1)) (g_list g_v4rng a2))
  else if op == "wf_lle" then sx_bool (forallb (wf_lle (gnat a1) (gI a2)) (g_list g_lle a3))
  else if op == "wf_rle" then sx_bool (forallb (wf_rle (gnat a1) (gI a2)) (g_list g_rle a3))
  else if op == "wf_addr" then sx_bool (wf_addr_table (gnat a1) (gints a2))
  else if op == "wf_unit" then sx_bool (wf_unit (g_unit a1))
  else if op == "mean_v4loc" then x_tups (v4loc_meaning (gbool a1) (gnat a2) (gI a3) (g_list g_v4loc a4))
  else if op == "mean_v4rng" then x_tups (v4rng_meaning (gbool a1) (gnat a2) (gI a3) (g_list g_v4rng a4))
  else if op == "mean_lle" then
    x_tups (lle_meaning (gbool a1) (gnat a2) (gints a3) (gI a4) (g_list g_lle a5))
  else if op == "mean_rle" then
    x_tups (rle_meaning (gbool a1) (gnat a2) (gints a3) (gI a4) (g_list g_rle a5))
  else if op == "raw_rle" then x_containers (rle_raw_meaning (gbool a1) (gnat a2) (gI a3) (g_list g_rle a4))
  else if op == "unit_headers" then x_containers (unit_headers (gI a1) (g_list g_unit a2))
  (* ---- spec: whole sections.  v4: (op le asz items); v5: (op le asz tbl units) *)
  else if op == "sec_loc4" then
    let le := gbool a1 in let asz := gnat a2 in let its := g_list (g_item g_v4loc) a3 in
    SL [SB (enc_items (enc_v4loc_list le asz) its);
        x_expect (items_expect (enc_v4loc_list le asz) (v4loc_meaning le asz) 0 its);
        sx_bool (forallb (fun it => match it with
                                    | IGap g => all_bytes g
                                    | IList vs e => forallb wf_viewpair vs && forallb (wf_v4loc asz) e
                                    end) its)]
  else if op == "sec_rng4" then
    let le := gbool a1 in let asz := gnat a2 in let its := g_list (g_item g_v4rng) a3 in
    SL [SB (enc_items (enc_v4rng_list le asz) its);
        x_expect (items_expect (enc_v4rng_list le asz) (v4rng_meaning le asz) 0 its);
        sx_bool (forallb (fun it => match it with
                                    | IGap g => all_bytes g
                                    | IList vs e => forallb wf_viewpair vs && forallb (wf_v4rng asz) e
                                    end) its)]
  else if op == "sec_loc5" then
    let le := gbool a1 in let asz := gnat a2 in let tbl := gints a3 in
    let us := g_list (g_lunit g_lle) a4 in
    SL [SB (enc_units (enc_lle_list le asz) le us);
        x_units_expect (units_expect (enc_lle_list le asz) (lle_meaning le asz tbl) 0 us);
        sx_bool (forallb (wf_lunit (enc_lle_list le asz) (forallb (wf_lle asz (zlen tbl)))) us);
        x_containers (unit_headers 0 (map (lunit_blk (enc_lle_list le asz)) us))]
  else if op == "sec_rng5" then
    let le := gbool a1 in let asz := gnat a2 in let tbl := gints a3 in
    let us := g_list (g_lunit g_rle) a4 in
    SL [SB (enc_units (enc_rle_list le asz) le us);
        x_units_expect (units_expect (enc_rle_list le asz) (rle_meaning le asz tbl) 0 us);
        sx_bool (forallb (wf_lunit (enc_rle_list le asz) (forallb (wf_rle asz (zlen tbl)))) us);
        x_containers (unit_headers 0 (map (lunit_blk (enc_rle_list le asz)) us))]
  else if op == "enum_expected" then
    (* (op (refs...) ((start list_off (tups))...)) -> the expected enumeration, as given tups *)
    let refs := gints a1 in
    SL (map (fun e => nthx 2 (gL e))
            (filter (fun e => existsb (Z.eqb (gI (nthx 0 (gL e)))) refs) (gL a2)))
  else if op == "enum_designated" then
    (* (op (refs...) ((start list_off (tups))...)) -> the lists the offsets designate (tail sharing allowed) *)
    SL (map x_tups (enum_designated (gints a1)
                      (map (fun e => (gI (nthx 0 (gL e)), gI (nthx 1 (gL e)), g_list g_tup (nthx 2 (gL e)))) (gL a2))))
  else if op == "std_classify" then
    match std_classify (gI a1) (gS a2) (gS a3) with
    | Some c => SL [SS "some"; SI (lclass_code c)]
    | None => sx_none
    end
  (* ---- model.  sections = (le asz loc ranges loclists rnglists addr) *)
  else if op == "m_get_loc" then      (* (op sections version offset cu|none) *)
    let S := g_sections a1 in let v := gI a2 in
    sx_res x_tups (get_location_list_at_offset LLE_TABLES S v
                     (stream_of (if 5 <=? v then s_loclists S else s_loc S)) (gI a3) (g_opt g_cuinfo a4))
  else if op == "m_get_rng" then
    let S := g_sections a1 in let v := gI a2 in
    sx_res x_tups (get_range_list_at_offset RLE_TABLES S v
                     (stream_of (if 5 <=? v then s_rnglists S else s_ranges S)) (gI a3) (g_opt g_cuinfo a4))
  else if op == "m_get_rng_ex" then   (* (op sections offset) *)
    let S := g_sections a1 in
    sx_res x_containers (get_range_list_at_offset_ex RLE_TABLES S (stream_of (s_rnglists S)) (gI a2))
  else if op == "m_translate_rng" then  (* (op sections cu|none container) *)
    let S := g_sections a1 in
    sx_res x_tup (translate_entry RLE_TABLES (get_addr (s_le S) (s_addr S) (g_opt g_cuinfo a2)) (g_container a3))
  else if op == "m_iter_cus_loc" then  (* (op sections version) *)
    let S := g_sections a1 in let v := gI a2 in
    sx_res x_containers (iter_CUs gen_loclists_CU_header (s_le S) v
                           (stream_of (if 5 <=? v then s_loclists S else s_loc S)))
  else if op == "m_iter_cus_rng" then
    let S := g_sections a1 in let v := gI a2 in
    sx_res x_containers (iter_CUs gen_rnglists_CU_header (s_le S) v
                           (stream_of (if 5 <=? v then s_rnglists S else s_ranges S)))
  else if op == "m_iter_cu_rng_ex" then  (* (op sections header-container) *)
    let S := g_sections a1 in
    sx_res (fun ls => SL (map x_containers ls))
           (iter_CU_range_lists_ex RLE_TABLES S (stream_of (s_rnglists S)) (g_container a2))
  else if op == "m_iter_rng" then      (* (op sections version (cuview...)) *)
    let S := g_sections a1 in let v := gI a2 in
    sx_res (fun ls => SL (map x_tups ls))
           (iter_range_lists RLE_TABLES S v (stream_of (if 5 <=? v then s_rnglists S else s_ranges S))
                             (g_list g_cuview a3))
  else if op == "m_iter_loc" then
    let S := g_sections a1 in let v := gI a2 in
    sx_res (fun ls => SL (map x_tups ls))
           (iter_location_lists LLE_TABLES gen_loclists_CU_header gen_locview_pair S v
                                (stream_of (if 5 <=? v then s_loclists S else s_loc S)) (g_list g_cuview a3))
  else if op == "m_attr_values" then   (* (op sections cuview) -> the .value of every attribute *)
    let S := g_sections a1 in let cv := g_cuview a2 in
    sx_res (fun ds => SL (map (fun d => SL (map (fun x => match snd x with AInt z => SI z | ABytes b => SB b end) d)) ds))
           (mapM (translate_die S cv) (cv_dies cv))
  else if op == "m_get_addr" then      (* (op sections cu index) *)
    let S := g_sections a1 in
    sx_res SI (get_addr (s_le S) (s_addr S) (g_opt g_cuinfo a2) (gI a3))
  else if op == "m_classify" then      (* (op name form version) -> (has_location has_expr has_list class) *)
    SL [sx_bool (attribute_has_location (gS a1) (gS a2) (gI a3));
        sx_bool (attribute_has_loc_expr (gS a1) (gS a2) (gI a3));
        sx_bool (attribute_has_loc_list (gS a1) (gS a2) (gI a3));
        SI (classify_attribute (gS a1) (gS a2) (gI a3))]
  else if op == "m_lists_object" then
    match lists_object (gbool a1) (gbool a2) with
    | LNone => SS "none" | LSingle v => SL [SS "single"; SI v] | LPair => SS "pair"
    end
  else if op == "m_pair_version" then SI (pair_version (g_cuinfo a1))
  (* ---- sessions: (op sections (cuview...) (op...)) -> ((event...) err|none) *)
  else if op == "m_session" then
    let S := g_sections a1 in let cus := g_list g_cuview a2 in
    let r := run_ops LLE_TABLES RLE_TABLES gen_loclists_CU_header gen_rnglists_CU_header gen_locview_pair
                     S cus (g_list g_op a3) (fresh cus) in
    SL [SL (map x_ev (fst r)); match snd r with Some e => sx_of_err e | None => sx_none end]
  else if op == "wf_session" then
    let S := g_sections a1 in let cus := g_list g_cuview a2 in
    sx_bool (forallb (op_in_domain S cus) (g_list g_op a3))
  else sx_err "unknown-op".
