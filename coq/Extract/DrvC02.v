(* Extract/DrvC02.v — driver for C02: runs the very definitions the theorems of
   Props/C02.v are about (Model/C02Contents.v, Spec/C02Spec.v).  Request: (op args...).
   Extracted with ExtrOcamlBasic only. *)
From Coq Require Import String.
From PV Require Import Base.Bytes Base.Outcome Base.Prim Base.Fmt Base.Enum Spec.ElfGabi Spec.C02Spec Spec.C02Hist
     Gen.ElfLayouts Gen.PyFuns Model.C02Contents Model.C02Hist.
Open Scope string_scope.

Definition fval_of (s : sx) : fval := match s with SB b => VB b | _ => VZ (gI s) end.

Definition spec_layout (name : string) (le is64 : bool) : layout :=
  if name =? "Ehdr" then spec_Elf_Ehdr le is64
  else if name =? "Phdr" then spec_Elf_Phdr le is64
  else if name =? "Shdr" then spec_Elf_Shdr le is64
  else if name =? "Chdr" then spec_Elf_Chdr le is64
  else [].

(* the zlib oracle supplied by the harness with each case:
     (valid zs p)            zs is a complete zlib stream of payload p: the two laws of the theorems
     (raw zs n out eof)      CPython's answer for exactly decompress(zs, n)
     (error zs)              zlib.error on zs *)
Definition oracle_inflate (o : sx) : list Z -> Z -> option (list Z * bool) :=
  let l := gL o in
  let tag := gS (nthx 0 l) in
  let zs := gB (nthx 1 l) in
  fun data n =>
    if negb (bytes_eqb data zs) then None
    else if tag =? "valid" then
      let p := gB (nthx 2 l) in
      if (n =? 0)%Z then Some (p, true)
      else Some (firstn (Z.to_nat (Z.min n (zlen p))) p, (zlen p <=? n)%Z)
    else if tag =? "raw" then
      if (n =? gI (nthx 2 l))%Z then Some (gB (nthx 3 l), gbool (nthx 4 l)) else None
    else None.
Definition oracle_zs (o : sx) : list Z := gB (nthx 1 (gL o)).
Definition oracle_zp (o : sx) : option (list Z) :=
  if gS (nthx 0 (gL o)) =? "valid" then Some (gB (nthx 2 (gL o))) else None.

Definition sx_phdr (s : sx) : phdr :=
  let l := gL s in
  mk_phdr (gI (nthx 0 l)) (gI (nthx 1 l)) (gI (nthx 2 l)) (gI (nthx 3 l)) (gI (nthx 4 l))
          (gI (nthx 5 l)) (gI (nthx 6 l)) (gI (nthx 7 l)).
(* (sh_type sh_flags sh_addr sh_offset sh_size) *)
Definition sx_shdr (s : sx) : shdr :=
  let l := gL s in
  mk_shdr (gI (nthx 0 l)) (gI (nthx 1 l)) (gI (nthx 2 l)) (gI (nthx 3 l)) (gI (nthx 4 l)).

Definition sx_data (r : res (list Z)) : sx := sx_res SB r.

(* ---- orders of observation on one section object: 0 compressed, 1 data_size, 2 data_alignment, 3 data() ---- *)
Definition sx_sobs (s : sx) : sobs :=
  let c := gI s in
  if (c =? 0)%Z then OCompressed else if (c =? 1)%Z then OSize else if (c =? 2)%Z then OAlign else OData.
Definition sx_sans (a : sans) : sx :=
  match a with SBool b => sx_bool b | SInt v => SI v | SData d => sx_data d end.

(* ---- histories on one ELFFile: (start kind) (next g) (close g) (all kind) (noise ...);
        kind = (addr start size) | (segs) | (loads) ---- *)
Definition sx_gkind (s : sx) : gkind :=
  let l := gL s in
  let t := gS (nthx 0 l) in
  if t =? "addr" then KAddr (gI (nthx 1 l)) (gI (nthx 2 l))
  else if t =? "loads" then KLoads else KSegs.
Definition sx_eop (s : sx) : eop :=
  let l := gL s in
  let t := gS (nthx 0 l) in
  if t =? "start" then EStart (sx_gkind (nthx 1 l))
  else if t =? "next" then ENext (gnat (nthx 1 l))
  else if t =? "close" then EClose (gnat (nthx 1 l))
  else if t =? "all" then EAll (sx_gkind (nthx 1 l))
  else ENoise (gI (nthx 1 l)).
Definition sx_eans (a : eans) : sx :=
  match a with
  | AUnit => SS "unit"
  | AItem i => SL [SS "item"; sx_ints i]
  | AStop => SS "stop"
  | AList l => SL [SS "list"; SL (map sx_ints l)]
  | AErr e => sx_of_err e
  | ANoGen => SS "nogen"
  end.

Definition dispatch (req : sx) : sx :=
  let l := gL req in
  let op := gS (nthx 0 l) in
  let a1 := nthx 1 l in let a2 := nthx 2 l in let a3 := nthx 3 l in let a4 := nthx 4 l in
  let a5 := nthx 5 l in let a6 := nthx 6 l in let a7 := nthx 7 l in let a8 := nthx 8 l in
  let a9 := nthx 9 l in let a10 := nthx 10 l in let a11 := nthx 11 l in let a12 := nthx 12 l in
  (* ---- spec encoders ---- *)
  if op =? "enc" then SB (encode_layout (spec_layout (gS a1) (gbool a2) (gbool a3)) (map fval_of (gL a4)))
  else if op =? "fits" then sx_bool (fits_layout (spec_layout (gS a1) (gbool a2) (gbool a3)) (map fval_of (gL a4)))
  else if op =? "enc_chdr" then   (* le is64 ty res sz al *)
    SL [SB (enc_chdr (gbool a1) (gbool a2) (gI a3) (gI a4) (gI a5) (gI a6));
        sx_bool (chdr_fits (gbool a1) (gbool a2) (gI a3) (gI a4) (gI a5) (gI a6))]
  else if op =? "enc_phdr" then   (* le is64 phdr *)
    SL [SB (enc_phdr (gbool a1) (gbool a2) (sx_phdr a3)); sx_bool (phdr_fits (gbool a1) (gbool a2) (sx_phdr a3))]
  (* ---- model ---- *)
  else if op =? "sec" then
    (* stream le is64 machine sh_type sh_flags sh_addr sh_offset sh_size sh_addralign oracle *)
    let stream := gB a1 in let le := gbool a2 in let is64 := gbool a3 in
    let h := mk_sheader (dec_enum (sh_type_table (gS a4)) (gI a5)) (gI a6) (gI a7) (gI a8) (gI a9) (gI a10) in
    match section_init stream le is64 h with
    | Err e => sx_of_err e
    | Ok s => sx_ok (SL [sx_bool (negb (compressed s =? 0)%Z); SI (data_size s); SI (data_alignment s);
                         sx_data (section_data (oracle_inflate a11) stream le is64 s)])
    end
  else if op =? "sec_obs" then
    (* as "sec", then (order...) each a list of observer codes: one FRESH object per order *)
    let stream := gB a1 in let le := gbool a2 in let is64 := gbool a3 in
    let h := mk_sheader (dec_enum (sh_type_table (gS a4)) (gI a5)) (gI a6) (gI a7) (gI a8) (gI a9) (gI a10) in
    SL (map (fun order => sx_res (fun l => SL (map sx_sans l))
                                 (sec_session (oracle_inflate a11) stream le is64 h (map sx_sobs (gL order))))
            (gL a12))
  else if op =? "sec_obs_at" then
    (* stream le is64 machine shoff shentsize n oracle (order...): section n as every entry point sees it -
       header read at shoff + n*shentsize - one FRESH object per order *)
    let stream := gB a1 in let le := gbool a2 in let is64 := gbool a3 in
    SL (map (fun order => sx_res (fun l => SL (map sx_sans l))
                                 (sec_session_at (oracle_inflate a8) stream le is64 (sh_type_table (gS a4))
                                                 (gI a5) (gI a6) (gI a7) (map sx_sobs (gL order))))
            (gL a9))
  else if op =? "elf_hist" then
    (* stream le is64 machine phoff phentsize phnum (ops...) *)
    SL (map sx_eans (elf_hist (mkEfile (gB a1) (gbool a2) (gbool a3) (p_type_table (gS a4)) (gI a5) (gI a6) (gI a7))
                              (map sx_eop (gL a8))))
  else if op =? "get_string" then SB (get_string (gB a1) (gI a2) (gI a3))
  else if op =? "get_strings" then   (* stream sh_offset (offsets...) *)
    SL (map (fun o => SB (get_string (gB a1) (gI a2) (gI o))) (gL a3))
  else if op =? "seg_data" then SB (segment_data (gB a1) (gI a2) (gI a3))
  else if op =? "interp" then sx_data (get_interp_name (gB a1) (gI a2))
  (* the Segment object built from the program header at file position a4: stream le is64 pos *)
  else if op =? "seg_data_at" then sx_data (segment_data_at (gB a1) (gbool a2) (gbool a3) (gI a4))
  else if op =? "interp_at" then sx_data (interp_name_at (gB a1) (gbool a2) (gbool a3) (gI a4))
  else if op =? "addr" then
    (* stream le is64 machine phoff phentsize phnum start size *)
    sx_res sx_ints (address_offsets (gB a1) (gbool a2) (gbool a3) (p_type_table (gS a4))
                                    (gI a5) (gI a6) (gI a7) (gI a8) (gI a9))
  else if op =? "sis" then
    (* machine phdr shdr: the hand model *)
    let g := sx_phdr a2 in let s := sx_shdr a3 in
    sx_bool (section_in_segment
               (mk_pheader (dec_enum (p_type_table (gS a1)) (p_type g)) (p_offset g) (p_vaddr g) (p_filesz g) (p_memsz g))
               (mk_sheader (dec_enum (sh_type_table (gS a1)) (sh_type s)) (sh_flags s) (sh_addr s) (sh_offset s)
                           (sh_size s) 1))
  else if op =? "sis_gen" then
    (* machine phdr shdr: the body translated from the live source (Gen/PyFuns.v) *)
    let g := sx_phdr a2 in let s := sx_shdr a3 in
    sx_bool (gen_section_in_segment (p_filesz g) (p_memsz g) (p_offset g)
               (dec_enum (p_type_table (gS a1)) (p_type g)) (p_vaddr g)
               (sh_addr s) (sh_flags s) (sh_offset s) (sh_size s)
               (dec_enum (sh_type_table (gS a1)) (sh_type s)))
  (* ---- spec ---- *)
  else if op =? "spec_sec" then
    (* img le is64 sh_type sh_flags sh_offset sh_size sh_addralign oracle *)
    match section_view (gB a1) (gbool a2) (gbool a3) (gI a4) (gI a5) (gI a6) (gI a7) (gI a8)
                       (oracle_zs a9) (oracle_zp a9) with
    | None => sx_none
    | Some (c, sz, al, d) =>
        SL [SS "some"; sx_ok (SL [sx_bool c; SI sz; SI al;
                                  match d with Some b => sx_ok (SB b) | None => sx_of_err ECompress end])]
    end
  else if op =? "spec_sec_obs" then
    (* img le is64 sh_type sh_flags sh_offset sh_size sh_addralign oracle (order...) *)
    match section_view (gB a1) (gbool a2) (gbool a3) (gI a4) (gI a5) (gI a6) (gI a7) (gI a8)
                       (oracle_zs a9) (oracle_zp a9) with
    | None => sx_none
    | Some f =>
        SL [SS "some"; SL (map (fun order => sx_ok (SL (map sx_sans (spec_sec_session f (map sx_sobs (gL order))))))
                               (gL a10))]
    end
  else if op =? "spec_elf_hist" then
    (* img le is64 phoff phentsize (phdrs...) (ops...) -> (wf, answers) *)
    let phs := map sx_phdr (gL a6) in
    SL [sx_bool (forallb (phdr_fits (gbool a2) (gbool a3)) phs
                 && phdrs_at (gbool a2) (gbool a3) (gB a1) (gI a4) (gI a5) phs);
        SL (map sx_eans (spec_elf_hist phs (map sx_eop (gL a7))))]
  else if op =? "spec_elf_hist_sparse" then
    (* le is64 ((count phdr)...) (ops...) -> (every header fits, answers): the table is given as runs *)
    let runs := map (fun r => (gI (nthx 0 (gL r)), sx_phdr (nthx 1 (gL r)))) (gL a3) in
    SL [sx_bool (forallb (fun r => phdr_fits (gbool a1) (gbool a2) (snd r)) runs);
        SL (map sx_eans (spec_elf_hist (expand_runs runs) (map sx_eop (gL a4))))]
  else if op =? "spec_extent" then   (* img off size *)
    if extent_in_file (gB a1) (gI a2) (gI a3) then SL [SS "some"; SB (extent (gB a1) (gI a2) (gI a3))] else sx_none
  else if op =? "spec_string" then sx_opt SB (string_at (gB a1) (gI a2))
  else if op =? "spec_strings" then   (* img sh_offset (offsets...) *)
    SL (map (fun o => sx_opt SB (string_at (gB a1) (gI a2 + gI o)%Z)) (gL a3))
  else if op =? "spec_addr" then
    (* img le is64 phoff phentsize (phdrs...) start size -> (wf, offsets) *)
    let phs := map sx_phdr (gL a6) in
    SL [sx_bool (forallb (phdr_fits (gbool a2) (gbool a3)) phs
                 && phdrs_at (gbool a2) (gbool a3) (gB a1) (gI a4) (gI a5) phs);
        sx_ints (addr_map phs (gI a7) (gI a8))]
  else if op =? "spec_sis" then
    (* phdr shdr -> (in theorem domain, strict macro, readelf lists it, tbss special) *)
    let g := sx_phdr a1 in let s := sx_shdr a2 in
    SL [sx_bool (sis_domain s g); sx_bool (section_in_segment_strict s g);
        sx_bool (readelf_lists s g); sx_bool (tbss_special s g)]
  else if op =? "tables_ok" then   (* machine *)
    SL [sx_bool (sh_type_table_ok (sh_type_table (gS a1))); sx_bool (p_type_table_ok (p_type_table (gS a1)))]
  else sx_err "unknown-op".
