(* Extract/DrvC16.v — driver for C16: runs the very definitions the theorems of
   Props/C16.v are about.  Request: (op args...).  Extracted with ExtrOcamlBasic only. *)
From PV Require Import Gen.PyFuns.
From PV Require Import Base.Outcome Base.Prim Spec.PrimSpec Model.C16Run.
Open Scope string_scope.

Definition sx_dec {A} (f : A -> sx) (r : option (A * list Z)) : sx :=
  match r with
  | Some (v, t) => SL [SS "some"; f v; sx_nat (length t)]
  | None => sx_none
  end.

(* the decoders translated from the live source (Gen/PyFuns.v); = the hand models of Base/Prim.v by
   theorems C16_translated_uleb_is_model / C16_translated_sleb_is_model *)
Definition dec_of_res {A} (r : res (A * list Z)) : option (A * list Z) :=
  match r with Ok x => Some x | Err _ => None end.

(* the kind (signed, width, little-endian) the STANDARD gives the named struct-factory field
   (Spec/PrimSpec.v spec_dwarf_prims / spec_elf_prims; Gen/C16Prims.v = these by theorem) *)
Definition field_kind (fam : string) (le : bool) (a b : Z) (name : string) : option (bool * Z * bool) :=
  let tbl := if fam =? "dwarf" then spec_dwarf_prims le a b else spec_elf_prims le a in
  match find (fun x => String.eqb (fst x) name) tbl with
  | Some (_, k) => Some k
  | None => None
  end.

Definition len_dec (kind : Z) (le : bool) : dec Z :=
  if (kind =? 0)%Z then uleb_decode else uint_decode le (Z.to_nat kind).

Definition dispatch (req : sx) : sx :=
  let l := gL req in
  let op := gS (nthx 0 l) in
  let a1 := nthx 1 l in let a2 := nthx 2 l in let a3 := nthx 3 l in
  (* models *)
  if op =? "uleb" then sx_dec SI (dec_of_res (gen_ULEB128_parse (gB a1)))
  else if op =? "sleb" then sx_dec SI (dec_of_res (gen_SLEB128_parse (gB a1)))
  else if op =? "uleb_hand" then sx_dec SI (uleb_decode (gB a1))
  else if op =? "sleb_hand" then sx_dec SI (sleb_decode (gB a1))
  else if op =? "uint" then sx_dec SI (uint_decode (gbool a1) (gnat a2) (gB a3))
  else if op =? "sint" then sx_dec SI (sint_decode_n (gbool a1) (gnat a2) (gB a3))
  else if op =? "u24" then sx_dec SI (u24_decode (gbool a1) (gB a2))
  else if op =? "cstring" then sx_dec SB (cstring_decode (gB a1))
  else if op =? "cstr_at" then sx_opt SB (parse_cstring_at (gB a1) (gnat a2))
  else if op =? "block" then sx_dec SB (block_decode_run (len_dec (gI a1) (gbool a2)) (gB a3))
  else if op =? "initlen" then
    sx_dec (fun '(v, is64) => SL [SI v; sx_bool is64]) (initial_length_decode (gbool a1) (gB a2))
  else if op =? "repeat" then
    (* kind stop data: RepeatUntilExcluding(lambda obj, ctx: obj == stop, <element>) with element =
       ULEB128 (kind 0), ULInt<8n> (kind n > 0) or UBInt<8n> (kind -n); fuel = |data| + 1 elements *)
    let k := gI a1 in let data := gB a3 in
    let d : dec Z := if (k =? 0)%Z then uleb_decode
                     else if (0 <? k)%Z then uint_decode true (Z.to_nat k) else uint_decode false (Z.to_nat (- k)) in
    match repeat_until (S (length data)) d (fun x => (x =? gI a2)%Z) data with
    | Some (xs, t) => SL [SS "some"; SL (map SI xs); sx_nat (length t)]
    | None => sx_none
    end
  else if op =? "enc_field" then
    (* fam le a b name v: the standard's encoding of v in that field *)
    match field_kind (gS a1) (gbool a2) (gI a3) (gI (nthx 4 l)) (gS (nthx 5 l)) with
    | Some (_, n, fle) => SB (int_encode fle (Z.to_nat n) (gI (nthx 6 l)))
    | None => sx_err "unknown-field"
    end
  else if op =? "field" then
    (* fam le a b name data: the model decoder of that kind *)
    match field_kind (gS a1) (gbool a2) (gI a3) (gI (nthx 4 l)) (gS (nthx 5 l)) with
    | Some (sg, n, fle) =>
        let data := gB (nthx 6 l) in
        SL [sx_dec SI (if (n =? 3)%Z then u24_decode fle data
                       else if sg then sint_decode_n fle (Z.to_nat n) data else uint_decode fle (Z.to_nat n) data);
            SL [sx_bool sg; SI n; sx_bool fle]]
    | None => sx_err "unknown-field"
    end
  else if op =? "field_kind" then
    match field_kind (gS a1) (gbool a2) (gI a3) (gI (nthx 4 l)) (gS (nthx 5 l)) with
    | Some (sg, n, fle) => SL [sx_bool sg; SI n; sx_bool fle]
    | None => sx_err "unknown-field"
    end
  (* specs *)
  else if op =? "uleb_spec" then sx_dec SI (uleb_spec (gB a1))
  else if op =? "sleb_spec" then sx_dec SI (sleb_spec (gB a1))
  else if op =? "enc_uleb" then SB (uleb_pad (uleb_encode (gI a1)) (gnat a2))
  else if op =? "enc_sleb" then SB (sleb_encode (gI a1))
  else if op =? "enc_int" then SB (int_encode (gbool a1) (gnat a2) (gI a3))
  else if op =? "enc_initlen" then SB (initial_length_encode (gbool a1) (gI a2) (gbool a3))
  else if op =? "initlen_wf" then sx_bool (initial_length_wf (gI a1) (gbool a2))
  else if op =? "initlen_reserved" then sx_bool (initial_length_reserved (gI a1))
  else sx_err "unknown-op".
