(* Extract/DrvC17.v — driver for C17: the registry (Gen/Registry.v), the library tables
   (Gen/Tables.v) and the Enum model (Base/Enum.v) the theorems of Props/C17.v are about.
   Request: (op args...).  Extracted with ExtrOcamlBasic only. *)
From PV Require Import Base.Outcome Base.Enum Spec.C17Registry Gen.Tables Gen.Registry.
Open Scope string_scope.

Definition sx_pair (nv : string * Z) : sx := SL [SS (fst nv); SI (snd nv)].

Definition sx_enum_val (r : enum_val) : sx :=
  match r with
  | Name n => SL [SS "name"; SS n]
  | Raw v => SL [SS "raw"; SI v]
  | MappingError => sx_err "MappingError"
  end.

Definition default_of (t : string) : enum_default :=
  match find (fun x => String.eqb (fst x) t) table_default with
  | Some (_, true) => DefPass
  | _ => DefRaise
  end.

Definition dispatch (req : sx) : sx :=
  let l := gL req in
  let op := gS (nthx 0 l) in
  let a1 := nthx 1 l in let a2 := nthx 2 l in
  (* spec: the registry *)
  if op =? "lookup" then sx_opt SI (registry_lookup (gS a1))
  else if op =? "conflict" then sx_bool (existsb (fun x => String.eqb (fst x) (gS a1)) registry_conflicts)
  else if op =? "registry_size" then sx_nat (List.length registry)
  (* model: the regenerated tables and the Enum model over them *)
  else if op =? "tables" then SL (map (fun t => SS (fst t)) all_tables)
  else if op =? "table" then SL (map sx_pair (table_named all_tables (gS a1)))
  else if op =? "tval" then sx_opt SI (enum_encode (table_named all_tables (gS a1)) (gS a2))
  else if op =? "default" then sx_bool (match default_of (gS a1) with DefPass => true | DefRaise => false end)
  else if op =? "decode" then sx_enum_val (enum_decode (table_named all_tables (gS a1)) (default_of (gS a1)) (gI a2))
  else if op =? "decode_dict" then sx_enum_val (enum_decode_dict (table_named all_tables (gS a1)) (default_of (gS a1)) (gI a2))
  (* decode over  dict(A); .update(B)  (elf/structs.py _create_dyn): (decode_upd A B v), default of A *)
  else if op =? "decode_upd" then
    sx_enum_val (enum_decode (table_update (table_named all_tables (gS a1)) (table_named all_tables (gS a2)))
                             (default_of (gS a1)) (gI (nthx 3 l)))
  else if op =? "registry" then SL (map sx_pair registry)
  (* the boolean the theorems compute, and its counterexamples *)
  else if op =? "agrees" then sx_bool (registry_agreesb (table_named all_tables (gS a1)))
  else if op =? "disagreements" then SL (map sx_pair (disagreements registry_lookup (table_named all_tables (gS a1))))
  else if op =? "covered" then SI (covered (table_named all_tables (gS a1)))
  else sx_err "unknown-op".
