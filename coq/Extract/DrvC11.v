(* Extract/DrvC11.v — driver for C11: runs the very definitions the theorems of
   Props/C11.v are about.  zlib answers come from the harness as a table
   ((#data maxlen result) ...), result = ("some" #out eof) | "none"; the file system
   behind stream_loader as ((#name #bytes) ...).
   Requests:
     ("queries" #img)                                   -> inflate queries of a file
     ("view" #img fuel relocate follow has_loader fs tbl) -> (model spec)
     ("seq" #img fuel has_loader fs tbl ((relocate follow) ...)) -> model answers of a call sequence on one object
     ("presence" #img strict)                           -> (model spec)
     ("link" #img)                                      -> (has_dwarf_link get_dwarf_link)
     ("crc" #bytes)                                     -> (crc32_model file_crc32 crc32_poly)
     ("wf" #img)                                        -> (plain_names no_phantom constructible)
     ("gabi_body" le is64 rsv size align #blob) ("zdebug_body" size #blob)
     ("debuglink_body" le #name #pad crc) ("altlink_body" #name #id)
     ("debugsup_body" le version is_sup #name #rest)    -> #bytes  (Spec encoders)
     ("t_gabi" #img ((idx rsv align off #blob) ...) tbl) / ("t_zgnu" #img ((idx off #blob) ...) tbl)
                                                        -> spec view of the Coq transform of the parsed file
     ("ok_gabi" #img args) / ("ok_zgnu" #img args)      -> the executable hypotheses of the invariance theorems
                                                           (gabi_choice_ok; zgnu_choice_ok && plain_names && no_phantom)
     ("kept" #img) -> (bool ...) per section; ("t_keep" #img tbl) -> spec view of T_keep_debug of the parsed file
     ("secs" #img)                                      -> the abstract sections (name type flags addr size #content)
*)
From PV Require Import Base.Outcome Base.Fmt Base.Prim Spec.C11Container Model.C11Elf Model.C11Dwarf Proofs.C11Refine.
Open Scope string_scope.

Definition tbl_inflate (tbl : list sx) (data : list Z) (maxlen : Z) : option (list Z * bool) :=
  match find (fun r => let l := gL r in
                       (gI (nthx 1 l) =? maxlen)%Z && bytes_eqb (gB (nthx 0 l)) data) tbl with
  | Some r =>
      match nthx 2 (gL r) with
      | SL [SS _; SB out; SI eof] => Some (out, negb (eof =? 0)%Z)
      | _ => None
      end
  | None => None
  end.

Definition fs_of (has_loader : bool) (fs : list sx) : option (list Z -> option (list Z)) :=
  if has_loader then
    Some (fun name =>
      match find (fun r => bytes_eqb (gB (nthx 0 (gL r))) name) fs with
      | Some r => Some (gB (nthx 1 (gL r)))
      | None => None
      end)
  else None.

Definition sx_config (c : config) : sx := SL [sx_bool (c_le c); SI (c_addr_size c); SI (c_machine c)].
Definition sx_reloc (o : option nat) : sx := match o with Some k => sx_nat k | None => sx_none end.
Definition sx_descriptor (o : option descriptor) : sx :=
  match o with
  | None => sx_none
  | Some d => SL [SB (ds_name d); SI (ds_global_offset d); SB (ds_stream d); SI (ds_size d);
                  SI (ds_address d); sx_reloc (ds_reloc d)]
  end.
Definition sx_dwarfinfo (di : dwarfinfo) : sx :=
  SL [sx_config (di_config di); SL (map sx_descriptor (di_sections di));
      match di_sup di with
      | Some (c, ds) => SL [sx_config c; SL (map sx_descriptor ds)]
      | None => sx_none
      end].
Definition sx_desc (o : option desc) : sx :=
  match o with
  | None => sx_none
  | Some d => SL [SB (d_data d); SI (d_size d); SI (d_addr d); sx_reloc (d_reloc d)]
  end.
Definition sx_view (v : view) : sx :=
  SL [sx_config (v_cfg v); SL (map sx_desc (v_slots v));
      match v_sup v with
      | Some (c, sl) => SL [sx_config c; SL (map sx_desc sl)]
      | None => sx_none
      end].

(* parse_opt (the reader of linked files handed to debug_view) is the one of Proofs/C11Refine.v,
   about which C11_model_refines_spec speaks *)

Definition sx_sec (s : sec) : sx :=
  SL [SB (s_name s); SI (s_type s); SI (s_flags s); SI (s_addr s); SI (s_size s);
      SB (firstn (Z.to_nat (s_size s)) (s_stream s))].

Definition gabi_choice (args : list sx) (i : nat) : option gabi_args :=
  match find (fun r => (gI (nthx 0 (gL r)) =? Z.of_nat i)%Z) args with
  | Some r => let l := gL r in
              Some (mkGabi (gI (nthx 1 l)) (gI (nthx 2 l)) (gI (nthx 3 l)) (gB (nthx 4 l)) [])
  | None => None
  end.
Definition zgnu_choice (args : list sx) (i : nat) : option zgnu_args :=
  match find (fun r => (gI (nthx 0 (gL r)) =? Z.of_nat i)%Z) args with
  | Some r => let l := gL r in Some (mkZgnu (gI (nthx 1 l)) (gB (nthx 2 l)) [])
  | None => None
  end.

Definition dispatch (req : sx) : sx :=
  let l := gL req in
  let op := gS (nthx 0 l) in
  let a1 := nthx 1 l in let a2 := nthx 2 l in let a3 := nthx 3 l in
  let a4 := nthx 4 l in let a5 := nthx 5 l in let a6 := nthx 6 l in let a7 := nthx 7 l in
  if op =? "queries" then
    sx_res (fun e => SL (map (fun '(d, m) => SL [SB d; SI m]) (oracle_queries e))) (parse_image (gB a1))
  else if op =? "view" then
    let infl := tbl_inflate (gL a7) in
    let fs := fs_of (gbool a5) (gL a6) in
    SL [ sx_res sx_dwarfinfo (img_get_dwarf_info infl (gnat a2) fs (gB a1) (gbool a3) (gbool a4));
         match parse_image (gB a1) with
         | Ok e => sx_opt sx_view (debug_view infl parse_opt (gnat a2) fs e (gbool a3) (gbool a4))
         | Err _ => sx_none
         end ]
  else if op =? "seq" then
    (* ("seq" #img fuel has_loader fs tbl ((relocate follow) ...)): the answers of obj_run on a fresh object *)
    let infl := tbl_inflate (gL a5) in
    let fs := fs_of (gbool a3) (gL a4) in
    match parse_image (gB a1) with
    | Ok e => sx_ok (SL (map (sx_res sx_dwarfinfo)
                (obj_run infl (gnat a2) fs e None
                   (map (fun c => (gbool (nthx 0 (gL c)), gbool (nthx 1 (gL c)))) (gL a6)))))
    | Err x => sx_of_err x
    end
  else if op =? "presence" then
    SL [ sx_res sx_bool (img_has_dwarf_info (gB a1) (gbool a2));
         match parse_image (gB a1) with
         | Ok e => sx_ok (sx_bool (presence e (gbool a2)))
         | Err _ => sx_none
         end ]
  else if op =? "link" then
    match parse_image (gB a1) with
    | Ok e => SL [ sx_res sx_bool (has_dwarf_link e);
                   sx_res (sx_opt (fun '(n, c) => SL [SB n; SI c])) (get_dwarf_link e) ]
    | Err x => SL [sx_of_err x; sx_of_err x]
    end
  else if op =? "crc" then
    SL [SI (crc32_model (gB a1)); SI (file_crc32 (gB a1)); SI (crc32_poly (gB a1))]
  else if op =? "wf" then
    match parse_image (gB a1) with
    | Ok e => sx_ok (SL [sx_bool (plain_names e); sx_bool (no_phantom e)])
    | Err x => sx_of_err x
    end
  else if op =? "gabi_body" then
    SB (gabi_body (gbool a1) (gbool a2) (gI a3) (gI a4) (gI a5) (gB a6))
  else if op =? "zdebug_body" then SB (zdebug_body (gI a1) (gB a2))
  else if op =? "debuglink_body" then SB (debuglink_body (gbool a1) (gB a2) (gB a3) (gI a4))
  else if op =? "altlink_body" then SB (altlink_body (gB a1) (gB a2))
  else if op =? "debugsup_body" then SB (debugsup_body (gbool a1) (gI a2) (gI a3) (gB a4) (gB a5))
  else if op =? "t_gabi" then
    match parse_image (gB a1) with
    | Ok e => sx_opt sx_view (debug_view (tbl_inflate (gL a3)) parse_opt 1 None
                                         (T_gabi (gabi_choice (gL a2)) e) true false)
    | Err x => sx_of_err x
    end
  else if op =? "t_zgnu" then
    match parse_image (gB a1) with
    | Ok e => sx_opt sx_view (debug_view (tbl_inflate (gL a3)) parse_opt 1 None
                                         (T_zgnu (zgnu_choice (gL a2)) e) true false)
    | Err x => sx_of_err x
    end
  else if op =? "ok_gabi" then
    (* the hypothesis of C11_view_invariant_gabi that is a bool *)
    match parse_image (gB a1) with
    | Ok e => sx_ok (sx_bool (gabi_choice_ok (gabi_choice (gL a2)) e))
    | Err x => sx_of_err x
    end
  else if op =? "ok_zgnu" then
    (* the bool hypotheses of C11_view_invariant_zgnu *)
    match parse_image (gB a1) with
    | Ok e => sx_ok (sx_bool (zgnu_choice_ok (zgnu_choice (gL a2)) e && plain_names e && no_phantom e))
    | Err x => sx_of_err x
    end
  else if op =? "kept" then
    (* which sections T_keep_debug leaves alone *)
    sx_res (fun e => SL (map (fun s => sx_bool (kept s)) (e_secs e))) (parse_image (gB a1))
  else if op =? "t_keep" then
    (* spec view of T_keep_debug of the parsed file; the bytes at the offsets stay what they were *)
    match parse_image (gB a1) with
    | Ok e => sx_opt sx_view (debug_view (tbl_inflate (gL a2)) parse_opt 1 None
                (T_keep_debug (fun i => match nth_error (e_secs e) i with Some s => s_stream s | None => [] end) e)
                true false)
    | Err x => sx_of_err x
    end
  else if op =? "secs" then
    sx_res (fun e => SL (map sx_sec (e_secs e))) (parse_image (gB a1))
  else sx_err "unknown-op".
