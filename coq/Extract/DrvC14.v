(* Extract/DrvC14.v — driver for C14: runs the definitions the theorems of Props/C14.v are
   about (Model/C14Notes.v, Spec/C14Notes.v).  Request: (op args...). *)
From PV Require Import Base.Outcome Base.Fmt Base.Enum Spec.C14Notes Model.C14Notes.
Open Scope string_scope.
Open Scope list_scope.

(* ---- reading abstract objects *)
Definition g_cfg (s : sx) : cfg :=
  let l := gL s in
  {| c_le := gbool (nthx 0 l); c_is64 := gbool (nthx 1 l);
     c_etype := gS (nthx 2 l); c_machine := gS (nthx 3 l) |}.

Definition g_fval (s : sx) : fval :=
  match s with SI z => VZ z | SB b => VB b | SL l => VL (map gI l) | SS _ => VZ 0 end.

Definition g_prop (s : sx) : gprop * list Z :=
  let l := gL s in
  let p := gL (nthx 0 l) in
  let tag := gS (nthx 0 p) in
  ((if tag =? "stack" then GStack (gI (nthx 1 p))
    else if tag =? "word" then GWord (gI (nthx 1 p)) (gI (nthx 2 p))
    else GRaw (gI (nthx 1 p)) (gB (nthx 2 p))),
   gB (nthx 1 l)).

Definition g_triple (s : sx) : Z * Z * Z :=
  let l := gL s in (gI (nthx 0 l), gI (nthx 1 l), gI (nthx 2 l)).

Definition g_desc (s : sx) : desc :=
  let l := gL s in
  let tag := gS (nthx 0 l) in
  if tag =? "abi" then DAbi (gI (nthx 1 l)) (gI (nthx 2 l)) (gI (nthx 3 l)) (gI (nthx 4 l))
  else if tag =? "build" then DBuildId (gB (nthx 1 l))
  else if tag =? "gold" then DGold (gB (nthx 1 l))
  else if tag =? "props" then DProps (map g_prop (gL (nthx 1 l)))
  else if tag =? "prps" then DPrps (map g_fval (gL (nthx 1 l)))
  else if tag =? "file" then DFile (gI (nthx 1 l)) (map g_triple (gL (nthx 2 l))) (map gB (gL (nthx 3 l)))
  else DRaw (gB (nthx 1 l)).

Definition g_note (s : sx) : note :=
  let l := gL s in
  {| n_name := match nthx 0 l with SB b => Some b | _ => None end;
     n_nextra := match nthx 5 l with SB b => b | _ => [] end;
     n_npad := gB (nthx 1 l); n_type := gI (nthx 2 l);
     n_desc := g_desc (nthx 3 l); n_dpad := gB (nthx 4 l) |}.
Definition g_notes (s : sx) : list note := map g_note (gL s).
Definition g_stabs (s : sx) : list stab := map (fun x => map g_fval (gL x)) (gL s).

(* section header: the ten fields in gABI order; program header: p_type p_flags p_offset p_vaddr
   p_paddr p_filesz p_memsz p_align *)
Definition g_shdr (s : sx) : shdr :=
  let l := gL s in
  {| sh_name := gI (nthx 0 l); sh_type := gI (nthx 1 l); sh_flags := gI (nthx 2 l); sh_addr := gI (nthx 3 l);
     sh_offset := gI (nthx 4 l); sh_size := gI (nthx 5 l); sh_link := gI (nthx 6 l); sh_info := gI (nthx 7 l);
     sh_addralign := gI (nthx 8 l); sh_entsize := gI (nthx 9 l) |}.
Definition g_phdr (s : sx) : phdr :=
  let l := gL s in
  {| p_type := gI (nthx 0 l); p_flags := gI (nthx 1 l); p_offset := gI (nthx 2 l); p_vaddr := gI (nthx 3 l);
     p_paddr := gI (nthx 4 l); p_filesz := gI (nthx 5 l); p_memsz := gI (nthx 6 l); p_align := gI (nthx 7 l) |}.

(* ---- printing observations *)
Definition sx_enum (e : enum_val) : sx :=
  match e with Name n => SS n | Raw v => SI v | MappingError => SS "MappingError" end.
Definition sx_fval (v : fval) : sx :=
  match v with VZ z => SI z | VB b => SB b | VL zs => sx_ints zs end.
Definition sx_record (r : list (string * fval)) : sx :=
  SL (map (fun f => SL [SS (fst f); sx_fval (snd f)]) r).
Definition sx_pview (p : pview) : sx :=
  let '(t, sz, d) := p in
  SL [sx_enum t; SI sz; match d with PInt v => SI v | PBytes b => SB b end].
Definition sx_dview (d : dview) : sx :=
  match d with
  | DVBytes b => SL [SS "bytes"; SB b]
  | DVHex t => SL [SS "text"; SB t]        (* both are Python str *)
  | DVStr b => SL [SS "text"; SB b]
  | DVAbi os ma mi ti => SL [SS "abi"; sx_enum os; SI ma; SI mi; SI ti]
  | DVProps ps => SL [SS "props"; SL (map sx_pview ps)]
  | DVRec r => SL [SS "rec"; sx_record r]
  | DVFile n p es ns =>
      SL [SS "file"; SI n; SI p;
          SL (map (fun e => let '(a, b, o) := e in SL [SI a; SI b; SI o]) es); SL (map SB ns)]
  end.
Definition sx_onote (n : onote) : sx :=
  SL [sx_opt SB (o_name n); sx_enum (o_type n); SB (o_descdata n); sx_dview (o_desc n);
      SI (o_offset n); SI (o_size n); SI (o_namesz n); SI (o_descsz n)].
Definition sx_erropt (e : option err) : sx :=
  match e with None => sx_none | Some x => sx_of_err x end.
Definition sx_iter (r : list onote * option err) : sx :=
  SL [SL (map sx_onote (fst r)); sx_erropt (snd r)].
Definition sx_stab (s : list (string * fval) * Z) : sx := SL [sx_record (fst s); SI (snd s)].
Definition sx_stabs (r : list (list (string * fval) * Z) * option err) : sx :=
  SL [SL (map sx_stab (fst r)); sx_erropt (snd r)].

(* the cursor schedule: position i of the list, 0 beyond it *)
Definition g_adv (s : sx) : nat -> Z := fun i => nth i (map gI (gL s)) 0%Z.

Definition dispatch (req : sx) : sx :=
  let l := gL req in
  let op := gS (nthx 0 l) in
  let a1 := nthx 1 l in let a2 := nthx 2 l in let a3 := nthx 3 l in
  (* spec: encoders, domain checks, expected observations *)
  if op =? "enc_notes" then SB (encode_notes (scfg_of (g_cfg a1)) (g_notes a2))
  else if op =? "wf_notes" then sx_bool (wf_cfg (g_cfg a1) && wf_notes (scfg_of (g_cfg a1)) (g_notes a2))
  else if op =? "expected" then
    sx_iter (expected_notes (scfg_of (g_cfg a1)) (gI a2) (g_notes a3), None)
  else if op =? "enc_stabs" then SB (encode_stabs (gbool a1) (g_stabs a2))
  else if op =? "wf_stabs" then sx_bool (forallb (wf_stab (gbool a1)) (g_stabs a2))
  else if op =? "expected_stabs" then sx_stabs (expected_stabs (gbool a1) (gI a2) (g_stabs a3), None)
  else if op =? "enc_shdr" then SB (encode_shdr (gbool a1) (gbool a2) (g_shdr a3))
  else if op =? "wf_shdr" then sx_bool (wf_shdr (gbool a1) (gbool a2) (g_shdr a3))
  else if op =? "enc_phdr" then SB (encode_phdr (gbool a1) (gbool a2) (g_phdr a3))
  else if op =? "wf_phdr" then sx_bool (wf_phdr (gbool a1) (gbool a2) (g_phdr a3))
  else if op =? "pad_to" then SI (pad_to (gI a1) (gI a2))
  (* model *)
  (* model; last argument: the stream cursor at each resumption of the generator *)
  else if op =? "section_notes" then sx_res sx_iter (section_notes_at (g_cfg a1) (gB a2) (g_adv (nthx 4 l)) (gI a3))
  else if op =? "segment_notes" then sx_res sx_iter (segment_notes_at (g_cfg a1) (gB a2) (g_adv (nthx 4 l)) (gI a3))
  else if op =? "section_stabs" then sx_res sx_stabs (section_stabs_at (g_cfg a1) (gB a2) (g_adv (nthx 4 l)) (gI a3))
  else if op =? "iter_notes" then sx_iter (iter_notes (g_cfg a1) (gB a2) (g_adv (nthx 5 l)) (gI a3) (gI (nthx 4 l)))
  else if op =? "roundup" then SI (roundup (gI a1) (gI a2))
  else sx_err "unknown-op".
