(* Extract/DrvC12.v — driver for C12: runs the very definitions the theorems of
   Props/C12.v are about (Spec.C12Spec encoders / wf / expected parse, Model.C12Expr).
   Requests:
     ("table")                         -> ((opc "name" ("KIND" ...)) ...)       the spec table
     ("case" (le addr fmt) (op ...))   -> (wf canon #bytes expected model #reenc)
         op  = ("op" opc (val ...)) | ("nest" opc pad (op ...))
         val = ("i" v) | ("leb" #enc v) | ("blk" #lenc #bytes) | ("typed" #tenc ty #bytes)
             | ("wleb" tag #enc v) | ("w32" v)
     ("raw" (le addr fmt) #bytes)      -> model result on arbitrary bytes
     ("bad" (le addr fmt) bx)          -> (wf_bad #bytes "why" model)      ill-formed expressions (Spec bexpr)
         bx = ("opcode" (op ...) opc #rest)                  a byte that is not an operation, in opcode position
            | ("trunc" (op ...) opc pad excess #body)        block announced [excess] bytes longer than #body
            | ("inner" (op ...) opc pad bx #rest)            entry-value block holding an ill-formed expression *)
From PV Require Import Base.Outcome Spec.C12Spec Model.C12Expr.
Open Scope string_scope.

Definition cfg_of_sx (s : sx) : cfg :=
  let l := gL s in mkCfg (gbool (nthx 0 l)) (gI (nthx 1 l)) (gI (nthx 2 l)).

Definition sval_of_sx (s : sx) : sval :=
  match s with
  | SL [SS tag; SI v] => if tag =? "w32" then VWasmU32 v else VInt v
  | SL [SS tag; SB a; SI v] => VLeb a v
  | SL [SS tag; SB a; SB b] => VBlock a b
  | SL [SS tag; SB a; SI ty; SB b] => VTyped a ty b
  | SL [SS tag; SI t; SB a; SI v] => VWasmLeb t a v
  | _ => VInt 0
  end.

(* a nested operation comes with the number of padding bytes of its length field;
   the length itself is the size of the encoded body (computed here, certified by wf_ops) *)
Fixpoint sop_of_sx (c : cfg) (s : sx) : sop :=
  match s with
  | SL [SS _; SI opc; SL vals] => SOp opc (map sval_of_sx vals)
  | SL [SS _; SI opc; SI pad; SL body] =>
      let b := map (sop_of_sx c) body in
      SNest opc (uleb_pad (uleb_encode (zlen (encode_ops c b))) (Z.to_nat pad)) b
  | _ => SOp (-1) []
  end.

(* length fields are computed here from the encoded content (certified by wf_bad) *)
Fixpoint bexpr_of_sx (c : cfg) (s : sx) : bexpr :=
  match s with
  | SL [SS _; SL pre; SI opc; SB rest] => BOpcode (map (sop_of_sx c) pre) opc rest
  | SL [SS _; SL pre; SI opc; SI pad; SI excess; SB body] =>
      let size := zlen body + excess in
      BTrunc (map (sop_of_sx c) pre) opc (uleb_pad (uleb_encode size) (Z.to_nat pad)) size body
  | SL [SS _; SL pre; SI opc; SI pad; inner; SB rest] =>
      let b := bexpr_of_sx c inner in
      BInner (map (sop_of_sx c) pre) opc
             (uleb_pad (uleb_encode (zlen (encode_bad c b))) (Z.to_nat pad)) b rest
  | _ => BTrunc [] (-1) [] 0 []      (* not wf_bad: a malformed request is never taken for a case *)
  end.

Fixpoint sx_of_pval (p : pval) : sx :=
  match p with
  | AInt v => SI v
  | ABlob bs => SL [SS "b"; SB bs]
  | AExpr ops => SL [SS "e"; SL (map sx_of_pval ops)]
  | POp opc name args off => SL [SI opc; SS name; SL (map sx_of_pval args); SI off]
  end.
Definition sx_of_parse (r : list pval) : sx := SL (map sx_of_pval r).

Definition sx_table : sx :=
  SL (map (fun '(opc, (name, ks)) => SL [SI opc; SS name; SL (map (fun k => SS (opkind_name k)) ks)])
          spec_optable).

Definition dispatch (req : sx) : sx :=
  let l := gL req in
  let op := gS (nthx 0 l) in
  if op =? "table" then sx_table
  else if op =? "case" then
    let c := cfg_of_sx (nthx 1 l) in
    let ops := map (sop_of_sx c) (gL (nthx 2 l)) in
    let bytes := encode_ops c ops in
    let expected := annotate c ops in
    SL [ sx_bool (cfg_ok c && wf_ops c ops);
         sx_bool (canon_ops c ops);
         SB bytes;
         sx_ok (sx_of_parse expected);
         sx_res sx_of_parse (parse_expr c bytes);
         SB (reencode c expected) ]
  else if op =? "raw" then
    sx_res sx_of_parse (parse_expr (cfg_of_sx (nthx 1 l)) (gB (nthx 2 l)))
  else if op =? "bad" then
    let c := cfg_of_sx (nthx 1 l) in
    let b := bexpr_of_sx c (nthx 2 l) in
    let bytes := encode_bad c b in
    SL [ sx_bool (cfg_ok c && wf_bad c b);
         SB bytes;
         SS (why_name (why_of b));
         sx_res sx_of_parse (parse_expr c bytes) ]
  else sx_err "unknown-op".
