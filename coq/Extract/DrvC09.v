(* Extract/DrvC09.v — driver for C09: runs the very definitions the theorems of
   Props/C09.v are about (Model/C09Dynamic.v, Spec/C09Dyn.v).  Request: (op args...). *)
From PV Require Import Base.Outcome Model.C09Dynamic Proofs.C09Tables.
Open Scope Z_scope.
Open Scope list_scope.
Open Scope string_scope.

(* ---- spec encoders: every record of an image comes from the gABI layouts ---- *)
Definition spec_layout (name : string) (le is64 : bool) : option layout :=
  if name =? "Ehdr" then Some (spec_Elf_Ehdr le is64)
  else if name =? "Phdr" then Some (spec_Elf_Phdr le is64)
  else if name =? "Shdr" then Some (spec_Elf_Shdr le is64)
  else if name =? "Dyn" then Some (spec_Elf_Dyn le is64)
  else if name =? "Sym" then Some (spec_Elf_Sym le is64)
  else if name =? "Rel" then Some (spec_Elf_Rel le is64)
  else if name =? "Rela" then Some (spec_Elf_Rela le is64)
  else if name =? "Relr" then Some (spec_Elf_Relr le is64)
  else if name =? "RelMips64" then Some (spec_Elf_Rel_mips64 le)
  else if name =? "RelaMips64" then Some (spec_Elf_Rela_mips64 le)
  else if name =? "Hash" then Some (spec_Elf_Hash le)
  else if name =? "Hash64" then Some (spec_Elf_Hash_w le true)
  else if name =? "GnuHash" then Some (spec_Gnu_Hash le is64)
  else None.
Definition g_fval (s : sx) : fval :=
  match s with
  | SI z => VZ z
  | SB b => VB b
  | SL l => VL (map gI l)
  | SS _ => VZ 0
  end.
Definition enc_layout (name : string) (le is64 : bool) (vals : list sx) : sx :=
  match spec_layout name le is64 with
  | Some L => let vs := map g_fval vals in
              SL [SB (encode_layout L vs); sx_bool (fits_layout L vs)]
  | None => sx_err "unknown-layout"
  end.

(* ---- results ---- *)
Definition sx_ename (e : ename) : sx := match e with EN n => SS n | ER v => SI v end.
Definition sx_dyntag (d : dyntag) : sx :=
  SL [sx_ename (fst (fst d)); SI (snd (fst d)); sx_opt SB (snd d)].
Definition sx_optZ (o : option Z) : sx := sx_opt SI o.
Definition sx_relent (e : relent) : sx :=
  SL [SI (fst (fst e)); SI (snd (fst e)); sx_optZ (snd e)].
Definition sx_reltab (p : reltab * res (list relent)) : sx :=
  match fst p with
  | RelTable kind off size is_rela =>
      SL [SS kind; sx_bool is_rela; sx_res (fun l => SL (map sx_relent l)) (snd p)]
  | RelrTable off size entsize =>
      SL [SS "RELR"; SI 0; sx_res (fun l => SL (map sx_relent l)) (snd p)]
  end.
Definition sx_symbol (s : symbol) : sx :=
  let r := fst s in
  SL [SI (rec_z r "st_name"); SI (rec_z r "st_value"); SI (rec_z r "st_size");
      SI (rec_z r "st_info.bind"); SI (rec_z r "st_info.type"); SI (rec_z r "st_other.local");
      SI (rec_z r "st_other.visibility"); SI (rec_z r "st_shndx"); SB (snd s)].
Definition sx_list {A} (f : A -> sx) (l : list A) : sx := SL (map f l).

Definition table_names : list string :=
  ["DT_STRTAB"; "DT_SYMTAB"; "DT_HASH"; "DT_GNU_HASH"; "DT_REL"; "DT_RELA"; "DT_RELR"; "DT_JMPREL"].

(* everything the harness observes on one Dynamic object *)
Definition observe_dyn (f : elf) (dy : res dynobj) (with_symbols : bool) (names : list (list Z)) : sx :=
  match dy with
  | Err e => sx_of_err e
  | Ok dy =>
      let tags := view_tags f dy in
      let offs := do ts <- raw_tags f dy; do ps <- iter_segments f;
                  Ok (map (fun n => get_table_offset f ps ts n) table_names) in
      let syms := view_symbols f dy in
      SL [ sx_res (sx_list sx_dyntag) tags;
           sx_res SI (num_tags f dy);
           sx_res (sx_list (fun p => SL [sx_optZ (fst p); sx_optZ (snd p)])) offs;
           sx_res (sx_list sx_reltab) (view_relocs f dy);
           if with_symbols then
             SL [ sx_res SI (do ts <- raw_tags f dy; do ps <- iter_segments f; num_symbols f ps ts dy);
                  sx_res (sx_list sx_symbol) syms;
                  sx_res (fun l => sx_list (fun n => sx_opt (sx_list sx_symbol) (get_symbol_by_name l n)) names) syms ]
           else sx_none ]
  end.

Definition observe (img : list Z) (names : list (list Z)) : sx :=
  match elf_open img with
  | Err e => sx_of_err e
  | Ok f =>
      SL [ observe_dyn f (the_dynamic_section f) false names;
           observe_dyn f (the_dynamic_segment f) true names;
           sx_res (sx_list sx_symbol) (section_symbols_view img) ]
  end.

(* spec: what one dynamic array with its string table must yield *)
Definition spec_tags (le is64 : bool) (machine osabi : Z) (es : list dent) (tab : list Z) : sx :=
  match cut_at_null es with
  | None => sx_none
  | Some l =>
      SL [SS "some";
          sx_list (fun e =>
                     let x := spec_entry (spec_is_solaris machine osabi) tab e in
                     SL [sx_ename (dec_enum (spec_dtab machine osabi) (fst e)); SI (snd e);
                         match snd x with
                         | Some (Some s) => SL [SS "some"; SB s]
                         | Some None => SL [SS "some"; SB []]
                         | None => sx_none
                         end]) l]
  end.

Definition g_dent (s : sx) : dent := (gI (nthx 0 (gL s)), gI (nthx 1 (gL s))).

(* ---- histories on one object: the stateful model and the reference over the model's own tag list ---- *)
Definition g_hop (s : sx) : hop :=
  let l := gL s in let k := gS (nthx 0 l) in
  if k =? "start" then HStart (match nthx 1 l with SS n => Some n | _ => None end)
  else if k =? "next" then HNext (gnat (nthx 1 l))
  else if k =? "num_tags" then HNumTags
  else HGetTag (gI (nthx 1 l)).
Definition sx_hans (a : hans rawtag) : sx :=
  match a with
  | AStarted => SS "started"
  | ATag t => SL [SS "tag"; sx_ename (fst t); SI (snd t)]
  | AStop => SS "stop"
  | ANum n => SL [SS "num"; SI n]
  | AErr e => sx_of_err e
  | ANoWalk => SS "nowalk"
  end.
Definition history (img : list Z) (seg : bool) (ops : list hop) : sx :=
  match elf_open img with
  | Err e => sx_of_err e
  | Ok f =>
      match (if seg then the_dynamic_segment f else the_dynamic_section f) with
      | Err e => sx_of_err e
      | Ok dy =>
          SL [SL (map sx_hans (hrun f dy (dst_init dy) ops));
              match raw_tags f dy with
              | Ok ts => SL (map sx_hans (rrun rawtag tmatch ts [] ops))
              | Err e => sx_of_err e
              end]
      end
  end.

Definition dispatch (req : sx) : sx :=
  let l := gL req in
  let op := gS (nthx 0 l) in
  let a1 := nthx 1 l in let a2 := nthx 2 l in let a3 := nthx 3 l in let a4 := nthx 4 l in
  let a5 := nthx 5 l in let a6 := nthx 6 l in
  if op =? "enc" then enc_layout (gS a1) (gbool a2) (gbool a3) (gL a4)
  else if op =? "enc_int" then SB (int_encode (gbool a1) (gnat a2) (gI a3))
  else if op =? "observe" then observe (gB a1) (map gB (gL a2))
  else if op =? "wf" then SL [sx_bool (consistent_b (gB a1)); sx_bool (sym_consistent_b (gB a1));
                                  sx_bool (seg_consistent_b (gB a1))]
  else if op =? "history" then history (gB a1) (gbool a2) (map g_hop (gL a3))
  else if op =? "stripped_of" then sx_bool (stripped_of_b (gB a1) (gB a2))
  else if op =? "spec_tags" then spec_tags (gbool a1) (gbool a2) (gI a3) (gI a4) (map g_dent (gL a5)) (gB a6)
  else if op =? "gnu_valid" then sx_bool (gnu_valid (gbool a1) (gbool a2) (gB a3) (gI a4))
  else if op =? "sysv_valid" then sx_bool (sysv_valid (gbool a1) (gbool a4) (gB a2) (gI a3))
  else sx_err "unknown-op".
