(* Extract/DrvC13.v — driver for C13: runs the very definitions the theorems of
   Props/C13.v are about (Model/C13*.v, Spec/C13Spec.v).  Request: (op args...). *)
From PV Require Import Base.Outcome Base.PyData Base.Prim Spec.C13Spec
     Model.C13Aranges Model.C13NameLUT Model.C13DwarfInfo.
From Coq Require Import ZArith List Bool.
Import ListNotations.
Open Scope Z_scope.

(* ---- abstract inputs *)
Definition g_pair (s : sx) : Z * Z := (gI (nthx 0 (gL s)), gI (nthx 1 (gL s))).
Definition g_arange_set (s : sx) : arange_set :=
  let l := gL s in
  mk_arange_set (gI (nthx 0 l)) (gI (nthx 1 l)) (gI (nthx 2 l)) (gB (nthx 3 l))
                (map g_pair (gL (nthx 4 l))) (gB (nthx 5 l)).
Definition g_name_entry (s : sx) : Z * list Z := (gI (nthx 0 (gL s)), gB (nthx 1 (gL s))).
Definition g_name_set (s : sx) : name_set :=
  let l := gL s in
  mk_name_set (gI (nthx 0 l)) (gI (nthx 1 l)) (gI (nthx 2 l))
              (map g_name_entry (gL (nthx 3 l))) (gB (nthx 4 l)).
Definition g_unit (s : sx) : unit_spec :=
  let l := gL s in
  mk_unit_spec (gbool (nthx 0 l)) (gI (nthx 1 l)) (gI (nthx 2 l)) (gI (nthx 3 l))
               (gI (nthx 4 l)) (gI (nthx 5 l)) (gI (nthx 6 l)) (gB (nthx 7 l)).

(* ---- results *)
Definition sx_entry (e : arange_entry) : sx :=
  SL [SI (ae_begin e); SI (ae_length e); SI (ae_info_offset e); SI (ae_unit_length e);
      SI (ae_version e); SI (ae_address_size e); SI (ae_segment_size e)].
Definition sx_optZ (o : option Z) : sx := sx_opt SI o.
Definition sx_lut (v : Z * Z) : sx := SL [SI (fst v); SI (snd v)].
Definition sx_item (kv : list Z * (Z * Z)) : sx := SL [SB (fst kv); sx_lut (snd kv)].
Definition sx_nh (h : name_header) : sx :=
  SL [SI (nh_unit_length h); SI (nh_version h); SI (nh_info_offset h); SI (nh_info_length h)].
Definition sx_cu (c : cu) : sx :=
  let h := cu_hdr c in
  SL [SI (cu_offset c); SI (ch_unit_length h); sx_bool (ch_is64 h); SI (ch_version h);
      SI (ch_unit_type h); SI (ch_abbrev_off h); SI (ch_addr_size h); SI (ch_id h);
      SI (ch_type_off h); SI (cu_die_offset c)].

(* ---- the DIE constructor used by the harness: units whose abbreviations have no
   attributes, so a DIE is its ULEB128 abbreviation code.  (offset, abbrev_code, size) *)
Definition simple_die (stream : list Z) (u : cu) (off : Z) : res (Z * Z * Z) :=
  let bs := skipn (Z.to_nat off) stream in
  match uleb_decode bs with
  | Some (code, rest) => Ok (off, code, zlen bs - zlen rest)
  | None => Err EParse
  end.
Definition sx_die (d : Z * Z * Z) : sx := SL [SI (fst (fst d)); SI (snd (fst d)); SI (snd d)].

Definition g_op (s : sx) : di_op :=
  let l := gL s in
  let k := gS (nthx 0 l) in
  if (k =? "containing")%string then OpContaining (gI (nthx 1 l))
  else if (k =? "at")%string then OpAt (gI (nthx 1 l))
  else OpDie (gI (nthx 1 l)) (gI (nthx 2 l)).
Definition sx_answer (a : di_answer (Z * Z * Z)) : sx :=
  match a with
  | ACU r => sx_res sx_cu r
  | ADIE r => sx_res sx_die r
  end.

Open Scope string_scope.
Definition dispatch (req : sx) : sx :=
  let l := gL req in
  let op := gS (nthx 0 l) in
  let a1 := nthx 1 l in let a2 := nthx 2 l in let a3 := nthx 3 l in let a4 := nthx 4 l in
  (* ---------- aranges *)
  if op =? "enc_aranges" then SB (encode_aranges (gbool a1) (map g_arange_set (gL a2)))
  else if op =? "wf_aranges" then sx_bool (wf_aranges (map g_arange_set (gL a1)))
  else if op =? "aligned" then sx_bool (aranges_aligned (map g_arange_set (gL a1)))
  else if op =? "disjoint" then
    sx_bool (ranges_disjoint (aranges_entries (map g_arange_set (gL a1))))
  else if op =? "aranges_spec" then
    let es := sorted_by ae_begin (aranges_entries (map g_arange_set (gL a1))) in
    SL [SL (map sx_entry es); sx_ints (map ae_begin es)]
  else if op =? "aranges_model" then
    sx_res (fun t => SL [SL (map sx_entry (ar_entries t)); sx_ints (ar_keys t)])
           (aranges_init (gbool a1) (gB a2) (gI a3))
  else if op =? "entries_model" then   (* _get_entries(need_empty) *)
    sx_res (fun es => SL (map sx_entry es)) (get_entries (gbool a1) (gbool a4) (gB a2) (gI a3))
  else if op =? "entries_model_unfixed" then   (* the code before fix efe8bbe (section-relative padding) *)
    sx_res (fun es => SL (map sx_entry es)) (get_entries_unfixed (gbool a1) (gbool a4) (gB a2) (gI a3))
  else if op =? "lookup_spec" then
    let es := aranges_entries (map g_arange_set (gL a1)) in
    SL (map (fun a => sx_ok (sx_optZ (lookup_spec es (gI a)))) (gL a2))
  else if op =? "lookup_model" then
    match aranges_init (gbool a1) (gB a2) (gI a3) with
    | Ok t => SL (map (fun a => sx_res sx_optZ (cu_offset_at_addr t (gI a))) (gL a4))
    | Err e => sx_of_err e
    end
  else if op =? "lookup_model_unfixed" then
    match aranges_init (gbool a1) (gB a2) (gI a3) with
    | Ok t => SL (map (fun a => sx_res sx_optZ (cu_offset_at_addr_unfixed t (gI a))) (gL a4))
    | Err e => sx_of_err e
    end
  (* ---------- name tables *)
  else if op =? "enc_names" then SB (encode_names (gbool a1) (map g_name_set (gL a2)))
  else if op =? "wf_names" then sx_bool (wf_names (map g_name_set (gL a1)))
  else if op =? "names_spec" then
    let sets := map g_name_set (gL a1) in
    let d := dict_of_list bytes_eqb (names_items sets) in
    SL [SL (map sx_item d); SL (map sx_nh (names_headers sets));
        SL (map (fun q => sx_opt sx_lut (assoc_last bytes_eqb (names_items sets) (gB q))) (gL a2))]
  else if op =? "names_model" then
    sx_res (fun p => SL [SL (map sx_item (nl_items p)); SL (map sx_nh (nl_cu_headers p));
                         SL (map (fun q => sx_opt sx_lut (nl_get p (gB q))) (gL a4));
                         SL (map (fun q => sx_res sx_lut (nl_getitem p (gB q))) (gL a4));
                         SL (map SB (nl_iter p)); SI (nl_len p)])
           (namelut_get_entries (gbool a1) (gB a2) (gI a3))
  (* ---------- units *)
  else if op =? "enc_units" then SB (encode_units (gbool a1) (map g_unit (gL a2)))
  else if op =? "wf_units" then sx_bool (wf_units (map g_unit (gL a1)))
  else if op =? "units_spec" then SL (map sx_cu (section_units (map g_unit (gL a1))))
  else if op =? "di_run" then
    let stream := gB a2 in
    SL (map sx_answer
            (snd (di_run (simple_die stream) (gbool a1) stream (gI a3) (di_init (D := Z * Z * Z))
                         (map g_op (gL a4)))))
  else if op =? "di_fresh" then   (* each query on a FRESH object *)
    let stream := gB a2 in
    SL (map (fun o => sx_answer (snd (di_step (simple_die stream) (gbool a1) stream (gI a3)
                                              (di_init (D := Z * Z * Z)) o)))
            (map g_op (gL a4)))
  else if op =? "di_spec" then
    let us := map g_unit (gL a2) in
    let stream := encode_units (gbool a1) us in
    SL (map (fun o => sx_answer (answer_spec (simple_die stream) (section_units us) (zlen stream) o)) (map g_op (gL a3)))
  else sx_err "unknown-op".
