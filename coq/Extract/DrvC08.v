(* Extract/DrvC08.v — driver for C08: runs the very definitions the theorems of Props/C08.v are
   about (Model/C08Reloc.v, Spec/C08Spec.v).  Request: (op args...). *)
From PV Require Import Base.Fmt Base.Outcome Spec.ElfGabi Spec.C08Spec Spec.C08Hist Model.C08Reloc Model.C08Hist.
Open Scope string_scope.

Definition g_rent (s : sx) : rent :=
  let l := gL s in
  mkRent (gI (nthx 0 l)) (gI (nthx 1 l)) (gI (nthx 2 l)) (gI (nthx 3 l))
         (gI (nthx 4 l)) (gI (nthx 5 l)) (gI (nthx 6 l)).
Definition g_rents (s : sx) : list rent := map g_rent (gL s).

Definition sx_fval (v : fval) : sx :=
  match v with VZ z => SI z | VB b => SB b | VL l => sx_ints l end.
Definition sx_entry (e : list (string * fval)) : sx :=
  SL (map (fun p => SL [SS (fst p); sx_fval (snd p)]) e).
Definition sx_entries (l : list (list (string * fval))) : sx := SL (map sx_entry l).

Definition g_sec (s : sx) : sec :=
  let l := gL s in
  mkSec (gB (nthx 0 l)) (gI (nthx 1 l)) (gI (nthx 2 l)) (gI (nthx 3 l)) (gI (nthx 4 l)) (gI (nthx 5 l)).
Definition g_secs (s : sx) : list sec := map g_sec (gL s).
Definition nth_sec (secs : list sec) (i : Z) : sec := nth (Z.to_nat i) secs (mkSec [] 0 0 0 0 0).

Definition sx_oz (o : option Z) : sx := match o with Some z => SI z | None => sx_none end.
Definition sx_dtable (t : dtable) : sx :=
  match t with
  | TRel k off size rela => SL [SS k; sx_oz off; SI size; sx_bool rela]
  | TRelr off size ent => SL [SS "RELR"; sx_oz off; SI size; SI ent]
  end.

Definition g_pairs (s : sx) : list (Z * Z) := map (fun p => (gI (nthx 0 (gL p)), gI (nthx 1 (gL p)))) (gL s).
Definition g_segs (s : sx) : list seg :=
  map (fun p => (gI (nthx 0 (gL p)), gI (nthx 1 (gL p)), gI (nthx 2 (gL p)))) (gL s).

(* histories: (("start") ("next" g) ("close" g) ("num") ("get" n) ("iter")); extra elements are the
   harness's own annotations (how a generator is resumed / dropped) *)
Definition g_hop (s : sx) : hop :=
  let l := gL s in
  let t := gS (nthx 0 l) in
  if t =? "start" then HStart
  else if t =? "next" then HNext (gnat (nthx 1 l))
  else if t =? "close" then HClose (gnat (nthx 1 l))
  else if t =? "num" then HNum
  else if t =? "get" then HGet (gI (nthx 1 l))
  else HIter.
Definition g_hist (s : sx) : list hop := map g_hop (gL s).
Definition sx_ans {A} (f : A -> sx) (a : ans A) : sx :=
  match a with
  | AUnit => SS "unit"
  | AItem x => SL [SS "item"; f x]
  | AStop => SS "stop"
  | AInt n => SL [SS "int"; SI n]
  | AList l => SL [SS "list"; SL (map f l)]
  | AErr e => sx_of_err e
  | ANoGen => SS "nogen"
  end.
Definition sx_answers {A} (f : A -> sx) (l : list (ans A)) : sx := SL (map (sx_ans f) l).

Definition dispatch (req : sx) : sx :=
  let l := gL req in
  let op := gS (nthx 0 l) in
  let a1 := nthx 1 l in let a2 := nthx 2 l in let a3 := nthx 3 l in let a4 := nthx 4 l in
  let a5 := nthx 5 l in let a6 := nthx 6 l in let a7 := nthx 7 l in
  (* ---- spec: encoders, expected views, well-formedness *)
  if op =? "enc_table" then SB (encode_table (gbool a1) (gbool a2) (gbool a3) (gbool a4) (g_rents a5))
  else if op =? "rents_wf" then sx_bool (forallb (rent_wf (gbool a1) (gbool a2) (gbool a3)) (g_rents a4))
  else if op =? "spec_view" then sx_entries (map (rent_view (gbool a1) (gbool a2) (gbool a3)) (g_rents a4))
  else if op =? "enc_relr" then SB (encode_relr (gbool a1) (gbool a2) (gints a3))
  else if op =? "relr_spec" then sx_res sx_ints (relr_spec (gbool a1) (gints a2))
  else if op =? "relr_wf" then
    SL [sx_bool (relr_words_wf (gbool a1) (gints a2)); sx_bool (relr_no_overflow (gbool a1) (gints a2))]
  else if op =? "enc_sym" then SB (encode_sym (gbool a1) (gbool a2) (gI a3) (gI a4))
  else if op =? "enc_dyn" then SB (encode_dyn (gbool a1) (gbool a2) (gI a3) (gI a4))
  else if op =? "spec_apply" then
    sx_res SB (spec_apply_all (gbool a1) (gbool a2) (gI a3) (gbool a4) (gints a5) (gB a6) (g_rents a7))
  else if op =? "apply_wf" then
    sx_bool (apply_wf (gbool a1) (gI a2) (gbool a3) (gints a4) (gB a5) (g_rents a6))
  (* ---- model *)
  else if op =? "model_table" then      (* le is64 em rela img off size *)
    sx_res sx_entries (iter_relocations (rel_struct (gbool a1) (gbool a2) (is_mips (gI a3)) (gbool a4))
                                        (gB a5) (gI a6) (gI a7))
  else if op =? "model_num" then        (* le is64 em rela size *)
    SI (num_relocations (rel_struct (gbool a1) (gbool a2) (is_mips (gI a3)) (gbool a4)) (gI a5))
  else if op =? "model_get" then        (* le is64 em rela img off n *)
    sx_res sx_entry (get_relocation (rel_struct (gbool a1) (gbool a2) (is_mips (gI a3)) (gbool a4))
                                    (gB a5) (gI a6) (gI a7))
  else if op =? "model_relsec_check" then   (* le is64 em rela entsize *)
    sx_res (fun _ => SI 1)
           (reloc_section_check (rel_struct (gbool a1) (gbool a2) (is_mips (gI a3)) (gbool a4)) (gI a5))
  else if op =? "model_relr" then       (* le is64 img off size entsize *)
    sx_res sx_ints (relr_iter_relocations (gbool a1) (gbool a2) (gB a3) (gI a4) (gI a5) (gI a6))
  else if op =? "model_read_dwarf" then (* le is64 em img secs secidx relocate *)
    let secs := g_secs a5 in
    sx_res SB (read_dwarf_section (gbool a1) (gbool a2) (gI a3) (gB a4) secs (nth_sec secs (gI a6)) (gbool a7))
  else if op =? "model_apply" then      (* le is64 em img secs data rsidx *)
    let secs := g_secs a5 in
    sx_res SB (apply_section_relocations (gbool a1) (gbool a2) (gI a3) (gB a4) secs (gB a6) (nth_sec secs (gI a7)))
  else if op =? "model_find" then       (* secs name -> offset of the section found *)
    sx_opt (fun s => SI (s_off s)) (find_relocations_for_section (g_secs a1) (gB a2))
  else if op =? "model_arch" then SS (machine_arch (gI a1))
  else if op =? "model_dyn" then        (* le is64 em tags segs *)
    sx_res (fun ts => SL (map sx_dtable ts))
           (get_relocation_tables (gbool a1) (gbool a2) (gI a3) (g_pairs a4) (g_segs a5))
  (* ---- table objects under a history of calls *)
  else if op =? "spec_hist_relr" then   (* is64 words hist *)
    sx_answers SI (spec_hist (relr_spec (gbool a1) (gints a2)) (g_hist a3))
  else if op =? "spec_hist_rel" then    (* is64 mips64 rela entries hist *)
    sx_answers sx_entry (spec_hist (Ok (map (rent_view (gbool a1) (gbool a2) (gbool a3)) (g_rents a4))) (g_hist a5))
  else if op =? "hist_ok" then          (* strict count hist *)
    sx_bool (forallb (hop_ok (gbool a1) (gI a2)) (g_hist a3))
  else if op =? "model_hist_relr" then  (* le is64 img off size entsize hist *)
    sx_res (sx_answers SI) (relr_hist (gbool a1) (gbool a2) (gB a3) (gI a4) (gI a5) (gI a6) (g_hist a7))
  else if op =? "model_hist_rel" then   (* le is64 em rela img off size hist *)
    sx_answers sx_entry (rel_hist (rel_struct (gbool a1) (gbool a2) (is_mips (gI a3)) (gbool a4))
                                  (gB a5) (gI a6) (gI a7) (g_hist (nthx 8 l)))
  else if op =? "model_read_dwarf_file" then (* le is64 em img e_shoff e_shnum table secidx relocate *)
    let table := g_secs a7 in
    sx_res SB (read_dwarf_section_file (gbool a1) (gbool a2) (gI a3) (gB a4) (gI a5) (gI a6) table
                                       (nth_sec table (gI (nthx 8 l))) (gbool (nthx 9 l)))
  else if op =? "enc_sym_t" then         (* le is64 name value typ bind shndx *)
    SB (encode_layout (spec_Elf_Sym (gbool a1) (gbool a2))
                      (sym_vals_of (gbool a2) (gI a3) (gI a4) 0 (gI a6) (gI a5) 0 0 (gI a7)))
  else if op =? "model_no_family" then   (* em -> no recipe table is reachable for this machine, either flavour *)
    sx_bool (match family_of (reloc_dispatch (machine_arch (gI a1)) true),
                   family_of (reloc_dispatch (machine_arch (gI a1)) false) with
             | None, None => true | _, _ => false end)
  else if op =? "model_dwarf_link" then  (* has_link has_own crc_ok (le is64 em img secs secidx) (same, own file) flag *)
    let rd (f : sx) (flag : bool) :=
      let fl := gL f in
      let secs := g_secs (nthx 4 fl) in
      read_dwarf_section (gbool (nthx 0 fl)) (gbool (nthx 1 fl)) (gI (nthx 2 fl)) (gB (nthx 3 fl)) secs
                         (nth_sec secs (gI (nthx 5 fl))) flag in
    sx_res SB (dwarf_via_debuglink (gbool a1) (gbool a2) (gbool a3) (rd a4) (rd a5) (gbool a6))
  else if op =? "model_dwarf_seq" then  (* le is64 em img secs secidx flags -> ((results...) image-unchanged) *)
    let secs := g_secs a5 in
    let img := gB a4 in
    let r := dwarf_calls (gbool a1) (gbool a2) (gI a3) secs (nth_sec secs (gI a6)) (mkElfObj img) (map gbool (gL a7)) in
    SL [SL (map (sx_res SB) (fst r));
        sx_bool (bytes_eqb (eo_stream (snd r)) img)]
  else sx_err "unknown-op".
