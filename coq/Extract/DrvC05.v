(* Extract/DrvC05.v — driver for C05: exposes the definitions the theorems of Props/C05.v are
   about (Spec/C05Line.v, Spec/C05Header.v, Model/C05LineProgram.v, Model/C05Header.v) to the
   harness.  Extracted with ExtrOcamlBasic only. *)
From PV Require Import Base.Outcome Base.Prim Spec.C05Line Spec.C05Header
  Model.C05LineProgram Model.C05Header.
Open Scope list_scope.
Open Scope Z_scope.
Open Scope string_scope.

(* ---------------------------------------------------------------- reading requests *)
Definition g_cfg (s : sx) : lcfg :=
  let l := gL s in {| c_le := gbool (nthx 0 l); c_addr_size := gnat (nthx 1 l) |}.
Definition g_params (s : sx) : lparams :=
  let l := gL s in
  {| p_min_inst := gI (nthx 0 l); p_max_ops := gI (nthx 1 l); p_default_is_stmt := gI (nthx 2 l);
     p_line_base := gI (nthx 3 l); p_line_range := gI (nthx 4 l); p_opcode_base := gI (nthx 5 l) |}.

Definition g_instr (s : sx) : instr :=
  let l := gL s in
  let op := gS (nthx 0 l) in
  let a := nthx 1 l in
  if op =? "copy" then ICopy
  else if op =? "advance_pc" then IAdvancePc (gI a)
  else if op =? "advance_line" then IAdvanceLine (gI a)
  else if op =? "set_file" then ISetFile (gI a)
  else if op =? "set_column" then ISetColumn (gI a)
  else if op =? "negate_stmt" then INegateStmt
  else if op =? "set_basic_block" then ISetBasicBlock
  else if op =? "const_add_pc" then IConstAddPc
  else if op =? "fixed_advance_pc" then IFixedAdvancePc (gI a)
  else if op =? "set_prologue_end" then ISetPrologueEnd
  else if op =? "set_epilogue_begin" then ISetEpilogueBegin
  else if op =? "set_isa" then ISetIsa (gI a)
  else if op =? "end_sequence" then IEndSequence
  else if op =? "set_address" then ISetAddress (gI a)
  else if op =? "define_file" then IDefineFile (gB a) (gI (nthx 2 l)) (gI (nthx 3 l)) (gI (nthx 4 l))
  else if op =? "set_discriminator" then ISetDiscriminator (gI a)
  else if op =? "ext_unknown" then IExtUnknown (gI a) (gB (nthx 2 l))
  else ISpecial (gI a).
(* a program element: (instr k kl) *)
Definition g_pinstr (s : sx) : instr * nat * nat :=
  let l := gL s in (g_instr (nthx 0 l), gnat (nthx 1 l), gnat (nthx 2 l)).
Definition g_prog (s : sx) : list (instr * nat * nat) := map g_pinstr (gL s).
Definition prog_instrs (p : list (instr * nat * nat)) : list instr := map (fun x => fst (fst x)) p.

Definition g_lform (s : sx) : lform :=
  let n := gS s in
  if n =? "string" then LF_string else if n =? "line_strp" then LF_line_strp
  else if n =? "strp" then LF_strp else if n =? "udata" then LF_udata
  else if n =? "data1" then LF_data1 else if n =? "data2" then LF_data2
  else if n =? "data4" then LF_data4 else if n =? "data8" then LF_data8
  else if n =? "data16" then LF_data16 else if n =? "strp_sup" then LF_strp_sup
  else if n =? "GNU_strp_alt" then LF_GNU_strp_alt else LF_block.
Definition g_fval (s : sx) : fval :=
  let l := gL s in
  let n := gS (nthx 0 l) in
  let a := nthx 1 l in
  if n =? "string" then FV_string (gB a)
  else if n =? "line_strp" then FV_line_strp (gI a) (gB (nthx 2 l))
  else if n =? "strp" then FV_strp (gI a) (gB (nthx 2 l))
  else if n =? "udata" then FV_udata (gI a)
  else if n =? "data1" then FV_data1 (gI a) else if n =? "data2" then FV_data2 (gI a)
  else if n =? "data4" then FV_data4 (gI a) else if n =? "data8" then FV_data8 (gI a)
  else if n =? "data16" then FV_data16 (gB a)
  else if n =? "strp_sup" then FV_strp_sup (gI a) (gB (nthx 2 l))
  else if n =? "GNU_strp_alt" then FV_GNU_strp_alt (gI a) (gB (nthx 2 l))
  else FV_block (gB a).
Definition g_format (s : sx) : list (Z * lform) :=
  map (fun d => (gI (nthx 0 (gL d)), g_lform (nthx 1 (gL d)))) (gL s).
Definition g_file (s : sx) : file_entry :=
  let l := gL s in
  {| fe_name := gB (nthx 0 l); fe_dir := gI (nthx 1 l); fe_mtime := gI (nthx 2 l); fe_length := gI (nthx 3 l) |}.
Definition g_header (s : sx) : lheader :=
  let l := gL s in
  {| h_is64 := gbool (nthx 0 l); h_version := gI (nthx 1 l);
     h_address_size := gI (nthx 2 l); h_seg_sel_size := gI (nthx 3 l);
     h_params := g_params (nthx 4 l); h_std_lengths := gB (nthx 5 l);
     h_include_dirs := map gB (gL (nthx 6 l)); h_files := map g_file (gL (nthx 7 l));
     h_dir_format := g_format (nthx 8 l); h_dirs := map (fun e => map g_fval (gL e)) (gL (nthx 9 l));
     h_file_format := g_format (nthx 10 l);
     h_file_names := map (fun e => map g_fval (gL e)) (gL (nthx 11 l)) |}.

Definition g_optB (s : sx) : option (list Z) := match s with SB b => Some b | _ => None end.
Definition g_structs (s : sx) : mstructs :=
  let l := gL s in {| ms_le := gbool (nthx 0 l); ms_is64 := gbool (nthx 1 l); ms_addr := gnat (nthx 2 l) |}.
Definition g_secs (s : sx) : msections :=
  let l := gL s in
  {| sec_line := gB (nthx 0 l); sec_line_str := g_optB (nthx 1 l); sec_str := g_optB (nthx 2 l);
     (* 4th element: absent or the symbol nosup = no supplementary DWARFInfo; bytes = its .debug_str;
        any other symbol = a supplementary DWARFInfo without .debug_str *)
     sec_sup_str := match nthx 3 l with
                    | SB b => Some (Some b)
                    | SS t => if (t =? "nostr")%string then Some None else None
                    | _ => None
                    end |}.

(* ---------------------------------------------------------------- writing answers *)
Definition sx_regs (r : regs) : sx :=
  SL [SI (r_address r); SI (r_op_index r); SI (r_file r); SI (r_line r); SI (r_column r);
      sx_bool (r_is_stmt r); sx_bool (r_basic_block r); sx_bool (r_end_sequence r);
      sx_bool (r_prologue_end r); sx_bool (r_epilogue_begin r); SI (r_isa r); SI (r_discriminator r)].
Definition sx_file (f : file_entry) : sx :=
  SL [SB (fe_name f); SI (fe_dir f); SI (fe_mtime f); SI (fe_length f)].
Definition sx_dval (v : dval) : sx :=
  match v with
  | DBytes s => SB s | DInt n => SI n | DList l => SL [SS "l"; SB l] | DNone => sx_none
  end.
Definition sx_params (p : lparams) : sx :=
  SL [SI (p_min_inst p); SI (p_max_ops p); SI (p_default_is_stmt p); SI (p_line_base p);
      SI (p_line_range p); SI (p_opcode_base p)].
Definition sx_pairs (l : list (Z * Z)) : sx := SL (map (fun d => SL [SI (fst d); SI (snd d)]) l).
Definition sx_entries (l : list (list (Z * dval))) : sx :=
  SL (map (fun e => SL (map (fun d => SL [SI (fst d); sx_dval (snd d)]) e)) l).
Definition sx_hview (v : hview) : sx :=
  SL [SI (v_unit_length v); SI (v_version v); sx_opt SI (v_address_size v); sx_opt SI (v_seg_sel_size v);
      SI (v_header_length v); sx_params (v_params v); SB (v_std_lengths v);
      sx_opt sx_pairs (v_dir_format v); sx_opt sx_entries (v_directories v);
      sx_opt sx_pairs (v_file_format v); sx_opt sx_entries (v_file_names v);
      SL (map sx_dval (v_include_directory v));
      SL (map (fun '(n, d, m, l) => SL [sx_dval n; sx_dval d; sx_dval m; sx_dval l]) (v_file_entry v))].
Definition sx_lineprog (lp : mlineprog) : sx :=
  SL [sx_hview (lp_header lp); SI (lp_start lp); SI (lp_end lp)].

(* the observable result of decoding a program: rows, file entries added, distance of the final
   offset from the declared end (0 = exact), number of unread stream bytes *)
Definition sx_decoded (r : res (list lentry * list file_entry * Z * list Z)) : sx :=
  sx_res (fun '(es, fs, rem, rest) =>
            SL [SL (map (fun s => sx_regs (regs_of s)) (entry_states es)); SL (map sx_file fs); SI rem])
         r.

(* model: line_program_for_CU for a sequence of units through one cache, get_entries on each *)
Fixpoint run_units (secs : msections) (cache : lcache) (units : list munit) : list sx :=
  match units with
  | [] => []
  | u :: rest =>
      match line_program_for_CU secs cache u with
      | Err e => sx_of_err e :: run_units secs cache rest
      | Ok (None, cache') => sx_ok sx_none :: run_units secs cache' rest
      | Ok (Some lp, cache') =>
          sx_ok (SL [sx_lineprog lp; sx_decoded (get_entries secs lp)]) :: run_units secs cache' rest
      end
  end.
Definition g_unit (s : sx) : munit :=
  let l := gL s in
  {| cu_structs := g_structs (nthx 0 l);
     cu_top_attrs := match nthx 1 l with
                     | SI off => [("DW_AT_stmt_list", off)]
                     | _ => []
                     end |}.

Definition dispatch (req : sx) : sx :=
  let l := gL req in
  let op := gS (nthx 0 l) in
  let a1 := nthx 1 l in let a2 := nthx 2 l in let a3 := nthx 3 l in
  let a4 := nthx 4 l in let a5 := nthx 5 l in let a6 := nthx 6 l in
  (* ---- spec *)
  if op =? "encode_prog" then SB (encode_prog (g_cfg a1) (g_prog a2))
  else if op =? "wf_prog" then
    sx_bool (wf_cfg (g_cfg a1) && wf_params (g_params a2) && wf_prog (g_cfg a1) (g_params a2) (prog_instrs (g_prog a3)))
  else if op =? "rows_spec" then
    let p := g_params a1 in let is := prog_instrs (g_prog a2) in
    sx_ok (SL [SL (map sx_regs (rows_spec p is)); SL (map sx_file (defined_files is)); SI 0])
  else if op =? "encode_unit" then
    (* le k header prog-bytes *)
    SB (encode_unit (gbool a1) (gnat a2) (g_header a3) (gB a4))
  else if op =? "wf_header" then
    (* header line_str str sup_str *)
    let h := g_header a1 in
    sx_bool (wf_header h && wf_header_values h &&
             header_refs_ok_b (gB a2) (gB a3) (gB a4) h)
  else if op =? "expected_view" then
    (* le k header prog-bytes offset -> (view start end) *)
    let le := gbool a1 in let k := gnat a2 in let h := g_header a3 in let prog := gB a4 in
    let off := gI a5 in
    let ul := unit_length_of le k h prog in
    let total := zlen (encode_unit le k h prog) in
    SL [sx_hview (expected_view h ul (header_length_of le k h)); SI (off + total - zlen prog); SI (off + total)]
  (* ---- model *)
  else if op =? "model_decode" then
    (* cfg params appendable stream start end *)
    sx_decoded (decode_line_program (g_cfg a1) (g_params a2) (gbool a3) (gB a4) (gI a5) (gI a6))
  else if op =? "model_parse" then
    (* secs offset structs *)
    sx_res sx_lineprog (parse_line_program_uncached (g_secs a1) (gI a2) (g_structs a3))
  else if op =? "model_units" then
    (* secs units *)
    SL (run_units (g_secs a1) [] (map g_unit (gL a2)))
  else sx_err "unknown-op".
