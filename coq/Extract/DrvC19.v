(* Extract/DrvC19.v — driver for C19: runs the very definitions the theorems of
   Props/C19.v are about.  Request: (op args...).  Extracted with ExtrOcamlBasic only. *)
From Coq Require Import String.
From PV Require Import Base.Bytes Base.Outcome Base.Fmt.
From PV Require Import Model.C19Base Model.C19Ctor Model.C19Battery.
Open Scope string_scope.

(* a mutant of a base image: substitute bytes, then truncate (len < 0: keep all) *)
Fixpoint subst_at (bs : list Z) (i : nat) (v : Z) : list Z :=
  match bs, i with
  | [], _ => []
  | _ :: r, O => v :: r
  | b :: r, S j => b :: subst_at r j v
  end.
Definition mutate (base : list Z) (m : sx) : list Z :=
  let l := gL m in
  let len := gI (nthx 0 l) in
  let subs := gL (nthx 1 l) in
  let b1 := fold_left (fun acc s => subst_at acc (gnat (nthx 0 (gL s))) (gI (nthx 1 (gL s)))) subs base in
  if (len <? 0)%Z then b1 else firstn (Z.to_nat len) b1.

Definition sx_run {A} (f : A -> sx) (rc : res A * cnt) : sx :=
  SL [sx_res f (fst rc); sx_cnt (snd rc)].

Definition ctor_answer (legacy : bool) (bs : list Z) : sx :=
  sx_run sx_elffile (run (ctor legacy bs)).

Definition battery_answer (legacy : bool) (bs : list Z) : sx :=
  sx_run sx_battery (run (open_and_enumerate legacy bs)).

Definition dispatch (req : sx) : sx :=
  let l := gL req in
  let op := gS (nthx 0 l) in
  let a1 := nthx 1 l in let a2 := nthx 2 l in let a3 := nthx 3 l in
  if op =? "ctor" then ctor_answer false (gB a1)
  else if op =? "ctor_legacy" then ctor_answer true (gB a1)
  else if op =? "ctor_muts" then SL (map (fun m => ctor_answer false (mutate (gB a1) m)) (gL a2))
  else if op =? "battery" then battery_answer false (gB a1)
  else if op =? "battery_legacy" then battery_answer true (gB a1)
  else if op =? "battery_muts" then SL (map (fun m => battery_answer false (mutate (gB a1) m)) (gL a2))
  else if op =? "mutants" then SL (map (fun m => SB (mutate (gB a1) m)) (gL a2))
  else sx_err "unknown-op".
