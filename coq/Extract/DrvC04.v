(* Extract/DrvC04.v — driver for C04: runs the very definitions the theorems of
   Props/C04.v are about (Spec/C04Spec.v, Spec/C04Sem.v, Model/C04Model.v).
   Request: (op args...).  Extracted with ExtrOcamlBasic only.

   abstract syntax (S-expressions):
     lebn    = (value #encoding)
     operand = ("u" v) | ("leb" v #enc) | ("str" #s) | ("blockn" #p) | ("blocku" #lenenc #p)
             | ("bytes" #b) | ("none") | ("implicit") | ("ind" lebn operand)
     aspec   = (lebn lebn "none"|lebn)
     adecl   = (lebn lebn kids:0/1 (aspec ...) #endname #endform)
     atable  = ((adecl ...) #end)
     die     = (lebn (operand ...) (die ...) #term)
     kind    = ("legacy") | ("compile") | ("partial") | ("skeleton" id) | ("split_compile" id)
             | ("type" sig off) | ("split_type" sig off) | ("types4" sig off)
     unit    = ((le is64 asz8 ver) kind abbrev_off atable die)
     world   = (le (unit ...) (unit ...) #abbrev #str #line_str #str_offsets #addr #loclists #rnglists [types_absent])
               -- .debug_info units, .debug_types units, the other sections; the optional last element (read by the
               harness only) says that the file has no .debug_types section at all, which the model represents as
               an empty section (DWARFInfo guards every use with `debug_types_sec is None`) *)
From Coq Require Import String.
From PV Require Import Base.Outcome Base.Prim Spec.C04Desc Spec.C04Spec Spec.C04Sem Gen.C04Forms Model.C04Model.
From Coq Require Import ZArith List Bool.
Import ListNotations.
Open Scope string_scope.
Open Scope list_scope.
Open Scope Z_scope.

(* ---------------------------------------------------------------- reading the abstract input *)
Definition g_lebn (s : sx) : lebn := mklebn (gI (nthx 0 (gL s))) (gB (nthx 1 (gL s))).

Fixpoint g_operand (s : sx) : operand :=
  match s with
  | SL (SS tag :: args) =>
      if String.eqb tag "u" then OpU (gI (nthx 0 args))
      else if String.eqb tag "leb" then OpLeb (mklebn (gI (nthx 0 args)) (gB (nthx 1 args)))
      else if String.eqb tag "str" then OpStr (gB (nthx 0 args))
      else if String.eqb tag "blockn" then OpBlockN (gB (nthx 0 args))
      else if String.eqb tag "blocku" then OpBlockU (gB (nthx 0 args)) (gB (nthx 1 args))
      else if String.eqb tag "bytes" then OpBytes (gB (nthx 0 args))
      else if String.eqb tag "implicit" then OpImplicit
      else if String.eqb tag "ind" then
        match args with
        | f :: inner :: _ => OpIndirect (g_lebn f) (g_operand inner)
        | _ => OpNone
        end
      else OpNone
  | _ => OpNone
  end.

Definition g_aspec (s : sx) : aspec :=
  let l := gL s in
  mkaspec (g_lebn (nthx 0 l)) (g_lebn (nthx 1 l))
          (match nthx 2 l with SL _ => Some (g_lebn (nthx 2 l)) | _ => None end).
Definition g_adecl (s : sx) : adecl :=
  let l := gL s in
  mkadecl (g_lebn (nthx 0 l)) (g_lebn (nthx 1 l)) (gbool (nthx 2 l)) (map g_aspec (gL (nthx 3 l)))
          (gB (nthx 4 l)) (gB (nthx 5 l)).
Definition g_atable (s : sx) : atable :=
  mkatable (map g_adecl (gL (nthx 0 (gL s)))) (gB (nthx 1 (gL s))).

Fixpoint g_die (s : sx) : die :=
  match s with
  | SL (code :: SL vals :: SL kids :: term :: _) =>
      Node (g_lebn code) (map g_operand vals) (map g_die kids) (gB term)
  | _ => Node (mklebn 0 []) [] [] []
  end.

Definition g_kind (s : sx) : ukind :=
  let l := gL s in
  let tag := gS (nthx 0 l) in
  let a := gI (nthx 1 l) in let b := gI (nthx 2 l) in
  if String.eqb tag "compile" then UKcompile
  else if String.eqb tag "partial" then UKpartial
  else if String.eqb tag "skeleton" then UKskeleton a
  else if String.eqb tag "split_compile" then UKsplit_compile a
  else if String.eqb tag "type" then UKtype a b
  else if String.eqb tag "split_type" then UKsplit_type a b
  else if String.eqb tag "types4" then UKtypes4 a b
  else UKlegacy.

Definition g_cfg (s : sx) : cfg :=
  let l := gL s in mkcfg (gbool (nthx 0 l)) (gbool (nthx 1 l)) (gbool (nthx 2 l)) (gI (nthx 3 l)).
Definition g_unit (s : sx) : unit :=
  let l := gL s in
  mkunit (g_cfg (nthx 0 l)) (g_kind (nthx 1 l)) (gI (nthx 2 l)) (g_atable (nthx 3 l)) (g_die (nthx 4 l)).

Record world : Type := mkworld {
  w_le : bool; w_info : list unit; w_types : list unit; w_abbrev : list Z; w_x : xsections
}.
Definition g_world (s : sx) : world :=
  let l := gL s in
  mkworld (gbool (nthx 0 l)) (map g_unit (gL (nthx 1 l))) (map g_unit (gL (nthx 2 l))) (gB (nthx 3 l))
          (mkxsections (gB (nthx 4 l)) (gB (nthx 5 l)) (gB (nthx 6 l)) (gB (nthx 7 l)) (gB (nthx 8 l)) (gB (nthx 9 l))).

Definition w_sections (w : world) : dsections :=
  mkdsections (w_le w) (encode_section (w_info w)) (w_abbrev w) (encode_section (w_types w))
              (xs_str (w_x w)) (xs_line_str (w_x w)) (xs_str_offsets (w_x w)) (xs_addr (w_x w))
              (xs_loclists (w_x w)) (xs_rnglists (w_x w)).
Definition w_placed (w : world) : list punit :=
  place_units true (w_info w) 0 ++ place_units false (w_types w) 0.

(* ---------------------------------------------------------------- printing *)
Definition sx_ename (e : ename) : sx := match e with EName s => SS s | ERaw v => SI v end.
Definition sx_raw (r : rawval) : sx :=
  match r with RInt v => SI v | RBytes b => SB b | RList l => SL (SS "list" :: map SI l) end.
Definition sx_value (v : value) : sx :=
  match v with
  | VInt z => SI z | VBytes b => SB b | VList l => SL (SS "list" :: map SI l)
  | VBool b => SL [SS "bool"; sx_bool b] | VNone => sx_none
  end.
Definition sx_oz (o : option Z) : sx := match o with Some z => SI z | None => sx_none end.
Definition sx_xattr (a : xattr) (v : sx) : sx :=
  SL [sx_ename (xa_name a); sx_ename (xa_form a); v; sx_raw (xa_raw a); SI (xa_off a); SI (xa_ind a)].
Fixpoint zip_attrs (attrs : list xattr) (vals : list sx) : list sx :=
  match attrs, vals with
  | a :: ar, v :: vr => sx_xattr a v :: zip_attrs ar vr
  | a :: ar, [] => sx_xattr a (SS "?") :: zip_attrs ar []
  | [], _ => []
  end.
Definition sx_xdie (d : xdie) (vals : list sx) : sx :=
  SL [SI (x_off d); SI (x_size d); SI (x_code d);
      match x_tag d with Some t => sx_ename t | None => sx_none end;
      match x_kids d with Some b => sx_bool b | None => sx_none end;
      SL (zip_attrs (x_attrs d) vals)].

(* one entry of a report: entry, children offsets, terminator offset, parent offset, reference targets *)
Definition sx_rel (d : xdie) (vals : list sx) (kids : sx) (term : sx) (parent : sx) (refs : sx) : sx :=
  SL [sx_xdie d vals; kids; term; parent; refs].

Definition sx_header (length : Z) (is64 : bool) (ver : Z) (ut : sx) (aoff asz : Z) (extra : list Z)
           (off die_off size : Z) : sx :=
  SL [SI length; sx_bool is64; SI ver; ut; SI aoff; SI asz; sx_ints extra; SI off; SI die_off; SI size].

(* ---------------------------------------------------------------- spec report *)
Definition nm_tag := enum_pass gen_dec_tag.
Definition nm_at := enum_pass gen_dec_at.
Definition nm_form := enum_pass gen_dec_form.

Definition sx_target (t : option (bool * Z * xdie)) : sx :=
  match t with
  | Some (in_info, uoff, d) => SL [SS "ok"; SL [sx_bool in_info; SI uoff; SI (x_off d); SI (x_size d); SI (x_code d)]]
  | None => sx_none
  end.

Definition spec_refs (ps : list punit) (p : punit) (codes : list (Z * Z * rawval)) : sx :=
  SL (map (fun '(n, f, r) => if is_ref_form f then sx_target (ref_target nm_tag nm_at nm_form ps p f r)
                             else SS "-") codes).

Fixpoint spec_rels (w : world) (ps : list punit) (p : punit) (rels : list xrel) (codes : list (list (Z * Z * rawval))) : list sx :=
  match rels, codes with
  | r :: rr, cs :: cr =>
      let u := p_unit p in
      let vals := map (fun o => match o with Some v => sx_value v | None => SS "unresolvable" end)
                      (resolve_all (u_cfg u) (w_x w) (root_codes u) cs) in
      sx_rel (xr_die r) vals (sx_ints (xr_kids r)) (sx_oz (xr_term r)) (sx_oz (xr_parent r)) (spec_refs ps p cs)
      :: spec_rels w ps p rr cr
  | _, _ => []
  end.

Definition spec_unit (w : world) (ps : list punit) (p : punit) : sx :=
  let u := p_unit p in
  let c := u_cfg u in
  let ds := t_decls (u_table u) in
  let h := expect_header u in
  let tree := expect_tree nm_tag nm_at nm_form c ds (u_root u) (p_off p + header_size u) in
  SL [sx_header (xh_length h) (xh_is64 h) (xh_version h)
                (match xh_unit_type h with Some t => sx_ename (enum_pass gen_dec_ut t) | None => sx_none end)
                (xh_abbrev_off h) (xh_addr_size h) (xh_extra h)
                (p_off p) (p_off p + xh_die_off h) (xh_length h + initlen_size c);
      SL (spec_rels w ps p (relations tree None) (entries_codes c ds (unit_entries u)))].

Definition spec_report (w : world) : sx :=
  let ps := w_placed w in
  SL [SL (map (spec_unit w ps) (place_units true (w_info w) 0));
      SL (map (spec_unit w ps) (place_units false (w_types w) 0))].

(* in-domain checks, reported separately so that the harness can tell which clause fails *)
Definition punit_siblings_wf (p : punit) : bool :=
  let u := p_unit p in
  let c := u_cfg u in
  let ds := t_decls (u_table u) in
  siblings_wf c ds (p_in_info p) (p_off p) (u_root u)
              (expect_tree nm_tag nm_at nm_form c ds (u_root u) (p_off p + header_size u)).
Definition punit_values_wf (w : world) (p : punit) : bool :=
  let u := p_unit p in
  forallb (fun cs => forallb (fun o => match o with Some _ => true | None => false end)
                             (resolve_all (u_cfg u) (w_x w) (root_codes u) cs))
          (entries_codes (u_cfg u) (t_decls (u_table u)) (unit_entries u)).
Definition punit_refs_wf (ps : list punit) (p : punit) : bool :=
  let u := p_unit p in
  forallb (fun cs => forallb (fun '(n, f, r) => negb (is_ref_form f) ||
                                                match ref_target nm_tag nm_at nm_form ps p f r with
                                                | Some _ => true | None => false end) cs)
          (entries_codes (u_cfg u) (t_decls (u_table u)) (unit_entries u)).
Definition sigs_distinct (ps : list punit) : bool :=
  znodup (flat_map (fun p => match unit_sig (p_unit p) with Some (s, _) => [s] | None => [] end) ps).

Definition wf_report (w : world) : sx :=
  let ps := w_placed w in
  let us := w_info w ++ w_types w in
  SL [sx_bool (forallb unit_wf us);
      sx_bool (forallb (table_at_b (w_abbrev w)) us);
      sx_bool (forallb (fun u => Bool.eqb (c_le (u_cfg u)) (w_le w)) us);
      sx_bool (forallb (fun u => match u_kind u with UKtypes4 _ _ => false | _ => true end) (w_info w)
               && forallb (fun u => match u_kind u with UKtypes4 _ _ => true | _ => false end) (w_types w));
      sx_bool (forallb punit_siblings_wf ps);
      sx_bool (forallb (punit_values_wf w) ps);
      sx_bool (forallb (punit_refs_wf ps) ps && sigs_distinct ps)].

(* ---------------------------------------------------------------- model report *)
Definition sx_where (wh : where_) : sx := sx_bool (match wh with InInfo => true | InTypes => false end).

Definition model_refs (S : dsections) (wh : where_) (M : munit) (d : xdie) : sx :=
  SL (map (fun a =>
             if is_unit_ref_form (xa_form a) || is_name (xa_form a) "DW_FORM_ref_addr" ||
                is_name (xa_form a) "DW_FORM_ref_sig8"
             then sx_res (fun '(w', uoff, t) => SL [sx_where w'; SI uoff; SI (x_off t); SI (x_size t); SI (x_code t)])
                         (die_from_attribute S wh M a)
             else SS "-") (x_attrs d)).

Definition model_rel (S : dsections) (wh : where_) (M : munit) (top_attrs : list xattr) (d : xdie) : sx :=
  let vals := match die_values S (mu_ctx M) top_attrs d with
              | Ok vs => map sx_value vs
              | Err e => map (fun _ => sx_of_err e) (x_attrs d)
              end in
  let '(kids, term) := match iter_children M (unit_fuel M) d with
                       | Ok (cs, t) => (sx_ints (map x_off cs), sx_oz (option_map x_off t))
                       | Err e => (sx_of_err e, sx_of_err e)
                       end in
  let parent := match get_parent M d with Ok p => sx_oz p | Err e => sx_of_err e end in
  sx_rel d vals kids term parent (model_refs S wh M d).

Definition model_unit (S : dsections) (wh : where_) (sec : list Z) (U : uctx) : sx :=
  let fs := uc_fields U in
  let hdr := sx_header (uc_len U) (uc_is64 U) (uc_ver U)
                       (match uc_unit_type U with Some t => sx_ename t | None => sx_none end)
                       (fget fs "debug_abbrev_offset") (fget fs "address_size")
                       (match wh with
                        | InTypes => [fget fs "signature"; fget fs "type_offset"]
                        | InInfo =>
                            match uc_unit_type U with
                            | Some t => if is_name t "DW_UT_skeleton" || is_name t "DW_UT_split_compile"
                                        then [fget fs "dwo_id"]
                                        else if is_name t "DW_UT_type" || is_name t "DW_UT_split_type"
                                        then [fget fs "type_signature"; fget fs "type_offset"] else []
                            | None => []
                            end
                        end)
                       (uc_off U) (uc_die_off U) (uc_size U) in
  match open_unit (s_abbrev S) sec U with
  | Err e => SL [hdr; sx_of_err e]
  | Ok M =>
      match iter_DIEs M with
      | Err e => SL [hdr; sx_of_err e]
      | Ok dies =>
          let top_attrs := match dies with t :: _ => x_attrs t | [] => [] end in
          SL [hdr; SL (map (model_rel S wh M top_attrs) dies)]
      end
  end.

Definition model_report (S : dsections) : sx :=
  SL [match iter_CUs (s_le S) (s_info S) with
      | Ok us => SL (map (model_unit S InInfo (s_info S)) us)
      | Err e => sx_of_err e
      end;
      match iter_TUs (s_le S) (s_types S) with
      | Ok us => SL (map (model_unit S InTypes (s_types S)) us)
      | Err e => sx_of_err e
      end].

Definition g_sections (s : sx) : dsections :=
  let l := gL s in
  mkdsections (gbool (nthx 0 l)) (gB (nthx 1 l)) (gB (nthx 2 l)) (gB (nthx 3 l)) (gB (nthx 4 l)) (gB (nthx 5 l))
              (gB (nthx 6 l)) (gB (nthx 7 l)) (gB (nthx 8 l)) (gB (nthx 9 l)).

(* ---------------------------------------------------------------- DWARFInfo.get_DIE_by_sig8(sig) queried directly *)
(* spec: the entry a type-signature reference with this signature designates; model: the ref_sig8 branch of
   die_from_attribute = dwarfinfo.get_DIE_by_sig8 (the referring entry and its unit play no role there) *)
Definition sig8_report (w : world) (sig : Z) : sx :=
  let ps := w_placed w in
  let dummyU := mkuctx (w_le w) false 4 4 0 0 0 None [] in
  let a := mkxattr (EName "DW_AT_type") (EName "DW_FORM_ref_sig8") (RInt sig) 0 0 in
  SL [match ps with
      | p :: _ => sx_target (ref_target nm_tag nm_at nm_form ps p FORM_ref_sig8 (RInt sig))
      | [] => sx_none
      end;
      sx_res (fun '(w', uoff, t) => SL [sx_where w'; SI uoff; SI (x_off t); SI (x_size t); SI (x_code t)])
             (die_from_attribute (w_sections w) InInfo (mkmunit dummyU [] []) a)].

(* ---------------------------------------------------------------- layout (for the generator: where entries land) *)
Definition layout_unit (u : unit) (base : Z) : sx :=
  let c := u_cfg u in
  let ds := t_decls (u_table u) in
  let tree := expect_tree nm_tag nm_at nm_form c ds (u_root u) (base + header_size u) in
  SL [SI (zlen (encode_unit u)); SI (header_size u);
      SL (map (fun r => SL [SI (x_off (xr_die r)); SI (x_size (xr_die r)); sx_bool (x_is_null (xr_die r));
                            SL (map (fun a => SI (xa_off a)) (x_attrs (xr_die r)))])
              (relations tree None))].

Definition dispatch (req : sx) : sx :=
  let l := gL req in
  let op := gS (nthx 0 l) in
  let a1 := nthx 1 l in let a2 := nthx 2 l in
  if String.eqb op "enc_atable" then SB (encode_atable (g_atable a1))
  else if String.eqb op "atable_wf" then sx_bool (atable_wf (g_atable a1))
  else if String.eqb op "layout" then layout_unit (g_unit a1) (gI a2)
  else if String.eqb op "sections" then
    let w := g_world a1 in SL [SB (encode_section (w_info w)); SB (encode_section (w_types w))]
  else if String.eqb op "wf" then wf_report (g_world a1)
  else if String.eqb op "spec" then spec_report (g_world a1)
  else if String.eqb op "model" then model_report (g_sections a1)
  else if String.eqb op "model_of_world" then model_report (w_sections (g_world a1))
  else if String.eqb op "sig8" then sig8_report (g_world a1) (gI a2)
  else if String.eqb op "spec_at" then
    (* the expected observations of the first .debug_info unit of the world when it is placed at section offset
       a2 (any offset, e.g. beyond 2^32: C04_section_unit_exact is parametric in what precedes the unit) *)
    match w_info (g_world a1) with
    | u :: _ => let p := mkpunit u (gI a2) true in spec_unit (g_world a1) [p] p
    | [] => sx_none
    end
  else if String.eqb op "std_class" then
    match std_form_class (g_cfg a1) (gI a2) with
    | Some k => SL [SS "some"; SI (match k with
                                   | CFixed n => Z.of_nat n | CUleb => 100 | CSleb => 101 | CStr => 102
                                   | CBlockN n => 110 + Z.of_nat n | CBlockU => 110 | CBytes n => 200 + Z.of_nat n
                                   | CNone => 120 | CImplicit => 121 | CIndirect => 122 end)]
    | None => sx_none
    end
  else sx_err "unknown-op".
