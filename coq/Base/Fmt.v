(* Base/Fmt.v — a small executable model of the part of the vendored `construct`
   library that pyelftools uses for record layouts: Struct of FormatField, Enum
   (applied separately, see Base/Enum.v), BitStruct/BitField, Padding, String(n)/
   Array(n, byte), MetaArray(count from an earlier field, int) and Value(lambda).
   A layout is DATA (so that the translator can regenerate it from the live
   objects and theorems can compare it with the gABI table by computation).
   Nested Structs and BitStructs are flattened with dotted names.  No proofs
   here: see Proofs/FmtProofs.v. *)
From Coq Require Export String.
From PV Require Export Base.Bytes.   (* after String: List's length/concat must win *)
Open Scope Z_scope.

Inductive binop := OAdd | OSub | OMul | OShl | OShr | OAnd | OOr | OXor | OFloorDiv | OMod.

(* the bodies of Value(lambda ctx: ...) / count lambdas, over earlier fields *)
Inductive cexpr :=
| CConst (z : Z)
| CField (name : string)
| CBin (op : binop) (a b : cexpr).

Inductive fval :=
| VZ (z : Z)            (* integer *)
| VB (bs : list Z)      (* raw bytes (padding content, fixed strings) *)
| VL (zs : list Z).     (* array of integers *)

Inductive fkind :=
| KU (le : bool) (n : nat)                  (* FormatField unsigned, n bytes *)
| KS (le : bool) (n : nat)                  (* FormatField signed *)
| KPad (n : nat)                            (* Padding(n): skipped, content free *)
| KBytes (n : nat)                          (* String(n) / Array(n, byte) *)
| KBits (nbytes : nat) (parts : list (string * nat))
                                            (* BitStruct over nbytes bytes, fields MSB first;
                                               a part named "" is bit padding *)
| KArr (count : cexpr) (le : bool) (n : nat)  (* MetaArray(lambda ctx: count, unsigned int) *)
| KCalc (e : cexpr).                        (* Value(name, lambda ctx: e): consumes nothing *)

Definition field := (string * fkind)%type.
Definition layout := list field.
Definition env := list (string * fval).      (* most recent binding first *)

Fixpoint lookup (e : env) (n : string) : option fval :=
  match e with
  | [] => None
  | (k, v) :: r => if (k =? n)%string then Some v else lookup r n
  end.

Definition apply_op (op : binop) (a b : Z) : Z :=
  match op with
  | OAdd => a + b | OSub => a - b | OMul => a * b
  | OShl => Z.shiftl a b | OShr => Z.shiftr a b
  | OAnd => Z.land a b | OOr => Z.lor a b | OXor => Z.lxor a b
  | OFloorDiv => a / b | OMod => a mod b
  end.

Fixpoint eval (e : env) (x : cexpr) : Z :=
  match x with
  | CConst z => z
  | CField n => match lookup e n with Some (VZ z) => z | _ => 0 end
  | CBin op a b => apply_op op (eval e a) (eval e b)
  end.

(* ---- bit fields: the last part is the least significant ---- *)
Fixpoint split_bits_rev (rparts : list (string * nat)) (v : Z) : list (string * fval) :=
  match rparts with
  | [] => []
  | (nm, w) :: r => (nm, VZ (v mod 2 ^ Z.of_nat w)) :: split_bits_rev r (v / 2 ^ Z.of_nat w)
  end.
Definition split_bits (parts : list (string * nat)) (v : Z) : list (string * fval) :=
  rev (split_bits_rev (rev parts) v).

Fixpoint join_bits_rev (rparts : list (string * nat)) (rvals : list Z) : Z :=
  match rparts, rvals with
  | (nm, w) :: r, x :: xs => x + 2 ^ Z.of_nat w * join_bits_rev r xs
  | _, _ => 0
  end.
Definition join_bits (parts : list (string * nat)) (vals : list Z) : Z :=
  join_bits_rev (rev parts) (rev vals).

Definition bits_total (parts : list (string * nat)) : nat :=
  fold_right (fun p acc => (snd p + acc)%nat) O parts.

(* ---- arrays of unsigned ints ---- *)
Fixpoint decode_arr (le : bool) (n : nat) (cnt : nat) (bs : list Z) : option (list Z * list Z) :=
  match cnt with
  | O => Some ([], bs)
  | S c =>
      match take n bs with
      | None => None
      | Some (a, r) =>
          match decode_arr le n c r with
          | Some (zs, t) => Some (int_decode le a :: zs, t)
          | None => None
          end
      end
  end.
Definition encode_arr (le : bool) (n : nat) (zs : list Z) : list Z :=
  List.concat (map (int_encode le n) zs).

(* ---- one field ---- *)
Definition decode_kind (nm : string) (k : fkind) (e : env) (bs : list Z)
  : option (list (string * fval) * list Z) :=
  match k with
  | KU le n => match take n bs with
               | Some (a, t) => Some ([(nm, VZ (int_decode le a))], t) | None => None end
  | KS le n => match take n bs with
               | Some (a, t) => Some ([(nm, VZ (sint_decode le a))], t) | None => None end
  | KPad n => match take n bs with
              | Some (a, t) => Some ([(nm, VB a)], t) | None => None end
  | KBytes n => match take n bs with
                | Some (a, t) => Some ([(nm, VB a)], t) | None => None end
  | KBits nb parts => match take nb bs with
                      | Some (a, t) => Some (split_bits parts (be_decode a), t) | None => None end
  | KArr c le n => match decode_arr le n (Z.to_nat (eval e c)) bs with
                   | Some (zs, t) => Some ([(nm, VL zs)], t) | None => None end
  | KCalc x => Some ([(nm, VZ (eval e x))], bs)
  end.

Fixpoint decode_fields (L : layout) (e : env) (bs : list Z)
  : option (list (string * fval) * list Z) :=
  match L with
  | [] => Some ([], bs)
  | (nm, k) :: L' =>
      match decode_kind nm k e bs with
      | None => None
      | Some (entries, r) =>
          match decode_fields L' (rev entries ++ e) r with
          | Some (es, t) => Some (entries ++ es, t)
          | None => None
          end
      end
  end.
Definition decode_layout (L : layout) (bs : list Z) := decode_fields L [] bs.

(* ---- the inverse direction: values -> bytes.  One value per field, except
        KBits (one VZ per part) and KCalc (none). ---- *)
Definition nvals (k : fkind) : nat :=
  match k with KBits _ parts => length parts | KCalc _ => O | _ => 1%nat end.

Definition zs_of (vs : list fval) : list Z :=
  map (fun v => match v with VZ z => z | _ => 0 end) vs.

Definition encode_kind (k : fkind) (vs : list fval) : list Z :=
  match k, vs with
  | KU le n, [VZ z] => int_encode le n z
  | KS le n, [VZ z] => int_encode le n z
  | KPad n, [VB a] => a
  | KBytes n, [VB a] => a
  | KBits nb parts, _ => be_encode nb (join_bits parts (zs_of vs))
  | KArr c le n, [VL zs] => encode_arr le n zs
  | _, _ => []
  end.

(* the decoded view of the values: names attached, computed fields inserted *)
Definition annot_kind (nm : string) (k : fkind) (e : env) (vs : list fval) : list (string * fval) :=
  match k with
  | KBits nb parts => combine (map fst parts) vs
  | KCalc x => [(nm, VZ (eval e x))]
  | _ => match vs with [v] => [(nm, v)] | _ => [] end
  end.

Definition in_urange (n : nat) (z : Z) : bool := (0 <=? z) && (z <? 2 ^ (8 * Z.of_nat n)).
Definition in_srange (n : nat) (z : Z) : bool :=
  (- (2 ^ (8 * Z.of_nat n) / 2) <=? z) && (z <? 2 ^ (8 * Z.of_nat n) / 2).

Fixpoint fits_bits (parts : list (string * nat)) (vs : list fval) : bool :=
  match parts, vs with
  | [], [] => true
  | (nm, w) :: ps, VZ z :: r => (0 <=? z) && (z <? 2 ^ Z.of_nat w) && fits_bits ps r
  | _, _ => false
  end.

Definition fits_kind (k : fkind) (e : env) (vs : list fval) : bool :=
  match k, vs with
  | KU le n, [VZ z] => in_urange n z
  | KS le n, [VZ z] => (0 <? Z.of_nat n) && in_srange n z
  | KPad n, [VB a] => (length a =? n)%nat && all_bytes a
  | KBytes n, [VB a] => (length a =? n)%nat && all_bytes a
  | KBits nb parts, _ => fits_bits parts vs && (bits_total parts =? 8 * nb)%nat
  | KArr c le n, [VL zs] => (eval e c =? zlen zs) && forallb (in_urange n) zs
  | KCalc x, [] => true
  | _, _ => false
  end.

Fixpoint encode_fields (L : layout) (vals : list fval) : list Z :=
  match L with
  | [] => []
  | (nm, k) :: L' =>
      encode_kind k (firstn (nvals k) vals) ++ encode_fields L' (skipn (nvals k) vals)
  end.

Fixpoint annot_fields (L : layout) (e : env) (vals : list fval) : list (string * fval) :=
  match L with
  | [] => []
  | (nm, k) :: L' =>
      let entries := annot_kind nm k e (firstn (nvals k) vals) in
      entries ++ annot_fields L' (rev entries ++ e) (skipn (nvals k) vals)
  end.

Fixpoint fits_fields (L : layout) (e : env) (vals : list fval) : bool :=
  match L with
  | [] => match vals with [] => true | _ => false end
  | (nm, k) :: L' =>
      let vs := firstn (nvals k) vals in
      (length vs =? nvals k)%nat && fits_kind k e vs &&
      fits_fields L' (rev (annot_kind nm k e vs) ++ e) (skipn (nvals k) vals)
  end.

Definition encode_layout (L : layout) (vals : list fval) : list Z := encode_fields L vals.
Definition annot_layout (L : layout) (vals : list fval) := annot_fields L [] vals.
Definition fits_layout (L : layout) (vals : list fval) : bool := fits_fields L [] vals.

(* static size of a layout without arrays *)
Definition kind_size (k : fkind) : option nat :=
  match k with
  | KU _ n | KS _ n | KPad n | KBytes n => Some n
  | KBits nb _ => Some nb
  | KCalc _ => Some O
  | KArr _ _ _ => None
  end.
Fixpoint layout_size (L : layout) : option nat :=
  match L with
  | [] => Some O
  | (_, k) :: L' =>
      match kind_size k, layout_size L' with
      | Some a, Some b => Some (a + b)%nat
      | _, _ => None
      end
  end.

(* lookups in a decoded record *)
Fixpoint rec_get (r : list (string * fval)) (n : string) : option fval :=
  match r with
  | [] => None
  | (k, v) :: t => if (k =? n)%string then Some v else rec_get t n
  end.
Definition rec_z (r : list (string * fval)) (n : string) : Z :=
  match rec_get r n with Some (VZ z) => z | _ => 0 end.
