(* Base/Outcome.v — results with the error classes the library can raise. *)
From PV Require Export Base.Sexp.

Inductive err : Type :=
| EParse      (* ELFParseError (subclass of ELFError) *)
| EElf        (* ELFError *)
| EReloc      (* ELFRelocationError *)
| ECompress   (* ELFCompressionError *)
| EDwarf      (* DWARFError *)
| EPy (tag : string)   (* any other Python exception: KeyError, IndexError, ... *)
| EFuel.      (* model ran out of fuel: excluded by every theorem *)

Inductive res (A : Type) : Type :=
| Ok (a : A)
| Err (e : err).
Arguments Ok {A} a.
Arguments Err {A} e.

Definition bind {A B} (r : res A) (f : A -> res B) : res B :=
  match r with Ok a => f a | Err e => Err e end.
Notation "'do' x <- r ; k" := (bind r (fun x => k))
  (at level 200, x pattern, r at level 100, k at level 200, right associativity).

Definition of_opt {A} (e : err) (o : option A) : res A :=
  match o with Some a => Ok a | None => Err e end.

Definition sx_of_err (e : err) : sx :=
  match e with
  | EParse => sx_err "ELFParseError"
  | EElf => sx_err "ELFError"
  | EReloc => sx_err "ELFRelocationError"
  | ECompress => sx_err "ELFCompressionError"
  | EDwarf => sx_err "DWARFError"
  | EPy t => sx_err t
  | EFuel => sx_err "FUEL"
  end.
Definition sx_res {A} (f : A -> sx) (r : res A) : sx :=
  match r with Ok a => sx_ok (f a) | Err e => sx_of_err e end.
