(* Base/Prim.v — executable models of the primitive decoders of
   elftools/common/construct_utils.py, common/utils.py, construct's FormatField,
   CString, PrefixedArray and dwarf/structs.py's initial length.
   A decoder takes the bytes from the cursor on and returns the value and the
   remaining bytes; None models the ConstructError that struct_parse turns into
   ELFParseError.  No proofs here: see Proofs/PrimProofs.v. *)
From PV Require Export Base.Bytes.

Definition dec (A : Type) := list Z -> option (A * list Z).

(* ---- ULEB128._parse: value |= (b & 0x7f) << shift; shift += 7; stop when b & 0x80 == 0 *)
Fixpoint uleb_go (bs : list Z) (value shift : Z) : option (Z * list Z) :=
  match bs with
  | [] => None
  | b :: r =>
      let value' := Z.lor value (Z.shiftl (Z.land b 127) shift) in
      if Z.land b 128 =? 0 then Some (value', r)
      else uleb_go r value' (shift + 7)
  end.
Definition uleb_decode : dec Z := fun bs => uleb_go bs 0 0.

(* ---- SLEB128._parse: as above; at the end  value | (~0 << shift) if b & 0x40 *)
Fixpoint sleb_go (bs : list Z) (value shift : Z) : option (Z * list Z) :=
  match bs with
  | [] => None
  | b :: r =>
      let value' := Z.lor value (Z.shiftl (Z.land b 127) shift) in
      let shift' := shift + 7 in
      if Z.land b 128 =? 0 then
        Some (if Z.land b 64 =? 0 then value' else Z.lor value' (Z.shiftl (-1) shift'), r)
      else sleb_go r value' shift'
  end.
Definition sleb_decode : dec Z := fun bs => sleb_go bs 0 0.

(* ---- FormatField: read exactly n bytes, struct.unpack *)
Definition uint_decode (le : bool) (n : nat) : dec Z := fun bs =>
  match take n bs with
  | Some (a, t) => Some (int_decode le a, t)
  | None => None
  end.
Definition sint_decode_n (le : bool) (n : nat) : dec Z := fun bs =>
  match take n bs with
  | Some (a, t) => Some (sint_decode le a, t)
  | None => None
  end.

(* ---- UBInt24 / ULInt24: struct ">BH" / "<HB" then l | (h << 16) *)
Definition ub24_decode : dec Z := fun bs =>
  match take 3 bs with
  | Some ([b0; b1; b2], t) =>
      let h := b0 in let l := be_decode [b1; b2] in
      Some (Z.lor l (Z.shiftl h 16), t)
  | _ => None
  end.
Definition ul24_decode : dec Z := fun bs =>
  match take 3 bs with
  | Some ([b0; b1; b2], t) =>
      let l := le_decode [b0; b1] in let h := b2 in
      Some (Z.lor l (Z.shiftl h 16), t)
  | _ => None
  end.
Definition u24_decode (le : bool) : dec Z := if le then ul24_decode else ub24_decode.

(* ---- construct CString: RepeatUntil(obj == b"\0", Field(1)) then drop the terminator *)
Fixpoint cstring_decode (bs : list Z) : option (list Z * list Z) :=
  match bs with
  | [] => None
  | b :: r =>
      if b =? 0 then Some ([], r)
      else match cstring_decode r with
           | Some (s, t) => Some (b :: s, t)
           | None => None
           end
  end.

(* ---- parse_cstring_from_stream: 64-byte chunks, chunk.find(b'\0') *)
Fixpoint find0 (bs : list Z) : option nat :=
  match bs with
  | [] => None
  | b :: r => if b =? 0 then Some O
              else match find0 r with Some i => Some (S i) | None => None end
  end.

Definition CHUNK : nat := 64.

Fixpoint cstr_chunks (fuel : nat) (bs : list Z) : option (list Z) :=
  match fuel with
  | O => None
  | S f =>
      let chunk := firstn CHUNK bs in
      match find0 chunk with
      | Some i => Some (firstn i chunk)
      | None =>
          if (length chunk <? CHUNK)%nat then None
          else match cstr_chunks f (skipn CHUNK bs) with
               | Some s => Some (chunk ++ s)
               | None => None
               end
      end
  end.
(* stream_pos given: absolute; returns None when no terminator before EOF *)
Definition parse_cstring_at (stream : list Z) (pos : nat) : option (list Z) :=
  cstr_chunks (S (length stream)) (skipn pos stream).

(* ---- PrefixedArray(UBInt8 elements, length field): DW_FORM_block* *)
Definition block_decode (len : dec Z) : dec (list Z) := fun bs =>
  match len bs with
  | Some (n, r) =>
      match take (Z.to_nat n) r with
      | Some (a, t) => Some (a, t)
      | None => None
      end
  | None => None
  end.

(* ---- RepeatUntilExcluding(predicate, subcon) *)
Fixpoint repeat_until {A} (fuel : nat) (d : dec A) (stop : A -> bool) (bs : list Z)
  : option (list A * list Z) :=
  match fuel with
  | O => None
  | S f =>
      match d bs with
      | None => None
      | Some (x, r) =>
          if stop x then Some ([], r)
          else match repeat_until f d stop r with
               | Some (xs, t) => Some (x :: xs, t)
               | None => None
               end
      end
  end.

(* ---- DWARF initial length: Struct(uint32 first, If(first == 0xffffffff, uint64 second))
        then _InitialLengthAdapter.  Returns (length, is64). *)
Definition INITLEN_RESERVED_LO : Z := 0xfffffff0.
Definition initial_length_decode (le : bool) : dec (Z * bool) := fun bs =>
  match uint_decode le 4 bs with
  | None => None
  | Some (first, r) =>
      if first =? 0xffffffff then
        match uint_decode le 8 r with
        | Some (second, t) => Some ((second, true), t)
        | None => None
        end
      else if first <? INITLEN_RESERVED_LO then Some ((first, false), r)
      else None
  end.
