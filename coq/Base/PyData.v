(* Base/PyData.v — Python containers as the library uses them, with the lemmas the
   proofs need.  Shared: only ADD definitions at the end, never change existing ones.

   - bisect.bisect_right      the real halving search (CPython's loop), proved equal to
                              "number of keys <= x" on sorted lists
   - list.insert(i, x)        list_insert
   - list[i] with i < 0       py_index (negative indices wrap once, else IndexError)
   - list.sort(key=...)       sorted_by: insertion sort; sorted + permutation + stable, and
                              ANY sorted, stable rearrangement equals it (so it is timsort's result)
   - dict                     insertion-ordered association list, overwrite keeps position
   - the "parallel lists maintained by bisect" cache idiom (dwarfinfo._cu_offsets_map/_cu_cache,
     compileunit._diemap/_dielist): bcache_get, with its transparency invariant. *)
From PV Require Export Base.Outcome.
From Coq Require Import ZArith List Bool Lia ZifyBool Permutation.
Import ListNotations.
Open Scope Z_scope.

(* ------------------------------------------------------------------ sorted key lists *)
Fixpoint sorted (l : list Z) : Prop :=
  match l with
  | [] => True
  | x :: r => (forall y, In y r -> x <= y) /\ sorted r
  end.

Definition count_le (x : Z) (l : list Z) : nat := length (filter (fun k => k <=? x) l).

(* ------------------------------------------------------------------ bisect_right
   def bisect_right(a, x, lo=0, hi=None):
       if hi is None: hi = len(a)
       while lo < hi:
           mid = (lo + hi) // 2
           if x < a[mid]: hi = mid
           else: lo = mid + 1
       return lo                                                                   *)
Fixpoint bisect_go (fuel : nat) (a : list Z) (x : Z) (lo hi : nat) : nat :=
  match fuel with
  | O => lo
  | S f =>
      if (lo <? hi)%nat then
        let mid := Nat.div2 (lo + hi) in
        if x <? nth mid a 0 then bisect_go f a x lo mid
        else bisect_go f a x (S mid) hi
      else lo
  end.
Definition bisect_right (a : list Z) (x : Z) : nat :=
  bisect_go (S (length a)) a x 0%nat (length a).

(* ------------------------------------------------------------------ list.insert, list[i] *)
Definition list_insert {A} (i : nat) (x : A) (l : list A) : list A :=
  firstn i l ++ x :: skipn i l.

(* l[i] for any Python int i *)
Definition py_index {A} (l : list A) (i : Z) : res A :=
  let j := if i <? 0 then i + zlen l else i in
  if (0 <=? j) && (j <? zlen l) then
    match nth_error l (Z.to_nat j) with
    | Some v => Ok v
    | None => Err (EPy "IndexError")
    end
  else Err (EPy "IndexError").

(* ------------------------------------------------------------------ list.sort(key=f): stable *)
Section SortBy.
  Context {A : Type} (key : A -> Z).
  (* x goes in front of the first element whose key is >= key x *)
  Fixpoint insert_by (x : A) (l : list A) : list A :=
    match l with
    | [] => [x]
    | y :: r => if key x <=? key y then x :: y :: r else y :: insert_by x r
    end.
  Definition sorted_by (l : list A) : list A := fold_right insert_by [] l.
End SortBy.

(* ------------------------------------------------------------------ dict *)
Section Dict.
  Context {K V : Type} (eqb : K -> K -> bool).
  Definition dict := list (K * V).
  Fixpoint dict_get (d : dict) (k : K) : option V :=
    match d with
    | [] => None
    | (k', v) :: r => if eqb k k' then Some v else dict_get r k
    end.
  (* d[k] = v : overwrite in place, else append *)
  Fixpoint dict_set (d : dict) (k : K) (v : V) : dict :=
    match d with
    | [] => [(k, v)]
    | (k', v') :: r => if eqb k k' then (k', v) :: r else (k', v') :: dict_set r k v
    end.
  Definition dict_of_list (kvs : list (K * V)) : dict :=
    fold_left (fun d kv => dict_set d (fst kv) (snd kv)) kvs [].
  Definition dict_keys (d : dict) : list K := map fst d.
  Definition memb (k : K) (l : list K) : bool := existsb (eqb k) l.
  (* first occurrences, in order *)
  Fixpoint dedup (l : list K) : list K :=
    match l with
    | [] => []
    | x :: r => x :: filter (fun y => negb (eqb y x)) (dedup r)
    end.
  (* the last binding of k in an association list *)
  Definition assoc_last (kvs : list (K * V)) (k : K) : option V := dict_get (rev kvs) k.
End Dict.
Arguments dict K V : clear implicits.

Definition bytes_eqb (a b : list Z) : bool :=
  if list_eq_dec Z.eq_dec a b then true else false.

(* ------------------------------------------------------------------ the bisect cache idiom
   i = bisect_right(keys, k)
   if i >= 1 and k == keys[i - 1]: return objs[i - 1]
   obj = parse(k); keys.insert(i, k); objs.insert(i, obj); return obj               *)
Definition bcache (A : Type) := (list Z * list A)%type.
Definition bcache_get {A} (parse : Z -> res A) (c : bcache A) (k : Z) : bcache A * res A :=
  let i := bisect_right (fst c) k in
  if (1 <=? i)%nat && (k =? nth (i - 1) (fst c) 0) then
    (c, match nth_error (snd c) (i - 1) with Some v => Ok v | None => Err (EPy "IndexError") end)
  else
    match parse k with
    | Ok v => ((list_insert i k (fst c), list_insert i v (snd c)), Ok v)
    | Err e => (c, Err e)
    end.

(* ================================================================== lemmas *)

Lemma sorted_app a b :
  sorted (a ++ b) <-> sorted a /\ sorted b /\ (forall x y, In x a -> In y b -> x <= y).
Proof.
  induction a as [|h a IH]; cbn [app sorted].
  - split; [intros H; repeat split; auto; intros x y []| intros (_ & H & _); exact H].
  - rewrite IH. split.
    + intros (Hh & Ha & Hb & Hab). repeat split; auto.
      * intros y Hy. apply Hh. apply in_or_app. auto.
      * intros x y [<-|Hx] Hy; [apply Hh; apply in_or_app; auto | auto].
    + intros ((Hh & Ha) & Hb & Hab). repeat split; auto.
      * intros y Hy. apply in_app_or in Hy. destruct Hy as [Hy|Hy]; [auto|].
        apply Hab; cbn; auto.
      * intros x y Hx Hy. apply Hab; cbn; auto.
Qed.

Lemma sorted_nth l : sorted l -> forall i j, (i <= j < length l)%nat -> nth i l 0 <= nth j l 0.
Proof.
  induction l as [|x r IH]; intros Hs i j Hij; cbn [length] in Hij; [lia|].
  destruct Hs as [Hx Hr].
  destruct i as [|i], j as [|j]; cbn [nth]; try lia.
  - apply Hx. apply nth_In. lia.
  - apply IH; auto. lia.
Qed.

Lemma count_le_cons x y l :
  count_le x (y :: l) = if y <=? x then S (count_le x l) else count_le x l.
Proof. unfold count_le. cbn [filter]. destruct (y <=? x); reflexivity. Qed.

Lemma count_le_bound x l : (count_le x l <= length l)%nat.
Proof.
  induction l as [|y r IH]; [cbn; lia|]. rewrite count_le_cons. cbn [length].
  destruct (y <=? x); lia.
Qed.

Lemma count_le_index x : forall a lo, (lo <= length a)%nat ->
  (forall i, (i < lo)%nat -> nth i a 0 <= x) ->
  (forall i, (lo <= i < length a)%nat -> x < nth i a 0) ->
  count_le x a = lo.
Proof.
  induction a as [|y r IH]; intros lo Hlo Hlow Hhigh; cbn [length] in *.
  - unfold count_le. cbn. lia.
  - rewrite count_le_cons. destruct lo as [|lo].
    + specialize (Hhigh O) as H0. cbn [nth] in H0.
      destruct (Z.leb_spec y x) as [Hle|Hgt]; [lia|].
      apply IH; [lia | intros i Hi; lia |].
      intros i Hi. apply (Hhigh (S i)). lia.
    + specialize (Hlow O) as H0. cbn [nth] in H0.
      destruct (Z.leb_spec y x) as [Hle|Hgt]; [|lia].
      f_equal. apply IH; [lia | |].
      * intros i Hi. apply (Hlow (S i)). lia.
      * intros i Hi. apply (Hhigh (S i)). lia.
Qed.

Lemma div2_mid lo hi : (lo < hi)%nat -> (lo <= Nat.div2 (lo + hi) < hi)%nat.
Proof.
  intros H. pose proof (Nat.div2_odd (lo + hi)) as E.
  destruct (Nat.odd (lo + hi)); cbn [Nat.b2n] in E; lia.
Qed.

Lemma bisect_go_spec a x : sorted a -> forall fuel lo hi,
  (lo <= hi <= length a)%nat -> (hi - lo < fuel)%nat ->
  (forall i, (i < lo)%nat -> nth i a 0 <= x) ->
  (forall i, (hi <= i < length a)%nat -> x < nth i a 0) ->
  let r := bisect_go fuel a x lo hi in
  (r <= length a)%nat /\
  (forall i, (i < r)%nat -> nth i a 0 <= x) /\
  (forall i, (r <= i < length a)%nat -> x < nth i a 0).
Proof.
  intros Hs. induction fuel as [|f IH]; intros lo hi Hb Hf Hlow Hhigh; [lia|].
  cbn [bisect_go]. destruct (Nat.ltb_spec lo hi) as [Hlt|Hge].
  - pose proof (div2_mid lo hi Hlt) as Hm. set (mid := Nat.div2 (lo + hi)) in *.
    destruct (Z.ltb_spec x (nth mid a 0)) as [Hx|Hx].
    + apply IH; [lia | lia | exact Hlow |].
      intros i Hi. pose proof (sorted_nth a Hs mid i). lia.
    + apply IH; [lia | lia | | exact Hhigh].
      intros i Hi. pose proof (sorted_nth a Hs i mid). lia.
  - cbv zeta. assert (lo = hi) by lia. subst hi. repeat split; [lia | exact Hlow | exact Hhigh].
Qed.

(* bisect_right is the halving search; on a sorted list it is the number of keys <= x *)
Theorem bisect_right_count a x : sorted a -> bisect_right a x = count_le x a.
Proof.
  intros Hs. unfold bisect_right.
  assert (H1 : forall i, (i < 0)%nat -> nth i a 0 <= x) by (intros i Hi; lia).
  assert (H2 : forall i, (length a <= i < length a)%nat -> x < nth i a 0) by (intros i Hi; lia).
  assert (H3 : (0 <= length a <= length a)%nat) by lia.
  assert (H4 : (length a - 0 < S (length a))%nat) by lia.
  destruct (bisect_go_spec a x Hs (S (length a)) 0%nat (length a) H3 H4 H1 H2) as (Hr & Hlow & Hhigh).
  symmetry. apply count_le_index; auto.
Qed.

Lemma count_le_all_gt x l : (forall y, In y l -> x < y) -> count_le x l = 0%nat.
Proof.
  induction l as [|y r IH]; intros H; [reflexivity|].
  rewrite count_le_cons. destruct (Z.leb_spec y x) as [Hle|Hgt].
  - specialize (H y (or_introl eq_refl)). lia.
  - apply IH. intros z Hz. apply H. cbn. auto.
Qed.

(* the count splits a sorted list into the keys <= x and the keys > x *)
Lemma count_le_split x l : sorted l ->
  (forall y, In y (firstn (count_le x l) l) -> y <= x) /\
  (forall y, In y (skipn (count_le x l) l) -> x < y).
Proof.
  induction l as [|h r IH]; intros Hs.
  - cbn. split; intros y [].
  - destruct Hs as [Hh Hr]. rewrite count_le_cons.
    destruct (Z.leb_spec h x) as [Hle|Hgt].
    + destruct (IH Hr) as [H1 H2]. cbn [firstn skipn]. split; auto.
      intros y [<-|Hy]; auto.
    + rewrite count_le_all_gt.
      * cbn [firstn skipn]. split; [intros y []|].
        intros y [<-|Hy]; [lia|]. specialize (Hh y Hy). lia.
      * intros y Hy. specialize (Hh y Hy). lia.
Qed.

Lemma sorted_insert x l : sorted l -> sorted (list_insert (count_le x l) x l).
Proof.
  intros Hs. destruct (count_le_split x l Hs) as [H1 H2].
  unfold list_insert. rewrite <- (firstn_skipn (count_le x l) l) in Hs.
  apply sorted_app in Hs. destruct Hs as (Ha & Hb & Hab).
  apply sorted_app. repeat split; auto.
  - intros y Hy. specialize (H2 y Hy). lia.
  - intros y z Hy [<-|Hz]; [apply H1; auto | apply Hab; auto].
Qed.

Lemma list_insert_length {A} i (x : A) l : length (list_insert i x l) = S (length l).
Proof.
  unfold list_insert. rewrite app_length. cbn [length].
  rewrite <- (firstn_skipn i l) at 3. rewrite app_length. lia.
Qed.

Lemma list_insert_in {A} i (x y : A) l : In y (list_insert i x l) <-> y = x \/ In y l.
Proof.
  unfold list_insert. rewrite <- (firstn_skipn i l) at 3.
  rewrite !in_app_iff. cbn [In]. intuition.
Qed.

Lemma list_insert_combine {A B} i (x : A) (y : B) la lb : length la = length lb ->
  combine (list_insert i x la) (list_insert i y lb) = list_insert i (x, y) (combine la lb).
Proof.
  intros Hl. unfold list_insert. rewrite combine_firstn.
  revert lb i Hl. induction la as [|a la IH]; intros [|b lb] i Hl; try discriminate.
  - destruct i; reflexivity.
  - destruct i as [|i]; [reflexivity|]. cbn [firstn skipn app combine]. f_equal.
    apply IH. cbn in Hl. lia.
Qed.

(* ---- py_index *)
Lemma py_index_nonneg {A} (l : list A) i v :
  nth_error l i = Some v -> py_index l (Z.of_nat i) = Ok v.
Proof.
  intros H. unfold py_index.
  assert (Hlt : (i < length l)%nat) by (apply nth_error_Some; congruence).
  destruct (Z.ltb_spec (Z.of_nat i) 0); [lia|].
  unfold zlen. destruct (Z.leb_spec 0 (Z.of_nat i)); [|lia].
  destruct (Z.ltb_spec (Z.of_nat i) (Z.of_nat (length l))); [|lia].
  cbn [andb]. rewrite Nat2Z.id, H. reflexivity.
Qed.

Lemma py_index_minus1 {A} (l : list A) x : py_index (l ++ [x]) (-1) = Ok x.
Proof.
  unfold py_index. cbn [Z.ltb Z.compare]. unfold zlen. rewrite app_length. cbn [length].
  destruct (Z.leb_spec 0 (-1 + Z.of_nat (length l + 1))); [|lia].
  destruct (Z.ltb_spec (-1 + Z.of_nat (length l + 1)) (Z.of_nat (length l + 1))); [|lia].
  cbn [andb]. replace (Z.to_nat (-1 + Z.of_nat (length l + 1))) with (length l) by lia.
  rewrite nth_error_app2, Nat.sub_diag by lia. reflexivity.
Qed.

Lemma py_index_nil {A} i : py_index (@nil A) i = Err (EPy "IndexError").
Proof.
  unfold py_index, zlen. cbn [length].
  destruct (i <? 0); destruct (Z.leb_spec 0 (i + Z.of_nat 0)); destruct (Z.ltb_spec (i + Z.of_nat 0) (Z.of_nat 0));
    cbn [andb]; try reflexivity; try lia;
    destruct (Z.leb_spec 0 i); destruct (Z.ltb_spec i (Z.of_nat 0)); cbn [andb]; try reflexivity; lia.
Qed.

(* ---- stable sort *)
Section SortByLemmas.
  Context {A : Type} (key : A -> Z).

  Lemma insert_by_perm x l : Permutation (insert_by key x l) (x :: l).
  Proof.
    induction l as [|y r IH]; cbn [insert_by]; [apply Permutation_refl|].
    destruct (key x <=? key y); [apply Permutation_refl|].
    eapply Permutation_trans; [apply perm_skip; exact IH | apply perm_swap].
  Qed.

  Theorem sorted_by_perm l : Permutation (sorted_by key l) l.
  Proof.
    induction l as [|x r IH]; cbn [sorted_by fold_right]; [constructor|].
    eapply Permutation_trans; [apply insert_by_perm | apply perm_skip; exact IH].
  Qed.

  Lemma insert_by_sorted x l :
    sorted (map key l) -> sorted (map key (insert_by key x l)).
  Proof.
    induction l as [|y r IH]; intros Hs; cbn [insert_by map sorted].
    - split; auto. intros z [].
    - destruct (Z.leb_spec (key x) (key y)) as [Hle|Hgt]; cbn [map sorted].
      + cbn [map sorted] in Hs. destruct Hs as [Hy Hr]. repeat split; auto.
        intros z [<-|Hz]; [exact Hle|]. specialize (Hy z Hz). lia.
      + cbn [map sorted] in Hs. destruct Hs as [Hy Hr]. split; [|apply IH; exact Hr].
        intros z Hz. apply in_map_iff in Hz. destruct Hz as (e & <- & He).
        apply (Permutation_in _ (insert_by_perm x r)) in He.
        destruct He as [<-|He]; [lia|]. apply Hy. apply in_map. exact He.
  Qed.

  Theorem sorted_by_sorted l : sorted (map key (sorted_by key l)).
  Proof.
    induction l as [|x r IH]; cbn [sorted_by fold_right]; [exact I|].
    apply insert_by_sorted. exact IH.
  Qed.

  Lemma insert_by_filter k x l :
    filter (fun e => key e =? k) (insert_by key x l) =
    if key x =? k then x :: filter (fun e => key e =? k) l
    else filter (fun e => key e =? k) l.
  Proof.
    induction l as [|y r IH]; cbn [insert_by filter].
    - destruct (key x =? k); reflexivity.
    - destruct (Z.leb_spec (key x) (key y)) as [Hle|Hgt]; cbn [filter].
      + destruct (key x =? k); reflexivity.
      + rewrite IH. destruct (Z.eqb_spec (key x) k) as [Hx|Hx]; [|reflexivity].
        destruct (Z.eqb_spec (key y) k); [lia|reflexivity].
  Qed.

  (* elements with equal keys keep their original relative order *)
  Theorem sorted_by_stable l k :
    filter (fun e => key e =? k) (sorted_by key l) = filter (fun e => key e =? k) l.
  Proof.
    induction l as [|x r IH]; cbn [sorted_by fold_right filter]; [reflexivity|].
    fold (sorted_by key r). rewrite insert_by_filter, IH. destruct (key x =? k); reflexivity.
  Qed.

  (* a sorted list is determined by its per-key subsequences: any two sorted, stable
     rearrangements of the same list are equal (so insertion sort = list.sort) *)
  Lemma sorted_stable_unique : forall l1 l2,
    sorted (map key l1) -> sorted (map key l2) ->
    (forall k, filter (fun e => key e =? k) l1 = filter (fun e => key e =? k) l2) ->
    l1 = l2.
  Proof.
    induction l1 as [|x r1 IH]; intros l2 H1 H2 Hf.
    - destruct l2 as [|y r2]; [reflexivity|].
      specialize (Hf (key y)). cbn [filter] in Hf. rewrite Z.eqb_refl in Hf. discriminate.
    - destruct l2 as [|y r2].
      + specialize (Hf (key x)). cbn [filter] in Hf. rewrite Z.eqb_refl in Hf. discriminate.
      + cbn [map sorted] in H1, H2. destruct H1 as [Hx Hr1], H2 as [Hy Hr2].
        assert (Hxy : key x = key y).
        { assert (key x <= key y).
          { pose proof (Hf (key y)) as E. cbn [filter] in E. rewrite Z.eqb_refl in E.
            destruct (Z.eqb_spec (key x) (key y)) as [->|Hne]; [lia|].
            assert (Hin : In y (filter (fun e => key e =? key y) r1)) by (rewrite E; cbn; auto).
            apply filter_In in Hin. destruct Hin as [Hin _].
            apply Hx. apply in_map. exact Hin. }
          assert (key y <= key x).
          { pose proof (Hf (key x)) as E. cbn [filter] in E. rewrite Z.eqb_refl in E.
            destruct (Z.eqb_spec (key y) (key x)) as [->|Hne]; [lia|].
            assert (Hin : In x (filter (fun e => key e =? key x) r2)) by (rewrite <- E; cbn; auto).
            apply filter_In in Hin. destruct Hin as [Hin _].
            apply Hy. apply in_map. exact Hin. }
          lia. }
        pose proof (Hf (key x)) as E. cbn [filter] in E.
        rewrite <- Hxy, Z.eqb_refl in E. inversion E as [[Exy Er]]. subst y.
        f_equal. apply IH; auto.
        intros k. specialize (Hf k). cbn [filter] in Hf.
        destruct (key x =? k); [inversion Hf; auto | exact Hf].
  Qed.

  Theorem sorted_by_unique l l' :
    sorted (map key l') ->
    (forall k, filter (fun e => key e =? k) l' = filter (fun e => key e =? k) l) ->
    l' = sorted_by key l.
  Proof.
    intros Hs Hf. apply sorted_stable_unique; auto.
    - apply sorted_by_sorted.
    - intros k. rewrite sorted_by_stable. apply Hf.
  Qed.

  Lemma sorted_by_in x l : In x (sorted_by key l) <-> In x l.
  Proof.
    split; intros H.
    - apply (Permutation_in _ (sorted_by_perm l)). exact H.
    - apply (Permutation_in _ (Permutation_sym (sorted_by_perm l))). exact H.
  Qed.

  Lemma sorted_by_length l : length (sorted_by key l) = length l.
  Proof. apply Permutation_length. apply sorted_by_perm. Qed.
End SortByLemmas.

(* ---- pairwise relations survive permutation (used for "ranges pairwise disjoint") *)
Fixpoint pairwise {A} (R : A -> A -> bool) (l : list A) : bool :=
  match l with
  | [] => true
  | x :: r => forallb (R x) r && pairwise R r
  end.

Lemma pairwise_perm {A} (R : A -> A -> bool) :
  (forall x y, R x y = R y x) ->
  forall l l', Permutation l l' -> pairwise R l = true -> pairwise R l' = true.
Proof.
  intros Hsym l l' Hp. induction Hp as [|x l l' Hp IH|x y l|l l' l'' Hp1 IH1 Hp2 IH2]; intros H.
  - exact H.
  - cbn [pairwise] in *. apply andb_prop in H. destruct H as [Hx Hl].
    apply andb_true_intro. split; [|apply IH; exact Hl].
    rewrite forallb_forall in *. intros z Hz. apply Hx.
    apply (Permutation_in _ (Permutation_sym Hp)). exact Hz.
  - cbn [pairwise forallb] in *.
    apply andb_prop in H. destruct H as [Hy Hr]. apply andb_prop in Hy. destruct Hy as [Hyx Hyl].
    apply andb_prop in Hr. destruct Hr as [Hxl Hl].
    rewrite (Hsym x y), Hyx, Hxl, Hyl, Hl. reflexivity.
  - auto.
Qed.

Lemma pairwise_app_mid {A} (R : A -> A -> bool) l1 x l2 :
  pairwise R (l1 ++ x :: l2) = true -> forall e, In e l1 -> R e x = true.
Proof.
  induction l1 as [|h l1 IH]; intros H e He; [destruct He|].
  cbn [app pairwise] in H. apply andb_prop in H. destruct H as [Hh Hr].
  destruct He as [<-|He]; [|apply IH; auto].
  rewrite forallb_forall in Hh. apply Hh. apply in_or_app. right. cbn. auto.
Qed.

(* ---- dict *)
Section DictLemmas.
  Context {K V : Type} (eqb : K -> K -> bool).
  Hypothesis eqb_eq : forall a b, eqb a b = true <-> a = b.

  Lemma eqb_refl a : eqb a a = true.
  Proof. apply eqb_eq. reflexivity. Qed.
  Lemma eqb_neq (a b : K) : a <> b -> eqb a b = false.
  Proof. intros H. destruct (eqb a b) eqn:E; auto. apply eqb_eq in E. contradiction. Qed.
  Lemma eqb_dec (a b : K) : {a = b} + {a <> b}.
  Proof.
    destruct (eqb a b) eqn:E; [left; apply eqb_eq; exact E|].
    right. intros ->. rewrite eqb_refl in E. discriminate.
  Qed.

  Lemma memb_in k l : memb eqb k l = true <-> In k l.
  Proof.
    unfold memb. rewrite existsb_exists. split.
    - intros (x & Hx & E). apply eqb_eq in E. subst. exact Hx.
    - intros H. exists k. split; auto. apply eqb_refl.
  Qed.

  Lemma dict_get_set_same (d : dict K V) k v : dict_get eqb (dict_set eqb d k v) k = Some v.
  Proof.
    induction d as [|[k' v'] r IH]; cbn [dict_set dict_get].
    - rewrite eqb_refl. reflexivity.
    - destruct (eqb k k') eqn:E; cbn [dict_get]; rewrite E; auto.
  Qed.

  Lemma dict_get_set_other (d : dict K V) k v k2 : k2 <> k ->
    dict_get eqb (dict_set eqb d k v) k2 = dict_get eqb d k2.
  Proof.
    intros Hne. induction d as [|[k' v'] r IH]; cbn [dict_set dict_get].
    - rewrite eqb_neq; auto.
    - destruct (eqb k k') eqn:E; cbn [dict_get].
      + apply eqb_eq in E. subst k'. rewrite eqb_neq; auto.
      + rewrite IH. reflexivity.
  Qed.

  Lemma dict_set_keys (d : dict K V) k v :
    dict_keys (dict_set eqb d k v) =
    if memb eqb k (dict_keys d) then dict_keys d else dict_keys d ++ [k].
  Proof.
    unfold dict_keys, memb.
    induction d as [|[k' v'] r IH]; cbn [dict_set map existsb fst app]; [reflexivity|].
    destruct (eqb k k') eqn:E; cbn [orb map fst]; [reflexivity|].
    rewrite IH. destruct (existsb (eqb k) (map fst r)); reflexivity.
  Qed.

  Lemma dict_set_fresh (d : dict K V) k v :
    ~ In k (dict_keys d) -> dict_set eqb d k v = d ++ [(k, v)].
  Proof.
    induction d as [|[k' v'] r IH]; intros Hn; cbn [dict_set app]; [reflexivity|].
    cbn in Hn. rewrite eqb_neq by (intros ->; apply Hn; auto).
    rewrite IH; auto.
  Qed.

  Lemma dict_of_list_gen (kvs : list (K * V)) : forall d,
    NoDup (dict_keys d ++ map fst kvs) ->
    fold_left (fun d kv => dict_set eqb d (fst kv) (snd kv)) kvs d = d ++ kvs.
  Proof.
    induction kvs as [|[k v] r IH]; intros d Hnd; cbn [fold_left fst snd map].
    - rewrite app_nil_r. reflexivity.
    - cbn [map fst] in Hnd. rewrite dict_set_fresh.
      + rewrite IH.
        * rewrite <- app_assoc. reflexivity.
        * unfold dict_keys in *. rewrite map_app, <- app_assoc. exact Hnd.
      + apply NoDup_remove_2 in Hnd. intros Hin. apply Hnd. apply in_or_app. auto.
  Qed.

  (* distinct keys: the dict IS the list of insertions, in order *)
  Theorem dict_of_list_nodup (kvs : list (K * V)) :
    NoDup (map fst kvs) -> dict_of_list eqb kvs = kvs.
  Proof. intros H. unfold dict_of_list. rewrite dict_of_list_gen; auto. Qed.

  Lemma dict_get_fold (kvs : list (K * V)) : forall d k,
    dict_get eqb (fold_left (fun d kv => dict_set eqb d (fst kv) (snd kv)) kvs d) k =
    match assoc_last eqb kvs k with Some v => Some v | None => dict_get eqb d k end.
  Proof.
    unfold assoc_last.
    induction kvs as [|[k1 v1] r IH]; intros d k; cbn [fold_left fst snd rev]; [reflexivity|].
    rewrite IH. clear IH.
    assert (Happ : forall (a b : dict K V), dict_get eqb (a ++ b) k =
              match dict_get eqb a k with Some v => Some v | None => dict_get eqb b k end).
    { induction a as [|[ka va] a IHa]; intros b; cbn [app dict_get]; [reflexivity|].
      destruct (eqb k ka); auto. }
    rewrite Happ. destruct (dict_get eqb (rev r) k) as [v|]; [reflexivity|].
    cbn [dict_get]. destruct (eqb_dec k k1) as [->|Hne].
    - rewrite eqb_refl, dict_get_set_same. reflexivity.
    - rewrite eqb_neq by exact Hne. apply dict_get_set_other. exact Hne.
  Qed.

  (* in general each key maps to its LAST binding *)
  Theorem dict_of_list_get (kvs : list (K * V)) k :
    dict_get eqb (dict_of_list eqb kvs) k = assoc_last eqb kvs k.
  Proof.
    unfold dict_of_list. rewrite dict_get_fold. destruct (assoc_last eqb kvs k); reflexivity.
  Qed.

  Lemma filter_filter {A} (p q : A -> bool) l :
    filter p (filter q l) = filter (fun x => q x && p x) l.
  Proof.
    induction l as [|x r IH]; cbn [filter]; [reflexivity|].
    destruct (q x); cbn [filter andb]; rewrite IH; reflexivity.
  Qed.

  Lemma dict_keys_fold (kvs : list (K * V)) : forall d,
    dict_keys (fold_left (fun d kv => dict_set eqb d (fst kv) (snd kv)) kvs d) =
    dict_keys d ++ filter (fun k => negb (memb eqb k (dict_keys d))) (dedup eqb (map fst kvs)).
  Proof.
    induction kvs as [|[k v] r IH]; intros d; cbn [fold_left fst snd map dedup filter].
    - rewrite app_nil_r. reflexivity.
    - rewrite IH, dict_set_keys. rewrite filter_filter.
      destruct (memb eqb k (dict_keys d)) eqn:Hm; cbn [negb].
      + f_equal. apply filter_ext_in. intros x _.
        destruct (eqb x k) eqn:E; cbn [negb andb]; [|reflexivity].
        apply eqb_eq in E. subst x. rewrite Hm. reflexivity.
      + rewrite <- app_assoc. cbn [app]. f_equal. f_equal.
        apply filter_ext_in. intros x _.
        unfold memb. rewrite existsb_app. cbn [existsb]. rewrite orb_false_r.
        rewrite negb_orb. apply andb_comm.
  Qed.

  (* ... and the key order is the order of FIRST occurrences *)
  Theorem dict_of_list_keys (kvs : list (K * V)) :
    dict_keys (dict_of_list eqb kvs) = dedup eqb (map fst kvs).
  Proof.
    unfold dict_of_list. rewrite dict_keys_fold. cbn [dict_keys map app].
    rewrite <- (filter_ext (fun _ => true)); [|reflexivity].
    induction (dedup eqb (map fst kvs)) as [|x l IHl]; cbn [filter]; [reflexivity|].
    f_equal. exact IHl.
  Qed.
End DictLemmas.

Lemma bytes_eqb_eq a b : bytes_eqb a b = true <-> a = b.
Proof. unfold bytes_eqb. destruct (list_eq_dec Z.eq_dec a b); split; auto; discriminate. Qed.

(* ---- the bisect cache is transparent *)
Section BCache.
  Context {A : Type} (parse : Z -> res A).

  (* keys sorted, lists parallel, every cached object is the pure parse at its key *)
  Definition bcache_inv (c : bcache A) : Prop :=
    sorted (fst c) /\ length (fst c) = length (snd c) /\
    Forall (fun kv => parse (fst kv) = Ok (snd kv)) (combine (fst c) (snd c)).

  Lemma bcache_inv_empty : bcache_inv ([], []).
  Proof. repeat split; cbn; auto. Qed.

  Lemma Forall_list_insert {B} (P : B -> Prop) i x l :
    P x -> Forall P l -> Forall P (list_insert i x l).
  Proof.
    intros Hx Hl. apply Forall_forall. intros y Hy. apply list_insert_in in Hy.
    destruct Hy as [->|Hy]; auto. rewrite Forall_forall in Hl. auto.
  Qed.

  Lemma nth_error_combine : forall (ks : list Z) (vs : list A) j v,
    nth_error vs j = Some v -> length ks = length vs ->
    nth_error (combine ks vs) j = Some (nth j ks 0, v).
  Proof.
    induction ks as [|a ks IH]; intros [|b vs] j v Hn Hl; cbn [length] in Hl; try discriminate.
    - destruct j; discriminate.
    - destruct j as [|j]; cbn [nth_error combine nth] in *; [congruence|].
      apply IH; auto.
  Qed.

  Theorem bcache_get_spec c k : bcache_inv c ->
    snd (bcache_get parse c k) = parse k /\ bcache_inv (fst (bcache_get parse c k)) /\
    (forall x, In x (fst (fst (bcache_get parse c k))) -> x = k \/ In x (fst c)).
  Proof.
    intros (Hs & Hl & Hall). unfold bcache_get.
    rewrite bisect_right_count by exact Hs. set (i := count_le k (fst c)).
    destruct ((1 <=? i)%nat && (k =? nth (i - 1) (fst c) 0)) eqn:Hit; cbn [fst snd].
    - apply andb_prop in Hit. destruct Hit as [Hi Hk].
      apply Nat.leb_le in Hi. apply Z.eqb_eq in Hk.
      pose proof (count_le_bound k (fst c)) as Hb. fold i in Hb.
      split; [|split; [repeat split; auto | auto]].
      destruct (nth_error (snd c) (i - 1)) as [v|] eqn:Hn.
      + pose proof (nth_error_combine (fst c) (snd c) (i - 1)%nat v Hn Hl) as Hc.
        apply nth_error_In in Hc. rewrite Forall_forall in Hall.
        specialize (Hall _ Hc). cbn [fst snd] in Hall. rewrite <- Hk in Hall. symmetry. exact Hall.
      + apply nth_error_None in Hn. lia.
    - destruct (parse k) as [v|e] eqn:Hp; cbn [fst snd].
      + split; [reflexivity|]. split.
        * repeat split; cbn [fst snd].
          -- apply sorted_insert. exact Hs.
          -- rewrite !list_insert_length. lia.
          -- rewrite list_insert_combine by exact Hl.
             apply Forall_list_insert; auto.
        * intros x Hx. apply list_insert_in in Hx. exact Hx.
      + split; [reflexivity|]. split; [repeat split; auto | auto].
  Qed.
End BCache.
