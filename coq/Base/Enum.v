(* Base/Enum.v — model of construct's Enum / SymmetricMapping / MappingAdapter
   (elftools/construct/macros.py:443-469, adapters.py:79-124) and its lemmas.

     def Enum(subcon, **kw):
         return SymmetricMapping(subcon, kw, kw.pop("_default_", NotImplemented))
     def SymmetricMapping(subcon, mapping, default):
         reversed_mapping = dict((v, k) for k, v in mapping.items())
         return MappingAdapter(subcon, encoding = mapping, decoding = reversed_mapping,
                               encdefault = default, decdefault = default)
     MappingAdapter._decode(obj):  try: return self.decoding[obj]
                                   except KeyError: NotImplemented -> raise MappingError
                                                    Pass           -> return obj
     MappingAdapter._encode(obj):  the same over self.encoding

   A table is the dict WITHOUT its `_default_` key, as an association list in dict
   order (Gen/Tables.v).  The reversed dict is built by overwrite, so when two names
   carry the same value the LAST one in dict order is the one a parser reports.
   Shared by C17 (registry agreement), C01 ("standard name or raw integer") and every
   property whose structs carry enum fields. *)
From Coq Require Import ZArith List Bool String.
Import ListNotations.
Open Scope Z_scope.

Definition table := list (string * Z).

(* ---- Python dict with int keys: insertion-ordered association list, overwrite keeps position *)
Fixpoint dict_set (d : list (Z * string)) (k : Z) (x : string) : list (Z * string) :=
  match d with
  | [] => [(k, x)]
  | (k', x') :: r => if k' =? k then (k', x) :: r else (k', x') :: dict_set r k x
  end.

Fixpoint dict_get (d : list (Z * string)) (k : Z) : option string :=
  match d with
  | [] => None
  | (k', x') :: r => if k' =? k then Some x' else dict_get r k
  end.

(* reversed_mapping = dict((v, k) for k, v in mapping.items()) *)
Definition reversed_mapping (T : table) : list (Z * string) :=
  fold_left (fun d nv => dict_set d (snd nv) (fst nv)) T [].

(* ---- the closed form: the last name in T whose value is v *)
Fixpoint rfind (T : table) (v : Z) : option string :=
  match T with
  | [] => None
  | (n, x) :: r =>
      match rfind r v with
      | Some m => Some m
      | None => if x =? v then Some n else None
      end
  end.

(* mapping[name]: dict keys are unique, the first hit is the only one *)
Fixpoint tfind (T : table) (n : string) : option Z :=
  match T with
  | [] => None
  | (m, x) :: r => if String.eqb m n then Some x else tfind r n
  end.

(* Python dict.update / merge_dicts over name-keyed tables: an existing key keeps its position and
   takes the new value, a new key is appended (elf/structs.py _create_dyn, common/utils.py merge_dicts) *)
Fixpoint table_set (T : table) (n : string) (v : Z) : table :=
  match T with
  | [] => [(n, v)]
  | (m, x) :: r => if String.eqb m n then (m, v) :: r else (m, x) :: table_set r n v
  end.

Definition table_update (A B : table) : table :=
  fold_left (fun d nv => table_set d (fst nv) (snd nv)) B A.

Inductive enum_default : Type :=
| DefRaise     (* no _default_: MappingError (a ConstructError, surfaced as ELFParseError by struct_parse) *)
| DefPass.     (* _default_ = Pass: the unmapped object is returned as is *)

Inductive enum_val : Type :=
| Name (n : string)
| Raw (v : Z)
| MappingError.

(* MappingAdapter._decode over SymmetricMapping's reversed dict *)
Definition enum_decode_dict (T : table) (d : enum_default) (v : Z) : enum_val :=
  match dict_get (reversed_mapping T) v with
  | Some n => Name n
  | None => match d with DefPass => Raw v | DefRaise => MappingError end
  end.

Definition enum_decode (T : table) (d : enum_default) (v : Z) : enum_val :=
  match rfind T v with
  | Some n => Name n
  | None => match d with DefPass => Raw v | DefRaise => MappingError end
  end.

(* MappingAdapter._encode for a name (building; also "a standard name selects the code") *)
Definition enum_encode (T : table) (n : string) : option Z := tfind T n.

(* ------------------------------------------------------------------ dict lemmas *)
Lemma dict_get_set_same : forall d k x, dict_get (dict_set d k x) k = Some x.
Proof.
  induction d as [|[k' x'] r IH]; intros k x; cbn [dict_set dict_get].
  - rewrite Z.eqb_refl. reflexivity.
  - destruct (k' =? k) eqn:E; cbn [dict_get]; rewrite E; [reflexivity|apply IH].
Qed.

Lemma dict_get_set_other : forall d k x k2, k <> k2 -> dict_get (dict_set d k x) k2 = dict_get d k2.
Proof.
  induction d as [|[k' x'] r IH]; intros k x k2 Hne; cbn [dict_set dict_get].
  - destruct (k =? k2) eqn:E; [apply Z.eqb_eq in E; contradiction|reflexivity].
  - destruct (k' =? k) eqn:E; cbn [dict_get].
    + apply Z.eqb_eq in E. subst k'.
      destruct (k =? k2) eqn:E2; [apply Z.eqb_eq in E2; contradiction|reflexivity].
    + destruct (k' =? k2); [reflexivity|apply IH; exact Hne].
Qed.

(* rfind of T ++ [(n,x)] *)
Lemma rfind_snoc : forall T n x v,
  rfind (T ++ [(n, x)]) v = if x =? v then Some n else rfind T v.
Proof.
  induction T as [|[m y] r IH]; intros n x v; cbn [app rfind].
  - destruct (x =? v); reflexivity.
  - rewrite IH. destruct (x =? v); reflexivity.
Qed.

Lemma reversed_mapping_get_gen : forall T d0 v,
  dict_get (fold_left (fun d nv => dict_set d (snd nv) (fst nv)) T d0) v =
  match rfind T v with Some n => Some n | None => dict_get d0 v end.
Proof.
  induction T as [|[n x] r IH]; intros d0 v; cbn [fold_left rfind fst snd].
  - reflexivity.
  - rewrite IH. destruct (rfind r v) as [m|]; [reflexivity|].
    destruct (x =? v) eqn:E.
    + apply Z.eqb_eq in E. subst x. apply dict_get_set_same.
    + apply dict_get_set_other. intro H. subst x. rewrite Z.eqb_refl in E. discriminate.
Qed.

(* the overwrite-built reversed dict answers exactly "last name with that value" *)
Lemma reversed_mapping_get : forall T v, dict_get (reversed_mapping T) v = rfind T v.
Proof.
  intros T v. unfold reversed_mapping. rewrite reversed_mapping_get_gen.
  destruct (rfind T v); reflexivity.
Qed.

Lemma enum_decode_dict_eq : forall T d v, enum_decode_dict T d v = enum_decode T d v.
Proof. intros T d v. unfold enum_decode_dict, enum_decode. rewrite reversed_mapping_get. reflexivity. Qed.

(* ------------------------------------------------------------------ rfind / tfind *)
Lemma rfind_in : forall T v n, rfind T v = Some n -> In (n, v) T.
Proof.
  induction T as [|[m x] r IH]; intros v n H; cbn [rfind] in H.
  - discriminate.
  - destruct (rfind r v) as [k|] eqn:E.
    + injection H as H. subst k. right. apply IH. exact E.
    + destruct (x =? v) eqn:Ex; [|discriminate].
      injection H as H. subst m. apply Z.eqb_eq in Ex. subst x. left. reflexivity.
Qed.

Lemma rfind_none : forall T v, rfind T v = None -> forall n, ~ In (n, v) T.
Proof.
  induction T as [|[m x] r IH]; intros v H n Hin; cbn [rfind] in H.
  - destruct Hin.
  - destruct (rfind r v) as [k|] eqn:E; [discriminate|].
    destruct (x =? v) eqn:Ex; [discriminate|].
    destruct Hin as [Heq|Hin].
    + injection Heq as _ Hx. subst x. rewrite Z.eqb_refl in Ex. discriminate.
    + exact (IH v E n Hin).
Qed.

Lemma rfind_some_of_in : forall T v n, In (n, v) T -> exists m, rfind T v = Some m.
Proof.
  intros T v n Hin. destruct (rfind T v) as [m|] eqn:E; [exists m; reflexivity|].
  exfalso. exact (rfind_none T v E n Hin).
Qed.

(* the reported name is the LAST one carrying the value *)
Lemma rfind_last : forall T1 T2 n v,
  (forall m, ~ In (m, v) T2) -> rfind (T1 ++ (n, v) :: T2) v = Some n.
Proof.
  induction T1 as [|[m x] r IH]; intros T2 n v Hno; cbn [app rfind].
  - destruct (rfind T2 v) as [k|] eqn:E.
    + exfalso. exact (Hno k (rfind_in T2 v k E)).
    + rewrite Z.eqb_refl. reflexivity.
  - rewrite (IH T2 n v Hno). reflexivity.
Qed.

Lemma tfind_in : forall T n v, tfind T n = Some v -> In (n, v) T.
Proof.
  induction T as [|[m x] r IH]; intros n v H; cbn [tfind] in H.
  - discriminate.
  - destruct (String.eqb m n) eqn:E.
    + apply String.eqb_eq in E. subst m. injection H as H. subst x. left. reflexivity.
    + right. apply IH. exact H.
Qed.

Lemma tfind_some_of_in : forall T n v, In (n, v) T -> exists w, tfind T n = Some w.
Proof.
  induction T as [|[m x] r IH]; intros n v Hin.
  - destruct Hin.
  - cbn [tfind]. destruct (String.eqb m n) eqn:E; [exists x; reflexivity|].
    destruct Hin as [Heq|Hin].
    + injection Heq as Hm _. subst m. rewrite String.eqb_refl in E. discriminate.
    + exact (IH n v Hin).
Qed.

(* ------------------------------------------------------------------ the enum lemmas of DESIGN section 3 *)
Lemma enum_decode_name : forall T d v n, enum_decode T d v = Name n -> In (n, v) T.
Proof.
  intros T d v n H. unfold enum_decode in H. destruct (rfind T v) as [m|] eqn:E.
  - injection H as H. subst m. exact (rfind_in T v n E).
  - destruct d; discriminate.
Qed.

Lemma enum_decode_raw : forall T v, (forall n, ~ In (n, v) T) -> enum_decode T DefPass v = Raw v.
Proof.
  intros T v Hno. unfold enum_decode. destruct (rfind T v) as [m|] eqn:E; [|reflexivity].
  exfalso. exact (Hno m (rfind_in T v m E)).
Qed.

Lemma enum_decode_error : forall T v, (forall n, ~ In (n, v) T) -> enum_decode T DefRaise v = MappingError.
Proof.
  intros T v Hno. unfold enum_decode. destruct (rfind T v) as [m|] eqn:E; [|reflexivity].
  exfalso. exact (Hno m (rfind_in T v m E)).
Qed.

Lemma enum_decode_raw_inv : forall T d v w,
  enum_decode T d v = Raw w -> w = v /\ d = DefPass /\ forall n, ~ In (n, v) T.
Proof.
  intros T d v w H. unfold enum_decode in H. destruct (rfind T v) as [m|] eqn:E; [discriminate|].
  destruct d; [discriminate|]. injection H as H. subst w.
  split; [reflexivity|]. split; [reflexivity|]. exact (rfind_none T v E).
Qed.

Lemma enum_decode_error_inv : forall T d v,
  enum_decode T d v = MappingError -> d = DefRaise /\ forall n, ~ In (n, v) T.
Proof.
  intros T d v H. unfold enum_decode in H. destruct (rfind T v) as [m|] eqn:E; [discriminate|].
  destruct d; [|discriminate]. split; [reflexivity|]. exact (rfind_none T v E).
Qed.

(* a value that has a name in the table is always reported under SOME name of that value *)
Lemma enum_decode_named : forall T d v n, In (n, v) T -> exists m, enum_decode T d v = Name m /\ In (m, v) T.
Proof.
  intros T d v n Hin. destruct (rfind_some_of_in T v n Hin) as [m Hm].
  exists m. unfold enum_decode. rewrite Hm. split; [reflexivity|exact (rfind_in T v m Hm)].
Qed.

(* ... and under THAT name when no later entry carries the same value *)
Lemma enum_decode_last : forall T1 T2 d n v,
  (forall m, ~ In (m, v) T2) -> enum_decode (T1 ++ (n, v) :: T2) d v = Name n.
Proof. intros T1 T2 d n v Hno. unfold enum_decode. rewrite (rfind_last T1 T2 n v Hno). reflexivity. Qed.

(* the three outcomes are exhaustive: standard name, raw integer, or MappingError *)
Lemma enum_decode_cases : forall T d v,
  (exists n, enum_decode T d v = Name n /\ In (n, v) T) \/
  (enum_decode T d v = Raw v /\ d = DefPass /\ forall n, ~ In (n, v) T) \/
  (enum_decode T d v = MappingError /\ d = DefRaise /\ forall n, ~ In (n, v) T).
Proof.
  intros T d v. unfold enum_decode. destruct (rfind T v) as [m|] eqn:E.
  - left. exists m. split; [reflexivity|exact (rfind_in T v m E)].
  - right. destruct d; [right|left]; (split; [reflexivity|]; split; [reflexivity|exact (rfind_none T v E)]).
Qed.

Lemma enum_encode_in : forall T n v, enum_encode T n = Some v -> In (n, v) T.
Proof. exact tfind_in. Qed.

(* ------------------------------------------------------------------ agreement with a registry *)
(* [agrees look T]: every name of T that the registry [look] knows has the registry's value. *)
Definition agrees (look : string -> option Z) (T : table) : Prop :=
  forall n v v', In (n, v) T -> look n = Some v' -> v = v'.

Definition agrees_pair (look : string -> option Z) (nv : string * Z) : bool :=
  match look (fst nv) with Some v' => snd nv =? v' | None => true end.

Definition agreesb (look : string -> option Z) (T : table) : bool := forallb (agrees_pair look) T.

Lemma agreesb_sound : forall look T, agreesb look T = true -> agrees look T.
Proof.
  intros look T H n v v' Hin Hl. unfold agreesb in H. rewrite forallb_forall in H.
  specialize (H (n, v) Hin). unfold agrees_pair in H. cbn [fst snd] in H. rewrite Hl in H.
  apply Z.eqb_eq. exact H.
Qed.

Lemma agreesb_complete : forall look T, agrees look T -> agreesb look T = true.
Proof.
  intros look T H. unfold agreesb. rewrite forallb_forall. intros [n v] Hin.
  unfold agrees_pair. cbn [fst snd]. destruct (look n) as [v'|] eqn:E; [|reflexivity].
  apply Z.eqb_eq. exact (H n v v' Hin E).
Qed.

(* the pairs of T that disagree: the replay of a failing agreement *)
Definition disagreements (look : string -> option Z) (T : table) : table :=
  filter (fun nv => negb (agrees_pair look nv)) T.

(* a code found in a file is reported under a name whose registry value is that code *)
Lemma decode_registry_value : forall look T d v n v',
  agrees look T -> enum_decode T d v = Name n -> look n = Some v' -> v' = v.
Proof.
  intros look T d v n v' Hag Hdec Hl. symmetry. exact (Hag n v v' (enum_decode_name T d v n Hdec) Hl).
Qed.

(* a standard name selects the standard code *)
Lemma encode_registry_value : forall look T n v v',
  agrees look T -> enum_encode T n = Some v -> look n = Some v' -> v = v'.
Proof. intros look T n v v' Hag He Hl. exact (Hag n v v' (enum_encode_in T n v He) Hl). Qed.
