(* Base/Bytes.v — byte lists, little/big-endian integers, two's complement.
   Bytes are Z values in [0,256).  All functions are total and computable. *)
From Coq Require Export ZArith List Bool Lia.
From Coq Require Import ZifyBool.
Export ListNotations.
Open Scope Z_scope.

Ltac Zify.zify_post_hook ::= Z.to_euclidean_division_equations.

Definition is_byte (b : Z) : bool := (0 <=? b) && (b <? 256).
Definition all_bytes (l : list Z) : bool := forallb is_byte l.

Lemma is_byte_iff b : is_byte b = true <-> 0 <= b < 256.
Proof. unfold is_byte. lia. Qed.

Lemma all_bytes_app a b : all_bytes (a ++ b) = all_bytes a && all_bytes b.
Proof. apply forallb_app. Qed.

Definition zlen {A} (l : list A) : Z := Z.of_nat (length l).

Lemma zlen_app {A} (a b : list A) : zlen (a ++ b) = zlen a + zlen b.
Proof. unfold zlen. rewrite app_length. lia. Qed.
Lemma zlen_nonneg {A} (l : list A) : 0 <= zlen l.
Proof. unfold zlen. lia. Qed.
Lemma zlen_cons {A} (x : A) l : zlen (x :: l) = 1 + zlen l.
Proof. unfold zlen. cbn [length]. lia. Qed.

(* ---------- little-endian ---------- *)
Fixpoint le_decode (bs : list Z) : Z :=
  match bs with
  | [] => 0
  | b :: r => b + 256 * le_decode r
  end.

Fixpoint le_encode (n : nat) (v : Z) : list Z :=
  match n with
  | O => []
  | S k => (v mod 256) :: le_encode k (v / 256)
  end.

Definition be_decode (bs : list Z) : Z := le_decode (rev bs).
Definition be_encode (n : nat) (v : Z) : list Z := rev (le_encode n v).

Definition int_decode (le : bool) (bs : list Z) : Z :=
  if le then le_decode bs else be_decode bs.
Definition int_encode (le : bool) (n : nat) (v : Z) : list Z :=
  if le then le_encode n v else be_encode n v.

(* two's complement reinterpretation of an unsigned n-byte value *)
Definition sext (nbytes : nat) (u : Z) : Z :=
  let m := 2 ^ (8 * Z.of_nat nbytes) in
  if u <? m / 2 then u else u - m.
(* the unsigned representative of any integer modulo 2^(8n) *)
Definition wrap (nbytes : nat) (v : Z) : Z := v mod 2 ^ (8 * Z.of_nat nbytes).

Definition sint_decode (le : bool) (bs : list Z) : Z :=
  sext (length bs) (int_decode le bs).

Lemma le_encode_length n v : length (le_encode n v) = n.
Proof. revert v; induction n as [|n IH]; intros v; cbn [le_encode length]; auto. Qed.

Lemma be_encode_length n v : length (be_encode n v) = n.
Proof. unfold be_encode. rewrite rev_length. apply le_encode_length. Qed.

Lemma int_encode_length le n v : length (int_encode le n v) = n.
Proof. destruct le; cbn; [apply le_encode_length | apply be_encode_length]. Qed.

Lemma pow256 n : 2 ^ (8 * Z.of_nat (S n)) = 256 * 2 ^ (8 * Z.of_nat n).
Proof.
  replace (8 * Z.of_nat (S n)) with (8 + 8 * Z.of_nat n) by lia.
  rewrite Z.pow_add_r by lia. reflexivity.
Qed.

Lemma pow256_pos n : 0 < 2 ^ (8 * Z.of_nat n).
Proof. apply Z.pow_pos_nonneg; lia. Qed.

Lemma le_decode_encode n v :
  le_decode (le_encode n v) = v mod 2 ^ (8 * Z.of_nat n).
Proof.
  revert v; induction n as [|n IH]; intros v.
  - cbn. rewrite Z.mod_1_r. reflexivity.
  - cbn [le_encode le_decode]. rewrite IH, pow256.
    pose proof (pow256_pos n) as Hp.
    rewrite Z.rem_mul_r by lia. reflexivity.
Qed.

Lemma le_encode_bytes n v : all_bytes (le_encode n v) = true.
Proof.
  revert v; induction n as [|n IH]; intros v; cbn [le_encode all_bytes forallb]; auto.
  fold (all_bytes (le_encode n (v / 256))). rewrite IH.
  assert (is_byte (v mod 256) = true) by (apply is_byte_iff; lia).
  rewrite H. reflexivity.
Qed.

Lemma all_bytes_rev l : all_bytes (rev l) = all_bytes l.
Proof.
  induction l as [|x l IH]; cbn [rev]; auto.
  rewrite all_bytes_app, IH. cbn. rewrite andb_true_r. apply andb_comm.
Qed.

Lemma int_encode_bytes le n v : all_bytes (int_encode le n v) = true.
Proof.
  destruct le; cbn; [apply le_encode_bytes|].
  unfold be_encode. rewrite all_bytes_rev. apply le_encode_bytes.
Qed.

Lemma int_decode_encode le n v :
  int_decode le (int_encode le n v) = v mod 2 ^ (8 * Z.of_nat n).
Proof.
  destruct le; cbn; [apply le_decode_encode|].
  unfold be_decode, be_encode. rewrite rev_involutive. apply le_decode_encode.
Qed.

Lemma int_decode_encode_u le n v :
  0 <= v < 2 ^ (8 * Z.of_nat n) -> int_decode le (int_encode le n v) = v.
Proof. intros H. rewrite int_decode_encode. apply Z.mod_small; lia. Qed.

Lemma le_decode_bound bs :
  all_bytes bs = true -> 0 <= le_decode bs < 2 ^ (8 * Z.of_nat (length bs)).
Proof.
  induction bs as [|b r IH]; intros H.
  - cbn. lia.
  - cbn [all_bytes forallb] in H. apply andb_prop in H. destruct H as [Hb Hr].
    apply is_byte_iff in Hb. specialize (IH Hr).
    cbn [le_decode length]. rewrite pow256. lia.
Qed.

Lemma int_decode_bound le bs :
  all_bytes bs = true -> 0 <= int_decode le bs < 2 ^ (8 * Z.of_nat (length bs)).
Proof.
  intros H. destruct le; cbn; [apply le_decode_bound; auto|].
  unfold be_decode. rewrite <- (rev_length bs). apply le_decode_bound.
  rewrite all_bytes_rev; auto.
Qed.

(* every n-byte string is the encoding of its value: encode is onto *)
Lemma le_encode_decode bs :
  all_bytes bs = true -> le_encode (length bs) (le_decode bs) = bs.
Proof.
  induction bs as [|b r IH]; intros H; cbn [length le_encode le_decode]; auto.
  cbn [all_bytes forallb] in H. apply andb_prop in H. destruct H as [Hb Hr].
  apply is_byte_iff in Hb.
  replace ((b + 256 * le_decode r) mod 256) with b by lia.
  replace ((b + 256 * le_decode r) / 256) with (le_decode r) by lia.
  rewrite IH; auto.
Qed.

Lemma int_encode_decode le bs :
  all_bytes bs = true -> int_encode le (length bs) (int_decode le bs) = bs.
Proof.
  intros H. destruct le; cbn; [apply le_encode_decode; auto|].
  unfold be_encode, be_decode. rewrite <- (rev_length bs).
  rewrite le_encode_decode by (rewrite all_bytes_rev; auto).
  apply rev_involutive.
Qed.

Lemma sext_wrap n v :
  (0 < n)%nat ->
  - (2 ^ (8 * Z.of_nat n) / 2) <= v < 2 ^ (8 * Z.of_nat n) / 2 ->
  sext n (wrap n v) = v.
Proof.
  intros Hn H. unfold sext, wrap.
  destruct n as [|n]; [lia|]. rewrite pow256 in *.
  pose proof (pow256_pos n) as Hp.
  set (m := 2 ^ (8 * Z.of_nat n)) in *.
  replace (256 * m / 2) with (128 * m) in * by lia.
  destruct (Z.ltb_spec v 0) as [Hneg|Hpos].
  - replace (v mod (256 * m)) with (v + 256 * m).
    + destruct (Z.ltb_spec (v + 256 * m) (128 * m)); lia.
    + rewrite <- (Z.mod_add v 1 (256 * m)) by lia.
      rewrite Z.mod_small; lia.
  - rewrite Z.mod_small by lia.
    destruct (Z.ltb_spec v (128 * m)); lia.
Qed.

Lemma sint_decode_encode le n v :
  (0 < n)%nat ->
  - (2 ^ (8 * Z.of_nat n) / 2) <= v < 2 ^ (8 * Z.of_nat n) / 2 ->
  sint_decode le (int_encode le n v) = v.
Proof.
  intros Hn H. unfold sint_decode.
  rewrite int_encode_length, int_decode_encode. apply sext_wrap; auto.
Qed.

(* ---------- slicing ---------- *)
Definition slice (bs : list Z) (off len : nat) : list Z := firstn len (skipn off bs).

Lemma slice_app_exact (pre mid post : list Z) :
  slice (pre ++ mid ++ post) (length pre) (length mid) = mid.
Proof.
  unfold slice. rewrite skipn_app, skipn_all, Nat.sub_diag. cbn [skipn app].
  rewrite firstn_app, firstn_all, Nat.sub_diag. cbn. apply app_nil_r.
Qed.

(* take exactly n elements or fail: the model of stream.read(n) with a length check *)
(* walks n elements only (the closed form below, [take_unfold], measured the whole remainder on every
   read, which made the extracted models quadratic on long tables) *)
Fixpoint take (n : nat) (bs : list Z) : option (list Z * list Z) :=
  match n with
  | O => Some ([], bs)
  | S k => match bs with
           | [] => None
           | b :: r => match take k r with
                       | Some (a, t) => Some (b :: a, t)
                       | None => None
                       end
           end
  end.

Lemma take_unfold (n : nat) (bs : list Z) :
  take n bs = if (n <=? length bs)%nat then Some (firstn n bs, skipn n bs) else None.
Proof.
  revert bs. induction n as [|k IH]; intros bs; [reflexivity|].
  destruct bs as [|b r]; [reflexivity|].
  cbn [take length firstn skipn Nat.leb]. rewrite IH. destruct (k <=? length r)%nat; reflexivity.
Qed.

Lemma take_app (a t : list Z) : take (length a) (a ++ t) = Some (a, t).
Proof.
  rewrite take_unfold. rewrite app_length.
  destruct (Nat.leb_spec (length a) (length a + length t)); [|lia].
  rewrite firstn_app, firstn_all, Nat.sub_diag, skipn_app, skipn_all, Nat.sub_diag.
  cbn. rewrite app_nil_r. reflexivity.
Qed.

Lemma take_short n (bs : list Z) : (length bs < n)%nat -> take n bs = None.
Proof. intros H. rewrite take_unfold. destruct (Nat.leb_spec n (length bs)); auto; lia. Qed.

Lemma take_some n bs a t : take n bs = Some (a, t) -> bs = a ++ t /\ length a = n.
Proof.
  rewrite take_unfold. destruct (Nat.leb_spec n (length bs)) as [H|H]; [|discriminate].
  intros E. inversion E; subst. split.
  - symmetry. apply firstn_skipn.
  - apply firstn_length_le. auto.
Qed.
