(* Base/Sexp.v — the value language spoken between the extracted driver and the
   Python harness.  Integers are unbounded Z, byte strings are lists of Z. *)
From Coq Require Export String.
From PV Require Export Base.Bytes.

Inductive sx : Type :=
| SI (z : Z)             (* integer *)
| SB (bs : list Z)       (* byte string *)
| SS (s : string)        (* symbol / text *)
| SL (l : list sx).      (* list *)

Definition sx_bool (b : bool) : sx := SI (if b then 1 else 0).
Definition sx_none : sx := SS "none".
Definition sx_opt {A} (f : A -> sx) (o : option A) : sx :=
  match o with Some a => SL [SS "some"; f a] | None => sx_none end.
Definition sx_nat (n : nat) : sx := SI (Z.of_nat n).
Definition sx_ints (l : list Z) : sx := SL (map SI l).
Definition sx_err (tag : string) : sx := SL [SS "err"; SS tag].
Definition sx_ok (v : sx) : sx := SL [SS "ok"; v].

(* accessors used by dispatch functions; total, with defaults the harness never hits *)
Definition gI (s : sx) : Z := match s with SI z => z | _ => 0 end.
Definition gB (s : sx) : list Z := match s with SB b => b | _ => [] end.
Definition gL (s : sx) : list sx := match s with SL l => l | _ => [] end.
Definition gS (s : sx) : string := match s with SS t => t | _ => EmptyString end.
Definition gbool (s : sx) : bool := negb (gI s =? 0).
Definition gnat (s : sx) : nat := Z.to_nat (gI s).
Definition nthx (n : nat) (l : list sx) : sx := nth n l (SI 0).
Definition gints (s : sx) : list Z := map gI (gL s).
