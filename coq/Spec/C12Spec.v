(* Spec/C12Spec.v — what the bytes of a DWARF expression MEAN.
   Written from the standard, not from the code:
     DWARF 2 section 7.7.1 / figure 22-23; DWARF 3, 4 section 7.7.1 (figure 24);
     DWARF 5 section 2.5, 2.6 and table 7.9 (operation encodings);
     GNU extensions as emitted by GCC (dwarf2out.c size_of_loc_descr/output_loc_operands) and read
     by binutils (dwarf.c decode_location_expression);
     DW_OP_WASM_location: https://yurydelendik.github.io/webassembly-dwarf/ .
   An expression is a concatenation of operations; an operation is a 1-byte opcode
   followed by the operands its table row lists.  The encoder takes every free
   choice as an argument (LEB128 operands come with their chosen, possibly
   non-minimal, encoding), so `encode_ops` reaches every well-formed byte string. *)
From PV Require Export Spec.C12Kinds Spec.PrimSpec.
Open Scope string_scope.
Open Scope Z_scope.   (* Z on top: string operations are written with %string / String.eqb *)

(* ---------- the operation table ---------- *)
Definition digit (d : Z) : string :=
  String (Ascii.ascii_of_nat (48 + Z.to_nat d)) EmptyString.
Definition dec2 (n : Z) : string :=
  if n <? 10 then digit n else (digit (n / 10) ++ digit (n mod 10))%string.

(* DW_OP_lit0..31 = 0x30+n, DW_OP_reg0..31 = 0x50+n, DW_OP_breg0..31 = 0x70+n *)
Definition range32 (prefix : string) (base : Z) (ks : list opkind) : list (Z * (string * list opkind)) :=
  map (fun n => let z := Z.of_nat n in (base + z, ((prefix ++ dec2 z)%string, ks))) (seq 0 32).

Definition spec_optable : list (Z * (string * list opkind)) :=
  [ (0x03, ("DW_OP_addr", [ADDR]));
    (0x06, ("DW_OP_deref", []));
    (0x08, ("DW_OP_const1u", [U1]));
    (0x09, ("DW_OP_const1s", [S1]));
    (0x0a, ("DW_OP_const2u", [U2]));
    (0x0b, ("DW_OP_const2s", [S2]));
    (0x0c, ("DW_OP_const4u", [U4]));
    (0x0d, ("DW_OP_const4s", [S4]));
    (0x0e, ("DW_OP_const8u", [U8]));
    (0x0f, ("DW_OP_const8s", [S8]));
    (0x10, ("DW_OP_constu", [ULEB]));
    (0x11, ("DW_OP_consts", [SLEB]));
    (0x12, ("DW_OP_dup", []));
    (0x13, ("DW_OP_drop", []));
    (0x14, ("DW_OP_over", []));
    (0x15, ("DW_OP_pick", [U1]));
    (0x16, ("DW_OP_swap", []));
    (0x17, ("DW_OP_rot", []));
    (0x18, ("DW_OP_xderef", []));
    (0x19, ("DW_OP_abs", []));
    (0x1a, ("DW_OP_and", []));
    (0x1b, ("DW_OP_div", []));
    (0x1c, ("DW_OP_minus", []));
    (0x1d, ("DW_OP_mod", []));
    (0x1e, ("DW_OP_mul", []));
    (0x1f, ("DW_OP_neg", []));
    (0x20, ("DW_OP_not", []));
    (0x21, ("DW_OP_or", []));
    (0x22, ("DW_OP_plus", []));
    (0x23, ("DW_OP_plus_uconst", [ULEB]));
    (0x24, ("DW_OP_shl", []));
    (0x25, ("DW_OP_shr", []));
    (0x26, ("DW_OP_shra", []));
    (0x27, ("DW_OP_xor", []));
    (0x28, ("DW_OP_bra", [S2]));
    (0x29, ("DW_OP_eq", []));
    (0x2a, ("DW_OP_ge", []));
    (0x2b, ("DW_OP_gt", []));
    (0x2c, ("DW_OP_le", []));
    (0x2d, ("DW_OP_lt", []));
    (0x2e, ("DW_OP_ne", []));
    (0x2f, ("DW_OP_skip", [S2])) ]
  ++ range32 "DW_OP_lit" 0x30 []
  ++ range32 "DW_OP_reg" 0x50 []
  ++ range32 "DW_OP_breg" 0x70 [SLEB]
  ++
  [ (0x90, ("DW_OP_regx", [ULEB]));
    (0x91, ("DW_OP_fbreg", [SLEB]));
    (0x92, ("DW_OP_bregx", [ULEB; SLEB]));
    (0x93, ("DW_OP_piece", [ULEB]));
    (0x94, ("DW_OP_deref_size", [U1]));
    (0x95, ("DW_OP_xderef_size", [U1]));
    (0x96, ("DW_OP_nop", []));
    (* DWARF 3 *)
    (0x97, ("DW_OP_push_object_address", []));
    (0x98, ("DW_OP_call2", [U2]));
    (0x99, ("DW_OP_call4", [U4]));
    (0x9a, ("DW_OP_call_ref", [OFFSET]));
    (0x9b, ("DW_OP_form_tls_address", []));
    (0x9c, ("DW_OP_call_frame_cfa", []));
    (0x9d, ("DW_OP_bit_piece", [ULEB; ULEB]));
    (* DWARF 4 *)
    (0x9e, ("DW_OP_implicit_value", [BLOCK]));
    (0x9f, ("DW_OP_stack_value", []));
    (* DWARF 5 *)
    (0xa0, ("DW_OP_implicit_pointer", [OFFSET; SLEB]));
    (0xa1, ("DW_OP_addrx", [ULEB]));
    (0xa2, ("DW_OP_constx", [ULEB]));
    (0xa3, ("DW_OP_entry_value", [NESTED]));
    (0xa4, ("DW_OP_const_type", [TYPEDBLOCK]));
    (0xa5, ("DW_OP_regval_type", [ULEB; ULEB]));
    (0xa6, ("DW_OP_deref_type", [U1; ULEB]));
    (0xa7, ("DW_OP_xderef_type", [U1; ULEB]));
    (0xa8, ("DW_OP_convert", [ULEB]));
    (0xa9, ("DW_OP_reinterpret", [ULEB]));
    (* GNU and WebAssembly extensions named by the library *)
    (0xe0, ("DW_OP_GNU_push_tls_address", []));
    (0xed, ("DW_OP_WASM_location", [WASM]));
    (0xf0, ("DW_OP_GNU_uninit", []));
    (0xf2, ("DW_OP_GNU_implicit_pointer", [OFFSET; SLEB]));
    (0xf3, ("DW_OP_GNU_entry_value", [NESTED]));
    (0xf4, ("DW_OP_GNU_const_type", [TYPEDBLOCK]));
    (0xf5, ("DW_OP_GNU_regval_type", [ULEB; ULEB]));
    (0xf6, ("DW_OP_GNU_deref_type", [U1; ULEB]));
    (0xf7, ("DW_OP_GNU_convert", [ULEB]));
    (0xfa, ("DW_OP_GNU_parameter_ref", [U4])) ].   (* always 4 bytes, also in 64-bit DWARF *)

Definition spec_row (opc : Z) : option (string * list opkind) := zlookup spec_optable opc.
Definition kinds_of (opc : Z) : list opkind :=
  match spec_row opc with Some (_, ks) => ks | None => [] end.
Definition name_of (opc : Z) : string :=
  match spec_row opc with Some (n, _) => n | None => "" end.

(* DW_OP_lo_user / DW_OP_hi_user delimit the vendor range; they are not operations *)
Definition is_marker (n : string) : bool :=
  String.eqb n "DW_OP_lo_user" || String.eqb n "DW_OP_hi_user".

(* ---------- operand values ---------- *)
Inductive sval : Type :=
| VInt (v : Z)                                   (* U1..S8, ADDR, OFFSET *)
| VLeb (enc : list Z) (v : Z)                    (* ULEB / SLEB with the chosen encoding of v *)
| VBlock (lenc : list Z) (bs : list Z)           (* BLOCK: chosen ULEB128 encoding of the length, bytes *)
| VTyped (tenc : list Z) (ty : Z) (bs : list Z)  (* TYPEDBLOCK: ULEB128 type offset, 1-byte size, bytes *)
| VWasmLeb (tag : Z) (enc : list Z) (v : Z)      (* WASM, tag 0..2: ULEB128 index *)
| VWasmU32 (v : Z).                              (* WASM, tag 3: 4-byte index *)

(* an operation: plain operands, or (for the NESTED kind) an expression with the
   chosen encoding of its byte length *)
Inductive sop : Type :=
| SOp (opc : Z) (vals : list sval)
| SNest (opc : Z) (lenc : list Z) (body : list sop).

(* width in bytes and signedness of the fixed-size kinds *)
Definition fixed_kind (c : cfg) (k : opkind) : option (nat * bool) :=
  match k with
  | U1 => Some (1%nat, false) | S1 => Some (1%nat, true)
  | U2 => Some (2%nat, false) | S2 => Some (2%nat, true)
  | U4 => Some (4%nat, false) | S4 => Some (4%nat, true)
  | U8 => Some (8%nat, false) | S8 => Some (8%nat, true)
  | ADDR => Some (Z.to_nat (c_addr c), false)
  | OFFSET => Some (if c_fmt c =? 64 then 8%nat else 4%nat, false)
  | _ => None
  end.

(* enc is a complete valid (maybe non-minimal) LEB128 encoding of v: the boolean
   form of uleb_valid / sleb_valid *)
Definition uleb_ok (enc : list Z) (v : Z) : bool :=
  all_bytes enc &&
  match uleb_spec enc with Some (v', []) => v' =? v | _ => false end.
Definition sleb_ok (enc : list Z) (v : Z) : bool :=
  all_bytes enc &&
  match sleb_spec enc with Some (v', []) => v' =? v | _ => false end.

Definition in_range (n : nat) (signed : bool) (v : Z) : bool :=
  let m := 2 ^ (8 * Z.of_nat n) in
  if signed then (- (m / 2) <=? v) && (v <? m / 2) else (0 <=? v) && (v <? m).

Definition wf_val (c : cfg) (k : opkind) (x : sval) : bool :=
  match k, x with
  | ULEB, VLeb enc v => uleb_ok enc v
  | SLEB, VLeb enc v => sleb_ok enc v
  | BLOCK, VBlock lenc bs => uleb_ok lenc (zlen bs) && all_bytes bs
  | TYPEDBLOCK, VTyped tenc ty bs => uleb_ok tenc ty && (zlen bs <? 256) && all_bytes bs
  | WASM, VWasmLeb tag enc v => (0 <=? tag) && (tag <=? 2) && uleb_ok enc v
  | WASM, VWasmU32 v => in_range 4 false v
  | _, VInt v =>
      match fixed_kind c k with
      | Some (n, s) => (0 <? n)%nat && in_range n s v
      | None => false
      end
  | _, _ => false
  end.

Definition enc_val (c : cfg) (k : opkind) (x : sval) : list Z :=
  match x with
  | VInt v => match fixed_kind c k with
              | Some (n, _) => int_encode (c_le c) n v
              | None => []
              end
  | VLeb enc _ => enc
  | VBlock lenc bs => lenc ++ bs
  | VTyped tenc _ bs => tenc ++ zlen bs :: bs
  | VWasmLeb tag enc _ => tag :: enc
  | VWasmU32 v => 3 :: int_encode (c_le c) 4 v
  end.

(* the argument values a parser must report for an operand *)
Definition args_of_val (x : sval) : list pval :=
  match x with
  | VInt v => [AInt v]
  | VLeb _ v => [AInt v]
  | VBlock _ bs => [ABlob bs]
  | VTyped _ ty bs => [AInt ty; ABlob bs]
  | VWasmLeb tag _ v => [AInt tag; AInt v]
  | VWasmU32 v => [AInt 3; AInt v]
  end.

Fixpoint wf_vals (c : cfg) (ks : list opkind) (xs : list sval) : bool :=
  match ks, xs with
  | [], [] => true
  | k :: ks', x :: xs' => wf_val c k x && wf_vals c ks' xs'
  | _, _ => false
  end.
Fixpoint enc_vals (c : cfg) (ks : list opkind) (xs : list sval) : list Z :=
  match ks, xs with
  | k :: ks', x :: xs' => enc_val c k x ++ enc_vals c ks' xs'
  | _, _ => []
  end.

(* ---------- expressions ---------- *)
Fixpoint encode_op (c : cfg) (o : sop) : list Z :=
  match o with
  | SOp opc vals => opc :: enc_vals c (kinds_of opc) vals
  | SNest opc lenc body => opc :: lenc ++ concat (map (encode_op c) body)
  end.
Definition encode_ops (c : cfg) (ops : list sop) : list Z := concat (map (encode_op c) ops).

Definition is_nested (ks : list opkind) : bool :=
  match ks with [NESTED] => true | _ => false end.

(* well-formed: the opcode is in the table, the operands fit their kinds, nested
   lengths are right.  This is the property's "concatenation of well-formed operations". *)
Fixpoint wf_op (c : cfg) (o : sop) : bool :=
  match o with
  | SOp opc vals =>
      match spec_row opc with
      | Some (_, ks) => wf_vals c ks vals
      | None => false
      end
  | SNest opc lenc body =>
      match spec_row opc with
      | Some (_, ks) =>
          is_nested ks && forallb (wf_op c) body &&
          uleb_ok lenc (zlen (concat (map (encode_op c) body)))
      | None => false
      end
  end.
Definition wf_ops (c : cfg) (ops : list sop) : bool := forallb (wf_op c) ops.

(* the expected parse: opcode, name, operand values, byte offset in the enclosing
   expression; nested expressions restart their offsets at 0 *)
Fixpoint annot_op (c : cfg) (off : Z) (o : sop) : pval :=
  match o with
  | SOp opc vals => POp opc (name_of opc) (concat (map args_of_val vals)) off
  | SNest opc lenc body =>
      POp opc (name_of opc)
        [AExpr ((fix go (l : list sop) (p : Z) {struct l} : list pval :=
                   match l with
                   | [] => []
                   | x :: r => annot_op c p x :: go r (p + zlen (encode_op c x))
                   end) body 0)] off
  end.
Fixpoint annot_from (c : cfg) (ops : list sop) (off : Z) : list pval :=
  match ops with
  | [] => []
  | x :: r => annot_op c off x :: annot_from c r (off + zlen (encode_op c x))
  end.
Definition annotate (c : cfg) (ops : list sop) : list pval := annot_from c ops 0.

(* ---------- re-encoding a parse result (canonical LEB128) ---------- *)
Definition reenc_arg (c : cfg) (k : opkind) (a : pval) : list Z :=
  match k, a with
  | ULEB, AInt v => uleb_encode v
  | SLEB, AInt v => sleb_encode v
  | BLOCK, ABlob bs => uleb_encode (zlen bs) ++ bs
  | _, AInt v => match fixed_kind c k with
                 | Some (n, _) => int_encode (c_le c) n v
                 | None => []
                 end
  | _, _ => []
  end.
Fixpoint reenc_args (c : cfg) (ks : list opkind) (args : list pval) : list Z :=
  match ks, args with
  | k :: ks', a :: args' => reenc_arg c k a ++ reenc_args c ks' args'
  | _, _ => []
  end.

Fixpoint reencode_op (c : cfg) (p : pval) : list Z :=
  match p with
  | POp opc _ args _ =>
      opc ::
      match kinds_of opc, args with
      | [NESTED], [AExpr ops] =>
          let body := concat (map (reencode_op c) ops) in uleb_encode (zlen body) ++ body
      | [TYPEDBLOCK], [AInt ty; ABlob bs] => uleb_encode ty ++ zlen bs :: bs
      | [WASM], [AInt tag; AInt v] =>
          tag :: (if tag =? 3 then int_encode (c_le c) 4 v else uleb_encode v)
      | ks, _ => reenc_args c ks args
      end
  | _ => []
  end.
Definition reencode (c : cfg) (r : list pval) : list Z := concat (map (reencode_op c) r).

(* all LEB128 choices are the minimal ones *)
Definition list_eqb (a b : list Z) : bool :=
  (length a =? length b)%nat && forallb (fun '(x, y) => x =? y) (combine a b).

Definition canon_val (k : opkind) (x : sval) : bool :=
  match x with
  | VInt _ => true
  | VLeb enc v => match k with
                  | SLEB => list_eqb enc (sleb_encode v)
                  | _ => list_eqb enc (uleb_encode v)
                  end
  | VBlock lenc bs => list_eqb lenc (uleb_encode (zlen bs))
  | VTyped tenc ty _ => list_eqb tenc (uleb_encode ty)
  | VWasmLeb _ enc v => list_eqb enc (uleb_encode v)
  | VWasmU32 _ => true
  end.
Fixpoint canon_vals (ks : list opkind) (xs : list sval) : bool :=
  match ks, xs with
  | k :: ks', x :: xs' => canon_val k x && canon_vals ks' xs'
  | _, _ => true
  end.
Fixpoint canon_op (c : cfg) (o : sop) : bool :=
  match o with
  | SOp opc vals => canon_vals (kinds_of opc) vals
  | SNest opc lenc body =>
      forallb (canon_op c) body &&
      list_eqb lenc (uleb_encode (zlen (concat (map (encode_op c) body))))
  end.
Definition canon_ops (c : cfg) (ops : list sop) : bool := forallb (canon_op c) ops.

(* ---------- ill-formed expressions: the other half of "exactly" ----------
   A byte string the parser accepts is reported as a sequence of operations; the
   strings below are NOT concatenations of well-formed operations (at the marked
   place, at any nesting depth) and have to be refused rather than reported as
   some other sequence:
     BOpcode  well-formed operations, then a byte in opcode position that is not an
              operation of the table, then anything;
     BTrunc   well-formed operations, then an entry-value / implicit-value operation
              whose ULEB128 length announces [size] bytes where only [body] (shorter)
              remains in the enclosing expression;
     BInner   well-formed operations, then an entry-value operation whose block (of
              the announced length) is itself ill-formed, then anything. *)
Inductive why_bad : Type := NotAnOperation | BlockTruncated.

Inductive bexpr : Type :=
| BOpcode (pre : list sop) (opc : Z) (rest : list Z)
| BTrunc (pre : list sop) (opc : Z) (lenc : list Z) (size : Z) (body : list Z)
| BInner (pre : list sop) (opc : Z) (lenc : list Z) (inner : bexpr) (rest : list Z).

Fixpoint encode_bad (c : cfg) (b : bexpr) : list Z :=
  match b with
  | BOpcode pre opc rest => encode_ops c pre ++ opc :: rest
  | BTrunc pre opc lenc _ body => encode_ops c pre ++ opc :: lenc ++ body
  | BInner pre opc lenc inner rest => encode_ops c pre ++ opc :: lenc ++ encode_bad c inner ++ rest
  end.

Definition is_block (ks : list opkind) : bool :=
  match ks with [BLOCK] => true | _ => false end.

(* the description is accurate: the prefix is well-formed, the opcode is / is not in
   the table, the length field is a valid ULEB128 of the stated value *)
Fixpoint wf_bad (c : cfg) (b : bexpr) : bool :=
  match b with
  | BOpcode pre opc _ =>
      wf_ops c pre && match spec_row opc with None => true | Some _ => false end
  | BTrunc pre opc lenc size body =>
      wf_ops c pre &&
      match spec_row opc with Some (_, ks) => is_nested ks || is_block ks | None => false end &&
      uleb_ok lenc size && (zlen body <? size)
  | BInner pre opc lenc inner _ =>
      wf_ops c pre &&
      match spec_row opc with Some (_, ks) => is_nested ks | None => false end &&
      uleb_ok lenc (zlen (encode_bad c inner)) && wf_bad c inner
  end.

Fixpoint why_of (b : bexpr) : why_bad :=
  match b with
  | BOpcode _ _ _ => NotAnOperation
  | BTrunc _ _ _ _ _ => BlockTruncated
  | BInner _ _ _ inner _ => why_of inner
  end.
Definition why_name (w : why_bad) : string :=
  match w with NotAnOperation => "not-an-operation" | BlockTruncated => "block-truncated" end.
