(* Spec/C01Image.v — what an ELF image MEANS at header level (System V gABI
   chapter 4: ELF header, section header table, program header table, the
   extended-numbering escapes) and what C01 expects the library to report.

   An [image_spec] lists the abstract content: class, byte order, every file
   header field (raw codes), the sections in file order (name, every header
   field), the segments, the index of the section-name string table.
   [wf_image img s] says that the BYTES [img] carry that content: it is a set of
   layout predicates "these record bytes sit at that offset" over an ARBITRARY
   byte list — the header tables may be anywhere, the entry sizes may exceed the
   standard ones, everything between and after the records is unconstrained.
   It is a bool so that the driver can certify generated inputs and Props can
   exhibit a concrete inhabitant.

   Records are encoded with the gABI layouts of Spec/ElfGabi.v.  Names of codes
   are taken from the dictionaries of Gen/ElfLayouts.v (see Spec/C01Obs.v). *)
From Coq Require Import String.
From PV Require Import Base.Bytes Base.Fmt Base.Enum Base.PyData.
From PV Require Import Spec.PrimSpec Spec.ElfGabi Spec.C01Obs Gen.ElfLayouts.
Open Scope string_scope.
Open Scope Z_scope.

(* ------------------------------------------------------------------ abstract content *)
Record ehdr_spec := {
  ei_version : Z; ei_osabi : Z; ei_abiversion : Z;
  ei_pad : list Z;                 (* the 7 reserved bytes: free *)
  e_type : Z; e_machine : Z; e_version : Z; e_entry : Z; e_phoff : Z; e_shoff : Z;
  e_flags : Z; e_ehsize : Z; e_phentsize : Z; e_phnum : Z; e_shentsize : Z;
  e_shnum : Z; e_shstrndx : Z
}.
Record shdr_spec := {
  sh_name : Z; sh_type : Z; sh_flags : Z; sh_addr : Z; sh_offset : Z; sh_size : Z;
  sh_link : Z; sh_info : Z; sh_addralign : Z; sh_entsize : Z
}.
Record phdr_spec := {
  p_type : Z; p_flags : Z; p_offset : Z; p_vaddr : Z; p_paddr : Z;
  p_filesz : Z; p_memsz : Z; p_align : Z
}.
Record image_spec := {
  i_is64 : bool;                              (* ELFCLASS64 *)
  i_le : bool;                                (* ELFDATA2LSB *)
  i_ehdr : ehdr_spec;
  i_sections : list (list Z * shdr_spec);     (* name bytes, header *)
  i_segments : list phdr_spec;
  i_shstrndx : Z                              (* index of the section-name string table *)
}.

(* ------------------------------------------------------------------ encoders (gABI layouts) *)
Definition L_ehdr (s : image_spec) : layout := spec_Elf_Ehdr (i_le s) (i_is64 s).
Definition L_shdr (s : image_spec) : layout := spec_Elf_Shdr (i_le s) (i_is64 s).
Definition L_phdr (s : image_spec) : layout := spec_Elf_Phdr (i_le s) (i_is64 s).

Definition ELFMAG : list Z := [127; 69; 76; 70].

Definition ehdr_vals (s : image_spec) : list fval :=
  let e := i_ehdr s in
  [ VB ELFMAG; VZ (if i_is64 s then 2 else 1); VZ (if i_le s then 1 else 2);
    VZ (ei_version e); VZ (ei_osabi e); VZ (ei_abiversion e); VB (ei_pad e);
    VZ (e_type e); VZ (e_machine e); VZ (e_version e); VZ (e_entry e); VZ (e_phoff e);
    VZ (e_shoff e); VZ (e_flags e); VZ (e_ehsize e); VZ (e_phentsize e); VZ (e_phnum e);
    VZ (e_shentsize e); VZ (e_shnum e); VZ (e_shstrndx e) ].

Definition shdr_vals (h : shdr_spec) : list fval :=
  [ VZ (sh_name h); VZ (sh_type h); VZ (sh_flags h); VZ (sh_addr h); VZ (sh_offset h);
    VZ (sh_size h); VZ (sh_link h); VZ (sh_info h); VZ (sh_addralign h); VZ (sh_entsize h) ].

(* Elf32_Phdr and Elf64_Phdr order their members differently *)
Definition phdr_vals (is64 : bool) (p : phdr_spec) : list fval :=
  if is64 then
    [ VZ (p_type p); VZ (p_flags p); VZ (p_offset p); VZ (p_vaddr p); VZ (p_paddr p);
      VZ (p_filesz p); VZ (p_memsz p); VZ (p_align p) ]
  else
    [ VZ (p_type p); VZ (p_offset p); VZ (p_vaddr p); VZ (p_paddr p);
      VZ (p_filesz p); VZ (p_memsz p); VZ (p_flags p); VZ (p_align p) ].

Definition encode_ehdr (s : image_spec) : list Z := encode_layout (L_ehdr s) (ehdr_vals s).
Definition encode_shdr (s : image_spec) (h : shdr_spec) : list Z := encode_layout (L_shdr s) (shdr_vals h).
Definition encode_phdr (s : image_spec) (p : phdr_spec) : list Z :=
  encode_layout (L_phdr s) (phdr_vals (i_is64 s) p).

(* standard entry sizes (gABI figures 4-3, 4-8, 5-1) *)
Definition ehdr_size (s : image_spec) : Z := if i_is64 s then 64 else 52.
Definition shdr_size (s : image_spec) : Z := if i_is64 s then 64 else 40.
Definition phdr_size (s : image_spec) : Z := if i_is64 s then 56 else 32.

(* ------------------------------------------------------------------ dictionaries of this image *)
Definition ehdr_binds : binds := gen_binds_Elf_Ehdr_32.
Definition T_ehdr (f : string) : list (Z * string) := field_table ehdr_binds f.

(* decoded e_machine, and the sh_type / p_type dictionaries it selects *)
Definition exp_machine (s : image_spec) : hval := named (T_ehdr "e_machine") (e_machine (i_ehdr s)).
(* the dictionary structs.py builds the sh_type / p_type Enum from, per decoded e_machine
   (Spec/C01Machines.v states the rule these maps have to obey) *)
Definition sh_dict (k : string) : list (Z * string) :=
  table_of_id (table_id_for gen_sh_type_table_of_machine k).
Definition p_dict (k : string) : list (Z * string) :=
  table_of_id (table_id_for gen_p_type_table_of_machine k).
Definition T_sh_type (s : image_spec) : list (Z * string) := sh_dict (machine_key (exp_machine s)).
Definition T_p_type (s : image_spec) : list (Z * string) := p_dict (machine_key (exp_machine s)).

(* ------------------------------------------------------------------ what the library must report *)
Definition exp_ehdr (s : image_spec) : hrec :=
  let e := i_ehdr s in
  [ ("e_ident.EI_MAG", HB ELFMAG);
    ("e_ident.EI_CLASS", HName (if i_is64 s then "ELFCLASS64" else "ELFCLASS32"));
    ("e_ident.EI_DATA", HName (if i_le s then "ELFDATA2LSB" else "ELFDATA2MSB"));
    ("e_ident.EI_VERSION", named (T_ehdr "e_ident.EI_VERSION") (ei_version e));
    ("e_ident.EI_OSABI", named (T_ehdr "e_ident.EI_OSABI") (ei_osabi e));
    ("e_ident.EI_ABIVERSION", HZ (ei_abiversion e));
    ("e_ident.<pad>", HB (ei_pad e));
    ("e_type", named (T_ehdr "e_type") (e_type e));
    ("e_machine", named (T_ehdr "e_machine") (e_machine e));
    ("e_version", named (T_ehdr "e_version") (e_version e));
    ("e_entry", HZ (e_entry e)); ("e_phoff", HZ (e_phoff e)); ("e_shoff", HZ (e_shoff e));
    ("e_flags", HZ (e_flags e)); ("e_ehsize", HZ (e_ehsize e)); ("e_phentsize", HZ (e_phentsize e));
    ("e_phnum", HZ (e_phnum e)); ("e_shentsize", HZ (e_shentsize e)); ("e_shnum", HZ (e_shnum e));
    ("e_shstrndx", HZ (e_shstrndx e)) ].

Definition exp_shdr (s : image_spec) (h : shdr_spec) : hrec :=
  [ ("sh_name", HZ (sh_name h)); ("sh_type", named (T_sh_type s) (sh_type h));
    ("sh_flags", HZ (sh_flags h)); ("sh_addr", HZ (sh_addr h)); ("sh_offset", HZ (sh_offset h));
    ("sh_size", HZ (sh_size h)); ("sh_link", HZ (sh_link h)); ("sh_info", HZ (sh_info h));
    ("sh_addralign", HZ (sh_addralign h)); ("sh_entsize", HZ (sh_entsize h)) ].

Definition exp_phdr (s : image_spec) (p : phdr_spec) : hrec :=
  if i_is64 s then
    [ ("p_type", named (T_p_type s) (p_type p)); ("p_flags", HZ (p_flags p));
      ("p_offset", HZ (p_offset p)); ("p_vaddr", HZ (p_vaddr p)); ("p_paddr", HZ (p_paddr p));
      ("p_filesz", HZ (p_filesz p)); ("p_memsz", HZ (p_memsz p)); ("p_align", HZ (p_align p)) ]
  else
    [ ("p_type", named (T_p_type s) (p_type p)); ("p_offset", HZ (p_offset p));
      ("p_vaddr", HZ (p_vaddr p)); ("p_paddr", HZ (p_paddr p)); ("p_filesz", HZ (p_filesz p));
      ("p_memsz", HZ (p_memsz p)); ("p_flags", HZ (p_flags p)); ("p_align", HZ (p_align p)) ].

Definition n_sections (s : image_spec) : Z := zlen (i_sections s).
Definition n_segments (s : image_spec) : Z := zlen (i_segments s).

(* the decoded section / segment type *)
Definition sh_tyname (s : image_spec) (h : shdr_spec) : hval := named (T_sh_type s) (sh_type h).
Definition p_tyname (s : image_spec) (p : phdr_spec) : hval := named (T_p_type s) (p_type p).

(* ---- the specialised object kind a section type calls for, and what an object of
        that kind needs from the image to exist (the requirement its constructor checks) *)
Inductive req :=
| RNone          (* nothing beyond the header *)
| RSymtab        (* a symbol table: sh_link names a string table; sh_entsize > 0 divides sh_size *)
| RLinkSymtab    (* sh_link names a symbol table (SHT_SYMTAB / SHT_DYNSYM) *)
| RLinkStrtab    (* sh_link names a string table *)
| RRel | RRela   (* sh_entsize is the size of Elf_Rel / Elf_Rela *)
| RRelr          (* sh_entsize is the size of Elf_Relr *)
| RDynamic       (* sh_link names a string table (or an SHT_NOBITS section) *)
| RAttr          (* build attributes: format-version byte 'A' at sh_offset *)
| RHash          (* sh_link names a symbol table; a SysV hash table sits at sh_offset *)
| RGnuHash.      (* sh_link names a symbol table; a GNU hash table sits at sh_offset *)

Definition kind_table : list (string * (string * req)) :=
  [ ("SHT_STRTAB", ("StringTableSection", RNone));
    ("SHT_NULL", ("NullSection", RNone));
    ("SHT_SYMTAB", ("SymbolTableSection", RSymtab));
    ("SHT_DYNSYM", ("SymbolTableSection", RSymtab));
    ("SHT_SUNW_LDYNSYM", ("SymbolTableSection", RSymtab));
    ("SHT_SYMTAB_SHNDX", ("SymbolTableIndexSection", RNone));
    ("SHT_SUNW_syminfo", ("SUNWSyminfoTableSection", RLinkSymtab));
    ("SHT_GNU_verneed", ("GNUVerNeedSection", RLinkStrtab));
    ("SHT_GNU_verdef", ("GNUVerDefSection", RLinkStrtab));
    ("SHT_GNU_versym", ("GNUVerSymSection", RLinkSymtab));
    ("SHT_REL", ("RelocationSection", RRel));
    ("SHT_RELA", ("RelocationSection", RRela));
    ("SHT_DYNAMIC", ("DynamicSection", RDynamic));
    ("SHT_NOTE", ("NoteSection", RNone));
    ("SHT_ARM_ATTRIBUTES", ("ARMAttributesSection", RAttr));
    ("SHT_RISCV_ATTRIBUTES", ("RISCVAttributesSection", RAttr));
    ("SHT_HASH", ("ELFHashSection", RHash));
    ("SHT_GNU_HASH", ("GNUHashSection", RGnuHash));
    ("SHT_RELR", ("RelrRelocationSection", RRelr)) ].

Definition STAB_NAME : list Z := [46; 115; 116; 97; 98].     (* ".stab" *)

Definition kind_entry (ty : hval) (name : list Z) : string * req :=
  match ty with
  | HName t =>
      if (t =? "SHT_PROGBITS")%string && bytes_eqb name STAB_NAME then ("StabSection", RNone)
      else match assoc_str kind_table t with
           | Some e => e
           | None => ("Section", RNone)        (* every other standard type *)
           end
  | _ => ("Section", RNone)                    (* a code without a standard name *)
  end.
Definition spec_kind (ty : hval) (name : list Z) : string := fst (kind_entry ty name).

Definition segment_kind_table : list (string * string) :=
  [ ("PT_INTERP", "InterpSegment"); ("PT_DYNAMIC", "DynamicSegment"); ("PT_NOTE", "NoteSegment") ].
Definition spec_segment_kind (ty : hval) : string :=
  match ty with
  | HName t => match assoc_str segment_kind_table t with Some k => k | None => "Segment" end
  | _ => "Segment"
  end.

(* a section / segment as observed: name, header, kind *)
Definition exp_section (s : image_spec) (x : list Z * shdr_spec) : list Z * hrec * string :=
  (fst x, exp_shdr s (snd x), spec_kind (sh_tyname s (snd x)) (fst x)).
Definition exp_segment (s : image_spec) (p : phdr_spec) : hrec * string :=
  (exp_phdr s p, spec_segment_kind (p_tyname s p)).

(* lookups by name: the map built by enumeration keeps the LAST section bearing a name *)
Fixpoint index_of_last (name : list Z) (i : Z) (l : list (list Z * shdr_spec)) : option Z :=
  match l with
  | [] => None
  | x :: t =>
      match index_of_last name (i + 1) t with
      | Some j => Some j
      | None => if bytes_eqb (fst x) name then Some i else None
      end
  end.
Definition exp_index_by_name (s : image_spec) (name : list Z) : option Z :=
  index_of_last name 0 (i_sections s).

(* ------------------------------------------------------------------ layout predicates *)
(* the bytes [bs] sit at offset [off] of [img] *)
Fixpoint prefix_eqb (bs l : list Z) : bool :=
  match bs, l with
  | [], _ => true
  | x :: bs', y :: l' => (x =? y) && prefix_eqb bs' l'
  | _ :: _, [] => false
  end.
Definition at_ (img : list Z) (off : Z) (bs : list Z) : bool :=
  (0 <=? off) && prefix_eqb bs (drop off img).

(* consecutive table entries: record i sits at i * stride from the start of [l]
   (one pass over the table; Proofs/C01Proofs.v table_at_nth gives the pointwise reading
   "record i sits at offset start + i * stride") *)
Fixpoint table_at (l : list Z) (stride : nat) (recs : list (list Z)) : bool :=
  match recs with
  | [] => true
  | r :: t => prefix_eqb r l && table_at (skipn stride l) stride t
  end.

(* a record of layout L can be read at [off] *)
Definition readable (img : list Z) (off : Z) (L : layout) : bool :=
  (0 <=? off) && (off <? zlenT img) &&
  match decode_rec L (drop off img) with Some _ => true | None => false end.

Definition zero_shdr : shdr_spec :=
  {| sh_name := 0; sh_type := 0; sh_flags := 0; sh_addr := 0; sh_offset := 0; sh_size := 0;
     sh_link := 0; sh_info := 0; sh_addralign := 0; sh_entsize := 0 |}.

Definition nth_sec (s : image_spec) (i : Z) : option (list Z * shdr_spec) :=
  if (0 <=? i) && (i <? n_sections s) then nth_error (i_sections s) (Z.to_nat i) else None.
Definition nth_seg (s : image_spec) (j : Z) : option phdr_spec :=
  if (0 <=? j) && (j <? n_segments s) then nth_error (i_segments s) (Z.to_nat j) else None.
Definition sec0 (s : image_spec) : shdr_spec :=
  match i_sections s with x :: _ => snd x | [] => zero_shdr end.

(* ---- the file header sits at offset 0 *)
Definition ehdr_ok (img : list Z) (s : image_spec) : bool :=
  fits_layout (L_ehdr s) (ehdr_vals s) && at_ img 0 (encode_ehdr s).

(* ---- section header i sits at e_shoff + i * e_shentsize; e_shentsize >= the standard size *)
Definition sections_ok (img : list Z) (s : image_spec) : bool :=
  (n_sections s =? 0) ||
  ((shdr_size s <=? e_shentsize (i_ehdr s)) && (0 <=? e_shoff (i_ehdr s)) &&
   forallb (fun x => fits_layout (L_shdr s) (shdr_vals (snd x))) (i_sections s) &&
   table_at (drop (e_shoff (i_ehdr s)) img) (Z.to_nat (e_shentsize (i_ehdr s)))
            (map (fun x => encode_shdr s (snd x)) (i_sections s))).

(* ---- program header j sits at e_phoff + j * e_phentsize; e_phentsize >= the standard size *)
Definition segments_ok (img : list Z) (s : image_spec) : bool :=
  (n_segments s =? 0) ||
  ((phdr_size s <=? e_phentsize (i_ehdr s)) && (0 <=? e_phoff (i_ehdr s)) &&
   forallb (fun p => fits_layout (L_phdr s) (phdr_vals (i_is64 s) p)) (i_segments s) &&
   table_at (drop (e_phoff (i_ehdr s)) img) (Z.to_nat (e_phentsize (i_ehdr s)))
            (map (encode_phdr s) (i_segments s))).

(* ---- counts and the name-table index, with the three extended-numbering escapes
        (gABI: e_shnum / e_phnum / e_shstrndx).  SHN_LORESERVE = 0xff00, PN_XNUM = SHN_XINDEX = 0xffff.
        The escape may also be used below the threshold; at or above it, it must be. *)
Definition SHN_LORESERVE : Z := 0xff00.
Definition PN_XNUM : Z := 0xffff.
Definition XINDEX : Z := 0xffff.

Definition counts_ok (s : image_spec) : bool :=
  let e := i_ehdr s in
  let n := n_sections s in let m := n_segments s in let k := i_shstrndx s in
  (   ((n =? 0) && (e_shoff e =? 0) && (e_shnum e =? 0))
   || ((0 <? n) && (0 <? e_shoff e) && (n <? SHN_LORESERVE) && (e_shnum e =? n))
   || ((0 <? n) && (0 <? e_shoff e) && (e_shnum e =? 0) && (sh_size (sec0 s) =? n)) )
  &&
  (   ((m =? 0) && (e_phoff e =? 0))                  (* no program header table: e_phoff = 0 *)
   || ((0 <? e_phoff e) && (m <? PN_XNUM) && (e_phnum e =? m))
   || ((0 <? e_phoff e) && (e_phnum e =? PN_XNUM) && (0 <? n) && (sh_info (sec0 s) =? m)) )
  &&
  ( if n =? 0 then (e_shstrndx e =? 0) && (k =? 0)
    else (0 <=? k) && (k <? n) &&
         (   ((k <? SHN_LORESERVE) && (e_shstrndx e =? k))
          || ((e_shstrndx e =? XINDEX) && (sh_link (sec0 s) =? k)) ) ).

(* ---- names: NUL-terminated, at sh_name inside the designated string table *)
Definition strtab_offset (s : image_spec) : Z :=
  match nth_sec s (i_shstrndx s) with Some x => sh_offset (snd x) | None => 0 end.
Definition name_at (img : list Z) (s : image_spec) (x : list Z * shdr_spec) : bool :=
  no_nul (fst x) && at_ img (strtab_offset s + sh_name (snd x)) (fst x ++ [0]).
(* (the table offset is computed once for all the names) *)
Definition names_ok (img : list Z) (s : image_spec) : bool :=
  let off := strtab_offset s in
  forallb (fun x => no_nul (fst x) && at_ img (off + sh_name (snd x)) (fst x ++ [0])) (i_sections s).

(* ---- what the specialised objects need *)
Definition SHF_COMPRESSED_STD : Z := 0x800.

(* any section: if flagged SHF_COMPRESSED, a compression header is readable at sh_offset *)
Definition base_ok (img : list Z) (s : image_spec) (h : shdr_spec) : bool :=
  (Z.land (sh_flags h) SHF_COMPRESSED_STD =? 0) ||
  readable img (sh_offset h) (spec_Elf_Chdr (i_le s) (i_is64 s)).

Definition strtab_link_ok (img : list Z) (s : image_spec) (link : Z) : bool :=
  match nth_sec s link with
  | Some x => is_name (sh_tyname s (snd x)) "SHT_STRTAB" && base_ok img s (snd x)
  | None => false
  end.
Definition symtab_ok (img : list Z) (s : image_spec) (h : shdr_spec) : bool :=
  strtab_link_ok img s (sh_link h) && base_ok img s h &&
  (0 <? sh_entsize h) && (sh_size h mod sh_entsize h =? 0).
Definition symtab_link_ok (img : list Z) (s : image_spec) (link : Z) : bool :=
  match nth_sec s link with
  | Some x =>
      (is_name (sh_tyname s (snd x)) "SHT_SYMTAB" || is_name (sh_tyname s (snd x)) "SHT_DYNSYM")
      && symtab_ok img s (snd x)
  | None => false
  end.
Definition dynamic_link_ok (img : list Z) (s : image_spec) (link : Z) : bool :=
  match nth_sec s link with
  | Some x =>
      (is_name (sh_tyname s (snd x)) "SHT_STRTAB" || is_name (sh_tyname s (snd x)) "SHT_NOBITS")
      && base_ok img s (snd x)
  | None => false
  end.

(* the SysV hash table: 32-bit words, 64-bit entries for ELF64 Alpha / s390x *)
Definition spec_hash_layout (s : image_spec) : layout :=
  if hash_is_wide (i_is64 s) (exp_machine s) then Elf_Hash_wide (i_le s) else spec_Elf_Hash (i_le s).

Definition req_ok (img : list Z) (s : image_spec) (h : shdr_spec) (r : req) : bool :=
  match r with
  | RNone => true
  | RSymtab => symtab_ok img s h
  | RLinkSymtab => symtab_link_ok img s (sh_link h)
  | RLinkStrtab => strtab_link_ok img s (sh_link h)
  | RRel => sh_entsize h =? (if i_is64 s then 16 else 8)
  | RRela => sh_entsize h =? (if i_is64 s then 24 else 12)
  | RRelr => sh_entsize h =? (if i_is64 s then 8 else 4)
  | RDynamic => dynamic_link_ok img s (sh_link h)
  | RAttr => (sh_offset h <? zlenT img) && at_ img (sh_offset h) [65]
  | RHash => symtab_link_ok img s (sh_link h) && readable img (sh_offset h) (spec_hash_layout s)
  | RGnuHash => symtab_link_ok img s (sh_link h) &&
                readable img (sh_offset h) (spec_Gnu_Hash (i_le s) (i_is64 s))
  end.

Definition kind_ok (img : list Z) (s : image_spec) (x : list Z * shdr_spec) : bool :=
  base_ok img s (snd x) &&
  req_ok img s (snd x) (snd (kind_entry (sh_tyname s (snd x)) (fst x))).
Definition kinds_ok (img : list Z) (s : image_spec) : bool := forallb (kind_ok img s) (i_sections s).

(* files are shorter than 2^63 bytes (a stream position must fit an off_t) *)
Definition FILE_LIMIT : Z := 2 ^ 63.

(* ------------------------------------------------------------------ the well-formedness predicate *)
Definition wf_image (img : list Z) (s : image_spec) : bool :=
  (zlenT img <? FILE_LIMIT) &&
  ehdr_ok img s && counts_ok s && sections_ok img s && segments_ok img s &&
  names_ok img s && kinds_ok img s.
