(* Spec/C06Cfi.v — the call frame table of DWARF 5 section 6.4, written from the standard.
   Nothing here is derived from pyelftools.

   6.4.1  The table has one row per location; the columns are the CFA rule and one rule per
          register.  CFA rules: register+offset, or a DWARF expression.  Register rules:
          undefined, same value, offset(N), val_offset(N), register(R), expression(E),
          val_expression(E), architectural.  A register without a rule has the default rule.
   6.4.2  The instructions.  Row creation (6.4.2.1): set_loc / advance_loc* "create a new
          table row" — the current row is complete, a copy of it continues at the new
          location; advance deltas are multiplied by code_alignment_factor.  CFA definition
          (6.4.2.2): def_cfa, def_cfa_sf (offset factored by data_alignment_factor),
          def_cfa_register and def_cfa_offset(_sf) (valid only when the current CFA rule is
          register+offset), def_cfa_expression.  Register rules (6.4.2.3): factored offsets
          are multiplied by data_alignment_factor, signed for the _sf forms; restore(_extended)
          gives the register the rule the CIE's initial_instructions assigned to it (or removes
          the rule when they assigned none).  Row state (6.4.2.4): remember_state pushes the
          rules of the current row onto an implicit stack, restore_state pops them into the
          current row (the location is not part of the saved state).  nop (6.4.2.5) and the GNU
          extensions window_save/negate_ra_state and args_size do not touch the rules modelled
          here.
   6.4.3  The rows of an FDE start from the rules the CIE's initial_instructions leave; the
          end of the instruction stream closes the last row.

   Sequences the standard calls invalid have no table: the interpreter returns None for
   def_cfa_register / def_cfa_offset(_sf) without a register+offset CFA rule, restore_state on
   an empty stack, and restore(_extended) among a CIE's initial instructions.

   [columns] is not part of the standard: it is the order in which registers first appear as the
   target of a rule-setting instruction (CIE first), the order a table is printed in. *)
From PV Require Export Spec.C06Instr.

Inductive cfa_rule : Type :=
| CfaUndefined
| CfaRegOff (reg off : Z)
| CfaExpr (e : list Z).

Inductive reg_rule : Type :=
| RUndefined
| RSameValue
| ROffset (n : Z)
| RValOffset (n : Z)
| RRegister (r : Z)
| RExpression (e : list Z)
| RValExpression (e : list Z).

(* finite map register -> rule; absent = default rule.  At most one binding per register. *)
Definition rules : Type := list (Z * reg_rule).

Fixpoint rule_of (m : rules) (r : Z) : option reg_rule :=
  match m with
  | [] => None
  | (r', x) :: t => if r =? r' then Some x else rule_of t r
  end.
Fixpoint drop_rule (r : Z) (m : rules) : rules :=
  match m with
  | [] => []
  | (r', x) :: t => if r =? r' then drop_rule r t else (r', x) :: drop_rule r t
  end.
Definition set_rule (r : Z) (x : reg_rule) (m : rules) : rules := (r, x) :: drop_rule r m.

Record row : Type := mkrow { row_loc : Z; row_cfa : cfa_rule; row_regs : rules }.

Record state : Type := mkstate {
  st_loc : Z;                              (* location of the current row *)
  st_cfa : cfa_rule;
  st_regs : rules;
  st_stack : list (cfa_rule * rules);      (* remember_state / restore_state *)
  st_rows : list row;                      (* completed rows, in order *)
  st_columns : list Z                      (* registers in order of first appearance *)
}.

Record params : Type := mkparams {
  p_caf : Z;                               (* code_alignment_factor *)
  p_daf : Z;                               (* data_alignment_factor *)
  p_initial : option rules                 (* Some m: in an FDE, m = rules left by the CIE's
                                              initial instructions; None: in the CIE itself *)
}.

Definition cur_row (s : state) : row := mkrow (st_loc s) (st_cfa s) (st_regs s).

Definition new_row (loc : Z) (s : state) : state :=
  mkstate loc (st_cfa s) (st_regs s) (st_stack s) (st_rows s ++ [cur_row s]) (st_columns s).

Definition with_cfa (c : cfa_rule) (s : state) : state :=
  mkstate (st_loc s) c (st_regs s) (st_stack s) (st_rows s) (st_columns s).

Definition mention (r : Z) (cols : list Z) : list Z :=
  if existsb (Z.eqb r) cols then cols else cols ++ [r].

Definition with_rule (r : Z) (x : reg_rule) (s : state) : state :=
  mkstate (st_loc s) (st_cfa s) (set_rule r x (st_regs s)) (st_stack s) (st_rows s)
          (mention r (st_columns s)).

Definition without_rule (r : Z) (s : state) : state :=
  mkstate (st_loc s) (st_cfa s) (drop_rule r (st_regs s)) (st_stack s) (st_rows s)
          (mention r (st_columns s)).

Definition restore_reg (P : params) (r : Z) (s : state) : option state :=
  match p_initial P with
  | None => None
  | Some init =>
      match rule_of init r with
      | Some x => Some (with_rule r x s)
      | None => Some (without_rule r s)
      end
  end.

Definition step (P : params) (s : state) (i : instr) : option state :=
  match i with
  (* 6.4.2.1 row creation *)
  | I_set_loc a => Some (new_row a s)
  | I_advance_loc d | I_advance_loc1 d | I_advance_loc2 d | I_advance_loc4 d =>
      Some (new_row (st_loc s + d * p_caf P) s)
  (* 6.4.2.2 CFA definition *)
  | I_def_cfa r o => Some (with_cfa (CfaRegOff (lv r) (lv o)) s)
  | I_def_cfa_sf r o => Some (with_cfa (CfaRegOff (lv r) (lv o * p_daf P)) s)
  | I_def_cfa_register r =>
      match st_cfa s with
      | CfaRegOff _ o => Some (with_cfa (CfaRegOff (lv r) o) s)
      | _ => None
      end
  | I_def_cfa_offset o =>
      match st_cfa s with
      | CfaRegOff r _ => Some (with_cfa (CfaRegOff r (lv o)) s)
      | _ => None
      end
  | I_def_cfa_offset_sf o =>
      match st_cfa s with
      | CfaRegOff r _ => Some (with_cfa (CfaRegOff r (lv o * p_daf P)) s)
      | _ => None
      end
  | I_def_cfa_expression _ e => Some (with_cfa (CfaExpr e) s)
  (* 6.4.2.3 register rules *)
  | I_undefined r => Some (with_rule (lv r) RUndefined s)
  | I_same_value r => Some (with_rule (lv r) RSameValue s)
  | I_offset r o => Some (with_rule r (ROffset (lv o * p_daf P)) s)
  | I_offset_extended r o | I_offset_extended_sf r o =>
      Some (with_rule (lv r) (ROffset (lv o * p_daf P)) s)
  | I_val_offset r o | I_val_offset_sf r o =>
      Some (with_rule (lv r) (RValOffset (lv o * p_daf P)) s)
  | I_register r r2 => Some (with_rule (lv r) (RRegister (lv r2)) s)
  | I_expression r _ e => Some (with_rule (lv r) (RExpression e) s)
  | I_val_expression r _ e => Some (with_rule (lv r) (RValExpression e) s)
  | I_restore r => restore_reg P r s
  | I_restore_extended r => restore_reg P (lv r) s
  (* 6.4.2.4 row state *)
  | I_remember_state =>
      Some (mkstate (st_loc s) (st_cfa s) (st_regs s) ((st_cfa s, st_regs s) :: st_stack s)
                    (st_rows s) (st_columns s))
  | I_restore_state =>
      match st_stack s with
      | [] => None
      | (c, m) :: stk => Some (mkstate (st_loc s) c m stk (st_rows s) (st_columns s))
      end
  (* 6.4.2.5 padding; vendor extensions without effect on these rules *)
  | I_nop | I_GNU_window_save | I_GNU_args_size _ => Some s
  (* optional vendor opcodes: an 8-byte advance; a return-address signing toggle without effect
     on these rules; the obsolete offset_extended with the factored offset subtracted *)
  | I_MIPS_advance_loc8 d => Some (new_row (st_loc s + d * p_caf P) s)
  | I_AARCH64_negate_ra_state_with_pc => Some s
  | I_GNU_negative_offset_extended r o =>
      Some (with_rule (lv r) (ROffset (- (lv o * p_daf P))) s)
  end.

Fixpoint run (P : params) (s : state) (is : list instr) : option state :=
  match is with
  | [] => Some s
  | i :: r => match step P s i with
              | Some s' => run P s' r
              | None => None
              end
  end.

(* the table of a finished run: the completed rows, then the row the end of the instruction
   stream closes *)
Record table : Type := mktable { t_rows : list row; t_columns : list Z }.
Definition table_of (s : state) : table := mktable (st_rows s ++ [cur_row s]) (st_columns s).

(* A CIE on its own: its initial instructions run from the empty row at location 0. *)
Definition init_state : state := mkstate 0 CfaUndefined [] [] [] [].
Definition cie_params (caf daf : Z) : params := mkparams caf daf None.
Definition cie_final (caf daf : Z) (cis : list instr) : option state :=
  run (cie_params caf daf) init_state cis.
Definition cfi_spec_cie (caf daf : Z) (cis : list instr) : option table :=
  match cie_final caf daf cis with
  | Some s => Some (table_of s)
  | None => None
  end.

(* An FDE: the first row is at initial_location with the rules the CIE's initial instructions
   leave; restore refers to those rules; the state stack starts empty. *)
Definition fde_start (sc : state) (loc : Z) : state :=
  mkstate loc (st_cfa sc) (st_regs sc) [] [] (st_columns sc).
Definition cfi_spec_fde (caf daf : Z) (cis : list instr) (loc : Z) (fis : list instr)
  : option table :=
  match cie_final caf daf cis with
  | None => None
  | Some sc =>
      match run (mkparams caf daf (Some (st_regs sc))) (fde_start sc loc) fis with
      | Some s => Some (table_of s)
      | None => None
      end
  end.

(* a row "says something": it has a CFA rule or at least one register rule *)
Definition row_has_rule (r : row) : bool :=
  match row_cfa r with CfaUndefined => negb (match row_regs r with [] => true | _ => false end)
                     | _ => true end.
Definition last_row_has_rule (t : table) : bool :=
  match rev (t_rows t) with r :: _ => row_has_rule r | [] => false end.

(* The domain on which today's library is proved to agree with this interpreter (Props/C06.v):
   it drops the row the end of the instruction stream closes when that row has neither a CFA
   rule nor a register rule, and an FDE then starts from the last row the CIE's table kept.
   cie_domain: the last row of the CIE's table says something.
   fde_domain: the same for the FDE's last row, and the CIE's initial instructions either end in
   a row that says something or never create a row. *)
Definition cie_domain (caf daf : Z) (cis : list instr) : bool :=
  match cie_final caf daf cis with
  | Some sc => row_has_rule (cur_row sc)
  | None => false
  end.
Definition fde_domain (caf daf : Z) (cis : list instr) (loc : Z) (fis : list instr) : bool :=
  match cie_final caf daf cis with
  | None => false
  | Some sc =>
      (row_has_rule (cur_row sc) || match st_rows sc with [] => true | _ => false end)
      && match cfi_spec_fde caf daf cis loc fis with
         | Some t => last_row_has_rule t
         | None => false
         end
  end.
