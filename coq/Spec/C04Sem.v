(* Spec/C04Sem.v — the relations the encoded tree carries (DWARF 5 §2.3: ownership,
   sibling chains closed by a null entry; §2.3 DW_AT_sibling; §7.5.4 reference
   classes; §7.5.5 / §7.26-7.29 string, address and list index forms).
   Written from the standard; nothing here refers to the library. *)
From Coq Require Import String.
From PV Require Export Spec.C04Spec.
From Coq Require Import ZArith List Bool Lia.
Import ListNotations.
Open Scope Z_scope.

(* ------------------------------------------------------------------ the tree with offsets *)
Inductive xnode : Type :=
| XNode (d : xdie) (kids : list xnode) (term : option xdie).

Definition xn_die (n : xnode) : xdie := match n with XNode d _ _ => d end.
Definition xn_kids (n : xnode) : list xnode := match n with XNode _ k _ => k end.
Definition xn_term (n : xnode) : option xdie := match n with XNode _ _ t => t end.
(* where the subtree of n ends *)
Definition xn_end (n : xnode) : Z :=
  match n with
  | XNode d _ (Some t) => x_end t
  | XNode d _ None => x_end d
  end.

Section Tree.
  Variables (name_tag name_at name_form : Z -> ename).
  Variable c : cfg.
  Variable ds : list adecl.

  Fixpoint expect_tree (d : die) (off : Z) : xnode :=
    match d with
    | Node code vs ks tm =>
        let e := expect_entry name_tag name_at name_form c ds (FEntry code vs) off in
        if has_kids ds (lv code) then
          let fix go (l : list die) (o : Z) : list xnode * Z :=
            match l with
            | [] => ([], o)
            | k :: r => let n := expect_tree k o in
                        let '(ns, o') := go r (xn_end n) in (n :: ns, o')
            end in
          let '(ns, o) := go ks (x_end e) in
          XNode e ns (Some (expect_entry name_tag name_at name_form c ds (FNull tm) o))
        else XNode e [] None
    end.
End Tree.

(* pre-order walk: every entry (null entries included) with the offsets of its
   children, of the null entry closing them, and of its parent *)
Record xrel : Type := mkxrel {
  xr_die : xdie; xr_kids : list Z; xr_term : option Z; xr_parent : option Z
}.
Fixpoint relations (n : xnode) (parent : option Z) : list xrel :=
  match n with
  | XNode d ks t =>
      let me := Some (x_off d) in
      mkxrel d (map (fun k => x_off (xn_die k)) ks) (option_map x_off t) parent
      :: flat_map (fun k => relations k me) ks
      ++ match t with Some td => [mkxrel td [] None me] | None => [] end
  end.

(* §2.3: a DW_AT_sibling attribute, when present, refers to the next sibling entry
   (for the last child: the null entry that ends the chain is where a reader must resume) *)
Definition AT_sibling : Z := 0x01.
Definition is_unit_ref (form : Z) : bool :=
  (form =? 0x11) || (form =? 0x12) || (form =? 0x13) || (form =? 0x14) || (form =? 0x15) ||
  (form =? 0x02).                           (* DW_FORM_ref (DWARF 1): 4-byte, relative to the unit *)
Definition FORM_ref_addr : Z := 0x10.
Definition FORM_ref_sig8 : Z := 0x20.

(* numeric view of the attributes of an entry: (name code, final form code, raw) *)
Fixpoint attr_codes (c : cfg) (specs : list aspec) (vals : list operand) : list (Z * Z * rawval) :=
  match specs, vals with
  | a :: sr, v :: vr =>
      (lv (a_name a), final_form (lv (a_form a)) v,
       match a_const a with Some l => RInt (lv l) | None => raw_of v end) :: attr_codes c sr vr
  | _, _ => []
  end.
Definition entry_codes (c : cfg) (ds : list adecl) (code : lebn) (vals : list operand) : list (Z * Z * rawval) :=
  match find_decl ds (lv code) with Some d => attr_codes c (d_attrs d) vals | None => [] end.

Fixpoint find_code (l : list (Z * Z * rawval)) (name : Z) : option (Z * rawval) :=
  match l with
  | [] => None
  | (n, f, r) :: t => if n =? name then Some (f, r) else find_code t name
  end.

(* the sibling attribute of a child designates [next] (section offset); unit_off: start of the unit.
   in_info: the unit lives in .debug_info (a DW_FORM_ref_addr value is an offset into .debug_info) *)
Definition sibling_ok (in_info : bool) (unit_off : Z) (codes : list (Z * Z * rawval)) (next : Z) : bool :=
  match find_code codes AT_sibling with
  | None => true
  | Some (f, RInt v) =>
      if is_unit_ref f then unit_off + v =? next
      else if f =? FORM_ref_addr then in_info && (v =? next)
      else false
  | Some _ => false
  end.

Definition die_code (d : die) : lebn := match d with Node c _ _ _ => c end.
Definition die_vals (d : die) : list operand := match d with Node _ v _ _ => v end.

Section Siblings.
  Variable c : cfg.
  Variable ds : list adecl.
  Variable in_info : bool.
  Variable unit_off : Z.
  (* walk the abstract tree and its annotated twin together *)
  Fixpoint siblings_wf (d : die) (n : xnode) {struct d} : bool :=
    match d with
    | Node code vs ks tm =>
        let t := xn_term n in
        let fix go (l : list die) (m : list xnode) {struct l} : bool :=
          match l, m with
          | [], [] => true
          | k :: r, kn :: mr =>
              let next := match mr with
                          | nx :: _ => x_off (xn_die nx)
                          | [] => match t with Some td => x_off td | None => 0 end
                          end in
              (negb (has_kids ds (lv (die_code k))) ||
               sibling_ok in_info unit_off (entry_codes c ds (die_code k) (die_vals k)) next)
              && siblings_wf k kn && go r mr
          | _, _ => false
          end in
        go ks (xn_kids n)
    end.
End Siblings.

(* ------------------------------------------------------------------ resolved values *)
Record xsections : Type := mkxsections {
  xs_str : list Z; xs_line_str : list Z; xs_str_offsets : list Z; xs_addr : list Z;
  xs_loclists : list Z; xs_rnglists : list Z
}.

(* the NUL-terminated string that starts here *)
Fixpoint until_nul (bs : list Z) : option (list Z) :=
  match bs with
  | [] => None
  | b :: r => if b =? 0 then Some []
              else match until_nul r with Some s => Some (b :: s) | None => None end
  end.
Definition cstring_at (sec : list Z) (off : Z) : option (list Z) :=
  if (0 <=? off) && (off <=? zlen sec) then until_nul (skipn (Z.to_nat off) sec) else None.
Definition uint_at (le : bool) (n : nat) (sec : list Z) (pos : Z) : option Z :=
  if (0 <=? pos) && (pos + Z.of_nat n <=? zlen sec)
  then Some (int_decode le (firstn n (skipn (Z.to_nat pos) sec))) else None.

Definition AT_str_offsets_base : Z := 0x72.
Definition AT_addr_base : Z := 0x73.
Definition AT_rnglists_base : Z := 0x74.
Definition AT_loclists_base : Z := 0x8c.

Definition is_strx_form (f : Z) : bool := (f =? 0x1a) || ((0x25 <=? f) && (f <=? 0x28)).
Definition is_addrx_form (f : Z) : bool := (f =? 0x1b) || ((0x29 <=? f) && (f <=? 0x2c)).

Definition base_of (root : list (Z * Z * rawval)) (name : Z) : option Z :=
  match find_code root name with
  | Some (_, RInt v) => Some v
  | _ => None
  end.

Definition opt_bytes (o : option (list Z)) : option value :=
  match o with Some s => Some (VBytes s) | None => None end.

(* DWARF 5 §7.5.5 (strp, line_strp), §7.26 (strx*: .debug_str_offsets[base + i * offset_size] is an
   offset into .debug_str), §7.27 (addrx*: .debug_addr[base + i * address_size]), §7.28/7.29
   (rnglistx/loclistx: base + offsets[i]), flags as truth values; everything else is the raw value.
   root: the attributes of the unit's root entry (they carry the DW_AT_*_base values). *)
Definition resolve (c : cfg) (S : xsections) (root : list (Z * Z * rawval)) (form : Z) (raw : rawval)
  : option value :=
  match raw with
  | RInt v =>
      if form =? 0x0e then opt_bytes (cstring_at (xs_str S) v)
      else if form =? 0x1f then opt_bytes (cstring_at (xs_line_str S) v)
      else if form =? 0x0c then Some (VBool (negb (v =? 0)))
      else if is_addrx_form form then
        match base_of root AT_addr_base with
        | Some b => match uint_at (c_le c) (addr_size c) (xs_addr S) (b + v * Z.of_nat (addr_size c)) with
                    | Some a => Some (VInt a) | None => None end
        | None => None
        end
      else if is_strx_form form then
        match base_of root AT_str_offsets_base with
        | Some b => match uint_at (c_le c) (off_size c) (xs_str_offsets S) (b + v * Z.of_nat (off_size c)) with
                    | Some o => opt_bytes (cstring_at (xs_str S) o) | None => None end
        | None => None
        end
      else if form =? 0x22 then
        match base_of root AT_loclists_base with
        | Some b => match uint_at (c_le c) (off_size c) (xs_loclists S) (b + v * Z.of_nat (off_size c)) with
                    | Some o => Some (VInt (b + o)) | None => None end
        | None => None
        end
      else if form =? 0x23 then
        match base_of root AT_rnglists_base with
        | Some b => match uint_at (c_le c) (off_size c) (xs_rnglists S) (b + v * Z.of_nat (off_size c)) with
                    | Some o => Some (VInt (b + o)) | None => None end
        | None => None
        end
      else Some (VInt v)
  | _ => if form =? 0x19 then Some (VBool true) else Some (value_of_raw raw)
  end.

Definition resolve_all (c : cfg) (S : xsections) (root codes : list (Z * Z * rawval)) : list (option value) :=
  map (fun '(_, f, r) => resolve c S root f r) codes.

(* per-entry numeric attribute lists, in flattening order (null entries: []) *)
Definition entries_codes (c : cfg) (ds : list adecl) (es : list fentry) : list (list (Z * Z * rawval)) :=
  map (fun e => match e with FEntry code vals => entry_codes c ds code vals | FNull _ => [] end) es.
Definition root_codes (u : unit) : list (Z * Z * rawval) :=
  match u_root u with Node code vs _ _ => entry_codes (u_cfg u) (t_decls (u_table u)) code vs end.

(* ------------------------------------------------------------------ references (§7.5.4) *)
(* a placed unit: where it starts in its section *)
Record punit : Type := mkpunit { p_unit : unit; p_off : Z; p_in_info : bool }.

Definition unit_sig (u : unit) : option (Z * Z) :=
  match u_kind u with
  | UKtype s t | UKsplit_type s t | UKtypes4 s t => Some (s, t)
  | _ => None
  end.

Fixpoint find_entry (xs : list xdie) (off : Z) : option xdie :=
  match xs with
  | [] => None
  | d :: r => if x_off d =? off then Some d else find_entry r off
  end.

Section Refs.
  Variables (name_tag name_at name_form : Z -> ename).
  Definition punit_entries (p : punit) : list xdie :=
    let u := p_unit p in
    expect_entries name_tag name_at name_form (u_cfg u) (t_decls (u_table u)) (unit_entries u)
                   (p_off p + header_size u).

  Fixpoint find_in_units (ps : list punit) (off : Z) : option (punit * xdie) :=
    match ps with
    | [] => None
    | p :: r => if p_in_info p then
                  match find_entry (punit_entries p) off with
                  | Some d => Some (p, d)
                  | None => find_in_units r off
                  end
                else find_in_units r off
    end.
  Fixpoint find_type_unit (ps : list punit) (sig : Z) : option punit :=
    match ps with
    | [] => None
    | p :: r => match unit_sig (p_unit p) with
                | Some (s, _) => if s =? sig then Some p else find_type_unit r sig
                | None => find_type_unit r sig
                end
    end.

  (* the entry a reference attribute of an entry of unit [p] designates: (section is .debug_info?, unit offset, entry) *)
  Definition ref_target (ps : list punit) (p : punit) (form : Z) (raw : rawval) : option (bool * Z * xdie) :=
    match raw with
    | RInt v =>
        if is_unit_ref form then
          match find_entry (punit_entries p) (p_off p + v) with
          | Some d => Some (p_in_info p, p_off p, d) | None => None end
        else if form =? FORM_ref_addr then
          match find_in_units ps v with
          | Some (q, d) => Some (true, p_off q, d) | None => None end
        else if form =? FORM_ref_sig8 then
          match find_type_unit ps v with
          | Some q => match unit_sig (p_unit q) with
                      | Some (_, toff) =>
                          match find_entry (punit_entries q) (p_off q + toff) with
                          | Some d => Some (p_in_info q, p_off q, d) | None => None end
                      | None => None
                      end
          | None => None
          end
        else None
    | _ => None
    end.
End Refs.

Definition is_ref_form (form : Z) : bool := is_unit_ref form || (form =? FORM_ref_addr) || (form =? FORM_ref_sig8).

(* units laid end to end from offset 0 *)
Fixpoint place_units (in_info : bool) (us : list unit) (off : Z) : list punit :=
  match us with
  | [] => []
  | u :: r => mkpunit u off in_info :: place_units in_info r (off + zlen (encode_unit u))
  end.
Definition encode_section (us : list unit) : list Z := concat (map encode_unit us).
