(* Spec/C06View.v — how the meaning the specifications give to a section (Spec/C06Entries.v,
   Spec/C06Cfi.v) is observed through the library's API types (Model/C06Callframe.v,
   Model/C06Table.v): the CallFrameInstruction of an abstract instruction, the CIE/FDE/ZERO
   objects a well-formed section must yield, and when a DecodedCallFrameTable shows a table of
   the reference interpreter. *)
From PV Require Export Spec.C06Entries Spec.C06Cfi Model.C06Table.
Open Scope Z_scope.

(* ---------------------------------------------------------------- instructions *)
(* "opcodes and operands": the opcode byte as it appears, the operands in order, the operand
   embedded in the low 6 bits first, a block as the list of its bytes *)
Definition args_of (i : instr) : list arg :=
  match i with
  | I_advance_loc d => [AInt d]
  | I_offset r o => [AInt r; AInt (lv o)]
  | I_restore r => [AInt r]
  | I_nop | I_remember_state | I_restore_state | I_GNU_window_save
  | I_AARCH64_negate_ra_state_with_pc => []
  | I_MIPS_advance_loc8 d => [AInt d]
  | I_GNU_negative_offset_extended r o => [AInt (lv r); AInt (lv o)]
  | I_set_loc a => [AInt a]
  | I_advance_loc1 d | I_advance_loc2 d | I_advance_loc4 d => [AInt d]
  | I_offset_extended r o | I_register r o | I_def_cfa r o | I_val_offset r o
  | I_offset_extended_sf r o | I_def_cfa_sf r o | I_val_offset_sf r o => [AInt (lv r); AInt (lv o)]
  | I_restore_extended r | I_undefined r | I_same_value r | I_def_cfa_register r
  | I_def_cfa_offset r | I_def_cfa_offset_sf r | I_GNU_args_size r => [AInt (lv r)]
  | I_def_cfa_expression _ e => [ABlock e]
  | I_expression r _ e | I_val_expression r _ e => [AInt (lv r); ABlock e]
  end.
Definition to_raw (i : instr) : CallFrameInstruction := mkinstr (opcode_of i) (args_of i).

(* ---------------------------------------------------------------- tables *)
Definition view_cfa (c : cfa_rule) : CFARule :=
  match c with
  | CfaUndefined => mkCFARule None (Some 0) None       (* the library's "no CFA rule yet" *)
  | CfaRegOff r o => mkCFARule (Some r) (Some o) None
  | CfaExpr e => mkCFARule None None (Some e)
  end.
Definition view_rule (x : reg_rule) : RegisterRule :=
  match x with
  | RUndefined => mkRegisterRule UNDEFINED None
  | RSameValue => mkRegisterRule SAME_VALUE None
  | ROffset n => mkRegisterRule OFFSET (Some (AInt n))
  | RValOffset n => mkRegisterRule VAL_OFFSET (Some (AInt n))
  | RRegister r => mkRegisterRule REGISTER (Some (AInt r))
  | RExpression e => mkRegisterRule EXPRESSION (Some (ABlock e))
  | RValExpression e => mkRegisterRule VAL_EXPRESSION (Some (ABlock e))
  end.

(* a line shows a row: same location, same CFA rule, the same rule for EVERY register *)
Definition regs_match (d : regdict) (m : rules) : Prop :=
  forall k, reg_get d k = option_map view_rule (rule_of m k).
Definition line_matches (l : line) (r : row) : Prop :=
  pc l = row_loc r /\ cfa l = view_cfa (row_cfa r) /\ regs_match (regs l) (row_regs r).
Definition table_matches (d : DecodedCallFrameTable) (t : Spec.C06Cfi.table) : Prop :=
  Forall2 line_matches (table d) (t_rows t) /\ reg_order d = t_columns t.
Definition result_matches (r : res DecodedCallFrameTable) (t : Spec.C06Cfi.table) : Prop :=
  match r with Ok d => table_matches d t | Err _ => False end.

(* ---------------------------------------------------------------- entries *)
Section View.
  Variable s : ssection.
  Let eh := s_eh s.
  Let le := s_le s.
  Let asize := s_asize s.
  Let es := s_entries s.

  Definition structs_of (fmt64 : bool) : structs :=
    mkstructs le (if fmt64 then 64 else 32) (Z.of_nat asize).

  (* the augmentation dictionary: one key per augmentation character ('z': the data length,
     'L': the LSDA encoding byte, 'R': the FDE encoding byte, 'P': the personality routine as
     (encoding byte, encoded value), 'S': a flag) *)
  Definition is_S (a : aug_item) : bool := match a with AugS => true | _ => false end.
  Fixpoint dict_of_items (items : list aug_item) (d : augdict) : augdict :=
    match items with
    | [] => d
    | AugR f pc :: r =>
        dict_of_items r (mkaugdict (ad_length d) (ad_LSDA_encoding d) (Some (enc_byte f pc))
                                   (ad_personality d) (ad_True d))
    | AugL e :: r =>
        dict_of_items r (mkaugdict (ad_length d)
                                   (Some (match e with Some (f, pc) => enc_byte f pc
                                                     | None => DW_EH_PE_omit_code end))
                                   (ad_FDE_encoding d) (ad_personality d) (ad_True d))
    | AugP hi f v :: r =>
        dict_of_items r (mkaugdict (ad_length d) (ad_LSDA_encoding d) (ad_FDE_encoding d)
                                   (Some (mkpers (16 * hi + format_code f) (lv v))) (ad_True d))
    | AugS :: r => dict_of_items r d
    end.
  Definition view_augdict (c : scie) : augdict :=
    match c_aug c with
    | None => empty_augdict
    | Some (len, items) =>
        dict_of_items items (mkaugdict (Some (lv len)) None None None (existsb is_S items))
    end.

  Definition view_cie (off : Z) (c : scie) : entry :=
    CIE (mkcie_header (zlen (cie_body eh le asize c)) (cie_id eh (c_fmt64 c)) (c_version c)
                      (aug_string c)
                      (if 4 <=? c_version c then Some (Z.of_nat asize) else None)
                      (if 4 <=? c_version c then Some 0 else None)
                      (lv (c_caf c)) (lv (c_daf c)) (lv (c_rar c)))
        (map to_raw (c_instrs c)) off (view_augdict c) (aug_data le asize c)
        (structs_of (c_fmt64 c)).

  (* offset in the section of the FDE's initial_location field and of its LSDA pointer *)
  Definition loc_field_off (off : Z) (f : sfde) : Z :=
    off + (if f_fmt64 f then 12 else 4) + (if f_fmt64 f then 8 else 4).
  Definition lsda_field_off (off : Z) (c : scie) (f : sfde) : Z :=
    loc_field_off off f
    + zlen (encode_ptr le asize (fde_format eh c) (f_loc f))
    + zlen (encode_ptr le asize (fde_format eh c) (f_range f))
    + zlen (lb (f_auglen f)).

  Definition view_fde (off : Z) (f : sfde) : entry :=
    let c := cie_at es (f_cie f) in
    let p := cie_pointer_of s off f in
    FDE (mkfde_header (zlen (fde_body eh le asize c p f)) p
                      (ptr_meaning (fde_pcrel eh c) (s_addr s) (loc_field_off off f)
                                   (lv (f_loc f)))
                      (lv (f_range f)))
        (map to_raw (f_instrs f)) off (structs_of (f_fmt64 f))
        (view_cie (entry_offset_of s (f_cie f)) c)
        (if fde_has_auglen eh c then fde_lsda_bytes eh le asize c f else [])
        (match fde_lsda_enc eh c with
         | Some (_, pc) => Some (ptr_meaning pc (s_addr s) (lsda_field_off off c f)
                                             (lv (f_lsda f)))
         | None => None
         end).

  Definition view_entry (off : Z) (e : sentry) : entry :=
    match e with
    | SCie c => view_cie off c
    | SFde f => view_fde off f
    | SZero => ZERO off
    end.

  Fixpoint view_from (off : Z) (l : list sentry) : list entry :=
    match l with
    | [] => []
    | e :: r => view_entry off e :: view_from (off + entry_size s e) r
    end.
  (* the entries a reader of the section must report, in order *)
  Definition expected_entries : list entry := view_from 0 es.

  (* the object DWARFInfo.CFI_entries / EH_CFI_entries builds for this section *)
  Definition cfi_of : CallFrameInfo :=
    mkcfi (encode_section s) (zlen (encode_section s)) (s_addr s)
          (mkstructs le 32 (Z.of_nat asize)) eh.

  (* the table section 6.4 gives entry [e] at offset [off] *)
  Definition expected_table (off : Z) (e : sentry) : option Spec.C06Cfi.table :=
    match e with
    | SCie c => cfi_spec_cie (lv (c_caf c)) (lv (c_daf c)) (c_instrs c)
    | SFde f =>
        let c := cie_at es (f_cie f) in
        cfi_spec_fde (lv (c_caf c)) (lv (c_daf c)) (c_instrs c)
                     (ptr_meaning (fde_pcrel eh c) (s_addr s) (loc_field_off off f)
                                  (lv (f_loc f)))
                     (f_instrs f)
    | SZero => None
    end.

  (* the domain of the restricted table theorems (Spec/C06Cfi.cie_domain / fde_domain), per entry *)
  Definition entry_domain (off : Z) (e : sentry) : bool :=
    match e with
    | SCie c => cie_domain (lv (c_caf c)) (lv (c_daf c)) (c_instrs c)
    | SFde f =>
        let c := cie_at es (f_cie f) in
        fde_domain (lv (c_caf c)) (lv (c_daf c)) (c_instrs c)
                   (ptr_meaning (fde_pcrel eh c) (s_addr s) (loc_field_off off f)
                                (lv (f_loc f)))
                   (f_instrs f)
    | SZero => true
    end.
End View.
